/-
  SpecKitV.Props.PipelineClosed — the CAPSTONE of the chain  kernels = reference (C01)  →  pipeline = reference on its own plan (C05):
  the translated per-bin loop `Gen._lpsd_core` (region LpsdCore) and the translated kernel section of `compute_single_bin`, run with

    * `_build_Q`        := `BuildQ.libQ`                     the TRANSLATED `core._build_Q` (region BuildQ; value of `Gen._build_Q`)
    * `_select_backend` := `EPLpsd.selTranslated cuda numba`  the TRANSLATED `core._select_backend` (region EntryPoints), any module flags, any hint
    * the 18 kernels    := `LpsdCoreGen.genFamilyAll u`       the TRANSLATED Numba kernels, CUDA wrappers and NumPy fallbacks (any `np.empty` contents)

  return, bin by bin, the reference estimator `Model.refStats / refStatsAuto` on the bin's own (f, L, D) with the window built for L and the
  library's own basis for (L, order).  No abstract parameter stands for library code any more; what stays a parameter is data: the record(s),
  the plan arrays, the window callable, the two module flags, the backend hint.

  Why a separate file.  Until region BuildQ the theorems of Props/LpsdCoreGen and Props/C05 carried `hQ : ∀ L, (bq L order).m = order + 1`.
  Props/BuildQGen proves the library's basis has `min(L, order+1)` columns, so that hypothesis was FALSE of the real basis function (at L = 1 for
  order 1, at L ≤ 2 for order 2): the pipeline theorems could not be instantiated with the code that really runs.  The hypotheses there are now
  "at the segment lengths of the bins read"; here they are discharged for `libQ`:

    order −1, 0 : no basis is built;                          every L (the plan validation has L ≥ 1)
    order 1     : `L ≥ 2`  ⇒ 2 columns ⇒ reference of order 1;  `L = 1` ⇒ 1 × 1 basis `[±1]`, the sample is its own trend, all statistics 0
    order 2     : `L ≥ 3`  ⇒ 3 columns ⇒ reference of order 2;  `L ≤ 2` ⇒ complete L × L basis, the segment is its own trend, all statistics 0

  and in the short cases the reference estimator evaluated with the library's basis (whose columns beyond `min(L, order+1)` do not exist: the
  model reads them as 0: `libQ_get_beyond`) is the zero tuple as well (`refStats_libQ_short`), so `pipeline_closed_cross / _auto` state
  "= reference" for EVERY `L ≥ 1`, and `pipeline_closed_short` states the zero tuple outright.  The NumPy fallbacks with the `1 × 1` basis
  (`L = 1`), which Props/BuildQGen left to the oracle, are proved here (`np_poly_*_libQ_L1`), so no backend is excluded at any length.
  The schedulers: every bin of an admissible LTF / LPSD plan has `L ≥ 2`, of an admissible plan of the `new` scheduler `L ≥ 3`
  (`ltfPlan_L_ge_two`, `lpsdPlan_L_ge_two`, `newPlan_L_ge_three`, from the grid theorems of Props/C03).
-/
import SpecKitV.Props.LpsdCoreGen
import SpecKitV.Props.BuildQGen
import SpecKitV.Props.EntryPointsLpsd
import SpecKitV.Props.C03
open Finset

set_option linter.unusedVariables false
set_option linter.unusedSimpArgs false

namespace PipelineClosed
open LpsdCoreGen BuildQ

/-! ### 1. the library's basis at an integer order -/

/-- the supported polynomial orders as naturals -/
theorem order_nat (order : ℤ) (h : order = 1 ∨ order = 2) :
    ∃ p : ℕ, (p = 1 ∨ p = 2) ∧ ((p : ℕ) : ℤ) = order ∧ (order + 1).toNat = p + 1 := by
  rcases h with rfl | rfl
  · exact ⟨1, Or.inl rfl, rfl, rfl⟩
  · exact ⟨2, Or.inr rfl, rfl, rfl⟩

/-- column count of the translated `_build_Q(L, order)`: `min(L, order + 1)` — NOT `order + 1` for every `L` -/
theorem libQ_cols_min (order : ℤ) (h : order = 1 ∨ order = 2) (L : ℕ) (hL : 1 ≤ L) :
    (libQ L order).m = min L (order + 1).toNat := by
  obtain ⟨p, hp, rfl, hp1⟩ := order_nat order h
  rw [hp1]
  exact (libQ_isPolyBasis L hL p hp).m_eq

/-- `order + 1` columns from `L = order + 1` on -/
theorem libQ_cols (order : ℤ) (h : order = 1 ∨ order = 2) (L : ℕ) (hL : (order + 1).toNat ≤ L) :
    (libQ L order).m = (order + 1).toNat := by
  obtain ⟨p, hp, rfl, hp1⟩ := order_nat order h
  rw [hp1] at hL ⊢
  exact libQ_m L p hp hL

/-- at least two columns from `L = 2` on (what the NumPy fallbacks need) -/
theorem libQ_two_cols (order : ℤ) (h : order = 1 ∨ order = 2) (L : ℕ) (hL : 2 ≤ L) : 2 ≤ (libQ L order).m := by
  rw [libQ_cols_min order h L (by omega)]
  obtain ⟨p, hp, _, hp1⟩ := order_nat order h
  rw [hp1]
  omega

/-- the over-strong hypothesis the older statements carried is false of the library's basis: `_build_Q(1, order)` has ONE column -/
theorem old_hypothesis_false (order : ℤ) (h : order = 1 ∨ order = 2) : ¬ ∀ L, (libQ L order).m = (order + 1).toNat := by
  intro hall
  have h1 := libQ_cols_min order h 1 le_rfl
  rw [hall 1] at h1
  obtain ⟨p, hp, _, hp1⟩ := order_nat order h
  rw [hp1] at h1
  omega

/-- the columns that do not exist (`k ≥ min(L, order+1)`) read as 0 in the model (`Np.colOf` beyond the list of Gram–Schmidt columns) -/
theorem qrReducedQ_get_beyond (V : Arr2 ℝ) (n k : ℕ) (hk : min V.n V.m ≤ k)
    (hlen : (forRange (min V.n V.m) ([] : List (Arr ℝ)) (fun k qs => Np.gsStep V k qs)).length = min V.n V.m) :
    (Np.qrReducedQ V).get n k = 0 := by
  unfold Np.qrReducedQ
  simp only [Np.colOf]
  rw [List.getD_eq_default _ _ (by rw [hlen]; exact hk)]
  simp

theorem gs_length (V : Arr2 ℝ) (r : ℕ) :
    (forRange r ([] : List (Arr ℝ)) (fun k qs => Np.gsStep V k qs)).length = r := by
  refine forRange_inv (fun it (qs : List (Arr ℝ)) => qs.length = it) _ _ _ rfl ?_
  intro it qs _ h
  simp only [Np.gsStep, List.length_append, List.length_cons, List.length_nil, h]

/-- the translated `_build_Q(L, p)` is the reduced-QR factor of an `L × (p+1)` matrix (whatever its columns are: read off the generated
    definition by the same guard evaluation as `BuildQ.gen_build_Q_isPolyBasis`) -/
theorem libQ_is_qr (L p : ℕ) (hp : p = 1 ∨ p = 2) :
    ∃ V : Arr2 ℝ, libQ L (p : ℤ) = Np.qrReducedQ V ∧ V.n = L ∧ V.m = p + 1 := by
  have key : ∃ V : Arr2 ℝ, Gen._build_Q (α := ℝ) L (p : ℤ) = some (Np.qrReducedQ V) ∧ V.n = L ∧ V.m = p + 1 := by
    rcases hp with rfl | rfl
    · build_q_guards
      exact ⟨_, rfl, by simp [Np.stackCols, Np.ones], by simp [Np.stackCols]⟩
    · build_q_guards
      exact ⟨_, rfl, by simp [Np.stackCols, Np.ones], by simp [Np.stackCols]⟩
  obtain ⟨V, hV, hn, hm⟩ := key
  exact ⟨V, by rw [libQ, hV, Option.getD_some], hn, hm⟩

theorem libQ_get_beyond (order : ℤ) (h : order = 1 ∨ order = 2) (L : ℕ) (n k : ℕ) (hk : min L (order + 1).toNat ≤ k) :
    (libQ L order).get n k = 0 := by
  obtain ⟨p, hp, rfl, hp1⟩ := order_nat order h
  obtain ⟨V, hV, hn, hm⟩ := libQ_is_qr L p hp
  rw [hV]
  refine qrReducedQ_get_beyond V n k ?_ (gs_length V _)
  rw [hn, hm, ← hp1]
  exact hk

/-! ### 2. the reference estimator with the library's basis on a short segment (`L ≤ order`) is the zero tuple -/

/-- columns that read as 0 drop out of the projection -/
theorem detr_cols_beyond (p : ℕ) (hp : 1 ≤ p) (r : ℕ) (hr : r ≤ p + 1) (Q : ℕ → ℕ → ℝ) (hz : ∀ n k, r ≤ k → Q n k = 0)
    (x : ℕ → ℝ) (s L n : ℕ) :
    Model.detr (p : ℤ) Q x s L n = x (s + n) - ∑ k ∈ range r, Q n k * ∑ m ∈ range L, Q m k * x (s + m) := by
  rw [detr_poly_eq p hp]
  congr 1
  refine (Finset.sum_subset (Finset.range_subset_range.2 hr) (fun k _ hk => ?_)).symm
  rw [hz n k (by simpa using hk), zero_mul]

theorem detr_libQ_short_zero (L p : ℕ) (hp : p = 1 ∨ p = 2) (hL : 1 ≤ L) (hLp : L ≤ p) (x : ℕ → ℝ) (s n : ℕ) (hn : n < L) :
    Model.detr (p : ℤ) (libQ L p).get x s L n = 0 := by
  have hz : ∀ n k, L ≤ k → (libQ L (p : ℤ)).get n k = 0 := fun n k hk =>
    libQ_get_beyond (p : ℤ) (by rcases hp with rfl | rfl <;> simp) L n k (by
      have : ((p : ℤ) + 1).toNat = p + 1 := by omega
      rw [this, min_eq_left (by omega)]; exact hk)
  rw [detr_cols_beyond p (by omega) L (by omega) _ hz]
  obtain ⟨hm, ho⟩ := libQ_complete L p hp hL (by omega)
  by_cases h1 : L = 1
  · subst h1
    obtain rfl : n = 0 := by omega
    obtain ⟨_, h00⟩ := libQ_L1 p hp
    simp only [sum_range_one, Nat.add_zero]
    rw [← mul_assoc, h00, one_mul, sub_self]
  · have hL1 : L = (L - 1) + 1 := by omega
    have h := detr_complete_basis_zero (L - 1) (by omega) (libQ L p).get L hL1 (by rw [← hL1]; exact ho) x s n hn
    rw [detr_poly_eq (L - 1) (by omega), ← hL1] at h
    exact h

theorem segDFT_libQ_short_zero (L p : ℕ) (hp : p = 1 ∨ p = 2) (hL : 1 ≤ L) (hLp : L ≤ p) (x : ℕ → ℝ) (s : ℕ) (w : ℕ → ℝ) (ω : ℝ) :
    Model.segDFT (p : ℤ) (libQ L p).get x s L w ω = ⟨0, 0⟩ := by
  simp only [Model.segDFT, sumRange_eq_sum, RL.zero_eq]
  have h : ∀ n ∈ range L, Model.detr (p : ℤ) (libQ L p).get x s L n = 0 :=
    fun n hn => detr_libQ_short_zero L p hp hL hLp x s n (mem_range.1 hn)
  congr 1
  · exact sum_eq_zero (fun n hn => by rw [h n hn, mul_zero, zero_mul])
  · rw [sum_eq_zero (fun n hn => by rw [h n hn, mul_zero, zero_mul]), sub_zero]

/-- short segments, cross: the REFERENCE with the library's basis is the zero tuple (the segment is its own trend) -/
theorem refStats_libQ_short (order : ℤ) (h : order = 1 ∨ order = 2) (L : ℕ) (hL : 1 ≤ L) (hLp : L < (order + 1).toNat)
    (x y : ℕ → ℝ) (starts : ℕ → ℕ) (K : ℕ) (w : ℕ → ℝ) (ω : ℝ) :
    Model.refStats order (libQ L order).get x y starts K L w ω = (0, 0, 0, 0, 0) := by
  obtain ⟨p, hp, rfl, hp1⟩ := order_nat order h
  exact refStats_zero_of_segDFT_zero _ _ _ _ _ _ _ _ _ (fun s => segDFT_libQ_short_zero L p hp hL (by omega) _ s _ ω)
    (fun s => segDFT_libQ_short_zero L p hp hL (by omega) _ s _ ω)

theorem refStatsAuto_libQ_short (order : ℤ) (h : order = 1 ∨ order = 2) (L : ℕ) (hL : 1 ≤ L) (hLp : L < (order + 1).toNat)
    (x : ℕ → ℝ) (starts : ℕ → ℕ) (K : ℕ) (w : ℕ → ℝ) (ω : ℝ) :
    Model.refStatsAuto order (libQ L order).get x starts K L w ω = (0, 0, 0, 0, 0) := by
  obtain ⟨p, hp, rfl, hp1⟩ := order_nat order h
  exact refStatsAuto_zero_of_segDFT_zero _ _ _ _ _ _ _ _ (fun s => segDFT_libQ_short_zero L p hp hL (by omega) _ s _ ω)

/-! ### 3. one bin: the dispatched TRANSLATED kernel called with the TRANSLATED basis -/

/-- short segment: the dispatched Numba kernel with the library's basis returns the zero tuple -/
theorem dispatch_libQ_short (iscsd : Bool) (order : ℤ) (h : order = 1 ∨ order = 2) (x1 x2 : Arr ℝ) (fs : ℝ) (b : Model.PBin ℝ)
    (hK : 0 < b.D.n) (w : Arr ℝ) (hL : 1 ≤ b.L) (hLp : b.L < (order + 1).toNat) :
    Model.dispatch iscsd order x1 x2 fs b w (some (libQ b.L order)) = (0, 0, 0, 0, 0) := by
  obtain ⟨p, hp, rfl, hp1⟩ := order_nat order h
  obtain ⟨f, L, D⟩ := b
  dsimp only at hK hL hLp ⊢
  have hm1 : ¬ ((p : ℤ) = -1) := by omega
  have h0 : ¬ ((p : ℤ) = 0) := by omega
  simp only [Model.dispatch, if_neg hm1, if_neg h0, if_pos h]
  by_cases h1 : L = 1
  · subst h1
    cases iscsd
    · simp only [Bool.false_eq_true, if_false]
      exact (stats_poly_auto_libQ_L1 p hp x1 D hK w _).1
    · simp only [if_true]
      exact (stats_poly_csd_libQ_L1 p hp x1 x2 D hK w _).1
  · cases iscsd
    · simp only [Bool.false_eq_true, if_false]
      exact stats_poly_auto_libQ_short L p hp (by omega) (by omega) x1 D hK w _
    · simp only [if_true]
      exact stats_poly_csd_libQ_short L p hp (by omega) (by omega) x1 x2 D hK w _

/-- one bin, cross, EVERY segment length `L ≥ 1`: dispatched translated kernel with the translated basis = reference with that basis -/
theorem dispatch_libQ_eq_ref_cross (order : ℤ) (hord : order = -1 ∨ order = 0 ∨ order = 1 ∨ order = 2)
    (x1 x2 : Arr ℝ) (fs : ℝ) (b : Model.PBin ℝ) (hK : 0 < b.D.n) (w : Arr ℝ) (hL : order = 1 ∨ order = 2 → 1 ≤ b.L) :
    Model.dispatch true order x1 x2 fs b w (if order = 1 ∨ order = 2 then some (libQ b.L order) else none)
      = Model.refStats order (libQ b.L order).get x1.get x2.get b.D.get b.D.n b.L w.get (2 * Real.pi * b.f / fs) := by
  by_cases hs : (order = 1 ∨ order = 2) ∧ b.L < (order + 1).toNat
  · obtain ⟨h, hLp⟩ := hs
    rw [if_pos h, dispatch_libQ_short true order h x1 x2 fs b hK w (hL h) hLp, refStats_libQ_short order h b.L (hL h) hLp]
  · exact dispatch_eq_ref_cross order hord x1 x2 fs b hK w (libQ b.L order)
      (fun h => libQ_cols order h b.L (by by_contra hc; exact hs ⟨h, by omega⟩))

theorem dispatch_libQ_eq_ref_auto (order : ℤ) (hord : order = -1 ∨ order = 0 ∨ order = 1 ∨ order = 2)
    (x1 x2 : Arr ℝ) (fs : ℝ) (b : Model.PBin ℝ) (hK : 0 < b.D.n) (w : Arr ℝ) (hL : order = 1 ∨ order = 2 → 1 ≤ b.L) :
    Model.dispatch false order x1 x2 fs b w (if order = 1 ∨ order = 2 then some (libQ b.L order) else none)
      = Model.refStatsAuto order (libQ b.L order).get x1.get b.D.get b.D.n b.L w.get (2 * Real.pi * b.f / fs) := by
  by_cases hs : (order = 1 ∨ order = 2) ∧ b.L < (order + 1).toNat
  · obtain ⟨h, hLp⟩ := hs
    rw [if_pos h, dispatch_libQ_short false order h x1 x2 fs b hK w (hL h) hLp, refStatsAuto_libQ_short order h b.L (hL h) hLp]
  · exact dispatch_eq_ref_auto order hord x1 x2 fs b hK w (libQ b.L order)
      (fun h => libQ_cols order h b.L (by by_contra hc; exact hs ⟨h, by omega⟩))

/-! ### 4. the NumPy fallbacks with a ONE-column basis (`_build_Q(1, order)` is `1 × 1`): the kernel theorems of Props/NumpyKernelsGen ask for
    at least two columns, so the two polynomial fallbacks are unfolded once more (same proof script, another unfolding lemma for the trend) -/

/-- a one-column basis extended by a zero column -/
noncomputable def oneCol (Qa : Arr2 ℝ) : ℕ → ℕ → ℝ := fun n k => if k = 0 then Qa.get n 0 else 0

theorem detr_oneCol (Qa : Arr2 ℝ) (x : ℕ → ℝ) (s L n : ℕ) :
    Model.detr ((1 : ℕ) : ℤ) (oneCol Qa) x s L n = x (s + n) - ∑ k ∈ range 1, Qa.get n k * ∑ m ∈ range L, Qa.get m k * x (s + m) := by
  rw [detr_poly_eq 1 le_rfl]
  simp [oneCol, sum_range_succ]

theorem np_poly_csd_onecol (x1 x2 : Arr ℝ) (starts : Arr ℕ) (hK : 0 < starts.n) (L : ℕ) (w : Arr ℝ) (ω : ℝ)
    (Qa : Arr2 ℝ) (hQ : Qa.m = 1) (c : ℕ) (hc : 1 ≤ c) (u : ℕ → ℕ → ℝ) :
    Gen._stats_poly_csd_np x1 x2 starts L w ω Qa c u
      = Model.refStats ((1 : ℕ) : ℤ) (oneCol Qa) x1.get x2.get starts.get starts.n L w.get ω := by
  unfold Gen._stats_poly_csd_np
  np_csd_proof (fun j => Model.segDFT ((1 : ℕ) : ℤ) (oneCol Qa) x1.get (starts.get j) L w.get ω),
    (fun j => Model.segDFT ((1 : ℕ) : ℤ) (oneCol Qa) x2.get (starts.get j) L w.get ω), starts, c, hK, hc, [detr_oneCol, hQ]

theorem np_poly_auto_onecol (x : Arr ℝ) (starts : Arr ℕ) (hK : 0 < starts.n) (L : ℕ) (w : Arr ℝ) (ω : ℝ)
    (Qa : Arr2 ℝ) (hQ : Qa.m = 1) (c : ℕ) (hc : 1 ≤ c) (u : ℕ → ℕ → ℝ) :
    Gen._stats_poly_auto_np x starts L w ω Qa c u
      = Model.refStatsAuto ((1 : ℕ) : ℤ) (oneCol Qa) x.get starts.get starts.n L w.get ω := by
  unfold Gen._stats_poly_auto_np
  np_auto_proof (fun j => Model.segDFT ((1 : ℕ) : ℤ) (oneCol Qa) x.get (starts.get j) L w.get ω), starts, c, hK, hc, [detr_oneCol, hQ]

theorem segDFT_oneCol_libQ_L1 (p : ℕ) (hp : p = 1 ∨ p = 2) (x : ℕ → ℝ) (s : ℕ) (w : ℕ → ℝ) (ω : ℝ) :
    Model.segDFT ((1 : ℕ) : ℤ) (oneCol (libQ 1 p)) x s 1 w ω = ⟨0, 0⟩ := by
  obtain ⟨_, h00⟩ := libQ_L1 p hp
  have h : Model.detr ((1 : ℕ) : ℤ) (oneCol (libQ 1 p)) x s 1 0 = 0 := by
    rw [detr_oneCol]
    simp only [sum_range_one, Nat.add_zero]
    rw [← mul_assoc, h00, one_mul, sub_self]
  simp only [Model.segDFT, sumRange_eq_sum, RL.zero_eq, sum_range_one, h, mul_zero, zero_mul, sub_zero]

/-- `L = 1`, NumPy fallbacks with the library's `1 × 1` basis: every statistic is 0 — the case Props/BuildQGen left to the oracle -/
theorem np_poly_csd_libQ_L1 (p : ℕ) (hp : p = 1 ∨ p = 2) (x1 x2 : Arr ℝ) (starts : Arr ℕ) (hK : 0 < starts.n) (w : Arr ℝ) (ω : ℝ)
    (c : ℕ) (hc : 1 ≤ c) (u : ℕ → ℕ → ℝ) :
    Gen._stats_poly_csd_np x1 x2 starts 1 w ω (libQ 1 p) c u = (0, 0, 0, 0, 0) := by
  rw [np_poly_csd_onecol x1 x2 starts hK 1 w ω (libQ 1 p) (libQ_L1 p hp).1 c hc u]
  exact refStats_zero_of_segDFT_zero _ _ _ _ _ _ _ _ _ (fun s => segDFT_oneCol_libQ_L1 p hp _ s _ ω)
    (fun s => segDFT_oneCol_libQ_L1 p hp _ s _ ω)

theorem np_poly_auto_libQ_L1 (p : ℕ) (hp : p = 1 ∨ p = 2) (x : Arr ℝ) (starts : Arr ℕ) (hK : 0 < starts.n) (w : Arr ℝ) (ω : ℝ)
    (c : ℕ) (hc : 1 ≤ c) (u : ℕ → ℕ → ℝ) :
    Gen._stats_poly_auto_np x starts 1 w ω (libQ 1 p) c u = (0, 0, 0, 0, 0) := by
  rw [np_poly_auto_onecol x starts hK 1 w ω (libQ 1 p) (libQ_L1 p hp).1 c hc u]
  exact refStatsAuto_zero_of_segDFT_zero _ _ _ _ _ _ _ _ (fun s => segDFT_oneCol_libQ_L1 p hp _ s _ ω)

/-- NumPy fallback = Numba kernel when called with the library's basis for `(L, order)`, EVERY `L ≥ 1`, every segment count including 0 -/
theorem np_numba_agree_poly_libQ (order : ℤ) (h : order = 1 ∨ order = 2) (L : ℕ) (hL : 1 ≤ L) (x1 x2 : Arr ℝ) (starts : Arr ℕ) (w : Arr ℝ)
    (ω : ℝ) (c : ℕ) (hc : 1 ≤ c) (u : ℕ → ℕ → ℝ) :
    Gen._stats_poly_auto_np x1 starts L w ω (libQ L order) c u = Gen._stats_poly_auto x1 starts L w ω (libQ L order) ∧
    Gen._stats_poly_csd_np x1 x2 starts L w ω (libQ L order) c u = Gen._stats_poly_csd x1 x2 starts L w ω (libQ L order) := by
  by_cases h1 : L = 1
  · subst h1
    obtain ⟨p, hp, rfl, _⟩ := order_nat order h
    by_cases hK0 : starts.n = 0
    · constructor
      · rw [gen_np_poly_auto_K0 x1 starts hK0]; unfold Gen._stats_poly_auto Gen._reduce_stats_nb; simp [hK0]
      · rw [gen_np_poly_csd_K0 x1 x2 starts hK0]; unfold Gen._stats_poly_csd Gen._reduce_stats_nb; simp [hK0]
    · have hK : 0 < starts.n := Nat.pos_of_ne_zero hK0
      exact ⟨by rw [np_poly_auto_libQ_L1 p hp x1 starts hK w ω c hc u, (stats_poly_auto_libQ_L1 p hp x1 starts hK w ω).1],
        by rw [np_poly_csd_libQ_L1 p hp x1 x2 starts hK w ω c hc u, (stats_poly_csd_libQ_L1 p hp x1 x2 starts hK w ω).1]⟩
  · have h2 : 2 ≤ (libQ L order).m := libQ_two_cols order h L (by omega)
    exact ⟨np_numba_agree_poly_auto x1 starts L w ω _ ((libQ L order).m - 1) (by omega) (by omega) c hc u,
      np_numba_agree_poly_csd x1 x2 starts L w ω _ ((libQ L order).m - 1) (by omega) (by omega) c hc u⟩

/-! ### 5. the 18 translated kernels, selected by NAME, called with the translated basis = the Numba instance `Model.dispatch` -/

theorem dispatchWith_genFamilyAll_libQ (u : ℕ → ℕ → ℝ) (backend : String) (iscsd : Bool) (order : ℤ) (x1 x2 : Arr ℝ) (fs : ℝ)
    (b : Model.PBin ℝ) (w : Arr ℝ) (hL : order = 1 ∨ order = 2 → 1 ≤ b.L) :
    Model.dispatchWith ((genFamilyAll u).pick backend) iscsd order x1 x2 fs b w (if order = 1 ∨ order = 2 then some (libQ b.L order) else none)
      = Model.dispatch iscsd order x1 x2 fs b w (if order = 1 ∨ order = 2 then some (libQ b.L order) else none) := by
  by_cases h1 : backend = "cuda"
  · subst h1
    have : (genFamilyAll u).pick "cuda" = genCuda6 := rfl
    rw [this, genCuda6_eq_genNumba6, dispatchWith_numba]
  · by_cases h2 : backend = "numba"
    · subst h2
      have : (genFamilyAll u).pick "numba" = genNumba6 := rfl
      rw [this, dispatchWith_numba]
    · have : (genFamilyAll u).pick backend = genNp6 u := by
        unfold genFamilyAll NpLC.KernelFamily.pick NpLC.KernelFamily.ofBackends
        simp only [h1, h2, if_false]
      rw [this]
      obtain ⟨c1, c2, c3, c4, c5, c6⟩ := gen_np_default_chunks_pos
      unfold Model.dispatchWith Model.dispatch genNp6
      dsimp only
      by_cases ho1 : order = -1
      · simp only [ho1, if_true, np_numba_agree_win_only_auto _ _ _ _ _ _ c1, np_numba_agree_win_only_csd _ _ _ _ _ _ _ c2]
      · by_cases ho0 : order = 0
        · simp only [ho0, if_true, np_numba_agree_detrend0_auto _ _ _ _ _ _ c3, np_numba_agree_detrend0_csd _ _ _ _ _ _ _ c4]
          rfl
        · by_cases ho12 : order = 1 ∨ order = 2
          · simp only [if_neg ho1, if_neg ho0, if_pos ho12]
            rw [(np_numba_agree_poly_libQ order ho12 b.L (hL ho12) x1 x2 b.D w _ _ c5 u).1,
              (np_numba_agree_poly_libQ order ho12 b.L (hL ho12) x1 x2 b.D w _ _ c6 u).2]
          · simp only [if_neg ho1, if_neg ho0, if_neg ho12]

/-! ### 6. the per-bin loop and the single-bin section for ANY backend decision function (then instantiated with the translated one) -/

theorem lpsd_core_libQ_eq_ref_cross (u : ℕ → ℕ → ℝ) (sel : ℕ → String → String) (wf : NpLC.WinFunc ℝ) (alpha : ℝ) (order : ℤ)
    (hord : order = -1 ∨ order = 0 ∨ order = 1 ∨ order = 2) (cb : String) (x1 x2 : Arr ℝ) (fs : ℝ) (nx : ℤ)
    (pL : Arr ℕ) (pD : Arr (Arr ℕ)) (pf : Arr ℝ) (idx : List ℕ)
    (hK : ∀ i ∈ idx, 0 < (pD.get i).n) (hL : order = 1 ∨ order = 2 → ∀ i ∈ idx, 1 ≤ pL.get i) :
    ((Gen._lpsd_core (genFamilyAll u) libQ sel wf alpha order cb x1 x2 true fs nx pL pD pf idx).2).map rowStats
      = idx.map (fun i => Model.refStats order (libQ (pL.get i) order).get x1.get x2.get (pD.get i).get (pD.get i).n (pL.get i)
          (Model.lpsdWindow wf alpha (pL.get i)).get (2 * Real.pi * pf.get i / fs)) := by
  rw [gen_lpsd_core_rows, List.map_map]
  apply List.map_congr_left
  intro i hi
  simp only [Function.comp, rowAt, rowStats_lpsdRow]
  exact (dispatchWith_genFamilyAll_libQ u _ true order x1 x2 fs (Model.pbinAt pf pL pD i) _ (fun h => hL h i hi)).trans
    (dispatch_libQ_eq_ref_cross order hord x1 x2 fs (Model.pbinAt pf pL pD i) (hK i hi) _ (fun h => hL h i hi))

theorem lpsd_core_libQ_eq_ref_auto (u : ℕ → ℕ → ℝ) (sel : ℕ → String → String) (wf : NpLC.WinFunc ℝ) (alpha : ℝ) (order : ℤ)
    (hord : order = -1 ∨ order = 0 ∨ order = 1 ∨ order = 2) (cb : String) (x1 x2 : Arr ℝ) (fs : ℝ) (nx : ℤ)
    (pL : Arr ℕ) (pD : Arr (Arr ℕ)) (pf : Arr ℝ) (idx : List ℕ)
    (hK : ∀ i ∈ idx, 0 < (pD.get i).n) (hL : order = 1 ∨ order = 2 → ∀ i ∈ idx, 1 ≤ pL.get i) :
    ((Gen._lpsd_core (genFamilyAll u) libQ sel wf alpha order cb x1 x2 false fs nx pL pD pf idx).2).map rowStats
      = idx.map (fun i => Model.refStatsAuto order (libQ (pL.get i) order).get x1.get (pD.get i).get (pD.get i).n (pL.get i)
          (Model.lpsdWindow wf alpha (pL.get i)).get (2 * Real.pi * pf.get i / fs)) := by
  rw [gen_lpsd_core_rows, List.map_map]
  apply List.map_congr_left
  intro i hi
  simp only [Function.comp, rowAt, rowStats_lpsdRow]
  exact (dispatchWith_genFamilyAll_libQ u _ false order x1 x2 fs (Model.pbinAt pf pL pD i) _ (fun h => hL h i hi)).trans
    (dispatch_libQ_eq_ref_auto order hord x1 x2 fs (Model.pbinAt pf pL pD i) (hK i hi) _ (fun h => hL h i hi))

/-- a bin whose segments are not longer than the detrend order: every statistic the loop stores for it is 0 -/
theorem lpsd_core_libQ_short (u : ℕ → ℕ → ℝ) (sel : ℕ → String → String) (wf : NpLC.WinFunc ℝ) (alpha : ℝ) (order : ℤ)
    (h12 : order = 1 ∨ order = 2) (cb : String) (x1 x2 : Arr ℝ) (iscsd : Bool) (fs : ℝ) (nx : ℤ)
    (pL : Arr ℕ) (pD : Arr (Arr ℕ)) (pf : Arr ℝ) (idx : List ℕ) (j : ℕ) (hj : j < idx.length)
    (hK : 0 < (pD.get idx[j]).n) (hL : 1 ≤ pL.get idx[j]) (hLp : pL.get idx[j] < (order + 1).toNat) :
    (((Gen._lpsd_core (genFamilyAll u) libQ sel wf alpha order cb x1 x2 iscsd fs nx pL pD pf idx).2).map rowStats)[j]?
      = some (0, 0, 0, 0, 0) := by
  rw [gen_lpsd_core_rows, List.map_map, List.getElem?_map, List.getElem?_eq_getElem hj]
  simp only [Option.map_some, Function.comp, rowAt, rowStats_lpsdRow]
  congr 1
  refine (dispatchWith_genFamilyAll_libQ u _ iscsd order x1 x2 fs (Model.pbinAt pf pL pD idx[j]) _ (fun _ => hL)).trans ?_
  rw [if_pos h12]
  exact dispatch_libQ_short iscsd order h12 x1 x2 fs (Model.pbinAt pf pL pD idx[j]) hK _ hL hLp

/-- the kernel section of `compute_single_bin` on the 18 translated kernels with the translated basis: the Numba instance of the dispatch -/
theorem single_bin_libQ (u : ℕ → ℕ → ℝ) (sel : ℕ → String → String) (wf : NpLC.WinFunc ℝ) (alpha : ℝ) (order : ℤ)
    (hord : order = -1 ∨ order = 0 ∨ order = 1 ∨ order = 2) (cb : String) (x1 x2 : Arr ℝ) (iscsd : Bool) (fs : ℝ) (nx : ℤ)
    (freq fres : ℝ) (segL : ℕ) (starts : Arr ℕ) (hL : order = 1 ∨ order = 2 → 1 ≤ segL) :
    Gen.single_bin_kernel_section (genFamilyAll u) libQ sel wf alpha order cb x1 x2 iscsd fs nx freq fres segL starts
      = (decide ((Model.lpsdWindow wf alpha segL).n ≠ segL),
          (let s := Model.dispatch iscsd order x1 x2 fs ⟨freq, segL, starts⟩ (Model.lpsdWindow wf alpha segL)
              (if order = 1 ∨ order = 2 then some (libQ segL order) else none)
           (s.1, s.2.1, (⟨s.2.2.1, s.2.2.2.1⟩ : Cx ℝ), (Model.winSums (Model.lpsdWindow wf alpha segL)).1,
            (Model.winSums (Model.lpsdWindow wf alpha segL)).2, s.2.2.2.2))) := by
  rw [gen_single_bin_section_eq_model (genFamilyAll u) libQ sel wf alpha order hord cb x1 x2 iscsd fs nx freq fres segL starts _ rfl]
  unfold singleOut
  dsimp only
  rw [show Model.dispatchWith ((genFamilyAll u).pick (sel starts.n cb)) iscsd order x1 x2 fs ⟨freq, segL, starts⟩
        (Model.lpsdWindow wf alpha segL) (if order = 1 ∨ order = 2 then some (libQ segL order) else none)
      = Model.dispatch iscsd order x1 x2 fs ⟨freq, segL, starts⟩ (Model.lpsdWindow wf alpha segL)
        (if order = 1 ∨ order = 2 then some (libQ segL order) else none) from
    dispatchWith_genFamilyAll_libQ u _ iscsd order x1 x2 fs ⟨freq, segL, starts⟩ _ hL]

/-! ### 7. THE CAPSTONE: nothing abstract stands for library code -/

/-- **pipeline_closed_cross.**  The translated `_lpsd_core`, run with the translated `_build_Q`, the translated `_select_backend` (any module
    flags `cuda numba`, any hint `cb`) and the 18 translated kernels (any `np.empty` contents `u`), for every pair of records, every window
    callable, every plan (index list `idx` into the arrays `pL pD pf`), every order in {−1, 0, 1, 2}, returns for every bin exactly the reference
    estimator on that bin's own `(f, L, D)`, with the window built for `L` and the library's basis for `(L, order)`.
    Hypotheses that remain: `hord` (the code raises for any other order), `hK` (every bin has a segment: plan() rejects an empty `D`, the
    reference divides by `K`), `hL` (orders 1, 2 only: `L ≥ 1`, which plan() enforces — `_build_Q(0, ·)` is not modelled).
    Lower bound on `L` per order for the reference to be the GENUINE polynomial detrend of that order (basis with `order + 1` columns):
    none for −1, 0; `L ≥ 2` for order 1; `L ≥ 3` for order 2.  Below it the equation still holds, and both sides are the zero tuple
    (`pipeline_closed_short`, `refStats_libQ_short`). -/
theorem pipeline_closed_cross (cuda numba : Bool) (u : ℕ → ℕ → ℝ) (wf : NpLC.WinFunc ℝ) (alpha : ℝ) (order : ℤ)
    (hord : order = -1 ∨ order = 0 ∨ order = 1 ∨ order = 2) (cb : String) (x1 x2 : Arr ℝ) (fs : ℝ) (nx : ℤ)
    (pL : Arr ℕ) (pD : Arr (Arr ℕ)) (pf : Arr ℝ) (idx : List ℕ)
    (hK : ∀ i ∈ idx, 0 < (pD.get i).n) (hL : order = 1 ∨ order = 2 → ∀ i ∈ idx, 1 ≤ pL.get i) :
    ((Gen._lpsd_core (genFamilyAll u) libQ (EPLpsd.selTranslated cuda numba) wf alpha order cb x1 x2 true fs nx pL pD pf idx).2).map rowStats
      = idx.map (fun i => Model.refStats order (libQ (pL.get i) order).get x1.get x2.get (pD.get i).get (pD.get i).n (pL.get i)
          (Model.lpsdWindow wf alpha (pL.get i)).get (2 * Real.pi * pf.get i / fs)) :=
  lpsd_core_libQ_eq_ref_cross u _ wf alpha order hord cb x1 x2 fs nx pL pD pf idx hK hL

/-- **pipeline_closed_auto.**  The same in auto mode (`iscsd = False`; the second record is not read) -/
theorem pipeline_closed_auto (cuda numba : Bool) (u : ℕ → ℕ → ℝ) (wf : NpLC.WinFunc ℝ) (alpha : ℝ) (order : ℤ)
    (hord : order = -1 ∨ order = 0 ∨ order = 1 ∨ order = 2) (cb : String) (x1 x2 : Arr ℝ) (fs : ℝ) (nx : ℤ)
    (pL : Arr ℕ) (pD : Arr (Arr ℕ)) (pf : Arr ℝ) (idx : List ℕ)
    (hK : ∀ i ∈ idx, 0 < (pD.get i).n) (hL : order = 1 ∨ order = 2 → ∀ i ∈ idx, 1 ≤ pL.get i) :
    ((Gen._lpsd_core (genFamilyAll u) libQ (EPLpsd.selTranslated cuda numba) wf alpha order cb x1 x2 false fs nx pL pD pf idx).2).map rowStats
      = idx.map (fun i => Model.refStatsAuto order (libQ (pL.get i) order).get x1.get (pD.get i).get (pD.get i).n (pL.get i)
          (Model.lpsdWindow wf alpha (pL.get i)).get (2 * Real.pi * pf.get i / fs)) :=
  lpsd_core_libQ_eq_ref_auto u _ wf alpha order hord cb x1 x2 fs nx pL pD pf idx hK hL

/-- **short segments, stated outright.**  A bin with `1 ≤ L ≤ order` (that is: order 1 with `L = 1`; order 2 with `L = 1` or `L = 2`): every
    statistic stored for it — MXX, MYY, Re XY, Im XY, M2 — is 0, in both modes, on every backend -/
theorem pipeline_closed_short (cuda numba : Bool) (u : ℕ → ℕ → ℝ) (wf : NpLC.WinFunc ℝ) (alpha : ℝ) (order : ℤ)
    (h12 : order = 1 ∨ order = 2) (cb : String) (x1 x2 : Arr ℝ) (iscsd : Bool) (fs : ℝ) (nx : ℤ)
    (pL : Arr ℕ) (pD : Arr (Arr ℕ)) (pf : Arr ℝ) (idx : List ℕ) (j : ℕ) (hj : j < idx.length)
    (hK : 0 < (pD.get idx[j]).n) (hL : 1 ≤ pL.get idx[j]) (hLp : pL.get idx[j] < (order + 1).toNat) :
    (((Gen._lpsd_core (genFamilyAll u) libQ (EPLpsd.selTranslated cuda numba) wf alpha order cb x1 x2 iscsd fs nx pL pD pf idx).2).map
        rowStats)[j]? = some (0, 0, 0, 0, 0) :=
  lpsd_core_libQ_short u _ wf alpha order h12 cb x1 x2 iscsd fs nx pL pD pf idx j hj hK hL hLp

/-- the window sums stored with every bin and the plan index of every row (no hypothesis; restated for the closed instance) -/
theorem pipeline_closed_sums (cuda numba : Bool) (u : ℕ → ℕ → ℝ) (wf : NpLC.WinFunc ℝ) (alpha : ℝ) (order : ℤ) (cb : String)
    (x1 x2 : Arr ℝ) (iscsd : Bool) (fs : ℝ) (nx : ℤ) (pL : Arr ℕ) (pD : Arr (Arr ℕ)) (pf : Arr ℝ) (idx : List ℕ) :
    ((Gen._lpsd_core (genFamilyAll u) libQ (EPLpsd.selTranslated cuda numba) wf alpha order cb x1 x2 iscsd fs nx pL pD pf idx).2).map rowSums
      = idx.map (fun i => Model.winSums (Model.lpsdWindow wf alpha (pL.get i))) ∧
    ((Gen._lpsd_core (genFamilyAll u) libQ (EPLpsd.selTranslated cuda numba) wf alpha order cb x1 x2 iscsd fs nx pL pD pf idx).2).map
      (fun r => r.1) = idx :=
  gen_lpsd_core_sums _ _ _ wf alpha order cb x1 x2 iscsd fs nx pL pD pf idx

/-- **single bin, cross.**  The translated kernel section of `compute_single_bin` (its own window closure, `omega`, `detrend_mode`, basis, the
    second copy of the 18-way dispatch) with the translated `_build_Q`, `_select_backend` and kernels: XX, YY, XY, M2 are the reference estimator
    on the requested `(freq, segL, starts)`, `S12 = (Σw)²`, `S2 = Σw²`; it raises exactly when the window callable returns another length.
    `segL ≥ 1` for the polynomial orders (the request arithmetic of `compute_single_bin` guarantees it), at least one segment. -/
theorem pipeline_closed_single_bin_cross (cuda numba : Bool) (u : ℕ → ℕ → ℝ) (wf : NpLC.WinFunc ℝ) (alpha : ℝ) (order : ℤ)
    (hord : order = -1 ∨ order = 0 ∨ order = 1 ∨ order = 2) (cb : String) (x1 x2 : Arr ℝ) (fs : ℝ) (nx : ℤ)
    (freq fres : ℝ) (segL : ℕ) (starts : Arr ℕ) (hK : 0 < starts.n) (hL : order = 1 ∨ order = 2 → 1 ≤ segL) :
    Gen.single_bin_kernel_section (genFamilyAll u) libQ (EPLpsd.selTranslated cuda numba) wf alpha order cb x1 x2 true fs nx freq fres segL starts
      = (decide ((Model.lpsdWindow wf alpha segL).n ≠ segL),
          (let s := Model.refStats order (libQ segL order).get x1.get x2.get starts.get starts.n segL (Model.lpsdWindow wf alpha segL).get
              (2 * Real.pi * freq / fs)
           (s.1, s.2.1, (⟨s.2.2.1, s.2.2.2.1⟩ : Cx ℝ), (Model.winSums (Model.lpsdWindow wf alpha segL)).1,
            (Model.winSums (Model.lpsdWindow wf alpha segL)).2, s.2.2.2.2))) := by
  rw [single_bin_libQ u _ wf alpha order hord cb x1 x2 true fs nx freq fres segL starts hL]
  dsimp only
  rw [show Model.dispatch true order x1 x2 fs ⟨freq, segL, starts⟩ (Model.lpsdWindow wf alpha segL)
        (if order = 1 ∨ order = 2 then some (libQ segL order) else none)
      = Model.refStats order (libQ segL order).get x1.get x2.get starts.get starts.n segL (Model.lpsdWindow wf alpha segL).get
        (2 * Real.pi * freq / fs) from
    dispatch_libQ_eq_ref_cross order hord x1 x2 fs ⟨freq, segL, starts⟩ hK _ hL]

/-- **single bin, auto.** -/
theorem pipeline_closed_single_bin_auto (cuda numba : Bool) (u : ℕ → ℕ → ℝ) (wf : NpLC.WinFunc ℝ) (alpha : ℝ) (order : ℤ)
    (hord : order = -1 ∨ order = 0 ∨ order = 1 ∨ order = 2) (cb : String) (x1 x2 : Arr ℝ) (fs : ℝ) (nx : ℤ)
    (freq fres : ℝ) (segL : ℕ) (starts : Arr ℕ) (hK : 0 < starts.n) (hL : order = 1 ∨ order = 2 → 1 ≤ segL) :
    Gen.single_bin_kernel_section (genFamilyAll u) libQ (EPLpsd.selTranslated cuda numba) wf alpha order cb x1 x2 false fs nx freq fres segL starts
      = (decide ((Model.lpsdWindow wf alpha segL).n ≠ segL),
          (let s := Model.refStatsAuto order (libQ segL order).get x1.get starts.get starts.n segL (Model.lpsdWindow wf alpha segL).get
              (2 * Real.pi * freq / fs)
           (s.1, s.2.1, (⟨s.2.2.1, s.2.2.2.1⟩ : Cx ℝ), (Model.winSums (Model.lpsdWindow wf alpha segL)).1,
            (Model.winSums (Model.lpsdWindow wf alpha segL)).2, s.2.2.2.2))) := by
  rw [single_bin_libQ u _ wf alpha order hord cb x1 x2 false fs nx freq fres segL starts hL]
  dsimp only
  rw [show Model.dispatch false order x1 x2 fs ⟨freq, segL, starts⟩ (Model.lpsdWindow wf alpha segL)
        (if order = 1 ∨ order = 2 then some (libQ segL order) else none)
      = Model.refStatsAuto order (libQ segL order).get x1.get starts.get starts.n segL (Model.lpsdWindow wf alpha segL).get
        (2 * Real.pi * freq / fs) from
    dispatch_libQ_eq_ref_auto order hord x1 x2 fs ⟨freq, segL, starts⟩ hK _ hL]

/-- **single bin, short segment stated outright** (`1 ≤ segL ≤ order`): XX = YY = 0, XY = 0, M2 = 0; S12 and S2 are the window sums -/
theorem pipeline_closed_single_bin_short (cuda numba : Bool) (u : ℕ → ℕ → ℝ) (wf : NpLC.WinFunc ℝ) (alpha : ℝ) (order : ℤ)
    (h12 : order = 1 ∨ order = 2) (cb : String) (x1 x2 : Arr ℝ) (iscsd : Bool) (fs : ℝ) (nx : ℤ)
    (freq fres : ℝ) (segL : ℕ) (starts : Arr ℕ) (hK : 0 < starts.n) (hL : 1 ≤ segL) (hLp : segL < (order + 1).toNat) :
    Gen.single_bin_kernel_section (genFamilyAll u) libQ (EPLpsd.selTranslated cuda numba) wf alpha order cb x1 x2 iscsd fs nx freq fres segL starts
      = (decide ((Model.lpsdWindow wf alpha segL).n ≠ segL),
          ((0 : ℝ), (0 : ℝ), (⟨0, 0⟩ : Cx ℝ), (Model.winSums (Model.lpsdWindow wf alpha segL)).1,
            (Model.winSums (Model.lpsdWindow wf alpha segL)).2, (0 : ℝ))) := by
  rw [single_bin_libQ u _ wf alpha order (Or.inr (Or.inr h12)) cb x1 x2 iscsd fs nx freq fres segL starts (fun _ => hL)]
  dsimp only
  rw [if_pos h12, dispatch_libQ_short iscsd order h12 x1 x2 fs ⟨freq, segL, starts⟩ hK _ hL hLp]

/-! ### 8. what the schedulers guarantee about `L` (from the grid theorems of Props/C03: `f < fs/2`, `b = f·L/fs`, `b ≳ bmin ≥ 1`) -/

theorem bin_le_half_L (fs f : ℝ) (L : ℕ) (hfs : 0 < fs) (hf : f < fs / 2) : f * (L : ℝ) / fs ≤ (L : ℝ) / 2 := by
  rw [div_le_div_iff₀ hfs two_pos]
  nlinarith [Nat.cast_nonneg (α := ℝ) L]

theorem two_le_of_cast {L : ℕ} (h : (3 : ℝ) / 2 < (L : ℝ)) : 2 ≤ L := by
  by_contra hc
  have : L ≤ 1 := by omega
  have : (L : ℝ) ≤ 1 := by exact_mod_cast this
  linarith

theorem three_le_of_cast {L : ℕ} (h : (2 : ℝ) < (L : ℝ)) : 3 ≤ L := by
  by_contra hc
  have : L ≤ 2 := by omega
  have : (L : ℝ) ≤ 2 := by exact_mod_cast this
  linarith

/-- every bin of an admissible LTF plan has segments of at least 2 samples: order 1 is always in the genuine regime; order 2 is in it for
    `L ≥ 3`, and at `L = 2` (not excluded by the grid theorems: the scheduler rounds `L`) `pipeline_closed_short` applies -/
theorem ltfPlan_L_ge_two (c : Model.Cfg ℝ) (h : Adm c) (extra : ℕ) : ∀ b ∈ Model.ltfPlan c (c.N + extra), 2 ≤ b.L := by
  intro b hb
  obtain ⟨hg, hslack⟩ := ltfPlan_grid c h extra
  obtain ⟨_, hf, _, hbb, _⟩ := hg.1 b hb
  have hs := hslack b hb
  have hle := bin_le_half_L c.fs b.f b.L h.hfs hf
  have hq : b.f / (2 * c.fs) < 1 / 4 := by
    rw [div_lt_div_iff₀ (by linarith [h.hfs]) (by norm_num)]
    linarith [h.hfs]
  apply two_le_of_cast
  have := h.hbmin1
  rw [← hbb] at hle
  linarith

theorem lpsdPlan_L_ge_two (c : Model.Cfg ℝ) (h : Adm c) (extra : ℕ) : ∀ b ∈ Model.lpsdPlan c (c.N + extra), 2 ≤ b.L := by
  intro b hb
  obtain ⟨hg, hslack⟩ := lpsdPlan_grid c h extra
  obtain ⟨_, hf, _, hbb, _⟩ := hg.1 b hb
  have hs := hslack b hb
  have hle := bin_le_half_L c.fs b.f b.L h.hfs hf
  have hq : b.f / (2 * c.fs) < 1 / 4 := by
    rw [div_lt_div_iff₀ (by linarith [h.hfs]) (by norm_num)]
    linarith [h.hfs]
  apply two_le_of_cast
  rw [← hbb] at hle
  linarith

/-- every bin of an admissible plan of the `new` scheduler has `L ≥ 3`: both polynomial orders are in the genuine regime -/
theorem newPlan_L_ge_three (c : Model.Cfg ℝ) (h : Adm c) (extra : ℕ) : ∀ b ∈ Model.newPlan c (c.N + extra), 3 ≤ b.L := by
  intro b hb
  obtain ⟨hg, hbmin⟩ := newPlan_grid c h extra
  obtain ⟨_, hf, _, hbb, _⟩ := hg.1 b hb
  have hs := hbmin b hb
  have h1 := h.hbmin1
  have hfs := h.hfs
  have hLpos : (0 : ℝ) < (b.L : ℝ) := by
    rcases Nat.eq_zero_or_pos b.L with h0 | h0
    · rw [h0] at hbb; simp at hbb; linarith
    · exact_mod_cast h0
  apply three_le_of_cast
  have hlt : b.f * (b.L : ℝ) / c.fs < (b.L : ℝ) / 2 := by
    rw [div_lt_div_iff₀ hfs two_pos]
    nlinarith
  rw [← hbb] at hlt
  linarith

/-- the plan arrays `_lpsd_core` reads come from such a plan: the length hypotheses of the capstone hold -/
theorem hL_of_plan (bins : List (Model.Bin ℝ)) (m : ℕ) (hb : ∀ b ∈ bins, m ≤ b.L) (pL : Arr ℕ) (idx : List ℕ)
    (hidx : ∀ i ∈ idx, ∃ b ∈ bins, pL.get i = b.L) : ∀ i ∈ idx, m ≤ pL.get i := by
  intro i hi
  obtain ⟨b, hbm, he⟩ := hidx i hi
  rw [he]
  exact hb b hbm

/-! ### 9. the hypotheses are satisfiable -/

/-- `pipeline_closed_cross` / `_auto`: N = 10, a plan with two bins, `L = 3` (two starts) and `L = 2` (three starts), every supported order — for
    order 2 the second bin is a SHORT segment —, both module flags arbitrary, hint "auto", a window callable that is not Kaiser -/
example (cuda numba : Bool) (u : ℕ → ℕ → ℝ) (order : ℤ) (hord : order = -1 ∨ order = 0 ∨ order = 1 ∨ order = 2) (x1 x2 : Arr ℝ) :
    ∃ ref : List (ℝ × ℝ × ℝ × ℝ × ℝ),
    ((Gen._lpsd_core (genFamilyAll u) libQ (EPLpsd.selTranslated cuda numba)
        (⟨false, fun L => ⟨L, fun _ => 1⟩, fun L _ => ⟨L, fun _ => 1⟩⟩ : NpLC.WinFunc ℝ) 0 order "auto" x1 x2 true 2 10
        ⟨2, fun i => 3 - i⟩ ⟨2, fun i => ⟨2 + i, fun j => 2 * j⟩⟩ ⟨2, fun i => 1 / 3 + i⟩ [0, 1]).2).map rowStats = ref :=
  ⟨_, pipeline_closed_cross cuda numba u ⟨false, fun L => ⟨L, fun _ => 1⟩, fun L _ => ⟨L, fun _ => 1⟩⟩ 0 order hord "auto" x1 x2 2 10
    ⟨2, fun i => 3 - i⟩ ⟨2, fun i => ⟨2 + i, fun j => 2 * j⟩⟩ ⟨2, fun i => 1 / 3 + i⟩ [0, 1]
    (by intro i hi; simp only [List.mem_cons, List.mem_nil_iff, or_false] at hi; rcases hi with rfl | rfl <;> simp)
    (by intro _ i hi; simp only [List.mem_cons, List.mem_nil_iff, or_false] at hi; rcases hi with rfl | rfl <;> simp)⟩

example (cuda numba : Bool) (u : ℕ → ℕ → ℝ) (order : ℤ) (hord : order = -1 ∨ order = 0 ∨ order = 1 ∨ order = 2) (x1 x2 : Arr ℝ) :
    ∃ ref : List (ℝ × ℝ × ℝ × ℝ × ℝ),
    ((Gen._lpsd_core (genFamilyAll u) libQ (EPLpsd.selTranslated cuda numba)
        (⟨false, fun L => ⟨L, fun _ => 1⟩, fun L _ => ⟨L, fun _ => 1⟩⟩ : NpLC.WinFunc ℝ) 0 order "auto" x1 x2 false 2 10
        ⟨2, fun i => 3 - i⟩ ⟨2, fun i => ⟨2 + i, fun j => 2 * j⟩⟩ ⟨2, fun i => 1 / 3 + i⟩ [0, 1]).2).map rowStats = ref :=
  ⟨_, pipeline_closed_auto cuda numba u ⟨false, fun L => ⟨L, fun _ => 1⟩, fun L _ => ⟨L, fun _ => 1⟩⟩ 0 order hord "auto" x1 x2 2 10
    ⟨2, fun i => 3 - i⟩ ⟨2, fun i => ⟨2 + i, fun j => 2 * j⟩⟩ ⟨2, fun i => 1 / 3 + i⟩ [0, 1]
    (by intro i hi; simp only [List.mem_cons, List.mem_nil_iff, or_false] at hi; rcases hi with rfl | rfl <;> simp)
    (by intro _ i hi; simp only [List.mem_cons, List.mem_nil_iff, or_false] at hi; rcases hi with rfl | rfl <;> simp)⟩

/-- `pipeline_closed_short`: the same plan, order 2, its second bin (`L = 2 < 3`, three segments): the five statistics are 0 -/
example (cuda numba : Bool) (u : ℕ → ℕ → ℝ) (x1 x2 : Arr ℝ) (iscsd : Bool) :
    (((Gen._lpsd_core (genFamilyAll u) libQ (EPLpsd.selTranslated cuda numba)
        (⟨false, fun L => ⟨L, fun _ => 1⟩, fun L _ => ⟨L, fun _ => 1⟩⟩ : NpLC.WinFunc ℝ) 0 2 "auto" x1 x2 iscsd 2 10
        ⟨2, fun i => 3 - i⟩ ⟨2, fun i => ⟨2 + i, fun j => 2 * j⟩⟩ ⟨2, fun i => 1 / 3 + i⟩ [0, 1]).2).map rowStats)[1]? = some (0, 0, 0, 0, 0) :=
  pipeline_closed_short cuda numba u ⟨false, fun L => ⟨L, fun _ => 1⟩, fun L _ => ⟨L, fun _ => 1⟩⟩ 0 2 (Or.inr rfl) "auto" x1 x2 iscsd 2 10
    ⟨2, fun i => 3 - i⟩ ⟨2, fun i => ⟨2 + i, fun j => 2 * j⟩⟩ ⟨2, fun i => 1 / 3 + i⟩ [0, 1] 1 (by simp) (by simp) (by simp) (by simp)

/-- the single-bin theorems: Kaiser window, order 1, `segL = 3`, two segments, hint "numpy"; and the short case order 2, `segL = 1` -/
example (cuda numba : Bool) (u : ℕ → ℕ → ℝ) (x1 x2 : Arr ℝ) :
    ∃ v, Gen.single_bin_kernel_section (genFamilyAll u) libQ (EPLpsd.selTranslated cuda numba)
        (⟨true, fun L => ⟨L, fun _ => 1⟩, NpLC.kaiser⟩ : NpLC.WinFunc ℝ) (3 : ℝ) 1 "numpy" x1 x2 true (2 : ℝ) 7 (1 / 3 : ℝ) (2 / 3 : ℝ) 3
        ⟨2, fun j => 2 * j⟩ = v :=
  ⟨_, pipeline_closed_single_bin_cross cuda numba u _ 3 1 (Or.inr (Or.inr (Or.inl rfl))) "numpy" x1 x2 2 7 (1 / 3) (2 / 3) 3 ⟨2, fun j => 2 * j⟩
    (by simp) (by intro _; simp)⟩

example (cuda numba : Bool) (u : ℕ → ℕ → ℝ) (x1 x2 : Arr ℝ) (iscsd : Bool) :
    (Gen.single_bin_kernel_section (genFamilyAll u) libQ (EPLpsd.selTranslated cuda numba)
        (⟨false, fun L => ⟨L, fun _ => 1⟩, fun L _ => ⟨L, fun _ => 1⟩⟩ : NpLC.WinFunc ℝ) (0 : ℝ) 2 "numpy" x1 x2 iscsd (2 : ℝ) 7 (1 / 3 : ℝ) (2 : ℝ) 1
        ⟨2, fun j => 2 * j⟩).2.1 = 0 := by
  rw [pipeline_closed_single_bin_short cuda numba u _ 0 2 (Or.inr rfl) "numpy" x1 x2 iscsd 2 7 (1 / 3) 2 1 ⟨2, fun j => 2 * j⟩
    (by simp) le_rfl (by decide)]

/-- the scheduler bounds are about non-empty plans: the admissible configuration of Props/C02's example has a bin, and it has `L ≥ 2` -/
example : ∃ b, b ∈ Model.ltfPlan (α := ℝ) { N := 1000, fs := 2, olap := 1/2, bmin := 1, Lmin := 1, Jdes := 100, Kdes := 10 } (1000 + 8)
    ∧ 2 ≤ b.L := by
  have hA : Adm { N := 1000, fs := 2, olap := 1/2, bmin := 1, Lmin := 1, Jdes := 100, Kdes := 10 } := by
    constructor <;> norm_num
  obtain ⟨hne, _⟩ := ltfPlan_safe _ hA 8
  obtain ⟨b, hb⟩ := List.exists_mem_of_ne_nil _ hne
  exact ⟨b, hb, ltfPlan_L_ge_two _ hA 8 b hb⟩

end PipelineClosed

#print axioms PipelineClosed.libQ_cols_min
#print axioms PipelineClosed.libQ_cols
#print axioms PipelineClosed.libQ_two_cols
#print axioms PipelineClosed.old_hypothesis_false
#print axioms PipelineClosed.libQ_is_qr
#print axioms PipelineClosed.libQ_get_beyond
#print axioms PipelineClosed.refStats_libQ_short
#print axioms PipelineClosed.refStatsAuto_libQ_short
#print axioms PipelineClosed.dispatch_libQ_short
#print axioms PipelineClosed.dispatch_libQ_eq_ref_cross
#print axioms PipelineClosed.dispatch_libQ_eq_ref_auto
#print axioms PipelineClosed.np_poly_csd_onecol
#print axioms PipelineClosed.np_poly_auto_onecol
#print axioms PipelineClosed.np_poly_csd_libQ_L1
#print axioms PipelineClosed.np_poly_auto_libQ_L1
#print axioms PipelineClosed.np_numba_agree_poly_libQ
#print axioms PipelineClosed.dispatchWith_genFamilyAll_libQ
#print axioms PipelineClosed.lpsd_core_libQ_eq_ref_cross
#print axioms PipelineClosed.lpsd_core_libQ_eq_ref_auto
#print axioms PipelineClosed.lpsd_core_libQ_short
#print axioms PipelineClosed.single_bin_libQ
#print axioms PipelineClosed.pipeline_closed_cross
#print axioms PipelineClosed.pipeline_closed_auto
#print axioms PipelineClosed.pipeline_closed_short
#print axioms PipelineClosed.pipeline_closed_sums
#print axioms PipelineClosed.pipeline_closed_single_bin_cross
#print axioms PipelineClosed.pipeline_closed_single_bin_auto
#print axioms PipelineClosed.pipeline_closed_single_bin_short
#print axioms PipelineClosed.ltfPlan_L_ge_two
#print axioms PipelineClosed.lpsdPlan_L_ge_two
#print axioms PipelineClosed.newPlan_L_ge_three
#print axioms PipelineClosed.hL_of_plan
