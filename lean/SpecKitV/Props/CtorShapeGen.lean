/-
  SpecKitV.Props.CtorShapeGen — the TRANSLATED constructor `Gen.ctor` / `Gen.ctor_call` (Gen/CtorShape.lean, regenerated from
  speckit/analysis.py `SpectrumAnalyzer.__init__` on every run) is EQUAL, for all inputs, to the hand-written specification
  `Model.ctorSpec` (Model/CtorShape.lean: validation, config table, shape decision through `Model.channelOf`, sanitising through
  `Model.sanitise`), and the C13 layout / sanitise theorems restated for the translated constructor.

  Generic over the number type `α`; the only hypothesis on `α` is `Model.FiniteLaws α` (a finite value equals itself, `0.0` is zero, zero
  is finite), proved here for ℝ and for the strict partial reals `PReal` (`finiteLaws_real`, `finiteLaws_preal`).  No hypothesis on the
  inputs: exceptions are values (`Except CS.PyExc _`), so "raises X" and "raises nothing" are part of the equality.
  Arrays are compared through `Model.viewOf` (shape + elements in C order), because an index function is only meaningful inside its shape.
-/
import SpecKitV.Gen.CtorShape
import SpecKitV.Model.CtorShape
import SpecKitV.PReal
import SpecKitV.Lemmas.AnalyzerGlue

open CS Model

set_option linter.unusedVariables false
set_option linter.unusedSectionVars false
set_option linter.unusedSimpArgs false
set_option linter.unnecessarySeqFocus false

namespace CtorShapeGen
variable {α : Type} [RealLike α]

/-! ### index enumeration -/

theorem flatMap_single {β γ : Type} (f : β → γ) (l : List β) : l.flatMap (fun i => [f i]) = l.map f := by
  induction l with
  | nil => rfl
  | cons a t ih => simp [List.flatMap_cons, ih]

theorem indices_one (n : ℕ) : indices [n] = (List.range n).map (fun i => [i]) := by
  have h : indices [n] = (List.range n).flatMap (fun i => [[i]]) := by simp [indices]
  rw [h, flatMap_single]

theorem indices_two (n : ℕ) : indices [2, n] = (List.range n).map (fun i => [0, i]) ++ (List.range n).map (fun i => [1, i]) := by
  have h : indices [2, n] = (List.range 2).flatMap (fun i => (indices [n]).map (fun idx => i :: idx)) := rfl
  rw [h, indices_one]
  simp [List.range_succ, List.map_map, Function.comp_def]

theorem toList_one (n : ℕ) (g : List ℕ → α) : NdArr.toList ⟨[n], g⟩ = (List.range n).map (fun i => g [i]) := by
  simp [NdArr.toList, indices_one, List.map_map, Function.comp_def]

theorem toList_two (n : ℕ) (g : List ℕ → α) :
    NdArr.toList ⟨[2, n], g⟩ = (List.range n).map (fun i => g [0, i]) ++ (List.range n).map (fun i => g [1, i]) := by
  simp [NdArr.toList, indices_two, List.map_map, Function.comp_def]

theorem all_one (p : α → Bool) (n : ℕ) (g : List ℕ → α) : NdArr.all p ⟨[n], g⟩ = true ↔ ∀ i < n, p (g [i]) = true := by
  simp [NdArr.all, indices_one, List.all_map]

theorem all_two (p : α → Bool) (n : ℕ) (g : List ℕ → α) :
    NdArr.all p ⟨[2, n], g⟩ = true ↔ (∀ i < n, p (g [0, i]) = true) ∧ (∀ i < n, p (g [1, i]) = true) := by
  simp [NdArr.all, indices_two, List.all_map, List.all_append]

/-! ### exceptions as values -/

@[simp] theorem bind_ok {β γ : Type} (v : β) (f : β → Except PyExc γ) : CS.bind (.ok v) f = f v := rfl
@[simp] theorem bind_error {β γ : Type} (e : PyExc) (f : β → Except PyExc γ) : CS.bind (.error e) f = .error e := rfl

theorem bind_assoc {β γ δ : Type} (a : Except PyExc β) (f : β → Except PyExc γ) (g : γ → Except PyExc δ) :
    CS.bind (CS.bind a f) g = CS.bind a (fun v => CS.bind (f v) g) := by
  cases a <;> rfl

theorem map_bind {β γ δ : Type} (h : γ → δ) (a : Except PyExc β) (f : β → Except PyExc γ) :
    Except.map h (CS.bind a f) = CS.bind a (fun v => Except.map h (f v)) := by
  cases a <;> rfl

/-- a stage that binds the same raising expression on both sides -/
theorem stage_bind {β γ δ : Type} (h : γ → δ) (a : Except PyExc β) (f : β → Except PyExc γ) (g : β → Except PyExc δ)
    (hfg : ∀ v, Except.map h (f v) = g v) : Except.map h (CS.bind a f) = CS.bind a g := by
  cases a with
  | error e => rfl
  | ok v => exact hfg v

/-- a guard stage: a raising condition that ends in ValueError when true, against a check of the specification -/
theorem stage_guard {γ δ : Type} (h : γ → δ) (A : Except PyExc Bool) (chk : Except PyExc Unit) (K : Except PyExc γ) (K' : Except PyExc δ)
    (hhead : (CS.bind A fun t => if t = true then .error .ValueError else .ok ()) = chk)
    (htail : Except.map h K = K') :
    Except.map h (CS.bind A (fun t => if t = true then .error .ValueError else K)) = CS.bind chk (fun _ => K') := by
  subst hhead
  cases A with
  | error e => rfl
  | ok t => cases t <;> simp [htail] <;> rfl

/-- a pure guard that ends in ValueError -/
theorem stage_if {γ δ : Type} (h : γ → δ) (c : Bool) (K : Except PyExc γ) (K' : Except PyExc δ) (htail : Except.map h K = K') :
    Except.map h (if c = true then .error .ValueError else K) = (if c = true then .error .ValueError else K') := by
  cases c <;> simp [htail] <;> rfl

/-- the common tail: the two config steps, then the record -/
theorem finish_tail (w s : Step α) (cfg : PyDict (PyVal α)) (mk : PyDict (PyVal α) → CtorOut α) (mk' : PyDict (PyVal α) → CtorView α)
    (h : ∀ c, viewOf (mk c) = mk' c) :
    Except.map viewOf (CS.bind (w cfg) fun t17 => CS.bind (s t17) fun t18 => Except.ok (mk t18))
      = CS.bind (w cfg) fun c1 => CS.bind (s c1) fun c2 => Except.ok (mk' c2) := by
  cases w cfg with
  | error e => rfl
  | ok c1 =>
    simp only [bind_ok]
    cases s c1 with
    | error e => rfl
    | ok c2 => simp only [bind_ok, Except.map, h]

/-! ### the sanitiser -/

theorem nanToNum_eq_sanitise (L : FiniteLaws α) (v : α) :
    nanToNum v (RealLike.ofSci 0 true 1) (RealLike.ofSci 0 true 1) (RealLike.ofSci 0 true 1) = sanitise nonFinite v := by
  unfold nanToNum sanitise nonFinite
  rw [L.zero_lit]
  cases hf : isfinite v with
  | true => simp [L.finite_beq v hf]
  | false => cases hb : RealLike.beq v v <;> simp

theorem sanitise_of_finite (v : α) (h : isfinite v = true) : sanitise nonFinite v = v := by
  simp [sanitise, nonFinite, h]


theorem cast_eq_two (r : ℕ) : (((r : ℕ) : ℤ) = 2) ↔ r = 2 := by omega

/-! ### stage heads -/

theorem head_fs (fs : PyVal α) :
    (CS.bind (CS.orE (CS.bind (npIsfinite fs) (fun t => Except.ok (!t))) (fun _ => pyCmp Cmp.le fs (PyVal.int 0)))
      fun t => if t = true then Except.error PyExc.ValueError else Except.ok ()) = fsCheck fs := by
  cases fs with
  | real x =>
    cases hf : isfinite x <;> cases hl : RealLike.le x (RealLike.ofInt 0) <;>
      simp [npIsfinite, pyCmp, PyVal.num?, fsCheck, CS.orE, Cmp.onReal, numToReal, nonFinite, hf, hl]
  | int z =>
    by_cases hz : z ≤ 0 <;> simp [npIsfinite, pyCmp, PyVal.num?, fsCheck, CS.orE, Cmp.onInt, hz]
  | bool b =>
    cases b <;> simp [npIsfinite, pyCmp, PyVal.num?, fsCheck, CS.orE, Cmp.onInt]
  | none => simp [npIsfinite, fsCheck, PyVal.num?, CS.orE]
  | str s => simp [npIsfinite, fsCheck, PyVal.num?, CS.orE]
  | fn s => simp [npIsfinite, fsCheck, PyVal.num?, CS.orE]
  | obj s => simp [npIsfinite, fsCheck, PyVal.num?, CS.orE]


/-! ### the translated constructor = the specification -/

set_option maxHeartbeats 1000000 in
theorem gen_ctor_eq_model (L : FiniteLaws α) (E : Env α) (w s : Step α) (x : NdArr α)
    (fs olap bmin Lmin Jdes Kdes num_patch_pts order psll win scheduler band force_target_nf backend verbose : PyVal α) :
    Except.map viewOf (Gen.ctor E w s x fs olap bmin Lmin Jdes Kdes num_patch_pts order psll win scheduler band force_target_nf backend verbose)
      = ctorSpec E w s x ⟨fs, olap, bmin, Lmin, Jdes, Kdes, num_patch_pts, order, psll, win, scheduler, band, force_target_nf, backend, verbose⟩ := by
  unfold Gen.ctor ctorSpec
  refine stage_guard viewOf _ _ _ _ (head_fs fs) ?_
  simp only [orderOk]
  refine stage_if viewOf _ _ _ ?_
  refine stage_bind viewOf _ _ _ (fun fsv => ?_)
  simp only [ctorConfig, bind_assoc, bind_ok]
  refine stage_bind viewOf _ _ _ (fun bminv => ?_)
  refine stage_bind viewOf _ _ _ (fun Lminv => ?_)
  refine stage_bind viewOf _ _ _ (fun Jdesv => ?_)
  refine stage_bind viewOf _ _ _ (fun Kdesv => ?_)
  refine stage_bind viewOf _ _ _ (fun nppv => ?_)
  refine stage_bind viewOf _ _ _ (fun orderv => ?_)
  rcases x with ⟨shape, g⟩
  simp only [asarray]
  match shape with
  | [] => simp [NdArr.ndim, ctorShape, CS.andE, CS.orE]; rfl
  | [n] =>
    simp only [NdArr.ndim, List.length_cons, List.length_nil, CS.andE, CS.orE, ascontiguousarray_f64, ctorShape]
    norm_num
    by_cases hall : NdArr.all isfinite ⟨[n], g⟩ = true
    · have hfin := (all_one isfinite n g).mp hall
      have hx : (List.range n).map (fun i => sanitise nonFinite (g [i])) = (List.range n).map (fun i => g [i]) :=
        List.map_congr_left (fun i hi => sanitise_of_finite _ (hfin i (List.mem_range.mp hi)))
      simp only [hall, NdArr.len, dictSet, bind_ok, hx]
      simp only [String.reduceBEq, Bool.false_eq_true, if_false, Bool.true_eq_false, if_true]
      refine finish_tail w s _ _ _ (fun c => ?_)
      simp [viewOf, toList_one, PyVal.isNone]
    · have hall' : NdArr.all isfinite ⟨[n], g⟩ = false := by simpa using hall
      simp only [hall', NdArr.len, NdArr.map, dictSet, bind_ok]
      simp only [String.reduceBEq, Bool.false_eq_true, if_false, Bool.true_eq_false, if_true]
      refine finish_tail w s _ _ _ (fun c => ?_)
      simp [viewOf, toList_one, PyVal.isNone, nanToNum_eq_sanitise L]
  | [r, c] =>
    by_cases hr : r = 2 <;> by_cases hc : c = 2
    · -- 2 x 2: rows are the channels
      subst hr; subst hc
      simp [NdArr.ndim, NdArr.shapeAt, pyIdx, CS.andE, CS.orE, ctorShape, cast_eq_two, ascontiguousarray_f64]
      by_cases hall : NdArr.all isfinite ⟨[2, 2], g⟩ = true
      · obtain ⟨hf0, hf1⟩ := (all_two isfinite 2 g).mp hall
        have hx0 : (List.range 2).map (fun i => sanitise nonFinite (g [0, i])) = (List.range 2).map (fun i => g [0, i]) :=
          List.map_congr_left (fun i hi => sanitise_of_finite _ (hf0 i (List.mem_range.mp hi)))
        have hx1 : (List.range 2).map (fun i => sanitise nonFinite (g [1, i])) = (List.range 2).map (fun i => g [1, i]) :=
          List.map_congr_left (fun i hi => sanitise_of_finite _ (hf1 i (List.mem_range.mp hi)))
        simp only [hall, NdArr.item, pyIdx, NdArr.len, dictSet, bind_ok, channelOf]
        simp only [String.reduceBEq, Bool.false_eq_true, if_false, Bool.true_eq_false, if_true]
        norm_num
        refine finish_tail w s _ _ _ (fun c => ?_)
        simp [viewOf, toList_one, toList_two, PyVal.isNone, hx0, hx1]
      · have hall' : NdArr.all isfinite ⟨[2, 2], g⟩ = false := by simpa using hall
        simp only [hall', NdArr.item, NdArr.map, pyIdx, NdArr.len, dictSet, bind_ok, channelOf]
        simp only [String.reduceBEq, Bool.false_eq_true, if_false, Bool.true_eq_false, if_true]
        norm_num
        refine finish_tail w s _ _ _ (fun c => ?_)
        simp [viewOf, toList_one, toList_two, PyVal.isNone, nanToNum_eq_sanitise L]
    · -- 2 x N, N ≠ 2: rows
      subst hr
      simp [NdArr.ndim, NdArr.shapeAt, pyIdx, CS.andE, CS.orE, ctorShape, cast_eq_two, hc, ascontiguousarray_f64]
      by_cases hall : NdArr.all isfinite ⟨[2, c], g⟩ = true
      · obtain ⟨hf0, hf1⟩ := (all_two isfinite c g).mp hall
        have hx0 : (List.range c).map (fun i => sanitise nonFinite (g [0, i])) = (List.range c).map (fun i => g [0, i]) :=
          List.map_congr_left (fun i hi => sanitise_of_finite _ (hf0 i (List.mem_range.mp hi)))
        have hx1 : (List.range c).map (fun i => sanitise nonFinite (g [1, i])) = (List.range c).map (fun i => g [1, i]) :=
          List.map_congr_left (fun i hi => sanitise_of_finite _ (hf1 i (List.mem_range.mp hi)))
        simp only [hall, NdArr.item, pyIdx, NdArr.len, dictSet, bind_ok, channelOf]
        simp only [String.reduceBEq, Bool.false_eq_true, if_false, Bool.true_eq_false, if_true]
        norm_num
        refine finish_tail w s _ _ _ (fun c => ?_)
        simp [viewOf, toList_one, toList_two, PyVal.isNone, hx0, hx1, hc]
      · have hall' : NdArr.all isfinite ⟨[2, c], g⟩ = false := by simpa using hall
        simp only [hall', NdArr.item, NdArr.map, pyIdx, NdArr.len, dictSet, bind_ok, channelOf]
        simp only [String.reduceBEq, Bool.false_eq_true, if_false, Bool.true_eq_false, if_true]
        norm_num
        refine finish_tail w s _ _ _ (fun c => ?_)
        simp [viewOf, toList_one, toList_two, PyVal.isNone, nanToNum_eq_sanitise L, hc]
    · -- N x 2, N ≠ 2: columns (transposed view)
      subst hc
      simp [NdArr.ndim, NdArr.shapeAt, pyIdx, CS.andE, CS.orE, ctorShape, cast_eq_two, hr, ascontiguousarray_f64, NdArr.T]
      by_cases hall : NdArr.all isfinite ⟨[2, r], fun idx => g idx.reverse⟩ = true
      · obtain ⟨hf0, hf1⟩ := (all_two isfinite r _).mp hall
        simp only [List.reverse_cons, List.reverse_nil, List.nil_append, List.cons_append] at hf0 hf1
        have hx0 : (List.range r).map (fun i => sanitise nonFinite (g [i, 0])) = (List.range r).map (fun i => g [i, 0]) :=
          List.map_congr_left (fun i hi => sanitise_of_finite _ (hf0 i (List.mem_range.mp hi)))
        have hx1 : (List.range r).map (fun i => sanitise nonFinite (g [i, 1])) = (List.range r).map (fun i => g [i, 1]) :=
          List.map_congr_left (fun i hi => sanitise_of_finite _ (hf1 i (List.mem_range.mp hi)))
        simp only [hall, NdArr.item, pyIdx, NdArr.len, dictSet, bind_ok, channelOf]
        simp only [String.reduceBEq, Bool.false_eq_true, if_false, Bool.true_eq_false, if_true]
        norm_num
        refine finish_tail w s _ _ _ (fun c => ?_)
        simp [viewOf, toList_one, toList_two, PyVal.isNone, hx0, hx1, hr]
      · have hall' : NdArr.all isfinite ⟨[2, r], fun idx => g idx.reverse⟩ = false := by simpa using hall
        simp only [hall', NdArr.item, NdArr.map, pyIdx, NdArr.len, dictSet, bind_ok, channelOf]
        simp only [String.reduceBEq, Bool.false_eq_true, if_false, Bool.true_eq_false, if_true]
        norm_num
        refine finish_tail w s _ _ _ (fun c => ?_)
        simp [viewOf, toList_one, toList_two, PyVal.isNone, nanToNum_eq_sanitise L, hr]
    · -- neither side has length 2: rejected
      simp [NdArr.ndim, NdArr.shapeAt, pyIdx, CS.andE, CS.orE, ctorShape, cast_eq_two, hr, hc]
      rfl
  | a :: b :: c :: rest =>
    have h2 : ¬ ((rest.length : ℤ) + 1 + 1 + 1 = 2) := by omega
    have h1 : ¬ ((rest.length : ℤ) + 1 + 1 + 1 = 1) := by omega
    simp [NdArr.ndim, ctorShape, CS.andE, CS.orE, h1, h2]
    rfl


/-! ### the number laws hold at ℝ and at the strict partial reals -/

theorem finiteLaws_real : FiniteLaws ℝ where
  finite_beq v _ := by simp
  zero_lit := by simp
  zero_finite := by simp [isfinite]

theorem finiteLaws_preal : FiniteLaws PReal where
  finite_beq v h := by
    cases v with
    | none => simp [isfinite, RealLike.beq, PReal.cmp] at h
    | some r => simp
  zero_lit := by simp
  zero_finite := by simp [isfinite]

/-! ### signature: parameters and defaults -/

/-- the keyword-only parameters and their defaults, as READ from the signature, are the documented ones — stated outright -/
theorem gen_ctor_defaults :
    Gen.ctor_kwdefaults (α := α) =
      [("olap", PyVal.str "default"), ("bmin", PyVal.real (RealLike.ofSci 10 true 1)), ("Lmin", PyVal.int 1), ("Jdes", PyVal.int 500),
       ("Kdes", PyVal.int 100), ("num_patch_pts", PyVal.int 50), ("order", PyVal.int 0), ("psll", PyVal.int 200),
       ("win", PyVal.fn "np_kaiser"), ("scheduler", PyVal.str "vectorized_ltf"), ("band", PyVal.none),
       ("force_target_nf", PyVal.bool false), ("backend", PyVal.str "auto"), ("verbose", PyVal.bool false)] := rfl

theorem gen_ctor_defaults_eq_model : Gen.ctor_kwdefaults (α := α) = Model.ctorDefaults := rfl

theorem gen_ctor_positional : Gen.ctor_positional = ["data", "fs"] := rfl

/-- at ℝ the default `bmin` is the number 1 -/
theorem gen_ctor_default_bmin_real : dictGet? (Gen.ctor_kwdefaults (α := ℝ)) "bmin" = some (PyVal.real 1) := by
  simp [Gen.ctor_kwdefaults, dictGet?]

/-- the call protocol: unknown keyword → TypeError; otherwise the specification on the caller's keywords completed by the defaults -/
theorem gen_ctor_call_eq_model (L : FiniteLaws α) (E : Env α) (w s : Step α) (x : NdArr α) (fs : PyVal α) (kw : PyDict (PyVal α)) :
    Except.map viewOf (Gen.ctor_call E w s x fs kw) =
      if kw.any (fun p => !(dictHas (Model.ctorDefaults (α := α)) p.1)) = true then Except.error PyExc.TypeError
      else ctorSpec E w s x (ctorArgsOf fs kw) := by
  unfold Gen.ctor_call
  rw [gen_ctor_defaults_eq_model]
  split
  · rfl
  · exact gen_ctor_eq_model L E w s x fs _ _ _ _ _ _ _ _ _ _ _ _ _ _

/-! ### reading the specification -/

theorem bind_eq_ok {β γ : Type} (a : Except PyExc β) (f : β → Except PyExc γ) (v : γ) :
    CS.bind a f = Except.ok v ↔ ∃ u, a = Except.ok u ∧ f u = Except.ok v := by
  cases a with
  | error e => simp [CS.bind]
  | ok u => simp [CS.bind]

theorem map_eq_ok {β γ : Type} (h : β → γ) (a : Except PyExc β) (o : β) (ha : a = Except.ok o) : Except.map h a = Except.ok (h o) := by
  subst ha; rfl

theorem map_ok_inv {β γ : Type} (h : β → γ) (a : Except PyExc β) (v : γ) (hv : Except.map h a = Except.ok v) : ∃ o, a = Except.ok o ∧ h o = v := by
  cases a with
  | error e => simp [Except.map] at hv
  | ok o => exact ⟨o, rfl, by simpa [Except.map] using hv⟩

/-- everything a successful run of the specification tells: validation passed, each coercion succeeded, the shape was accepted,
    the two config steps succeeded on the table below -/
theorem spec_ok (E : Env α) (w s : Step α) (x : NdArr α) (a : CtorArgs α) (v : CtorView α) (h : ctorSpec E w s x a = Except.ok v) :
    fsCheck a.fs = Except.ok () ∧ orderOk a.order = true ∧ pyFloat E a.fs = Except.ok v.fs ∧ v.verbose = pyBool a.verbose ∧
    ∃ (bmin : α) (Lmin Jdes Kdes order : ℤ) (npp : PyVal α) (sh : ShapeView α) (c1 : PyDict (PyVal α)),
      pyFloat E a.bmin = Except.ok bmin ∧ pyInt E a.Lmin = Except.ok Lmin ∧ pyInt E a.Jdes = Except.ok Jdes ∧
      pyInt E a.Kdes = Except.ok Kdes ∧
      (if a.num_patch_pts.isNone = true then npp = PyVal.none else ∃ z, pyInt E a.num_patch_pts = Except.ok z ∧ npp = PyVal.int z) ∧
      pyInt E a.order = Except.ok order ∧
      ctorShape x = some sh ∧
      w [("olap", a.olap), ("bmin", PyVal.real bmin), ("Lmin", PyVal.int Lmin), ("Jdes", PyVal.int Jdes), ("Kdes", PyVal.int Kdes),
         ("num_patch_pts", npp), ("order", PyVal.int order), ("psll", a.psll), ("win", a.win), ("scheduler", a.scheduler),
         ("band", a.band), ("force_target_nf", PyVal.bool (pyBool a.force_target_nf)), ("backend", PyVal.str (pyStr E a.backend)),
         ("N", PyVal.int v.nx)] = Except.ok c1 ∧
      s c1 = Except.ok v.config ∧
      v.iscsd = sh.iscsd ∧ v.nx = sh.nx ∧ v.x1 = sh.x1 ∧ v.x2 = sh.x2 ∧ v.dataShape = sh.dataShape ∧ v.data = sh.x1 ++ sh.x2.getD [] ∧
      v.planCacheNone = true := by
  unfold ctorSpec at h
  rw [bind_eq_ok] at h
  obtain ⟨u, hfs, h⟩ := h
  cases u
  by_cases hord : orderOk a.order = true
  · simp only [hord, Bool.not_true, Bool.false_eq_true, if_false] at h
    rw [bind_eq_ok] at h
    obtain ⟨fsv, hfsv, h⟩ := h
    rw [bind_eq_ok] at h
    obtain ⟨cfg, hcfg, h⟩ := h
    unfold ctorConfig at hcfg
    simp only [bind_eq_ok] at hcfg
    obtain ⟨bmin, hb, Lmin, hL, Jdes, hJ, Kdes, hK, npp, hn, order, ho, hcfg⟩ := hcfg
    cases hsh : ctorShape x with
    | none => simp [hsh] at h
    | some sh =>
      simp only [hsh, bind_eq_ok] at h
      obtain ⟨c1, hw, c2, hs, hv⟩ := h
      have hv' := (Except.ok.inj hv).symm
      have hcfg' := (Except.ok.inj hcfg).symm
      subst hv'
      subst hcfg'
      refine ⟨hfs, hord, hfsv, rfl, bmin, Lmin, Jdes, Kdes, order, npp, sh, c1, hb, hL, hJ, hK, ?_, ho, rfl, ?_, hs, rfl, rfl, rfl, rfl, rfl, rfl, rfl⟩
      · by_cases hnone : a.num_patch_pts.isNone = true
        · simp only [hnone, if_true] at hn ⊢
          exact (Except.ok.inj hn).symm
        · simp only [hnone, if_false, Bool.false_eq_true] at hn ⊢
          rw [bind_eq_ok] at hn
          obtain ⟨z, hz, hzz⟩ := hn
          exact ⟨z, hz, (Except.ok.inj hzz).symm⟩
      · simpa using hw
  · simp [hord] at h


/-! ### the config dictionary, key by key -/

/-- `gen_ctor_config_table`: whenever the TRANSLATED constructor succeeds, every coercion succeeded and `self.config` is what the two
    `_process_*_config` steps make of exactly this table: `olap, psll, win, scheduler, band` verbatim; `bmin` through `float`;
    `Lmin, Jdes, Kdes, order` through `int`; `num_patch_pts` `None` or through `int`; `force_target_nf` through `bool`; `backend`
    through `str`; then `"N" = nx`.  Also `self.fs = float(fs)` and `self.verbose = bool(verbose)`. -/
theorem gen_ctor_config_table (L : FiniteLaws α) (E : Env α) (w s : Step α) (x : NdArr α)
    (fs olap bmin Lmin Jdes Kdes num_patch_pts order psll win scheduler band force_target_nf backend verbose : PyVal α) (out : CtorOut α)
    (h : Gen.ctor E w s x fs olap bmin Lmin Jdes Kdes num_patch_pts order psll win scheduler band force_target_nf backend verbose = Except.ok out) :
    pyFloat E fs = Except.ok out.fs ∧ out.verbose = pyBool verbose ∧ out.plan_cache.isNone = true ∧
    ∃ (bminv : α) (Lminv Jdesv Kdesv orderv : ℤ) (nppv : PyVal α) (c1 : PyDict (PyVal α)),
      pyFloat E bmin = Except.ok bminv ∧ pyInt E Lmin = Except.ok Lminv ∧ pyInt E Jdes = Except.ok Jdesv ∧ pyInt E Kdes = Except.ok Kdesv ∧
      (if num_patch_pts.isNone = true then nppv = PyVal.none else ∃ z, pyInt E num_patch_pts = Except.ok z ∧ nppv = PyVal.int z) ∧
      pyInt E order = Except.ok orderv ∧
      w [("olap", olap), ("bmin", PyVal.real bminv), ("Lmin", PyVal.int Lminv), ("Jdes", PyVal.int Jdesv), ("Kdes", PyVal.int Kdesv),
         ("num_patch_pts", nppv), ("order", PyVal.int orderv), ("psll", psll), ("win", win), ("scheduler", scheduler),
         ("band", band), ("force_target_nf", PyVal.bool (pyBool force_target_nf)), ("backend", PyVal.str (pyStr E backend)),
         ("N", PyVal.int out.nx)] = Except.ok c1 ∧
      s c1 = Except.ok out.config := by
  have heq := gen_ctor_eq_model L E w s x fs olap bmin Lmin Jdes Kdes num_patch_pts order psll win scheduler band force_target_nf backend verbose
  rw [map_eq_ok viewOf _ out h] at heq
  obtain ⟨-, -, hfs, hverb, bminv, Lminv, Jdesv, Kdesv, orderv, nppv, sh, c1, hb, hL, hJ, hK, hn, ho, -, hw, hs, -, -, -, -, -, -, hpc⟩ :=
    spec_ok E w s x _ _ heq.symm
  exact ⟨hfs, hverb, hpc, bminv, Lminv, Jdesv, Kdesv, orderv, nppv, c1, hb, hL, hJ, hK, hn, ho, hw, hs⟩

/-- the hypothesis of `gen_ctor_config_table` is satisfiable: a length-3 record, fs = 2, one keyword given, identity config steps -/
example (E : Env ℝ) (g : List ℕ → ℝ) :
    ∃ out, Gen.ctor_call E Except.ok Except.ok ⟨[3], g⟩ (PyVal.real 2) [("Kdes", PyVal.int 7)] = Except.ok out := by
  have h := gen_ctor_call_eq_model finiteLaws_real E Except.ok Except.ok ⟨[3], g⟩ (PyVal.real 2) [("Kdes", PyVal.int 7)]
  have hspec : ∃ v, ctorSpec E Except.ok Except.ok ⟨[3], g⟩ (ctorArgsOf (PyVal.real 2) [("Kdes", PyVal.int 7)]) = Except.ok v := by
    have h20 : ¬ ((2 : ℝ) ≤ 0) := by norm_num
    simp [ctorSpec, ctorArgsOf, kwGet, dictGet?, ctorDefaults, fsCheck, PyVal.num?, nonFinite, isfinite, orderOk, pyIn, pyEq, pyFloat,
      ctorConfig, pyInt, PyVal.isNone, ctorShape, pyBool, pyStr, h20]
  obtain ⟨v, hv⟩ := hspec
  have hany : (([("Kdes", PyVal.int 7)] : PyDict (PyVal ℝ)).any (fun p => !(dictHas (Model.ctorDefaults (α := ℝ)) p.1))) = false := by
    simp [dictHas, ctorDefaults]
  rw [hany, hv] at h
  simp only [Bool.false_eq_true, if_false] at h
  obtain ⟨o, ho, -⟩ := map_ok_inv viewOf _ _ h
  exact ⟨o, ho⟩


/-! ### layout: which samples become channel 1 / channel 2 -/

/-- what a successful run stores, in terms of the shape decision of the specification -/
theorem gen_ctor_shape (L : FiniteLaws α) (E : Env α) (w s : Step α) (x : NdArr α)
    (fs olap bmin Lmin Jdes Kdes num_patch_pts order psll win scheduler band force_target_nf backend verbose : PyVal α) (out : CtorOut α)
    (h : Gen.ctor E w s x fs olap bmin Lmin Jdes Kdes num_patch_pts order psll win scheduler band force_target_nf backend verbose = Except.ok out) :
    ∃ sh, ctorShape x = some sh ∧ out.iscsd = sh.iscsd ∧ out.nx = sh.nx ∧ out.x1.toList = sh.x1 ∧ out.x2.map NdArr.toList = sh.x2 ∧
      out.data.shape = sh.dataShape ∧ out.data.toList = sh.x1 ++ sh.x2.getD [] := by
  have heq := gen_ctor_eq_model L E w s x fs olap bmin Lmin Jdes Kdes num_patch_pts order psll win scheduler band force_target_nf backend verbose
  rw [map_eq_ok viewOf _ out h] at heq
  obtain ⟨-, -, -, -, _, _, _, _, _, _, sh, _, -, -, -, -, -, -, hsh, -, -, h1, h2, h3, h4, h5, h6, -⟩ := spec_ok E w s x _ _ heq.symm
  exact ⟨sh, hsh, h1, h2, h3, h4, h5, h6⟩

/-- a 1-D array of any length N ≥ 0 (N = 0 included): auto mode, `x1` = the sanitised record, `nx = N`, no `x2` -/
theorem gen_ctor_1d (L : FiniteLaws α) (E : Env α) (w s : Step α) (n : ℕ) (g : List ℕ → α)
    (fs olap bmin Lmin Jdes Kdes num_patch_pts order psll win scheduler band force_target_nf backend verbose : PyVal α) (out : CtorOut α)
    (h : Gen.ctor E w s ⟨[n], g⟩ fs olap bmin Lmin Jdes Kdes num_patch_pts order psll win scheduler band force_target_nf backend verbose = Except.ok out) :
    out.iscsd = false ∧ out.nx = n ∧ out.x1.toList = (List.range n).map (fun i => sanitise nonFinite (g [i])) ∧ out.x2.map NdArr.toList = none ∧
      out.data.toList = out.x1.toList := by
  obtain ⟨sh, hsh, h1, h2, h3, h4, h5, h6⟩ := gen_ctor_shape L E w s _ _ _ _ _ _ _ _ _ _ _ _ _ _ _ _ out h
  simp only [ctorShape, Option.some.injEq] at hsh
  subst hsh
  simp_all

/-- a 2 x N array, ANY N ≥ 0 (so also 2 x 2: rows are the channels; 2 x 1; 2 x 0): cross mode, `x1` = sanitised row 0, `x2` = sanitised row 1 -/
theorem gen_ctor_rows (L : FiniteLaws α) (E : Env α) (w s : Step α) (n : ℕ) (g : List ℕ → α)
    (fs olap bmin Lmin Jdes Kdes num_patch_pts order psll win scheduler band force_target_nf backend verbose : PyVal α) (out : CtorOut α)
    (h : Gen.ctor E w s ⟨[2, n], g⟩ fs olap bmin Lmin Jdes Kdes num_patch_pts order psll win scheduler band force_target_nf backend verbose = Except.ok out) :
    out.iscsd = true ∧ out.nx = n ∧ out.x1.toList = (List.range n).map (fun i => sanitise nonFinite (g [0, i])) ∧
      out.x2.map NdArr.toList = some ((List.range n).map (fun i => sanitise nonFinite (g [1, i]))) ∧ out.data.shape = [2, n] := by
  obtain ⟨sh, hsh, h1, h2, h3, h4, h5, h6⟩ := gen_ctor_shape L E w s _ _ _ _ _ _ _ _ _ _ _ _ _ _ _ _ out h
  by_cases hn : n = 2
  · subst hn
    simp only [ctorShape, true_or, if_true, Option.some.injEq, channelOf] at hsh
    subst hsh
    simp_all
  · simp only [ctorShape, true_or, if_true, Option.some.injEq, channelOf] at hsh
    subst hsh
    simp_all

/-- the 2 x 2 convention stated outright: rows are the channels -/
theorem gen_ctor_2x2_rows (L : FiniteLaws α) (E : Env α) (w s : Step α) (g : List ℕ → α)
    (fs olap bmin Lmin Jdes Kdes num_patch_pts order psll win scheduler band force_target_nf backend verbose : PyVal α) (out : CtorOut α)
    (h : Gen.ctor E w s ⟨[2, 2], g⟩ fs olap bmin Lmin Jdes Kdes num_patch_pts order psll win scheduler band force_target_nf backend verbose = Except.ok out) :
    out.x1.toList = [sanitise nonFinite (g [0, 0]), sanitise nonFinite (g [0, 1])] ∧
    out.x2.map NdArr.toList = some [sanitise nonFinite (g [1, 0]), sanitise nonFinite (g [1, 1])] := by
  obtain ⟨-, -, h3, h4, -⟩ := gen_ctor_rows L E w s 2 g _ _ _ _ _ _ _ _ _ _ _ _ _ _ _ out h
  simp [h3, h4, List.range_succ]

/-- an N x 2 array with N ≠ 2 (N = 0, 1 included): cross mode, `x1` = sanitised column 0, `x2` = sanitised column 1 -/
theorem gen_ctor_cols (L : FiniteLaws α) (E : Env α) (w s : Step α) (n : ℕ) (hn : n ≠ 2) (g : List ℕ → α)
    (fs olap bmin Lmin Jdes Kdes num_patch_pts order psll win scheduler band force_target_nf backend verbose : PyVal α) (out : CtorOut α)
    (h : Gen.ctor E w s ⟨[n, 2], g⟩ fs olap bmin Lmin Jdes Kdes num_patch_pts order psll win scheduler band force_target_nf backend verbose = Except.ok out) :
    out.iscsd = true ∧ out.nx = n ∧ out.x1.toList = (List.range n).map (fun i => sanitise nonFinite (g [i, 0])) ∧
      out.x2.map NdArr.toList = some ((List.range n).map (fun i => sanitise nonFinite (g [i, 1]))) ∧ out.data.shape = [2, n] := by
  obtain ⟨sh, hsh, h1, h2, h3, h4, h5, h6⟩ := gen_ctor_shape L E w s _ _ _ _ _ _ _ _ _ _ _ _ _ _ _ _ out h
  simp only [ctorShape, or_true, if_true, Option.some.injEq, channelOf, hn, if_false] at hsh
  subst hsh
  simp_all


/-- the shape decision does not distinguish an array from its transpose, unless it is 2 x 2 (transfer of `Model.channelOf_transpose`) -/
theorem spec_shape_transpose (r c : ℕ) (g : List ℕ → α) (h22 : ¬ (r = 2 ∧ c = 2)) :
    ctorShape (NdArr.T ⟨[r, c], g⟩) = ctorShape ⟨[r, c], g⟩ := by
  by_cases hs : r = 2 ∨ c = 2
  · have hch : ∀ ch i, channelOf c r (fun i j => g [j, i]) ch i = channelOf r c (fun i j => g [i, j]) ch i :=
      fun ch i => channelOf_transpose r c h22 hs (fun i j => g [i, j]) ch i
    have hs' : c = 2 ∨ r = 2 := hs.symm
    have hN : (if c = 2 then r else c) = (if r = 2 then c else r) := by
      rcases hs with h | h
      · have hc : c ≠ 2 := fun hc => h22 ⟨h, hc⟩
        simp [h, hc]
      · have hr : r ≠ 2 := fun hr => h22 ⟨hr, h⟩
        simp [h, hr]
    simp only [NdArr.T, ctorShape, List.reverse_cons, List.reverse_nil, List.nil_append, List.cons_append, hs, hs', if_true, hch, hN]
  · have hs' : ¬ (c = 2 ∨ r = 2) := fun h => hs h.symm
    simp only [NdArr.T, ctorShape, List.reverse_cons, List.reverse_nil, List.nil_append, List.cons_append, hs, hs', if_false]

/-- `gen_ctor_layout_independent`: for every 2-D array that is not 2 x 2 the translated constructor leaves the same
    `(iscsd, nx, x1, x2, data, config, …)` for the array and for its transpose — 2 x N with rows (c1, c2) and N x 2 with columns (c1, c2)
    are one record.  (All other arguments equal; exceptions included: both raise the same class or neither raises.) -/
theorem gen_ctor_layout_independent (L : FiniteLaws α) (E : Env α) (w s : Step α) (r c : ℕ) (g : List ℕ → α) (h22 : ¬ (r = 2 ∧ c = 2))
    (fs olap bmin Lmin Jdes Kdes num_patch_pts order psll win scheduler band force_target_nf backend verbose : PyVal α) :
    Except.map viewOf (Gen.ctor E w s (NdArr.T ⟨[r, c], g⟩) fs olap bmin Lmin Jdes Kdes num_patch_pts order psll win scheduler band force_target_nf backend verbose)
      = Except.map viewOf (Gen.ctor E w s ⟨[r, c], g⟩ fs olap bmin Lmin Jdes Kdes num_patch_pts order psll win scheduler band force_target_nf backend verbose) := by
  rw [gen_ctor_eq_model L, gen_ctor_eq_model L]
  unfold ctorSpec
  rw [spec_shape_transpose r c g h22]

/-- the same in the words of the property: N ≠ 2, channels `c1`, `c2` — the 2 x N array whose rows are (c1, c2) and the N x 2 array whose
    columns are (c1, c2) give the same stored channels (each the sanitised c1 / c2), the same `nx = N`, both in cross mode -/
theorem gen_ctor_rows_cols_same (L : FiniteLaws α) (E : Env α) (w s : Step α) (n : ℕ) (hn : n ≠ 2) (c1 c2 : ℕ → α) (gr gc : List ℕ → α)
    (hr0 : ∀ i, gr [0, i] = c1 i) (hr1 : ∀ i, gr [1, i] = c2 i) (hc0 : ∀ i, gc [i, 0] = c1 i) (hc1 : ∀ i, gc [i, 1] = c2 i)
    (fs olap bmin Lmin Jdes Kdes num_patch_pts order psll win scheduler band force_target_nf backend verbose : PyVal α) (o1 o2 : CtorOut α)
    (h1 : Gen.ctor E w s ⟨[2, n], gr⟩ fs olap bmin Lmin Jdes Kdes num_patch_pts order psll win scheduler band force_target_nf backend verbose = Except.ok o1)
    (h2 : Gen.ctor E w s ⟨[n, 2], gc⟩ fs olap bmin Lmin Jdes Kdes num_patch_pts order psll win scheduler band force_target_nf backend verbose = Except.ok o2) :
    o1.iscsd = true ∧ o2.iscsd = true ∧ o1.nx = n ∧ o2.nx = n ∧
    o1.x1.toList = (List.range n).map (fun i => sanitise nonFinite (c1 i)) ∧ o2.x1.toList = o1.x1.toList ∧
    o1.x2.map NdArr.toList = some ((List.range n).map (fun i => sanitise nonFinite (c2 i))) ∧ o2.x2.map NdArr.toList = o1.x2.map NdArr.toList := by
  obtain ⟨a1, a2, a3, a4, -⟩ := gen_ctor_rows L E w s n gr _ _ _ _ _ _ _ _ _ _ _ _ _ _ _ o1 h1
  obtain ⟨b1, b2, b3, b4, -⟩ := gen_ctor_cols L E w s n hn gc _ _ _ _ _ _ _ _ _ _ _ _ _ _ _ o2 h2
  simp only [hr0, hr1] at a3 a4
  simp only [hc0, hc1] at b3 b4
  exact ⟨a1, b1, a2, b2, a3, by rw [a3, b3], a4, by rw [a4, b4]⟩

/-! ### which inputs are rejected -/

/-- the shapes the constructor accepts: exactly 1-D (any length) and 2-D with a side of length 2 -/
theorem spec_shape_none_iff (x : NdArr α) :
    ctorShape x = none ↔ ¬ ((∃ n, x.shape = [n]) ∨ (∃ r c, x.shape = [r, c] ∧ (r = 2 ∨ c = 2))) := by
  rcases x with ⟨shape, g⟩
  match shape with
  | [] => simp [ctorShape]
  | [n] => simp [ctorShape]
  | [r, c] =>
    by_cases h : r = 2 ∨ c = 2
    · simp [ctorShape, h]
    · simp [ctorShape, h]
  | a :: b :: c :: rest => simp [ctorShape]

/-- anything else raises: 0-d, 3-d and higher, 2-D without a side of length 2 (1 x N and N x 1 with N ≠ 2, 3 x N, …) never construct … -/
theorem gen_ctor_invalid_shape_raises (L : FiniteLaws α) (E : Env α) (w s : Step α) (x : NdArr α)
    (hshape : ¬ ((∃ n, x.shape = [n]) ∨ (∃ r c, x.shape = [r, c] ∧ (r = 2 ∨ c = 2))))
    (fs olap bmin Lmin Jdes Kdes num_patch_pts order psll win scheduler band force_target_nf backend verbose : PyVal α) (out : CtorOut α) :
    Gen.ctor E w s x fs olap bmin Lmin Jdes Kdes num_patch_pts order psll win scheduler band force_target_nf backend verbose ≠ Except.ok out := by
  intro h
  obtain ⟨sh, hsh, -⟩ := gen_ctor_shape L E w s x _ _ _ _ _ _ _ _ _ _ _ _ _ _ _ out h
  rw [(spec_shape_none_iff x).mpr hshape] at hsh
  cases hsh

/-- … and when the other arguments are acceptable the exception is the final `raise ValueError` -/
theorem gen_ctor_invalid_shape_valueerror (L : FiniteLaws α) (E : Env α) (w s : Step α) (x : NdArr α)
    (hshape : ¬ ((∃ n, x.shape = [n]) ∨ (∃ r c, x.shape = [r, c] ∧ (r = 2 ∨ c = 2))))
    (fs olap bmin Lmin Jdes Kdes num_patch_pts order psll win scheduler band force_target_nf backend verbose : PyVal α)
    (hfs : fsCheck fs = Except.ok ()) (hord : orderOk order = true) (fsv : α) (hfsv : pyFloat E fs = Except.ok fsv) (cfg : PyDict (PyVal α))
    (hcfg : ctorConfig E ⟨fs, olap, bmin, Lmin, Jdes, Kdes, num_patch_pts, order, psll, win, scheduler, band, force_target_nf, backend, verbose⟩ = Except.ok cfg) :
    Gen.ctor E w s x fs olap bmin Lmin Jdes Kdes num_patch_pts order psll win scheduler band force_target_nf backend verbose = Except.error PyExc.ValueError := by
  have heq := gen_ctor_eq_model L E w s x fs olap bmin Lmin Jdes Kdes num_patch_pts order psll win scheduler band force_target_nf backend verbose
  simp only [ctorSpec, hfs, hord, hfsv, hcfg, bind_ok, (spec_shape_none_iff x).mpr hshape, Bool.not_true, Bool.false_eq_true, if_false] at heq
  cases hc : Gen.ctor E w s x fs olap bmin Lmin Jdes Kdes num_patch_pts order psll win scheduler band force_target_nf backend verbose with
  | error e => rw [hc] at heq; simp [Except.map] at heq; rw [heq]
  | ok o => rw [hc] at heq; simp [Except.map] at heq

/-- conversely nothing the property calls valid raises: 1-D of any length, 2 x N and N x 2 for every N ≥ 0 — provided the scalar
    arguments are acceptable and the two config steps succeed -/
theorem gen_ctor_valid_no_raise (L : FiniteLaws α) (E : Env α) (w s : Step α) (x : NdArr α)
    (hshape : (∃ n, x.shape = [n]) ∨ (∃ n, x.shape = [2, n]) ∨ (∃ n, x.shape = [n, 2]))
    (fs olap bmin Lmin Jdes Kdes num_patch_pts order psll win scheduler band force_target_nf backend verbose : PyVal α)
    (hfs : fsCheck fs = Except.ok ()) (hord : orderOk order = true) (fsv : α) (hfsv : pyFloat E fs = Except.ok fsv) (cfg : PyDict (PyVal α))
    (hcfg : ctorConfig E ⟨fs, olap, bmin, Lmin, Jdes, Kdes, num_patch_pts, order, psll, win, scheduler, band, force_target_nf, backend, verbose⟩ = Except.ok cfg)
    (hw : ∀ c, ∃ c', w c = Except.ok c') (hs : ∀ c, ∃ c', s c = Except.ok c') :
    ∃ out, Gen.ctor E w s x fs olap bmin Lmin Jdes Kdes num_patch_pts order psll win scheduler band force_target_nf backend verbose = Except.ok out := by
  have heq := gen_ctor_eq_model L E w s x fs olap bmin Lmin Jdes Kdes num_patch_pts order psll win scheduler band force_target_nf backend verbose
  have hsome : ∃ sh, ctorShape x = some sh := by
    cases hsh : ctorShape x with
    | some sh => exact ⟨sh, rfl⟩
    | none =>
      exfalso
      refine (spec_shape_none_iff x).mp hsh ?_
      rcases hshape with ⟨n, h⟩ | ⟨n, h⟩ | ⟨n, h⟩
      · exact Or.inl ⟨n, h⟩
      · exact Or.inr ⟨2, n, h, Or.inl rfl⟩
      · exact Or.inr ⟨n, 2, h, Or.inr rfl⟩
  obtain ⟨sh, hsh⟩ := hsome
  obtain ⟨c1, hc1⟩ := hw (cfg ++ [("N", PyVal.int sh.nx)])
  obtain ⟨c2, hc2⟩ := hs c1
  simp only [ctorSpec, hfs, hord, hfsv, hcfg, bind_ok, hsh, hc1, hc2, Bool.not_true, Bool.false_eq_true, if_false] at heq
  obtain ⟨o, ho, -⟩ := map_ok_inv viewOf _ _ heq
  exact ⟨o, ho⟩

/-- the hypotheses of `gen_ctor_valid_no_raise` are satisfiable (a 1 x 2 array — N = 1 — with the default scalar arguments, fs = 2) -/
example (E : Env ℝ) (g : List ℕ → ℝ) :
    fsCheck (PyVal.real (2 : ℝ)) = Except.ok () ∧ orderOk (PyVal.int 0 : PyVal ℝ) = true ∧ pyFloat E (PyVal.real (2 : ℝ)) = Except.ok 2 ∧
    (∃ cfg, ctorConfig E (ctorArgsOf (PyVal.real 2) []) = Except.ok cfg) ∧ ((∃ n, (⟨[1, 2], g⟩ : NdArr ℝ).shape = [n, 2])) := by
  have h20 : ¬ ((2 : ℝ) ≤ 0) := by norm_num
  refine ⟨?_, ?_, rfl, ?_, ⟨1, rfl⟩⟩
  · simp [fsCheck, PyVal.num?, nonFinite, isfinite, h20]
  · simp [orderOk, pyIn, pyEq, PyVal.num?]
  · simp [ctorConfig, ctorArgsOf, kwGet, dictGet?, ctorDefaults, pyFloat, pyInt, PyVal.isNone]


/-! ### sanitising: the stored record is the zero-filled record -/

/-- the sanitiser of the specification in plain words: a finite sample is kept, anything else (NaN, +Inf, -Inf) becomes 0
    (`Model.sanitise_eq_zero_fill` for the predicate "not finite") -/
theorem sanitise_nonFinite_eq (v : α) : sanitise nonFinite v = if isfinite v = true then v else RealLike.zero := by
  unfold sanitise nonFinite
  cases isfinite v <;> simp

/-- what the TRANSLATED element map does, for ANY number type obeying the three laws (IEEE doubles included): NaN, +Inf and -Inf
    all become 0, finite samples are kept.  (With NumPy's default `posinf` / `neginf` this is unprovable: ±Inf would become ±1.8e308.) -/
theorem gen_sanitise_elem (L : FiniteLaws α) (v : α) :
    nanToNum v (RealLike.ofSci 0 true 1) (RealLike.ofSci 0 true 1) (RealLike.ofSci 0 true 1) = if isfinite v = true then v else RealLike.zero := by
  rw [nanToNum_eq_sanitise L, sanitise_nonFinite_eq]

theorem nonFinite_zero (L : FiniteLaws α) : nonFinite (RealLike.zero : α) = false := by
  simp [nonFinite, L.zero_finite]

theorem spec_shape_zero_fill (L : FiniteLaws α) (x : NdArr α) : ctorShape (NdArr.map (sanitise nonFinite) x) = ctorShape x := by
  have hid := fun v : α => sanitise_idem nonFinite (nonFinite_zero L) v
  rcases x with ⟨shape, g⟩
  match shape with
  | [] => rfl
  | [n] => simp [ctorShape, NdArr.map, hid]
  | [r, c] =>
    by_cases h : r = 2 ∨ c = 2
    · have hch : ∀ ch i, sanitise nonFinite (channelOf r c (fun i j => sanitise nonFinite (g [i, j])) ch i)
          = sanitise nonFinite (channelOf r c (fun i j => g [i, j]) ch i) := by
        intro ch i
        unfold channelOf
        split_ifs <;> exact hid _
      simp [ctorShape, NdArr.map, h, hch]
    · simp [ctorShape, NdArr.map, h]
  | a :: b :: c :: rest => rfl

/-- `gen_ctor_sanitise_eq_zero_fill`: the translated constructor run on the zero-filled input (every non-finite sample replaced by 0
    beforehand) leaves exactly what it leaves for the original input — stored record, channels, nx, mode, config, exceptions
    (transfer of `Model.sanitise_idem`) -/
theorem gen_ctor_sanitise_eq_zero_fill (L : FiniteLaws α) (E : Env α) (w s : Step α) (x : NdArr α)
    (fs olap bmin Lmin Jdes Kdes num_patch_pts order psll win scheduler band force_target_nf backend verbose : PyVal α) :
    Except.map viewOf (Gen.ctor E w s (NdArr.map (sanitise nonFinite) x) fs olap bmin Lmin Jdes Kdes num_patch_pts order psll win scheduler band force_target_nf backend verbose)
      = Except.map viewOf (Gen.ctor E w s x fs olap bmin Lmin Jdes Kdes num_patch_pts order psll win scheduler band force_target_nf backend verbose) := by
  rw [gen_ctor_eq_model L, gen_ctor_eq_model L]
  unfold ctorSpec
  rw [spec_shape_zero_fill L x]

theorem spec_shape_elems (x : NdArr α) (sh : ShapeView α) (hsh : ctorShape x = some sh) :
    (∀ y ∈ sh.x1, ∃ idx, y = sanitise nonFinite (x.get idx)) ∧
    (∀ l, sh.x2 = some l → ∀ y ∈ l, ∃ idx, y = sanitise nonFinite (x.get idx)) := by
  rcases x with ⟨shape, g⟩
  match shape, hsh with
  | [], hsh => simp [ctorShape] at hsh
  | [n], hsh =>
    simp only [ctorShape, Option.some.injEq] at hsh; subst hsh
    refine ⟨?_, ?_⟩
    · intro y hy; simp only [List.mem_map] at hy; obtain ⟨i, -, rfl⟩ := hy; exact ⟨[i], rfl⟩
    · intro l hl; cases hl
  | [r, c], hsh =>
    by_cases hrc : r = 2 ∨ c = 2
    · simp only [ctorShape, hrc, if_true, Option.some.injEq] at hsh; subst hsh
      refine ⟨?_, ?_⟩
      · intro y hy; simp only [List.mem_map] at hy; obtain ⟨i, -, rfl⟩ := hy
        unfold channelOf; split_ifs <;> exact ⟨_, rfl⟩
      · intro l hl y hy
        simp only [Option.some.injEq] at hl; subst hl
        simp only [List.mem_map] at hy; obtain ⟨i, -, rfl⟩ := hy
        unfold channelOf; split_ifs <;> exact ⟨_, rfl⟩
    · simp [ctorShape, hrc] at hsh
  | a :: b :: c :: rest, hsh => simp [ctorShape] at hsh

/-- the stored record IS the zero-filled input (all shapes at once): every element of `x1`, `x2`, `data` is `sanitise` of an input sample,
    and the stored data are the channels one after the other -/
theorem gen_ctor_stored_record (L : FiniteLaws α) (E : Env α) (w s : Step α) (x : NdArr α)
    (fs olap bmin Lmin Jdes Kdes num_patch_pts order psll win scheduler band force_target_nf backend verbose : PyVal α) (out : CtorOut α)
    (h : Gen.ctor E w s x fs olap bmin Lmin Jdes Kdes num_patch_pts order psll win scheduler band force_target_nf backend verbose = Except.ok out) :
    (∀ y ∈ out.x1.toList, ∃ idx, y = sanitise nonFinite (x.get idx)) ∧
    (∀ l, out.x2.map NdArr.toList = some l → ∀ y ∈ l, ∃ idx, y = sanitise nonFinite (x.get idx)) ∧
    out.data.toList = out.x1.toList ++ (out.x2.map NdArr.toList).getD [] := by
  obtain ⟨sh, hsh, -, -, h3, h4, -, h6⟩ := gen_ctor_shape L E w s x _ _ _ _ _ _ _ _ _ _ _ _ _ _ _ out h
  obtain ⟨e1, e2⟩ := spec_shape_elems x sh hsh
  rw [h3, h4, h6]
  exact ⟨e1, e2, rfl⟩

/-! #### at the strict partial reals (`none` = NaN / ±Inf): every stored sample is a finite number; at ℝ nothing is changed -/

theorem sanitise_preal (v : PReal) : sanitise nonFinite v = some (v.getD 0) := by
  cases v with
  | none => simp [sanitise, nonFinite, isfinite, RealLike.beq, PReal.cmp]
  | some r => simp [sanitise, nonFinite, isfinite]

theorem sanitise_real (v : ℝ) : sanitise nonFinite v = v := by
  simp [sanitise, nonFinite, isfinite]

/-- over the strict partial reals every sample the translated constructor stores is FINITE (`some _`): a `none` (NaN / ±Inf) of the input
    has become `some 0`, a finite sample is itself -/
theorem gen_ctor_stored_finite (E : Env PReal) (w s : Step PReal) (x : NdArr PReal)
    (fs olap bmin Lmin Jdes Kdes num_patch_pts order psll win scheduler band force_target_nf backend verbose : PyVal PReal) (out : CtorOut PReal)
    (h : Gen.ctor E w s x fs olap bmin Lmin Jdes Kdes num_patch_pts order psll win scheduler band force_target_nf backend verbose = Except.ok out) :
    (∀ y ∈ out.data.toList, y.isSome = true) ∧ (∀ y ∈ out.x1.toList, ∃ idx, y = some ((x.get idx).getD 0)) := by
  obtain ⟨h1, h2, h3⟩ := gen_ctor_stored_record finiteLaws_preal E w s x _ _ _ _ _ _ _ _ _ _ _ _ _ _ _ out h
  refine ⟨?_, ?_⟩
  · intro y hy
    rw [h3, List.mem_append] at hy
    rcases hy with hy | hy
    · obtain ⟨idx, rfl⟩ := h1 y hy; rw [sanitise_preal]; rfl
    · cases hx2 : out.x2.map NdArr.toList with
      | none => rw [hx2] at hy; simp at hy
      | some l =>
        rw [hx2] at hy
        obtain ⟨idx, rfl⟩ := h2 l hx2 y (by simpa using hy); rw [sanitise_preal]; rfl
  · intro y hy
    obtain ⟨idx, rfl⟩ := h1 y hy
    exact ⟨idx, sanitise_preal _⟩

/-- over ℝ (every sample finite) a 1-D record is stored unchanged -/
theorem gen_ctor_1d_real (E : Env ℝ) (w s : Step ℝ) (n : ℕ) (g : List ℕ → ℝ)
    (fs olap bmin Lmin Jdes Kdes num_patch_pts order psll win scheduler band force_target_nf backend verbose : PyVal ℝ) (out : CtorOut ℝ)
    (h : Gen.ctor E w s ⟨[n], g⟩ fs olap bmin Lmin Jdes Kdes num_patch_pts order psll win scheduler band force_target_nf backend verbose = Except.ok out) :
    out.iscsd = false ∧ out.nx = n ∧ out.x1.toList = (List.range n).map (fun i => g [i]) := by
  obtain ⟨h1, h2, h3, -⟩ := gen_ctor_1d finiteLaws_real E w s n g _ _ _ _ _ _ _ _ _ _ _ _ _ _ _ out h
  simp only [sanitise_real] at h3
  exact ⟨h1, h2, h3⟩

end CtorShapeGen

#print axioms CtorShapeGen.gen_ctor_eq_model
#print axioms CtorShapeGen.gen_ctor_call_eq_model
#print axioms CtorShapeGen.gen_ctor_defaults
#print axioms CtorShapeGen.gen_ctor_defaults_eq_model
#print axioms CtorShapeGen.gen_ctor_positional
#print axioms CtorShapeGen.gen_ctor_default_bmin_real
#print axioms CtorShapeGen.gen_ctor_config_table
#print axioms CtorShapeGen.gen_ctor_shape
#print axioms CtorShapeGen.gen_ctor_1d
#print axioms CtorShapeGen.gen_ctor_rows
#print axioms CtorShapeGen.gen_ctor_2x2_rows
#print axioms CtorShapeGen.gen_ctor_cols
#print axioms CtorShapeGen.gen_ctor_layout_independent
#print axioms CtorShapeGen.gen_ctor_rows_cols_same
#print axioms CtorShapeGen.gen_ctor_invalid_shape_raises
#print axioms CtorShapeGen.gen_ctor_invalid_shape_valueerror
#print axioms CtorShapeGen.gen_ctor_valid_no_raise
#print axioms CtorShapeGen.gen_sanitise_elem
#print axioms CtorShapeGen.gen_ctor_sanitise_eq_zero_fill
#print axioms CtorShapeGen.gen_ctor_stored_record
#print axioms CtorShapeGen.gen_ctor_stored_finite
#print axioms CtorShapeGen.gen_ctor_1d_real
#print axioms CtorShapeGen.finiteLaws_real
#print axioms CtorShapeGen.finiteLaws_preal
#print axioms CtorShapeGen.spec_shape_transpose
#print axioms CtorShapeGen.spec_shape_zero_fill
#print axioms CtorShapeGen.spec_shape_none_iff
#print axioms CtorShapeGen.spec_ok
#print axioms CtorShapeGen.head_fs
