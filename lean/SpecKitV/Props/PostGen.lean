/-
  Props/PostGen — the machine-translated closed-form post-processing of `vectorized_ltf_plan` and `new_ltf_plan`
  (`Gen.vectorized_ltf_plan_post`, `Gen.new_ltf_plan_post`: the three NumPy statements computing the segment shift, the start
  positions `D` and the realised overlap `O`, regenerated from speckit/schedulers.py on every run) IS the hand model
  (`Model.shiftOf`, `Model.startsEven`, `Model.overlapClosed`), bin by bin; hence `startsEven_safe` and the overlap theorems of
  `Lemmas/Starts.lean` are theorems about the code as translated.
-/
import SpecKitV.RealInst
import SpecKitV.Gen.Sched
import SpecKitV.Model.Sched
import SpecKitV.Lemmas.Starts
import SpecKitV.Props.VecGen

set_option linter.unusedVariables false

theorem trunc_intCast (z : ℤ) : RealLike.trunc ((z : ℝ)) = z := by
  have h := VecGen.trunc_ofInt z
  rwa [RL.ofInt_eq] at h

theorem gen_vec_post_eq_model (N : ℕ) (L K : Arr ℤ) (j Lj : ℕ) (hL : L.get j = (Lj : ℤ)) :
    let g := Gen.vectorized_ltf_plan_post (α := ℝ) (N : ℤ) L K
    g.1.get j = Model.shiftOf (α := ℝ) N Lj (K.get j) ∧
    (g.2.1.get j).n = (K.get j).toNat ∧
    (List.range (g.2.1.get j).n).map (g.2.1.get j).get = Model.startsEven (α := ℝ) N Lj (K.get j) ∧
    g.2.2.get j = Model.overlapClosed (α := ℝ) N Lj (K.get j) := by
  intro g
  simp only [g, Gen.vectorized_ltf_plan_post, Arr.memo_eq, Model.shiftOf, Model.startsEven, Model.overlapClosed, hL]
  refine ⟨?_, trivial, ?_, ?_⟩
  · simp only [RL.ofInt_eq, RL.ofNat_eq, RL.zero_eq, gt_iff_lt, decide_eq_true_eq]
    split_ifs <;> simp
  · simp only [RL.ofInt_eq, RL.ofNat_eq, RL.zero_eq, gt_iff_lt, decide_eq_true_eq]
    apply List.map_congr_left
    intro i _
    split_ifs <;> simp [trunc_intCast]
  · simp only [RL.ofInt_eq, RL.ofNat_eq, RL.zero_eq, gt_iff_lt, decide_eq_true_eq]
    split_ifs <;> simp

theorem gen_new_post_eq_vec_post (N : ℤ) (L K : Arr ℤ) :
    Gen.new_ltf_plan_post (α := ℝ) N L K = Gen.vectorized_ltf_plan_post (α := ℝ) N L K := rfl

/-- hence the translated start positions of the closed-form schedulers are safe -/
theorem gen_post_starts_safe (N : ℕ) (L K : Arr ℤ) (j Lj : ℕ) (hL : L.get j = (Lj : ℤ))
    (hL1 : 1 ≤ Lj) (hLN : Lj ≤ N) (hK2 : 2 ≤ K.get j) (hKcap : K.get j ≤ (N : ℤ) - Lj + 1) :
    let D := (List.range ((Gen.vectorized_ltf_plan_post (α := ℝ) (N : ℤ) L K).2.1.get j).n).map
               ((Gen.vectorized_ltf_plan_post (α := ℝ) (N : ℤ) L K).2.1.get j).get
    D.length = (K.get j).toNat ∧ ∀ d ∈ D, 0 ≤ d ∧ d + Lj ≤ N := by
  intro D
  have h := (gen_vec_post_eq_model N L K j Lj hL).2.2.1
  have hs := startsEven_safe N Lj (K.get j) hL1 hLN hK2 hKcap
  simp only [D, h]
  exact ⟨hs.1, hs.2.2.2.2.1⟩

#print axioms gen_vec_post_eq_model
#print axioms gen_new_post_eq_vec_post
#print axioms gen_post_starts_safe
