/-
  Props/FftNoiseGen — the machine-translated FFT synthesiser, band-limited noise and 1/f^alpha filter DESIGN of speckit/noise.py
  (Gen/FftNoise.lean, regenerated from the source on every run by vk/regions/fft_noise.py) ARE the hand models the C18 theorems are
  about (`Model.fftnoiseSpectrum`, `Model.bandMask` / `Model.fftfreqAbs`, `Model.numSections` / `Model.sectionCorners` /
  `Model.filterCoeffs`), for all inputs the real code accepts; hence the theorems of Lemmas/FftNoise.lean and Lemmas/Bilinear.lean
  are theorems about the code as translated (transfer corollaries `gen_*` below).

  Equalities (α := ℝ):
    gen_fftnoise_spectrum_eq_model   entry k of the array handed to `np.fft.ifft` = `Model.fftnoiseSpectrum f rot N k`, every N ≥ 2
                                     (odd and even), every k < N, `rot j = (cos 2πu_j, sin 2πu_j)` for the uniform draws `u`;
                                     and the array has length N.  (N < 2: the real code raises, `gen_fftnoise_rejects_iff`.)
    gen_band_spectrum_eq_model       the array `band_limited_noise` hands to `fftnoise` = indicator of `Model.bandMask` (no hypothesis)
    gen_alpha_init_eq_model          section count, corner arrays, effective corners, scaling, coefficient matrices = model
                                     (hypothesis `0 < numSections`: otherwise the real constructor raises IndexError)
    gen_*_rejects_iff                the translated validation = the documented preconditions
    npifft_toC                       the contract `NpFN.ifft` at ℝ is Mathlib's inverse DFT sum

  Structure of the main proof: the NumPy contracts of Np/FftNoise.lean are characterised once (`pySlice_fwd/_rev`: Python slice
  normalisation for the two slice shapes that occur; `sliceSet_get_*`, `zipWith_*`, `map_*`: element access, lengths with the
  mismatch marker); `fn_simp` normalises the generated term with these (side conditions by `omega`), for each of N = 2 / odd / even
  once; the four regimes of k (DC, positive, Nyquist, mirror) are then closed by index arithmetic (`omega`) and by `rot_close`, which
  is insensitive to the operand order of the phase product in the source.
-/
import SpecKitV.RealInst
import SpecKitV.Np.FftNoise
import SpecKitV.Gen.FftNoise
import SpecKitV.Model.Noise
import SpecKitV.Lemmas.FftNoise
import SpecKitV.Lemmas.Bilinear
import SpecKitV.Props.NoiseGen

open Finset
set_option linter.unusedVariables false
set_option linter.unusedSimpArgs false
set_option linter.unnecessarySeqFocus false

namespace FftNoiseGen

theorem memo_eq {β : Type} (a : Arr β) : Arr.memo a = a := by
  obtain ⟨n, get⟩ := a
  unfold Arr.memo
  simp only [Arr.mk.injEq, true_and]
  funext i
  split
  · simp only [Array.getElem_map, Array.getElem_range]
  · rfl

/-- `a[s0:b]` with `0 ≤ s0 ≤ b ≤ n` -/
theorem pySlice_fwd (n : ℕ) (a b : ℤ) (ha : 0 ≤ a) (hab : a ≤ b) (hb : b ≤ n) :
    NpFN.pySlice n (some a) (some b) 1 = ⟨a, 1, (b - a).toNat⟩ := by
  unfold NpFN.pySlice
  simp only [NpFN.Slice.mk.injEq, true_and]
  constructor
  · split_ifs <;> omega
  · split_ifs <;> omega

/-- `a[s0:b:-1]` with negative bounds `b ≤ s0 < 0`, `-n ≤ s0`, `-n - 1 ≤ b`: starts at `n - |s0|`, `s0 - b` elements -/
theorem pySlice_rev (n : ℕ) (a b : ℤ) (ha : a < 0) (hab : b ≤ a) (han : 0 ≤ a + n) (hbn : -1 ≤ b + n) :
    NpFN.pySlice n (some a) (some b) (-1) = ⟨((n - (-a).toNat : ℕ) : ℤ), -1, (a - b).toNat⟩ := by
  unfold NpFN.pySlice
  simp only [NpFN.Slice.mk.injEq, true_and, Int.neg_neg, Int.ediv_one]
  constructor
  · split_ifs <;> omega
  · split_ifs <;> omega

theorem sliceSet_n {β : Type} (a : Arr β) (s : NpFN.Slice) (v : Arr β) :
    (NpFN.sliceSet a s v).n = if v.n = s.len then a.n else 0 := by
  unfold NpFN.sliceSet
  rw [memo_eq]

theorem sliceSet_get_fwd {β : Type} (a : Arr β) (s0 : ℤ) (len : ℕ) (v : Arr β) (k : ℕ) (h0 : 0 ≤ s0) :
    (NpFN.sliceSet a ⟨s0, 1, len⟩ v).get k
      = if s0.toNat ≤ k ∧ k < s0.toNat + len then v.get (k - s0.toNat) else a.get k := by
  unfold NpFN.sliceSet
  rw [memo_eq]
  simp only [Int.ediv_one, Int.emod_one, true_and, ne_eq, one_ne_zero, not_false_eq_true]
  by_cases h : s0.toNat ≤ k ∧ k < s0.toNat + len
  · rw [if_pos h, if_pos (by omega)]
    congr 1; omega
  · rw [if_neg h, if_neg (by omega)]

theorem sliceSet_get_rev {β : Type} (a : Arr β) (s0 : ℕ) (len : ℕ) (v : Arr β) (k : ℕ) :
    (NpFN.sliceSet a ⟨(s0 : ℤ), -1, len⟩ v).get k
      = if s0 < k + len ∧ k ≤ s0 then v.get (s0 - k) else a.get k := by
  unfold NpFN.sliceSet
  rw [memo_eq]
  have e1 : ∀ d : ℤ, d / (-1) = -d := fun d => by omega
  have e2 : ∀ d : ℤ, d % (-1) = 0 := fun d => by rw [Int.emod_neg, Int.emod_one]
  simp only [e1, e2, true_and, ne_eq]
  by_cases h : s0 < k + len ∧ k ≤ s0
  · rw [if_pos h, if_pos ⟨by omega, by omega, by omega⟩]
    congr 1; omega
  · rw [if_neg h, if_neg (by omega)]

theorem sliceGet_get_fwd {β : Type} (a : Arr β) (s0 : ℤ) (len : ℕ) (j : ℕ) (h0 : 0 ≤ s0) :
    (NpFN.sliceGet a ⟨s0, 1, len⟩).get j = a.get (s0.toNat + j) := by
  show a.get _ = _
  congr 1; simp only []; omega

end FftNoiseGen

namespace FftNoiseGen

@[simp] theorem map_n {β γ : Type} (g : β → γ) (a : Arr β) : (NpFN.map g a).n = a.n := by
  unfold NpFN.map; rw [memo_eq]
@[simp] theorem map_get {β γ : Type} (g : β → γ) (a : Arr β) (i : ℕ) : (NpFN.map g a).get i = g (a.get i) := by
  unfold NpFN.map; rw [memo_eq]
theorem zipWith_n {β γ δ : Type} (g : β → γ → δ) (a : Arr β) (b : Arr γ) :
    (NpFN.zipWith g a b).n = if a.n = b.n then a.n else 0 := by
  unfold NpFN.zipWith; rw [memo_eq]
theorem zipWith_get {β γ δ : Type} (g : β → γ → δ) (a : Arr β) (b : Arr γ) (i : ℕ) :
    (NpFN.zipWith g a b).get i = g (a.get i) (b.get i) := by
  unfold NpFN.zipWith; rw [memo_eq]
@[simp] theorem rng_n {β : Type} (u : ℕ → β) (p n : ℕ) : (NpFN.rngRandom u p n).n = n := rfl
@[simp] theorem rng_get {β : Type} (u : ℕ → β) (p n i : ℕ) : (NpFN.rngRandom u p n).get i = u (p + i) := rfl
@[simp] theorem sliceGet_n {β : Type} (a : Arr β) (s : NpFN.Slice) : (NpFN.sliceGet a s).n = s.len := rfl
@[simp] theorem sliceGet_get {β : Type} (a : Arr β) (s : NpFN.Slice) (j : ℕ) :
    (NpFN.sliceGet a s).get j = a.get (Int.toNat (s.start + (j : ℤ) * s.step)) := rfl
@[simp] theorem set_n {β : Type} (a : Arr β) (i : ℕ) (v : β) : (Arr.set a i v).n = a.n := rfl
@[simp] theorem set_get {β : Type} (a : Arr β) (i : ℕ) (v : β) (k : ℕ) :
    (Arr.set a i v).get k = if k = i then v else a.get k := rfl

theorem fdiv_two (a : ℤ) : Int.fdiv a 2 = a / 2 := Int.fdiv_eq_ediv_of_nonneg _ (by norm_num)
theorem fmod_two (a : ℤ) : Int.fmod a 2 = a % 2 := Int.fmod_eq_emod_of_nonneg _ (by norm_num)
theorem pyIndex_nonneg (n : ℕ) (i : ℤ) (hi : 0 ≤ i) : Np.pyIndex n i = i.toNat := by
  unfold Np.pyIndex; rw [if_neg (by omega)]

theorem cx_eq_iff (a b : Cx ℝ) : a = b ↔ a.re = b.re ∧ a.im = b.im := by
  cases a; cases b; simp

theorem cx_add_re (a b : Cx ℝ) : (a + b).re = a.re + b.re := rfl
theorem cx_add_im (a b : Cx ℝ) : (a + b).im = a.im + b.im := rfl
theorem cx_sub_re (a b : Cx ℝ) : (a - b).re = a.re - b.re := rfl
theorem cx_sub_im (a b : Cx ℝ) : (a - b).im = a.im - b.im := rfl
theorem cx_mul_re (a b : Cx ℝ) : (a * b).re = a.re * b.re - a.im * b.im := rfl
theorem cx_mul_im (a b : Cx ℝ) : (a * b).im = a.re * b.im + a.im * b.re := rfl
theorem cx_ofReal_re (a : ℝ) : (Cx.ofReal a).re = a := rfl
theorem cx_ofReal_im (a : ℝ) : (Cx.ofReal a).im = 0 := by simp [Cx.ofReal]
theorem cx_conj_re (a : Cx ℝ) : (Cx.conj a).re = a.re := rfl
theorem cx_conj_im (a : Cx ℝ) : (Cx.conj a).im = -a.im := rfl

/-- the unit rotation built from the uniform draw `u j` -/
noncomputable def rotOf (u : ℕ → ℝ) (j : ℕ) : Cx ℝ := ⟨Real.cos (2 * Real.pi * u j), Real.sin (2 * Real.pi * u j)⟩

end FftNoiseGen
open FftNoiseGen

theorem rotOf_normSq (u : ℕ → ℝ) (j : ℕ) : Cx.normSq (rotOf u j) = 1 := by
  simp only [Cx.normSq, rotOf]
  have := Real.cos_sq_add_sin_sq (2 * Real.pi * u j)
  nlinarith [this]

macro "fn_simp" : tactic => `(tactic| simp (disch := omega) only [if_pos, if_neg, if_true, if_false, eq_self_iff_true, pySlice_fwd, pySlice_rev,
  map_n, map_get, zipWith_n, zipWith_get, rng_n, rng_get, sliceGet_n, sliceGet_get_fwd, sliceSet_n, sliceSet_get_fwd, sliceSet_get_rev,
  set_n, set_get, pyIndex_nonneg, fdiv_two, fmod_two, decide_eq_true_eq, Model.fftnoiseSpectrum, Int.toNat_one, Int.toNat_zero, Int.neg_neg,
  Nat.zero_add, Nat.add_sub_cancel_left, Int.toNat_natCast])

/-- closes `⟨generated unit rotation at x⟩ = ⟨cos 2πx, sin 2πx⟩` whatever the operand order of the phase product in the source -/
macro "rot_close" : tactic => `(tactic| (
  rw [cx_eq_iff]
  simp only [rotOf, cx_add_re, cx_add_im, cx_sub_re, cx_sub_im, cx_mul_re, cx_mul_im, cx_ofReal_re, cx_ofReal_im, cx_conj_re, cx_conj_im,
    RL.ofSci_eq, RL.cos_eq, RL.sin_eq, RL.pi_eq, RL.ofNat_eq, RL.ofInt_eq]
  constructor <;> norm_num <;> ring_nf))

macro "k_simp" : tactic => `(tactic| simp (disch := omega) only [if_pos, if_neg, if_true, if_false, eq_self_iff_true])

theorem gen_fftnoise_spectrum_eq_model (f : Arr (Cx ℝ)) (u : ℕ → ℝ) (hN : 2 ≤ f.n) :
    (Gen.fftnoise_spectrum f u).n = f.n ∧
    ∀ k, k < f.n → (Gen.fftnoise_spectrum f u).get k = Model.fftnoiseSpectrum f.get (rotOf u) f.n k := by
  unfold Gen.fftnoise_spectrum
  by_cases hpos : ((f.n : ℤ) - 1) / 2 > 0
  · by_cases hev : (f.n : ℤ) % 2 = 0
    · refine ⟨by fn_simp, fun k hk => ?_⟩
      fn_simp
      rcases Nat.eq_zero_or_pos k with rfl | hk0
      · k_simp
      · rcases fftnoise_cases f.n k hk0 hk with h | ⟨_, h⟩ | ⟨h0, h⟩
        · k_simp
          congr 1
          · congr 1; omega
          · rot_close
        · k_simp
          congr 3; omega
        · k_simp
          rw [show f.n - k - 1 = f.n - 1 - k from by omega]
          congr 2
          · congr 1; omega
          · rot_close
    · refine ⟨by fn_simp, fun k hk => ?_⟩
      fn_simp
      rcases Nat.eq_zero_or_pos k with rfl | hk0
      · k_simp
      · rcases fftnoise_cases f.n k hk0 hk with h | ⟨_, h⟩ | ⟨h0, h⟩
        · k_simp
          congr 1
          · congr 1; omega
          · rot_close
        · omega
        · k_simp
          rw [show f.n - k - 1 = f.n - 1 - k from by omega]
          congr 2
          · congr 1; omega
          · rot_close
  · have h2 : f.n = 2 := by omega
    refine ⟨by fn_simp, fun k hk => ?_⟩
    fn_simp
    have hk2 : k = 0 ∨ k = 1 := by omega
    rcases hk2 with rfl | rfl
    · k_simp
    · k_simp
      congr 3; omega



namespace FftNoiseGen

theorem maskSet_n {β : Type} (a : Arr β) (m : Arr Bool) (c : β) : (NpFN.maskSet a m c).n = if m.n = a.n then a.n else 0 := by
  unfold NpFN.maskSet; rw [memo_eq]
theorem maskSet_get {β : Type} (a : Arr β) (m : Arr Bool) (c : β) (k : ℕ) :
    (NpFN.maskSet a m c).get k = if m.get k then c else a.get k := by
  unfold NpFN.maskSet; rw [memo_eq]
@[simp] theorem full_n {β : Type} (n : ℕ) (v : β) : (NpFN.full n v).n = n := rfl
@[simp] theorem full_get {β : Type} (n : ℕ) (v : β) (k : ℕ) : (NpFN.full n v).get k = v := rfl
@[simp] theorem arange_n (n : ℕ) : (NpFN.arange n).n = n := rfl
@[simp] theorem arange_get (n k : ℕ) : (NpFN.arange n).get k = (k : ℤ) := rfl
theorem fftfreq_n (n : ℕ) (d : ℝ) : (NpFN.fftfreq n d).n = n := by
  unfold NpFN.fftfreq; simp only [memo_eq]
theorem fftfreq_get (n : ℕ) (d : ℝ) (k : ℕ) : (NpFN.fftfreq n d).get k
    = ((if k < (n - 1) / 2 + 1 then (k : ℤ) else -((n / 2 : ℕ) : ℤ) + ((k : ℤ) - (((n - 1) / 2 + 1 : ℕ) : ℤ)) : ℤ) : ℝ) * (1 / ((n : ℝ) * d)) := by
  unfold NpFN.fftfreq; simp only [memo_eq, RL.ofInt_eq, RL.ofNat_eq, Nat.cast_one]
@[simp] theorem columns2_n {β : Type} (a b : Arr β) : (NpFN.columns2 a b).n = a.n := rfl
@[simp] theorem columns2_m {β : Type} (a b : Arr β) : (NpFN.columns2 a b).m = 2 := rfl
@[simp] theorem columns2_get {β : Type} (a b : Arr β) (i j : ℕ) : (NpFN.columns2 a b).get i j = if j = 0 then a.get i else b.get i := rfl

/-- NumPy's `fftfreq` index rule is the usual two-sided one -/
theorem fftfreq_index (n k : ℕ) (hk : k < n) :
    (if k < (n - 1) / 2 + 1 then (k : ℤ) else -((n / 2 : ℕ) : ℤ) + ((k : ℤ) - (((n - 1) / 2 + 1 : ℕ) : ℤ)))
      = if 2 * k < n then (k : ℤ) else (k : ℤ) - (n : ℤ) := by
  split_ifs <;> omega

theorem trunc_intCast (z : ℤ) : RealLike.trunc ((z : ℝ)) = z := by
  rw [RL.trunc_eq]
  split_ifs <;> simp

end FftNoiseGen

/-- the spectrum `band_limited_noise` hands to `fftnoise` is the indicator of `Model.bandMask` -/
theorem gen_band_spectrum_eq_model (lo hi fs : ℝ) (N : ℕ) (u : ℕ → ℝ) :
    (Gen.band_limited_noise_spectrum lo hi (N : ℤ) fs u).n = N ∧
    ∀ k, k < N → (Gen.band_limited_noise_spectrum lo hi (N : ℤ) fs u).get k
      = if Model.bandMask N fs lo hi k then Cx.ofReal 1 else Cx.ofReal 0 := by
  unfold Gen.band_limited_noise_spectrum
  refine ⟨?_, fun k hk => ?_⟩
  · simp only [maskSet_n, zipWith_n, map_n, fftfreq_n, full_n, Int.toNat_natCast, if_true, eq_self_iff_true]
  · simp only [maskSet_get, zipWith_get, map_get, fftfreq_get, full_get, Int.toNat_natCast, fftfreq_index N k hk,
      Model.bandMask, fftfreqAbs_formula, RL.ge_eq, RL.le_eq, RL.abs_eq, RL.ofSci_eq, RL.ofNat_eq,
      Bool.and_eq_true, decide_eq_true_eq]
    norm_num
    -- whatever is left is the same two inequalities, possibly in the other order
    all_goals (split_ifs <;> first | rfl | (exfalso; tauto))

theorem gen_band_rejects_iff (lo hi fs : ℝ) (N : ℤ) (u : ℕ → ℝ) :
    Gen.band_limited_noise_rejects lo hi N fs u = false
      ↔ (2 ≤ N ∧ 0 < fs ∧ 0 ≤ lo ∧ lo ≤ hi ∧ hi ≤ fs / 2 + 1 / 10 ^ 12) := by
  unfold Gen.band_limited_noise_rejects
  simp only [RL.le_eq, RL.lt_eq, RL.gt_eq, RL.ofInt_eq, RL.ofSci_eq, decide_eq_true_eq]
  norm_num
  intros; omega

theorem gen_fftnoise_rejects_iff (f : Arr (Cx ℝ)) (u : ℕ → ℝ) : Gen.fftnoise_rejects f u = false ↔ 2 ≤ f.n := by
  unfold Gen.fftnoise_rejects
  simp only [decide_eq_true_eq]
  norm_num <;> omega

theorem gen_alpha_rejects_iff (fs fmin fmax alpha : ℝ) :
    Gen.alpha_noise_init_rejects fs fmin fmax alpha = false ↔ (1 / 100 ≤ alpha ∧ alpha ≤ 2 ∧ 2 * fmax ≤ fs) := by
  unfold Gen.alpha_noise_init_rejects
  simp only [RL.le_eq, RL.lt_eq, RL.gt_eq, RL.ofInt_eq, RL.ofSci_eq, decide_eq_true_eq]
  norm_num <;> tauto

theorem gen_white_init_eq (fs psd : ℝ) : Gen.white_noise_init fs psd = (fs, Real.sqrt (psd * fs)) := by
  unfold Gen.white_noise_init
  simp only [RL.sqrt_eq]

/-- the translated design of `alpha_noise.__init__` is the hand model: section count, corner frequencies, effective corners,
    output scaling, coefficient matrices.  `hnum`: for `numSections ≤ 0` the real constructor raises (IndexError at
    `filter_f_min_vals[0]` on the empty corner array). -/
theorem gen_alpha_init_eq_model (fs fmin fmax alpha : ℝ) (hnum : 0 < Model.numSections fmin fmax) :
    let g := Gen.alpha_noise_init fs fmin fmax alpha
    let num := (Model.numSections fmin fmax).toNat
    let c := Model.sectionCorners fmin fmax alpha num
    g.1 = fs ∧ g.2.1 = alpha ∧ g.2.2.1 = Model.numSections fmin fmax
    ∧ g.2.2.2.1 = (c 0).1 ∧ g.2.2.2.2.1 = (c (num - 1)).2
    ∧ g.2.2.2.2.2.1 = 1 / (c (num - 1)).2 ^ (alpha / 2)
    ∧ (g.2.2.2.2.2.2.1.n = num ∧ g.2.2.2.2.2.2.1.m = 2 ∧ ∀ i, i < num →
        g.2.2.2.2.2.2.1.get i 0 = (Model.filterCoeffs fs (c i).1 (c i).2).1 ∧
        g.2.2.2.2.2.2.1.get i 1 = (Model.filterCoeffs fs (c i).1 (c i).2).2.1)
    ∧ (g.2.2.2.2.2.2.2.1.n = num ∧ g.2.2.2.2.2.2.2.1.m = 2 ∧ ∀ i, i < num →
        g.2.2.2.2.2.2.2.1.get i 0 = 1 ∧
        g.2.2.2.2.2.2.2.1.get i 1 = -(Model.filterCoeffs fs (c i).1 (c i).2).2.2)
    ∧ (g.2.2.2.2.2.2.2.2.1.n = num ∧ g.2.2.2.2.2.2.2.2.2.n = num ∧ ∀ i, i < num →
        (g.2.2.2.2.2.2.2.2.1.get i, g.2.2.2.2.2.2.2.2.2.get i) = c i) := by
  intro g num c
  simp only [g, num, c]
  generalize hZ : Model.numSections fmin fmax = Z at hnum ⊢
  simp only [Model.numSections, RL.ofSci_eq, RL.log10_eq, RL.pi_eq, RL.ceil_eq, RL.two_eq] at hZ
  norm_num at hZ
  simp only [Gen.alpha_noise_init, Model.sectionCorners, gen_filter_coeffs_eq_model, map_get, map_n,
    zipWith_get, zipWith_n, arange_n, arange_get, full_n, full_get, columns2_n, columns2_m, columns2_get, trunc_intCast,
    RL.ofSci_eq, RL.ofInt_eq, RL.ofNat_eq, RL.log10_eq, RL.pi_eq, RL.ceil_eq, RL.pow_eq, RL.two_eq, RL.one_eq,
    pyIndex_nonneg _ 0 (le_refl 0), if_true, eq_self_iff_true]
  norm_num
  have hZc : ((Z.toNat : ℕ) : ℝ) = (Z : ℝ) := by exact_mod_cast Int.toNat_of_nonneg hnum.le
  have hpy : Np.pyIndex Z.toNat (-1) = Z.toNat - 1 := by
    unfold Np.pyIndex; rw [if_pos (by norm_num)]; omega
  simp only [hZ, hZc, hpy, and_self, implies_true, eq_self_iff_true]




namespace FftNoiseGen

theorem toC_cis (a : ℝ) : Cx.toC ⟨Real.cos a, Real.sin a⟩ = Complex.exp ((a : ℂ) * Complex.I) := by
  rw [Complex.exp_mul_I]
  apply Complex.ext <;> simp [← Complex.ofReal_cos, ← Complex.ofReal_sin]

theorem toC_zero : Cx.toC (Cx.ofReal (RealLike.ofNat 0 : ℝ)) = 0 := by
  rw [Cx.toC_ofReal]; simp

/-- the contract `NpFN.ifft` at ℝ is the inverse DFT in Mathlib terms -/
theorem npifft_toC (F : Arr (Cx ℝ)) (m : ℕ) :
    Cx.toC ((NpFN.ifft F).get m)
      = (∑ k ∈ range F.n, Cx.toC (F.get k) * Complex.exp (2 * Real.pi * Complex.I * (k : ℂ) * (m : ℂ) / (F.n : ℂ))) / (F.n : ℂ)
    ∧ (NpFN.ifft F).n = F.n := by
  unfold NpFN.ifft
  rw [memo_eq]
  refine ⟨?_, rfl⟩
  simp only [Cx.toC_divReal, RL.ofNat_eq]
  congr 1
  generalize F.n = N
  have key : ∀ n : ℕ, Cx.toC (forRange n (Cx.ofReal (RealLike.ofNat 0 : ℝ)) (fun k acc =>
        acc + F.get k * (⟨RealLike.cos (RealLike.ofNat 2 * RealLike.pi * RealLike.ofNat k * RealLike.ofNat m / RealLike.ofNat N),
                          RealLike.sin (RealLike.ofNat 2 * RealLike.pi * RealLike.ofNat k * RealLike.ofNat m / RealLike.ofNat N)⟩ : Cx ℝ)))
      = ∑ k ∈ range n, Cx.toC (F.get k) * Complex.exp (2 * Real.pi * Complex.I * (k : ℂ) * (m : ℂ) / (N : ℂ)) := by
    intro n
    induction n with
    | zero => rw [forRange_zero, toC_zero, Finset.sum_range_zero]
    | succ j ih =>
      rw [forRange_succ, Finset.sum_range_succ, ← ih, Cx.toC_add, Cx.toC_mul]
      congr 2
      simp only [RL.cos_eq, RL.sin_eq, RL.ofNat_eq, RL.pi_eq, toC_cis]
      congr 1
      push_cast
      ring
  exact key N

end FftNoiseGen

/-! ## transfer: FFT synthesiser -/
section fft
variable (f : Arr (Cx ℝ)) (u : ℕ → ℝ) (hN : 2 ≤ f.n)
include hN

theorem gen_fftnoise_spectrum_len : (Gen.fftnoise_spectrum f u).n = f.n := (gen_fftnoise_spectrum_eq_model f u hN).1

theorem gen_fftnoise_spectrum_get (k : ℕ) (hk : k < f.n) :
    (Gen.fftnoise_spectrum f u).get k = Model.fftnoiseSpectrum f.get (rotOf u) f.n k :=
  (gen_fftnoise_spectrum_eq_model f u hN).2 k hk

/-- Hermitian symmetry of the translated spectrum (`mirror_index`): `F[N−k] = conj F[k]` -/
theorem gen_fftnoise_hermitian (k : ℕ) (hk0 : 0 < k) (hk : k < f.n) :
    Cx.toC ((Gen.fftnoise_spectrum f u).get (f.n - k)) = (starRingEnd ℂ) (Cx.toC ((Gen.fftnoise_spectrum f u).get k)) := by
  rw [gen_fftnoise_spectrum_get f u hN k hk, gen_fftnoise_spectrum_get f u hN (f.n - k) (by omega)]
  exact fftnoise_hermitian f.get (rotOf u) f.n k hN hk0 hk

theorem gen_fftnoise_dc_real : ((Gen.fftnoise_spectrum f u).get 0).im = 0 := by
  rw [gen_fftnoise_spectrum_get f u hN 0 (by omega)]; exact fftnoise_dc_real _ _ _

theorem gen_fftnoise_nyquist_real (hev : f.n % 2 = 0) : ((Gen.fftnoise_spectrum f u).get (f.n / 2)).im = 0 := by
  rw [gen_fftnoise_spectrum_get f u hN (f.n / 2) (by omega)]; exact fftnoise_nyquist_real _ _ _ hN hev

/-- prescribed magnitudes on the positive side … -/
theorem gen_fftnoise_magnitude_pos (k : ℕ) (hk0 : 0 < k) (hk : k ≤ (f.n - 1) / 2) :
    Cx.normSq ((Gen.fftnoise_spectrum f u).get k) = Cx.normSq (f.get k) := by
  rw [gen_fftnoise_spectrum_get f u hN k (by omega)]
  exact fftnoise_magnitude_pos f.get (rotOf u) f.n k hk0 hk (rotOf_normSq u)

/-- … and REPLACED by the positive side's on the mirror side -/
theorem gen_fftnoise_magnitude_neg (k : ℕ) (hk0 : 0 < k) (hk : k ≤ (f.n - 1) / 2) :
    Cx.normSq ((Gen.fftnoise_spectrum f u).get (f.n - k)) = Cx.normSq (f.get k) := by
  rw [gen_fftnoise_spectrum_get f u hN (f.n - k) (by omega)]
  exact fftnoise_magnitude_neg f.get (rotOf u) f.n k hN hk0 hk (rotOf_normSq u)

theorem gen_fftnoise_dc_magnitude : Cx.normSq ((Gen.fftnoise_spectrum f u).get 0) = (f.get 0).re ^ 2 := by
  rw [gen_fftnoise_spectrum_get f u hN 0 (by omega)]; exact fftnoise_dc_magnitude _ _ _

theorem gen_fftnoise_nyquist_magnitude (hev : f.n % 2 = 0) :
    Cx.normSq ((Gen.fftnoise_spectrum f u).get (f.n / 2)) = (f.get (f.n / 2)).re ^ 2 := by
  rw [gen_fftnoise_spectrum_get f u hN (f.n / 2) (by omega)]; exact fftnoise_nyquist_magnitude _ _ _ hN hev

theorem gen_fftnoise_zero_bins (k : ℕ) (hk : k < f.n) (hz : f.get k = ⟨0, 0⟩) (hzm : f.get (f.n - k) = ⟨0, 0⟩) :
    (Gen.fftnoise_spectrum f u).get k = ⟨0, 0⟩ := by
  rw [gen_fftnoise_spectrum_get f u hN k hk]; exact fftnoise_zero_bins _ _ _ k hN hk hz hzm

/-- the inverse DFT of the translated spectrum is real (`hermitian_ifft_real`) -/
theorem gen_fftnoise_series_real (n : ℕ) :
    (∑ k ∈ range f.n, Cx.toC ((Gen.fftnoise_spectrum f u).get k) *
      Complex.exp (2 * Real.pi * Complex.I * (k : ℂ) * (n : ℂ) / (f.n : ℂ))).im = 0 := by
  rw [Finset.sum_congr rfl (fun k hk => by rw [gen_fftnoise_spectrum_get f u hN k (Finset.mem_range.mp hk)])]
  exact fftnoise_series_real f.get (rotOf u) f.n hN n

omit hN in
/-- glue: the translated `fftnoise` is `.real` of the contract `NpFN.ifft` applied to the translated spectrum -/
theorem gen_fftnoise_eq : Gen.fftnoise f u = NpFN.map (fun z => z.re) (NpFN.ifft (Gen.fftnoise_spectrum f u)) := rfl

/-- `.real` discards nothing: the returned sample IS the inverse DFT of the spectrum (`fftnoise_spectrum`) -/
theorem gen_fftnoise_series (m : ℕ) :
    (Gen.fftnoise f u).n = f.n ∧
    (((Gen.fftnoise f u).get m : ℝ) : ℂ)
      = (∑ k ∈ range f.n, Cx.toC ((Gen.fftnoise_spectrum f u).get k) *
          Complex.exp (2 * Real.pi * Complex.I * (k : ℂ) * (m : ℂ) / (f.n : ℂ))) / (f.n : ℂ) := by
  have hlen := gen_fftnoise_spectrum_len f u hN
  obtain ⟨h1, h2⟩ := npifft_toC (Gen.fftnoise_spectrum f u) m
  rw [hlen] at h1 h2
  refine ⟨by rw [gen_fftnoise_eq, map_n, h2], ?_⟩
  rw [gen_fftnoise_eq, map_get, ← h1]
  have him : (Cx.toC ((NpFN.ifft (Gen.fftnoise_spectrum f u)).get m)).im = 0 := by
    rw [h1, Complex.div_natCast_im, gen_fftnoise_series_real f u hN m, zero_div]
  apply Complex.ext
  · simp
  · simp only [Complex.ofReal_im]; exact him.symm

end fft

/-! ## transfer: band-limited noise -/
section band
variable (lo hi fs : ℝ) (N : ℕ) (u : ℕ → ℝ)

theorem gen_band_spectrum_len : (Gen.band_limited_noise_spectrum lo hi (N : ℤ) fs u).n = N :=
  (gen_band_spectrum_eq_model lo hi fs N u).1

/-- the translated mask is symmetric under `k ↦ N − k` (`band_mask_symmetric`) -/
theorem gen_band_symm (hfs : 0 < fs) (k : ℕ) (hk0 : 0 < k) (hk : k < N) :
    (Gen.band_limited_noise_spectrum lo hi (N : ℤ) fs u).get (N - k) = (Gen.band_limited_noise_spectrum lo hi (N : ℤ) fs u).get k := by
  rw [(gen_band_spectrum_eq_model lo hi fs N u).2 k hk, (gen_band_spectrum_eq_model lo hi fs N u).2 (N - k) (by omega),
    bandMask_symm N fs lo hi hfs k hk0 hk]

/-- the translated mask selects exactly the bins whose |frequency| `min(k, N−k)·fs/N` lies in `[min_freq, max_freq]` (both ends inclusive) -/
theorem gen_band_iff (hfs : 0 < fs) (k : ℕ) (hk : k < N) :
    (Gen.band_limited_noise_spectrum lo hi (N : ℤ) fs u).get k
      = if lo ≤ (min k (N - k) : ℕ) * fs / N ∧ (min k (N - k) : ℕ) * fs / N ≤ hi then Cx.ofReal 1 else Cx.ofReal 0 := by
  rw [(gen_band_spectrum_eq_model lo hi fs N u).2 k hk]
  have h := bandMask_iff N (by omega) fs lo hi hfs k hk
  by_cases hb : Model.bandMask N fs lo hi k = true
  · rw [if_pos hb, if_pos (h.mp hb)]
  · rw [if_neg hb, if_neg (fun hc => hb (h.mpr hc))]

/-- glue: `band_limited_noise` is `fftnoise` of the translated mask spectrum -/
theorem gen_band_limited_noise_eq :
    Gen.band_limited_noise lo hi (N : ℤ) fs u
      = Gen.fftnoise (Gen.band_limited_noise_spectrum lo hi (N : ℤ) fs u) (fun i => u (0 + i)) := rfl

/-- bins outside the band are exactly zero in the spectrum that is inverse-transformed (`band_limited_zero_outside`) -/
theorem gen_band_limited_zero_outside (hN : 2 ≤ N) (hfs : 0 < fs) (k : ℕ) (hk : k < N)
    (hout : Model.bandMask N fs lo hi k = false) (w : ℕ → ℝ) :
    (Gen.fftnoise_spectrum (Gen.band_limited_noise_spectrum lo hi (N : ℤ) fs u) w).get k = ⟨0, 0⟩ := by
  have hlen := gen_band_spectrum_len lo hi fs N u
  have hB := (gen_band_spectrum_eq_model lo hi fs N u).2
  have hz : ∀ j, j < N → Model.bandMask N fs lo hi j = false →
      (Gen.band_limited_noise_spectrum lo hi (N : ℤ) fs u).get j = ⟨0, 0⟩ := by
    intro j hj hm
    rw [hB j hj, hm]
    simp [Cx.ofReal]
  rcases Nat.eq_zero_or_pos k with rfl | hk0
  · -- DC: `F[0] = real(F[0])` of a zero entry (its "mirror partner" N − 0 is not a bin)
    rw [gen_fftnoise_spectrum_get _ w (by rw [hlen]; exact hN) 0 (by rw [hlen]; exact hk), fftnoiseSpectrum_dc, hz 0 hk hout]
    simp [Cx.ofReal]
  · apply gen_fftnoise_zero_bins _ w (by rw [hlen]; exact hN) k (by rw [hlen]; exact hk)
    · exact hz k hk hout
    · rw [hlen]
      exact hz (N - k) (by omega) (by rw [bandMask_symm N fs lo hi hfs k hk0 hk]; exact hout)

/-- bins inside the band on the positive side keep unit magnitude, so do their mirror images -/
theorem gen_band_limited_unit_inside (hN : 2 ≤ N) (k : ℕ) (hk0 : 0 < k) (hk : k ≤ (N - 1) / 2)
    (hin : Model.bandMask N fs lo hi k = true) (w : ℕ → ℝ) :
    Cx.normSq ((Gen.fftnoise_spectrum (Gen.band_limited_noise_spectrum lo hi (N : ℤ) fs u) w).get k) = 1 ∧
    Cx.normSq ((Gen.fftnoise_spectrum (Gen.band_limited_noise_spectrum lo hi (N : ℤ) fs u) w).get (N - k)) = 1 := by
  have hlen := gen_band_spectrum_len lo hi fs N u
  have hB := (gen_band_spectrum_eq_model lo hi fs N u).2 k (by omega)
  rw [hin, if_pos rfl] at hB
  have h1 := gen_fftnoise_magnitude_pos _ w (by rw [hlen]; exact hN) k hk0 (by rw [hlen]; exact hk)
  have h2 := gen_fftnoise_magnitude_neg _ w (by rw [hlen]; exact hN) k hk0 (by rw [hlen]; exact hk)
  rw [hlen] at h2
  rw [h1, h2, hB]
  simp [Cx.normSq, Cx.ofReal]
end band

/-! ## transfer: 1/f^alpha filter design -/
namespace FftNoiseGen
/-- what `Gen.alpha_noise_init` returns: (_fs, _alpha, _num_spectra, _fmin, _fmax, _scaling, _a_coeffs, _b_coeffs, filter_f_min_vals, filter_f_max_vals) -/
abbrev AlphaOut := ℝ × ℝ × ℤ × ℝ × ℝ × ℝ × Arr2 ℝ × Arr2 ℝ × Arr ℝ × Arr ℝ
def AlphaOut.fs (g : AlphaOut) : ℝ := g.1
def AlphaOut.alpha (g : AlphaOut) : ℝ := g.2.1
def AlphaOut.num (g : AlphaOut) : ℤ := g.2.2.1
def AlphaOut.fmin (g : AlphaOut) : ℝ := g.2.2.2.1
def AlphaOut.fmax (g : AlphaOut) : ℝ := g.2.2.2.2.1
def AlphaOut.scaling (g : AlphaOut) : ℝ := g.2.2.2.2.2.1
def AlphaOut.A (g : AlphaOut) : Arr2 ℝ := g.2.2.2.2.2.2.1
def AlphaOut.B (g : AlphaOut) : Arr2 ℝ := g.2.2.2.2.2.2.2.1
def AlphaOut.lo (g : AlphaOut) : Arr ℝ := g.2.2.2.2.2.2.2.2.1
def AlphaOut.hi (g : AlphaOut) : Arr ℝ := g.2.2.2.2.2.2.2.2.2

theorem sectionCorners_pos (fmin fmax alpha : ℝ) (num i : ℕ) :
    0 < (Model.sectionCorners fmin fmax alpha num i).1 ∧ 0 < (Model.sectionCorners fmin fmax alpha num i).2 := by
  rw [sectionCorners_fst, sectionCorners_snd]
  constructor <;> exact div_pos (Real.rpow_pos_of_pos (by norm_num) _) (by positivity)
end FftNoiseGen

section alpha
variable (fs fmin fmax alpha : ℝ) (hnum : 0 < Model.numSections fmin fmax)
include hnum

theorem gen_alpha_corners (i : ℕ) (hi : i < (Model.numSections fmin fmax).toNat) :
    let g : AlphaOut := Gen.alpha_noise_init fs fmin fmax alpha
    (g.lo.get i, g.hi.get i) = Model.sectionCorners fmin fmax alpha (Model.numSections fmin fmax).toNat i :=
  (gen_alpha_init_eq_model fs fmin fmax alpha hnum).2.2.2.2.2.2.2.2.2.2 i hi

/-- corner placement: inside a section the corners have the ratio `10^(dp·alpha/2)` -/
theorem gen_alpha_corners_ratio (hf : 0 < fmin) (i : ℕ) (hi : i < (Model.numSections fmin fmax).toNat) :
    let g : AlphaOut := Gen.alpha_noise_init fs fmin fmax alpha
    let dp := (Real.logb 10 (2 * Real.pi * fmax) - Real.logb 10 (2 * Real.pi * fmin)) / ((Model.numSections fmin fmax).toNat : ℝ)
    g.hi.get i = g.lo.get i * (10 : ℝ) ^ (dp * alpha / 2) := by
  intro g dp
  have h := gen_alpha_corners fs fmin fmax alpha hnum i hi
  have h1 := congrArg Prod.fst h
  have h2 := congrArg Prod.snd h
  simp only at h1 h2
  rw [h1, h2]
  exact sectionCorners_ratio fmin fmax alpha _ i hf (by omega)

/-- corner placement: consecutive sections are log-equispaced with pitch `dp` -/
theorem gen_alpha_corners_step (hf : 0 < fmin) (i : ℕ) (hi : i + 1 < (Model.numSections fmin fmax).toNat) :
    let g : AlphaOut := Gen.alpha_noise_init fs fmin fmax alpha
    let dp := (Real.logb 10 (2 * Real.pi * fmax) - Real.logb 10 (2 * Real.pi * fmin)) / ((Model.numSections fmin fmax).toNat : ℝ)
    g.lo.get (i + 1) = g.lo.get i * (10 : ℝ) ^ dp := by
  intro g dp
  have h1 := congrArg Prod.fst (gen_alpha_corners fs fmin fmax alpha hnum i (by omega))
  have h2 := congrArg Prod.fst (gen_alpha_corners fs fmin fmax alpha hnum (i + 1) hi)
  simp only at h1 h2
  rw [h1, h2]
  exact sectionCorners_step fmin fmax alpha _ i hf (by omega)

/-- per-section response of the TRANSLATED stored coefficients (rows of `_a_coeffs`, `_b_coeffs`): the bilinear-warped shelf
    between the translated corner frequencies -/
theorem gen_alpha_section_response (hfs : 0 < fs) (i : ℕ) (hi : i < (Model.numSections fmin fmax).toNat)
    (ω : ℝ) (h0 : 0 < ω) (hπ : ω < Real.pi) :
    let g : AlphaOut := Gen.alpha_noise_init fs fmin fmax alpha
    Complex.normSq (((g.A.get i 0 : ℝ) : ℂ) + ((g.A.get i 1 : ℝ) : ℂ) * Complex.exp (-(ω * Complex.I)))
        / Complex.normSq (((g.B.get i 0 : ℝ) : ℂ) + ((g.B.get i 1 : ℝ) : ℂ) * Complex.exp (-(ω * Complex.I)))
      = ((2 * fs * Real.tan (ω / 2)) ^ 2 + (2 * Real.pi * g.hi.get i) ^ 2)
          / ((2 * fs * Real.tan (ω / 2)) ^ 2 + (2 * Real.pi * g.lo.get i) ^ 2) := by
  intro g
  obtain ⟨_, _, _, _, _, _, ⟨_, _, hA⟩, ⟨_, _, hB⟩, _, _, hc⟩ := gen_alpha_init_eq_model fs fmin fmax alpha hnum
  have h1 := congrArg Prod.fst (hc i hi)
  have h2 := congrArg Prod.snd (hc i hi)
  simp only at h1 h2
  obtain ⟨hp1, hp2⟩ := sectionCorners_pos fmin fmax alpha (Model.numSections fmin fmax).toNat i
  have hb := bilinear_section fs _ _ ω hfs hp1.le hp2.le h0 hπ
  simp only at hb
  have e0 : g.A.get i 0 = _ := (hA i hi).1
  have e1 : g.A.get i 1 = _ := (hA i hi).2
  have e2 : g.B.get i 0 = _ := (hB i hi).1
  have e3 : g.B.get i 1 = _ := (hB i hi).2
  have e4 : g.lo.get i = _ := h1
  have e5 : g.hi.get i = _ := h2
  rw [e0, e1, e2, e3, e4, e5, ← hb]
  congr 2
  push_cast
  ring
end alpha

section alpha2
variable (fs fmin fmax alpha : ℝ) (hnum : 0 < Model.numSections fmin fmax)
include hnum

/-- effective corners and output scaling as coded: `_fmin = filter_f_min_vals[0]`, `_fmax = filter_f_max_vals[-1]`,
    `_scaling = 1 / fmax ^ (alpha/2)`; `_fs`, `_alpha`, `_num_spectra` as passed / as the model's section count -/
theorem gen_alpha_effective :
    let g : AlphaOut := Gen.alpha_noise_init fs fmin fmax alpha
    g.fs = fs ∧ g.alpha = alpha ∧ g.num = Model.numSections fmin fmax ∧ g.lo.n = g.num.toNat ∧ g.hi.n = g.num.toNat ∧
    g.fmin = g.lo.get 0 ∧ g.fmax = g.hi.get (g.num.toNat - 1) ∧ g.scaling = 1 / g.fmax ^ (alpha / 2) := by
  intro g
  obtain ⟨h1, h2, h3, h4, h5, h6, _, _, hn1, hn2, hc⟩ := gen_alpha_init_eq_model fs fmin fmax alpha hnum
  have e3 : g.num = _ := h3
  have e4 : g.fmin = _ := h4
  have e5 : g.fmax = _ := h5
  have e6 : g.scaling = _ := h6
  have c0 : g.lo.get 0 = _ := congrArg Prod.fst (hc 0 (by omega))
  have c1 : g.hi.get ((Model.numSections fmin fmax).toNat - 1) = _ := congrArg Prod.snd (hc ((Model.numSections fmin fmax).toNat - 1) (by omega))
  refine ⟨h1, h2, h3, ?_, ?_, ?_, ?_, ?_⟩
  · rw [e3]; exact hn1
  · rw [e3]; exact hn2
  · rw [e4, c0]
  · rw [e5, e3, c1]
  · rw [e6, e5]

/-- DC and Nyquist gain of every translated section -/
theorem gen_alpha_section_dc_nyquist (hfs : 0 < fs) (i : ℕ) (hi : i < (Model.numSections fmin fmax).toNat) :
    let g : AlphaOut := Gen.alpha_noise_init fs fmin fmax alpha
    ((g.A.get i 0 + g.A.get i 1) / (g.B.get i 0 + g.B.get i 1)) ^ 2 = (g.hi.get i / g.lo.get i) ^ 2 ∧
    ((g.A.get i 0 - g.A.get i 1) / (g.B.get i 0 - g.B.get i 1)) ^ 2 = 1 := by
  intro g
  obtain ⟨_, _, _, _, _, _, ⟨_, _, hA⟩, ⟨_, _, hB⟩, _, _, hc⟩ := gen_alpha_init_eq_model fs fmin fmax alpha hnum
  obtain ⟨hp1, hp2⟩ := sectionCorners_pos fmin fmax alpha (Model.numSections fmin fmax).toNat i
  have e0 : g.A.get i 0 = _ := (hA i hi).1
  have e1 : g.A.get i 1 = _ := (hA i hi).2
  have e2 : g.B.get i 0 = _ := (hB i hi).1
  have e3 : g.B.get i 1 = _ := (hB i hi).2
  have e4 : g.lo.get i = _ := congrArg Prod.fst (hc i hi)
  have e5 : g.hi.get i = _ := congrArg Prod.snd (hc i hi)
  have d := bilinear_dc fs _ _ hfs hp1 hp2.le
  have n := bilinear_nyquist fs _ _ hfs hp1.le hp2.le
  simp only at d n
  rw [e0, e1, e2, e3, e4, e5, ← sub_eq_add_neg, sub_neg_eq_add]
  exact ⟨d, n⟩
end alpha2

/-- `white_noise`: the scale is `sqrt(psd·fs)`, hence variance `psd·fs` (`white_variance`) -/
theorem gen_white_variance (fs psd : ℝ) (hp : 0 ≤ psd * fs) :
    (Gen.white_noise_init fs psd).1 = fs ∧ (Gen.white_noise_init fs psd).2 ^ 2 = psd * fs := by
  rw [gen_white_init_eq]
  exact ⟨rfl, Real.sq_sqrt hp⟩

/-! ### the hypotheses are satisfiable -/
example : 0 < Model.numSections (1 : ℝ) 100 := by
  simp only [Model.numSections, RL.ofSci_eq, RL.log10_eq, RL.pi_eq, RL.ceil_eq, RL.two_eq]
  apply Int.ceil_pos.mpr
  have h : Real.logb 10 (2 * Real.pi * 1) < Real.logb 10 (2 * Real.pi * 100) :=
    Real.logb_lt_logb (by norm_num) (by positivity) (by nlinarith [Real.pi_pos])
  have h' : (0:ℝ) < Real.logb 10 (2 * Real.pi * 100) - Real.logb 10 (2 * Real.pi * 1) := by linarith
  exact mul_pos (by norm_num) h'
example : 2 ≤ (⟨5, fun k => ⟨(k : ℝ), 1⟩⟩ : Arr (Cx ℝ)).n := by norm_num
example : Gen.band_limited_noise_rejects (α := ℝ) 10 50 4096 1000 (fun _ => 0) = false :=
  (gen_band_rejects_iff 10 50 1000 4096 _).mpr (by norm_num)
example : Gen.alpha_noise_init_rejects (α := ℝ) 1000 (1 / 100) 100 1 = false :=
  (gen_alpha_rejects_iff 1000 (1 / 100) 100 1).mpr (by norm_num)
example : (0 : ℝ) ≤ (37 / 100) * 1235 := by norm_num

#print axioms gen_fftnoise_spectrum_eq_model
#print axioms gen_fftnoise_rejects_iff
#print axioms gen_fftnoise_hermitian
#print axioms gen_fftnoise_dc_real
#print axioms gen_fftnoise_nyquist_real
#print axioms gen_fftnoise_magnitude_pos
#print axioms gen_fftnoise_magnitude_neg
#print axioms gen_fftnoise_dc_magnitude
#print axioms gen_fftnoise_nyquist_magnitude
#print axioms gen_fftnoise_zero_bins
#print axioms gen_fftnoise_series_real
#print axioms gen_fftnoise_eq
#print axioms gen_fftnoise_series
#print axioms FftNoiseGen.npifft_toC
#print axioms gen_band_spectrum_eq_model
#print axioms gen_band_rejects_iff
#print axioms gen_band_symm
#print axioms gen_band_iff
#print axioms gen_band_limited_noise_eq
#print axioms gen_band_limited_zero_outside
#print axioms gen_band_limited_unit_inside
#print axioms gen_alpha_init_eq_model
#print axioms gen_alpha_rejects_iff
#print axioms gen_alpha_corners
#print axioms gen_alpha_corners_ratio
#print axioms gen_alpha_corners_step
#print axioms gen_alpha_section_response
#print axioms gen_alpha_effective
#print axioms gen_alpha_section_dc_nyquist
#print axioms gen_white_init_eq
#print axioms gen_white_variance
