/-
  Props/SchedGen — the machine-translated scheduler loops (`Gen.ltf_plan_walk`, `Gen.new_ltf_plan_walk`,
  from speckit/schedulers.py) ARE the hand-model walks (`Model.walk … (Model.ltfStep …)`, `Model.newWalk`),
  for every configuration and every fuel, with no side condition.  Hence every theorem about the model
  walks is a theorem about the code as translated.

  Structure: a generic simulation lemma per loop (`whileFuel_walk`, `whileFuel_newWalk`: a `whileFuel`
  whose condition is `fi < fmax` and whose body appends the model step's bin is the model walk, by
  induction on fuel, generalised over the accumulated lists / the model state), then the per-iteration
  equality generated body = model step (the `hb` obligation inside the two main theorems), proved by
  normalising both sides: the only non-syntactic points are the integer clamp of the generated code vs
  the natural `Model.clampL` (`clampZ_eq`) and `ofInt (↑n)` vs `ofNat n` casts.
-/
import SpecKitV.RealInst
import SpecKitV.Gen.Sched
import SpecKitV.Model.Sched
import SpecKitV.Props.Utils

set_option linter.unusedVariables false

theorem gen_ltf_round_eq (v : ℝ) : Gen.ltf_plan_walk__round_half_up v = Model.roundHalfUp v := by
  unfold Gen.ltf_plan_walk__round_half_up Model.roundHalfUp
  simp only [RealLike.ge, RealLike.le]

namespace SchedGen

/-- loop state of the generated `ltf_plan` walk: `(K_arr, L_arr, b_arr, f_arr, fi, fres_arr)` -/
abbrev LtfSt := List ℤ × List ℤ × List ℝ × List ℝ × ℝ × List ℝ

/-- a fuelled while loop over `LtfSt` with condition `fi < fmax` whose body records `step fi` and advances
    `fi` by the step's resolution computes `Model.walk` (appended to whatever was accumulated) -/
theorem whileFuel_walk (fmax : ℝ) (step : ℝ → ℝ × ℝ × ℕ × ℤ)
    (cond : LtfSt → Bool) (body : LtfSt → LtfSt)
    (hc : ∀ Ka La ba fa fi ra, cond (Ka, La, ba, fa, fi, ra) = RealLike.lt fi fmax)
    (hb : ∀ Ka La ba fa fi ra, body (Ka, La, ba, fa, fi, ra) =
      (Ka ++ [(step fi).2.2.2], La ++ [((step fi).2.2.1 : ℤ)], ba ++ [(step fi).2.1],
        fa ++ [fi], fi + (step fi).1, ra ++ [(step fi).1])) :
    ∀ (fuel : ℕ) Ka La ba fa fi ra, ∃ fi' : ℝ,
      (whileFuel fuel cond body (Ka, La, ba, fa, fi, ra)).1 =
        (Ka ++ (Model.walk fuel fmax step fi).map (·.2.2.2.2),
         La ++ (Model.walk fuel fmax step fi).map (fun e => (e.2.2.2.1 : ℤ)),
         ba ++ (Model.walk fuel fmax step fi).map (·.2.2.1),
         fa ++ (Model.walk fuel fmax step fi).map (·.1),
         fi',
         ra ++ (Model.walk fuel fmax step fi).map (·.2.1)) := by
  intro fuel
  induction fuel with
  | zero => intro Ka La ba fa fi ra; exact ⟨fi, by simp [whileFuel, Model.walk]⟩
  | succ n ih =>
    intro Ka La ba fa fi ra
    unfold whileFuel Model.walk
    rw [hc]
    by_cases h : RealLike.lt fi fmax = true
    · rw [if_pos h, if_pos h, hb]
      obtain ⟨fi', h'⟩ := ih (Ka ++ [(step fi).2.2.2]) (La ++ [((step fi).2.2.1 : ℤ)])
        (ba ++ [(step fi).2.1]) (fa ++ [fi]) (fi + (step fi).1) (ra ++ [(step fi).1])
      refine ⟨fi', ?_⟩
      rw [h']
      simp
    · rw [if_neg h, if_neg h]
      exact ⟨fi, by simp⟩

theorem ltf_core (fmax : ℝ) (step : ℝ → ℝ × ℝ × ℕ × ℤ)
    (cond : LtfSt → Bool) (body : LtfSt → LtfSt)
    (hc : ∀ Ka La ba fa fi ra, cond (Ka, La, ba, fa, fi, ra) = RealLike.lt fi fmax)
    (hb : ∀ Ka La ba fa fi ra, body (Ka, La, ba, fa, fi, ra) =
      (Ka ++ [(step fi).2.2.2], La ++ [((step fi).2.2.1 : ℤ)], ba ++ [(step fi).2.1],
        fa ++ [fi], fi + (step fi).1, ra ++ [(step fi).1]))
    (fuel : ℕ) (fi : ℝ) :
    ((whileFuel fuel cond body ([], [], [], [], fi, [])).1.2.2.2.1,
     (whileFuel fuel cond body ([], [], [], [], fi, [])).1.2.2.2.2.2,
     (whileFuel fuel cond body ([], [], [], [], fi, [])).1.2.2.1,
     (whileFuel fuel cond body ([], [], [], [], fi, [])).1.2.1,
     (whileFuel fuel cond body ([], [], [], [], fi, [])).1.1) =
    ((Model.walk fuel fmax step fi).map (·.1), (Model.walk fuel fmax step fi).map (·.2.1),
     (Model.walk fuel fmax step fi).map (·.2.2.1),
     (Model.walk fuel fmax step fi).map (fun e => (e.2.2.2.1 : ℤ)),
     (Model.walk fuel fmax step fi).map (·.2.2.2.2)) := by
  obtain ⟨fi', h⟩ := whileFuel_walk fmax step cond body hc hb fuel [] [] [] [] fi []
  rw [h]
  simp

end SchedGen
open SchedGen

/-- the two integer clamps of the generated code (`if l > N then N`, `if l < Lmin then Lmin`) are the
    model's natural-valued `clampL` (the result is `≥ Lmin ≥ 0`, so `toNat` loses nothing) -/
theorem SchedGen.clampZ_eq (N Lmin : ℕ) (d : ℤ) :
    (if (if (N : ℤ) < d then (N : ℤ) else d) < (Lmin : ℤ) then (Lmin : ℤ)
      else if (N : ℤ) < d then (N : ℤ) else d) = ((Model.clampL N Lmin d : ℕ) : ℤ) := by
  unfold Model.clampL
  simp only [gt_iff_lt]
  split_ifs <;> omega

theorem gen_ltf_walk_eq_model (c : Model.Cfg ℝ) (fuel : ℕ) :
    Gen.ltf_plan_walk (c.N : ℤ) c.fs c.olap c.bmin (c.Lmin : ℤ) (c.Jdes : ℤ) (c.Kdes : ℤ) fuel
      = (let w := Model.walk fuel (Model.consts c).fmax (Model.ltfStep c (Model.consts c)) (Model.consts c).fmin
         (w.map (·.1), w.map (·.2.1), w.map (·.2.2.1), w.map (fun e => (e.2.2.2.1 : ℤ)), w.map (·.2.2.2.2))) := by
  unfold Gen.ltf_plan_walk
  extract_lets -underBinder -merge xov fmin fmax fresmin freslim logfact
  have hxov : xov = (Model.consts c).xov := by simp [xov, Model.consts]
  have hfmin : fmin = (Model.consts c).fmin := by simp [fmin, Model.consts]
  have hfmax : fmax = (Model.consts c).fmax := by simp [fmax, Model.consts]
  have hfresmin : fresmin = (Model.consts c).fresmin := by simp [fresmin, Model.consts]
  have hfreslim : freslim = (Model.consts c).freslim := by
    simp [freslim, fresmin, xov, Model.consts]
  have hlogfact : logfact = (Model.consts c).logfact := by simp [logfact, Model.consts]
  clear_value xov fmin fmax fresmin freslim logfact
  subst hxov hfmin hfmax hfresmin hfreslim hlogfact
  refine ltf_core _ _ _ _ ?_ ?_ fuel _
  · intro Ka La ba fa fi ra; rfl
  · intro Ka La ba fa fi ra
    dsimp only
    simp only [gen_ltf_round_eq, Model.ltfStep, Model.nsegRaw, Model.capK]
    simp only [decide_eq_true_eq, gt_iff_lt, apply_ite Prod.snd, beq_iff_eq,
      RL.ofInt_eq, RL.ofNat_eq, RL.one_eq, clampZ_eq, Nat.cast_ite, Int.cast_ite,
      Int.cast_natCast, Nat.cast_one]

namespace SchedGen

/-- loop state of the generated `new_ltf_plan` walk:
    `(K, L, alpha, b, dftlen_crossover, f, fi, j, k_stage2, r, stage2, stage3)` -/
abbrev NewSt := List ℤ × List ℤ × ℝ × List ℝ × ℤ × List ℝ × ℝ × ℤ × ℤ × List ℝ × Bool × Bool

/-- the generated loop state that represents the model state `s` with output lists `K L b f r` -/
def enc (s : Model.NewState ℝ) (K L : List ℤ) (b f r : List ℝ) : NewSt :=
  (K, L, s.alpha, b, s.crossover, f, s.fi, (s.j : ℤ), (s.kStage2 : ℤ), r, s.stage2, s.stage3)

/-- same for the multi-stage loop: if the body maps the encoding of a model state to the encoding of
    `Model.newStep`'s next state (recording its bin), the loop computes `Model.newWalk` -/
theorem whileFuel_newWalk (c : Model.Cfg ℝ) (k : Model.Consts ℝ)
    (cond : NewSt → Bool) (body : NewSt → NewSt)
    (hc : ∀ s K L b f r, cond (enc s K L b f r) = RealLike.lt s.fi k.fmax)
    (hb : ∀ s K L b f r, body (enc s K L b f r) =
      enc (Model.newStep c k s).2 (K ++ [(Model.newStep c k s).1.2.2.2])
        (L ++ [((Model.newStep c k s).1.2.2.1 : ℤ)]) (b ++ [(Model.newStep c k s).1.2.1])
        (f ++ [s.fi]) (r ++ [(Model.newStep c k s).1.1])) :
    ∀ (fuel : ℕ) s K L b f r, ∃ s' : Model.NewState ℝ,
      (whileFuel fuel cond body (enc s K L b f r)).1 =
        enc s' (K ++ (Model.newWalk fuel c k s).map (·.2.2.2.2))
          (L ++ (Model.newWalk fuel c k s).map (fun e => (e.2.2.2.1 : ℤ)))
          (b ++ (Model.newWalk fuel c k s).map (·.2.2.1))
          (f ++ (Model.newWalk fuel c k s).map (·.1))
          (r ++ (Model.newWalk fuel c k s).map (·.2.1)) := by
  intro fuel
  induction fuel with
  | zero => intro s K L b f r; exact ⟨s, by simp [whileFuel, Model.newWalk]⟩
  | succ n ih =>
    intro s K L b f r
    unfold whileFuel Model.newWalk
    rw [hc]
    by_cases h : RealLike.lt s.fi k.fmax = true
    · rw [if_pos h, if_pos h, hb]
      obtain ⟨s', h'⟩ := ih (Model.newStep c k s).2 (K ++ [(Model.newStep c k s).1.2.2.2])
        (L ++ [((Model.newStep c k s).1.2.2.1 : ℤ)]) (b ++ [(Model.newStep c k s).1.2.1])
        (f ++ [s.fi]) (r ++ [(Model.newStep c k s).1.1])
      refine ⟨s', ?_⟩
      rw [h']
      simp
    · rw [if_neg h, if_neg h]
      exact ⟨s, by simp⟩

theorem new_core (c : Model.Cfg ℝ) (k : Model.Consts ℝ)
    (cond : NewSt → Bool) (body : NewSt → NewSt)
    (hc : ∀ s K L b f r, cond (enc s K L b f r) = RealLike.lt s.fi k.fmax)
    (hb : ∀ s K L b f r, body (enc s K L b f r) =
      enc (Model.newStep c k s).2 (K ++ [(Model.newStep c k s).1.2.2.2])
        (L ++ [((Model.newStep c k s).1.2.2.1 : ℤ)]) (b ++ [(Model.newStep c k s).1.2.1])
        (f ++ [s.fi]) (r ++ [(Model.newStep c k s).1.1]))
    (fuel : ℕ) (s : Model.NewState ℝ) :
    ((whileFuel fuel cond body (enc s [] [] [] [] [])).1.2.2.2.2.2.1,
     (whileFuel fuel cond body (enc s [] [] [] [] [])).1.2.2.2.2.2.2.2.2.2.1,
     (whileFuel fuel cond body (enc s [] [] [] [] [])).1.2.2.2.1,
     (whileFuel fuel cond body (enc s [] [] [] [] [])).1.2.1,
     (whileFuel fuel cond body (enc s [] [] [] [] [])).1.1) =
    ((Model.newWalk fuel c k s).map (·.1), (Model.newWalk fuel c k s).map (·.2.1),
     (Model.newWalk fuel c k s).map (·.2.2.1),
     (Model.newWalk fuel c k s).map (fun e => (e.2.2.2.1 : ℤ)),
     (Model.newWalk fuel c k s).map (·.2.2.2.2)) := by
  obtain ⟨s', h⟩ := whileFuel_newWalk c k cond body hc hb fuel s [] [] [] [] []
  rw [h]
  simp [enc]

end SchedGen

theorem gen_new_walk_eq_model (c : Model.Cfg ℝ) (fuel : ℕ) :
    Gen.new_ltf_plan_walk (c.N : ℤ) c.fs c.olap c.bmin (c.Lmin : ℤ) (c.Jdes : ℤ) (c.Kdes : ℤ) fuel
      = (let w := Model.newWalk fuel c (Model.consts c)
                    { fi := (Model.consts c).fmin, j := 0, stage2 := false, stage3 := false, alpha := 0, kStage2 := 0, crossover := 0 }
         (w.map (·.1), w.map (·.2.1), w.map (·.2.2.1), w.map (fun e => (e.2.2.2.1 : ℤ)), w.map (·.2.2.2.2))) := by
  unfold Gen.new_ltf_plan_walk
  extract_lets -underBinder -merge xov fmin fmax fresmin freslim logfact f r b L K cr s2 s3 alpha ks j
  have hxov : xov = (Model.consts c).xov := by simp [xov, Model.consts]
  have hfmin : fmin = (Model.consts c).fmin := by simp [fmin, Model.consts]
  have hfmax : fmax = (Model.consts c).fmax := by simp [fmax, Model.consts]
  have hfresmin : fresmin = (Model.consts c).fresmin := by simp [fresmin, Model.consts]
  have hfreslim : freslim = (Model.consts c).freslim := by
    simp [freslim, fresmin, xov, Model.consts]
  have hlogfact : logfact = (Model.consts c).logfact := by simp [logfact, Model.consts]
  have halpha : alpha = 0 := by simp [alpha]
  clear_value xov fmin fmax fresmin freslim logfact alpha
  subst hxov hfmin hfmax hfresmin hfreslim hlogfact halpha
  refine new_core c (Model.consts c) _ _ ?_ ?_ fuel
    { fi := (Model.consts c).fmin, j := 0, stage2 := false, stage3 := false, alpha := 0,
      kStage2 := 0, crossover := 0 }
  · intro s K L b f r; rfl
  · intro s K L b f r
    obtain ⟨fi, j, s2, s3, al, ks, cr⟩ := s
    dsimp only [enc]
    simp only [Model.newStep, Model.capK]
    simp only [decide_eq_true_eq, gt_iff_lt, apply_ite Prod.fst, apply_ite Prod.snd, beq_iff_eq,
      Bool.and_eq_true, RL.ofInt_eq, RL.ofNat_eq, RL.one_eq, clampZ_eq, Nat.cast_ite, Int.cast_ite,
      Int.cast_natCast, Nat.cast_one, Nat.cast_add, ite_self]

#print axioms gen_ltf_round_eq
#print axioms gen_ltf_walk_eq_model
#print axioms gen_new_walk_eq_model
