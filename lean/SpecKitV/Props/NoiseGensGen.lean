/-
  Props/NoiseGensGen — the machine-translated generator CLASSES of speckit/noise.py (`Gen/NoiseGens.lean`: `white_noise`, `red_noise`,
  `alpha_noise`, `pink_noise` as explicit state machines over the stream `xi` of standard-normal draws, regenerated from the source on
  every run) ARE the hand models `Model.whiteSeries` / `Model.redSeries` / `Model.alphaSeries` / `Model.getSample` (Model/Noise.lean)
  and `Model.redInit` / `Model.alphaInit` / `Model.settleRequests` (Model/NoiseGens.lean); the chunk-invariance theorems of
  Lemmas/Chunking.lean are restated for — and partly proved directly on — the TRANSLATED `get_series` / `get_sample`.

  Conventions.  `whiteView / redView / alphaView` read the model state off an object (RNG cursor; `_zi[0]`; the sections described by
  `_a_coeffs`, `_b_coeffs`, `_zi_states`).  `whiteStep / redStep / alphaStep` are the translated `get_series` with the returned array
  read as a list, i.e. a step function in the sense of `Model.runRequests`.  `*Frame` collects the attributes a request must not touch.
-/
import SpecKitV.RealInst
import SpecKitV.Gen.NoiseGens
import SpecKitV.Model.Noise
import SpecKitV.Model.NoiseGens
import SpecKitV.Lemmas.Chunking
import SpecKitV.Props.NoiseGen

set_option linter.unusedVariables false
set_option linter.unusedTactic false
set_option linter.unreachableTactic false

namespace NoiseGensGen
open Model
variable {α : Type} [RealLike α]

/-! ### generic helpers -/

omit [RealLike α] in
theorem runRequests_append_state {σ : Type} (step : σ → ℕ → List α × σ) (s : σ) (l1 l2 : List ℕ) :
    (runRequests step s (l1 ++ l2)).2 = (runRequests step (runRequests step s l1).2 l2).2 := by
  induction l1 generalizing s with
  | nil => rfl
  | cons n l1 ih => rw [List.cons_append, runRequests_cons, runRequests_cons, ih]

omit [RealLike α] in
/-- a `for _ in range(k): self.get_series(N)` loop is `k` requests of `N` -/
theorem forRange_requests {σ : Type} (step : σ → ℕ → List α × σ) (s : σ) (N k : ℕ) :
    forRange k s (fun _ t => (step t N).2) = (runRequests step s (List.replicate k N)).2 := by
  induction k with
  | zero => rw [forRange_zero]; rfl
  | succ k ih =>
    rw [forRange_succ, ih, List.replicate_succ', runRequests_append_state]
    rfl

omit [RealLike α] in
/-- simulation: a step function on objects that refines a model step function through `abs`, on objects satisfying a preserved
    invariant `P`, refines it over every request sequence -/
theorem runRequests_sim {σ τ : Type} (step : σ → ℕ → List α × σ) (mstep : τ → ℕ → List α × τ) (abs : σ → τ)
    (P : σ → Prop)
    (h : ∀ o n, P o → (step o n).1 = (mstep (abs o) n).1 ∧ abs (step o n).2 = (mstep (abs o) n).2 ∧ P (step o n).2)
    (o : σ) (ns : List ℕ) (hP : P o) :
    (runRequests step o ns).1 = (runRequests mstep (abs o) ns).1 ∧
    abs (runRequests step o ns).2 = (runRequests mstep (abs o) ns).2 ∧ P (runRequests step o ns).2 := by
  induction ns generalizing o with
  | nil => exact ⟨rfl, rfl, hP⟩
  | cons n ns ih =>
    obtain ⟨h1, h2, h3⟩ := h o n hP
    obtain ⟨i1, i2, i3⟩ := ih (step o n).2 h3
    rw [runRequests_cons, runRequests_cons]
    refine ⟨?_, ?_, i3⟩
    · show (step o n).1 ++ _ = (mstep (abs o) n).1 ++ _
      rw [h1, i1, h2]
    · show abs (runRequests step (step o n).2 ns).2 = _
      rw [i2, h2]

omit [RealLike α] in
theorem toList_n (a : Arr α) : a.toList.length = a.n := by
  unfold Arr.toList
  rw [List.length_map, List.length_range]

/-- `np.array` of a list, read back -/
theorem toList_ofArray (l : List α) :
    (⟨l.toArray.size, fun i => l.toArray.getD i RealLike.zero⟩ : Arr α).toList = l := by
  unfold Arr.toList
  apply List.ext_getElem
  · simp
  · intro i h1 h2
    simp only [List.length_map, List.length_range, List.size_toArray] at h1
    simp [Array.getD, h1]

omit [RealLike α] in
/-- an array read as a list, from its length and its entries -/
theorem toList_of_get (a : Arr α) (n : ℕ) (f : ℕ → α) (hn : a.n = n) (hf : ∀ i, a.get i = f i) :
    a.toList = (List.range n).map f := by
  unfold Arr.toList
  rw [hn]
  exact List.map_congr_left (fun i _ => hf i)

omit [RealLike α] in
/-- elementwise map of an array, read as a list -/
theorem toList_map (a : Arr α) (f : α → α) :
    (⟨a.n, fun i => f (a.get i)⟩ : Arr α).toList = a.toList.map f := by
  unfold Arr.toList
  rw [List.map_map]
  rfl

omit [RealLike α] in
/-- `buf[1:]` of a non-empty buffer is the tail -/
theorem toList_slice1 (a : Arr α) (h : a.n ≠ 0) :
    (NpNG.pySlice a (some (1 : Int)) none).toList = a.toList.tail ∧ a.toList.head? = some (a.get 0) := by
  obtain ⟨n, get⟩ := a
  obtain ⟨m, rfl⟩ : ∃ m, n = m + 1 := ⟨n - 1, by simp only at h; omega⟩
  constructor
  · unfold Arr.toList NpNG.pySlice NpNG.sliceBound
    have h1 : Nat.min (Int.toNat 1) (m + 1) = 1 := by
      show min 1 (m + 1) = 1
      omega
    simp only [h1, Int.reduceLT, if_false, Nat.add_sub_cancel]
    rw [List.range_succ_eq_map, List.map_cons, List.tail_cons, List.map_map]
    apply List.map_congr_left
    intro i _
    show get (1 + i) = get (i + 1)
    rw [Nat.add_comm]
  · unfold Arr.toList
    rw [List.range_succ_eq_map, List.map_cons]
    rfl

/-! ### views, steps, frames -/

def whiteView (o : Gen.white_noise α) : WhiteSt := ⟨o._rng.cur⟩
def redView (o : Gen.red_noise α) : RedSt α := ⟨whiteView o._whitenoise, o._zi.get 0⟩
def alphaView (o : Gen.alpha_noise α) : AlphaSt α :=
  ⟨whiteView o._whitenoise, sectionsOf o._a_coeffs o._b_coeffs o._zi_states⟩

def whiteStep (xi : ℕ → α) (o : Gen.white_noise α) (n : ℕ) : List α × Gen.white_noise α :=
  ((Gen.white_noise.get_series xi o n).1.toList, (Gen.white_noise.get_series xi o n).2)
def redStep (xi : ℕ → α) (o : Gen.red_noise α) (n : ℕ) : List α × Gen.red_noise α :=
  ((Gen.red_noise.get_series xi o n).1.toList, (Gen.red_noise.get_series xi o n).2)
def alphaStep (xi : ℕ → α) (o : Gen.alpha_noise α) (n : ℕ) : List α × Gen.alpha_noise α :=
  ((Gen.alpha_noise.get_series xi o n).1.toList, (Gen.alpha_noise.get_series xi o n).2)

/-- the parameters of a red generator: what no method changes after `__init__` (everything but the white source's cursor, `_zi`
    and the `get_sample` buffer) -/
def redFrame (o : Gen.red_noise α) :=
  (o._whitenoise._rms, o._scaling, o._a, o._b, o._fs, o._fmin, o._whitenoise._fs, o._whitenoise._buffer)
/-- the parameters of a 1/f^alpha generator (everything but the white source's cursor, `_zi_states` and the `get_sample` buffer) -/
def alphaFrame (o : Gen.alpha_noise α) :=
  (o._whitenoise._rms, o._scaling, o._a_coeffs, o._b_coeffs, o._num_spectra, o._fs, o._alpha, o._whitenoise._fs,
   o._whitenoise._buffer, o._fmin, o._fmax)

end NoiseGensGen

open NoiseGensGen Model

/-! ## white_noise -/

/-- `white_noise.__init__`: rms = sqrt(psd fs), a fresh generator at draw 0, an empty buffer -/
theorem gen_white_init_eq_model (xi : ℕ → ℝ) (fs psd : ℝ) :
    Gen.white_noise.__init__ xi fs psd
      = { _fs := fs, _rms := Model.whiteRms fs psd, _rng := ⟨0⟩, _buffer := NpNG.emptyArr } := by
  have h : (Gen.white_noise.__init__ xi fs psd)._rms = Model.whiteRms fs psd := by
    exact congrArg Real.sqrt (by ring)
  have e : Gen.white_noise.__init__ xi fs psd
      = { _fs := fs, _rms := (Gen.white_noise.__init__ xi fs psd)._rms, _rng := ⟨0⟩, _buffer := NpNG.emptyArr } := rfl
  rw [e, h]

/-- the translated `white_noise.get_series` explicitly: the next `n` draws scaled by `_rms`; only the cursor moves -/
theorem gen_white_get_series_explicit (xi : ℕ → ℝ) (o : Gen.white_noise ℝ) (n : ℕ) :
    (Gen.white_noise.get_series xi o n).1.toList = (List.range n).map (fun i => o._rms * xi (o._rng.cur + i)) ∧
    (Gen.white_noise.get_series xi o n).1.n = n ∧
    (Gen.white_noise.get_series xi o n).2 = { o with _rng := ⟨o._rng.cur + n⟩ } := by
  refine ⟨?_, rfl, rfl⟩
  show (List.range n).map (fun i => (RealLike.ofSci 0 true 1 : ℝ) + o._rms * xi (o._rng.cur + i)) = _
  apply List.map_congr_left
  intro i _
  simp only [RL.ofSci_eq]
  norm_num

/-- translated `white_noise.get_series` = `Model.whiteSeries` (all objects, all sizes) -/
theorem gen_white_get_series_eq_model (xi : ℕ → ℝ) (o : Gen.white_noise ℝ) (n : ℕ) :
    ((Gen.white_noise.get_series xi o n).1.toList, whiteView (Gen.white_noise.get_series xi o n).2)
      = Model.whiteSeries xi o._rms (whiteView o) n := by
  obtain ⟨h1, _, h3⟩ := gen_white_get_series_explicit xi o n
  rw [h1, h3]
  rfl

theorem whiteStep_zero (xi : ℕ → ℝ) (o : Gen.white_noise ℝ) : whiteStep xi o 0 = ([], o) := by
  obtain ⟨h1, _, h3⟩ := gen_white_get_series_explicit xi o 0
  unfold whiteStep
  rw [h1, h3]
  rfl

theorem whiteStep_add (xi : ℕ → ℝ) (o : Gen.white_noise ℝ) (n m : ℕ) :
    whiteStep xi o (n + m)
      = ((whiteStep xi o n).1 ++ (whiteStep xi (whiteStep xi o n).2 m).1, (whiteStep xi (whiteStep xi o n).2 m).2) := by
  obtain ⟨a1, _, a3⟩ := gen_white_get_series_explicit xi o (n + m)
  obtain ⟨b1, _, b3⟩ := gen_white_get_series_explicit xi o n
  obtain ⟨c1, _, c3⟩ := gen_white_get_series_explicit xi (whiteStep xi o n).2 m
  have hs : (whiteStep xi o n).2 = { o with _rng := ⟨o._rng.cur + n⟩ } := b3
  unfold whiteStep at c1 c3 ⊢
  rw [a1, a3, c1, c3, b1, b3]
  simp only [List.range_add, List.map_append, List.map_map, Nat.add_assoc]
  rfl

/-- chunk invariance of the TRANSLATED `white_noise.get_series`: any sequence of requests (zeros and ones included) returns the
    samples of one request of the total length and leaves the same object -/
theorem gen_white_chunking (xi : ℕ → ℝ) (o : Gen.white_noise ℝ) (ns : List ℕ) :
    runRequests (whiteStep xi) o ns = whiteStep xi o ns.sum :=
  runRequests_of_additive _ (whiteStep_zero xi) (whiteStep_add xi) o ns

/-! ## red_noise -/
namespace NoiseGensGen
variable {α : Type} [RealLike α]
/-- the first-order section `lfilter` is handed by `red_noise.get_series`: numerator `_a`, denominator `_b`, normalised by `_b[0]` -/
def redCoef (o : Gen.red_noise α) : α × α × α :=
  (o._a.get 0 / o._b.get 0, (if 1 < o._a.n then o._a.get 1 / o._b.get 0 else RealLike.zero), o._b.get 1 / o._b.get 0)
/-- that section run from the stored state `_zi[0]` over the next `n` white samples -/
def redRun (xi : ℕ → α) (o : Gen.red_noise α) (n : ℕ) : List α × α :=
  Model.sectionRun (redCoef o).1 (redCoef o).2.1 (redCoef o).2.2 (o._zi.get 0)
    (Gen.white_noise.get_series xi o._whitenoise n).1.toList
/-- the object a non-empty request leaves behind: the white source's cursor advanced, the returned filter state stored in `_zi` -/
def redAfter (xi : ℕ → α) (o : Gen.red_noise α) (n : ℕ) : Gen.red_noise α :=
  { o with _whitenoise := { o._whitenoise with _rng := ⟨o._whitenoise._rng.cur + n⟩ },
           _zi := ⟨1, fun _ => (redRun xi o n).2⟩ }
end NoiseGensGen

theorem gen_red_get_series_pos (xi : ℕ → ℝ) (o : Gen.red_noise ℝ) (n : ℕ) (hn : n ≠ 0) :
    (Gen.red_noise.get_series xi o n).1.toList = (redRun xi o n).1.map (fun y => y * o._scaling) ∧
    (Gen.red_noise.get_series xi o n).1.n = n ∧
    (Gen.red_noise.get_series xi o n).2
      = { o with _whitenoise := (Gen.white_noise.get_series xi o._whitenoise n).2, _zi := ⟨1, fun _ => (redRun xi o n).2⟩ } := by
  have hwn : (Gen.white_noise.get_series xi o._whitenoise n).1.n = n := rfl
  have hdec : decide (n = 0) = false := decide_eq_false hn
  have hlf : NpNG.lfilter o._a o._b (Gen.white_noise.get_series xi o._whitenoise n).1 o._zi
      = (⟨(redRun xi o n).1.toArray.size, fun i => (redRun xi o n).1.toArray.getD i RealLike.zero⟩, ⟨1, fun _ => (redRun xi o n).2⟩) := by
    unfold NpNG.lfilter
    simp only [hwn, hn, if_false]
    rfl
  have hsize : (redRun xi o n).1.toArray.size = n := by
    unfold redRun
    rw [List.size_toArray, Model.sectionRun_length, toList_n]
    exact hwn
  -- the three things the method does: the object it leaves, the length and the entries of the array it returns
  have hobj : (Gen.red_noise.get_series xi o n).2
      = { o with _whitenoise := (Gen.white_noise.get_series xi o._whitenoise n).2,
                 _zi := (NpNG.lfilter o._a o._b (Gen.white_noise.get_series xi o._whitenoise n).1 o._zi).2 } := by
    unfold Gen.red_noise.get_series
    rw [hdec]
    rfl
  have hlen : (Gen.red_noise.get_series xi o n).1.n
      = (NpNG.lfilter o._a o._b (Gen.white_noise.get_series xi o._whitenoise n).1 o._zi).1.n := by
    unfold Gen.red_noise.get_series
    rw [hdec]
    rfl
  have hget : ∀ i, (Gen.red_noise.get_series xi o n).1.get i
      = (NpNG.lfilter o._a o._b (Gen.white_noise.get_series xi o._whitenoise n).1 o._zi).1.get i * o._scaling := by
    intro i
    unfold Gen.red_noise.get_series
    rw [hdec]
    first
      | rfl
      | (simp only [Bool.false_eq_true, if_false]
         ring)
  rw [hlf] at hobj hlen hget
  refine ⟨?_, hlen.trans hsize, hobj⟩
  rw [toList_of_get _ n _ (hlen.trans hsize) hget]
  have h2 := toList_map (⟨(redRun xi o n).1.toArray.size, fun i => (redRun xi o n).1.toArray.getD i RealLike.zero⟩ : Arr ℝ)
    (fun y => y * o._scaling)
  rw [toList_ofArray] at h2
  rw [← h2]
  unfold Arr.toList
  rw [hsize]

theorem redStep_zero (xi : ℕ → ℝ) (o : Gen.red_noise ℝ) : redStep xi o 0 = ([], o) := rfl

theorem redStep_pos (xi : ℕ → ℝ) (o : Gen.red_noise ℝ) (n : ℕ) (hn : n ≠ 0) :
    redStep xi o n = ((redRun xi o n).1.map (fun y => y * o._scaling), redAfter xi o n) := by
  obtain ⟨h1, _, h3⟩ := gen_red_get_series_pos xi o n hn
  unfold redStep redAfter
  rw [h1, h3, (gen_white_get_series_explicit xi o._whitenoise n).2.2]

theorem redStep_add (xi : ℕ → ℝ) (o : Gen.red_noise ℝ) (n m : ℕ) :
    redStep xi o (n + m)
      = ((redStep xi o n).1 ++ (redStep xi (redStep xi o n).2 m).1, (redStep xi (redStep xi o n).2 m).2) := by
  by_cases hn : n = 0
  · subst hn
    rw [Nat.zero_add, redStep_zero]
    rfl
  by_cases hm : m = 0
  · subst hm
    rw [Nat.add_zero, redStep_zero, List.append_nil]
  rw [redStep_pos xi o (n + m) (by omega), redStep_pos xi o n hn, redStep_pos xi _ m hm]
  -- the run over n + m white samples is the run over n, then over m from the returned state
  have hw : (Gen.white_noise.get_series xi o._whitenoise (n + m)).1.toList
      = (Gen.white_noise.get_series xi o._whitenoise n).1.toList
        ++ (Gen.white_noise.get_series xi (redAfter xi o n)._whitenoise m).1.toList := by
    rw [(gen_white_get_series_explicit xi _ (n + m)).1, (gen_white_get_series_explicit xi _ n).1,
      (gen_white_get_series_explicit xi _ m).1]
    simp only [List.range_add, List.map_append, List.map_map]
    congr 1
    apply List.map_congr_left
    intro i _
    show o._whitenoise._rms * xi (o._whitenoise._rng.cur + (n + i)) = o._whitenoise._rms * xi (o._whitenoise._rng.cur + n + i)
    rw [Nat.add_assoc]
  have hrun : redRun xi o (n + m)
      = ((redRun xi o n).1 ++ (redRun xi (redAfter xi o n) m).1, (redRun xi (redAfter xi o n) m).2) := by
    unfold redRun
    rw [hw, Model.sectionRun_append]
    rfl
  have hafter : redAfter xi o (n + m) = redAfter xi (redAfter xi o n) m := by
    unfold redAfter
    rw [hrun]
    simp only [Nat.add_assoc]
    rfl
  rw [hafter, hrun, List.map_append]
  rfl

/-- chunk invariance of the TRANSLATED `red_noise.get_series` -/
theorem gen_red_chunking (xi : ℕ → ℝ) (o : Gen.red_noise ℝ) (ns : List ℕ) :
    runRequests (redStep xi) o ns = redStep xi o ns.sum :=
  runRequests_of_additive _ (redStep_zero xi) (redStep_add xi) o ns

/-- the hypotheses `o._a.n = 1`, `o._b.get 0 = 1` of the red-generator theorems below are satisfiable by a non-trivial object (and are
    established by the translated constructor: `gen_red_init_eq_model`) -/
example : ∃ o : Gen.red_noise ℝ, o._a.n = 1 ∧ o._b.get 0 = 1 ∧ o._b.get 1 ≠ 0 ∧ o._zi.get 0 ≠ 0 :=
  ⟨{ _buffer := NpNG.emptyArr, _fs := 10, _fmin := 1, _whitenoise := ⟨10, 3, ⟨5⟩, NpNG.emptyArr⟩, _scaling := 2,
     _a := NpNG.arrayOfList [7], _b := NpNG.arrayOfList [1, -(1 / 2)], _zi := NpNG.arrayOfList [4] },
   rfl, by simp [NpNG.arrayOfList], by simp [NpNG.arrayOfList], by simp [NpNG.arrayOfList]⟩

/-- translated `red_noise.get_series` = `Model.redSeries`, for every object whose `lfilter` arrays have the shape `__init__` gives them
    (`_a` of length 1, `_b[0] = 1`): `c = _a[0]`, `e = -_b[1]` -/
theorem gen_red_get_series_eq_model (xi : ℕ → ℝ) (o : Gen.red_noise ℝ) (n : ℕ) (ha : o._a.n = 1) (hb : o._b.get 0 = 1) :
    ((redStep xi o n).1, redView (redStep xi o n).2)
        = Model.redSeries xi o._whitenoise._rms (o._a.get 0) (-(o._b.get 1)) o._scaling (redView o) n ∧
    redFrame (redStep xi o n).2 = redFrame o ∧ (redStep xi o n).2._buffer = o._buffer := by
  by_cases hn : n = 0
  · subst hn
    exact ⟨rfl, rfl, rfl⟩
  rw [redStep_pos xi o n hn, Model.redSeries_pos _ _ _ _ _ _ _ hn]
  refine ⟨?_, rfl, rfl⟩
  have hw := gen_white_get_series_eq_model xi o._whitenoise n
  have hc : redCoef o = (o._a.get 0, RealLike.zero, RealLike.zero - -(o._b.get 1)) := by
    unfold redCoef
    rw [ha, hb]
    simp
  have hwl : (Gen.white_noise.get_series xi o._whitenoise n).1.toList
      = (whiteSeries xi o._whitenoise._rms (redView o).w n).1 := congrArg Prod.fst hw
  simp only [redAfter, redView, redRun, hc, hwl]
  rfl

/-! ## alpha_noise (and pink_noise) -/
theorem alphaStep_explicit (xi : ℕ → ℝ) (o : Gen.alpha_noise ℝ) (n : ℕ) :
    alphaStep xi o n
      = (((Gen._numba_lfilter_cascade (Gen.white_noise.get_series xi o._whitenoise n).1 o._a_coeffs o._b_coeffs o._zi_states).1.toList).map
            (fun y => y * o._scaling),
         { o with _whitenoise := (Gen.white_noise.get_series xi o._whitenoise n).2,
                  _zi_states := (Gen._numba_lfilter_cascade (Gen.white_noise.get_series xi o._whitenoise n).1
                                   o._a_coeffs o._b_coeffs o._zi_states).2 }) := by
  have hobj : (Gen.alpha_noise.get_series xi o n).2
      = { o with _whitenoise := (Gen.white_noise.get_series xi o._whitenoise n).2,
                 _zi_states := (Gen._numba_lfilter_cascade (Gen.white_noise.get_series xi o._whitenoise n).1
                                   o._a_coeffs o._b_coeffs o._zi_states).2 } := rfl
  have hlen : (Gen.alpha_noise.get_series xi o n).1.n
      = (Gen._numba_lfilter_cascade (Gen.white_noise.get_series xi o._whitenoise n).1 o._a_coeffs o._b_coeffs o._zi_states).1.n := rfl
  have hget : ∀ i, (Gen.alpha_noise.get_series xi o n).1.get i
      = (Gen._numba_lfilter_cascade (Gen.white_noise.get_series xi o._whitenoise n).1 o._a_coeffs o._b_coeffs
          o._zi_states).1.get i * o._scaling := by
    intro i
    first
      | rfl
      | (unfold Gen.alpha_noise.get_series
         simp only []
         ring)
  unfold alphaStep
  rw [hobj, toList_of_get _ _ _ hlen hget]
  unfold Arr.toList
  rw [List.map_map]
  rfl

/-- translated `alpha_noise.get_series` = `Model.alphaSeries` on the sections described by `_a_coeffs`, `_b_coeffs`, `_zi_states`
    (all objects, all sizes), and nothing but the white source's cursor and `_zi_states` changes -/
theorem gen_alpha_get_series_eq_model (xi : ℕ → ℝ) (o : Gen.alpha_noise ℝ) (n : ℕ) :
    ((alphaStep xi o n).1, alphaView (alphaStep xi o n).2)
        = Model.alphaSeries xi o._whitenoise._rms o._scaling (alphaView o) n ∧
    alphaFrame (alphaStep xi o n).2 = alphaFrame o ∧ (alphaStep xi o n).2._buffer = o._buffer := by
  rw [alphaStep_explicit, Model.alphaSeries_eq]
  have hw := gen_white_get_series_eq_model xi o._whitenoise n
  have hwl : (Gen.white_noise.get_series xi o._whitenoise n).1.toList
      = (whiteSeries xi o._whitenoise._rms (alphaView o).w n).1 := congrArg Prod.fst hw
  have hws : whiteView (Gen.white_noise.get_series xi o._whitenoise n).2
      = (whiteSeries xi o._whitenoise._rms (alphaView o).w n).2 := congrArg Prod.snd hw
  obtain ⟨h1, _, _⟩ := NoiseGen.cascade_core (Gen.white_noise.get_series xi o._whitenoise n).1 o._a_coeffs o._b_coeffs o._zi_states
  have h2 := NoiseGen.sectionsOf_final (Gen.white_noise.get_series xi o._whitenoise n).1 o._a_coeffs o._b_coeffs o._zi_states
  refine ⟨?_, ?_, rfl⟩
  · rw [h1, hwl]
    simp only [alphaView, h2, hws, hwl]
  · rw [(gen_white_get_series_explicit xi o._whitenoise n).2.2]
    rfl

/-- chunk invariance of the TRANSLATED `alpha_noise.get_series` (hence of `pink_noise`, which is the same definitions): the samples
    of any request sequence are those of one request of the total length, the filter states (sections) left behind coincide, and
    nothing else in the object differs -/
theorem gen_alpha_chunking (xi : ℕ → ℝ) (o : Gen.alpha_noise ℝ) (ns : List ℕ) :
    (runRequests (alphaStep xi) o ns).1 = (alphaStep xi o ns.sum).1 ∧
    alphaView (runRequests (alphaStep xi) o ns).2 = alphaView (alphaStep xi o ns.sum).2 ∧
    alphaFrame (runRequests (alphaStep xi) o ns).2 = alphaFrame (alphaStep xi o ns.sum).2 ∧
    (runRequests (alphaStep xi) o ns).2._buffer = (alphaStep xi o ns.sum).2._buffer := by
  have hsim := runRequests_sim (alphaStep xi) (Model.alphaSeries xi o._whitenoise._rms o._scaling) alphaView
    (fun o' => alphaFrame o' = alphaFrame o ∧ o'._buffer = o._buffer)
    (by
      intro o' n hP
      have hr : o'._whitenoise._rms = o._whitenoise._rms := congrArg (fun t => t.1) hP.1
      have hs : o'._scaling = o._scaling := congrArg (fun t => t.2.1) hP.1
      obtain ⟨e1, e2, e3⟩ := gen_alpha_get_series_eq_model xi o' n
      rw [hr, hs] at e1
      exact ⟨congrArg Prod.fst e1, congrArg Prod.snd e1, e2.trans hP.1, e3.trans hP.2⟩)
    o ns ⟨rfl, rfl⟩
  obtain ⟨s1, s2, s3, s4⟩ := hsim
  obtain ⟨e1, e2, e3⟩ := gen_alpha_get_series_eq_model xi o ns.sum
  rw [Model.alpha_chunking] at s1 s2
  exact ⟨s1.trans (congrArg Prod.fst e1).symm, s2.trans (congrArg Prod.snd e1).symm, s3.trans e2.symm, s4.trans e3.symm⟩

/-! ## get_sample -/
namespace NoiseGensGen
variable {α : Type} [RealLike α]

/-- `k` successive calls of a translated `get_sample`: the returned samples and the object left behind -/
def genSampleRun {σ : Type} (gs : σ → α × σ) : ℕ → σ → List α × σ
  | 0, o => ([], o)
  | k + 1, o => ((gs o).1 :: (genSampleRun gs k (gs o).2).1, (genSampleRun gs k (gs o).2).2)

omit [RealLike α] in
/-- the shape every translated `get_sample` has — refill the buffer iff it is empty (object `o1`), return `buffer[0]`, keep
    `buffer[1:]` — is `Model.getSample` on (model state, unread buffer) -/
theorem getSample_shape {σ τ : Type} (B : ℕ) (mstep : τ → ℕ → List α × τ) (abs : σ → τ) (buf : σ → Arr α)
    (o o1 : σ) (r : α × σ)
    (hfill : (buf o).n = 0 → abs o1 = (mstep (abs o) B).2 ∧ (buf o1).toList = (mstep (abs o) B).1)
    (hkeep : (buf o).n ≠ 0 → abs o1 = abs o ∧ buf o1 = buf o)
    (hne : (buf o1).n ≠ 0)
    (hr : r.1 = (buf o1).get 0 ∧ abs r.2 = abs o1 ∧ buf r.2 = NpNG.pySlice (buf o1) (some (1 : Int)) none) :
    Model.getSample mstep B (abs o, (buf o).toList) = (some r.1, (abs r.2, (buf r.2).toList)) := by
  obtain ⟨r1, r2, r3⟩ := hr
  obtain ⟨t1, t2⟩ := toList_slice1 (buf o1) hne
  rw [r1, r2, r3, t1]
  by_cases h0 : (buf o).n = 0
  · obtain ⟨f1, f2⟩ := hfill h0
    have hnil : (buf o).toList = [] := by
      unfold Arr.toList
      rw [h0]
      rfl
    rw [hnil, f1]
    unfold Model.getSample
    simp only []
    rw [← f2]
    cases hl : (buf o1).toList with
    | nil =>
      have := toList_n (buf o1)
      rw [hl] at this
      exact absurd this.symm hne
    | cons y rest =>
      rw [hl] at t2
      simp only [List.head?_cons, Option.some.injEq] at t2
      rw [t2]
      rfl
  · obtain ⟨k1, k2⟩ := hkeep h0
    rw [k1, k2]
    cases hl : (buf o).toList with
    | nil =>
      have := toList_n (buf o)
      rw [hl] at this
      exact absurd this.symm h0
    | cons y rest =>
      rw [k2, hl] at t2
      simp only [List.head?_cons, Option.some.injEq] at t2
      rw [t2]
      rfl

omit [RealLike α] in
/-- `k` translated `get_sample` calls are `Model.sampleRun` of the model, when every single call is `Model.getSample` -/
theorem sampleRun_sim {σ τ : Type} (B : ℕ) (mstep : τ → ℕ → List α × τ) (abs : σ → τ) (buf : σ → Arr α)
    (gs : σ → α × σ) (P : σ → Prop)
    (h : ∀ o, P o → Model.getSample mstep B (abs o, (buf o).toList) = (some (gs o).1, (abs (gs o).2, (buf (gs o).2).toList))
      ∧ P (gs o).2)
    (k : ℕ) (o : σ) (hP : P o) :
    (Model.sampleRun mstep B k (abs o, (buf o).toList)).1 = (genSampleRun gs k o).1.map some := by
  induction k generalizing o with
  | zero => rfl
  | succ k ih =>
    obtain ⟨h1, h2⟩ := h o hP
    rw [Model.sampleRun_succ, h1]
    show some (gs o).1 :: _ = _
    rw [ih (gs o).2 h2]
    rfl

end NoiseGensGen

/-- the refill size of `get_sample` is positive (otherwise `self._buffer[0]` raises IndexError on the empty refill) -/
theorem gen_buffer_size_pos : 0 < Gen._DEFAULT_BUFFER_SIZE := by
  unfold Gen._DEFAULT_BUFFER_SIZE
  omega

-- the refill size is used as an opaque positive number from here on (unfolding the literal 4096 in unary is neither needed nor cheap)
attribute [local irreducible] Gen._DEFAULT_BUFFER_SIZE

/-- translated `white_noise.get_sample` = `Model.getSample` over `Model.whiteSeries` with the refill size of the source -/
theorem gen_white_get_sample_eq_model (xi : ℕ → ℝ) (o : Gen.white_noise ℝ) :
    Model.getSample (Model.whiteSeries xi o._rms) Gen._DEFAULT_BUFFER_SIZE (whiteView o, o._buffer.toList)
        = (some (Gen.white_noise.get_sample xi o).1,
            (whiteView (Gen.white_noise.get_sample xi o).2, (Gen.white_noise.get_sample xi o).2._buffer.toList)) ∧
    (Gen.white_noise.get_sample xi o).2._rms = o._rms := by
  obtain ⟨B, hBeq⟩ : ∃ B, B = Gen._DEFAULT_BUFFER_SIZE := ⟨_, rfl⟩
  have hB : 0 < B := hBeq ▸ gen_buffer_size_pos
  rw [← hBeq]
  obtain ⟨g1, g2, g3⟩ := gen_white_get_series_explicit xi o B
  have hm := gen_white_get_series_eq_model xi o B
  by_cases h0 : o._buffer.n = 0
  · have e : Gen.white_noise.get_sample xi o
        = (({ (Gen.white_noise.get_series xi o B).2 with
                _buffer := (Gen.white_noise.get_series xi o B).1 } : Gen.white_noise ℝ)._buffer.get 0,
           { (Gen.white_noise.get_series xi o B).2 with
                _buffer := NpNG.pySlice (Gen.white_noise.get_series xi o B).1 (some (1 : Int)) none }) := by
      unfold Gen.white_noise.get_sample
      rw [← hBeq]
      simp only [h0, decide_true, if_true]
    refine ⟨?_, ?_⟩
    · refine getSample_shape B (Model.whiteSeries xi o._rms) whiteView (fun o => o._buffer) o
        { (Gen.white_noise.get_series xi o B).2 with
            _buffer := (Gen.white_noise.get_series xi o B).1 } _ ?_ ?_ ?_ ?_
      · intro _
        exact ⟨congrArg Prod.snd hm, congrArg Prod.fst hm⟩
      · intro h; exact absurd h0 h
      · exact fun h => absurd (g2.symm.trans h) (by omega)
      · rw [e]; exact ⟨rfl, rfl, rfl⟩
    · rw [e, g3]
  · have e : Gen.white_noise.get_sample xi o
        = (o._buffer.get 0, { o with _buffer := NpNG.pySlice o._buffer (some (1 : Int)) none }) := by
      unfold Gen.white_noise.get_sample
      simp only [h0, decide_false, Bool.false_eq_true, if_false]
    refine ⟨?_, ?_⟩
    · refine getSample_shape B (Model.whiteSeries xi o._rms) whiteView (fun o => o._buffer) o o _ ?_ ?_ h0 ?_
      · intro h; exact absurd h h0
      · intro _; exact ⟨rfl, rfl⟩
      · rw [e]; exact ⟨rfl, rfl, rfl⟩
    · rw [e]

/-- `k` calls of the translated `get_sample` on a freshly constructed `white_noise` return the first `k` samples of its stream:
    `rms * xi 0, rms * xi 1, …` (across refills of the buffer) -/
theorem gen_white_sample_runs (xi : ℕ → ℝ) (fs psd : ℝ) (k : ℕ) :
    (genSampleRun (Gen.white_noise.get_sample xi) k (Gen.white_noise.__init__ xi fs psd)).1
      = (List.range k).map (fun i => Model.whiteRms fs psd * xi i) := by
  have hsim := sampleRun_sim Gen._DEFAULT_BUFFER_SIZE (Model.whiteSeries xi (Model.whiteRms fs psd)) whiteView
    (fun o : Gen.white_noise ℝ => o._buffer) (Gen.white_noise.get_sample xi) (fun o => o._rms = Model.whiteRms fs psd)
    (by
      intro o hP
      obtain ⟨h1, h2⟩ := gen_white_get_sample_eq_model xi o
      rw [hP] at h1 h2
      exact ⟨h1, h2⟩)
    k (Gen.white_noise.__init__ xi fs psd) (by rw [gen_white_init_eq_model])
  have hm := Model.white_sample_runs xi (Model.whiteRms fs psd) Gen._DEFAULT_BUFFER_SIZE gen_buffer_size_pos k
  have h0 : (whiteView (Gen.white_noise.__init__ xi fs psd), (Gen.white_noise.__init__ xi fs psd)._buffer.toList)
      = ((⟨0⟩ : WhiteSt), ([] : List ℝ)) := by
    rw [gen_white_init_eq_model]
    rfl
  rw [h0, hm] at hsim
  have := congrArg (List.map (fun o : Option ℝ => o.getD 0)) hsim
  simpa [List.map_map, Function.comp_def] using this.symm


/-- translated `red_noise.get_sample` (the inherited `_base_colored_noise.get_sample` with `self.get_series` bound to the red
    generator) = `Model.getSample` over `Model.redSeries` -/
theorem gen_red_get_sample_eq_model (xi : ℕ → ℝ) (o : Gen.red_noise ℝ) (ha : o._a.n = 1) (hb : o._b.get 0 = 1) :
    Model.getSample (Model.redSeries xi o._whitenoise._rms (o._a.get 0) (-(o._b.get 1)) o._scaling) Gen._DEFAULT_BUFFER_SIZE
          (redView o, o._buffer.toList)
        = (some (Gen.red_noise.get_sample xi o).1,
            (redView (Gen.red_noise.get_sample xi o).2, (Gen.red_noise.get_sample xi o).2._buffer.toList)) ∧
    redFrame (Gen.red_noise.get_sample xi o).2 = redFrame o := by
  obtain ⟨B, hBeq⟩ : ∃ B, B = Gen._DEFAULT_BUFFER_SIZE := ⟨_, rfl⟩
  have hB : 0 < B := hBeq ▸ gen_buffer_size_pos
  rw [← hBeq]
  have hB0 : B ≠ 0 := by omega
  obtain ⟨_, g2, _⟩ := gen_red_get_series_pos xi o B hB0
  obtain ⟨hm, hf, _⟩ := gen_red_get_series_eq_model xi o B ha hb
  by_cases h0 : o._buffer.n = 0
  · have e : Gen.red_noise.get_sample xi o
        = ((Gen.red_noise.get_series xi o B).1.get 0,
           { (Gen.red_noise.get_series xi o B).2 with
                _buffer := NpNG.pySlice (Gen.red_noise.get_series xi o B).1 (some (1 : Int)) none }) := by
      unfold Gen.red_noise.get_sample
      rw [← hBeq]
      simp only [h0, decide_true, if_true]
    refine ⟨?_, ?_⟩
    · refine getSample_shape B _ redView (fun o => o._buffer) o
        { (Gen.red_noise.get_series xi o B).2 with
            _buffer := (Gen.red_noise.get_series xi o B).1 } _ ?_ ?_ ?_ ?_
      · intro _
        exact ⟨congrArg Prod.snd hm, congrArg Prod.fst hm⟩
      · intro h; exact absurd h0 h
      · exact fun h => absurd (g2.symm.trans h) hB0
      · rw [e]; exact ⟨rfl, rfl, rfl⟩
    · rw [e]; exact hf
  · have e : Gen.red_noise.get_sample xi o
        = (o._buffer.get 0, { o with _buffer := NpNG.pySlice o._buffer (some (1 : Int)) none }) := by
      unfold Gen.red_noise.get_sample
      simp only [h0, decide_false, Bool.false_eq_true, if_false]
    refine ⟨?_, ?_⟩
    · refine getSample_shape B _ redView (fun o => o._buffer) o o _ ?_ ?_ h0 ?_
      · intro h; exact absurd h h0
      · intro _; exact ⟨rfl, rfl⟩
      · rw [e]; exact ⟨rfl, rfl, rfl⟩
    · rw [e]; rfl

theorem gen_alpha_get_series_n (xi : ℕ → ℝ) (o : Gen.alpha_noise ℝ) (n : ℕ) :
    (Gen.alpha_noise.get_series xi o n).1.n = n :=
  (NoiseGen.cascade_core (Gen.white_noise.get_series xi o._whitenoise n).1 o._a_coeffs o._b_coeffs o._zi_states).2.1

/-- translated `alpha_noise.get_sample` (= `pink_noise.get_sample`) = `Model.getSample` over `Model.alphaSeries` -/
theorem gen_alpha_get_sample_eq_model (xi : ℕ → ℝ) (o : Gen.alpha_noise ℝ) :
    Model.getSample (Model.alphaSeries xi o._whitenoise._rms o._scaling) Gen._DEFAULT_BUFFER_SIZE
          (alphaView o, o._buffer.toList)
        = (some (Gen.alpha_noise.get_sample xi o).1,
            (alphaView (Gen.alpha_noise.get_sample xi o).2, (Gen.alpha_noise.get_sample xi o).2._buffer.toList)) ∧
    alphaFrame (Gen.alpha_noise.get_sample xi o).2 = alphaFrame o := by
  obtain ⟨B, hBeq⟩ : ∃ B, B = Gen._DEFAULT_BUFFER_SIZE := ⟨_, rfl⟩
  have hB : 0 < B := hBeq ▸ gen_buffer_size_pos
  rw [← hBeq]
  have hB0 : B ≠ 0 := by omega
  have g2 := gen_alpha_get_series_n xi o B
  obtain ⟨hm, hf, _⟩ := gen_alpha_get_series_eq_model xi o B
  by_cases h0 : o._buffer.n = 0
  · have e : Gen.alpha_noise.get_sample xi o
        = ((Gen.alpha_noise.get_series xi o B).1.get 0,
           { (Gen.alpha_noise.get_series xi o B).2 with
                _buffer := NpNG.pySlice (Gen.alpha_noise.get_series xi o B).1 (some (1 : Int)) none }) := by
      unfold Gen.alpha_noise.get_sample
      rw [← hBeq]
      simp only [h0, decide_true, if_true]
    refine ⟨?_, ?_⟩
    · refine getSample_shape B _ alphaView (fun o => o._buffer) o
        { (Gen.alpha_noise.get_series xi o B).2 with
            _buffer := (Gen.alpha_noise.get_series xi o B).1 } _ ?_ ?_ ?_ ?_
      · intro _
        exact ⟨congrArg Prod.snd hm, congrArg Prod.fst hm⟩
      · intro h; exact absurd h0 h
      · exact fun h => absurd (g2.symm.trans h) hB0
      · rw [e]; exact ⟨rfl, rfl, rfl⟩
    · rw [e]; exact hf
  · have e : Gen.alpha_noise.get_sample xi o
        = (o._buffer.get 0, { o with _buffer := NpNG.pySlice o._buffer (some (1 : Int)) none }) := by
      unfold Gen.alpha_noise.get_sample
      simp only [h0, decide_false, Bool.false_eq_true, if_false]
    refine ⟨?_, ?_⟩
    · refine getSample_shape B _ alphaView (fun o => o._buffer) o o _ ?_ ?_ h0 ?_
      · intro h; exact absurd h h0
      · intro _; exact ⟨rfl, rfl⟩
      · rw [e]; exact ⟨rfl, rfl, rfl⟩
    · rw [e]; rfl

/-! ## constructors and settling -/
/-- the request size of the settling run as the translated code computes it = as the model does -/
theorem settle_req_eq (fs fmin : ℝ) :
    (RealLike.ceil (((RealLike.ofSci 20 true 1 : ℝ) * fs) / fmin) : Int) = RealLike.ceil (RealLike.two * fs / fmin) := by
  simp only [RL.ofSci_eq, RL.two_eq]
  norm_num

/-- translated `_settle_filter_state` as inherited by `red_noise`: the requests of `Model.settleRequests`, served by the translated
    `red_noise.get_series` -/
theorem gen_red_settle_requests (xi : ℕ → ℝ) (o : Gen.red_noise ℝ) :
    (Gen.red_noise._settle_filter_state xi o).2
      = (runRequests (redStep xi) o (Model.settleRequests o._fs o._fmin)).2 := by
  unfold Gen.red_noise._settle_filter_state Model.settleRequests
  simp only [settle_req_eq]
  by_cases h : (RealLike.ceil (RealLike.two * o._fs / o._fmin) : Int) ≤ 150000000
  · simp only [Nat.cast_ofNat, h, decide_true, if_true]
    rfl
  · simp only [Nat.cast_ofNat, h, decide_false, Bool.false_eq_true, if_false]
    rw [← forRange_requests]
    rfl

/-- any request sequence served by the translated `red_noise.get_series` is the model's, on objects of the shape `__init__` builds -/
theorem gen_red_requests_eq_model (xi : ℕ → ℝ) (o : Gen.red_noise ℝ) (ha : o._a.n = 1) (hb : o._b.get 0 = 1) (ns : List ℕ) :
    (runRequests (redStep xi) o ns).1
        = (runRequests (Model.redSeries xi o._whitenoise._rms (o._a.get 0) (-(o._b.get 1)) o._scaling) (redView o) ns).1 ∧
    redView (runRequests (redStep xi) o ns).2
        = (runRequests (Model.redSeries xi o._whitenoise._rms (o._a.get 0) (-(o._b.get 1)) o._scaling) (redView o) ns).2 ∧
    redFrame (runRequests (redStep xi) o ns).2 = redFrame o ∧ (runRequests (redStep xi) o ns).2._buffer = o._buffer := by
  have hsim := runRequests_sim (redStep xi)
    (Model.redSeries xi o._whitenoise._rms (o._a.get 0) (-(o._b.get 1)) o._scaling) redView
    (fun o' => redFrame o' = redFrame o ∧ o'._buffer = o._buffer)
    (by
      intro o' n hP
      have hr : o'._whitenoise._rms = o._whitenoise._rms := congrArg (fun t => t.1) hP.1
      have hs : o'._scaling = o._scaling := congrArg (fun t => t.2.1) hP.1
      have haa : o'._a = o._a := congrArg (fun t => t.2.2.1) hP.1
      have hbb : o'._b = o._b := congrArg (fun t => t.2.2.2.1) hP.1
      obtain ⟨e1, e2, e3⟩ := gen_red_get_series_eq_model xi o' n (haa ▸ ha) (hbb ▸ hb)
      rw [hr, hs, haa, hbb] at e1
      exact ⟨congrArg Prod.fst e1, congrArg Prod.snd e1, e2.trans hP.1, e3.trans hP.2⟩)
    o ns ⟨rfl, rfl⟩
  exact ⟨hsim.1, hsim.2.1, hsim.2.2.1, hsim.2.2.2⟩

/-- translated `_settle_filter_state` of the red generator = the model's settling requests -/
theorem gen_red_settle_eq_model (xi : ℕ → ℝ) (o : Gen.red_noise ℝ) (ha : o._a.n = 1) (hb : o._b.get 0 = 1) :
    redView (Gen.red_noise._settle_filter_state xi o).2
      = (runRequests (Model.redSeries xi o._whitenoise._rms (o._a.get 0) (-(o._b.get 1)) o._scaling) (redView o)
          (Model.settleRequests o._fs o._fmin)).2 ∧
    redFrame (Gen.red_noise._settle_filter_state xi o).2 = redFrame o ∧
    (Gen.red_noise._settle_filter_state xi o).2._buffer = o._buffer := by
  rw [gen_red_settle_requests]
  obtain ⟨_, h2, h3, h4⟩ := gen_red_requests_eq_model xi o ha hb (Model.settleRequests o._fs o._fmin)
  exact ⟨h2, h3, h4⟩

theorem gen_red_init_true (xi : ℕ → ℝ) (fs fmin : ℝ) :
    Gen.red_noise.__init__ xi fs fmin true
      = (Gen.red_noise._settle_filter_state xi (Gen.red_noise.__init__ xi fs fmin false)).2 := rfl

/-- `red_noise.__init__` without settling: parameters, shapes, ONE draw consumed, `_zi = lfilter_zi * (rms * xi 0)` -/
theorem gen_red_init_false (xi : ℕ → ℝ) (fs fmin : ℝ) :
    let o := Gen.red_noise.__init__ xi fs fmin false
    redView o = Model.redInit xi fs fmin false ∧
    o._whitenoise._rms = Model.whiteRms fs RealLike.one ∧ o._a.get 0 = Model.redC fmin ∧ -(o._b.get 1) = Model.redE fs fmin ∧
    o._scaling = Model.redScaling fs fmin ∧ o._a.n = 1 ∧ o._b.get 0 = 1 ∧ o._buffer.n = 0 ∧ o._fs = fs ∧ o._fmin = fmin := by
  intro o
  refine ⟨?_, ?_, ?_, ?_, ?_, rfl, ?_, rfl, rfl, rfl⟩
  · simp only [o, Gen.red_noise.__init__, Gen.white_noise.__init__, redView, whiteView, Model.redInit, NpNG.normal1, NpNG.default_rng,
      NpNG.lfilter_zi, NpNG.arrayOfList, Model.whiteRms, Model.redC, Model.redE, Bool.false_eq_true, if_false]
    simp only [RL.ofSci_eq, RL.one_eq, RL.two_eq, RL.zero_eq, RL.pi_eq, RL.exp_eq, RL.sqrt_eq, List.getD_cons_zero,
      List.getD_cons_succ, List.length_cons, List.length_nil]
    simp only [if_true, Nat.zero_add, lt_self_iff_false, if_false]
    congr 1
    ring_nf
  · simp only [o, Gen.red_noise.__init__, Gen.white_noise.__init__, Model.whiteRms, NpNG.normal1]
    simp only [RL.ofSci_eq, RL.one_eq]
    norm_num
  · simp only [o, Gen.red_noise.__init__, NpNG.arrayOfList, Model.redC, RL.ofSci_eq, RL.two_eq, RL.pi_eq]
    norm_num
  · simp only [o, Gen.red_noise.__init__, NpNG.arrayOfList, Model.redE, RL.ofSci_eq, RL.two_eq, RL.pi_eq, RL.exp_eq]
    norm_num
  · simp only [o, Gen.red_noise.__init__, Model.redScaling, RL.ofSci_eq, RL.one_eq]
    norm_num
  · simp only [o, Gen.red_noise.__init__, NpNG.arrayOfList, RL.ofSci_eq]
    norm_num

/-- `red_noise.__init__` = `Model.redInit`: the model state the constructor leaves (cursor, `_zi`), the generator parameters, and the
    shape facts the request theorems assume; with `init_filter` the settling requests have been served -/
theorem gen_red_init_eq_model (xi : ℕ → ℝ) (fs fmin : ℝ) (init : Bool) :
    let o := Gen.red_noise.__init__ xi fs fmin init
    redView o = Model.redInit xi fs fmin init ∧
    o._whitenoise._rms = Model.whiteRms fs RealLike.one ∧ o._a.get 0 = Model.redC fmin ∧ -(o._b.get 1) = Model.redE fs fmin ∧
    o._scaling = Model.redScaling fs fmin ∧ o._a.n = 1 ∧ o._b.get 0 = 1 ∧ o._buffer.n = 0 ∧ o._fs = fs ∧ o._fmin = fmin := by
  cases init with
  | false => exact gen_red_init_false xi fs fmin
  | true =>
    intro o
    obtain ⟨f1, f2, f3, f4, f5, f6, f7, f8, f9, f10⟩ := gen_red_init_false xi fs fmin
    obtain ⟨s1, s2, s3⟩ := gen_red_settle_eq_model xi (Gen.red_noise.__init__ xi fs fmin false) f6 f7
    have ho : o = (Gen.red_noise._settle_filter_state xi (Gen.red_noise.__init__ xi fs fmin false)).2 := rfl
    rw [f2, f3, f4, f5, f9, f10, f1] at s1
    have hr : o._whitenoise._rms = _ := congrArg (fun t => t.1) s2
    have hs : o._scaling = _ := congrArg (fun t => t.2.1) s2
    have haa : o._a = _ := congrArg (fun t => t.2.2.1) s2
    have hbb : o._b = _ := congrArg (fun t => t.2.2.2.1) s2
    have hfs : o._fs = _ := congrArg (fun t => t.2.2.2.2.1) s2
    have hfm : o._fmin = _ := congrArg (fun t => t.2.2.2.2.2.1) s2
    refine ⟨?_, hr.trans f2, (congrArg (fun a => a.get 0) haa).trans f3, ?_, hs.trans f5,
      (congrArg (fun a => a.n) haa).trans f6, (congrArg (fun a => a.get 0) hbb).trans f7, ?_, hfs.trans f9, hfm.trans f10⟩
    · rw [ho, s1]
      rfl
    · rw [hbb]; exact f4
    · rw [ho, s3]; exact f8

example : ∃ o : Gen.red_noise ℝ, o._a.n = 1 ∧ o._b.get 0 = 1 ∧ o._scaling = 1 / (10 * 2) :=
  ⟨Gen.red_noise.__init__ (fun i => (i : ℝ) - 3) 10 2 false,
    (gen_red_init_false _ 10 2).2.2.2.2.2.1, (gen_red_init_false _ 10 2).2.2.2.2.2.2.1,
    by rw [(gen_red_init_false _ 10 2).2.2.2.2.1]; simp [Model.redScaling]⟩

/-- a freshly constructed red generator serving any request sequence: the samples are those of ONE model request of the total length
    from `Model.redInit` (chunk invariance from the constructor on, through the translated `__init__` and `get_series`) -/
theorem gen_red_stream_chunking (xi : ℕ → ℝ) (fs fmin : ℝ) (init : Bool) (ns : List ℕ) :
    (runRequests (redStep xi) (Gen.red_noise.__init__ xi fs fmin init) ns).1
      = (Model.redSeries xi (Model.whiteRms fs RealLike.one) (Model.redC fmin) (Model.redE fs fmin) (Model.redScaling fs fmin)
          (Model.redInit xi fs fmin init) ns.sum).1 := by
  obtain ⟨f1, f2, f3, f4, f5, f6, f7, _⟩ := gen_red_init_eq_model xi fs fmin init
  obtain ⟨h1, _⟩ := gen_red_requests_eq_model xi (Gen.red_noise.__init__ xi fs fmin init) f6 f7 ns
  rw [h1, f2, f3, f4, f5, f1, Model.red_chunking]

/-! ### alpha_noise / pink_noise constructors -/

theorem gen_alpha_settle_requests (xi : ℕ → ℝ) (o : Gen.alpha_noise ℝ) :
    (Gen.alpha_noise._settle_filter_state xi o).2
      = (runRequests (alphaStep xi) o (Model.settleRequests o._fs o._fmin)).2 := by
  unfold Gen.alpha_noise._settle_filter_state Model.settleRequests
  simp only [settle_req_eq]
  by_cases h : (RealLike.ceil (RealLike.two * o._fs / o._fmin) : Int) ≤ 150000000
  · simp only [Nat.cast_ofNat, h, decide_true, if_true]
    rfl
  · simp only [Nat.cast_ofNat, h, decide_false, Bool.false_eq_true, if_false]
    rw [← forRange_requests]
    rfl

/-- any request sequence served by the translated `alpha_noise.get_series` is the model's -/
theorem gen_alpha_requests_eq_model (xi : ℕ → ℝ) (o : Gen.alpha_noise ℝ) (ns : List ℕ) :
    (runRequests (alphaStep xi) o ns).1 = (runRequests (Model.alphaSeries xi o._whitenoise._rms o._scaling) (alphaView o) ns).1 ∧
    alphaView (runRequests (alphaStep xi) o ns).2
        = (runRequests (Model.alphaSeries xi o._whitenoise._rms o._scaling) (alphaView o) ns).2 ∧
    alphaFrame (runRequests (alphaStep xi) o ns).2 = alphaFrame o ∧ (runRequests (alphaStep xi) o ns).2._buffer = o._buffer := by
  have hsim := runRequests_sim (alphaStep xi) (Model.alphaSeries xi o._whitenoise._rms o._scaling) alphaView
    (fun o' => alphaFrame o' = alphaFrame o ∧ o'._buffer = o._buffer)
    (by
      intro o' n hP
      have hr : o'._whitenoise._rms = o._whitenoise._rms := congrArg (fun t => t.1) hP.1
      have hs : o'._scaling = o._scaling := congrArg (fun t => t.2.1) hP.1
      obtain ⟨e1, e2, e3⟩ := gen_alpha_get_series_eq_model xi o' n
      rw [hr, hs] at e1
      exact ⟨congrArg Prod.fst e1, congrArg Prod.snd e1, e2.trans hP.1, e3.trans hP.2⟩)
    o ns ⟨rfl, rfl⟩
  exact ⟨hsim.1, hsim.2.1, hsim.2.2.1, hsim.2.2.2⟩

theorem gen_alpha_init_true (xi : ℕ → ℝ) (fs fmin fmax alpha : ℝ) (nspec : ℕ) (fminv fmaxv : Arr ℝ) :
    Gen.alpha_noise.__init__ xi fs fmin fmax alpha true nspec fminv fmaxv
      = (Gen.alpha_noise._settle_filter_state xi (Gen.alpha_noise.__init__ xi fs fmin fmax alpha false nspec fminv fmaxv)).2 := rfl

theorem pyIndex_last (n : ℕ) : Np.pyIndex n (-1 : Int) = n - 1 := by
  unfold Np.pyIndex
  simp only [Int.reduceNeg, Int.reduceLT, if_true]
  omega

/-- `alpha_noise.__init__` without settling: the sections are those of `Model.filterCoeffs` on the design's corner frequencies with
    the stored denominator coefficient `-b1` and zero state (`_a_coeffs = [a0 a1]`, `_b_coeffs = [1 -b1]`, `_zi_states = 0`);
    no draw is consumed -/
theorem gen_alpha_init_false (xi : ℕ → ℝ) (fs fmin fmax alpha : ℝ) (nspec : ℕ) (fminv fmaxv : Arr ℝ) :
    let o := Gen.alpha_noise.__init__ xi fs fmin fmax alpha false nspec fminv fmaxv
    alphaView o = Model.alphaInit xi fs alpha fminv fmaxv false ∧
    o._whitenoise._rms = Model.whiteRms fs RealLike.one ∧ o._scaling = Model.alphaScaling alpha fmaxv ∧
    o._buffer.n = 0 ∧ o._fs = fs ∧ o._fmin = fminv.get 0 := by
  intro o
  refine ⟨?_, ?_, ?_, rfl, rfl, rfl⟩
  · show (⟨⟨0⟩, sectionsOf o._a_coeffs o._b_coeffs o._zi_states⟩ : AlphaSt ℝ) = ⟨⟨0⟩, Model.alphaSecs fs fminv fmaxv⟩
    congr 1
    unfold sectionsOf Model.alphaSecs
    apply List.map_congr_left
    intro i _
    simp only [o, Gen.alpha_noise.__init__, NpNG.vstack2T, NpNG.zeros2, gen_filter_coeffs_eq_model, if_true, one_ne_zero, if_false,
      RL.zero_eq, Bool.false_eq_true]
  · simp only [o, Gen.alpha_noise.__init__, Gen.white_noise.__init__, Model.whiteRms, Bool.false_eq_true, if_false,
      RL.ofSci_eq, RL.one_eq]
    norm_num
  · simp only [o, Gen.alpha_noise.__init__, Model.alphaScaling, pyIndex_last, RL.ofSci_eq, RL.one_eq, RL.two_eq, RL.pow_eq,
      Bool.false_eq_true, if_false]
    norm_num

/-- translated `_settle_filter_state` of the 1/f^alpha generator = the model's settling requests -/
theorem gen_alpha_settle_eq_model (xi : ℕ → ℝ) (o : Gen.alpha_noise ℝ) :
    alphaView (Gen.alpha_noise._settle_filter_state xi o).2
      = (runRequests (Model.alphaSeries xi o._whitenoise._rms o._scaling) (alphaView o) (Model.settleRequests o._fs o._fmin)).2 ∧
    alphaFrame (Gen.alpha_noise._settle_filter_state xi o).2 = alphaFrame o ∧
    (Gen.alpha_noise._settle_filter_state xi o).2._buffer = o._buffer := by
  rw [gen_alpha_settle_requests]
  obtain ⟨_, h2, h3, h4⟩ := gen_alpha_requests_eq_model xi o (Model.settleRequests o._fs o._fmin)
  exact ⟨h2, h3, h4⟩

/-- `alpha_noise.__init__` = `Model.alphaInit` (the filter-design inputs `nspec`, `fminv`, `fmaxv` are those the source computes in
    lines 369-379; they are parameters here and of the model) -/
theorem gen_alpha_obj_init_eq_model (xi : ℕ → ℝ) (fs fmin fmax alpha : ℝ) (init : Bool) (nspec : ℕ) (fminv fmaxv : Arr ℝ) :
    let o := Gen.alpha_noise.__init__ xi fs fmin fmax alpha init nspec fminv fmaxv
    alphaView o = Model.alphaInit xi fs alpha fminv fmaxv init ∧
    o._whitenoise._rms = Model.whiteRms fs RealLike.one ∧ o._scaling = Model.alphaScaling alpha fmaxv ∧
    o._buffer.n = 0 ∧ o._fs = fs ∧ o._fmin = fminv.get 0 := by
  cases init with
  | false => exact gen_alpha_init_false xi fs fmin fmax alpha nspec fminv fmaxv
  | true =>
    intro o
    obtain ⟨f1, f2, f3, f4, f5, f6⟩ := gen_alpha_init_false xi fs fmin fmax alpha nspec fminv fmaxv
    obtain ⟨s1, s2, s3⟩ := gen_alpha_settle_eq_model xi (Gen.alpha_noise.__init__ xi fs fmin fmax alpha false nspec fminv fmaxv)
    have ho : o = (Gen.alpha_noise._settle_filter_state xi
        (Gen.alpha_noise.__init__ xi fs fmin fmax alpha false nspec fminv fmaxv)).2 := rfl
    rw [f2, f3, f5, f6, f1] at s1
    have hr : o._whitenoise._rms = _ := congrArg (fun t => t.1) s2
    have hs : o._scaling = _ := congrArg (fun t => t.2.1) s2
    have hfs : o._fs = _ := congrArg (fun t => t.2.2.2.2.2.1) s2
    have hfm : o._fmin = _ := congrArg (fun t => t.2.2.2.2.2.2.2.2.2.1) s2
    refine ⟨?_, hr.trans f2, hs.trans f3, ?_, hfs.trans f5, hfm.trans f6⟩
    · rw [ho, s1]
      rfl
    · rw [ho, s3]; exact f4

/-- `pink_noise.__init__` is `alpha_noise.__init__` with `alpha = 1` -/
theorem gen_pink_init_eq (xi : ℕ → ℝ) (fs fmin fmax : ℝ) (init : Bool) (nspec : ℕ) (fminv fmaxv : Arr ℝ) :
    Gen.pink_noise.__init__ xi fs fmin fmax init nspec fminv fmaxv
      = Gen.alpha_noise.__init__ xi fs fmin fmax 1 init nspec fminv fmaxv := by
  have h1 : (RealLike.ofSci 10 true 1 : ℝ) = 1 := by
    simp only [RL.ofSci_eq]
    norm_num
  unfold Gen.pink_noise.__init__
  rw [h1]

/-- a freshly constructed 1/f^alpha (or, with `alpha = 1`, pink) generator serving any request sequence: the samples are those of ONE
    model request of the total length from `Model.alphaInit` -/
theorem gen_alpha_stream_chunking (xi : ℕ → ℝ) (fs fmin fmax alpha : ℝ) (init : Bool) (nspec : ℕ) (fminv fmaxv : Arr ℝ)
    (ns : List ℕ) :
    (runRequests (alphaStep xi) (Gen.alpha_noise.__init__ xi fs fmin fmax alpha init nspec fminv fmaxv) ns).1
      = (Model.alphaSeries xi (Model.whiteRms fs RealLike.one) (Model.alphaScaling alpha fmaxv)
          (Model.alphaInit xi fs alpha fminv fmaxv init) ns.sum).1 := by
  obtain ⟨f1, f2, f3, _⟩ := gen_alpha_obj_init_eq_model xi fs fmin fmax alpha init nspec fminv fmaxv
  obtain ⟨h1, _⟩ := gen_alpha_requests_eq_model xi (Gen.alpha_noise.__init__ xi fs fmin fmax alpha init nspec fminv fmaxv) ns
  rw [h1, f2, f3, f1, Model.alpha_chunking]

/-- same seed, same stream: a generator object is a function of (parameters, the stream `xi` its seed determines) and of nothing
    else — the translated constructors and methods take no other input (the translator rejects an unseeded `default_rng()` and the
    global `np.random`), so two same-seed instances serving the same requests return the same samples -/
theorem gen_same_seed_same_stream (xi : ℕ → ℝ) (fs fmin : ℝ) (init : Bool) (ns : List ℕ)
    (o1 o2 : Gen.red_noise ℝ) (h1 : o1 = Gen.red_noise.__init__ xi fs fmin init) (h2 : o2 = Gen.red_noise.__init__ xi fs fmin init) :
    runRequests (redStep xi) o1 ns = runRequests (redStep xi) o2 ns := by
  rw [h1, h2]

#print axioms gen_white_init_eq_model
#print axioms gen_white_get_series_eq_model
#print axioms gen_white_chunking
#print axioms gen_buffer_size_pos
#print axioms gen_white_get_sample_eq_model
#print axioms gen_white_sample_runs
#print axioms gen_red_get_series_eq_model
#print axioms gen_red_chunking
#print axioms gen_red_get_sample_eq_model
#print axioms gen_red_settle_eq_model
#print axioms gen_red_init_eq_model
#print axioms gen_red_requests_eq_model
#print axioms gen_red_stream_chunking
#print axioms gen_alpha_get_series_eq_model
#print axioms gen_alpha_chunking
#print axioms gen_alpha_get_sample_eq_model
#print axioms gen_alpha_settle_eq_model
#print axioms gen_alpha_obj_init_eq_model
#print axioms gen_alpha_requests_eq_model
#print axioms gen_pink_init_eq
#print axioms gen_alpha_stream_chunking
#print axioms gen_same_seed_same_stream
