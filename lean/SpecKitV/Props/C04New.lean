/-
  SpecKitV.Props.C04New — property C04 for the multi-stage scheduler (`Model.newPlan`):
  along the plan the segment length never increases and the number of averages never decreases
  (`newPlan_monotone`, any fuel, no extra hypothesis).

  Proof shape.
  * `newStep_out`: the reported bin is `binAt` of either the clamped stage length `len s` or the
    clamped bmin length `Bf fi`; hence the reported `L` is the larger of `ruleL (len s)` and
    `ruleL (Bf fi)` (`out_L_ge`, `out_L_cases`) and `K = capK N L (cnt L)` (`out_K`), which is
    antitone in `L` (`newK_anti`).  `Bf` is antitone in the frequency, which strictly increases.
  * `len s` never grows along the loop (`inv_step`) under the state invariant `Inv`:
      stage 1:  alpha = 0 and (crossover ≤ 0 or d1(fi) ≤ crossover)   [crossover = previous stage-1 length]
      stage 2 (not yet 3):  alpha ≤ 0 and Lmin ≤ crossover.
    The decay rate of the transition bin is computed from the PREVIOUS bin's length
    (`s.crossover`, 0 in the very first bin), exactly as in the Python source.  A positive rate
    needs `crossover < Lmin`; the stage-1 length is antitone in the frequency (`d1_anti`), so the
    transition length is then `< Lmin` as well and the loop falls through to stage 3 at once — a
    state "stage 2 with alpha > 0" is unreachable.  With `ptsLeft ≤ 1` or `crossover ≤ 0` the rate
    stays 0 and stage 2 repeats the transition length.  Stage 3 is absorbing with `len = Lmin`,
    the minimum of every clamped length.
-/
import SpecKitV.RealInst
import SpecKitV.Props.C04
import SpecKitV.Props.C04Vec

set_option linter.unusedVariables false

namespace NewMono
open Model
open SchedNV hiding Adm RLadd RLsub RLmul RLdiv clampL_bounds xov_pos
open VecMono (cnt_anti ruleL_mono)

/-! ### the stage part of one iteration -/

/-- part A of `newStep`: `(dftlen, stage2, alpha, kStage2, crossover)` (verbatim copy) -/
noncomputable def partA (c : Cfg ℝ) (k : Consts ℝ) (s : NewState ℝ) : Int × Bool × ℝ × Nat × Int :=
  if s.stage3 then ((c.Lmin : Int), s.stage2, s.alpha, s.kStage2, s.crossover)
  else if s.stage2 then
    (RealLike.roundEven (RealLike.ofInt s.crossover * RealLike.exp (s.alpha * RealLike.ofNat s.kStage2)),
      s.stage2, s.alpha, s.kStage2 + 1, s.crossover)
  else
    let fresIdeal := s.fi * k.logfact
    if RealLike.ge fresIdeal k.freslim then
      let ptsLeft : Int := (c.Jdes : Int) - (s.j : Int)
      let alpha := if ptsLeft > 1 && s.crossover > 0 then
          RealLike.log (RealLike.ofNat c.Lmin / RealLike.ofInt s.crossover) / RealLike.ofInt (ptsLeft - 1)
        else s.alpha
      let d := RealLike.roundEven (c.fs / fresIdeal)
      (d, true, alpha, s.kStage2, d)
    else if RealLike.gt (RealLike.pow (k.freslim * fresIdeal) (RealLike.ofSci 5 true 1)) k.fresmin then
      let d := RealLike.roundEven (c.fs / RealLike.pow (k.freslim * fresIdeal) (RealLike.ofSci 5 true 1))
      (d, s.stage2, s.alpha, s.kStage2, d)
    else
      let d := RealLike.roundEven (c.fs / k.fresmin)
      (d, s.stage2, s.alpha, s.kStage2, d)

/-- part B, first line: `(stage3, dftlen)` -/
noncomputable def partB (c : Cfg ℝ) (k : Consts ℝ) (s : NewState ℝ) : Bool × Int :=
  if (partA c k s).2.1 && (partA c k s).1 < (c.Lmin : Int) then (true, (c.Lmin : Int))
  else (s.stage3, (partA c k s).1)

theorem newStep_state (c : Cfg ℝ) (k : Consts ℝ) (s : NewState ℝ) :
    (newStep c k s).2 =
      { fi := s.fi + (newStep c k s).1.1, j := s.j + 1, stage2 := (partA c k s).2.1,
        stage3 := (partB c k s).1, alpha := (partA c k s).2.2.1, kStage2 := (partA c k s).2.2.2.1,
        crossover := (partA c k s).2.2.2.2 } := by
  rfl

/-- clamped length before the single-segment rule and the bmin rule -/
noncomputable def len (c : Cfg ℝ) (k : Consts ℝ) (s : NewState ℝ) : ℕ :=
  clampL c.N c.Lmin (partB c k s).2

/-- the clamped length the bmin rule asks for -/
noncomputable def Bf (c : Cfg ℝ) (fi : ℝ) : ℕ := clampL c.N c.Lmin ⌈c.fs * c.bmin / fi⌉

theorem newStep_out_raw (c : Cfg ℝ) (k : Consts ℝ) (s : NewState ℝ) :
    (newStep c k s).1 =
      (let L0 : Nat := len c k s
       let nseg : Int := RealLike.roundEven (RealLike.ofInt ((c.N : Int) - (L0 : Int)) / (k.xov * RealLike.ofNat L0) + RealLike.one)
       let L : Nat := if nseg == 1 then c.N else L0
       let fres := c.fs / RealLike.ofNat L
       let fbin := s.fi / fres
       let r : Nat × Int × ℝ × ℝ :=
         if RealLike.lt fbin c.bmin then
           let L := clampL c.N c.Lmin (RealLike.ceil (c.fs * c.bmin / s.fi))
           let nseg : Int := RealLike.roundEven (RealLike.ofInt ((c.N : Int) - (L : Int)) / (k.xov * RealLike.ofNat L) + RealLike.one)
           let L : Nat := if nseg == 1 then c.N else L
           let fres := c.fs / RealLike.ofNat L
           (L, nseg, fres, s.fi / fres)
         else (L, nseg, fres, fbin)
       (r.2.2.1, r.2.2.2, r.1, capK c.N r.1 r.2.1)) := by
  rfl

theorem newStep_out (c : Cfg ℝ) (k : Consts ℝ) (s : NewState ℝ) :
    (newStep c k s).1 =
      if s.fi / (c.fs / (ruleL c.N k.xov (len c k s) : ℝ)) < c.bmin then binAt c k.xov s.fi (Bf c s.fi)
      else binAt c k.xov s.fi (len c k s) := by
  rw [newStep_out_raw]
  by_cases h1 : cnt c.N k.xov (len c k s) = 1 <;> by_cases h2 : cnt c.N k.xov (Bf c s.fi) = 1 <;>
  simp only [binAt, ruleL, h1, h2, ↓reduceIte] <;>
  simp only [cnt, Bf] at h1 h2 <;>
  simp only [Bf, cnt, RL.lt_eq, RL.ofInt_eq, RL.ofNat_eq, RL.one_eq, RL.ceil_eq,
    decide_eq_true_eq, beq_iff_eq, h1, h2, ↓reduceIte] <;>
  split_ifs <;> rfl

/-! ### the reported length: `max` of the stage length and the bmin length, after the single-segment rule -/

theorem ruleL_idem (N : ℕ) (xov : ℝ) (L : ℕ) : ruleL N xov (ruleL N xov L) = ruleL N xov L := by
  unfold ruleL
  by_cases h : cnt N xov L = 1
  · rw [if_pos h, cnt_self, if_pos rfl]
  · rw [if_neg h, if_neg h]

theorem ruleL_ge (N : ℕ) (xov : ℝ) (L : ℕ) (hL : L ≤ N) : L ≤ ruleL N xov L := by
  rcases ruleL_cases N xov L with e | e <;> rw [e]; exact hL

theorem Bf_bounds (c : Cfg ℝ) (h : Adm c) (fi : ℝ) : c.Lmin ≤ Bf c fi ∧ Bf c fi ≤ c.N :=
  SchedLtf.clampL_bounds _ _ h.hLminN _

theorem Bf_anti (c : Cfg ℝ) (h : Adm c) {f1 f2 : ℝ} (h1 : 0 < f1) (h12 : f1 ≤ f2) :
    Bf c f2 ≤ Bf c f1 := by
  unfold Bf
  apply SchedLtf.clampL_mono
  apply Int.ceil_le_ceil
  have hb : 0 ≤ c.fs * c.bmin := mul_nonneg h.hfs.le (by linarith [h.hbmin1])
  exact div_le_div_of_nonneg_left hb h1 h12

/-- the reported length dominates both candidates -/
theorem out_L_ge (c : Cfg ℝ) (h : Adm c) (s : NewState ℝ) (hfi : 0 < s.fi)
    (hl : c.Lmin ≤ len c (consts c) s ∧ len c (consts c) s ≤ c.N) :
    ruleL c.N (consts c).xov (len c (consts c) s) ≤ (newStep c (consts c) s).1.2.2.1 ∧
    ruleL c.N (consts c).xov (Bf c s.fi) ≤ (newStep c (consts c) s).1.2.2.1 := by
  have hx := SchedLtf.xov_pos c h
  have hB := Bf_bounds c h s.fi
  have hLmin := h.hLmin1
  have hfs := h.hfs
  set L0 := len c (consts c) s with hL0
  set R := ruleL c.N (consts c).xov L0 with hR
  have hRb := ruleL_bounds c.N c.Lmin (consts c).xov L0 hLmin h.hLminN hl.1 hl.2
  have hR0 : L0 ≤ R := ruleL_ge _ _ _ hl.2
  have hRpos : (0 : ℝ) < (R : ℝ) := by
    have : 1 ≤ R := le_trans (le_max_left _ _) hRb.1
    exact_mod_cast this
  have hcast := SchedLtf.clampL_cast c.N c.Lmin ⌈c.fs * c.bmin / s.fi⌉
  have hBf : ((Bf c s.fi : ℕ) : ℤ) = max (min ⌈c.fs * c.bmin / s.fi⌉ (c.N : ℤ)) (c.Lmin : ℤ) := hcast
  have e : s.fi / (c.fs / (R : ℝ)) = s.fi * (R : ℝ) / c.fs := by rw [div_div_eq_mul_div]
  rw [newStep_out]
  by_cases hc : s.fi / (c.fs / (R : ℝ)) < c.bmin
  · rw [if_pos hc]
    refine ⟨?_, le_refl _⟩
    show R ≤ ruleL c.N (consts c).xov (Bf c s.fi)
    rw [e, div_lt_iff₀ hfs] at hc
    have h1 : (R : ℝ) < c.fs * c.bmin / s.fi := by
      rw [lt_div_iff₀ hfi]; linarith
    have h2 : ((R : ℤ) : ℝ) < ((⌈c.fs * c.bmin / s.fi⌉ : ℤ) : ℝ) := by
      have := Int.le_ceil (c.fs * c.bmin / s.fi)
      push_cast; linarith
    have h3 : (R : ℤ) < ⌈c.fs * c.bmin / s.fi⌉ := by exact_mod_cast h2
    have h4 : R ≤ Bf c s.fi := by omega
    have := ruleL_mono c.N (consts c).xov hx (le_trans (le_max_left _ _) hRb.1) h4 hB.2
    rw [ruleL_idem] at this
    exact this
  · rw [if_neg hc]
    refine ⟨le_refl _, ?_⟩
    show ruleL c.N (consts c).xov (Bf c s.fi) ≤ R
    rw [e, not_lt, le_div_iff₀ hfs] at hc
    have h1 : c.fs * c.bmin / s.fi ≤ ((R : ℤ) : ℝ) := by
      rw [div_le_iff₀ hfi]; push_cast; linarith
    have h3 : ⌈c.fs * c.bmin / s.fi⌉ ≤ (R : ℤ) := Int.ceil_le.mpr h1
    have h4 : Bf c s.fi ≤ R := by omega
    have := ruleL_mono c.N (consts c).xov hx (le_trans hLmin hB.1) h4 hRb.2
    rw [ruleL_idem] at this
    exact this

theorem out_L_cases (c : Cfg ℝ) (k : Consts ℝ) (s : NewState ℝ) :
    (newStep c k s).1.2.2.1 = ruleL c.N k.xov (len c k s) ∨
    (newStep c k s).1.2.2.1 = ruleL c.N k.xov (Bf c s.fi) := by
  rw [newStep_out]
  split_ifs
  · right; rfl
  · left; rfl

/-- the count is the (capped) count of the reported length -/
theorem out_K (c : Cfg ℝ) (k : Consts ℝ) (s : NewState ℝ) :
    (newStep c k s).1.2.2.2 =
      capK c.N (newStep c k s).1.2.2.1 (cnt c.N k.xov (newStep c k s).1.2.2.1) := by
  rw [newStep_out]
  split_ifs <;> (dsimp only [binAt]; rw [cnt_ruleL])

/-- `K` as a function of `L` is antitone -/
theorem newK_anti (N : ℕ) (xov : ℝ) (hx : 0 < xov) {L1 L2 : ℕ} (h1 : 1 ≤ L1) (h12 : L1 ≤ L2)
    (h2 : L2 ≤ N) : capK N L2 (cnt N xov L2) ≤ capK N L1 (cnt N xov L1) := by
  have := cnt_anti N xov hx h1 h12 h2
  rw [SchedLtf.capK_eq, SchedLtf.capK_eq]
  omega

/-! ### part A by stage -/

/-- stage-1 length before clamping, as a function of the frequency -/
noncomputable def d1 (c : Cfg ℝ) (k : Consts ℝ) (fi : ℝ) : ℤ :=
  RealLike.roundEven (c.fs / SchedLtf.res0 k fi)

/-- the decay rate chosen in the transition bin -/
noncomputable def alphaN (c : Cfg ℝ) (k : Consts ℝ) (s : NewState ℝ) : ℝ :=
  if k.freslim ≤ s.fi * k.logfact then
    (if (c.Jdes : ℤ) - (s.j : ℤ) > 1 ∧ s.crossover > 0 then
      Real.log ((c.Lmin : ℝ) / (s.crossover : ℝ)) / ((((c.Jdes : ℤ) - (s.j : ℤ) - 1 : ℤ)) : ℝ)
     else s.alpha)
  else s.alpha

theorem partA_s3 (c : Cfg ℝ) (k : Consts ℝ) (s : NewState ℝ) (h3 : s.stage3 = true) :
    partA c k s = ((c.Lmin : ℤ), s.stage2, s.alpha, s.kStage2, s.crossover) := by
  unfold partA
  rw [if_pos h3]

theorem partA_s2 (c : Cfg ℝ) (k : Consts ℝ) (s : NewState ℝ) (h3 : s.stage3 = false)
    (h2 : s.stage2 = true) :
    partA c k s = (RealLike.roundEven ((s.crossover : ℝ) * Real.exp (s.alpha * (s.kStage2 : ℝ))),
      true, s.alpha, s.kStage2 + 1, s.crossover) := by
  unfold partA
  rw [if_neg (by rw [h3]; exact Bool.false_ne_true), if_pos h2, h2]
  simp only [RL.ofInt_eq, RL.exp_eq, RL.ofNat_eq]

theorem partA_s1 (c : Cfg ℝ) (k : Consts ℝ) (s : NewState ℝ) (h3 : s.stage3 = false)
    (h2 : s.stage2 = false) :
    partA c k s = (d1 c k s.fi, decide (k.freslim ≤ s.fi * k.logfact), alphaN c k s, s.kStage2,
      d1 c k s.fi) := by
  unfold partA d1 alphaN SchedLtf.res0
  rw [if_neg (by rw [h3]; exact Bool.false_ne_true), if_neg (by rw [h2]; exact Bool.false_ne_true), h2]
  simp only [RL.ge_eq, RL.lt_eq, RL.gt_eq, RL.log_eq, RL.ofNat_eq, RL.ofInt_eq, decide_eq_true_eq,
    Bool.and_eq_true]
  by_cases hge : k.freslim ≤ s.fi * k.logfact
  · simp only [hge, ↓reduceIte, decide_true]
  · have hlt : s.fi * k.logfact < k.freslim := not_le.mp hge
    simp only [hge, hlt, true_and, ↓reduceIte, decide_false]
    split_ifs <;> rfl

/-! ### the clamped stage length -/

theorem clampL_Lmin (N Lmin : ℕ) (h : Lmin ≤ N) : clampL N Lmin (Lmin : ℤ) = Lmin := by
  have := SchedLtf.clampL_cast N Lmin (Lmin : ℤ)
  omega

theorem clampL_low (N Lmin : ℕ) (h : Lmin ≤ N) (l : ℤ) (hl : l < (Lmin : ℤ)) :
    clampL N Lmin l = Lmin := by
  have := SchedLtf.clampL_cast N Lmin l
  omega

/-- part B never changes the clamped length -/
theorem len_eq (c : Cfg ℝ) (h : Adm c) (k : Consts ℝ) (s : NewState ℝ) :
    len c k s = clampL c.N c.Lmin (partA c k s).1 := by
  unfold len partB
  by_cases hc : ((partA c k s).2.1 && decide ((partA c k s).1 < (c.Lmin : ℤ))) = true
  · rw [if_pos hc]
    simp only [Bool.and_eq_true, decide_eq_true_eq] at hc
    rw [clampL_Lmin _ _ h.hLminN, clampL_low _ _ h.hLminN _ hc.2]
  · rw [if_neg hc]

theorem len_bounds (c : Cfg ℝ) (h : Adm c) (k : Consts ℝ) (s : NewState ℝ) :
    c.Lmin ≤ len c k s ∧ len c k s ≤ c.N :=
  SchedLtf.clampL_bounds _ _ h.hLminN _

theorem partB_fst (c : Cfg ℝ) (k : Consts ℝ) (s : NewState ℝ) :
    (partB c k s).1 = (((partA c k s).2.1 && decide ((partA c k s).1 < (c.Lmin : ℤ))) || s.stage3) := by
  unfold partB
  by_cases hc : ((partA c k s).2.1 && decide ((partA c k s).1 < (c.Lmin : ℤ))) = true
  · rw [if_pos hc, hc]; rfl
  · rw [if_neg hc]
    have : ((partA c k s).2.1 && decide ((partA c k s).1 < (c.Lmin : ℤ))) = false := by
      simpa using hc
    rw [this]; rfl

/-! ### the stage-1 length is antitone in the frequency -/

theorem d1_anti (c : Cfg ℝ) (h : Adm c) {f1 f2 : ℝ} (h12 : f1 ≤ f2) :
    d1 c (consts c) f2 ≤ d1 c (consts c) f1 := by
  unfold d1
  apply roundEven_mono
  exact div_le_div_of_nonneg_left h.hfs.le (SchedLtf.res0_pos c h f1) (SchedLtf.res0_mono c h h12)

/-! ### the invariant of the loop state -/

structure Inv (c : Cfg ℝ) (s : NewState ℝ) : Prop where
  fi_pos : 0 < s.fi
  s1 : s.stage3 = false → s.stage2 = false →
    s.alpha = 0 ∧ (s.crossover ≤ 0 ∨ d1 c (consts c) s.fi ≤ s.crossover)
  s2 : s.stage3 = false → s.stage2 = true → s.alpha ≤ 0 ∧ (c.Lmin : ℤ) ≤ s.crossover

theorem inv_init (c : Cfg ℝ) (h : Adm c) : Inv c (PlanC02.newS0 c) := by
  refine ⟨SchedLtf.fmin_pos c h, fun _ _ => ⟨?_, Or.inl (le_refl _)⟩, fun _ h2 => ?_⟩
  · show (RealLike.zero : ℝ) = 0
    rw [RL.zero_eq]
  · exact absurd h2 Bool.false_ne_true

/-- the decayed length does not exceed the previous one -/
theorem decay_le {a : ℝ} {x : ℤ} (ha : a ≤ 0) (hx : 0 ≤ x) (k1 k2 : ℕ) (hk : k1 ≤ k2) :
    RealLike.roundEven ((x : ℝ) * Real.exp (a * (k2 : ℝ))) ≤
      RealLike.roundEven ((x : ℝ) * Real.exp (a * (k1 : ℝ))) := by
  apply roundEven_mono
  have hx' : (0 : ℝ) ≤ (x : ℝ) := by exact_mod_cast hx
  have hk' : (k1 : ℝ) ≤ (k2 : ℝ) := by exact_mod_cast hk
  apply mul_le_mul_of_nonneg_left _ hx'
  apply Real.exp_le_exp.mpr
  exact mul_le_mul_of_nonpos_left hk' ha

theorem decay_le_self {a : ℝ} {x : ℤ} (ha : a ≤ 0) (hx : 0 ≤ x) (k : ℕ) :
    RealLike.roundEven ((x : ℝ) * Real.exp (a * (k : ℝ))) ≤ x := by
  have := decay_le ha hx 0 k (Nat.zero_le _)
  simp only [Nat.cast_zero, mul_zero, Real.exp_zero, mul_one] at this
  rwa [SchedNV.roundEven_int] at this

/-! ### one step: the invariant is kept and the clamped stage length does not grow -/

theorem next_fi (c : Cfg ℝ) (k : Consts ℝ) (s : NewState ℝ) :
    (newStep c k s).2.fi = s.fi + (newStep c k s).1.1 := rfl
theorem next_stage2 (c : Cfg ℝ) (k : Consts ℝ) (s : NewState ℝ) :
    (newStep c k s).2.stage2 = (partA c k s).2.1 := rfl
theorem next_stage3 (c : Cfg ℝ) (k : Consts ℝ) (s : NewState ℝ) :
    (newStep c k s).2.stage3 = (partB c k s).1 := rfl
theorem next_alpha (c : Cfg ℝ) (k : Consts ℝ) (s : NewState ℝ) :
    (newStep c k s).2.alpha = (partA c k s).2.2.1 := rfl
theorem next_k (c : Cfg ℝ) (k : Consts ℝ) (s : NewState ℝ) :
    (newStep c k s).2.kStage2 = (partA c k s).2.2.2.1 := rfl
theorem next_crossover (c : Cfg ℝ) (k : Consts ℝ) (s : NewState ℝ) :
    (newStep c k s).2.crossover = (partA c k s).2.2.2.2 := rfl

theorem next_fi_gt (c : Cfg ℝ) (h : Adm c) (s : NewState ℝ) :
    s.fi < (newStep c (consts c) s).2.fi := by
  rw [next_fi]
  have := (SchedNV.newStep_all c (PlanC02.adm_nv h) s).2.1
  linarith

/-- length of a state already in stage 3 -/
theorem len_s3 (c : Cfg ℝ) (h : Adm c) (k : Consts ℝ) (s : NewState ℝ) (h3 : s.stage3 = true) :
    len c k s = c.Lmin := by
  rw [len_eq c h, partA_s3 c k s h3, clampL_Lmin _ _ h.hLminN]

theorem alphaN_nonpos (c : Cfg ℝ) (h : Adm c) (s : NewState ℝ) (ha : s.alpha = 0)
    (hx : s.crossover ≤ 0 ∨ (c.Lmin : ℤ) ≤ s.crossover) : alphaN c (consts c) s ≤ 0 := by
  unfold alphaN
  split_ifs with h1 h2
  · rcases hx with hx | hx
    · omega
    · have hL : (0 : ℝ) < (c.Lmin : ℝ) := by exact_mod_cast h.hLmin1
      have hx' : (c.Lmin : ℝ) ≤ (s.crossover : ℝ) := by exact_mod_cast hx
      have hp : (0 : ℝ) < ((((c.Jdes : ℤ) - (s.j : ℤ) - 1 : ℤ)) : ℝ) := by
        have : (0 : ℤ) < (c.Jdes : ℤ) - (s.j : ℤ) - 1 := by omega
        exact_mod_cast this
      apply div_nonpos_of_nonpos_of_nonneg _ hp.le
      apply Real.log_nonpos
      · exact div_nonneg hL.le (by linarith)
      · rw [div_le_one (by linarith)]; exact hx'
  · rw [ha]
  · rw [ha]

theorem inv_step (c : Cfg ℝ) (h : Adm c) (s : NewState ℝ) (hI : Inv c s) :
    Inv c (newStep c (consts c) s).2 ∧
    len c (consts c) (newStep c (consts c) s).2 ≤ len c (consts c) s := by
  have hfi' := next_fi_gt c h s
  have hpos' : 0 < (newStep c (consts c) s).2.fi := lt_trans hI.fi_pos hfi'
  have hLb := len_bounds c h (consts c) s
  have hLminN := h.hLminN
  set s' := (newStep c (consts c) s).2 with hs'
  by_cases h3 : s.stage3 = true
  · -- stage 3 is absorbing
    have h3' : s'.stage3 = true := by
      rw [hs', next_stage3, partB_fst, h3, Bool.or_true]
    refine ⟨⟨hpos', fun e => ?_, fun e => ?_⟩, ?_⟩
    · rw [h3'] at e; exact absurd e (by decide)
    · rw [h3'] at e; exact absurd e (by decide)
    · rw [len_s3 c h _ s' h3']; exact hLb.1
  · have h3f : s.stage3 = false := by simpa using h3
    by_cases h2 : s.stage2 = true
    · -- stage 2
      obtain ⟨ha, hx⟩ := hI.s2 h3f h2
      have hx0 : (0 : ℤ) ≤ s.crossover := le_trans (Int.natCast_nonneg _) hx
      have hA := partA_s2 c (consts c) s h3f h2
      have e2 : s'.stage2 = true := by rw [hs', next_stage2, hA]
      have ea : s'.alpha = s.alpha := by rw [hs', next_alpha, hA]
      have ek : s'.kStage2 = s.kStage2 + 1 := by rw [hs', next_k, hA]
      have ec : s'.crossover = s.crossover := by rw [hs', next_crossover, hA]
      have hlen : len c (consts c) s = clampL c.N c.Lmin
          (RealLike.roundEven ((s.crossover : ℝ) * Real.exp (s.alpha * (s.kStage2 : ℝ)))) := by
        rw [len_eq c h, hA]
      refine ⟨⟨hpos', fun _ e => ?_, fun _ _ => ?_⟩, ?_⟩
      · rw [e2] at e; exact absurd e (by decide)
      · rw [ea, ec]; exact ⟨ha, hx⟩
      · by_cases h3' : s'.stage3 = true
        · rw [len_s3 c h _ s' h3']; exact hLb.1
        · have h3'f : s'.stage3 = false := by simpa using h3'
          rw [len_eq c h _ s', partA_s2 c (consts c) s' h3'f e2, hlen, ea, ek, ec]
          apply SchedLtf.clampL_mono
          exact decay_le ha hx0 _ _ (Nat.le_succ _)
    · -- stage 1
      have h2f : s.stage2 = false := by simpa using h2
      obtain ⟨ha, hx⟩ := hI.s1 h3f h2f
      have hA := partA_s1 c (consts c) s h3f h2f
      have e2 : s'.stage2 = decide ((consts c).freslim ≤ s.fi * (consts c).logfact) := by
        rw [hs', next_stage2, hA]
      have ea : s'.alpha = alphaN c (consts c) s := by rw [hs', next_alpha, hA]
      have ec : s'.crossover = d1 c (consts c) s.fi := by rw [hs', next_crossover, hA]
      have e3 : s'.stage3 = (decide ((consts c).freslim ≤ s.fi * (consts c).logfact) &&
          decide (d1 c (consts c) s.fi < (c.Lmin : ℤ))) := by
        rw [hs', next_stage3, partB_fst, hA, h3f, Bool.or_false]
      have hlen : len c (consts c) s = clampL c.N c.Lmin (d1 c (consts c) s.fi) := by
        rw [len_eq c h, hA]
      have hd := d1_anti c h hfi'.le
      refine ⟨⟨hpos', fun e3' e2' => ?_, fun e3' e2' => ?_⟩, ?_⟩
      · -- still stage 1
        rw [e2] at e2'
        have hnt : ¬ (consts c).freslim ≤ s.fi * (consts c).logfact := by simpa using e2'
        rw [ea, ec]
        refine ⟨?_, Or.inr hd⟩
        unfold alphaN
        rw [if_neg hnt, ha]
      · -- entered stage 2 without falling to stage 3
        rw [e2] at e2'
        have ht : (consts c).freslim ≤ s.fi * (consts c).logfact := by simpa using e2'
        rw [e3] at e3'
        have hge : (c.Lmin : ℤ) ≤ d1 c (consts c) s.fi := by
          simp only [ht, decide_true, Bool.true_and, decide_eq_false_iff_not, not_lt] at e3'
          exact e3'
        rw [ea, ec]
        refine ⟨alphaN_nonpos c h s ha ?_, hge⟩
        rcases hx with hx | hx
        · exact Or.inl hx
        · exact Or.inr (le_trans hge hx)
      · by_cases h3' : s'.stage3 = true
        · rw [len_s3 c h _ s' h3']; exact hLb.1
        · have h3'f : s'.stage3 = false := by simpa using h3'
          by_cases ht : (consts c).freslim ≤ s.fi * (consts c).logfact
          · -- transition bin: the next state is in stage 2
            have e2' : s'.stage2 = true := by rw [e2]; simpa using ht
            have hge : (c.Lmin : ℤ) ≤ d1 c (consts c) s.fi := by
              rw [e3] at h3'f
              simp only [ht, decide_true, Bool.true_and, decide_eq_false_iff_not, not_lt] at h3'f
              exact h3'f
            have hal : s'.alpha ≤ 0 := by
              rw [ea]
              apply alphaN_nonpos c h s ha
              rcases hx with hx | hx
              · exact Or.inl hx
              · exact Or.inr (le_trans hge hx)
            rw [len_eq c h _ s', partA_s2 c (consts c) s' h3'f e2', hlen, ec]
            apply SchedLtf.clampL_mono
            exact decay_le_self hal (le_trans (Int.natCast_nonneg _) hge) _
          · have e2' : s'.stage2 = false := by rw [e2]; simpa using ht
            rw [len_eq c h _ s', partA_s1 c (consts c) s' h3'f e2', hlen]
            exact SchedLtf.clampL_mono _ _ hd

/-! ### consecutive bins -/

/-- the bin produced from the successor state has `L` not larger and `K` not smaller -/
theorem newStep_mono (c : Cfg ℝ) (h : Adm c) (s : NewState ℝ) (hI : Inv c s) :
    (newStep c (consts c) (newStep c (consts c) s).2).1.2.2.1 ≤ (newStep c (consts c) s).1.2.2.1 ∧
    (newStep c (consts c) s).1.2.2.2 ≤ (newStep c (consts c) (newStep c (consts c) s).2).1.2.2.2 := by
  obtain ⟨hI', hlen⟩ := inv_step c h s hI
  have hx := SchedLtf.xov_pos c h
  have hLmin := h.hLmin1
  set s' := (newStep c (consts c) s).2 with hs'
  have hb := len_bounds c h (consts c) s
  have hb' := len_bounds c h (consts c) s'
  have hB := Bf_bounds c h s.fi
  have hB' := Bf_bounds c h s'.fi
  have hge := out_L_ge c h s hI.fi_pos hb
  have hBf := Bf_anti c h hI.fi_pos (next_fi_gt c h s).le
  have hL : (newStep c (consts c) s').1.2.2.1 ≤ (newStep c (consts c) s).1.2.2.1 := by
    rcases out_L_cases c (consts c) s' with e | e <;> rw [e]
    · exact le_trans (ruleL_mono c.N _ hx (le_trans hLmin hb'.1) hlen hb.2) hge.1
    · exact le_trans (ruleL_mono c.N _ hx (le_trans hLmin hB'.1) hBf hB.2) hge.2
  refine ⟨hL, ?_⟩
  rw [out_K c _ s, out_K c _ s']
  have hb1 := (SchedNV.newStep_all c (PlanC02.adm_nv h) s').2.2.2.1
  have hb2 := (SchedNV.newStep_all c (PlanC02.adm_nv h) s).2.2.2.2.1
  exact newK_anti c.N _ hx (le_trans (le_max_left _ _) hb1) hL hb2

/-! ### the walk -/

theorem newWalk_head_eq (fuel : ℕ) (c : Cfg ℝ) (k : Consts ℝ) (s : NewState ℝ) :
    ∀ y ∈ (newWalk fuel c k s).head?, y.2.2.2 = (newStep c k s).1.2.2 := by
  cases fuel with
  | zero => simp [newWalk_zero]
  | succ n =>
    by_cases hlt : s.fi < k.fmax
    · rw [newWalk_succ_pos n c k s hlt]; simp
    · rw [newWalk_succ_neg n c k s hlt]; simp

theorem newWalk_chain (c : Cfg ℝ) (h : Adm c) (fuel : ℕ) (s : NewState ℝ) (hI : Inv c s) :
    (newWalk fuel c (consts c) s).IsChain
      (fun a b => b.2.2.2.1 ≤ a.2.2.2.1 ∧ a.2.2.2.2 ≤ b.2.2.2.2) := by
  induction fuel generalizing s with
  | zero => rw [newWalk_zero]; exact List.IsChain.nil
  | succ n ih =>
    by_cases hlt : s.fi < (consts c).fmax
    · rw [newWalk_succ_pos n c _ s hlt, List.isChain_cons]
      refine ⟨?_, ih _ (inv_step c h s hI).1⟩
      intro y hy
      have e := newWalk_head_eq n c (consts c) _ y hy
      have e1 : y.2.2.2.1 = (newStep c (consts c) (newStep c (consts c) s).2).1.2.2.1 := by
        rw [e]
      have e2 : y.2.2.2.2 = (newStep c (consts c) (newStep c (consts c) s).2).1.2.2.2 := by
        rw [e]
      rw [e1, e2]
      exact newStep_mono c h s hI
    · rw [newWalk_succ_neg n c _ s hlt]; exact List.IsChain.nil

theorem newWalk_pairwise (c : Cfg ℝ) (h : Adm c) (fuel : ℕ) (s : NewState ℝ) (hI : Inv c s) :
    (newWalk fuel c (consts c) s).Pairwise
      (fun a b => b.2.2.2.1 ≤ a.2.2.2.1 ∧ a.2.2.2.2 ≤ b.2.2.2.2) := by
  have : Trans (fun a b : ℝ × ℝ × ℝ × ℕ × ℤ => b.2.2.2.1 ≤ a.2.2.2.1 ∧ a.2.2.2.2 ≤ b.2.2.2.2)
      (fun a b : ℝ × ℝ × ℝ × ℕ × ℤ => b.2.2.2.1 ≤ a.2.2.2.1 ∧ a.2.2.2.2 ≤ b.2.2.2.2)
      (fun a b : ℝ × ℝ × ℝ × ℕ × ℤ => b.2.2.2.1 ≤ a.2.2.2.1 ∧ a.2.2.2.2 ≤ b.2.2.2.2) :=
    ⟨fun h1 h2 => ⟨le_trans h2.1 h1.1, le_trans h1.2 h2.2⟩⟩
  exact (newWalk_chain c h fuel s hI).pairwise

end NewMono

/-- along the multi-stage plan the segment length never increases and the number of averages
    never decreases (any fuel) -/
theorem newPlan_monotone (c : Model.Cfg ℝ) (h : Adm c) (fuel : ℕ) :
    (Model.newPlan c fuel).Pairwise (fun a b => b.L ≤ a.L ∧ a.K ≤ b.K) := by
  rw [PlanC02.newPlan_map, List.pairwise_map]
  exact NewMono.newWalk_pairwise c h fuel _ (NewMono.inv_init c h)

#print axioms NewMono.newStep_out
#print axioms NewMono.newK_anti
#print axioms NewMono.inv_step
#print axioms NewMono.newStep_mono
#print axioms NewMono.newWalk_pairwise
#print axioms newPlan_monotone
