/-
  SpecKitV.Props.EntryPointsLpsd — transfer: the translated per-bin loop `_lpsd_core` (region LpsdCore, proved equal to the model for EVERY backend
  selection function) instantiated with the TRANSLATED `core._select_backend` (region EntryPoints).  Obligation of C05 (and of everything downstream).
  Proof text by the EntryPoints region agent (kept out of Props/EntryPointsGen so that C20 does not depend on the kernel regions).
-/
import SpecKitV.Props.EntryPointsGen
import SpecKitV.Props.LpsdCoreGen
open EP EPG

namespace EPLpsd

/-! ### transfer to the per-bin loop (Props/LpsdCoreGen): `_lpsd_core` was translated with `_select_backend` as a PARAMETER and proved equal to the
    model for every selection function; here the parameter is instantiated with the translated `_select_backend` itself -/

/-- what the translated `_select_backend` answers for `K` segments (`""` when it raises — `_lpsd_core` then raises as well) -/
def selTranslated (cuda numba : Bool) : ℕ → String → String := fun K hint =>
  match Gen._select_backend cuda numba (K : Int) hint with
  | .ok b => b
  | .error _ => ""

/-- the translated per-bin loop, dispatched by the TRANSLATED backend decision table, is the model analysis — for every setting of the two
    module flags, every hint, every plan.  `hQ`: for the polynomial orders the basis has at least two columns at the segment lengths of the
    bins read (the generalised hypothesis of `LpsdCoreGen.gen_lpsd_core_eq_model_all_backends`; Props/PipelineClosed discharges it for the
    translated `_build_Q`) -/
theorem gen_lpsd_core_translated_backend (cuda numba : Bool) (u : ℕ → ℕ → ℝ) (bq : ℕ → ℤ → Arr2 ℝ) (wf : NpLC.WinFunc ℝ)
    (alpha : ℝ) (order : ℤ)
    (cb : String) (x1 x2 : Arr ℝ) (iscsd : Bool) (fs : ℝ) (nx : ℤ) (pL : Arr ℕ) (pD : Arr (Arr ℕ)) (pf : Arr ℝ) (idx : List ℕ)
    (hQ : order = 1 ∨ order = 2 → ∀ i ∈ idx, 2 ≤ (bq (pL.get i) order).m) :
    ((Gen._lpsd_core (LpsdCoreGen.genFamilyAll u) bq (selTranslated cuda numba) wf alpha order cb x1 x2 iscsd fs nx pL pD pf idx).2).map
        LpsdCoreGen.rowStats
      = Model.lpsdCore iscsd order x1 x2 fs (Model.lpsdWindow wf alpha) bq (idx.map (Model.pbinAt pf pL pD)) :=
  LpsdCoreGen.gen_lpsd_core_eq_model_all_backends u bq (selTranslated cuda numba) wf alpha order cb x1 x2 iscsd fs nx pL pD pf idx hQ

/-- …and whenever it does not raise, the answer is one of the three backend names the dispatch knows -/
theorem selTranslated_names (cuda numba : Bool) (K : ℕ) (hint : String) :
    selTranslated cuda numba K hint ∈ ["cuda", "numba", "numpy", ""] := by
  unfold selTranslated
  cases h : Gen._select_backend cuda numba (K : Int) hint with
  | error e => simp
  | ok b =>
    rcases (gen_select_backend_table cuda numba K hint).2.2.2.2.1 b h with rfl | rfl | rfl <;> simp

end EPLpsd

#print axioms EPLpsd.gen_lpsd_core_translated_backend
#print axioms EPLpsd.selTranslated_names
