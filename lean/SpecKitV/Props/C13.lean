/-
  Props/C13 — inputs are sanitised, never modified, layout-independent.
  The constructor's buffer operations are GENERATED from analysis.py (Gen/Ctor.lean); the aliasing
  semantics of each operation is the hand model `Model.heapStep`, validated against NumPy by the
  correspondence (`np.shares_memory`).
-/
import SpecKitV.Gen.Ctor
import SpecKitV.Lemmas.AnalyzerGlue

open Model Gen

/-- no in-place sanitiser is left in any constructor path -/
theorem ctor_ops_copying :
    HeapOp.nanToNumInPlace ∉ ctorOps1D ∧ HeapOp.nanToNumInPlace ∉ ctorOps2DRows ∧ HeapOp.nanToNumInPlace ∉ ctorOps2DCols := by
  decide

/-- for EVERY input (any buffer, contiguity, dtype, container) the constructor writes no buffer at all
    other than ones it allocates itself: the caller's array is left untouched -/
theorem ctor_writes_nothing (input : ArrDesc) :
    (heapRun ctorOps1D input).written = [] ∧ (heapRun ctorOps2DRows input).written = [] ∧
    (heapRun ctorOps2DCols input).written = [] :=
  ⟨Model.ctor_copy_no_write input _ ctor_ops_copying.1, Model.ctor_copy_no_write input _ ctor_ops_copying.2.1,
   Model.ctor_copy_no_write input _ ctor_ops_copying.2.2⟩

/-- whatever the op sequence, a written buffer is never older than the input buffer id … -/
theorem ctor_written_ge (input : ArrDesc) (ops : List HeapOp) :
    ∀ b ∈ (heapRun ops input).written, input.buf ≤ b := Model.heapRun_written_ge ops input

/-- … and on the sanitising path (non-finite samples present: the op lists describe that path; for an all-finite
    input the sanitiser is skipped and nothing at all is written) the stored record is a fresh buffer -/
theorem ctor_result_fresh (input : ArrDesc) :
    input.buf < (heapRun ctorOps1D input).cur.buf ∧ input.buf < (heapRun ctorOps2DRows input).cur.buf ∧
    input.buf < (heapRun ctorOps2DCols input).cur.buf := by
  rcases input with ⟨b, c, fc, f, a⟩
  cases c <;> cases fc <;> cases f <;> cases a <;> simp [heapRun, heapStep, ctorOps1D, ctorOps2DRows, ctorOps2DCols] <;> omega

/-- the aliasing model is sharp enough to exhibit the defect class it guards against: with an in-place sanitiser a
    Fortran-ordered N×2 float64 array (its `.T` is C-contiguous, so nothing is copied) would be written -/
theorem inplace_would_write_fortran_Nx2 :
    (0 : ℕ) ∈ (heapRun [HeapOp.asarray, .transposeView, .ascontig64, .nanToNumInPlace] ⟨0, false, true, true, true⟩).written := by
  decide

#print axioms inplace_would_write_fortran_Nx2
#print axioms ctor_ops_copying
#print axioms ctor_writes_nothing
#print axioms ctor_written_ge
#print axioms ctor_result_fresh
