/-
  Props/RmsGen — the machine-translated region `Rms` (lean/SpecKitV/Gen/Rms.lean, regenerated on every check run by
  vk/regions/rms.py from speckit/dsp.py `crop_data`, `integral_rms`, `polynomial_detrend` and speckit/analysis.py
  `SpectrumResult.get_rms`) IS the hand model of Model/Dsp.lean, so the property theorems of Lemmas/Rms.lean
  (`integralRms_spec`, `integralRms_none`, `rms_monotone`, `rms_additive_at_grid`, `rms_superadditive`, `detrend0_*`) are theorems
  about the code as translated.  Arrays are `Arr ℝ` (length + index function); `toPts f y` is the list of points `(f[i], y[i])`,
  `toList a` the list of elements; `none` = the Python call raises; `Np.Rms.XR ℝ` = a float that may be ±inf.

  Equalities (α := ℝ, all inputs; hypotheses only where the real code raises, and a companion theorem shows that it does):
    gen_crop_data_eq_model          crop_data = inclusive band filter in original order; raises iff lengths differ or xmin > xmax
    gen_integral_rms_eq_model(_list) integral_rms = Model.integralRms for EVERY grid (unsorted, duplicates), finite band or None
    gen_integral_rms_rejects / _inverted / _inf_inf / _ninf / _pinf / _one_point    rejected inputs, infinite edges, single point = 0
    gen_get_rms_eq_integral_rms / _none / _csd / _nonfinite / gen_get_rms_eq_model   get_rms = integral_rms on the SORTED band
    gen_detrend0_eq_model, gen_detrend_rejects, gen_detrend_poly_structure            order 0 = x - mean x; order ≥ 1 structure and
                                                                                    the short-series rule, `np.polyfit` a parameter
  Transfer: gen_integralRms_spec/_none, gen_rms_monotone, gen_rms_additive_at_grid, gen_rms_superadditive, gen_detrend0_sum_zero/_idem/_const.
  Orders ≥ 1 under the stated contract of np.polyfit (`RmsGen.PolyfitLS`: does not raise for deg < n, deg+1 coefficients, normal
  equations; proved consistent by `RmsGen.lsPolyfit_contract`): gen_detrend_orthogonal, gen_detrend_kills_poly, gen_detrend_short_zero,
  gen_detrend_idempotent, and gen_detrend_eq_detr (the translated detrend IS `Model.detr p Q` for every orthonormal polynomial basis Q,
  which ties it to `detr_poly_*` of Lemmas/Detrend).  What remains contract: that NumPy's polyfit satisfies `PolyfitLS` (LAPACK lstsq).

  Proof style: the generated definitions are unfolded and normalised with `simp only` (temporaries are `let`s, erased by zeta; `Arr.memo`
  by `memo_eq`), list/array facts are separate lemmas (`compress_fst/snd` take ANY mask with the right membership property,
  `cumtrapz_last` ANY arrays holding the right values), so renamed temporaries, split statements and commuted operands do not break them.
-/
import SpecKitV.RealInst
import SpecKitV.Gen.Rms
import SpecKitV.Model.Dsp
import SpecKitV.Lemmas.Rms
import SpecKitV.Lemmas.Detrend
import SpecKitV.Lemmas.DetrendComplete
import Mathlib.LinearAlgebra.Lagrange
import Mathlib.Analysis.InnerProductSpace.PiL2
import Mathlib.Analysis.InnerProductSpace.Projection.Basic

set_option linter.unusedVariables false
set_option linter.unusedSimpArgs false   -- simp sets deliberately list both spellings (`<`/`>` …) of what the source may say

namespace RmsGen
open Np.Rms

/-- `Arr.memo` (eager evaluation of a vector expression) is extensionally the identity -/
theorem memo_eq {β : Type} (a : Arr β) : Arr.memo a = a := by
  obtain ⟨n, get⟩ := a
  unfold Arr.memo
  simp only [Arr.mk.injEq, true_and]
  funext i
  split
  · rename_i h
    simp only [Array.getElem_map, Array.getElem_range]
  · rfl

/-! ### `XR` at finite values -/
@[simp] theorem lt_fin (a b : ℝ) : XR.lt (XR.fin a) (XR.fin b) = decide (a < b) := rfl
@[simp] theorem le_fin (a b : ℝ) : XR.le (XR.fin a) (XR.fin b) = decide (a ≤ b) := rfl
@[simp] theorem gt_fin (a b : ℝ) : XR.gt (XR.fin a) (XR.fin b) = decide (b < a) := rfl
@[simp] theorem ge_fin (a b : ℝ) : XR.ge (XR.fin a) (XR.fin b) = decide (b ≤ a) := rfl
@[simp] theorem pyMax_fin (a b : ℝ) : XR.pyMax (XR.fin a) (XR.fin b) = XR.fin (if a < b then b else a) := by
  by_cases h : a < b <;> simp [XR.pyMax, h]
@[simp] theorem pyMin_fin (a b : ℝ) : XR.pyMin (XR.fin a) (XR.fin b) = XR.fin (if b < a then b else a) := by
  by_cases h : b < a <;> simp [XR.pyMin, h]
@[simp] theorem pyMax_ninf (a : ℝ) : XR.pyMax (XR.fin a) (XR.ninf) = XR.fin a := rfl
@[simp] theorem pyMin_pinf (a : ℝ) : XR.pyMin (XR.fin a) (XR.pinf) = XR.fin a := rfl
@[simp] theorem neg_pinf : XR.neg (XR.pinf : XR ℝ) = XR.ninf := rfl
@[simp] theorem isFinite_fin (a : ℝ) : XR.isFinite (XR.fin a) = true := rfl

/-- the points `(f[i], y[i])` of two arrays -/
def toPts (f y : Arr ℝ) : List (ℝ × ℝ) := (List.range f.n).map (fun i => (f.get i, y.get i))

/-- boolean-mask selection with a mask that tests band membership of `f[i]` keeps exactly the points inside the band -/
theorem compress_fst (f y : Arr ℝ) (lo hi : ℝ) (mask : Arr Bool)
    (hm : ∀ i, mask.get i = true ↔ (lo ≤ f.get i ∧ f.get i ≤ hi)) :
    compress mask f = ofList (((toPts f y).filter (RmsAux.band lo hi)).map Prod.fst) := by
  unfold compress toPts
  congr 1
  rw [List.filter_map, List.map_map]
  have : (List.range f.n).filter mask.get = (List.range f.n).filter (RmsAux.band lo hi ∘ fun i => (f.get i, y.get i)) := by
    apply List.filter_congr
    intro i _
    rw [Bool.eq_iff_iff, hm i]
    simp [RmsAux.band_iff]
  rw [this]
  rfl

theorem compress_snd (f y : Arr ℝ) (h : f.n = y.n) (lo hi : ℝ) (mask : Arr Bool)
    (hm : ∀ i, mask.get i = true ↔ (lo ≤ f.get i ∧ f.get i ≤ hi)) :
    compress mask y = ofList (((toPts f y).filter (RmsAux.band lo hi)).map Prod.snd) := by
  unfold compress toPts
  congr 1
  rw [List.filter_map, List.map_map, ← h]
  have : (List.range f.n).filter mask.get = (List.range f.n).filter (RmsAux.band lo hi ∘ fun i => (f.get i, y.get i)) := by
    apply List.filter_congr
    intro i _
    rw [Bool.eq_iff_iff, hm i]
    simp [RmsAux.band_iff]
  rw [this]
  rfl

/-- `crop_data` on finite bounds, in the branch `integral_rms` reaches (equal lengths, non-empty, `lo ≤ hi`) -/
theorem crop_data_fin (f y : Arr ℝ) (h : f.n = y.n) (hn : f.n ≠ 0) (lo hi : ℝ) (hlh : lo ≤ hi) :
    Gen.crop_data f y (XR.fin lo) (XR.fin hi)
      = some (ofList (((toPts f y).filter (RmsAux.band lo hi)).map Prod.fst), ofList (((toPts f y).filter (RmsAux.band lo hi)).map Prod.snd)) := by
  unfold Gen.crop_data
  have h1 : decide (f.n ≠ y.n) = false := by simpa using h
  have h2 : decide (f.n = 0) = false := by simpa using hn
  have h3 : XR.gt (XR.fin lo) (XR.fin hi) = false := by simpa using hlh
  simp only [h1, h2, h3, Bool.false_eq_true, if_false, memo_eq]
  rw [compress_fst f y lo hi _ (by intro i; simp only [Bool.and_eq_true, ge_fin, le_fin, gt_fin, lt_fin, decide_eq_true_eq]; try tauto),
    compress_snd f y h lo hi _ (by intro i; simp only [Bool.and_eq_true, ge_fin, le_fin, gt_fin, lt_fin, decide_eq_true_eq]; try tauto)]

theorem toPts_fst (f y : Arr ℝ) : (toPts f y).map Prod.fst = toList f := by
  simp [toPts, toList, List.map_map, Function.comp_def]

theorem npMin_eq (f y : Arr ℝ) : npMin f = RmsAux.fmn (toPts f y) := by
  unfold npMin RmsAux.fmn
  have : (toPts f y).map (·.1) = toList f := toPts_fst f y
  rw [this]
  cases toList f <;> rfl

theorem npMax_eq (f y : Arr ℝ) : npMax f = RmsAux.fmx (toPts f y) := by
  unfold npMax RmsAux.fmx
  have : (toPts f y).map (·.1) = toList f := toPts_fst f y
  rw [this]
  cases toList f <;> rfl

/-- the left-to-right panel sum of `cumulative_trapezoid` over all points of a list is the model's trapezoid sum -/
theorem panel_sum (g : ℝ → ℝ) : ∀ (l : List (ℝ × ℝ)),
    ∑ i ∈ Finset.range (l.length - 1),
        ((l.map Prod.fst).getD (i + 1) 0 - (l.map Prod.fst).getD i 0)
          * (g ((l.map Prod.snd).getD (i + 1) 0) + g ((l.map Prod.snd).getD i 0)) / 2
      = Model.trapz (l.map (fun p => (p.1, g p.2)))
  | [] => by simp [Model.trapz]
  | [p] => by simp [Model.trapz]
  | p :: q :: r => by
    have ih := panel_sum g (q :: r)
    simp only [List.length_cons, Nat.add_sub_cancel] at ih ⊢
    rw [Finset.sum_range_succ']
    simp only [List.map_cons, List.getD_cons_succ, List.getD_cons_zero] at ih ⊢
    rw [ih, RmsAux.trapz_cons_cons]
    ring

theorem pyIndex_neg_one (n : ℕ) : Np.pyIndex n (-1) = n - 1 := by
  unfold Np.pyIndex
  simp only [Int.reduceNeg, Int.reduceLT, if_true]
  omega

/-- `cumulative_trapezoid(Y, X, initial=0)[-1]` for arrays holding `g(y_i)` and `f_i` of a non-empty list of points -/
theorem cumtrapz_last (g : ℝ → ℝ) (l : List (ℝ × ℝ)) (Y X : Arr ℝ) (hYn : Y.n = l.length)
    (hY : ∀ i, Y.get i = g ((l.map Prod.snd).getD i 0)) (hX : ∀ i, X.get i = (l.map Prod.fst).getD i 0) :
    (cumtrapz Y X (RealLike.ofNat 0)).get (Np.pyIndex (cumtrapz Y X (RealLike.ofNat 0)).n (-1))
      = Model.trapz (l.map (fun p => (p.1, g p.2))) := by
  unfold cumtrapz
  simp only [pyIndex_neg_one, hYn]
  have : ∀ k : ℕ, (if k = 0 then (RealLike.ofNat 0 : ℝ)
        else sumRange k (fun i => (X.get (i + 1) - X.get i) * (Y.get (i + 1) + Y.get i) / RealLike.ofNat 2))
      = ∑ i ∈ Finset.range k, ((l.map Prod.fst).getD (i + 1) 0 - (l.map Prod.fst).getD i 0)
          * (g ((l.map Prod.snd).getD (i + 1) 0) + g ((l.map Prod.snd).getD i 0)) / 2 := by
    intro k
    by_cases hk : k = 0
    · subst hk; simp
    · rw [if_neg hk, sumRange_eq_sum]
      refine Finset.sum_congr rfl (fun i _ => ?_)
      simp only [hX, hY, RL.ofNat_eq, Nat.cast_ofNat]
  rw [this, panel_sum]

/-- embedding of a finite band into the (possibly infinite) band type of the translated code -/
def finBand (b : ℝ × ℝ) : XR ℝ × XR ℝ := (XR.fin b.1, XR.fin b.2)

/-- core: a finite band `(b0, b1)` on a non-empty grid with as many amplitudes as frequencies -/
theorem integral_rms_fin (f y : Arr ℝ) (h : f.n = y.n) (hn : f.n ≠ 0) (b0 b1 : ℝ) :
    Gen.integral_rms f y (some (XR.fin b0, XR.fin b1)) = Model.integralRms (toPts f y) (some (b0, b1)) := by
  unfold Gen.integral_rms
  have h1 : decide (f.n ≠ y.n) = false := by simpa using h
  have h2 : decide (f.n = 0) = false := by simpa using hn
  simp only [h1, h2, Bool.false_eq_true, if_false, gt_fin, ne_eq, not_true_eq_false, decide_false]
  by_cases hb : b1 < b0
  · simp only [hb, decide_true, if_true]
    unfold Model.integralRms
    simp [hb]
  · simp only [hb, decide_false, Bool.false_eq_true, if_false, pyMax_fin, pyMin_fin, ge_fin]
    rw [RmsAux.integralRms_some_eq _ _ _ (not_lt.mp hb), npMin_eq f y, npMax_eq f y]
    generalize (if RmsAux.fmn (toPts f y) < b0 then b0 else RmsAux.fmn (toPts f y)) = lo
    generalize (if b1 < RmsAux.fmx (toPts f y) then b1 else RmsAux.fmx (toPts f y)) = hi
    unfold RmsAux.goR
    by_cases hlh : hi ≤ lo
    · simp [hlh]
    · simp only [hlh, decide_false, Bool.false_eq_true, if_false]
      rw [crop_data_fin f y h hn lo hi (le_of_lt (not_le.mp hlh))]
      simp only [memo_eq]
      generalize (toPts f y).filter (RmsAux.band lo hi) = K
      by_cases hK : K = []
      · subst hK; simp [ofList]
      · have hK' : ¬ ((ofList (K.map Prod.fst)).n = 0) := by simpa [ofList] using hK
        have hK'' : K.isEmpty = false := by simpa using hK
        simp only [hK', hK'', decide_false, Bool.false_eq_true, if_false]
        rw [cumtrapz_last (fun v => v * v) K _ _ (by simp [ofList]) (by intro i; simp [ofList]) (by intro i; simp [ofList])]
        rfl

theorem npMin_le_npMax (f : Arr ℝ) (hn : f.n ≠ 0) : npMin f ≤ npMax f := by
  have hmem : (f.get 0, f.get 0) ∈ toPts f f := by
    unfold toPts
    exact List.mem_map.mpr ⟨0, List.mem_range.mpr (Nat.pos_of_ne_zero hn), rfl⟩
  rw [npMin_eq f f, npMax_eq f f]
  exact (RmsAux.fmn_le _ _ hmem).trans (RmsAux.le_fmx _ _ hmem)

/-- `pass_band=None` (the code substitutes `[-inf, inf]`) is the band `[min f, max f]` -/
theorem integral_rms_none_eq_span (f y : Arr ℝ) (hn : f.n ≠ 0) :
    Gen.integral_rms f y none = Gen.integral_rms f y (some (XR.fin (npMin f), XR.fin (npMax f))) := by
  have hle := npMin_le_npMax f hn
  have h3 : ¬ (npMax f < npMin f) := not_lt.mpr hle
  unfold Gen.integral_rms
  simp only [neg_pinf, pyMax_ninf, pyMin_pinf, pyMax_fin, pyMin_fin, gt_fin, lt_irrefl, if_false, h3, decide_false,
    Bool.false_eq_true, ne_eq, not_true_eq_false]

theorem toPts_ne_nil (f y : Arr ℝ) (hn : f.n ≠ 0) : toPts f y ≠ [] := by
  unfold toPts
  intro hnil
  have := congrArg List.length hnil
  simp at this
  exact hn this

theorem model_none_eq_span (pts : List (ℝ × ℝ)) (hne : pts ≠ []) :
    Model.integralRms pts none = Model.integralRms pts (some (RmsAux.fmn pts, RmsAux.fmx pts)) := by
  obtain ⟨p, hp⟩ := List.exists_mem_of_ne_nil pts hne
  have hle : RmsAux.fmn pts ≤ RmsAux.fmx pts := (RmsAux.fmn_le _ _ hp).trans (RmsAux.le_fmx _ _ hp)
  rw [RmsAux.integralRms_none_eq, RmsAux.integralRms_some_eq _ _ _ hle]
  simp

end RmsGen

open Np.Rms RmsGen

/-! ## `integral_rms`: translated = hand model -/

/-- **translated `integral_rms` = `Model.integralRms`**, every grid (sorted or not, with duplicates), every finite band and
    `pass_band=None`.  Hypotheses = exactly the inputs the real code rejects with `ValueError` (see `gen_integral_rms_rejects`):
    `h` different lengths, `hn` empty input. -/
theorem gen_integral_rms_eq_model (f y : Arr ℝ) (h : f.n = y.n) (hn : f.n ≠ 0) (band : Option (ℝ × ℝ)) :
    Gen.integral_rms f y (band.map finBand) = Model.integralRms (toPts f y) band := by
  cases band with
  | some b => exact integral_rms_fin f y h hn b.1 b.2
  | none =>
    rw [Option.map_none, integral_rms_none_eq_span f y hn, integral_rms_fin f y h hn, npMin_eq f y, npMax_eq f y]
    exact (model_none_eq_span _ (toPts_ne_nil f y hn)).symm

example : ∃ (f y : Arr ℝ), f.n = y.n ∧ f.n ≠ 0 ∧ toPts f y = [(3, 1), (1, 2), (2, 5)] :=
  ⟨ofList [3, 1, 2], ofList [1, 2, 5], rfl, by simp [ofList], by simp [toPts, ofList, List.range_succ]⟩

/-- the inputs excluded above make the translated function raise (`none`), whatever the band -/
theorem gen_integral_rms_rejects (f y : Arr ℝ) (pb : Option (XR ℝ × XR ℝ)) (hbad : f.n ≠ y.n ∨ f.n = 0) :
    Gen.integral_rms f y pb = none := by
  unfold Gen.integral_rms
  by_cases h : f.n = y.n
  · have hn : f.n = 0 := by tauto
    simp [h, hn ▸ h.symm]
  · simp [h]

/-- an inverted band raises -/
theorem gen_integral_rms_inverted (f y : Arr ℝ) (b0 b1 : ℝ) (hb : b1 < b0) :
    Gen.integral_rms f y (some (XR.fin b0, XR.fin b1)) = none := by
  unfold Gen.integral_rms
  simp [hb]

/-- the same statement for arrays given by the list of their points -/
theorem gen_integral_rms_eq_model_list (pts : List (ℝ × ℝ)) (hne : pts ≠ []) (band : Option (ℝ × ℝ)) :
    Gen.integral_rms (ofList (pts.map Prod.fst)) (ofList (pts.map Prod.snd)) (band.map finBand) = Model.integralRms pts band := by
  have hp : toPts (ofList (pts.map Prod.fst)) (ofList (pts.map Prod.snd)) = pts := by
    unfold toPts ofList
    apply List.ext_getElem
    · simp
    · intro i h1 h2
      simp at h1
      simp [List.getD_eq_getElem?_getD, h1]
  have := gen_integral_rms_eq_model (ofList (pts.map Prod.fst)) (ofList (pts.map Prod.snd)) (by simp [ofList])
    (by simpa [ofList] using hne) band
  rwa [hp] at this

/-- infinite band edges (accepted by `integral_rms`, rejected by `get_rms`): `(-inf, inf)` is `None` -/
theorem gen_integral_rms_inf_inf (f y : Arr ℝ) :
    Gen.integral_rms f y (some (XR.ninf, XR.pinf)) = Gen.integral_rms f y none := by
  unfold Gen.integral_rms
  simp [XR.gt, XR.lt]

/-- `(-inf, b)` is the finite band `(min (min f) b, b)` -/
theorem gen_integral_rms_ninf (f y : Arr ℝ) (b : ℝ) :
    Gen.integral_rms f y (some (XR.ninf, XR.fin b)) = Gen.integral_rms f y (some (XR.fin (min (npMin f) b), XR.fin b)) := by
  unfold Gen.integral_rms
  have h1 : ¬ (b < min (npMin f) b) := not_lt.mpr (min_le_right _ _)
  have h2 : ¬ (npMin f < min (npMin f) b) := not_lt.mpr (min_le_left _ _)
  simp [XR.gt, XR.lt, h1, h2]

/-- `(a, inf)` is the finite band `(a, max (max f) a)` -/
theorem gen_integral_rms_pinf (f y : Arr ℝ) (a : ℝ) :
    Gen.integral_rms f y (some (XR.fin a, XR.pinf)) = Gen.integral_rms f y (some (XR.fin a, XR.fin (max (npMax f) a))) := by
  unfold Gen.integral_rms
  have h1 : ¬ (max (npMax f) a < a) := not_lt.mpr (le_max_right _ _)
  have h2 : ¬ (max (npMax f) a < npMax f) := not_lt.mpr (le_max_left _ _)
  simp [XR.gt, XR.lt, h1, h2]

/-! ## `crop_data` -/

/-- **translated `crop_data`** on finite bounds: it raises iff the lengths differ or `xmin > xmax`, otherwise it returns the points
    with `xmin ≤ x ≤ xmax` (both ends inclusive) in their original order — the filter `Model.integralRms` applies.  No hypotheses. -/
theorem gen_crop_data_eq_model (x y : Arr ℝ) (a b : ℝ) :
    (Gen.crop_data x y (XR.fin a) (XR.fin b)).map (fun r => (toList r.1, toList r.2))
      = if x.n ≠ y.n ∨ b < a then none
        else some (((toPts x y).filter (fun p => decide (a ≤ p.1) && decide (p.1 ≤ b))).map Prod.fst,
                   ((toPts x y).filter (fun p => decide (a ≤ p.1) && decide (p.1 ≤ b))).map Prod.snd) := by
  by_cases h : x.n = y.n
  · by_cases hab : b < a
    · unfold Gen.crop_data; simp [h, hab]
    · by_cases hn : x.n = 0
      · have hy : y.n = 0 := h ▸ hn
        unfold Gen.crop_data
        simp [h, hab, hn, hy, toList, toPts]
      · rw [crop_data_fin x y h hn a b (not_lt.mp hab)]
        have hl : ∀ l : List ℝ, toList (ofList l) = l := by
          intro l
          unfold toList ofList
          apply List.ext_getElem
          · simp
          · intro i h1 h2
            simp at h1
            simp [List.getD_eq_getElem?_getD, h1]
        simp only [Option.map_some, hl, h, hab, ne_eq, not_true_eq_false, or_self, if_false]
        rfl
  · unfold Gen.crop_data; simp [h]

/-! ## `SpectrumResult.get_rms` -/

/-- **`get_rms(band)` = `integral_rms(self.f, self.asd, sorted band)`** for an auto spectrum and a finite band (either order). No hypotheses. -/
theorem gen_get_rms_eq_integral_rms (f asd : Arr ℝ) (a b : ℝ) :
    Gen.get_rms false f asd (some (XR.fin a, XR.fin b)) = Gen.integral_rms f asd (some (XR.fin (min a b), XR.fin (max a b))) := by
  unfold Gen.get_rms
  by_cases hba : b < a
  · have h1 : min a b = b := min_eq_right hba.le
    have h2 : max a b = a := max_eq_left hba.le
    simp only [Bool.false_eq_true, if_false, isFinite_fin, Bool.and_self, Bool.not_true, lt_fin, gt_fin, hba, decide_true, if_true, h1, h2]
    cases Gen.integral_rms f asd (some (XR.fin b, XR.fin a)) <;> rfl
  · have h1 : min a b = a := min_eq_left (not_lt.mp hba)
    have h2 : max a b = b := max_eq_right (not_lt.mp hba)
    simp only [Bool.false_eq_true, if_false, isFinite_fin, Bool.and_self, Bool.not_true, lt_fin, gt_fin, hba, decide_false, h1, h2]
    cases Gen.integral_rms f asd (some (XR.fin a, XR.fin b)) <;> rfl

/-- `get_rms(None)` = `integral_rms(self.f, self.asd, None)` -/
theorem gen_get_rms_none (f asd : Arr ℝ) : Gen.get_rms false f asd none = Gen.integral_rms f asd none := by
  unfold Gen.get_rms
  simp only [Bool.false_eq_true, if_false]
  cases Gen.integral_rms f asd none <;> rfl

/-- a cross spectrum has no RMS: `get_rms` raises -/
theorem gen_get_rms_csd (f asd : Arr ℝ) (pb : Option (XR ℝ × XR ℝ)) : Gen.get_rms true f asd pb = none := by
  unfold Gen.get_rms
  simp

/-- a band with an infinite edge is rejected by `get_rms` -/
theorem gen_get_rms_nonfinite (f asd : Arr ℝ) (u v : XR ℝ) (hbad : u.isFinite = false ∨ v.isFinite = false) :
    Gen.get_rms false f asd (some (u, v)) = none := by
  unfold Gen.get_rms
  rcases hbad with h | h <;> simp [h]

/-- **translated `get_rms` = `Model.integralRms` on the sorted band** (hypotheses: the inputs `integral_rms` rejects) -/
theorem gen_get_rms_eq_model (f asd : Arr ℝ) (h : f.n = asd.n) (hn : f.n ≠ 0) (band : Option (ℝ × ℝ)) :
    Gen.get_rms false f asd (band.map finBand)
      = Model.integralRms (toPts f asd) (band.map (fun b => (min b.1 b.2, max b.1 b.2))) := by
  cases band with
  | none => rw [Option.map_none, gen_get_rms_none]; exact gen_integral_rms_eq_model f asd h hn none
  | some b =>
    rw [Option.map_some, finBand, gen_get_rms_eq_integral_rms]
    exact gen_integral_rms_eq_model f asd h hn (some (min b.1 b.2, max b.1 b.2))

/-! ## transfer: the property theorems of Lemmas/Rms, restated for the TRANSLATED `integral_rms` -/

/-- squared band RMS of the translated function (0 where it raises) -/
noncomputable def grms2 (f y : Arr ℝ) (a b : ℝ) : ℝ := ((Gen.integral_rms f y (some (XR.fin a, XR.fin b))).getD 0) ^ 2

theorem grms2_eq_rms2 (f y : Arr ℝ) (h : f.n = y.n) (hn : f.n ≠ 0) (a b : ℝ) : grms2 f y a b = rms2 (toPts f y) a b := by
  unfold grms2 rms2
  rw [integral_rms_fin f y h hn]

/-- a strictly increasing frequency grid -/
def SortedGrid (f y : Arr ℝ) : Prop := ((toPts f y).map Prod.fst).Pairwise (· < ·)

/-- C19-b for the translated code: the squared RMS is the trapezoid sum of `asd²` over the grid points inside the band -/
theorem gen_integralRms_spec (f y : Arr ℝ) (h : f.n = y.n) (hn : f.n ≠ 0) (hs : SortedGrid f y) (a b : ℝ) (hab : a ≤ b) :
    grms2 f y a b
      = Model.trapz (((toPts f y).filter (fun p => decide (a ≤ p.1) && decide (p.1 ≤ b))).map (fun p => (p.1, p.2 * p.2))) := by
  rw [grms2_eq_rms2 f y h hn]
  exact integralRms_spec _ (toPts_ne_nil f y hn) hs a b hab

/-- C19-b, `pass_band=None`: the whole grid -/
theorem gen_integralRms_none (f y : Arr ℝ) (h : f.n = y.n) (hn : f.n ≠ 0) (hs : SortedGrid f y) :
    ((Gen.integral_rms f y none).getD 0) ^ 2 = Model.trapz ((toPts f y).map (fun p => (p.1, p.2 * p.2))) := by
  have := gen_integral_rms_eq_model f y h hn none
  rw [Option.map_none] at this
  rw [this]
  exact integralRms_none _ (toPts_ne_nil f y hn) hs

/-- C19-c for the translated code: monotone under band nesting -/
theorem gen_rms_monotone (f y : Arr ℝ) (h : f.n = y.n) (hn : f.n ≠ 0) (hs : SortedGrid f y)
    (a b a' b' : ℝ) (hab : a ≤ b) (h1 : a' ≤ a) (h2 : b ≤ b') : grms2 f y a b ≤ grms2 f y a' b' := by
  rw [grms2_eq_rms2 f y h hn, grms2_eq_rms2 f y h hn]
  exact rms_monotone _ (toPts_ne_nil f y hn) hs a b a' b' hab h1 h2

/-- C19-d for the translated code: power adds exactly when the split point is a grid frequency -/
theorem gen_rms_additive_at_grid (f y : Arr ℝ) (h : f.n = y.n) (hn : f.n ≠ 0) (hs : SortedGrid f y)
    (a m b : ℝ) (ham : a ≤ m) (hmb : m ≤ b) (hm : m ∈ (toPts f y).map Prod.fst) :
    grms2 f y a b = grms2 f y a m + grms2 f y m b := by
  rw [grms2_eq_rms2 f y h hn, grms2_eq_rms2 f y h hn, grms2_eq_rms2 f y h hn]
  exact rms_additive_at_grid _ (toPts_ne_nil f y hn) hs a m b ham hmb hm

/-- C19-d for the translated code: super-additive for any split point -/
theorem gen_rms_superadditive (f y : Arr ℝ) (h : f.n = y.n) (hn : f.n ≠ 0) (hs : SortedGrid f y)
    (a m b : ℝ) (ham : a ≤ m) (hmb : m ≤ b) : grms2 f y a m + grms2 f y m b ≤ grms2 f y a b := by
  rw [grms2_eq_rms2 f y h hn, grms2_eq_rms2 f y h hn, grms2_eq_rms2 f y h hn]
  exact rms_superadditive _ (toPts_ne_nil f y hn) hs a m b ham hmb

/-- the hypotheses of the transfer theorems are satisfiable: grid 1, 2, 4 with amplitudes 1, 3, 2, split at the grid point 2 -/
example : ∃ (f y : Arr ℝ) (a m b : ℝ), f.n = y.n ∧ f.n ≠ 0 ∧ SortedGrid f y ∧ a ≤ m ∧ m ≤ b ∧ m ∈ (toPts f y).map Prod.fst :=
  ⟨ofList [1, 2, 4], ofList [1, 3, 2], 1, 2, 4, rfl, by simp [ofList],
    by simp [SortedGrid, toPts, ofList, List.range_succ]; norm_num, by norm_num, by norm_num,
    by simp [toPts, ofList, List.range_succ]⟩

/-- a single grid point gives 0 whatever the band (the `>=` of the empty-range test) -/
theorem gen_integral_rms_one_point (f y : Arr ℝ) (h : f.n = y.n) (h1 : f.n = 1) (a b : ℝ) (hab : a ≤ b) :
    Gen.integral_rms f y (some (XR.fin a, XR.fin b)) = some 0 := by
  have hn : f.n ≠ 0 := by omega
  rw [integral_rms_fin f y h hn, RmsAux.integralRms_some_eq _ _ _ hab]
  have hp : toPts f y = [(f.get 0, y.get 0)] := by simp [toPts, h1, List.range_succ]
  have hmn : RmsAux.fmn (toPts f y) = f.get 0 := by rw [hp]; rfl
  have hmx : RmsAux.fmx (toPts f y) = f.get 0 := by rw [hp]; rfl
  rw [hmn, hmx]
  unfold RmsAux.goR
  congr 1
  rw [if_pos]
  split_ifs <;> linarith

/-! ## `polynomial_detrend` -/

namespace RmsGen

theorem toList_length {β : Type} (a : Arr β) : (toList a).length = a.n := by simp [toList]

theorem sumRange_eq_list_sum (n : ℕ) (g : ℕ → ℝ) : sumRange n g = ((List.range n).map g).sum := by
  rw [sumRange_eq_sum]
  induction n with
  | zero => simp
  | succ k ih => rw [Finset.sum_range_succ, ih, List.range_succ, List.map_append, List.sum_append]; simp

/-- `np.arange(n)` -/
def arange (n : ℕ) : Arr Int := ⟨n, fun i => (i : Int)⟩

/-- the residual `x - polyval(c, t)` on `t = 0 … len(x)-1` for a coefficient vector `c` -/
noncomputable def residC (c : Arr ℝ) (x : Arr ℝ) : ℕ → ℝ :=
  fun i => x.get i - (polyval c (arange x.n)).get i

/-- the type of the contract parameter that stands for `np.polyfit(t, x, deg=…)` (`none` = it raises) -/
abbrev Polyfit := Arr Int → Arr ℝ → Int → Option (Arr ℝ)

end RmsGen

/-- **order 0: translated `polynomial_detrend` = `Model.detrend0`** (`x - np.mean(x)`); hypothesis = the input the code rejects (empty) -/
theorem gen_detrend0_eq_model (polyfit : Polyfit) (x : Arr ℝ) (hn : x.n ≠ 0) :
    (Gen.polynomial_detrend polyfit x 0).map toList = some (Model.detrend0 (toList x)) := by
  unfold Gen.polynomial_detrend
  have h2 : decide (x.n = 0) = false := by simpa using hn
  simp only [h2, Bool.false_eq_true, if_false, lt_self_iff_false, decide_false, decide_true, if_true, memo_eq, Option.map_some]
  rw [RmsAux.detrend0_eq, toList_length]
  unfold toList Arr.mean
  simp only [List.map_map, RL.ofNat_eq, sumRange_eq_list_sum]
  rfl

example : ∃ x : Arr ℝ, x.n ≠ 0 ∧ toList x = [1, 2, 6] := ⟨ofList [1, 2, 6], by simp [ofList], by simp [toList, ofList, List.range_succ]⟩

/-- empty input and negative orders raise -/
theorem gen_detrend_rejects (polyfit : Polyfit) (x : Arr ℝ) (order : ℤ) (hbad : x.n = 0 ∨ order < 0) :
    Gen.polynomial_detrend polyfit x order = none := by
  unfold Gen.polynomial_detrend
  by_cases hn : x.n = 0
  · simp [hn]
  · have ho : order < 0 := by tauto
    simp [hn, ho]

/-- **order ≥ 1: the structure of the translated code**: `x - polyval(polyfit(arange(len x), x, deg), arange(len x))` with
    `deg = order`, or `len(x) - 1` for a short series (`len(x) < order + 1`); `polyfit` is the contract parameter, and the call
    raises exactly when `polyfit` does -/
theorem gen_detrend_poly_structure (polyfit : Polyfit) (x : Arr ℝ) (hn : x.n ≠ 0) (order : ℤ) (ho : 1 ≤ order) :
    Gen.polynomial_detrend polyfit x order
      = (polyfit (arange x.n) x (min order ((x.n : ℤ) - 1))).map (fun c => (⟨x.n, residC c x⟩ : Arr ℝ)) := by
  unfold Gen.polynomial_detrend
  have h2 : decide (x.n = 0) = false := by simpa using hn
  have h3 : decide (order < 0) = false := by simp; omega
  have h4 : decide (order = 0) = false := by simp; omega
  simp only [h2, h3, h4, Bool.false_eq_true, if_false, memo_eq]
  by_cases hs : (x.n : ℤ) < order + 1
  · have hm : min order ((x.n : ℤ) - 1) = (x.n : ℤ) - 1 := min_eq_right (by omega)
    simp only [hs, decide_true, if_true, hm]
    rw [show (⟨x.n, fun i_ => ((i_ : ℕ) : ℤ)⟩ : Arr ℤ) = arange x.n from rfl]
    cases polyfit (arange x.n) x ((x.n : ℤ) - 1) <;> rfl
  · have hm : min order ((x.n : ℤ) - 1) = order := min_eq_left (by omega)
    simp only [hs, decide_false, Bool.false_eq_true, if_false, hm]
    rw [show (⟨x.n, fun i_ => ((i_ : ℕ) : ℤ)⟩ : Arr ℤ) = arange x.n from rfl]
    cases polyfit (arange x.n) x order <;> rfl

example : ∃ (x : Arr ℝ) (order : ℤ), x.n ≠ 0 ∧ 1 ≤ order ∧ (x.n : ℤ) < order + 1 := ⟨ofList [1, 2, 6], 5, by simp [ofList], by norm_num, by simp [ofList]⟩

/-- transfer of `detrend0_sum_zero`: the order-0 output of the translated code sums to zero -/
theorem gen_detrend0_sum_zero (polyfit : Polyfit) (x : Arr ℝ) (hn : x.n ≠ 0) :
    ∀ r, Gen.polynomial_detrend polyfit x 0 = some r → (toList r).sum = 0 := by
  intro r hr
  have h := gen_detrend0_eq_model polyfit x hn
  rw [hr, Option.map_some, Option.some.injEq] at h
  rw [h]
  exact detrend0_sum_zero _ (by intro hnil; have := congrArg List.length hnil; simp [toList] at this; exact hn this)

/-- transfer of `detrend0_idem`: detrending the order-0 output again changes nothing -/
theorem gen_detrend0_idem (polyfit : Polyfit) (x : Arr ℝ) (hn : x.n ≠ 0) :
    ∀ r, Gen.polynomial_detrend polyfit x 0 = some r →
      (Gen.polynomial_detrend polyfit r 0).map toList = some (toList r) := by
  intro r hr
  have h := gen_detrend0_eq_model polyfit x hn
  rw [hr, Option.map_some, Option.some.injEq] at h
  have hne : toList x ≠ [] := by intro hnil; have := congrArg List.length hnil; simp [toList] at this; exact hn this
  have hrn : r.n ≠ 0 := by
    have := congrArg List.length h
    rw [toList_length, RmsAux.detrend0_eq, List.length_map, toList_length] at this
    omega
  rw [gen_detrend0_eq_model polyfit r hrn, h, detrend0_idem _ hne]

/-- transfer of `detrend0_const`: a constant series detrends to zeros -/
theorem gen_detrend0_const (polyfit : Polyfit) (c : ℝ) (n : ℕ) (hn : 0 < n) :
    (Gen.polynomial_detrend polyfit ⟨n, fun _ => c⟩ 0).map toList = some (List.replicate n 0) := by
  rw [gen_detrend0_eq_model polyfit ⟨n, fun _ => c⟩ (by simpa using hn.ne')]
  have : toList (⟨n, fun _ => c⟩ : Arr ℝ) = List.replicate n c := by
    simp [toList, List.map_const']
  rw [this, detrend0_const c n hn]

/-! ### orders ≥ 1: what follows from the `np.polyfit` contract -/

namespace RmsGen
open Finset

/-- Horner's rule evaluates the polynomial with coefficients `c` (highest power first) -/
theorem horner_eq (c : ℕ → ℝ) (τ : ℝ) : ∀ n : ℕ,
    forRange n (0 : ℝ) (fun k y => y * τ + c k) = ∑ j ∈ range n, c j * τ ^ (n - 1 - j)
  | 0 => by simp [forRange_zero]
  | n + 1 => by
    rw [forRange_succ, horner_eq c τ n, sum_range_succ, sum_mul]
    congr 1
    · refine sum_congr rfl (fun j hj => ?_)
      have hj' := mem_range.mp hj
      have : n + 1 - 1 - j = (n - 1 - j) + 1 := by omega
      rw [this, pow_succ]; ring
    · simp

/-- `np.polyval(c, t)[i] = Σ_k c[k] · t[i]^(len(c)-1-k)` -/
theorem polyval_get (c : Arr ℝ) (t : Arr Int) (i : ℕ) :
    (polyval c t).get i = ∑ k ∈ range c.n, c.get k * ((t.get i : ℤ) : ℝ) ^ (c.n - 1 - k) := by
  unfold polyval
  rw [memo_eq]
  simp only [RL.ofNat_eq, RL.ofInt_eq, Nat.cast_zero]
  exact horner_eq c.get _ c.n

/-- a vector that IS a polynomial of degree ≤ d on the grid `0 … n-1` and is ORTHOGONAL to `1, t, …, t^d` vanishes on the grid -/
theorem poly_orth_zero (v : ℕ → ℝ) (n d : ℕ) (b : ℕ → ℝ)
    (hv : ∀ i < n, v i = ∑ k ∈ range (d + 1), b k * (i : ℝ) ^ k)
    (ho : ∀ k ≤ d, ∑ i ∈ range n, v i * (i : ℝ) ^ k = 0) : ∀ i < n, v i = 0 := by
  have hsq : ∑ i ∈ range n, v i * v i = 0 := by
    have h1 : ∑ i ∈ range n, v i * v i = ∑ i ∈ range n, ∑ k ∈ range (d + 1), b k * (v i * (i : ℝ) ^ k) := by
      refine sum_congr rfl (fun i hi => ?_)
      conv_lhs => rw [hv i (mem_range.mp hi), mul_sum]
      refine sum_congr rfl (fun k _ => ?_)
      rw [hv i (mem_range.mp hi)]; ring
    rw [h1, sum_comm]
    refine sum_eq_zero (fun k hk => ?_)
    rw [← mul_sum, ho k (Nat.lt_succ_iff.mp (mem_range.mp hk)), mul_zero]
  intro i hi
  have := (sum_eq_zero_iff_of_nonneg (fun j _ => mul_self_nonneg (v j))).mp hsq i (mem_range.mpr hi)
  exact mul_self_eq_zero.mp this

/-- **CONTRACT of `np.polyfit`** on the abscissae `t = 0 … n-1` for a degree `deg < n` (the only calls the translated code makes,
    thanks to the short-series rule): it does not raise, returns `deg + 1` coefficients, and the fitted polynomial satisfies the
    normal equations of the least-squares problem, i.e. the residual is orthogonal to `1, t, …, t^deg`. -/
def PolyfitLS (polyfit : Polyfit) : Prop :=
  ∀ (x : Arr ℝ) (deg : ℕ), deg < x.n →
    ∃ c : Arr ℝ, polyfit (arange x.n) x (deg : ℤ) = some c ∧ c.n = deg + 1 ∧
      ∀ k ≤ deg, ∑ i ∈ range x.n, residC c x i * (i : ℝ) ^ k = 0

/-- with `deg + 1` coefficients the removed trend is a polynomial of degree ≤ deg (coefficients low power first) -/
theorem trend_poly_of_len (c x : Arr ℝ) (deg : ℕ) (hlen : c.n = deg + 1) (i : ℕ) :
    x.get i - residC c x i = ∑ k ∈ range (deg + 1), c.get (deg - k) * (i : ℝ) ^ k := by
  unfold residC
  rw [sub_sub_cancel, polyval_get, hlen]
  simp only [arange, Int.cast_natCast, Nat.add_sub_cancel]
  rw [← sum_range_reflect]
  refine sum_congr rfl (fun k hk => ?_)
  have hk' := mem_range.mp hk
  have h1 : deg + 1 - 1 - k = deg - k := by omega
  have h2 : deg - (deg - k) = k := by omega
  rw [h1, h2]

/-- the normal equations of a least-squares polynomial fit on the grid `0 … n-1` always have a solution (orthogonal projection
    onto the span of the monomial vectors in `EuclideanSpace ℝ (Fin n)`) -/
theorem ls_exists (n d : ℕ) (x : ℕ → ℝ) :
    ∃ c : ℕ → ℝ, ∀ m ≤ d, ∑ i ∈ range n, (x i - ∑ k ∈ range (d + 1), c k * (i : ℝ) ^ k) * (i : ℝ) ^ m = 0 := by
  let v : Fin (d + 1) → EuclideanSpace ℝ (Fin n) := fun k => WithLp.toLp 2 (fun i : Fin n => ((i : ℕ) : ℝ) ^ (k : ℕ))
  let K : Submodule ℝ (EuclideanSpace ℝ (Fin n)) := Submodule.span ℝ (Set.range v)
  have : CompleteSpace K := FiniteDimensional.complete ℝ K
  let xe : EuclideanSpace ℝ (Fin n) := WithLp.toLp 2 (fun i : Fin n => x i)
  have hmem : K.starProjection xe ∈ K := K.starProjection_apply_mem xe
  obtain ⟨c, hc⟩ := (Submodule.mem_span_range_iff_exists_fun ℝ).mp hmem
  let c' : ℕ → ℝ := fun k => if h : k < d + 1 then c ⟨k, h⟩ else 0
  refine ⟨c', fun m hm => ?_⟩
  have horth : inner ℝ (xe - K.starProjection xe) (v ⟨m, Nat.lt_succ_of_le hm⟩) = 0 :=
    K.starProjection_inner_eq_zero xe _ (Submodule.subset_span ⟨_, rfl⟩)
  rw [← hc, PiLp.inner_apply] at horth
  have key : ∀ i : Fin n, (xe - ∑ k, c k • v k).ofLp i = x i - ∑ k ∈ range (d + 1), c' k * ((i : ℕ) : ℝ) ^ k := by
    intro i
    rw [← Fin.sum_univ_eq_sum_range (fun k => c' k * ((i : ℕ) : ℝ) ^ k) (d + 1)]
    simp only [xe, v, c', WithLp.ofLp_sub, WithLp.ofLp_sum, WithLp.ofLp_smul, Pi.sub_apply, Finset.sum_apply, Pi.smul_apply,
      smul_eq_mul, Fin.is_lt, dite_true, Fin.eta]
  rw [← Fin.sum_univ_eq_sum_range (fun i => (x i - ∑ k ∈ range (d + 1), c' k * (i : ℝ) ^ k) * (i : ℝ) ^ m) n]
  rw [← horth]
  refine Finset.sum_congr rfl (fun i _ => ?_)
  rw [key i]
  simp only [v, RCLike.inner_apply, conj_trivial]
  ring

/-- a `polyfit` that satisfies the contract (so the contract is consistent): coefficients chosen by `ls_exists`, highest power first -/
noncomputable def lsPolyfit : Polyfit := fun _ x deg =>
  some ⟨deg.toNat + 1, fun k => Classical.choose (ls_exists x.n deg.toNat x.get) (deg.toNat - k)⟩

theorem lsPolyfit_contract : PolyfitLS lsPolyfit := by
  intro x deg hd
  refine ⟨_, rfl, by simp, fun k hk => ?_⟩
  set c : Arr ℝ := ⟨(deg : ℤ).toNat + 1, fun k => Classical.choose (ls_exists x.n (deg : ℤ).toNat x.get) ((deg : ℤ).toNat - k)⟩ with hc
  have hlen : c.n = deg + 1 := by simp [hc]
  have spec := Classical.choose_spec (ls_exists x.n deg x.get) k hk
  rw [← spec]
  refine sum_congr rfl (fun i _ => ?_)
  congr 1
  have h := trend_poly_of_len c x deg hlen i
  have h2 : ∑ k ∈ range (deg + 1), c.get (deg - k) * (i : ℝ) ^ k
      = ∑ k ∈ range (deg + 1), Classical.choose (ls_exists x.n deg x.get) k * (i : ℝ) ^ k := by
    refine sum_congr rfl (fun k hk => ?_)
    have hk' := mem_range.mp hk
    have : deg - (deg - k) = k := by omega
    simp [hc, this]
  rw [h2] at h
  linarith

/-- the degree the translated code requests -/
def effDeg (n : ℕ) (order : ℤ) : ℕ := (min order ((n : ℤ) - 1)).toNat

theorem effDeg_cast (n : ℕ) (hn : n ≠ 0) (order : ℤ) (ho : 1 ≤ order) : ((effDeg n order : ℕ) : ℤ) = min order ((n : ℤ) - 1) := by
  unfold effDeg
  exact Int.toNat_of_nonneg (le_min (by omega) (by omega))

theorem effDeg_lt (n : ℕ) (hn : n ≠ 0) (order : ℤ) (ho : 1 ≤ order) : effDeg n order < n := by
  have := effDeg_cast n hn order ho
  have h2 : min order ((n : ℤ) - 1) ≤ (n : ℤ) - 1 := min_le_right _ _
  omega

/-- under the contract the translated `polynomial_detrend(x, order)`, `order ≥ 1`, does not raise; its output is `x - polyval(c, t)`
    for `d + 1` coefficients `c` (`d = min(order, len(x) - 1)`) and is orthogonal to `1, t, …, t^d` -/
theorem detrend_of_contract (polyfit : Polyfit) (hc : PolyfitLS polyfit) (x : Arr ℝ) (hn : x.n ≠ 0) (order : ℤ) (ho : 1 ≤ order) :
    ∃ c : Arr ℝ, Gen.polynomial_detrend polyfit x order = some ⟨x.n, residC c x⟩ ∧ c.n = effDeg x.n order + 1 ∧
      ∀ k ≤ effDeg x.n order, ∑ i ∈ range x.n, residC c x i * (i : ℝ) ^ k = 0 := by
  obtain ⟨c, hfit, hlen, horth⟩ := hc x (effDeg x.n order) (effDeg_lt x.n hn order ho)
  refine ⟨c, ?_, hlen, horth⟩
  rw [gen_detrend_poly_structure polyfit x hn order ho, ← effDeg_cast x.n hn order ho, hfit]
  rfl

end RmsGen

open RmsGen Finset

/-- **C19-a (orthogonality) for the translated code under the polyfit contract**: the output of `polynomial_detrend(x, order)`,
    `order ≥ 1`, has the length of `x` and is orthogonal to `1, t, …, t^d`, `d = min(order, len(x)-1)` -/
theorem gen_detrend_orthogonal (polyfit : Polyfit) (hc : PolyfitLS polyfit) (x : Arr ℝ) (hn : x.n ≠ 0)
    (order : ℤ) (ho : 1 ≤ order) :
    ∃ r, Gen.polynomial_detrend polyfit x order = some r ∧ r.n = x.n ∧
      ∀ k ≤ effDeg x.n order, ∑ i ∈ range x.n, r.get i * (i : ℝ) ^ k = 0 := by
  obtain ⟨c, hgen, _, horth⟩ := detrend_of_contract polyfit hc x hn order ho
  exact ⟨_, hgen, rfl, horth⟩

/-- **C19-a (polynomials are removed)**: a series that is a polynomial of degree ≤ `min(order, len-1)` on the grid detrends to zero -/
theorem gen_detrend_kills_poly (polyfit : Polyfit) (hc : PolyfitLS polyfit) (x : Arr ℝ) (hn : x.n ≠ 0)
    (order : ℤ) (ho : 1 ≤ order) (a : ℕ → ℝ)
    (hx : ∀ i < x.n, x.get i = ∑ k ∈ range (effDeg x.n order + 1), a k * (i : ℝ) ^ k) :
    ∃ r, Gen.polynomial_detrend polyfit x order = some r ∧ ∀ i < x.n, r.get i = 0 := by
  obtain ⟨c, hgen, hlen, horth⟩ := detrend_of_contract polyfit hc x hn order ho
  refine ⟨_, hgen, ?_⟩
  refine poly_orth_zero _ x.n (effDeg x.n order) (fun k => a k - c.get (effDeg x.n order - k)) (fun i hi => ?_) horth
  have h1 := trend_poly_of_len c x _ hlen i
  have h2 := hx i hi
  simp only [sub_mul, sum_sub_distrib]
  linarith

/-- **C19-a (short series)**: with `len(x) < order + 1` the fallback degree `len(x) - 1` interpolates every sample: the output is zero -/
theorem gen_detrend_short_zero (polyfit : Polyfit) (hc : PolyfitLS polyfit) (x : Arr ℝ) (hn : x.n ≠ 0)
    (order : ℤ) (ho : 1 ≤ order) (hshort : (x.n : ℤ) < order + 1) :
    ∃ r, Gen.polynomial_detrend polyfit x order = some r ∧ ∀ i < x.n, r.get i = 0 := by
  obtain ⟨c, hgen, hlen, horth⟩ := detrend_of_contract polyfit hc x hn order ho
  refine ⟨_, hgen, ?_⟩
  have hdeg : effDeg x.n order = x.n - 1 := by
    have := effDeg_cast x.n hn order ho
    rw [min_eq_right (by omega)] at this
    omega
  set r := residC c x with hr
  -- every polynomial of degree ≤ n-1 is orthogonal to r; take the Lagrange basis polynomial of the node j
  intro j hj
  have hinj : Set.InjOn (fun i : ℕ => (i : ℝ)) (range x.n : Set ℕ) := fun _ _ _ _ h => Nat.cast_injective h
  let L := Lagrange.basis (range x.n) (fun i : ℕ => (i : ℝ)) j
  have hLdeg : L.natDegree ≤ effDeg x.n order := by
    have := Lagrange.degree_basis (s := range x.n) (v := fun i : ℕ => (i : ℝ)) hinj (mem_range.mpr hj)
    have h2 : L.natDegree = (range x.n).card - 1 := Polynomial.natDegree_eq_of_degree_eq_some this
    rw [h2, card_range, hdeg]
  have hsum : ∑ i ∈ range x.n, r i * L.eval (i : ℝ) = 0 := by
    have : ∀ i, L.eval (i : ℝ) = ∑ k ∈ range (effDeg x.n order + 1), L.coeff k * (i : ℝ) ^ k := by
      intro i
      rw [Polynomial.eval_eq_sum_range' (Nat.lt_succ_of_le hLdeg)]
    simp only [this, mul_sum]
    rw [sum_comm]
    refine sum_eq_zero (fun k hk => ?_)
    have := horth k (Nat.lt_succ_iff.mp (mem_range.mp hk))
    calc ∑ i ∈ range x.n, r i * (L.coeff k * (i : ℝ) ^ k)
        = L.coeff k * ∑ i ∈ range x.n, r i * (i : ℝ) ^ k := by rw [mul_sum]; exact sum_congr rfl (fun i _ => by ring)
      _ = 0 := by rw [this, mul_zero]
  have hsingle : ∑ i ∈ range x.n, r i * L.eval (i : ℝ) = r j := by
    rw [sum_eq_single j]
    · rw [Lagrange.eval_basis_self hinj (mem_range.mpr hj), mul_one]
    · intro i hi hij
      rw [Lagrange.eval_basis_of_ne hij.symm hi, mul_zero]
    · intro h; exact absurd (mem_range.mpr hj) h
  show r j = 0
  rw [← hsingle, hsum]

/-- **C19-a (idempotence)**: detrending the output again (same order) changes nothing -/
theorem gen_detrend_idempotent (polyfit : Polyfit) (hc : PolyfitLS polyfit) (x : Arr ℝ) (hn : x.n ≠ 0)
    (order : ℤ) (ho : 1 ≤ order) :
    ∃ r r', Gen.polynomial_detrend polyfit x order = some r ∧ Gen.polynomial_detrend polyfit r order = some r' ∧
      r'.n = r.n ∧ ∀ i < x.n, r'.get i = r.get i := by
  obtain ⟨c, hgen, hlen, horth⟩ := detrend_of_contract polyfit hc x hn order ho
  set r : Arr ℝ := ⟨x.n, residC c x⟩ with hr
  have hrn : r.n ≠ 0 := hn
  obtain ⟨c', hgen', hlen', horth'⟩ := detrend_of_contract polyfit hc r hrn order ho
  refine ⟨r, _, hgen, hgen', rfl, ?_⟩
  have hz := poly_orth_zero (fun i => r.get i - residC c' r i) x.n (effDeg x.n order) (fun k => c'.get (effDeg x.n order - k))
    (fun i _ => trend_poly_of_len c' r _ hlen' i) (fun k hk => by
      have e1 : ∑ i ∈ range x.n, r.get i * (i : ℝ) ^ k = 0 := horth k hk
      have e2 : ∑ i ∈ range x.n, residC c' r i * (i : ℝ) ^ k = 0 := horth' k hk
      simp only [sub_mul, sum_sub_distrib]
      rw [e1, e2, sub_zero])
  intro i hi
  have := hz i hi
  show residC c' r i = r.get i
  linarith

/-- **relation to the projection theorems of Lemmas/Detrend** (`Model.detr`, about ANY orthonormal basis `Q` of the polynomial space):
    if the columns of `Q` are orthonormal on the grid, are polynomials of degree ≤ p and span `1, t, …, t^p`, then for `p < len(x)`
    the translated `polynomial_detrend(x, p)` under the polyfit contract IS `Model.detr p Q x`: `detr_poly_*` are theorems about it. -/
theorem gen_detrend_eq_detr (polyfit : Polyfit) (hc : PolyfitLS polyfit) (x : Arr ℝ) (p : ℕ) (hp : 1 ≤ p)
    (hpn : p < x.n) (Q : ℕ → ℕ → ℝ) (hQ : OrthoCols Q x.n (p + 1))
    (hQpoly : ∀ k < p + 1, ∃ a : ℕ → ℝ, ∀ i < x.n, Q i k = ∑ j ∈ range (p + 1), a j * (i : ℝ) ^ j)
    (hmono : ∀ j ≤ p, InSpan Q x.n (p + 1) (fun i => (i : ℝ) ^ j)) :
    ∃ r, Gen.polynomial_detrend polyfit x (p : ℤ) = some r ∧ ∀ i < x.n, r.get i = Model.detr (p : ℤ) Q x.get 0 x.n i := by
  have hn : x.n ≠ 0 := by omega
  have ho : (1 : ℤ) ≤ (p : ℤ) := by exact_mod_cast hp
  obtain ⟨c, hgen, hlen, horth⟩ := detrend_of_contract polyfit hc x hn (p : ℤ) ho
  have hd : effDeg x.n (p : ℤ) = p := by
    have := effDeg_cast x.n hn (p : ℤ) ho
    rw [min_eq_left (by omega)] at this
    exact_mod_cast this
  rw [hd] at hlen horth
  refine ⟨_, hgen, ?_⟩
  choose a ha using hQpoly
  -- the difference of the two residuals is a polynomial of degree ≤ p …
  let cQ : ℕ → ℝ := fun k => ∑ m ∈ range x.n, Q m k * x.get (0 + m)
  let B : ℕ → ℝ := fun j => ∑ k ∈ range (p + 1), cQ k * (if h : k < p + 1 then a k h j else 0)
  have hdetr : ∀ i < x.n, x.get i - Model.detr (p : ℤ) Q x.get 0 x.n i = ∑ j ∈ range (p + 1), B j * (i : ℝ) ^ j := by
    intro i hi
    rw [detr_poly_eq p hp]
    simp only [Nat.zero_add, sub_sub_cancel]
    have : ∀ k ∈ range (p + 1), Q i k * ∑ m ∈ range x.n, Q m k * x.get m
        = ∑ j ∈ range (p + 1), (cQ k * (if h : k < p + 1 then a k h j else 0)) * (i : ℝ) ^ j := by
      intro k hk
      have hk' := mem_range.mp hk
      rw [ha k hk' i hi, sum_mul]
      refine sum_congr rfl (fun j _ => ?_)
      simp only [hk', dite_true, cQ, Nat.zero_add]
      ring
    rw [sum_congr rfl this, sum_comm]
    refine sum_congr rfl (fun j _ => ?_)
    simp only [B, sum_mul]
  have hz := poly_orth_zero (fun i => residC c x i - Model.detr (p : ℤ) Q x.get 0 x.n i) x.n p (fun j => B j - c.get (p - j))
    (fun i hi => by
      have e1 := trend_poly_of_len c x p hlen i
      have e2 := hdetr i hi
      simp only [sub_mul, sum_sub_distrib]
      linarith)
    (fun k hk => by
      -- … and is orthogonal to every monomial of degree ≤ p
      have e1 := horth k hk
      have e2 := detr_poly_orthogonal_span p hp Q x.n hQ x.get 0 (fun i => (i : ℝ) ^ k) (hmono k hk)
      simp only [sub_mul, sum_sub_distrib]
      rw [e1, zero_sub, neg_eq_zero, ← e2]
      exact sum_congr rfl (fun i _ => by ring))
  intro i hi
  have := hz i hi
  show residC c x i = _
  linarith

/-- the polyfit contract is satisfiable, and so are the other hypotheses of the theorems above -/
example : ∃ (polyfit : Polyfit) (x : Arr ℝ) (order : ℤ),
    PolyfitLS polyfit ∧ x.n ≠ 0 ∧ 1 ≤ order ∧ ¬ ((x.n : ℤ) < order + 1) :=
  ⟨lsPolyfit, ofList [1, 2, 6, 3], 2, lsPolyfit_contract, by simp [ofList], by norm_num, by simp [ofList]⟩

/-- the hypotheses on `Q` in `gen_detrend_eq_detr` are satisfiable: two points, order 1, `Q` the identity (columns `1 - t` and `t`) -/
example : ∃ (x : Arr ℝ) (p : ℕ) (Q : ℕ → ℕ → ℝ), 1 ≤ p ∧ p < x.n ∧ OrthoCols Q x.n (p + 1) ∧
    (∀ k < p + 1, ∃ a : ℕ → ℝ, ∀ i < x.n, Q i k = ∑ j ∈ range (p + 1), a j * (i : ℝ) ^ j) ∧
    (∀ j ≤ p, InSpan Q x.n (p + 1) (fun i => (i : ℝ) ^ j)) := by
  refine ⟨ofList [3, 5], 1, fun n k => if n = k then 1 else 0, le_rfl, by simp [ofList], ?_, ?_, ?_⟩
  · show OrthoCols _ 2 2
    apply orthoCols_two <;> norm_num
  · intro k hk
    have hk2 : k = 0 ∨ k = 1 := by omega
    rcases hk2 with rfl | rfl
    · refine ⟨fun j => if j = 0 then 1 else -1, fun i hi => ?_⟩
      have hi2 : i = 0 ∨ i = 1 := by simp [ofList] at hi; omega
      rcases hi2 with rfl | rfl <;> simp [sum_range_succ]
    · refine ⟨fun j => if j = 0 then 0 else 1, fun i hi => ?_⟩
      have hi2 : i = 0 ∨ i = 1 := by simp [ofList] at hi; omega
      rcases hi2 with rfl | rfl <;> simp [sum_range_succ]
  · intro j hj
    have hj2 : j = 0 ∨ j = 1 := by omega
    rcases hj2 with rfl | rfl
    · refine ⟨fun _ => 1, fun i hi => ?_⟩
      have hi2 : i = 0 ∨ i = 1 := by simp [ofList] at hi; omega
      rcases hi2 with rfl | rfl <;> simp [sum_range_succ]
    · refine ⟨fun k => if k = 0 then 0 else 1, fun i hi => ?_⟩
      have hi2 : i = 0 ∨ i = 1 := by simp [ofList] at hi; omega
      rcases hi2 with rfl | rfl <;> simp [sum_range_succ]

/-! ### the hand model on the inputs the code rejects (recorded discrepancy, outside every theorem above) -/

/-- `Model.integralRms [] band = some 0` whereas the real `integral_rms([], [], band)` raises `ValueError("Input arrays must not be empty.")`
    (`gen_integral_rms_rejects`): the hand model is documented "for a non-empty grid"; the equality theorem carries `hn` for this reason. -/
example : Model.integralRms ([] : List (ℝ × ℝ)) none = some 0 := by
  simp [Model.integralRms, Model.listMin, Model.listMax]

#print axioms gen_crop_data_eq_model
#print axioms gen_integral_rms_eq_model
#print axioms gen_integral_rms_eq_model_list
#print axioms gen_integral_rms_rejects
#print axioms gen_integral_rms_inverted
#print axioms gen_integral_rms_inf_inf
#print axioms gen_integral_rms_ninf
#print axioms gen_integral_rms_pinf
#print axioms gen_integral_rms_one_point
#print axioms gen_get_rms_eq_integral_rms
#print axioms gen_get_rms_none
#print axioms gen_get_rms_csd
#print axioms gen_get_rms_nonfinite
#print axioms gen_get_rms_eq_model
#print axioms gen_integralRms_spec
#print axioms gen_integralRms_none
#print axioms gen_rms_monotone
#print axioms gen_rms_additive_at_grid
#print axioms gen_rms_superadditive
#print axioms gen_detrend0_eq_model
#print axioms gen_detrend_rejects
#print axioms gen_detrend_poly_structure
#print axioms gen_detrend0_sum_zero
#print axioms gen_detrend0_idem
#print axioms gen_detrend0_const
#print axioms RmsGen.lsPolyfit_contract
#print axioms gen_detrend_orthogonal
#print axioms gen_detrend_kills_poly
#print axioms gen_detrend_short_zero
#print axioms gen_detrend_idempotent
#print axioms gen_detrend_eq_detr
