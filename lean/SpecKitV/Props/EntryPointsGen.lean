/-
  SpecKitV.Props.EntryPointsGen — the TRANSLATED region `Gen/EntryPoints.lean` (regenerated from speckit/analysis.py and
  speckit/core.py on every run) is the hand specification `Model/EntryPoints.lean`, and the statements of the property text about
  `SpectrumResult.__init__`, the module-level entry points, `_select_backend` and `_check_starts_bounds` are theorems about the
  translated code.  All theorems hold for every numeric class `RealLike α` (in particular `α := ℝ`).
-/
import SpecKitV.RealInst
import SpecKitV.Gen.EntryPoints
import SpecKitV.Model.EntryPoints
import SpecKitV.Model.ResultQueries

namespace EPG
open EP

variable {α : Type}

/-! ### `optMap` / `foldlOpt` -/

theorem optMap_congr {β γ : Type} {f g : β → Option γ} : ∀ {l : List β}, (∀ x ∈ l, f x = g x) → optMap f l = optMap g l
  | [], _ => rfl
  | x :: xs, h => by
    have hx := h x (List.mem_cons_self)
    have ih := optMap_congr (l := xs) (fun y hy => h y (List.mem_cons_of_mem _ hy))
    simp only [optMap, hx, ih]

theorem optMap_id {β : Type} {f : β → Option β} : ∀ {l : List β}, (∀ x ∈ l, f x = some x) → optMap f l = some l
  | [], _ => rfl
  | x :: xs, h => by
    have hx := h x (List.mem_cons_self)
    have ih := optMap_id (l := xs) (fun y hy => h y (List.mem_cons_of_mem _ hy))
    simp only [optMap, hx, ih]

theorem optMap_comp {β γ δ : Type} (f : β → Option γ) (g : γ → Option δ) :
    ∀ l : List β, (optMap f l).bind (optMap g) = optMap (fun x => (f x).bind g) l
  | [] => rfl
  | x :: xs => by
    have ih := optMap_comp f g xs
    simp only [optMap]
    cases hf : f x with
    | none => simp
    | some y =>
      simp only [Option.bind_some]
      cases hxs : optMap f xs with
      | none =>
        rw [hxs] at ih
        simp only [Option.bind_none] at ih
        simp only [Option.bind_none]
        cases g y <;> simp [← ih]
      | some ys =>
        rw [hxs] at ih
        simp only [Option.bind_some] at ih
        simp only [Option.bind_some, optMap, ih]

theorem optMap_length {β γ : Type} {f : β → Option γ} : ∀ {l : List β} {l' : List γ}, optMap f l = some l' → l'.length = l.length
  | [], l', h => by simp [optMap] at h; simp [← h]
  | x :: xs, l', h => by
    simp only [optMap] at h
    cases hf : f x with
    | none => simp [hf] at h
    | some y =>
      cases hxs : optMap f xs with
      | none => simp [hf, hxs] at h
      | some ys =>
        simp [hf, hxs] at h
        simp [← h, optMap_length hxs]

theorem optMap_map_fst {β γ κ : Type} {f : β → Option γ} (kb : β → κ) (kc : γ → κ) (hf : ∀ x y, f x = some y → kc y = kb x) :
    ∀ {l : List β} {l' : List γ}, optMap f l = some l' → l'.map kc = l.map kb
  | [], l', h => by simp [optMap] at h; simp [← h]
  | x :: xs, l', h => by
    simp only [optMap] at h
    cases hfx : f x with
    | none => simp [hfx] at h
    | some y =>
      cases hxs : optMap f xs with
      | none => simp [hfx, hxs] at h
      | some ys =>
        simp [hfx, hxs] at h
        simp [← h, hf x y hfx, optMap_map_fst kb kc hf hxs]

theorem optMap_some_iff_map {β γ : Type} (f : β → Option γ) (g : β → γ) : ∀ (l : List β), (∀ x ∈ l, f x = some (g x)) → optMap f l = some (l.map g)
  | [], _ => rfl
  | x :: xs, h => by
    simp only [optMap, h x List.mem_cons_self, optMap_some_iff_map f g xs (fun y hy => h y (List.mem_cons_of_mem _ hy)), List.map_cons]

/-! ### dictionaries (association lists with distinct keys) -/

def keys (d : Dict α) : List String := d.map Prod.fst

theorem dictGet_of_not_mem {d : Dict α} {k : String} (h : k ∉ keys d) : dictGet d k = none := by
  induction d with
  | nil => rfl
  | cons p rest ih =>
    obtain ⟨k', v⟩ := p
    simp only [keys, List.map_cons, List.mem_cons, not_or] at h
    simp only [dictGet, if_neg (Ne.symm h.1)]
    exact ih h.2

theorem dictGet_mem {d : Dict α} {k : String} {v : Val α} (hk : (keys d).Nodup) (h : (k, v) ∈ d) : dictGet d k = some v := by
  induction d with
  | nil => simp at h
  | cons p rest ih =>
    obtain ⟨k', v'⟩ := p
    simp only [keys, List.map_cons, List.nodup_cons] at hk
    rcases List.mem_cons.mp h with h | h
    · simp only [Prod.mk.injEq] at h
      simp [dictGet, h.1, h.2]
    · have hne : k' ≠ k := by
        intro e
        apply hk.1
        rw [e]
        exact List.mem_map.mpr ⟨(k, v), h, rfl⟩
      simp only [dictGet, if_neg hne]
      exact ih hk.2 h

theorem map_replace_of_not_mem {d : Dict α} {k : String} (v : Val α) (h : k ∉ keys d) :
    d.map (fun p => if p.1 = k then (k, v) else p) = d := by
  induction d with
  | nil => rfl
  | cons p rest ih =>
    simp only [keys, List.map_cons, List.mem_cons, not_or] at h
    simp only [List.map_cons, if_neg (Ne.symm h.1)]
    rw [ih h.2]

/-- the single-key update as an entry-wise map -/
def U (k : String) (c : Val α → Option (Val α)) (kv : String × Val α) : Option (String × Val α) :=
  (if kv.1 = k then c kv.2 else some kv.2).map (fun v => (kv.1, v))

/-- the canonical form of `if name in d: d[name] = conv(d[name])` -/
def updStep (conv : Val α → Option (Val α)) (data : Dict α) (name : String) : Option (Dict α) :=
  if dictHas data name then
    match dictGet data name with
    | none => none
    | some t =>
      match conv t with
      | none => none
      | some t2 => some (dictSet data name t2)
  else some data

theorem U_other {k : String} {c : Val α → Option (Val α)} {kv : String × Val α} (h : kv.1 ≠ k) : U k c kv = some kv := by
  simp [U, h]

theorem updStep_eq_optMap (conv : Val α → Option (Val α)) (name : String) :
    ∀ (d : Dict α), (keys d).Nodup → updStep conv d name = optMap (U name conv) d
  | [], _ => by simp [updStep, dictHas, dictGet, optMap]
  | (k, v) :: rest, hk => by
    simp only [keys, List.map_cons, List.nodup_cons] at hk
    by_cases hkn : k = name
    · subst hkn
      have hid : optMap (U k conv) rest = some rest :=
        optMap_id (fun x hx => U_other (fun e => hk.1 (by rw [← e]; exact List.mem_map.mpr ⟨x, hx, rfl⟩)))
      simp only [updStep, dictHas, dictGet, if_true, Option.isSome_some, optMap, U, hid]
      cases conv v with
      | none => simp
      | some t2 =>
        simp only [Option.map_some, dictSet, dictHas, dictGet, if_true, Option.isSome_some, List.map_cons]
        rw [map_replace_of_not_mem t2 hk.1]
    · have ih := updStep_eq_optMap conv name rest hk.2
      have hU : U name conv (k, v) = some (k, v) := U_other hkn
      simp only [optMap, hU, ← ih]
      cases hg : dictGet rest name with
      | none => simp [updStep, dictHas, dictGet, hkn, hg]
      | some t =>
        cases hc : conv t with
        | none => simp [updStep, dictHas, dictGet, hkn, hg, hc]
        | some t2 => simp [updStep, dictHas, dictGet, dictSet, hkn, hg, hc]

theorem U_keys {k : String} {c : Val α → Option (Val α)} : ∀ x y, U k c x = some y → y.1 = x.1 := by
  intro x y h
  simp only [U] at h
  cases hc : (if x.1 = k then c x.2 else some x.2) with
  | none => simp [hc] at h
  | some v => simp [hc] at h; simp [← h]

theorem keys_of_optMap_U {k : String} {c : Val α → Option (Val α)} {d d' : Dict α} (h : optMap (U k c) d = some d') : keys d' = keys d :=
  optMap_map_fst Prod.fst Prod.fst U_keys h

/-- entry-wise update of the keys in `names` -/
def UN (names : List String) (c : Val α → Option (Val α)) (kv : String × Val α) : Option (String × Val α) :=
  (if kv.1 ∈ names then c kv.2 else some kv.2).map (fun v => (kv.1, v))

theorem UN_keys {ns : List String} {c : Val α → Option (Val α)} : ∀ x y, UN ns c x = some y → y.1 = x.1 := by
  intro x y h
  simp only [UN] at h
  cases hc : (if x.1 ∈ ns then c x.2 else some x.2) with
  | none => simp [hc] at h
  | some v => simp [hc] at h; simp [← h]

/-- a loop `for k in names: if k in d: d[k] = conv(d[k])` over DISTINCT names is the entry-wise map that converts exactly the entries whose
    key is listed -/
theorem foldl_updStep (conv : Val α → Option (Val α)) (step : Dict α → String → Option (Dict α))
    (hstep : ∀ data name, step data name = updStep conv data name) :
    ∀ (names : List String) (d : Dict α), names.Nodup → (keys d).Nodup → foldlOpt step d names = optMap (UN names conv) d
  | [], d, _, _ => by
    simp only [foldlOpt]
    exact (optMap_id (fun x _ => by simp [UN])).symm
  | n :: ns, d, hn, hk => by
    simp only [List.nodup_cons] at hn
    simp only [foldlOpt, hstep, updStep_eq_optMap conv n d hk]
    have hcomp : optMap (UN (n :: ns) conv) d = (optMap (U n conv) d).bind (optMap (UN ns conv)) := by
      rw [optMap_comp]
      apply optMap_congr
      intro x _
      by_cases hx : x.1 = n
      · have hx' : x.1 ∉ ns := by rw [hx]; exact hn.1
        simp only [UN, U, hx, List.mem_cons, true_or, if_true]
        cases conv x.2 with
        | none => simp
        | some t => simp [UN, hn.1]
      · simp [UN, U, hx]
    rw [hcomp]
    cases h1 : optMap (U n conv) d with
    | none => simp
    | some d1 =>
      have hk1 : (keys d1).Nodup := by rw [keys_of_optMap_U h1]; exact hk
      simp only [Option.bind_some]
      exact foldl_updStep conv step hstep ns d1 hn.2 hk1

theorem foldl_updStep' (conv : Val α → Option (Val α)) (step : Dict α → String → Option (Dict α)) (names : List String) (d : Dict α)
    (hstep : ∀ data name, step data name = updStep conv data name) (hn : names.Nodup) (hk : (keys d).Nodup) :
    foldlOpt step d names = optMap (UN names conv) d := foldl_updStep conv step hstep names d hn hk

/-! ### the element-by-element fill of a pre-allocated 1-D object array -/

theorem set_append_mid {β : Type} (done : List β) (a t : β) (l : List β) : (done ++ a :: l).set done.length t = done ++ t :: l := by
  induction done with
  | nil => simp
  | cons x xs ih => simp [ih]

theorem fill_aux (f : Item α → Option (Item α)) (step : Val α → Nat × Item α → Option (Val α))
    (hstep : ∀ arr it, step arr it = match f it.2 with
                                      | none => none
                                      | some t => objSet arr it.1 t) :
    ∀ (rest done : List (Item α)),
      foldlOpt step (.objvec (done ++ List.replicate rest.length Item.none)) (enumFrom done.length rest)
        = (optMap f rest).map (fun ys => Val.objvec (done ++ ys))
  | [], done => by simp [foldlOpt, enumFrom, optMap]
  | x :: rest, done => by
    simp only [enumFrom, foldlOpt, hstep, optMap, List.length_cons, List.replicate_succ]
    cases hf : f x with
    | none => simp
    | some t =>
      have hlt : done.length < (done ++ Item.none :: List.replicate rest.length Item.none).length := by simp
      simp only [objSet, hlt, if_true, set_append_mid]
      have ih := fill_aux f step hstep rest (done ++ [t])
      simp only [List.length_append, List.length_cons, List.length_nil, List.append_assoc, List.cons_append, List.nil_append] at ih
      rw [ih]
      cases optMap f rest <;> simp

/-- `arr = np.empty(len(items), dtype=object); for i, d in enumerate(items): arr[i] = f(d)` is ALWAYS the 1-D object array `[f(d) for d in items]` -/
theorem fill_eq (f : Item α → Option (Item α)) (step : Val α → Nat × Item α → Option (Val α))
    (hstep : ∀ arr it, step arr it = match f it.2 with
                                      | none => none
                                      | some t => objSet arr it.1 t) (items : List (Item α)) :
    foldlOpt step (emptyObject items.length) (enumerate items) = (optMap f items).map Val.objvec := by
  have h := fill_aux f step hstep items []
  simpa [emptyObject, enumerate] using h

theorem emptyObjectFill_eq (f : Item α → Option (Item α)) (items : List (Item α)) :
    Np.emptyObjectFill f items = (optMap f items).map Val.objvec :=
  fill_eq f _ (fun _ _ => rfl) items

theorem optMap_some (items : List (Item α)) : optMap (fun d => some d) items = some items :=
  optMap_id (fun _ _ => rfl)

/-! ### first pass of `__init__`: lists become arrays -/

def P1 [RealLike α] (kv : String × Val α) : Option (String × Val α) := (Model.listToArray kv.1 kv.2).map (fun v => (kv.1, v))

/-- canonical form of the body of the first loop -/
def step1c [RealLike α] (data : Dict α) (kv : String × Val α) : Option (Dict α) :=
  if isinstanceList kv.2 then
    match Model.listToArray kv.1 kv.2 with
    | none => none
    | some t => some (dictSet data kv.1 t)
  else some data

theorem listToArray_of_not_list [RealLike α] (k : String) (v : Val α) (h : isinstanceList v = false) : Model.listToArray k v = some v := by
  cases v <;> simp_all [Model.listToArray, isinstanceList]

theorem dictSet_mid (pre suf : Dict α) (k : String) (v t : Val α) (h1 : k ∉ keys pre) (h2 : k ∉ keys suf) :
    dictSet (pre ++ (k, v) :: suf) k t = pre ++ (k, t) :: suf := by
  have hg : dictGet (pre ++ (k, v) :: suf) k = some v := by
    induction pre with
    | nil => simp [dictGet]
    | cons p ps ih =>
      simp only [keys, List.map_cons, List.mem_cons, not_or] at h1
      simp only [List.cons_append, dictGet, if_neg (Ne.symm h1.1)]
      exact ih h1.2
  simp only [dictSet, dictHas, hg, Option.isSome_some, if_true, List.map_append, List.map_cons]
  rw [map_replace_of_not_mem t h1, map_replace_of_not_mem t h2]

theorem foldl_pass1 [RealLike α] (step : Dict α → String × Val α → Option (Dict α)) (hstep : ∀ data kv, step data kv = step1c data kv) :
    ∀ (suf pre : Dict α), (keys pre ++ keys suf).Nodup → foldlOpt step (pre ++ suf) suf = (optMap P1 suf).map (fun ys => pre ++ ys)
  | [], pre, _ => by simp [foldlOpt, optMap]
  | (k, v) :: rest, pre, hk => by
    have hk1 : k ∉ keys pre := by
      intro hm
      have := List.nodup_append.mp hk
      exact this.2.2 k hm k (by simp [keys]) rfl
    have hk2 : k ∉ keys rest := by
      have := (List.nodup_append.mp hk).2.1
      simp only [keys, List.map_cons, List.nodup_cons] at this
      exact this.1
    have hnd : ∀ t : Val α, (keys (pre ++ [(k, t)]) ++ keys rest).Nodup := by
      intro t
      simpa [keys] using hk
    simp only [foldlOpt, hstep, step1c, optMap, P1]
    by_cases hl : isinstanceList v = true
    · simp only [hl, if_true]
      cases hc : Model.listToArray k v with
      | none => simp
      | some t =>
        simp only [Option.map_some]
        rw [dictSet_mid pre rest k v t hk1 hk2]
        have ih := foldl_pass1 step hstep rest (pre ++ [(k, t)]) (hnd t)
        simp only [List.append_assoc, List.cons_append, List.nil_append] at ih
        rw [ih]
        cases optMap P1 rest <;> simp [P1]
    · have hl' : isinstanceList v = false := by simpa using hl
      simp only [hl', listToArray_of_not_list k v hl', Option.map_some]
      have ih := foldl_pass1 step hstep rest (pre ++ [(k, v)]) (hnd v)
      simp only [List.append_assoc, List.cons_append, List.nil_append] at ih
      simp only [Bool.false_eq_true, if_false]
      rw [ih]
      cases optMap P1 rest <;> simp [P1]

theorem P1_keys [RealLike α] : ∀ (x y : String × Val α), P1 x = some y → y.1 = x.1 := by
  intro x y h
  simp only [P1] at h
  cases hc : Model.listToArray x.1 x.2 with
  | none => simp [hc] at h
  | some v => simp [hc] at h; simp [← h]

section main
variable [RealLike α] {C : Type}

theorem foldl_pass1_nil (step : Dict α → String × Val α → Option (Dict α)) (d : Dict α) (hstep : ∀ data kv, step data kv = step1c data kv)
    (hk : (keys d).Nodup) : foldlOpt step d d = optMap P1 d := by
  have h1 := foldl_pass1 step hstep d [] (by simpa [keys] using hk)
  rw [List.nil_append] at h1
  rw [h1]
  cases optMap P1 d <;> simp

theorem opt_eta {β : Type} (o : Option β) : (match o with
    | none => none
    | some x => some x) = o := by cases o <;> rfl

theorem UN_eq_onKeys (ks : List String) (c : Val α → Option (Val α)) (k : String) (v : Val α) :
    UN ks c (k, v) = (Model.onKeys ks c k v).map (fun w => (k, w)) := rfl

theorem UN_congr {ns ns' : List String} (c : Val α → Option (Val α)) (h : ∀ k, k ∈ ns ↔ k ∈ ns') : UN ns c = UN ns' c := by
  funext kv
  simp only [UN]
  by_cases hk : kv.1 ∈ ns
  · rw [if_pos hk, if_pos ((h kv.1).mp hk)]
  · rw [if_neg hk, if_neg (fun h' => hk ((h kv.1).mpr h'))]

theorem UN_single (k : String) (c : Val α → Option (Val α)) : UN [k] c = U k c := by
  funext kv
  simp [UN, U]

/-- the specification, pass by pass -/
theorem normDict_passes (d : Dict α) :
    Model.normDict d =
      ((((optMap P1 d).bind (optMap (UN Model.floatKeys (ascontiguousarray .float64)))).bind
          (optMap (UN Model.complexKeys (ascontiguousarray .complex128)))).bind
          (optMap (UN Model.intKeys (ascontiguousarray .int64)))).bind (optMap (U "D" Model.startsToInt64)) := by
  rw [optMap_comp, optMap_comp, optMap_comp, optMap_comp]
  unfold Model.normDict
  apply optMap_congr
  intro kv _
  obtain ⟨k, v⟩ := kv
  simp only [← UN_single, P1, UN_eq_onKeys, Model.normEntry]
  cases Model.listToArray k v with
  | none => rfl
  | some v1 =>
    simp only [Option.map_some, Option.bind_some, UN_eq_onKeys]
    cases Model.onKeys Model.floatKeys (ascontiguousarray DType.float64) k v1 with
    | none => rfl
    | some v2 =>
      simp only [Option.map_some, Option.bind_some, UN_eq_onKeys]
      cases Model.onKeys Model.complexKeys (ascontiguousarray DType.complex128) k v2 with
      | none => rfl
      | some v3 =>
        simp only [Option.map_some, Option.bind_some, UN_eq_onKeys]
        cases Model.onKeys Model.intKeys (ascontiguousarray DType.int64) k v3 with
        | none => rfl
        | some v4 =>
          simp only [Option.map_some, Option.bind_some, UN_eq_onKeys]

theorem dictSet_self {data : Dict α} {k : String} {v : Val α} (hk : (keys data).Nodup) (hh : dictHas data k = true)
    (hg : dictGet data k = some v) : dictSet data k v = data := by
  have : updStep (fun x => some x) data k = some data := by
    rw [updStep_eq_optMap _ _ data hk]
    exact optMap_id (fun x _ => by simp [U])
  simpa [updStep, hh, hg] using this

/-- `step data name = updStep conv data name` for the translated body of a dtype loop (the two differ by an eta-expansion of `Option`) -/
local macro "upd_hstep" : tactic => `(tactic| (
  intro data name
  unfold updStep
  by_cases hc : dictHas data name = true
  · simp only [hc, if_true]
    cases hg : dictGet data name with
    | none => simp
    | some t =>
      simp only []
      cases hcv : ascontiguousarray _ t <;> simp
  · simp [hc]))

theorem gen_result_init_eq_model (d : Dict α) (config : C) (iscsd : Bool) (fs : α) (hk : (keys d).Nodup) :
    Gen.result_init d config iscsd fs = Model.resultInit d config iscsd fs := by
  unfold Gen.result_init Model.resultInit
  dsimp only [dictCopy, dictItems]
  rw [normDict_passes]
  rw [foldl_pass1_nil (hk := hk)]
  case hstep =>
    intro data kv
    obtain ⟨k, v⟩ := kv
    cases v <;> simp [step1c, isinstanceList, Model.listToArray]
    by_cases hD : k = "D"
    · simp only [hD, if_true, len, iter, Option.map_some]
      rw [fill_eq (fun d => some d)]
      · simp [optMap_some]
      · intro arr it
        cases h : objSet arr it.1 it.2 <;> simp [h]
    · simp only [hD, if_false]
      rfl
  cases h1 : optMap P1 d with
  | none => simp
  | some d1 =>
    have hk1 : (keys d1).Nodup := by
      have e : keys d1 = keys d := optMap_map_fst Prod.fst Prod.fst P1_keys h1
      rw [e]; exact hk
    simp only [Option.bind_some]
    rw [foldl_updStep' (conv := ascontiguousarray .float64) (hk := hk1)]
    case hstep => upd_hstep
    case hn => decide
    rw [UN_congr (ns' := Model.floatKeys) _ (by
      intro k; simp only [Model.floatKeys, List.mem_cons, List.not_mem_nil, or_false] <;> tauto)]
    cases h2 : optMap (UN Model.floatKeys (ascontiguousarray DType.float64)) d1 with
    | none => simp
    | some d2 =>
      have hk2 : (keys d2).Nodup := by
        have e : keys d2 = keys d1 := optMap_map_fst Prod.fst Prod.fst UN_keys h2
        rw [e]; exact hk1
      simp only [Option.bind_some]
      rw [foldl_updStep' (conv := ascontiguousarray .complex128) (hk := hk2)]
      case hstep => upd_hstep
      case hn => decide
      rw [UN_congr (ns' := Model.complexKeys) _ (by
        intro k; simp only [Model.complexKeys, List.mem_cons, List.not_mem_nil, or_false] <;> tauto)]
      cases h3 : optMap (UN Model.complexKeys (ascontiguousarray DType.complex128)) d2 with
      | none => simp
      | some d3 =>
        have hk3 : (keys d3).Nodup := by
          have e : keys d3 = keys d2 := optMap_map_fst Prod.fst Prod.fst UN_keys h3
          rw [e]; exact hk2
        simp only [Option.bind_some]
        rw [foldl_updStep' (conv := ascontiguousarray .int64) (hk := hk3)]
        case hstep => upd_hstep
        case hn => decide
        rw [UN_congr (ns' := Model.intKeys) _ (by
          intro k; simp only [Model.intKeys, List.mem_cons, List.not_mem_nil, or_false] <;> tauto)]
        cases h4 : optMap (UN Model.intKeys (ascontiguousarray DType.int64)) d3 with
        | none => simp
        | some d4 =>
          have hk4 : (keys d4).Nodup := by
            have e : keys d4 = keys d3 := optMap_map_fst Prod.fst Prod.fst UN_keys h4
            rw [e]; exact hk3
          simp only [Option.bind_some]
          rw [← updStep_eq_optMap _ _ d4 hk4]
          unfold updStep
          by_cases hh : dictHas d4 "D" = true
          · simp only [hh, if_true]
            cases hg : dictGet d4 "D" with
            | none => simp
            | some v =>
              have hself : dictSet d4 "D" v = d4 := dictSet_self hk4 hh hg
              simp only []
              cases hv : dtypeIsObject v with
              | none => simp [Model.startsToInt64, hv]
              | some b =>
                cases b with
                | false =>
                  simp only [Model.startsToInt64, hv, hself, Bool.false_eq_true, if_false, dictGetD]
                  cases dictGet d4 "f" <;> first | rfl | simp [shape0]
                | true =>
                  simp only [if_true, Model.startsToInt64, hv, len]
                  cases hi : iter v with
                  | none => simp
                  | some cells =>
                    simp only [Option.map_some]
                    rw [fill_eq asarrayItemInt64 _ ?_ cells]
                    · cases optMap asarrayItemInt64 cells with
                      | none => simp
                      | some ys =>
                        simp only [Option.map_some, dictGetD]
                        cases dictGet (dictSet d4 "D" (Val.objvec ys)) "f" <;> first | rfl | simp [shape0]
                    · intro arr it
                      cases asarrayItemInt64 it.2 with
                      | none => rfl
                      | some t => cases h : objSet arr it.1 t <;> simp [h]
          · simp only [hh, Bool.false_eq_true, if_false, dictGetD]
            cases dictGet d4 "f" <;> first | rfl | simp [shape0]

end main

/-! ### what `__init__` stores: per-entry statements (theorems about the TRANSLATED constructor) -/

section semantics
variable [RealLike α] {C : Type}

theorem dictGet_optMap (g : String → Val α → Option (Val α)) :
    ∀ (d d' : Dict α), optMap (fun kv => (g kv.1 kv.2).map (fun v => (kv.1, v))) d = some d' →
      ∀ k, dictGet d' k = (dictGet d k).bind (g k)
  | [], d', h, k => by simp [optMap] at h; simp [h, dictGet]
  | (k0, v0) :: rest, d', h, k => by
    simp only [optMap] at h
    cases hg : g k0 v0 with
    | none => simp [hg] at h
    | some w =>
      cases hr : optMap (fun kv => (g kv.1 kv.2).map (fun v => (kv.1, v))) rest with
      | none => simp [hg, hr] at h
      | some rest' =>
        simp [hg, hr] at h
        have ih := dictGet_optMap g rest rest' hr k
        by_cases hk : k0 = k
        · subst hk; simp [← h, dictGet, hg]
        · simp [← h, dictGet, hk, ih]

/-- every stored value is `normEntry key value` of the input entry; no key is added or removed -/
theorem gen_result_entry (d : Dict α) (config : C) (iscsd : Bool) (fs : α) (hk : (keys d).Nodup) (res : Result α C)
    (h : Gen.result_init d config iscsd fs = some res) (k : String) :
    dictGet res.data k = (dictGet d k).bind (Model.normEntry k) ∧ keys res.data = keys d := by
  rw [gen_result_init_eq_model d config iscsd fs hk] at h
  unfold Model.resultInit at h
  cases hn : Model.normDict d with
  | none => simp [hn] at h
  | some data =>
    simp only [hn] at h
    have hdata : res.data = data := by
      split at h
      · exact absurd h (by simp)
      · simp only [Option.some.injEq] at h; simp [← h]
    rw [hdata]
    refine ⟨dictGet_optMap Model.normEntry d data hn k, ?_⟩
    exact optMap_map_fst Prod.fst Prod.fst (by
      intro x y hxy
      cases hc : Model.normEntry x.1 x.2 with
      | none => simp [hc] at hxy
      | some v => simp [hc] at hxy; simp [← hxy]) hn

/-- `nf` is the length of the first axis of the stored `f`, and 0 when there is no `f` -/
theorem gen_result_nf (d : Dict α) (config : C) (iscsd : Bool) (fs : α) (hk : (keys d).Nodup) (res : Result α C)
    (h : Gen.result_init d config iscsd fs = some res) :
    (match dictGet res.data "f" with
     | some f => shape0 f = some res.nf
     | none => res.nf = 0) ∧ Gen.result_len res = res.nf := by
  rw [gen_result_init_eq_model d config iscsd fs hk] at h
  unfold Model.resultInit at h
  refine ⟨?_, rfl⟩
  cases hn : Model.normDict d with
  | none => simp [hn] at h
  | some data =>
    simp only [hn] at h
    cases hf : dictGet data "f" with
    | none => simp [hf] at h; simp [← h, hf]
    | some f =>
      simp only [hf] at h
      cases hs : shape0 f with
      | none => simp [hs] at h
      | some nf => simp [hs] at h; simp [← h, hf, hs]

theorem all_isInt_not_cplx (xs : List (Num α)) (h : xs.all Num.isInt = true) : xs.any Num.isCplx = false := by
  induction xs with
  | nil => rfl
  | cons x xs ih =>
    simp only [List.all_cons, Bool.and_eq_true] at h
    simp only [List.any_cons, ih h.2, Bool.or_false]
    cases x <;> simp_all [Num.isInt, Num.isCplx]

theorem asarrayItemInt64_of_ints (r : Item α) (v : List Int) (h : Model.itemInts? r = some v) : asarrayItemInt64 r = some (.ivec v) := by
  cases r with
  | ivec w => simp [Model.itemInts?] at h; simp [asarrayItemInt64, h]
  | pylist xs =>
    by_cases ha : xs.all Num.isInt = true
    · simp [Model.itemInts?, ha] at h
      simp [asarrayItemInt64, all_isInt_not_cplx xs ha, h]
    · simp [Model.itemInts?, ha] at h
  | pytuple xs =>
    by_cases ha : xs.all Num.isInt = true
    · simp [Model.itemInts?, ha] at h
      simp [asarrayItemInt64, all_isInt_not_cplx xs ha, h]
    · simp [Model.itemInts?, ha] at h
  | _ => simp [Model.itemInts?] at h

/-- the entry `D` given as a Python LIST of start vectors (int64 arrays, lists or tuples of ints — of ANY lengths): stored is the 1-D object
    array with one int64 vector per element, in order -/
theorem normEntry_D_rows (rows : List (Item α)) (hrows : ∀ r ∈ rows, (Model.itemInts? r).isSome = true) :
    Model.normEntry "D" (.pylist rows) = some (.objvec (rows.map (fun r => Item.ivec ((Model.itemInts? r).getD [])))) := by
  have hmap : optMap asarrayItemInt64 rows = some (rows.map (fun r => Item.ivec ((Model.itemInts? r).getD []))) := by
    apply optMap_some_iff_map
    intro r hr
    have := hrows r hr
    cases hi : Model.itemInts? r with
    | none => simp [hi] at this
    | some v => simp [asarrayItemInt64_of_ints r v hi]
  have h1 : ("D" ∈ Model.floatKeys) = False := by simp [Model.floatKeys]
  have h2 : ("D" ∈ Model.complexKeys) = False := by simp [Model.complexKeys]
  have h3 : ("D" ∈ Model.intKeys) = False := by simp [Model.intKeys]
  simp [Model.normEntry, Model.listToArray, Model.onKeys, h1, h2, h3, Model.startsToInt64, dtypeIsObject, iter, hmap]

/-- **the statement about `D`** — for EVERY list of start vectors (all equal lengths, all of length 1, ragged, one bin, no bin): the constructor
    stores a 1-D object array of `len(D)` cells whose i-th cell is the i-th input start vector as an int64 vector -/
theorem gen_result_D_rows (d : Dict α) (config : C) (iscsd : Bool) (fs : α) (hk : (keys d).Nodup) (rows : List (Item α))
    (hD : dictGet d "D" = some (.pylist rows)) (hrows : ∀ r ∈ rows, (Model.itemInts? r).isSome = true)
    (res : Result α C) (h : Gen.result_init d config iscsd fs = some res) :
    dictGet res.data "D" = some (.objvec (rows.map (fun r => Item.ivec ((Model.itemInts? r).getD [])))) := by
  rw [(gen_result_entry d config iscsd fs hk res h "D").1, hD]
  exact normEntry_D_rows rows hrows

/-- corollary, the case that was broken: every bin has the SAME number `K` of segments — `D` is still 1-D with one length-`K` int64 vector per bin -/
theorem gen_result_D_uniform (d : Dict α) (config : C) (iscsd : Bool) (fs : α) (hk : (keys d).Nodup) (K : Nat) (vs : List (List Int))
    (hK : ∀ v ∈ vs, v.length = K) (hD : dictGet d "D" = some (.pylist (vs.map Item.ivec)))
    (res : Result α C) (h : Gen.result_init d config iscsd fs = some res) :
    dictGet res.data "D" = some (.objvec (vs.map Item.ivec)) ∧ shape0 (Val.objvec (vs.map (Item.ivec (α := α)))) = some vs.length
      ∧ ∀ c ∈ vs.map (Item.ivec (α := α)), ∃ v, c = Item.ivec v ∧ v.length = K := by
  have := gen_result_D_rows d config iscsd fs hk (vs.map Item.ivec) hD (by
    intro r hr
    obtain ⟨v, _, rfl⟩ := List.mem_map.mp hr
    rfl) res h
  refine ⟨?_, by simp [shape0], ?_⟩
  · rw [this]
    simp [List.map_map, Function.comp_def, Model.itemInts?]
  · intro c hc
    obtain ⟨v, hv, rfl⟩ := List.mem_map.mp hc
    exact ⟨v, rfl, hK v hv⟩

/-- …whereas NumPy's `np.array(list, dtype=object)` stacks equal-length vectors into a 2-D array (the defect this region guards against) -/
theorem objectArrayOfList_uniform (v0 : List Int) (vs : List (List Int)) (hK : ∀ v ∈ vs, v.length = v0.length) :
    Np.objectArrayOfList ((v0 :: vs).map (Item.ivec (α := α))) = .objmat v0.length ((v0 :: vs).map (fun v => v.map Num.int)) := by
  have : (vs.map (Item.ivec (α := α))).all (fun it => match it.seq? with
                              | some s => s.length == v0.length
                              | none => false) = true := by
    simp only [List.all_eq_true, List.mem_map]
    rintro _ ⟨v, hv, rfl⟩
    simp [Item.seq?, hK v hv]
  simp [Np.objectArrayOfList, Item.seq?, List.map_map, Function.comp_def]
  exact hK

end semantics

/-! ### dtype coercions: what happens to the numbers -/

section coercions
variable [RealLike α] {C : Type}

theorem asF_fvec (v : List α) : ascontiguousarray .float64 (.fvec v) = some (.fvec v) := by
  have : optMap (castNum DType.float64 true) (v.map Num.real) = some ((v.map Num.real).map (fun x => Num.real x.re)) :=
    optMap_some_iff_map _ _ _ (fun x _ => by cases x <;> simp [castNum, Num.isCplx])
  simp [ascontiguousarray, elems?, this, List.map_map, Function.comp_def, Num.re]

theorem asF_ivec (v : List Int) : ascontiguousarray .float64 (.ivec v) = some (.fvec (v.map (RealLike.ofInt : Int → α))) := by
  have : optMap (castNum (α := α) DType.float64 true) (v.map Num.int) = some ((v.map Num.int).map (fun x => Num.real x.re)) :=
    optMap_some_iff_map _ _ _ (fun x _ => by cases x <;> simp [castNum, Num.isCplx])
  simp [ascontiguousarray, elems?, this, List.map_map, Function.comp_def, Num.re]

theorem asI_ivec (v : List Int) : ascontiguousarray .int64 (.ivec v : Val α) = some (.ivec v) := by
  have : optMap (castNum (α := α) DType.int64 true) (v.map Num.int) = some ((v.map Num.int).map (fun x => Num.int x.toInt)) :=
    optMap_some_iff_map _ _ _ (fun x _ => by cases x <;> simp [castNum, Num.isCplx])
  simp [ascontiguousarray, elems?, this, List.map_map, Function.comp_def, Num.toInt]

/-- int64 ← float64 TRUNCATES (as NumPy does) -/
theorem asI_fvec (v : List α) : ascontiguousarray .int64 (.fvec v) = some (.ivec (v.map RealLike.trunc)) := by
  have : optMap (castNum DType.int64 true) (v.map Num.real) = some ((v.map Num.real).map (fun x => Num.int x.toInt)) :=
    optMap_some_iff_map _ _ _ (fun x _ => by cases x <;> simp [castNum, Num.isCplx])
  simp [ascontiguousarray, elems?, this, List.map_map, Function.comp_def, Num.toInt]

theorem asC_cvec (v : List (Cx α)) : ascontiguousarray .complex128 (.cvec v) = some (.cvec v) := by
  have : optMap (castNum DType.complex128 true) (v.map Num.cplx) = some ((v.map Num.cplx).map (fun x => Num.cplx x.toCx)) :=
    optMap_some_iff_map _ _ _ (fun x _ => by simp [castNum])
  simp [ascontiguousarray, elems?, this, List.map_map, Function.comp_def, Num.toCx]

/-- a float key holding a float64 vector is stored unchanged; an int64 vector is stored as the same numbers in float64 -/
theorem normEntry_float_key (k : String) (hk : k ∈ Model.floatKeys) (v : List α) (z : List Int) :
    Model.normEntry k (.fvec v) = some (.fvec v) ∧ Model.normEntry k (.ivec z : Val α) = some (.fvec (z.map RealLike.ofInt)) := by
  simp only [Model.floatKeys, List.mem_cons, List.not_mem_nil, or_false] at hk
  rcases hk with rfl | rfl | rfl | rfl | rfl | rfl | rfl | rfl | rfl | rfl <;>
    simp [Model.normEntry, Model.listToArray, Model.onKeys, Model.floatKeys, Model.complexKeys, Model.intKeys, asF_fvec, asF_ivec]

/-- an int key holding an int64 vector is stored unchanged; a float64 vector is TRUNCATED toward zero element by element -/
theorem normEntry_int_key (k : String) (hk : k ∈ Model.intKeys) (v : List α) (z : List Int) :
    Model.normEntry k (.ivec z : Val α) = some (.ivec z) ∧ Model.normEntry k (.fvec v) = some (.ivec (v.map RealLike.trunc)) := by
  simp only [Model.intKeys, List.mem_cons, List.not_mem_nil, or_false] at hk
  rcases hk with rfl | rfl | rfl | rfl <;>
    simp [Model.normEntry, Model.listToArray, Model.onKeys, Model.floatKeys, Model.complexKeys, Model.intKeys, asI_fvec, asI_ivec]

theorem normEntry_XY (v : List (Cx α)) : Model.normEntry "XY" (.cvec v) = some (.cvec v) := by
  simp [Model.normEntry, Model.listToArray, Model.onKeys, Model.floatKeys, Model.complexKeys, Model.intKeys, asC_cvec]

/-- a key outside the four classes whose value is not a list passes through untouched -/
theorem normEntry_unknown_key (k : String) (v : Val α) (h1 : k ∉ Model.floatKeys) (h2 : k ∉ Model.complexKeys) (h3 : k ∉ Model.intKeys) (h4 : k ≠ "D")
    (hl : isinstanceList v = false) : Model.normEntry k v = some v := by
  simp [Model.normEntry, listToArray_of_not_list k v hl, Model.onKeys, h1, h2, h3, h4]

/-- over ℝ: integral floats under an int key are value-preserved (`trunc (z : ℝ) = z`) -/
theorem normEntry_int_key_integral (k : String) (hk : k ∈ Model.intKeys) (z : List Int) :
    Model.normEntry k (.fvec (List.map (RealLike.ofInt : Int → ℝ) z)) = some (.ivec z) := by
  rw [(normEntry_int_key k hk _ z).2]
  have hz : ∀ z : List Int, List.map RealLike.trunc (List.map (RealLike.ofInt : Int → ℝ) z) = z := by
    intro z
    induction z with
    | nil => rfl
    | cons a t ih =>
      rw [List.map_cons, List.map_cons, ih]
      simp only [RL.trunc_eq, RL.ofInt_eq, Int.floor_intCast, Int.ceil_intCast, ite_self]
  rw [hz]

end coercions


/-! ### transfer: the per-entry statements as theorems about the translated constructor; link to the export criterion of
    `Model.exportFrame` (Model/ResultQueries.lean: a column is a non-callable ndarray whose FIRST dimension is the number of bins) -/

section transfer
variable [RealLike α] {C : Type}

/-- float keys are value-preserved (float64 in → the same float64 vector stored) -/
theorem gen_result_float_preserved (d : Dict α) (config : C) (iscsd : Bool) (fs : α) (hk : (keys d).Nodup) (res : Result α C)
    (h : Gen.result_init d config iscsd fs = some res) (k : String) (hkf : k ∈ Model.floatKeys) (v : List α)
    (hv : dictGet d k = some (.fvec v)) : dictGet res.data k = some (.fvec v) := by
  rw [(gen_result_entry d config iscsd fs hk res h k).1, hv]
  exact (normEntry_float_key k hkf v []).1

/-- int keys: an int64 vector is value-preserved; a float64 vector is truncated toward zero element by element (as NumPy casts) -/
theorem gen_result_int_preserved (d : Dict α) (config : C) (iscsd : Bool) (fs : α) (hk : (keys d).Nodup) (res : Result α C)
    (h : Gen.result_init d config iscsd fs = some res) (k : String) (hki : k ∈ Model.intKeys) :
    (∀ z, dictGet d k = some (.ivec z) → dictGet res.data k = some (.ivec z))
    ∧ (∀ v, dictGet d k = some (.fvec v) → dictGet res.data k = some (.ivec (v.map RealLike.trunc))) := by
  refine ⟨fun z hz => ?_, fun v hv => ?_⟩
  · rw [(gen_result_entry d config iscsd fs hk res h k).1, hz]
    exact (normEntry_int_key k hki [] z).1
  · rw [(gen_result_entry d config iscsd fs hk res h k).1, hv]
    exact (normEntry_int_key k hki v []).2

/-- the complex cross products are value-preserved -/
theorem gen_result_XY_preserved (d : Dict α) (config : C) (iscsd : Bool) (fs : α) (hk : (keys d).Nodup) (res : Result α C)
    (h : Gen.result_init d config iscsd fs = some res) (v : List (Cx α)) (hv : dictGet d "XY" = some (.cvec v)) :
    dictGet res.data "XY" = some (.cvec v) := by
  rw [(gen_result_entry d config iscsd fs hk res h "XY").1, hv]
  exact normEntry_XY v

/-- unknown keys pass through; absent keys stay absent -/
theorem gen_result_unknown_passthrough (d : Dict α) (config : C) (iscsd : Bool) (fs : α) (hk : (keys d).Nodup) (res : Result α C)
    (h : Gen.result_init d config iscsd fs = some res) (k : String)
    (h1 : k ∉ Model.floatKeys) (h2 : k ∉ Model.complexKeys) (h3 : k ∉ Model.intKeys) (h4 : k ≠ "D") :
    (∀ v, dictGet d k = some v → isinstanceList v = false → dictGet res.data k = some v) ∧ (dictGet d k = none → dictGet res.data k = none) := by
  refine ⟨fun v hv hl => ?_, fun hn => ?_⟩
  · rw [(gen_result_entry d config iscsd fs hk res h k).1, hv]
    exact normEntry_unknown_key k v h1 h2 h3 h4 hl
  · rw [(gen_result_entry d config iscsd fs hk res h k).1, hn]; rfl

/-- `.shape` and `isinstance(·, np.ndarray)` of a modelled value -/
def valShape : Val α → List Nat
  | .bvec v => [v.length]
  | .ivec v => [v.length]
  | .fvec v => [v.length]
  | .cvec v => [v.length]
  | .objvec c => [c.length]
  | .objmat m rows => [rows.length, m]
  | _ => []

def valIsNdarray : Val α → Bool
  | .pylist _ => false
  | .pytuple _ => false
  | .scalar _ => false
  | .opaque _ => false
  | _ => true

/-- the stored `D` of a result with `nf` bins is a per-bin COLUMN in the sense of `Model.exportFrame` and has exactly ONE dimension — whatever the
    segment counts; the 2-D array NumPy's `np.array(list, dtype=object)` builds from equal-length vectors also passes the column test of
    `to_dataframe` (first dimension = nf) but has TWO dimensions, which pandas rejects -/
theorem gen_result_D_column (d : Dict α) (config : C) (iscsd : Bool) (fs : α) (hk : (keys d).Nodup) (rows : List (Item α))
    (hD : dictGet d "D" = some (.pylist rows)) (hrows : ∀ r ∈ rows, (Model.itemInts? r).isSome = true)
    (res : Result α C) (h : Gen.result_init d config iscsd fs = some res) :
    ∃ D, dictGet res.data "D" = some D ∧ valShape D = [rows.length]
      ∧ Model.perBin (fun _ => false) valIsNdarray valShape rows.length D = true := by
  refine ⟨_, gen_result_D_rows d config iscsd fs hk rows hD hrows res h, ?_, ?_⟩
  · simp [valShape]
  · simp [Model.perBin, valShape, valIsNdarray]

theorem objectArrayOfList_uniform_shape (v0 : List Int) (vs : List (List Int)) (hK : ∀ v ∈ vs, v.length = v0.length) :
    valShape (Np.objectArrayOfList ((v0 :: vs).map (Item.ivec (α := α)))) = [vs.length + 1, v0.length] := by
  rw [objectArrayOfList_uniform v0 vs hK]
  simp [valShape]

end transfer

/-! ### module-level entry points -/

section wrappers
variable {V E A R : Type}

/-- every public entry point is the same analysis: `lpsd` = `compute_spectrum` = construct `SpectrumAnalyzer(data, fs, **kwargs)` and call
    `.compute()`; `compute_single_bin` = the same construction followed by `.compute_single_bin(freq=freq, fres=fres, L=L)` — argument by
    argument, for every constructor / method behaviour (exceptions included) -/
theorem gen_entry_points_forward (ctor : CallArgs V → Except E A) (method : String → A → CallArgs V → Except E R)
    (data fs freq fres L : V) (kwargs : List (String × V)) :
    Gen.compute_spectrum ctor method data fs kwargs = Model.entrySpectrum ctor method data fs kwargs
    ∧ Gen.lpsd ctor method data fs kwargs = Model.entrySpectrum ctor method data fs kwargs
    ∧ Gen.compute_single_bin ctor method data fs freq fres L kwargs = Model.entrySingleBin ctor method data fs freq fres L kwargs := by
  have h1 : Gen.compute_spectrum ctor method data fs kwargs = Model.entrySpectrum ctor method data fs kwargs := by
    unfold Gen.compute_spectrum Model.entrySpectrum
    cases ctor ⟨[data, fs], kwargs⟩ with
    | error e => rfl
    | ok a =>
      simp only [bind, Except.bind]
      cases method "compute" a ⟨[], []⟩ <;> rfl
  refine ⟨h1, ?_, ?_⟩
  · unfold Gen.lpsd
    rw [h1]
    cases Model.entrySpectrum ctor method data fs kwargs <;> rfl
  · unfold Gen.compute_single_bin Model.entrySingleBin
    cases ctor ⟨[data, fs], kwargs⟩ with
    | error e => rfl
    | ok a =>
      simp only [bind, Except.bind]
      cases method "compute_single_bin" a ⟨[], [("freq", freq), ("fres", fres), ("L", L)]⟩ <;> rfl

/-- the signatures: `(data, fs, **kwargs)` twice; `(data, fs, freq, *, fres=None, L=None, **kwargs)` -/
theorem gen_entry_points_sigs :
    Gen.compute_spectrum_sig = ⟨["data", "fs"], [], true⟩ ∧ Gen.lpsd_sig = ⟨["data", "fs"], [], true⟩
    ∧ Gen.compute_single_bin_sig = ⟨["data", "fs", "freq"], [("fres", true), ("L", true)], true⟩ := ⟨rfl, rfl, rfl⟩

end wrappers

/-! ### `_select_backend`, `_check_starts_bounds` -/

theorem gen_select_backend_eq_model (cuda numba : Bool) (K : Int) (hint : String) :
    Gen._select_backend cuda numba K hint = Model.selectBackend cuda numba K hint := by
  unfold Gen._select_backend Model.selectBackend
  by_cases h1 : hint = "cuda"
  · cases cuda <;> simp [h1]
  · by_cases h2 : hint = "numba"
    · cases numba <;> simp [h2]
    · by_cases h3 : hint = "numpy"
      · simp [h3]
      · cases cuda <;> cases numba <;> by_cases h4 : 1000 < K <;> simp [h1, h2, h3, h4]

/-- the decision table, stated outright -/
theorem gen_select_backend_table (cuda numba : Bool) (K : Int) (hint : String) :
    (hint = "cuda" → Gen._select_backend cuda numba K hint = if cuda then .ok "cuda" else .error .RuntimeError)
    ∧ (hint = "numba" → Gen._select_backend cuda numba K hint = if numba then .ok "numba" else .error .RuntimeError)
    ∧ (hint = "numpy" → Gen._select_backend cuda numba K hint = .ok "numpy")
    ∧ (hint ≠ "cuda" → hint ≠ "numba" → hint ≠ "numpy" →
        Gen._select_backend cuda numba K hint =
          .ok (if cuda = true ∧ 1000 < K then "cuda" else if numba = true then "numba" else "numpy"))
    ∧ (∀ b, Gen._select_backend cuda numba K hint = .ok b → b = "cuda" ∨ b = "numba" ∨ b = "numpy")
    ∧ Gen._select_backend_default = "auto" := by
  rw [gen_select_backend_eq_model]
  refine ⟨?_, ?_, ?_, ?_, ?_, rfl⟩
  · intro h; simp [Model.selectBackend, h]
  · intro h; simp [Model.selectBackend, h]
  · intro h; simp [Model.selectBackend, h]
  · intro h1 h2 h3
    simp only [Model.selectBackend, h1, h2, h3, if_false]
    by_cases hc : cuda = true ∧ 1000 < K
    · simp [hc]
    · simp only [hc, if_false]; cases numba <;> simp
  · intro b hb
    simp only [Model.selectBackend] at hb
    split at hb
    · split at hb <;> simp_all
    · split at hb
      · split at hb <;> simp_all
      · split at hb
        · simp_all
        · split at hb
          · simp_all
          · split at hb <;> simp_all

theorem foldl_min_le (xs : List Int) (x : Int) :
    (∀ s ∈ x :: xs, xs.foldl (fun m y => if y < m then y else m) x ≤ s) ∧ xs.foldl (fun m y => if y < m then y else m) x ∈ x :: xs := by
  induction xs generalizing x with
  | nil => simp
  | cons y ys ih =>
    simp only [List.foldl_cons]
    by_cases h : y < x
    · simp only [h, if_true]
      obtain ⟨h1, h2⟩ := ih y
      refine ⟨?_, ?_⟩
      · intro s hs
        rcases List.mem_cons.mp hs with rfl | hs
        · exact le_trans (h1 y List.mem_cons_self) (le_of_lt h)
        · exact h1 s hs
      · exact List.mem_cons_of_mem _ h2
    · simp only [h, if_false]
      obtain ⟨h1, h2⟩ := ih x
      refine ⟨?_, ?_⟩
      · intro s hs
        rcases List.mem_cons.mp hs with rfl | hs
        · exact h1 s List.mem_cons_self
        · rcases List.mem_cons.mp hs with rfl | hs
          · exact le_trans (h1 x List.mem_cons_self) (not_lt.mp h)
          · exact h1 s (List.mem_cons_of_mem _ hs)
      · rcases List.mem_cons.mp h2 with h2 | h2
        · rw [h2]; exact List.mem_cons_self
        · exact List.mem_cons_of_mem _ (List.mem_cons_of_mem _ h2)

theorem foldl_max_ge (xs : List Int) (x : Int) :
    (∀ s ∈ x :: xs, s ≤ xs.foldl (fun m y => if m < y then y else m) x) ∧ xs.foldl (fun m y => if m < y then y else m) x ∈ x :: xs := by
  induction xs generalizing x with
  | nil => simp
  | cons y ys ih =>
    simp only [List.foldl_cons]
    by_cases h : x < y
    · simp only [h, if_true]
      obtain ⟨h1, h2⟩ := ih y
      refine ⟨?_, ?_⟩
      · intro s hs
        rcases List.mem_cons.mp hs with rfl | hs
        · exact le_trans (le_of_lt h) (h1 y List.mem_cons_self)
        · exact h1 s hs
      · exact List.mem_cons_of_mem _ h2
    · simp only [h, if_false]
      obtain ⟨h1, h2⟩ := ih x
      refine ⟨?_, ?_⟩
      · intro s hs
        rcases List.mem_cons.mp hs with rfl | hs
        · exact h1 s List.mem_cons_self
        · rcases List.mem_cons.mp hs with rfl | hs
          · exact le_trans (not_lt.mp h) (h1 x List.mem_cons_self)
          · exact h1 s (List.mem_cons_of_mem _ hs)
      · rcases List.mem_cons.mp h2 with h2 | h2
        · rw [h2]; exact List.mem_cons_self
        · exact List.mem_cons_of_mem _ (List.mem_cons_of_mem _ h2)

theorem check_val (N : Int) (x : Int) (xs : List Int) (L : Int) :
    Gen._check_starts_bounds N (x :: xs) L =
      if xs.foldl (fun m y => if y < m then y else m) x < 0 ∨ N < xs.foldl (fun m y => if m < y then y else m) x + L
      then .error .ValueError else .ok () := by
  unfold Gen._check_starts_bounds
  have hne : ¬ (xs.length + 1 = 0) := by omega
  simp only [size, List.length_cons, amin, amax, hne, decide_false, Bool.false_eq_true, if_false]
  -- the guard as written in the source vs the canonical guard: decided by linear arithmetic, whatever the spelling / temporaries
  split <;> split <;> first | rfl | (exfalso; simp_all <;> omega)

/-- `_check_starts_bounds` raises (ValueError) exactly when some segment `[s, s+L)` leaves the record: `starts` non-empty and
    (`min < 0` or `max + L > N`); otherwise it returns — and then every start is in range (`Model.startsInBounds`) -/
theorem gen_check_starts_bounds_iff (N : Int) (starts : List Int) (L : Int) :
    (Gen._check_starts_bounds N starts L = .error .ValueError ↔ ∃ s ∈ starts, s < 0 ∨ N < s + L)
    ∧ (Gen._check_starts_bounds N starts L = .ok () ↔ Model.startsInBounds N starts L)
    ∧ (Gen._check_starts_bounds N starts L = .error .ValueError ∨ Gen._check_starts_bounds N starts L = .ok ()) := by
  cases starts with
  | nil => simp [Gen._check_starts_bounds, Model.startsInBounds, size]
  | cons x xs =>
    rw [check_val]
    unfold Model.startsInBounds
    obtain ⟨hmin, hminmem⟩ := foldl_min_le xs x
    obtain ⟨hmax, hmaxmem⟩ := foldl_max_ge xs x
    generalize xs.foldl (fun m y => if y < m then y else m) x = smin at hmin hminmem
    generalize xs.foldl (fun m y => if m < y then y else m) x = smax at hmax hmaxmem
    by_cases hbad : smin < 0 ∨ N < smax + L
    · rw [if_pos hbad]
      refine ⟨iff_of_true rfl ?_, iff_of_false (by simp) ?_, Or.inl rfl⟩
      · rcases hbad with h | h
        · exact ⟨smin, hminmem, Or.inl h⟩
        · exact ⟨smax, hmaxmem, Or.inr h⟩
      · intro h
        rcases hbad with hb' | hb'
        · have := (h smin hminmem).1; omega
        · have := (h smax hmaxmem).2; omega
    · rw [if_neg hbad]
      simp only [not_or, not_lt] at hbad
      refine ⟨iff_of_false (by simp) ?_, iff_of_true rfl ?_, Or.inr rfl⟩
      · rintro ⟨s, hs, hs'⟩
        have h1 := hmin s hs
        have h2 := hmax s hs
        rcases hs' with h | h <;> omega
      · intro s hs
        have h1 := hmin s hs
        have h2 := hmax s hs
        constructor <;> omega


/-! ### satisfiability of the hypotheses: a concrete uniform-`K` dictionary (the case that used to break), over ℝ -/

example :
    Gen.result_init (α := ℝ) [("f", .fvec [1, 2]), ("D", .pylist [.ivec [0, 5], .ivec [1, 6]]), ("K", .pylist [.num (.int 2), .num (.int 2)])] () false 1
      = some { data := [("f", .fvec [1, 2]), ("D", .objvec [.ivec [0, 5], .ivec [1, 6]]), ("K", .ivec [2, 2])],
               config := (), iscsd := false, fs := 1, cache := [], nf := 2 } := by
  rw [gen_result_init_eq_model _ _ _ _ (by decide)]
  simp [Model.resultInit, Model.normDict, optMap, Model.normEntry, Model.listToArray, Model.onKeys, Model.floatKeys, Model.complexKeys,
    Model.intKeys, asF_fvec, Model.startsToInt64, dtypeIsObject, iter, asarrayItemInt64, asarray, promote, Item.isNum, Item.numD,
    Num.isCplx, Num.isReal, Num.isInt, Num.toInt, asI_ivec, dictGet, shape0]

example : Np.objectArrayOfList [Item.ivec (α := ℝ) [0, 5], .ivec [1, 6]] = .objmat 2 [[.int 0, .int 5], [.int 1, .int 6]] := by
  simp [Np.objectArrayOfList, Item.seq?]

example : Gen._check_starts_bounds 10 [0, 3, 6] 4 = .ok () := by decide
example : Gen._check_starts_bounds 10 [0, 3, 7] 4 = .error .ValueError := by decide
example : Gen._select_backend true true 1001 "auto" = .ok "cuda" ∧ Gen._select_backend true true 1000 "auto" = .ok "numba" := by decide

end EPG

#print axioms EPG.gen_result_init_eq_model
#print axioms EPG.gen_result_entry
#print axioms EPG.gen_result_D_rows
#print axioms EPG.gen_result_D_uniform
#print axioms EPG.gen_result_nf
#print axioms EPG.emptyObjectFill_eq
#print axioms EPG.objectArrayOfList_uniform
#print axioms EPG.normEntry_D_rows
#print axioms EPG.normEntry_float_key
#print axioms EPG.normEntry_int_key
#print axioms EPG.normEntry_int_key_integral
#print axioms EPG.normEntry_XY
#print axioms EPG.normEntry_unknown_key
#print axioms EPG.gen_entry_points_forward
#print axioms EPG.gen_entry_points_sigs
#print axioms EPG.gen_select_backend_eq_model
#print axioms EPG.gen_select_backend_table
#print axioms EPG.gen_check_starts_bounds_iff
#print axioms EPG.gen_result_float_preserved
#print axioms EPG.gen_result_int_preserved
#print axioms EPG.gen_result_XY_preserved
#print axioms EPG.gen_result_unknown_passthrough
#print axioms EPG.gen_result_D_column
#print axioms EPG.objectArrayOfList_uniform_shape
