/-
  Props/LpsdCoreGen — the machine-translated glue of speckit/analysis.py between a plan and the kernels
  (Gen/LpsdCore.lean, regenerated from the source on every run by vk/regions/lpsd_core.py) IS the hand model:

  * `Gen._lpsd_core` (the per-bin loop WITH its two dict caches, the Kaiser rule, S1/S2, omega, the 18-way dispatch, the result row)
      = the cache-free map over the bins of `Model.lpsdRow ∘ Model.dispatchWith (selected backend)` (`gen_lpsd_core_rows`),
      hence = `Model.lpsdCore` (`gen_lpsd_core_eq_model…`), hence the reference estimator of every bin (`gen_lpsd_core_eq_ref_…`);
  * the kernel section of `compute_single_bin` = the same `Model.dispatchWith` on the one requested bin (`gen_single_bin_section_eq_model`);
  * `plan()`'s validation = `planValid` on every bin (`gen_plan_validate_eq_model`), its band restriction = `Model.bandFilter`
      applied to every per-bin field (`gen_plan_band_eq_model`).
-/
import SpecKitV.RealInst
import SpecKitV.Gen.LpsdCore
import SpecKitV.Model.LpsdCore
import SpecKitV.Props.C05
import SpecKitV.Props.C02
import SpecKitV.Props.NumpyKernelsGen

set_option linter.unusedVariables false
set_option linter.unusedSimpArgs false

namespace LpsdCoreGen

/-! ### Python dict contracts -/

theorem dictHas_true {κ ν : Type} [DecidableEq κ] (d : List (κ × ν)) (k : κ) (h : NpLC.dictHas d k = true) :
    ∃ v, Model.lookup k d = some v := by
  unfold NpLC.dictHas at h
  exact Option.isSome_iff_exists.mp h

theorem dictHas_false {κ ν : Type} [DecidableEq κ] (d : List (κ × ν)) (k : κ) (h : ¬ NpLC.dictHas d k = true) :
    Model.lookup k d = none := by
  unfold NpLC.dictHas at h
  cases hl : Model.lookup k d with
  | none => rfl
  | some v => rw [hl] at h; exact absurd rfl h

theorem dictGet_of_lookup {κ ν : Type} [DecidableEq κ] (dflt : ν) (d : List (κ × ν)) (k : κ) (v : ν)
    (h : Model.lookup k d = some v) : NpLC.dictGet dflt d k = v := by
  unfold NpLC.dictGet
  rw [h]
  rfl

theorem lookup_dictSet_self {κ ν : Type} [DecidableEq κ] (d : List (κ × ν)) (k : κ) (v : ν) :
    Model.lookup k (NpLC.dictSet d k v) = some v := by
  simp [NpLC.dictSet, Model.lookup]

theorem dictGet_dictSet_self {κ ν : Type} [DecidableEq κ] (dflt : ν) (d : List (κ × ν)) (k : κ) (v : ν) :
    NpLC.dictGet dflt (NpLC.dictSet d k v) k = v :=
  dictGet_of_lookup dflt _ k v (lookup_dictSet_self d k v)

/-! ### the window closure `_build_window` of `_lpsd_core` (analysis.py:864-880) -/

/-- what the window cache holds for the key `L`: the window built for `L` and its two sums -/
noncomputable def winEntry (wf : NpLC.WinFunc ℝ) (alpha : ℝ) (L : ℕ) : Arr ℝ × ℝ × ℝ :=
  (Model.lpsdWindow wf alpha L, NpLC.sum (Model.lpsdWindow wf alpha L),
    NpLC.sum (Arr.mul (Model.lpsdWindow wf alpha L) (Model.lpsdWindow wf alpha L)))

/-- the cache invariant: every entry is the function of its key -/
def WinCacheOk (wf : NpLC.WinFunc ℝ) (alpha : ℝ) (wc : List (ℕ × (Arr ℝ × ℝ × ℝ))) : Prop :=
  ∀ L v, Model.lookup L wc = some v → v = winEntry wf alpha L

theorem winCacheOk_set (wf : NpLC.WinFunc ℝ) (alpha : ℝ) (wc : List (ℕ × (Arr ℝ × ℝ × ℝ))) (L : ℕ) (v : Arr ℝ × ℝ × ℝ)
    (h : WinCacheOk wf alpha wc) (hv : v = winEntry wf alpha L) : WinCacheOk wf alpha (NpLC.dictSet wc L v) := by
  subst hv
  exact Model.lookup_cons_ok (winEntry wf alpha) wc h L

theorem gen_build_window_spec (wc : List (ℕ × (Arr ℝ × ℝ × ℝ))) (wf : NpLC.WinFunc ℝ) (alpha : ℝ) (L : ℕ)
    (h : WinCacheOk wf alpha wc) :
    (Gen._lpsd_core___build_window wc wf alpha L).2.1 = winEntry wf alpha L ∧
    WinCacheOk wf alpha (Gen._lpsd_core___build_window wc wf alpha L).2.2 := by
  unfold Gen._lpsd_core___build_window
  by_cases hh : NpLC.dictHas wc L = true
  · obtain ⟨v, hv⟩ := dictHas_true wc L hh
    simp only [hh, if_true]
    rw [dictGet_of_lookup _ wc L v hv]
    exact ⟨h L v hv, h⟩
  · simp only [hh, Bool.false_eq_true, if_false]
    cases hk : wf.isKaiser
    · simp only [Bool.false_eq_true, if_false, NpLC.join_mk, dictGet_dictSet_self]
      exact ⟨by simp only [winEntry, Model.lpsdWindow, hk, Bool.false_eq_true, if_false],
        winCacheOk_set wf alpha wc L _ h (by simp only [winEntry, Model.lpsdWindow, hk, Bool.false_eq_true, if_false])⟩
    · simp only [if_true, NpLC.join_mk, dictGet_dictSet_self]
      exact ⟨by simp only [winEntry, Model.lpsdWindow, hk, if_true, RLmul, mul_comm],
        winCacheOk_set wf alpha wc L _ h (by simp only [winEntry, Model.lpsdWindow, hk, if_true, RLmul, mul_comm])⟩

/-- the closure's `raised_`: only a freshly built window is measured (`w.shape[0] != L`) -/
theorem gen_build_window_flag (wc : List (ℕ × (Arr ℝ × ℝ × ℝ))) (wf : NpLC.WinFunc ℝ) (alpha : ℝ) (L : ℕ) :
    (Gen._lpsd_core___build_window wc wf alpha L).1
      = (!(NpLC.dictHas wc L) && decide ((Model.lpsdWindow wf alpha L).n ≠ L)) := by
  unfold Gen._lpsd_core___build_window
  by_cases hh : NpLC.dictHas wc L = true
  · simp only [hh, if_true, Bool.not_true, Bool.false_and]
  · simp only [hh, Bool.false_eq_true, if_false]
    cases hk : wf.isKaiser <;>
      simp [NpLC.join_mk, Model.lpsdWindow, hk, mul_comm]

/-- the closure's cache afterwards: unchanged on a hit, one new entry under the key `L` on a miss -/
theorem gen_build_window_cache (wc : List (ℕ × (Arr ℝ × ℝ × ℝ))) (wf : NpLC.WinFunc ℝ) (alpha : ℝ) (L : ℕ) :
    (Gen._lpsd_core___build_window wc wf alpha L).2.2 = wc ∨
    ∃ v, (Gen._lpsd_core___build_window wc wf alpha L).2.2 = NpLC.dictSet wc L v := by
  unfold Gen._lpsd_core___build_window
  by_cases hh : NpLC.dictHas wc L = true
  · left
    simp only [hh, if_true]
  · right
    simp only [hh, Bool.false_eq_true, if_false]
    cases hk : wf.isKaiser <;> simp only [NpLC.join_mk, Bool.false_eq_true, if_false, if_true] <;> exact ⟨_, rfl⟩

/-! ### the per-bin loop -/

theorem foldl_inv {σ ι : Type} (P : List ι → σ → Prop) (f : σ → ι → σ) (l : List ι) (init : σ)
    (h0 : P [] init) (hs : ∀ pre i s, P pre s → P (pre ++ [i]) (f s i)) : P l (List.foldl f init l) := by
  have gen : ∀ (l pre : List ι) (s : σ), P pre s → P (pre ++ l) (List.foldl f s l) := by
    intro l
    induction l with
    | nil => intro pre s h; simpa using h
    | cons a t ih =>
      intro pre s h
      have := ih (pre ++ [a]) (f s a) (hs pre a s h)
      simpa using this
  simpa using gen l [] init h0

def QCacheOk (bq : ℕ → ℤ → Arr2 ℝ) (qc : List ((ℕ × ℤ) × Arr2 ℝ)) : Prop :=
  ∀ k q, Model.lookup k qc = some q → q = bq k.1 k.2

theorem qCacheOk_set (bq : ℕ → ℤ → Arr2 ℝ) (qc : List ((ℕ × ℤ) × Arr2 ℝ)) (k : ℕ × ℤ) (q : Arr2 ℝ)
    (h : QCacheOk bq qc) (hq : q = bq k.1 k.2) : QCacheOk bq (NpLC.dictSet qc k q) := by
  subst hq
  exact Model.lookup_cons_ok (fun k : ℕ × ℤ => bq k.1 k.2) qc h k

theorem two_lit : (RealLike.ofSci 20 true 1 : ℝ) = RealLike.two := by
  simp only [RL.ofSci_eq, RL.two_eq]; norm_num

/-- the row the loop appends for plan index `i` -/
noncomputable def rowAt (fam : NpLC.KernelFamily ℝ) (bq : ℕ → ℤ → Arr2 ℝ) (sel : ℕ → String → String) (wf : NpLC.WinFunc ℝ) (alpha : ℝ)
    (order : ℤ) (cb : String) (x1 x2 : Arr ℝ) (iscsd : Bool) (fs : ℝ) (pL : Arr ℕ) (pD : Arr (Arr ℕ)) (pf : Arr ℝ) (i : ℕ) :
    Model.LpsdRow ℝ :=
  Model.lpsdRow i
    (Model.dispatchWith (fam.pick (sel (pD.get i).n cb)) iscsd order x1 x2 fs (Model.pbinAt pf pL pD i)
      (Model.lpsdWindow wf alpha (pL.get i)) (if order = 1 ∨ order = 2 then some (bq (pL.get i) order) else none))
    (Model.winSums (Model.lpsdWindow wf alpha (pL.get i)))

/-- the bounds test of one bin (analysis.py:889): some start is negative or exceeds `N - L` -/
def boundsFlag (nx : ℤ) (L : ℕ) (D : Arr ℕ) : Bool :=
  NpLC.any ⟨D.n, fun j => decide (D.get j < 0)⟩ || NpLC.any ⟨D.n, fun j => decide ((D.get j : ℤ) > nx - (L : ℤ))⟩

/-- `raise ValueError("Unsupported detrend order")` -/
def orderBad (order : ℤ) : Bool :=
  !(decide (order = -1) || decide (order = 0) || decide (order = 1) || decide (order = 2))

set_option hygiene false in
/-- close a leaf of the case analysis: `hst : (raised', wc', qc', rows ++ [row]) = st'` -/
macro "lpsd_leaf" : tactic => `(tactic| (
  subst hst
  refine ⟨?_, hw2, by first | exact hqc | exact qCacheOk_set bq qc _ _ hqc rfl, ?_, rfl⟩
  · simp only [hw1, winEntry, rowAt, Model.lpsdRow, Model.dispatchWith, Model.pbinAt, Model.winSums, NpLC.KernelFamily.pick, NpLC.sum, Arr.mul, two_lit]
    simp [*, NpLC.join, RealLike.zero]
  · simp only [hw0, boundsFlag, orderBad]
    simp [*, NpLC.join]))

set_option hygiene false in
macro "lpsd_backends" : tactic => `(tactic| (
  by_cases hb1 : sel (pD.get i).n cb = "cuda"
  · simp only [hb1, decide_true, if_true, NpLC.join_mk] at hst
    lpsd_leaf
  · by_cases hb2 : sel (pD.get i).n cb = "numba"
    · simp only [hb1, hb2, decide_true, decide_false, Bool.false_eq_true, if_true, if_false, NpLC.join_mk] at hst
      lpsd_leaf
    · simp only [hb1, hb2, decide_false, Bool.false_eq_true, if_false, NpLC.join_mk] at hst
      lpsd_leaf))

set_option hygiene false in
macro "lpsd_modes" : tactic => `(tactic| (
  cases iscsd
  · simp only [Bool.false_eq_true, if_false] at hst
    lpsd_backends
  · simp only [if_true] at hst
    lpsd_backends))

/-- one iteration of the translated loop: appends the model's row for bin `i`, keeps both caches sound, and raises exactly for an
    out-of-range start, a freshly built window of the wrong length, or an unsupported order -/
theorem gen_lpsd_core_step (fam : NpLC.KernelFamily ℝ) (bq : ℕ → ℤ → Arr2 ℝ) (sel : ℕ → String → String) (wf : NpLC.WinFunc ℝ) (alpha : ℝ)
    (order : ℤ) (cb : String) (x1 x2 : Arr ℝ) (iscsd : Bool) (fs : ℝ) (nx : ℤ) (pL : Arr ℕ) (pD : Arr (Arr ℕ)) (pf : Arr ℝ)
    (idx : List ℕ) (r : Bool) (wc : List (ℕ × (Arr ℝ × ℝ × ℝ))) (qc : List ((ℕ × ℤ) × Arr2 ℝ)) (rows : List (Model.LpsdRow ℝ)) (i : ℕ)
    (hwc : WinCacheOk wf alpha wc) (hqc : QCacheOk bq qc)
    (st' : Bool × List (ℕ × (Arr ℝ × ℝ × ℝ)) × List ((ℕ × ℤ) × Arr2 ℝ) × List (Model.LpsdRow ℝ))
    (hst : Gen._lpsd_core_loop1 fam bq sel wf alpha order cb x1 x2 iscsd fs nx pL pD pf idx x1 (if iscsd then x2 else NpLC.noneArr)
      wf alpha order fs nx (r, wc, qc, rows) i = st') :
    st'.2.2.2 = rows ++ [rowAt fam bq sel wf alpha order cb x1 x2 iscsd fs pL pD pf i] ∧ WinCacheOk wf alpha st'.2.1 ∧
    QCacheOk bq st'.2.2.1 ∧
    st'.1 = (r || boundsFlag nx (pL.get i) (pD.get i) ||
      (!(NpLC.dictHas wc (pL.get i)) && decide ((Model.lpsdWindow wf alpha (pL.get i)).n ≠ pL.get i)) || orderBad order) ∧
    st'.2.1 = (Gen._lpsd_core___build_window wc wf alpha (pL.get i)).2.2 := by
  obtain ⟨hw1, hw2⟩ := gen_build_window_spec wc wf alpha (pL.get i) hwc
  have hw0 := gen_build_window_flag wc wf alpha (pL.get i)
  unfold Gen._lpsd_core_loop1 at hst
  simp only [NpLC.join_mk] at hst
  by_cases ho1 : order = -1
  · subst ho1
    simp only [decide_true, if_true] at hst
    lpsd_modes
  · simp only [ho1, decide_false, Bool.false_eq_true, if_false] at hst
    by_cases ho0 : order = 0
    · subst ho0
      simp only [decide_true, if_true] at hst
      lpsd_modes
    · simp only [ho0, decide_false, Bool.false_eq_true, if_false] at hst
      by_cases ho12 : order = 1 ∨ order = 2
      · have hc : (decide (order = 1) || decide (order = 2)) = true := by simpa using ho12
        simp only [hc, if_true, NpLC.dictGetOpt] at hst
        cases hq : Model.lookup (pL.get i, order) qc with
        | none =>
          simp only [hq, NpLC.join_mk] at hst
          lpsd_modes
        | some q =>
          have hqe := hqc _ _ hq
          dsimp only at hqe
          subst hqe
          simp only [hq, NpLC.join_mk] at hst
          lpsd_modes
      · have hc : (decide (order = 1) || decide (order = 2)) = false := by simpa using ho12
        simp only [hc, Bool.false_eq_true, if_false, NpLC.join_mk] at hst
        lpsd_leaf

/-- what makes bin `i` raise -/
noncomputable def binBad (wf : NpLC.WinFunc ℝ) (alpha : ℝ) (order : ℤ) (nx : ℤ) (pL : Arr ℕ) (pD : Arr (Arr ℕ)) (i : ℕ) : Bool :=
  boundsFlag nx (pL.get i) (pD.get i) || decide ((Model.lpsdWindow wf alpha (pL.get i)).n ≠ pL.get i) || orderBad order

/-- the whole loop, from empty caches: rows, and the raise flag -/
theorem gen_lpsd_core_fold (fam : NpLC.KernelFamily ℝ) (bq : ℕ → ℤ → Arr2 ℝ) (sel : ℕ → String → String) (wf : NpLC.WinFunc ℝ) (alpha : ℝ)
    (order : ℤ) (cb : String) (x1 x2 : Arr ℝ) (iscsd : Bool) (fs : ℝ) (nx : ℤ) (pL : Arr ℕ) (pD : Arr (Arr ℕ)) (pf : Arr ℝ)
    (idx : List ℕ) :
    Gen._lpsd_core fam bq sel wf alpha order cb x1 x2 iscsd fs nx pL pD pf idx
      = (idx.any (binBad wf alpha order nx pL pD), idx.map (rowAt fam bq sel wf alpha order cb x1 x2 iscsd fs pL pD pf)) := by
  unfold Gen._lpsd_core
  simp only [NpLC.join]
  have key := foldl_inv
    (fun pre (st : Bool × List (ℕ × (Arr ℝ × ℝ × ℝ)) × List ((ℕ × ℤ) × Arr2 ℝ) × List (Model.LpsdRow ℝ)) =>
      st.2.2.2 = pre.map (rowAt fam bq sel wf alpha order cb x1 x2 iscsd fs pL pD pf) ∧ WinCacheOk wf alpha st.2.1 ∧
      QCacheOk bq st.2.2.1 ∧ st.1 = pre.any (binBad wf alpha order nx pL pD) ∧
      (∀ L v, Model.lookup L st.2.1 = some v → ∃ j ∈ pre, pL.get j = L))
    (Gen._lpsd_core_loop1 fam bq sel wf alpha order cb x1 x2 iscsd fs nx pL pD pf idx x1 (if iscsd then x2 else NpLC.noneArr)
      wf alpha order fs nx) idx (false, NpLC.dictEmpty, NpLC.dictEmpty, [])
    ⟨rfl, by intro L v h; simp [NpLC.dictEmpty, Model.lookup] at h, by intro k q h; simp [NpLC.dictEmpty, Model.lookup] at h, rfl,
      by intro L v h; simp [NpLC.dictEmpty, Model.lookup] at h⟩
    (by
      rintro pre i ⟨r, wc, qc, rows⟩ ⟨hrows, hwc, hqc, hr, hkeys⟩
      dsimp only at hrows hwc hqc hr hkeys
      obtain ⟨h1, h2, h3, h4, h5⟩ := gen_lpsd_core_step fam bq sel wf alpha order cb x1 x2 iscsd fs nx pL pD pf idx r wc qc rows i hwc hqc _ rfl
      refine ⟨?_, h2, h3, ?_, ?_⟩
      · rw [h1, hrows, List.map_append, List.map_cons, List.map_nil]
      · rw [h4, List.any_append, List.any_cons, List.any_nil, Bool.or_false, hr]
        have hb : binBad wf alpha order nx pL pD i = (boundsFlag nx (pL.get i) (pD.get i) ||
            decide ((Model.lpsdWindow wf alpha (pL.get i)).n ≠ pL.get i) || orderBad order) := rfl
        rw [hb]
        by_cases hh : NpLC.dictHas wc (pL.get i) = true
        · obtain ⟨v, hv⟩ := dictHas_true wc _ hh
          obtain ⟨j, hj, hjL⟩ := hkeys _ _ hv
          by_cases hd : (Model.lpsdWindow wf alpha (pL.get i)).n ≠ pL.get i
          · have hbj : binBad wf alpha order nx pL pD j = true := by
              unfold binBad
              rw [hjL, decide_eq_true hd, Bool.or_true, Bool.true_or]
            have : pre.any (binBad wf alpha order nx pL pD) = true := List.any_eq_true.mpr ⟨j, hj, hbj⟩
            rw [this, Bool.true_or, Bool.true_or, Bool.true_or, Bool.true_or]
          · rw [hh, decide_eq_false hd]
            generalize pre.any (binBad wf alpha order nx pL pD) = A
            generalize boundsFlag nx (pL.get i) (pD.get i) = B
            generalize orderBad order = C
            cases A <;> cases B <;> cases C <;> rfl
        · have hh' : NpLC.dictHas wc (pL.get i) = false := by simpa using hh
          rw [hh']
          generalize pre.any (binBad wf alpha order nx pL pD) = A
          generalize boundsFlag nx (pL.get i) (pD.get i) = B
          generalize orderBad order = C
          generalize decide ((Model.lpsdWindow wf alpha (pL.get i)).n ≠ pL.get i) = D
          cases A <;> cases B <;> cases C <;> cases D <;> rfl
      · intro L v hl
        rw [h5] at hl
        rcases gen_build_window_cache wc wf alpha (pL.get i) with hc | ⟨w, hc⟩
        · rw [hc] at hl
          obtain ⟨j, hj, hjL⟩ := hkeys L v hl
          exact ⟨j, List.mem_append_left _ hj, hjL⟩
        · rw [hc] at hl
          simp only [NpLC.dictSet, Model.lookup] at hl
          split_ifs at hl with hLL
          · exact ⟨i, by simp, hLL.symm⟩
          · obtain ⟨j, hj, hjL⟩ := hkeys L v hl
            exact ⟨j, List.mem_append_left _ hj, hjL⟩)
  obtain ⟨k1, -, -, k4, -⟩ := key
  exact Prod.ext k4 k1

/-- the rows alone (no hypotheses): the translated loop WITH its two caches is the cache-free map over the bins -/
theorem gen_lpsd_core_rows (fam : NpLC.KernelFamily ℝ) (bq : ℕ → ℤ → Arr2 ℝ) (sel : ℕ → String → String) (wf : NpLC.WinFunc ℝ) (alpha : ℝ)
    (order : ℤ) (cb : String) (x1 x2 : Arr ℝ) (iscsd : Bool) (fs : ℝ) (nx : ℤ) (pL : Arr ℕ) (pD : Arr (Arr ℕ)) (pf : Arr ℝ)
    (idx : List ℕ) :
    (Gen._lpsd_core fam bq sel wf alpha order cb x1 x2 iscsd fs nx pL pD pf idx).2
      = idx.map (rowAt fam bq sel wf alpha order cb x1 x2 iscsd fs pL pD pf) := by
  rw [gen_lpsd_core_fold]

/-! ### the raise flag of `_lpsd_core`: exactly the in-range premise of C02, a window of the right length, a supported order -/

theorem boundsFlag_eq_false_iff (nx : ℤ) (L : ℕ) (D : Arr ℕ) :
    boundsFlag nx L D = false ↔ ∀ j < D.n, (D.get j : ℤ) + L ≤ nx := by
  unfold boundsFlag NpLC.any
  simp only [Bool.or_eq_false_iff, List.any_eq_false, List.mem_range, decide_eq_true_eq, not_lt, Nat.zero_le, implies_true,
    true_and, gt_iff_lt]
  constructor
  · intro h j hj
    have := h j hj
    omega
  · intro h j hj
    have := h j hj
    omega

theorem orderBad_eq_false_iff (order : ℤ) : orderBad order = false ↔ (order = -1 ∨ order = 0 ∨ order = 1 ∨ order = 2) := by
  unfold orderBad
  simp only [Bool.not_eq_false', Bool.or_eq_true, decide_eq_true_eq, or_assoc]

theorem gen_lpsd_core_raises_iff (fam : NpLC.KernelFamily ℝ) (bq : ℕ → ℤ → Arr2 ℝ) (sel : ℕ → String → String) (wf : NpLC.WinFunc ℝ) (alpha : ℝ)
    (order : ℤ) (cb : String) (x1 x2 : Arr ℝ) (iscsd : Bool) (fs : ℝ) (nx : ℤ) (pL : Arr ℕ) (pD : Arr (Arr ℕ)) (pf : Arr ℝ)
    (idx : List ℕ) :
    (Gen._lpsd_core fam bq sel wf alpha order cb x1 x2 iscsd fs nx pL pD pf idx).1 = false ↔
      ∀ i ∈ idx, (∀ j < (pD.get i).n, ((pD.get i).get j : ℤ) + pL.get i ≤ nx) ∧
        (Model.lpsdWindow wf alpha (pL.get i)).n = pL.get i ∧ (order = -1 ∨ order = 0 ∨ order = 1 ∨ order = 2) := by
  rw [gen_lpsd_core_fold]
  simp only [List.any_eq_false, binBad, Bool.or_eq_true, not_or, Bool.not_eq_true, boundsFlag_eq_false_iff,
    orderBad_eq_false_iff, decide_eq_false_iff_not, ne_eq, not_not, and_assoc]

/-! ### instantiation with the translated kernels -/

/-- the six Numba kernels as translated (Gen/CoreKernels) -/
noncomputable def genNumba6 : NpLC.Kernels6 ℝ :=
  ⟨Gen._stats_win_only_auto, Gen._stats_win_only_csd, Gen._stats_detrend0_auto, Gen._stats_detrend0_csd,
   Gen._stats_poly_auto, Gen._stats_poly_csd⟩

/-- the six CUDA host wrappers as translated (Gen/CudaKernels) -/
noncomputable def genCuda6 : NpLC.Kernels6 ℝ :=
  ⟨Gen._stats_win_only_auto_cuda, Gen._stats_win_only_csd_cuda, Gen._stats_detrend0_auto_cuda, Gen._stats_detrend0_csd_cuda,
   Gen._stats_poly_auto_cuda, Gen._stats_poly_csd_cuda⟩

theorem dispatchWith_numba (iscsd : Bool) (order : ℤ) (x1 x2 : Arr ℝ) (fs : ℝ) (b : Model.PBin ℝ) (w : Arr ℝ) (q : Option (Arr2 ℝ)) :
    Model.dispatchWith genNumba6 iscsd order x1 x2 fs b w q = Model.dispatch iscsd order x1 x2 fs b w q := rfl

theorem genCuda6_eq_genNumba6 : genCuda6 = genNumba6 := by
  unfold genCuda6 genNumba6
  congr 1
  · funext x s L w ω; exact numba_cuda_agree_win_only_auto x s L w ω
  · funext x1 x2 s L w ω; exact numba_cuda_agree_win_only_csd x1 x2 s L w ω
  · funext x s L w ω; exact numba_cuda_agree_detrend0_auto x s L w ω
  · funext x1 x2 s L w ω; exact numba_cuda_agree_detrend0_csd x1 x2 s L w ω
  · funext x s L w ω Q; exact numba_cuda_agree_poly_auto x s L w ω Q
  · funext x1 x2 s L w ω Q; exact numba_cuda_agree_poly_csd x1 x2 s L w ω Q

/-- two backends agree on every call with at least one segment (what C01 proves of each backend: both are the reference) -/
def Agree6 (a b : NpLC.Kernels6 ℝ) : Prop :=
  (∀ x s L w ω, 0 < s.n → a.win_only_auto x s L w ω = b.win_only_auto x s L w ω) ∧
  (∀ x1 x2 s L w ω, 0 < s.n → a.win_only_csd x1 x2 s L w ω = b.win_only_csd x1 x2 s L w ω) ∧
  (∀ x s L w ω, 0 < s.n → a.detrend0_auto x s L w ω = b.detrend0_auto x s L w ω) ∧
  (∀ x1 x2 s L w ω, 0 < s.n → a.detrend0_csd x1 x2 s L w ω = b.detrend0_csd x1 x2 s L w ω) ∧
  (∀ x s L w ω Q, 0 < s.n → a.poly_auto x s L w ω Q = b.poly_auto x s L w ω Q) ∧
  (∀ x1 x2 s L w ω Q, 0 < s.n → a.poly_csd x1 x2 s L w ω Q = b.poly_csd x1 x2 s L w ω Q)

theorem dispatchWith_congr (a b : NpLC.Kernels6 ℝ) (h : Agree6 a b) (iscsd : Bool) (order : ℤ) (x1 x2 : Arr ℝ) (fs : ℝ)
    (p : Model.PBin ℝ) (hK : 0 < p.D.n) (w : Arr ℝ) (q : Option (Arr2 ℝ)) :
    Model.dispatchWith a iscsd order x1 x2 fs p w q = Model.dispatchWith b iscsd order x1 x2 fs p w q := by
  obtain ⟨h1, h2, h3, h4, h5, h6⟩ := h
  unfold Model.dispatchWith
  simp only [h1 _ _ _ _ _ hK, h2 _ _ _ _ _ _ hK, h3 _ _ _ _ _ hK, h4 _ _ _ _ _ _ hK]
  cases q with
  | none => rfl
  | some Q => simp only [h5 _ _ _ _ _ _ hK, h6 _ _ _ _ _ _ _ hK]

/-- the family the analyzer runs: translated Numba kernels, translated CUDA wrappers, and NumPy fallbacks `np6` (abstract here) -/
noncomputable def genFamily (np6 : NpLC.Kernels6 ℝ) : NpLC.KernelFamily ℝ := NpLC.KernelFamily.ofBackends genNumba6 genCuda6 np6

/-- a backend string is served by translated kernels, or by fallbacks that agree with them on non-empty segment lists -/
def BackendOk (np6 : NpLC.Kernels6 ℝ) (backend : String) (K : ℕ) : Prop :=
  backend = "cuda" ∨ backend = "numba" ∨ (Agree6 np6 genNumba6 ∧ 0 < K)

theorem dispatchWith_genFamily (np6 : NpLC.Kernels6 ℝ) (backend : String) (iscsd : Bool) (order : ℤ) (x1 x2 : Arr ℝ) (fs : ℝ)
    (p : Model.PBin ℝ) (hb : BackendOk np6 backend p.D.n) (w : Arr ℝ) (q : Option (Arr2 ℝ)) :
    Model.dispatchWith ((genFamily np6).pick backend) iscsd order x1 x2 fs p w q = Model.dispatch iscsd order x1 x2 fs p w q := by
  rcases hb with hb | hb | ⟨hb, hK⟩
  · subst hb
    have : (genFamily np6).pick "cuda" = genCuda6 := rfl
    rw [this, genCuda6_eq_genNumba6, dispatchWith_numba]
  · subst hb
    have : (genFamily np6).pick "numba" = genNumba6 := rfl
    rw [this, dispatchWith_numba]
  · by_cases h1 : backend = "cuda"
    · subst h1
      have : (genFamily np6).pick "cuda" = genCuda6 := rfl
      rw [this, genCuda6_eq_genNumba6, dispatchWith_numba]
    · by_cases h2 : backend = "numba"
      · subst h2
        have : (genFamily np6).pick "numba" = genNumba6 := rfl
        rw [this, dispatchWith_numba]
      · have : (genFamily np6).pick backend = np6 := by
          unfold genFamily NpLC.KernelFamily.pick NpLC.KernelFamily.ofBackends
          simp only [h1, h2, if_false]
        rw [this, dispatchWith_congr np6 genNumba6 hb iscsd order x1 x2 fs p hK w q, dispatchWith_numba]

/-- kernel 5-tuple / window sums / plan index of a result row -/
def rowStats (r : Model.LpsdRow ℝ) : ℝ × ℝ × ℝ × ℝ × ℝ := (r.2.2.1, r.2.2.2.1, r.2.1.re, r.2.1.im, r.2.2.2.2.2.2.1)
def rowSums (r : Model.LpsdRow ℝ) : ℝ × ℝ := (r.2.2.2.2.1, r.2.2.2.2.2.1)

theorem rowStats_lpsdRow (i : ℕ) (s : ℝ × ℝ × ℝ × ℝ × ℝ) (ws : ℝ × ℝ) : rowStats (Model.lpsdRow i s ws) = s := rfl
theorem rowSums_lpsdRow (i : ℕ) (s : ℝ × ℝ × ℝ × ℝ × ℝ) (ws : ℝ × ℝ) : rowSums (Model.lpsdRow i s ws) = ws := rfl

/-- MAIN: the translated `_lpsd_core` (loop + both caches + dispatch, run on the translated kernels) computes `Model.lpsdCore`
    on the bins it reads, with the window `Model.lpsdWindow` (Kaiser rule as coded) and the basis `_build_Q(L, order)` -/
theorem gen_lpsd_core_eq_model (np6 : NpLC.Kernels6 ℝ) (bq : ℕ → ℤ → Arr2 ℝ) (sel : ℕ → String → String) (wf : NpLC.WinFunc ℝ) (alpha : ℝ)
    (order : ℤ) (cb : String) (x1 x2 : Arr ℝ) (iscsd : Bool) (fs : ℝ) (nx : ℤ) (pL : Arr ℕ) (pD : Arr (Arr ℕ)) (pf : Arr ℝ)
    (idx : List ℕ) (hb : ∀ i ∈ idx, BackendOk np6 (sel (pD.get i).n cb) (pD.get i).n) :
    ((Gen._lpsd_core (genFamily np6) bq sel wf alpha order cb x1 x2 iscsd fs nx pL pD pf idx).2).map rowStats
      = Model.lpsdCore iscsd order x1 x2 fs (Model.lpsdWindow wf alpha) bq (idx.map (Model.pbinAt pf pL pD)) := by
  rw [gen_lpsd_core_rows, lpsdCore_eq_map, List.map_map, List.map_map]
  apply List.map_congr_left
  intro i hi
  simp only [Function.comp, rowAt, rowStats_lpsdRow]
  exact dispatchWith_genFamily np6 _ iscsd order x1 x2 fs (Model.pbinAt pf pL pD i) (hb i hi) _ _

/-- the stored window sums and the plan index of every row -/
theorem gen_lpsd_core_sums (fam : NpLC.KernelFamily ℝ) (bq : ℕ → ℤ → Arr2 ℝ) (sel : ℕ → String → String) (wf : NpLC.WinFunc ℝ) (alpha : ℝ)
    (order : ℤ) (cb : String) (x1 x2 : Arr ℝ) (iscsd : Bool) (fs : ℝ) (nx : ℤ) (pL : Arr ℕ) (pD : Arr (Arr ℕ)) (pf : Arr ℝ)
    (idx : List ℕ) :
    ((Gen._lpsd_core fam bq sel wf alpha order cb x1 x2 iscsd fs nx pL pD pf idx).2).map rowSums
      = idx.map (fun i => Model.winSums (Model.lpsdWindow wf alpha (pL.get i))) ∧
    ((Gen._lpsd_core fam bq sel wf alpha order cb x1 x2 iscsd fs nx pL pD pf idx).2).map (fun r => r.1) = idx := by
  rw [gen_lpsd_core_rows, List.map_map, List.map_map]
  refine ⟨List.map_congr_left (fun i _ => rfl), ?_⟩
  have : ((fun r : Model.LpsdRow ℝ => r.1) ∘ rowAt fam bq sel wf alpha order cb x1 x2 iscsd fs pL pD pf) = id := rfl
  rw [this, List.map_id]

/-! ### transfer: the property theorems of Props/C05 restated for the translated loop -/

/-- bin `i` of the translated `_lpsd_core` is the reference estimator on the bin's own (f, L, D), window for that L, basis for (L, order);
    cross mode.  Hypotheses: a supported order (the code raises otherwise), for the polynomial orders a basis with order+1 columns AT THE
    SEGMENT LENGTHS OF THE BINS READ (what `_build_Q(L, order)` returns for `L ≥ order+1`; "for every L" is false of the library's basis,
    see Props/PipelineClosed), at least one segment per bin (plan() rejects empty D), backends as in `BackendOk`. -/
theorem gen_lpsd_core_eq_ref_cross (np6 : NpLC.Kernels6 ℝ) (bq : ℕ → ℤ → Arr2 ℝ) (sel : ℕ → String → String) (wf : NpLC.WinFunc ℝ) (alpha : ℝ)
    (order : ℤ) (hord : order = -1 ∨ order = 0 ∨ order = 1 ∨ order = 2)
    (cb : String) (x1 x2 : Arr ℝ) (fs : ℝ) (nx : ℤ) (pL : Arr ℕ) (pD : Arr (Arr ℕ)) (pf : Arr ℝ)
    (idx : List ℕ) (hQ : order = 1 ∨ order = 2 → ∀ i ∈ idx, (bq (pL.get i) order).m = (order + 1).toNat) (hK : ∀ i ∈ idx, 0 < (pD.get i).n) (hb : ∀ i ∈ idx, BackendOk np6 (sel (pD.get i).n cb) (pD.get i).n) :
    ((Gen._lpsd_core (genFamily np6) bq sel wf alpha order cb x1 x2 true fs nx pL pD pf idx).2).map rowStats
      = idx.map (fun i => Model.refStats order (bq (pL.get i) order).get x1.get x2.get (pD.get i).get (pD.get i).n (pL.get i)
          (Model.lpsdWindow wf alpha (pL.get i)).get (2 * Real.pi * pf.get i / fs)) := by
  rw [gen_lpsd_core_eq_model np6 bq sel wf alpha order cb x1 x2 true fs nx pL pD pf idx hb,
    lpsdCore_eq_ref_cross order hord x1 x2 fs _ bq, List.map_map]
  · rfl
  · intro h b hb'
    obtain ⟨i, hi, rfl⟩ := List.mem_map.mp hb'
    exact hQ h i hi
  · intro b hb'
    obtain ⟨i, hi, rfl⟩ := List.mem_map.mp hb'
    exact hK i hi

/-- the same in auto mode -/
theorem gen_lpsd_core_eq_ref_auto (np6 : NpLC.Kernels6 ℝ) (bq : ℕ → ℤ → Arr2 ℝ) (sel : ℕ → String → String) (wf : NpLC.WinFunc ℝ) (alpha : ℝ)
    (order : ℤ) (hord : order = -1 ∨ order = 0 ∨ order = 1 ∨ order = 2)
    (cb : String) (x1 x2 : Arr ℝ) (fs : ℝ) (nx : ℤ) (pL : Arr ℕ) (pD : Arr (Arr ℕ)) (pf : Arr ℝ)
    (idx : List ℕ) (hQ : order = 1 ∨ order = 2 → ∀ i ∈ idx, (bq (pL.get i) order).m = (order + 1).toNat) (hK : ∀ i ∈ idx, 0 < (pD.get i).n) (hb : ∀ i ∈ idx, BackendOk np6 (sel (pD.get i).n cb) (pD.get i).n) :
    ((Gen._lpsd_core (genFamily np6) bq sel wf alpha order cb x1 x2 false fs nx pL pD pf idx).2).map rowStats
      = idx.map (fun i => Model.refStatsAuto order (bq (pL.get i) order).get x1.get (pD.get i).get (pD.get i).n (pL.get i)
          (Model.lpsdWindow wf alpha (pL.get i)).get (2 * Real.pi * pf.get i / fs)) := by
  rw [gen_lpsd_core_eq_model np6 bq sel wf alpha order cb x1 x2 false fs nx pL pD pf idx hb,
    lpsdCore_eq_ref_auto order hord x1 x2 fs _ bq, List.map_map]
  · rfl
  · intro h b hb'
    obtain ⟨i, hi, rfl⟩ := List.mem_map.mp hb'
    exact hQ h i hi
  · intro b hb'
    obtain ⟨i, hi, rfl⟩ := List.mem_map.mp hb'
    exact hK i hi

/-- a cached window or basis is never used for another bin: the row of a bin does not depend on the bins processed before it -/
theorem gen_lpsd_core_bin_local (fam : NpLC.KernelFamily ℝ) (bq : ℕ → ℤ → Arr2 ℝ) (sel : ℕ → String → String) (wf : NpLC.WinFunc ℝ) (alpha : ℝ)
    (order : ℤ) (cb : String) (x1 x2 : Arr ℝ) (iscsd : Bool) (fs : ℝ) (nx : ℤ) (pL : Arr ℕ) (pD : Arr (Arr ℕ)) (pf : Arr ℝ)
    (pre post : List ℕ) (i : ℕ) :
    ((Gen._lpsd_core fam bq sel wf alpha order cb x1 x2 iscsd fs nx pL pD pf (pre ++ i :: post)).2)[pre.length]?
      = (Gen._lpsd_core fam bq sel wf alpha order cb x1 x2 iscsd fs nx pL pD pf [i]).2[0]? := by
  simp only [gen_lpsd_core_rows, List.map_append, List.map_cons, List.map_nil]
  rw [List.getElem?_append_right (by simp)]
  simp

/-- restricting the index list to a band = filtering the unrestricted rows (per-bin results stay aligned with their bins) -/
theorem gen_lpsd_core_band (fam : NpLC.KernelFamily ℝ) (bq : ℕ → ℤ → Arr2 ℝ) (sel : ℕ → String → String) (wf : NpLC.WinFunc ℝ) (alpha : ℝ)
    (order : ℤ) (cb : String) (x1 x2 : Arr ℝ) (iscsd : Bool) (fs : ℝ) (nx : ℤ) (pL : Arr ℕ) (pD : Arr (Arr ℕ)) (pf : Arr ℝ)
    (idx : List ℕ) (lo hi : ℝ) :
    (Gen._lpsd_core fam bq sel wf alpha order cb x1 x2 iscsd fs nx pL pD pf
        (idx.filter (fun i => decide (lo ≤ pf.get i) && decide (pf.get i ≤ hi)))).2
      = ((idx.zip (Gen._lpsd_core fam bq sel wf alpha order cb x1 x2 iscsd fs nx pL pD pf idx).2).filter
          (fun p => decide (lo ≤ pf.get p.1) && decide (pf.get p.1 ≤ hi))).map Prod.snd := by
  simp only [gen_lpsd_core_rows]
  exact Model.filter_map_eq_zip _ _ idx

/-- order 1: adding any straight line to the record leaves every bin unchanged (auto mode), when `_build_Q(L, 1)` is an orthonormal
    basis of the affine functions at the segment lengths of the bins read (`BuildQ.libQ_line_contract`: true of the library's basis for `L ≥ 2`) -/
theorem gen_lpsd_core_order1_add_line_auto (np6 : NpLC.Kernels6 ℝ) (bq : ℕ → ℤ → Arr2 ℝ) (sel : ℕ → String → String) (wf : NpLC.WinFunc ℝ)
    (alpha : ℝ) (cb : String) (x1 x2 : Arr ℝ) (fs : ℝ) (nx : ℤ) (pL : Arr ℕ) (pD : Arr (Arr ℕ)) (pf : Arr ℝ)
    (idx : List ℕ) (hQ : ∀ i ∈ idx, (bq (pL.get i) 1).m = 2) (hK : ∀ i ∈ idx, 0 < (pD.get i).n) (hb : ∀ i ∈ idx, BackendOk np6 (sel (pD.get i).n cb) (pD.get i).n)
    (hO : ∀ i ∈ idx, OrthoCols (bq (pL.get i) 1).get (pL.get i) 2)
    (hS : ∀ i ∈ idx, ∀ c d : ℝ, InSpan (bq (pL.get i) 1).get (pL.get i) 2 (fun n => c + d * n)) (a c : ℝ) :
    ((Gen._lpsd_core (genFamily np6) bq sel wf alpha 1 cb ⟨x1.n, fun m => x1.get m + (a + c * m)⟩ x2 false fs nx pL pD pf idx).2).map rowStats
      = ((Gen._lpsd_core (genFamily np6) bq sel wf alpha 1 cb x1 x2 false fs nx pL pD pf idx).2).map rowStats := by
  rw [gen_lpsd_core_eq_model np6 bq sel wf alpha 1 cb _ x2 false fs nx pL pD pf idx hb,
    gen_lpsd_core_eq_model np6 bq sel wf alpha 1 cb x1 x2 false fs nx pL pD pf idx hb]
  apply lpsdCore_order1_add_line_auto x1 x2 fs _ bq
  · intro b hb'
    obtain ⟨i, hi, rfl⟩ := List.mem_map.mp hb'
    exact hQ i hi
  · intro b hb'
    obtain ⟨i, hi, rfl⟩ := List.mem_map.mp hb'
    exact hK i hi
  · intro b hb'
    obtain ⟨i, hi, rfl⟩ := List.mem_map.mp hb'
    exact hO i hi
  · intro b hb'
    obtain ⟨i, hi, rfl⟩ := List.mem_map.mp hb'
    exact hS i hi

/-! ### the window handed to the kernels -/

/-- with NumPy's / SciPy's Kaiser window (contract `NpLC.kaiser`) the window built for `L` is the DFT-even `Model.kaiserWin L (alpha·π)`:
    the first `L` points of the `(L+1)`-point symmetric window -/
theorem lpsdWindow_kaiser (c1 : ℕ → Arr ℝ) (alpha : ℝ) (L : ℕ) :
    Model.lpsdWindow ⟨true, c1, NpLC.kaiser⟩ alpha L = ⟨L, Model.kaiserWin L (alpha * Real.pi)⟩ := by
  unfold Model.lpsdWindow NpLC.sliceTo NpLC.kaiser
  simp only [if_true]
  have h1 : ((-1 : ℤ) < 0) := by decide
  have h2 : Int.toNat (((L + 1 : ℕ) : ℤ) + -1) = L := by
    push_cast
    omega
  simp only [h1, if_true, h2, Nat.le_succ, Nat.add_sub_cancel]
  rfl

/-- a window of the right length never makes `_lpsd_core` raise: Kaiser case -/
theorem lpsdWindow_kaiser_len (c1 : ℕ → Arr ℝ) (alpha : ℝ) (L : ℕ) : (Model.lpsdWindow ⟨true, c1, NpLC.kaiser⟩ alpha L).n = L := by
  rw [lpsdWindow_kaiser]

/-- …and it is DFT-even: `w n = w (L − n)` for `0 < n < L` (transfer of `kaiserWin_dft_even`) -/
theorem lpsdWindow_kaiser_dft_even (c1 : ℕ → Arr ℝ) (alpha : ℝ) (L n : ℕ) (hn0 : 0 < n) (hn : n < L) :
    (Model.lpsdWindow ⟨true, c1, NpLC.kaiser⟩ alpha L).get n = (Model.lpsdWindow ⟨true, c1, NpLC.kaiser⟩ alpha L).get (L - n) := by
  rw [lpsdWindow_kaiser]
  exact kaiserWin_dft_even L (alpha * Real.pi) n hn0 hn

/-- any other window callable is asked for exactly `L` points -/
theorem lpsdWindow_other (c1 : ℕ → Arr ℝ) (c2 : ℕ → ℝ → Arr ℝ) (alpha : ℝ) (L : ℕ) :
    Model.lpsdWindow ⟨false, c1, c2⟩ alpha L = c1 L := by
  unfold Model.lpsdWindow
  simp

/-! ### the kernel section of `compute_single_bin` (analysis.py:608-759) -/

/-- the window closure of `compute_single_bin` (analysis.py:608-620; no cache): same rule as in `_lpsd_core` -/
theorem gen_single_window (wf : NpLC.WinFunc ℝ) (L : ℕ) (alpha : ℝ) :
    Gen.single_bin_kernel_section___build_window wf L alpha
      = (decide ((Model.lpsdWindow wf alpha L).n ≠ L), winEntry wf alpha L) := by
  unfold Gen.single_bin_kernel_section___build_window winEntry Model.lpsdWindow
  cases hk : wf.isKaiser <;> simp [NpLC.join_mk, mul_comm]

/-- what the kernel section of `compute_single_bin` stores under XX, YY, XY, S12, S2, M2 -/
noncomputable def singleOut (fam : NpLC.KernelFamily ℝ) (bq : ℕ → ℤ → Arr2 ℝ) (sel : ℕ → String → String) (wf : NpLC.WinFunc ℝ) (alpha : ℝ)
    (order : ℤ) (cb : String) (x1 x2 : Arr ℝ) (iscsd : Bool) (fs : ℝ) (freq : ℝ) (segL : ℕ) (starts : Arr ℕ) :
    ℝ × ℝ × Cx ℝ × ℝ × ℝ × ℝ :=
  let w := Model.lpsdWindow wf alpha segL
  let s := Model.dispatchWith (fam.pick (sel starts.n cb)) iscsd order x1 x2 fs ⟨freq, segL, starts⟩ w
    (if order = 1 ∨ order = 2 then some (bq segL order) else none)
  (s.1, s.2.1, ⟨s.2.2.1, s.2.2.2.1⟩, (Model.winSums w).1, (Model.winSums w).2, s.2.2.2.2)

set_option hygiene false in
macro "single_leaf" : tactic => `(tactic| (
  subst hst
  simp only [singleOut, winEntry, Model.dispatchWith, Model.winSums, NpLC.KernelFamily.pick, NpLC.sum, Arr.mul, two_lit, orderBad]
  simp [*, NpLC.join, RealLike.zero]))

set_option hygiene false in
macro "single_backends" : tactic => `(tactic| (
  by_cases hb1 : sel starts.n cb = "cuda"
  · simp only [hb1, decide_true, if_true, NpLC.join_mk] at hst
    single_leaf
  · by_cases hb2 : sel starts.n cb = "numba"
    · simp only [hb1, hb2, decide_true, decide_false, Bool.false_eq_true, if_true, if_false, NpLC.join_mk] at hst
      single_leaf
    · simp only [hb1, hb2, decide_false, Bool.false_eq_true, if_false, NpLC.join_mk] at hst
      single_leaf))

set_option hygiene false in
macro "single_modes" : tactic => `(tactic| (
  cases iscsd
  · simp only [Bool.false_eq_true, if_false] at hst
    single_backends
  · simp only [if_true] at hst
    single_backends))

/-- MAIN (single bin): the translated kernel section of `compute_single_bin` — its own `_build_window`, `omega`, `detrend_mode`, `Q` and
    the second copy of the 18-way dispatch — returns exactly what the model's dispatch gives on the one requested bin
    `⟨freq, segL, starts⟩` with the window built for `segL` as coded and the basis `_build_Q(segL, order)`, `S12 = (Σw)²`, `S2 = Σw²`;
    it raises exactly when the window callable returns another length than `segL`.
    Hypothesis `hord`: the orders the code accepts — for any other order it raises `ValueError("order must be one of {-1, 0, 1, 2}")`
    and no value exists (the straight-line value would be the `poly` branch on an empty basis). -/
theorem gen_single_bin_section_eq_model (fam : NpLC.KernelFamily ℝ) (bq : ℕ → ℤ → Arr2 ℝ) (sel : ℕ → String → String) (wf : NpLC.WinFunc ℝ)
    (alpha : ℝ) (order : ℤ) (hord : order = -1 ∨ order = 0 ∨ order = 1 ∨ order = 2) (cb : String) (x1 x2 : Arr ℝ) (iscsd : Bool) (fs : ℝ) (nx : ℤ)
    (freq fres : ℝ) (segL : ℕ) (starts : Arr ℕ) (out : Bool × (ℝ × ℝ × Cx ℝ × ℝ × ℝ × ℝ))
    (hst : Gen.single_bin_kernel_section fam bq sel wf alpha order cb x1 x2 iscsd fs nx freq fres segL starts = out) :
    out = (decide ((Model.lpsdWindow wf alpha segL).n ≠ segL),
        singleOut fam bq sel wf alpha order cb x1 x2 iscsd fs freq segL starts) := by
  unfold Gen.single_bin_kernel_section at hst
  simp only [gen_single_window] at hst
  rcases hord with ho | ho | ho | ho <;> subst ho <;>
    simp only [Int.reduceNeg, Int.reduceEq, String.reduceEq, decide_true, decide_false, Bool.false_eq_true, if_true, if_false,
      NpLC.join_mk, Bool.or_false, Bool.false_or, Bool.or_true, Bool.true_or] at hst <;>
    single_modes

/-- the single-bin path runs the same dispatch on one user-defined bin with a freshly built window and basis: on the translated kernels
    its kernel result is the one-element plan through `Model.lpsdCore` (transfer of `lpsdCore_single`) -/
theorem gen_single_bin_eq_lpsdCore (np6 : NpLC.Kernels6 ℝ) (bq : ℕ → ℤ → Arr2 ℝ) (sel : ℕ → String → String) (wf : NpLC.WinFunc ℝ)
    (alpha : ℝ) (order : ℤ) (hord : order = -1 ∨ order = 0 ∨ order = 1 ∨ order = 2) (cb : String) (x1 x2 : Arr ℝ) (iscsd : Bool) (fs : ℝ) (nx : ℤ)
    (freq fres : ℝ) (segL : ℕ) (starts : Arr ℕ) (hb : BackendOk np6 (sel starts.n cb) starts.n) :
    let o := (Gen.single_bin_kernel_section (genFamily np6) bq sel wf alpha order cb x1 x2 iscsd fs nx freq fres segL starts).2
    [(o.1, o.2.1, o.2.2.1.re, o.2.2.1.im, o.2.2.2.2.2)]
        = Model.lpsdCore iscsd order x1 x2 fs (Model.lpsdWindow wf alpha) bq [⟨freq, segL, starts⟩] ∧
      (o.2.2.2.1, o.2.2.2.2.1) = Model.winSums (Model.lpsdWindow wf alpha segL) := by
  intro o
  have h := gen_single_bin_section_eq_model (genFamily np6) bq sel wf alpha order hord cb x1 x2 iscsd fs nx freq fres segL starts _ rfl
  have ho : o = singleOut (genFamily np6) bq sel wf alpha order cb x1 x2 iscsd fs freq segL starts := by
    simp only [o, h]
  rw [ho, lpsdCore_single]
  unfold singleOut
  dsimp only
  rw [dispatchWith_genFamily np6 _ iscsd order x1 x2 fs ⟨freq, segL, starts⟩ hb]
  exact ⟨rfl, rfl⟩

/-! ### plan(): validation -/

theorem range_map_getD {β : Type} (l : List β) (d : β) : (List.range l.length).map (fun j => l.getD j d) = l := by
  apply List.ext_getElem
  · simp
  · intro i h1 h2
    simp only [List.length_map, List.length_range] at h1
    simp [h1]

theorem range_map_comp_getD {β γ : Type} (l : List β) (d : β) (h : β → γ) :
    (List.range l.length).map (fun j => h (l.getD j d)) = l.map h := by
  conv_rhs => rw [← range_map_getD l d]
  rw [List.map_map]
  rfl

theorem np_any_intArr (l : List ℤ) (p : ℤ → Bool) :
    NpLC.any ⟨(Model.intArr l).n, fun j => p ((Model.intArr l).get j)⟩ = l.any p := by
  unfold NpLC.any Model.intArr
  dsimp only
  conv_rhs => rw [← range_map_getD l 0]
  rw [List.any_map]
  rfl

theorem all_range_eq_not_any (l : List ℤ) (M : ℤ) :
    l.all (fun d => decide (0 ≤ d) && decide (d ≤ M)) = !(l.any (fun d => decide (d < 0)) || l.any (fun d => decide (d > M))) := by
  induction l with
  | nil => rfl
  | cons a t ih =>
    simp only [List.all_cons, List.any_cons, ih]
    have h1 : decide (0 ≤ a) = !decide (a < 0) := by
      by_cases h : a < 0 <;> simp [h, not_le.mpr, le_of_not_gt]
    have h2 : decide (a ≤ M) = !decide (a > M) := by
      by_cases h : a > M <;> simp [h, not_le.mpr, le_of_not_gt]
    rw [h1, h2]
    generalize decide (a < 0) = A
    generalize decide (a > M) = B
    generalize List.any t (fun d => decide (d < 0)) = C
    generalize List.any t (fun d => decide (d > M)) = D
    cases A <;> cases B <;> cases C <;> cases D <;> rfl

/-- the per-bin tests of `plan()` on the parallel arrays (analysis.py:476-498) -/
def binInvalid (Lmin : ℤ) (isLpsd : Bool) (N : ℤ) (pL pK : Arr ℤ) (pD : Arr (Arr ℤ)) (i : ℕ) : Bool :=
  ((decide (pL.get i < Lmin) && !isLpsd) || decide (pL.get i < 1)) || decide ((pD.get i).n = 0) ||
  (NpLC.any ⟨(pD.get i).n, fun j => decide ((pD.get i).get j < 0)⟩ ||
    NpLC.any ⟨(pD.get i).n, fun j => decide ((pD.get i).get j > N - pL.get i)⟩) ||
  decide (pK.get i ≠ ((pD.get i).n : ℤ))

theorem gen_plan_validate_step (Lmin : ℤ) (isLpsd : Bool) (nx : ℤ) (f r b : Arr ℝ) (pL pK navg : Arr ℤ) (O : Arr ℝ) (pD : Arr (Arr ℤ))
    (rs : Bool) (Dn : List (Arr ℤ)) (i : ℕ) :
    Gen.plan_validate_loop1 Lmin isLpsd nx f r b pL pK navg O pD nx (rs, Dn) i
      = (rs || binInvalid Lmin isLpsd nx pL pK pD i, Dn ++ [pD.get i]) := by
  unfold Gen.plan_validate_loop1 binInvalid
  simp only [NpLC.join_mk, ne_eq, not_true_eq_false, decide_false, Bool.or_false, Bool.or_assoc]

theorem gen_plan_validate_arrays (Lmin : ℤ) (isLpsd : Bool) (nx : ℤ) (f r b : Arr ℝ) (pL pK navg : Arr ℤ) (O : Arr ℝ) (pD : Arr (Arr ℤ)) :
    Gen.plan_validate Lmin isLpsd nx f r b pL pK navg O pD
      = ((!([f.n, r.n, b.n, pL.n, pK.n, navg.n, O.n].all (fun n => decide (n = f.n))) || decide (pD.n ≠ f.n)) ||
          (List.range pD.n).any (binInvalid Lmin isLpsd nx pL pK pD),
         ((f.n : ℤ), NpLC.ofList (⟨0, fun _ => 0⟩ : Arr ℤ) ((List.range pD.n).map pD.get))) := by
  unfold Gen.plan_validate
  have key := foldl_inv (fun pre (st : Bool × List (Arr ℤ)) =>
      st = ((!([f.n, r.n, b.n, pL.n, pK.n, navg.n, O.n].all (fun n => decide (n = f.n))) || decide (pD.n ≠ f.n)) ||
          pre.any (binInvalid Lmin isLpsd nx pL pK pD), pre.map pD.get))
    (Gen.plan_validate_loop1 Lmin isLpsd nx f r b pL pK navg O pD nx) (List.range pD.n)
    (false || !([f.n, r.n, b.n, pL.n, pK.n, navg.n, O.n].all (fun L => decide (L = [f.n, r.n, b.n, pL.n, pK.n, navg.n, O.n].getD 0 0))) ||
      (!true || decide (pD.n ≠ [f.n, r.n, b.n, pL.n, pK.n, navg.n, O.n].getD 0 0)), [])
    (by simp)
    (by
      rintro pre i ⟨rs, Dn⟩ h
      rw [gen_plan_validate_step, Prod.mk.injEq] at *
      obtain ⟨h1, h2⟩ := h
      subst h1 h2
      simp [Bool.or_assoc])
  simp only [NpLC.join]
  rw [key]
  simp


/-! ### a plan given as a list of bins, laid out as `plan()` sees it -/

noncomputable def colR (g : Model.Bin ℝ → ℝ) (bins : List (Model.Bin ℝ)) : Arr ℝ := Model.colOf 0 g bins
def colZ (g : Model.Bin ℝ → ℤ) (bins : List (Model.Bin ℝ)) : Arr ℤ := Model.colOf 0 g bins
def colD (bins : List (Model.Bin ℝ)) : Arr (Arr ℤ) := Model.colOf (⟨0, fun _ => 0⟩ : Arr ℤ) (fun b => Model.intArr b.D) bins

theorem colOf_get {B β : Type} (dflt : β) (g : B → β) (bins : List B) (i : ℕ) (h : i < bins.length) :
    (Model.colOf dflt g bins).get i = g bins[i] := by
  simp [Model.colOf, h]

theorem binInvalid_eq_not_planValid (N Lmin : ℕ) (isLpsd : Bool) (bins : List (Model.Bin ℝ)) (i : ℕ) (h : i < bins.length) :
    binInvalid (Lmin : ℤ) isLpsd (N : ℤ) (colZ (fun b => (b.L : ℤ)) bins) (colZ (fun b => b.K) bins) (colD bins) i
      = !(planValid N Lmin isLpsd bins[i]) := by
  unfold binInvalid planValid colZ colD
  simp only [colOf_get _ _ bins i h]
  rw [np_any_intArr bins[i].D (fun d => decide (d < 0)), np_any_intArr bins[i].D (fun d => decide (d > (N : ℤ) - (bins[i].L : ℤ))),
    all_range_eq_not_any]
  have e1 : decide ((bins[i].L : ℤ) < (Lmin : ℤ)) = decide (bins[i].L < Lmin) := by
    apply decide_eq_decide.mpr; omega
  have e2 : decide ((bins[i].L : ℤ) < 1) = decide (bins[i].L < 1) := by
    apply decide_eq_decide.mpr; omega
  have e3 : decide ((Model.intArr bins[i].D).n = 0) = bins[i].D.isEmpty := by
    cases bins[i].D <;> simp [Model.intArr]
  have e4 : decide (bins[i].K ≠ (((Model.intArr bins[i].D).n : ℕ) : ℤ)) = !decide (bins[i].K = (bins[i].D.length : ℤ)) := by
    simp [Model.intArr]
  rw [e1, e2, e3, e4]
  generalize decide (bins[i].L < Lmin) = A
  generalize decide (bins[i].L < 1) = B
  generalize bins[i].D.isEmpty = C
  generalize (List.any bins[i].D (fun d => decide (d < 0)) || List.any bins[i].D (fun d => decide (d > (N : ℤ) - (bins[i].L : ℤ)))) = D
  generalize decide (bins[i].K = (bins[i].D.length : ℤ)) = E
  cases A <;> cases B <;> cases C <;> cases D <;> cases E <;> cases isLpsd <;> rfl

theorem any_range_eq_not_all {B : Type} (bins : List B) (q : ℕ → Bool) (p : B → Bool)
    (h : ∀ i (hi : i < bins.length), q i = !(p bins[i])) : (List.range bins.length).any q = !(bins.all p) := by
  rw [Bool.eq_iff_iff]
  simp only [List.any_eq_true, List.mem_range, Bool.not_eq_true', List.all_eq_false]
  constructor
  · rintro ⟨i, hi, hq⟩
    rw [h i hi] at hq
    exact ⟨bins[i], List.getElem_mem hi, by simpa using hq⟩
  · rintro ⟨b, hb, hp⟩
    obtain ⟨i, hi, rfl⟩ := List.getElem_of_mem hb
    exact ⟨i, hi, by rw [h i hi]; simpa using hp⟩

/-- MAIN (validation): on a plan given by its bins the translated validation raises exactly when some bin fails `planValid`
    (Props/C02), and otherwise hands on `nf = number of bins` and the bins' own start lists -/
theorem gen_plan_validate_eq_model (N Lmin : ℕ) (isLpsd : Bool) (bins : List (Model.Bin ℝ)) :
    Gen.plan_validate (Lmin : ℤ) isLpsd (N : ℤ) (colR (fun b => b.f) bins) (colR (fun b => b.r) bins) (colR (fun b => b.b) bins)
        (colZ (fun b => (b.L : ℤ)) bins) (colZ (fun b => b.K) bins) (colZ (fun b => b.navg) bins) (colR (fun b => b.O) bins) (colD bins)
      = (!(bins.all (planValid N Lmin isLpsd)),
          ((bins.length : ℤ), NpLC.ofList (⟨0, fun _ => 0⟩ : Arr ℤ) (bins.map (fun b => Model.intArr b.D)))) := by
  rw [gen_plan_validate_arrays]
  have hn : (colD bins).n = bins.length := rfl
  rw [hn, any_range_eq_not_all bins _ (planValid N Lmin isLpsd) (binInvalid_eq_not_planValid N Lmin isLpsd bins)]
  have hD : (List.range bins.length).map (colD bins).get = bins.map (fun b => Model.intArr b.D) := by
    unfold colD Model.colOf
    have := range_map_getD (bins.map (fun b => Model.intArr b.D)) (⟨0, fun _ => 0⟩ : Arr ℤ)
    rw [List.length_map] at this
    exact this
  rw [hD]
  simp [colR, colZ, Model.colOf]

/-- transfer of `planValidate_ok`: a plan all of whose bins are safe (what C02 proves of the schedulers) passes the translated validation -/
theorem gen_plan_validate_accepts_safe (N Lmin : ℕ) (bins : List (Model.Bin ℝ)) (h : ∀ b ∈ bins, BinSafe N Lmin b) :
    (Gen.plan_validate (Lmin : ℤ) false (N : ℤ) (colR (fun b => b.f) bins) (colR (fun b => b.r) bins) (colR (fun b => b.b) bins)
        (colZ (fun b => (b.L : ℤ)) bins) (colZ (fun b => b.K) bins) (colZ (fun b => b.navg) bins) (colR (fun b => b.O) bins) (colD bins)).1
      = false := by
  rw [gen_plan_validate_eq_model]
  simp only [Bool.not_eq_false', List.all_eq_true]
  intro b hb
  exact planValidate_ok N Lmin b (h b hb)

/-! ### plan(): band restriction -/

theorem toList_length {β : Type} (a : Arr β) : (NpLC.toList a).length = a.n := by simp [NpLC.toList]

theorem toList_ofList {β : Type} (d : β) (l : List β) : NpLC.toList (NpLC.ofList d l) = l := by
  unfold NpLC.toList NpLC.ofList
  exact range_map_getD l d

/-- boolean-mask selection of a column = the column of the filtered bins -/
theorem toList_maskSelect_col {B β : Type} (d0 : B) (dflt : β) (g : B → β) (bins : List B) (p : B → Bool) (mask : Arr Bool)
    (hm : ∀ i (hi : i < bins.length), mask.get i = p bins[i]) :
    NpLC.toList (NpLC.maskSelect (Model.colOf dflt g bins) mask) = (bins.filter p).map g := by
  unfold NpLC.toList NpLC.maskSelect
  dsimp only
  rw [range_map_comp_getD ((List.range (Model.colOf dflt g bins).n).filter mask.get) 0 (Model.colOf dflt g bins).get]
  have hn : (Model.colOf dflt g bins).n = bins.length := rfl
  rw [hn]
  have hb : bins = (List.range bins.length).map (fun i => bins.getD i d0) := (range_map_getD bins d0).symm
  conv_rhs => rw [hb, List.filter_map, List.map_map]
  have hf : (List.range bins.length).filter mask.get = (List.range bins.length).filter (p ∘ fun i => bins.getD i d0) := by
    apply List.filter_congr
    intro i hi
    have hi' := List.mem_range.mp hi
    simp [hm i hi', hi']
  rw [hf]
  apply List.map_congr_left
  intro i hi
  have hi' : i < bins.length := List.mem_range.mp (List.mem_filter.mp hi).1
  simp [colOf_get dflt g bins i hi', hi']

theorem zipFilter_col {B β : Type} (d0 : B) (h : B → β) (bins : List B) (p : B → Bool) (mask : Arr Bool) (hn : mask.n = bins.length)
    (hm : ∀ i (hi : i < bins.length), mask.get i = p bins[i]) :
    NpLC.zipFilter (bins.map h) mask = (bins.filter p).map h := by
  unfold NpLC.zipFilter
  rw [hn]
  have hb : bins = (List.range bins.length).map (fun i => bins.getD i d0) := (range_map_getD bins d0).symm
  have hmask : (List.range bins.length).map mask.get = bins.map p := by
    conv_rhs => rw [hb, List.map_map]
    apply List.map_congr_left
    intro i hi
    have hi' := List.mem_range.mp hi
    simp [hm i hi', hi']
  rw [hmask, List.zip_map', List.filter_map, List.map_map]
  rfl

theorem isfinite_real (x : ℝ) : NpLC.isfinite x = true := by
  simp [NpLC.isfinite]

theorem np_any_mask {B : Type} (bins : List B) (p : B → Bool) (mask : Arr Bool) (hn : mask.n = bins.length)
    (hm : ∀ i (hi : i < bins.length), mask.get i = p bins[i]) : NpLC.any mask = !(bins.filter p).isEmpty := by
  unfold NpLC.any
  rw [hn, Bool.eq_iff_iff]
  simp only [List.any_eq_true, List.mem_range, Bool.not_eq_true', List.isEmpty_eq_false_iff, ne_eq, List.filter_eq_nil_iff,
    not_forall, Bool.not_eq_true, Bool.not_eq_false]
  constructor
  · rintro ⟨i, hi, hq⟩
    exact ⟨bins[i], List.getElem_mem hi, by rw [← hm i hi]; exact hq⟩
  · rintro ⟨b, hb, hp⟩
    obtain ⟨i, hi, rfl⟩ := List.getElem_of_mem hb
    exact ⟨i, hi, by rw [hm i hi]; exact hp⟩

def bin0 : Model.Bin ℝ := ⟨0, 0, 0, 0, 0, 0, [], 0⟩

/-- MAIN (band): with `band = (lo, hi)` EVERY per-bin field of the plan — f, r, b, L, K, navg, O and the ragged D — becomes the field of
    `Model.bandFilter` applied to the bins (inclusive edges `lo ≤ f ≤ hi`, one mask for all fields, so they stay aligned), `nf` becomes the
    number of bins kept, and the function raises exactly for `hi < lo` or an empty selection -/
theorem gen_plan_band_eq_model (lo hi : ℝ) (bins : List (Model.Bin ℝ)) (nf0 : ℤ) (pD0 : Arr (Arr ℤ)) :
    let kept := Model.bandFilter (fun b => b.f) lo hi bins
    let out := Gen.plan_band (some (lo, hi)) (colR (fun b => b.f) bins) (colR (fun b => b.r) bins) (colR (fun b => b.b) bins)
      (colZ (fun b => (b.L : ℤ)) bins) (colZ (fun b => b.K) bins) (colZ (fun b => b.navg) bins) (colR (fun b => b.O) bins) pD0 nf0
      (bins.map (fun b => Model.intArr b.D))
    out.1 = (!(decide (lo ≤ hi)) || kept.isEmpty) ∧
    NpLC.toList out.2.1 = kept.map (fun b => b.f) ∧ NpLC.toList out.2.2.1 = kept.map (fun b => b.r) ∧
    NpLC.toList out.2.2.2.1 = kept.map (fun b => b.b) ∧ NpLC.toList out.2.2.2.2.1 = kept.map (fun b => (b.L : ℤ)) ∧
    NpLC.toList out.2.2.2.2.2.1 = kept.map (fun b => b.K) ∧ NpLC.toList out.2.2.2.2.2.2.1 = kept.map (fun b => b.navg) ∧
    NpLC.toList out.2.2.2.2.2.2.2.1 = kept.map (fun b => b.O) ∧
    NpLC.toList out.2.2.2.2.2.2.2.2.1 = kept.map (fun b => Model.intArr b.D) ∧
    out.2.2.2.2.2.2.2.2.2 = (kept.length : ℤ) := by
  intro kept out
  -- the mask the code builds, and what it means on the bins
  let mask : Arr Bool := ⟨bins.length, fun i => RealLike.ge ((colR (fun b => b.f) bins).get i) lo && RealLike.le ((colR (fun b => b.f) bins).get i) hi⟩
  let p : Model.Bin ℝ → Bool := fun b => RealLike.ge b.f lo && RealLike.le b.f hi
  have hm : ∀ i (hi' : i < bins.length), mask.get i = p bins[i] := by
    intro i hi'
    simp only [mask, p, colR, colOf_get _ _ bins i hi']
  have hkept : kept = bins.filter p := rfl
  have hout : out = ((!(decide (lo ≤ hi)) || !(NpLC.any mask)) ||
        decide ((NpLC.maskSelect (colR (fun b => b.f) bins) mask).n ≠ (NpLC.ofList (⟨0, fun _ => 0⟩ : Arr ℤ) (NpLC.zipFilter (bins.map (fun b => Model.intArr b.D)) mask)).n),
      NpLC.maskSelect (colR (fun b => b.f) bins) mask, NpLC.maskSelect (colR (fun b => b.r) bins) mask, NpLC.maskSelect (colR (fun b => b.b) bins) mask,
      NpLC.maskSelect (colZ (fun b => (b.L : ℤ)) bins) mask, NpLC.maskSelect (colZ (fun b => b.K) bins) mask, NpLC.maskSelect (colZ (fun b => b.navg) bins) mask,
      NpLC.maskSelect (colR (fun b => b.O) bins) mask,
      NpLC.ofList (⟨0, fun _ => 0⟩ : Arr ℤ) (NpLC.zipFilter (bins.map (fun b => Model.intArr b.D)) mask),
      ((NpLC.maskSelect (colR (fun b => b.f) bins) mask).n : ℤ)) := by
    simp only [out, Gen.plan_band, NpLC.join_mk, isfinite_real, Bool.true_and, RL.ge_eq, Bool.false_or]
    rfl
  have hD := zipFilter_col bin0 (fun b => Model.intArr b.D) bins p mask rfl hm
  have hf := toList_maskSelect_col bin0 (0 : ℝ) (fun b => b.f) bins p mask hm
  have hlen : (NpLC.maskSelect (colR (fun b => b.f) bins) mask).n = kept.length := by
    have := congrArg List.length hf
    rw [toList_length, List.length_map] at this
    exact this
  rw [hout]
  refine ⟨?_, hf, toList_maskSelect_col bin0 (0 : ℝ) (fun b => b.r) bins p mask hm,
    toList_maskSelect_col bin0 (0 : ℝ) (fun b => b.b) bins p mask hm,
    toList_maskSelect_col bin0 (0 : ℤ) (fun b => (b.L : ℤ)) bins p mask hm,
    toList_maskSelect_col bin0 (0 : ℤ) (fun b => b.K) bins p mask hm,
    toList_maskSelect_col bin0 (0 : ℤ) (fun b => b.navg) bins p mask hm,
    toList_maskSelect_col bin0 (0 : ℝ) (fun b => b.O) bins p mask hm, ?_, ?_⟩
  · dsimp only
    rw [hlen, np_any_mask bins p mask rfl hm, hD]
    simp [NpLC.ofList, hkept]
  · dsimp only
    rw [toList_ofList, hD, hkept]
  · dsimp only
    rw [hlen]

/-- without a band the plan is handed on unchanged -/
theorem gen_plan_band_none (f r b : Arr ℝ) (pL pK navg : Arr ℤ) (O : Arr ℝ) (pD : Arr (Arr ℤ)) (nf : ℤ) (Dn : List (Arr ℤ)) :
    Gen.plan_band (none : Option (ℝ × ℝ)) f r b pL pK navg O pD nf Dn = (decide (f.n ≠ pD.n), (f, r, b, pL, pK, navg, O, pD, nf)) := by
  simp [Gen.plan_band, NpLC.join_mk]

/-! ### follow-up: all three backends concrete — the `_np` names are the TRANSLATED NumPy fallbacks (Gen/NumpyKernels)

The fallbacks take two more arguments than the Numba kernels: the keyword-only `_chunk` (the analyzer never passes it: the default of
the Python signature, translated as `Gen._stats_*_np_chunk_default`) and `uninit` (the contents of `np.empty`, arbitrary).  Starts are
`Arr ℕ` and the basis an `Arr2` on both sides, so no conversion is needed.  `np_numba_agree_*` (Props/NumpyKernelsGen) hold for every
segment count including 0, hence no `0 < K` and no in-range hypothesis is left; the two polynomial kernels need the basis to have
at least two columns (`np_numba_agree_poly_*` hold for every basis with `p + 1 ≥ 2` columns, whatever `p`): true of what `_build_Q(L, order)`
returns for every `L ≥ 2` — `min(L, order+1)` columns — including the short segments `L ≤ order`. -/

/-- the six NumPy fallbacks as translated, called the way analysis.py calls them (default `_chunk`), for any uninitialised memory `u` -/
noncomputable def genNp6 (u : ℕ → ℕ → ℝ) : NpLC.Kernels6 ℝ :=
  ⟨fun x s L w ω => Gen._stats_win_only_auto_np x s L w ω Gen._stats_win_only_auto_np_chunk_default u,
   fun x1 x2 s L w ω => Gen._stats_win_only_csd_np x1 x2 s L w ω Gen._stats_win_only_csd_np_chunk_default u,
   fun x s L w ω => Gen._stats_detrend0_auto_np x s L w ω Gen._stats_detrend0_auto_np_chunk_default u,
   fun x1 x2 s L w ω => Gen._stats_detrend0_csd_np x1 x2 s L w ω Gen._stats_detrend0_csd_np_chunk_default u,
   fun x s L w ω Q => Gen._stats_poly_auto_np x s L w ω Q Gen._stats_poly_auto_np_chunk_default u,
   fun x1 x2 s L w ω Q => Gen._stats_poly_csd_np x1 x2 s L w ω Q Gen._stats_poly_csd_np_chunk_default u⟩

/-- the family the analyzer really runs: every one of the 18 names is translated code -/
noncomputable def genFamilyAll (u : ℕ → ℕ → ℝ) : NpLC.KernelFamily ℝ := NpLC.KernelFamily.ofBackends genNumba6 genCuda6 (genNp6 u)

/-- dispatch over the translated NumPy fallbacks = `Model.dispatch` (the Numba instance); only hypothesis: for orders 1, 2 the basis
    handed over has at least two columns (in particular: `order + 1` columns) -/
theorem dispatchWith_genNp6 (u : ℕ → ℕ → ℝ) (iscsd : Bool) (order : ℤ) (x1 x2 : Arr ℝ) (fs : ℝ) (b : Model.PBin ℝ) (w : Arr ℝ)
    (q : Option (Arr2 ℝ)) (hQ : order = 1 ∨ order = 2 → ∀ Q, q = some Q → 2 ≤ Q.m) :
    Model.dispatchWith (genNp6 u) iscsd order x1 x2 fs b w q = Model.dispatch iscsd order x1 x2 fs b w q := by
  obtain ⟨c1, c2, c3, c4, c5, c6⟩ := gen_np_default_chunks_pos
  unfold Model.dispatchWith Model.dispatch genNp6
  dsimp only
  by_cases ho1 : order = -1
  · simp only [ho1, if_true, np_numba_agree_win_only_auto _ _ _ _ _ _ c1, np_numba_agree_win_only_csd _ _ _ _ _ _ _ c2]
  · by_cases ho0 : order = 0
    · simp only [ho0, if_true, np_numba_agree_detrend0_auto _ _ _ _ _ _ c3, np_numba_agree_detrend0_csd _ _ _ _ _ _ _ c4]
      rfl
    · by_cases ho12 : order = 1 ∨ order = 2
      · simp only [if_neg ho1, if_neg ho0, if_pos ho12]
        cases q with
        | none => rfl
        | some Q =>
          have h2 : 2 ≤ Q.m := hQ ho12 Q rfl
          have hp : 1 ≤ Q.m - 1 := by omega
          have hm : Q.m = (Q.m - 1) + 1 := by omega
          simp only [np_numba_agree_poly_auto _ _ _ _ _ Q (Q.m - 1) hp hm _ c5,
            np_numba_agree_poly_csd _ _ _ _ _ _ Q (Q.m - 1) hp hm _ c6]
      · simp only [if_neg ho1, if_neg ho0, if_neg ho12]

/-- ANY backend string `_select_backend` may return ("cuda", "numba", or anything else = the NumPy fallbacks): the kernels selected by
    NAME give `Model.dispatch` -/
theorem dispatchWith_genFamilyAll (u : ℕ → ℕ → ℝ) (backend : String) (iscsd : Bool) (order : ℤ) (x1 x2 : Arr ℝ) (fs : ℝ)
    (b : Model.PBin ℝ) (w : Arr ℝ) (q : Option (Arr2 ℝ)) (hQ : order = 1 ∨ order = 2 → ∀ Q, q = some Q → 2 ≤ Q.m) :
    Model.dispatchWith ((genFamilyAll u).pick backend) iscsd order x1 x2 fs b w q = Model.dispatch iscsd order x1 x2 fs b w q := by
  by_cases h1 : backend = "cuda"
  · subst h1
    have : (genFamilyAll u).pick "cuda" = genCuda6 := rfl
    rw [this, genCuda6_eq_genNumba6, dispatchWith_numba]
  · by_cases h2 : backend = "numba"
    · subst h2
      have : (genFamilyAll u).pick "numba" = genNumba6 := rfl
      rw [this, dispatchWith_numba]
    · have : (genFamilyAll u).pick backend = genNp6 u := by
        unfold genFamilyAll NpLC.KernelFamily.pick NpLC.KernelFamily.ofBackends
        simp only [h1, h2, if_false]
      rw [this, dispatchWith_genNp6 u iscsd order x1 x2 fs b w q hQ]

theorem hQ_of_cols (bq : ℕ → ℤ → Arr2 ℝ) (order : ℤ) (L : ℕ) (hQ : order = 1 ∨ order = 2 → 2 ≤ (bq L order).m) :
    order = 1 ∨ order = 2 → ∀ Q, (if order = 1 ∨ order = 2 then some (bq L order) else none) = some Q → 2 ≤ Q.m := by
  intro h Q hq
  rw [if_pos h, Option.some.injEq] at hq
  subst hq
  exact hQ h

/-- `order + 1` columns are at least two columns for the polynomial orders -/
theorem two_le_of_cols (order : ℤ) (h : order = 1 ∨ order = 2) (m : ℕ) (hm : m = (order + 1).toNat) : 2 ≤ m := by
  obtain ⟨hp, hp1, _⟩ := toNat_succ_cast order h
  omega

/-- MAIN, all backends: the translated `_lpsd_core` run on the 18 translated kernels computes `Model.lpsdCore`, whatever
    `_select_backend` answers for each bin, for every plan (empty segment lists included), every chunking memory `u`.
    Remaining hypothesis: for orders 1, 2 `_build_Q(L, order)` has at least two columns AT THE SEGMENT LENGTHS OF THE BINS READ
    (the library's own basis has `min(L, order+1)` columns: true of it exactly for `L ≥ 2`; the NumPy fallbacks need it). -/
theorem gen_lpsd_core_eq_model_all_backends (u : ℕ → ℕ → ℝ) (bq : ℕ → ℤ → Arr2 ℝ) (sel : ℕ → String → String) (wf : NpLC.WinFunc ℝ)
    (alpha : ℝ) (order : ℤ)
    (cb : String) (x1 x2 : Arr ℝ) (iscsd : Bool) (fs : ℝ) (nx : ℤ) (pL : Arr ℕ) (pD : Arr (Arr ℕ)) (pf : Arr ℝ) (idx : List ℕ)
    (hQ : order = 1 ∨ order = 2 → ∀ i ∈ idx, 2 ≤ (bq (pL.get i) order).m) :
    ((Gen._lpsd_core (genFamilyAll u) bq sel wf alpha order cb x1 x2 iscsd fs nx pL pD pf idx).2).map rowStats
      = Model.lpsdCore iscsd order x1 x2 fs (Model.lpsdWindow wf alpha) bq (idx.map (Model.pbinAt pf pL pD)) := by
  rw [gen_lpsd_core_rows, lpsdCore_eq_map, List.map_map, List.map_map]
  apply List.map_congr_left
  intro i hi
  simp only [Function.comp, rowAt, rowStats_lpsdRow]
  exact dispatchWith_genFamilyAll u _ iscsd order x1 x2 fs (Model.pbinAt pf pL pD i) _ _ (hQ_of_cols bq order _ (fun h => hQ h i hi))

/-- every bin of the translated analysis = the reference estimator on its own (f, L, D), ALL backends, cross mode.  Hypotheses: a supported
    order (the code raises otherwise), for the polynomial orders `_build_Q(L, order)` with `order + 1` columns AT THE SEGMENT LENGTHS OF THE
    BINS READ (true of the library's basis for `L ≥ order + 1`; Props/PipelineClosed instantiates it and treats the shorter segments), at least
    one segment per bin (plan() rejects empty D; the reference divides by K). -/
theorem gen_lpsd_core_eq_ref_all_backends_cross (u : ℕ → ℕ → ℝ) (bq : ℕ → ℤ → Arr2 ℝ) (sel : ℕ → String → String) (wf : NpLC.WinFunc ℝ)
    (alpha : ℝ) (order : ℤ) (hord : order = -1 ∨ order = 0 ∨ order = 1 ∨ order = 2)
    (cb : String) (x1 x2 : Arr ℝ) (fs : ℝ) (nx : ℤ) (pL : Arr ℕ) (pD : Arr (Arr ℕ)) (pf : Arr ℝ)
    (idx : List ℕ) (hQ : order = 1 ∨ order = 2 → ∀ i ∈ idx, (bq (pL.get i) order).m = (order + 1).toNat) (hK : ∀ i ∈ idx, 0 < (pD.get i).n) :
    ((Gen._lpsd_core (genFamilyAll u) bq sel wf alpha order cb x1 x2 true fs nx pL pD pf idx).2).map rowStats
      = idx.map (fun i => Model.refStats order (bq (pL.get i) order).get x1.get x2.get (pD.get i).get (pD.get i).n (pL.get i)
          (Model.lpsdWindow wf alpha (pL.get i)).get (2 * Real.pi * pf.get i / fs)) := by
  rw [gen_lpsd_core_eq_model_all_backends u bq sel wf alpha order cb x1 x2 true fs nx pL pD pf idx
      (fun h i hi => two_le_of_cols order h _ (hQ h i hi)),
    lpsdCore_eq_ref_cross order hord x1 x2 fs _ bq, List.map_map]
  · rfl
  · intro h b hb'
    obtain ⟨i, hi, rfl⟩ := List.mem_map.mp hb'
    exact hQ h i hi
  · intro b hb'
    obtain ⟨i, hi, rfl⟩ := List.mem_map.mp hb'
    exact hK i hi

/-- the same in auto mode -/
theorem gen_lpsd_core_eq_ref_all_backends_auto (u : ℕ → ℕ → ℝ) (bq : ℕ → ℤ → Arr2 ℝ) (sel : ℕ → String → String) (wf : NpLC.WinFunc ℝ)
    (alpha : ℝ) (order : ℤ) (hord : order = -1 ∨ order = 0 ∨ order = 1 ∨ order = 2)
    (cb : String) (x1 x2 : Arr ℝ) (fs : ℝ) (nx : ℤ) (pL : Arr ℕ) (pD : Arr (Arr ℕ)) (pf : Arr ℝ)
    (idx : List ℕ) (hQ : order = 1 ∨ order = 2 → ∀ i ∈ idx, (bq (pL.get i) order).m = (order + 1).toNat) (hK : ∀ i ∈ idx, 0 < (pD.get i).n) :
    ((Gen._lpsd_core (genFamilyAll u) bq sel wf alpha order cb x1 x2 false fs nx pL pD pf idx).2).map rowStats
      = idx.map (fun i => Model.refStatsAuto order (bq (pL.get i) order).get x1.get (pD.get i).get (pD.get i).n (pL.get i)
          (Model.lpsdWindow wf alpha (pL.get i)).get (2 * Real.pi * pf.get i / fs)) := by
  rw [gen_lpsd_core_eq_model_all_backends u bq sel wf alpha order cb x1 x2 false fs nx pL pD pf idx
      (fun h i hi => two_le_of_cols order h _ (hQ h i hi)),
    lpsdCore_eq_ref_auto order hord x1 x2 fs _ bq, List.map_map]
  · rfl
  · intro h b hb'
    obtain ⟨i, hi, rfl⟩ := List.mem_map.mp hb'
    exact hQ h i hi
  · intro b hb'
    obtain ⟨i, hi, rfl⟩ := List.mem_map.mp hb'
    exact hK i hi

/-- the kernel section of `compute_single_bin` on the 18 translated kernels, ALL backends: its six stored values are `Model.dispatch` on the
    requested bin (= the one-element plan through `Model.lpsdCore`) and `Model.winSums` of the window built for `segL`.
    Hypotheses: supported order (the code raises otherwise); for orders 1, 2 `_build_Q(segL, order)` — at the requested segment length only —
    with at least two columns (true of the library's basis for `segL ≥ 2`). -/
theorem gen_single_bin_section_all_backends (u : ℕ → ℕ → ℝ) (bq : ℕ → ℤ → Arr2 ℝ) (sel : ℕ → String → String) (wf : NpLC.WinFunc ℝ)
    (alpha : ℝ) (order : ℤ) (hord : order = -1 ∨ order = 0 ∨ order = 1 ∨ order = 2)
    (cb : String) (x1 x2 : Arr ℝ) (iscsd : Bool) (fs : ℝ) (nx : ℤ)
    (freq fres : ℝ) (segL : ℕ) (starts : Arr ℕ) (hQ : order = 1 ∨ order = 2 → 2 ≤ (bq segL order).m) :
    Gen.single_bin_kernel_section (genFamilyAll u) bq sel wf alpha order cb x1 x2 iscsd fs nx freq fres segL starts
      = (decide ((Model.lpsdWindow wf alpha segL).n ≠ segL),
          (let s := Model.dispatch iscsd order x1 x2 fs ⟨freq, segL, starts⟩ (Model.lpsdWindow wf alpha segL)
              (if order = 1 ∨ order = 2 then some (bq segL order) else none)
           (s.1, s.2.1, (⟨s.2.2.1, s.2.2.2.1⟩ : Cx ℝ), (Model.winSums (Model.lpsdWindow wf alpha segL)).1,
            (Model.winSums (Model.lpsdWindow wf alpha segL)).2, s.2.2.2.2))) := by
  rw [gen_single_bin_section_eq_model (genFamilyAll u) bq sel wf alpha order hord cb x1 x2 iscsd fs nx freq fres segL starts _ rfl]
  unfold singleOut
  dsimp only
  rw [dispatchWith_genFamilyAll u _ iscsd order x1 x2 fs ⟨freq, segL, starts⟩ _ _ (hQ_of_cols bq order segL hQ)]

/-- satisfiability: order 2, a basis with 3 columns, the "numpy" backend selected for every bin, one bin with NO segment and one with two -/
example (u : ℕ → ℕ → ℝ) (x1 x2 : Arr ℝ) :
    ((Gen._lpsd_core (genFamilyAll u) (fun L o => ⟨L, (o + 1).toNat, fun _ _ => 0⟩) (fun _ _ => "numpy")
        (⟨false, fun L => ⟨L, fun _ => 1⟩, fun L _ => ⟨L, fun _ => 1⟩⟩ : NpLC.WinFunc ℝ) 0 2 "numpy" x1 x2 true 2 10
        ⟨2, fun i => 3 - i⟩ ⟨2, fun i => ⟨2 * i, fun j => 2 * j⟩⟩ ⟨2, fun i => 1 / 3 + i⟩ [0, 1]).2).map rowStats
      = Model.lpsdCore true 2 x1 x2 2 (Model.lpsdWindow ⟨false, fun L => ⟨L, fun _ => 1⟩, fun L _ => ⟨L, fun _ => 1⟩⟩ 0)
          (fun L o => ⟨L, (o + 1).toNat, fun _ _ => 0⟩)
          ([0, 1].map (Model.pbinAt ⟨2, fun i => 1 / 3 + i⟩ ⟨2, fun i => 3 - i⟩ ⟨2, fun i => ⟨2 * i, fun j => 2 * j⟩⟩)) :=
  gen_lpsd_core_eq_model_all_backends u _ _ _ 0 2 "numpy" x1 x2 true 2 10 _ _ _ _ (fun _ _ _ => by show 2 ≤ ((2 : ℤ) + 1).toNat; decide)

/-! ### the hypotheses are satisfiable -/

/-- `BackendOk`: any selection rule is fine once the fallbacks agree with the translated kernels (here: they ARE those kernels) and the bin has a segment;
    the rule that always answers "numba" / "cuda" needs nothing -/
example (sel : ℕ → String → String) (cb : String) (K : ℕ) (hK : 0 < K) : BackendOk genNumba6 (sel K cb) K :=
  Or.inr (Or.inr ⟨⟨fun _ _ _ _ _ _ => rfl, fun _ _ _ _ _ _ _ => rfl, fun _ _ _ _ _ _ => rfl, fun _ _ _ _ _ _ _ => rfl,
    fun _ _ _ _ _ _ _ => rfl, fun _ _ _ _ _ _ _ _ => rfl⟩, hK⟩)
example (np6 : NpLC.Kernels6 ℝ) (K : ℕ) : BackendOk np6 ((fun _ _ => "numba") K "auto") K := Or.inr (Or.inl rfl)

/-- `gen_lpsd_core_eq_ref_cross`: one plan with two bins, `L = 3` and `L = 2`, two / three starts, every supported order, a basis with
    order+1 columns, a rule that picks CUDA for the first and Numba for the second bin -/
example (order : ℤ) (hord : order = -1 ∨ order = 0 ∨ order = 1 ∨ order = 2) (np6 : NpLC.Kernels6 ℝ) (x1 x2 : Arr ℝ) :
    ∃ ref : List (ℝ × ℝ × ℝ × ℝ × ℝ),
    ((Gen._lpsd_core (genFamily np6) (fun L o => ⟨L, (o + 1).toNat, fun _ _ => 0⟩) (fun K _ => if K = 2 then "cuda" else "numba")
        (⟨false, fun L => ⟨L, fun _ => 1⟩, fun L _ => ⟨L, fun _ => 1⟩⟩ : NpLC.WinFunc ℝ) 0 order "auto" x1 x2 true 2 10
        ⟨2, fun i => 3 - i⟩ ⟨2, fun i => ⟨2 + i, fun j => 2 * j⟩⟩ ⟨2, fun i => 1 / 3 + i⟩ [0, 1]).2).map rowStats = ref :=
  ⟨_, gen_lpsd_core_eq_ref_cross np6 (fun L o => ⟨L, (o + 1).toNat, fun _ _ => 0⟩) (fun K _ => if K = 2 then "cuda" else "numba")
    ⟨false, fun L => ⟨L, fun _ => 1⟩, fun L _ => ⟨L, fun _ => 1⟩⟩ 0 order hord "auto" x1 x2 2 10
    ⟨2, fun i => 3 - i⟩ ⟨2, fun i => ⟨2 + i, fun j => 2 * j⟩⟩ ⟨2, fun i => 1 / 3 + i⟩ [0, 1] (fun _ _ _ => rfl)
    (by intro i hi; simp only [List.mem_cons, List.mem_nil_iff, or_false] at hi; rcases hi with rfl | rfl <;> simp)
    (by intro i hi; simp only [List.mem_cons, List.mem_nil_iff, or_false] at hi
        rcases hi with rfl | rfl
        · exact Or.inl (by simp)
        · exact Or.inr (Or.inl (by simp)))⟩

/-- the single-bin theorem's hypothesis (`order` supported) with a concrete request: Kaiser window, order 1, L = 3, two segments -/
example (fam : NpLC.KernelFamily ℝ) (x1 x2 : Arr ℝ) :
    ∃ v, Gen.single_bin_kernel_section (α := ℝ) fam (fun L o => ⟨L, (o + 1).toNat, fun _ _ => 0⟩) (fun _ b => b)
        (⟨true, fun L => ⟨L, fun _ => 1⟩, NpLC.kaiser⟩ : NpLC.WinFunc ℝ) (3 : ℝ) 1 "numpy" x1 x2 true (2 : ℝ) 7 (1 / 3 : ℝ) (2 / 3 : ℝ) 3
        ⟨2, fun j => 2 * j⟩ = v :=
  ⟨_, gen_single_bin_section_eq_model fam _ _ _ 3 1 (Or.inr (Or.inr (Or.inl rfl))) "numpy" x1 x2 true 2 7 (1 / 3) (2 / 3) 3 _ _ rfl⟩

/-- `gen_plan_validate_accepts_safe`: a concrete safe bin (N = 10, L = 4, K = 2 = navg, D = [0, 6]) -/
example : BinSafe 10 2 (⟨1, 1, 1, 4, 2, 2, [0, 6], 0⟩ : Model.Bin ℝ) := by
  refine ⟨by decide, by decide, by decide, rfl, rfl, rfl, rfl, by simp, ?_, by simp⟩
  intro d hd
  simp only [List.mem_cons, List.mem_nil_iff, or_false] at hd
  rcases hd with rfl | rfl <;> constructor <;> norm_num

/-- a band that keeps the middle bin only: `lo ≤ hi` and a non-empty selection, so the translated restriction does not raise -/
example : (Model.bandFilter (fun b : Model.Bin ℝ => b.f) 2 2 [⟨1, 0, 0, 1, 1, 1, [0], 0⟩, ⟨2, 0, 0, 1, 1, 1, [0], 0⟩, ⟨3, 0, 0, 1, 1, 1, [0], 0⟩]).length = 1 := by
  simp [Model.bandFilter, RealLike.ge]
  norm_num

end LpsdCoreGen

open LpsdCoreGen

#print axioms gen_build_window_spec
#print axioms gen_build_window_flag
#print axioms gen_lpsd_core_step
#print axioms gen_lpsd_core_fold
#print axioms gen_lpsd_core_rows
#print axioms gen_lpsd_core_raises_iff
#print axioms dispatchWith_numba
#print axioms genCuda6_eq_genNumba6
#print axioms dispatchWith_genFamily
#print axioms gen_lpsd_core_eq_model
#print axioms gen_lpsd_core_sums
#print axioms gen_lpsd_core_eq_ref_cross
#print axioms gen_lpsd_core_eq_ref_auto
#print axioms gen_lpsd_core_bin_local
#print axioms gen_lpsd_core_band
#print axioms gen_lpsd_core_order1_add_line_auto
#print axioms lpsdWindow_kaiser
#print axioms lpsdWindow_kaiser_dft_even
#print axioms lpsdWindow_other
#print axioms gen_single_window
#print axioms gen_single_bin_section_eq_model
#print axioms gen_single_bin_eq_lpsdCore
#print axioms gen_plan_validate_arrays
#print axioms gen_plan_validate_eq_model
#print axioms gen_plan_validate_accepts_safe
#print axioms gen_plan_band_eq_model
#print axioms gen_plan_band_none
#print axioms dispatchWith_genNp6
#print axioms dispatchWith_genFamilyAll
#print axioms gen_lpsd_core_eq_model_all_backends
#print axioms gen_lpsd_core_eq_ref_all_backends_cross
#print axioms gen_lpsd_core_eq_ref_all_backends_auto
#print axioms gen_single_bin_section_all_backends
