/-
  Props/ResultPurityGen — no method of a `SpectrumResult` writes, in place, an array that the result's `_data` / `_cache` slots hold (or an
  array argument of the caller), and no method other than the constructor binds a slot other than the one `__getattr__` is serving.

  `Gen.rpAll` (regenerated from speckit/analysis.py + speckit/dsp.py on every run by vk/regions/result_purity.py) lists, per method of the class
  (`__getattr__`: per arm of its name dispatch), the buffer effects of its statements.  `Model.RPurity.cRun` is the concrete aliasing semantics
  (one buffer per variable; the entry variables hold ARBITRARY existing buffers, several may hold the same one; run-time choices by an arbitrary
  oracle), `Model.RPurity.aRun` the may-alias abstraction.
  * `RPSim.rel_step / rel_foldl`: for EVERY oracle, entry assignment and op list the concrete run is simulated by the abstract run up to the
    renaming `RPSim.ren` of the entry buffers (induction over the list);
  * `cRun_clean_of_clean`: if the abstract run of a list is clean then NO concrete run of it writes a protected buffer or binds a foreign slot;
  * `gen_result_methods_write_no_cached_array`: the abstract run of every generated list is clean (evaluation of the generated lists by `decide`);
  * `gen_result_methods_pure`: hence no execution of any method does; `gen_result_ctor_clean` / `gen_result_ctor_pure`: the constructor writes
    no caller array in place either;
  * `gen_session_pure`: any HISTORY of calls of the generated methods on one result, in any order, with any aliasing among the slots: no
    protected buffer is ever written, the protected set only grows (cache slots are added, never re-bound to a written object) — the corollary
    of C14 / C20 "reading attributes and calling read-only methods in any order returns the same arrays";
  * `c10g_plot_rejected`, `c09g_arm_rejected`, `c20c_get_measurement_rejected`, `c20d_arm_rejected`: the effect lists of four stored
    property-breaking edits are REJECTED by the same predicate (it is not vacuous), and `c10g_plot_witness` exhibits a concrete run of the first
    that writes a protected buffer.
-/
import SpecKitV.Gen.ResultPurity

open Model Model.RPurity

namespace RPSim

@[simp] theorem cset_env (s : CSt) (v b : Nat) : (s.set v b).env = fun k => if k = v then b else s.env k := rfl
@[simp] theorem cset_next (s : CSt) (v b : Nat) : (s.set v b).next = s.next := rfl
@[simp] theorem cset_prot (s : CSt) (v b : Nat) : (s.set v b).prot = s.prot := rfl
@[simp] theorem cset_viol (s : CSt) (v b : Nat) : (s.set v b).viol = s.viol := rfl
@[simp] theorem cset_slot (s : CSt) (v b : Nat) : (s.set v b).slotBad = s.slotBad := rfl
@[simp] theorem cwr_env (s : CSt) (b : Nat) : (s.wr b).env = s.env := by unfold CSt.wr; split <;> rfl
@[simp] theorem cwr_next (s : CSt) (b : Nat) : (s.wr b).next = s.next := by unfold CSt.wr; split <;> rfl
@[simp] theorem cwr_prot (s : CSt) (b : Nat) : (s.wr b).prot = s.prot := by unfold CSt.wr; split <;> rfl
@[simp] theorem cwr_slot (s : CSt) (b : Nat) : (s.wr b).slotBad = s.slotBad := by unfold CSt.wr; split <;> rfl
@[simp] theorem aset_env (s : ASt) (v : Nat) (bs : List Nat) : (s.set v bs).env = fun k => if k = v then bs else s.env k := rfl
@[simp] theorem aset_next (s : ASt) (v : Nat) (bs : List Nat) : (s.set v bs).next = s.next := rfl
@[simp] theorem aset_prot (s : ASt) (v : Nat) (bs : List Nat) : (s.set v bs).prot = s.prot := rfl
@[simp] theorem aset_viol (s : ASt) (v : Nat) (bs : List Nat) : (s.set v bs).viol = s.viol := rfl
@[simp] theorem aset_slot (s : ASt) (v : Nat) (bs : List Nat) : (s.set v bs).slotBad = s.slotBad := rfl
@[simp] theorem awr_env (s : ASt) (bs : List Nat) : (s.wr bs).env = s.env := rfl
@[simp] theorem awr_next (s : ASt) (bs : List Nat) : (s.wr bs).next = s.next := rfl
@[simp] theorem awr_prot (s : ASt) (bs : List Nat) : (s.wr bs).prot = s.prot := rfl
@[simp] theorem awr_slot (s : ASt) (bs : List Nat) : (s.wr bs).slotBad = s.slotBad := rfl

/-- abstract buffer ↦ concrete buffer: entry buffer `i < k` is whatever entry variable `i` holds, the `j`-th allocation is `n0 + j` -/
def ren (k n0 : Nat) (init : Nat → Nat) (b : Nat) : Nat := if b < k then init b else b - k + n0

section
variable {k n0 : Nat} {init : Nat → Nat}

theorem ren_lt (hinit : ∀ i, init i < n0) {b : Nat} (hb : b < k) : ren k n0 init b < n0 := by
  simp [ren, hb, hinit b]

theorem ren_ge {b : Nat} (hb : k ≤ b) : n0 ≤ ren k n0 init b := by
  have : ¬ b < k := by omega
  simp only [ren, this, if_false]; omega

theorem ren_inj {b1 b2 : Nat} (h1 : k ≤ b1) (h2 : k ≤ b2) (h : ren k n0 init b1 = ren k n0 init b2) : b1 = b2 := by
  have e1 : ¬ b1 < k := by omega
  have e2 : ¬ b2 < k := by omega
  simp only [ren, e1, e2, if_false] at h; omega

/-- simulation relation between a concrete and an abstract state (up to the renaming `ren`) -/
structure Rel (k n0 : Nat) (init : Nat → Nat) (c : CSt) (a : ASt) : Prop where
  next : c.next + k = a.next + n0
  kle : k ≤ a.next
  env : ∀ v, ∃ b ∈ a.env v, ren k n0 init b = c.env v
  prot : ∀ b, ren k n0 init b ∈ c.prot → b ∈ a.prot
  ent : ∀ i, i < k → i ∈ a.prot
  ok : a.viol = [] → c.viol = []
  slot : c.slotBad = a.slotBad

theorem env_set {c : CSt} {a : ASt} (he : ∀ v, ∃ b ∈ a.env v, ren k n0 init b = c.env v) (d bc : Nat) (bas : List Nat)
    (h : ∃ b ∈ bas, ren k n0 init b = bc) :
    ∀ v, ∃ b ∈ (fun u => if u = d then bas else a.env u) v, ren k n0 init b = (fun u => if u = d then bc else c.env u) v := by
  intro v
  by_cases hv : v = d
  · simpa [hv] using h
  · simpa [hv] using he v

theorem fresh_ren {c : CSt} {a : ASt} (hn : c.next + k = a.next + n0) (hk : k ≤ a.next) : ren k n0 init a.next = c.next := by
  have : ¬ a.next < k := by omega
  simp only [ren, this, if_false]; omega

/-- a write through variable `x` keeps the relation -/
theorem rel_wr {c : CSt} {a : ASt} (h : Rel k n0 init c a) (x : Nat) : Rel k n0 init (c.wr (c.env x)) (a.wr (a.env x)) := by
  obtain ⟨hn, hk, he, hp, hent, hok, hs⟩ := h
  refine ⟨by simpa using hn, by simpa using hk, by simpa using he, by simpa using hp, by simpa using hent, ?_, by simpa using hs⟩
  intro hav
  simp only [ASt.wr, List.append_eq_nil_iff] at hav
  obtain ⟨hf, hav⟩ := hav
  unfold CSt.wr
  split
  · rename_i hin
    exfalso
    obtain ⟨b, hb, hr⟩ := he x
    have hbp : b ∈ a.prot := hp b (by rw [hr]; exact hin)
    have : b ∈ (a.env x).filter (fun b => decide (b ∈ a.prot)) := by
      simp only [List.mem_filter, decide_eq_true_eq]; exact ⟨hb, hbp⟩
    rw [hf] at this
    exact absurd this List.not_mem_nil
  · exact hok hav

theorem rel_step (hinit : ∀ i, init i < n0) (ch : Nat → Bool) (c : CSt) (a : ASt) (h : Rel k n0 init c a) (op : ROp) :
    Rel k n0 init (cStep ch c op) (aStep a op) := by
  have h0 := h
  obtain ⟨hn, hk, he, hp, hent, hok, hs⟩ := h
  have hfr := fresh_ren (init := init) hn hk
  cases op with
  | asarray d x =>
    simp only [cStep, aStep]
    split
    · refine ⟨by simp; omega, by simp; omega, ?_, by simpa using hp, by simpa using hent, by simpa using hok, by simpa using hs⟩
      obtain ⟨b, hb, hr⟩ := he x
      exact env_set he d (c.env x) (a.next :: a.env x) ⟨b, List.mem_cons_of_mem _ hb, hr⟩
    · refine ⟨by simp; omega, by simp; omega, ?_, by simpa using hp, by simpa using hent, by simpa using hok, by simpa using hs⟩
      exact env_set he d c.next (a.next :: a.env x) ⟨a.next, List.mem_cons_self, hfr⟩
  | fancy d x =>
    simp only [cStep, aStep]
    refine ⟨by simp; omega, by simp; omega, ?_, by simpa using hp, by simpa using hent, by simpa using hok, by simpa using hs⟩
    exact env_set he d c.next [a.next] ⟨a.next, List.mem_singleton.2 rfl, hfr⟩
  | basic d x =>
    simp only [cStep, aStep]
    exact ⟨by simpa using hn, by simpa using hk, env_set he d (c.env x) (a.env x) (he x), by simpa using hp, by simpa using hent,
      by simpa using hok, by simpa using hs⟩
  | bind d x =>
    simp only [cStep, aStep]
    exact ⟨by simpa using hn, by simpa using hk, env_set he d (c.env x) (a.env x) (he x), by simpa using hp, by simpa using hent,
      by simpa using hok, by simpa using hs⟩
  | fresh d =>
    simp only [cStep, aStep]
    refine ⟨by simp; omega, by simp; omega, ?_, by simpa using hp, by simpa using hent, by simpa using hok, by simpa using hs⟩
    exact env_set he d c.next [a.next] ⟨a.next, List.mem_singleton.2 rfl, hfr⟩
  | nanToNum d x copy =>
    cases copy with
    | true =>
      simp only [cStep, aStep, if_true]
      refine ⟨by simp; omega, by simp; omega, ?_, by simpa using hp, by simpa using hent, by simpa using hok, by simpa using hs⟩
      exact env_set he d c.next [a.next] ⟨a.next, List.mem_singleton.2 rfl, hfr⟩
    | false =>
      simp only [cStep, aStep, Bool.false_eq_true, if_false]
      obtain ⟨hn', hk', he', hp', hent', hok', hs'⟩ := rel_wr h0 x
      refine ⟨by simpa using hn', by simpa using hk', ?_, by simpa using hp', by simpa using hent', by simpa using hok', by simpa using hs'⟩
      simp only [cset_env, aset_env, cwr_env, awr_env]
      exact env_set he d (c.env x) (a.env x) (he x)
  | write v =>
    simp only [cStep, aStep]
    exact rel_wr h0 v
  | phi d x y =>
    simp only [cStep, aStep]
    split
    · refine ⟨by simpa using hn, by simpa using hk, ?_, by simpa using hp, by simpa using hent, by simpa using hok, by simpa using hs⟩
      obtain ⟨b, hb, hr⟩ := he x
      exact env_set he d (c.env x) (a.env x ++ a.env y) ⟨b, List.mem_append_left _ hb, hr⟩
    · refine ⟨by simpa using hn, by simpa using hk, ?_, by simpa using hp, by simpa using hent, by simpa using hok, by simpa using hs⟩
      obtain ⟨b, hb, hr⟩ := he y
      exact env_set he d (c.env y) (a.env x ++ a.env y) ⟨b, List.mem_append_right _ hb, hr⟩
  | protect v =>
    simp only [cStep, aStep]
    refine ⟨hn, hk, he, ?_, fun i hi => List.mem_append_right _ (hent i hi), hok, hs⟩
    intro b hb
    simp only [List.mem_cons] at hb
    rcases hb with hb | hb
    · obtain ⟨b0, hb0, hr0⟩ := he v
      by_cases hbk : b < k
      · exact List.mem_append_right _ (hent b hbk)
      · have hge : n0 ≤ ren k n0 init b := ren_ge (by omega)
        have hb0k : k ≤ b0 := by
          rcases Nat.lt_or_ge b0 k with hlt | hge0
          · have := ren_lt (k := k) hinit hlt; omega
          · exact hge0
        have : b = b0 := ren_inj (by omega) hb0k (by rw [hb, hr0])
        exact List.mem_append_left _ (this ▸ hb0)
    · exact List.mem_append_right _ (hp b hb)
  | slotStore own =>
    cases own with
    | true => simpa [cStep, aStep] using h0
    | false =>
      simp only [cStep, aStep, Bool.false_eq_true, if_false]
      exact ⟨hn, hk, he, hp, hent, hok, by simp [hs]⟩

theorem rel_foldl (hinit : ∀ i, init i < n0) (ch : Nat → Bool) (ops : List ROp) :
    ∀ (c : CSt) (a : ASt), Rel k n0 init c a → Rel k n0 init (ops.foldl (cStep ch) c) (ops.foldl aStep a) := by
  induction ops with
  | nil => intro c a h; simpa using h
  | cons op ops ih => intro c a h; simpa using ih _ _ (rel_step hinit ch c a h op)

end


/-! ### invariants of the concrete run alone -/

structure CInv (s : CSt) : Prop where
  env : ∀ v, s.env v < s.next
  prot : ∀ b ∈ s.prot, b < s.next

theorem cinv_set {s s' : CSt} (h : CInv s) (d b : Nat) (he : s'.env = fun u => if u = d then b else s.env u) (hb : b < s'.next)
    (hn : s.next ≤ s'.next) (hp : s'.prot = s.prot) : CInv s' := by
  refine ⟨fun v => ?_, fun x hx => ?_⟩
  · rw [he]
    by_cases hv : v = d
    · simpa [hv] using hb
    · have := h.env v
      simp only [hv, if_false]; omega
  · rw [hp] at hx
    have := h.prot x hx
    omega

/-- one concrete step keeps the invariants, never lowers the allocation counter and never forgets a protected buffer -/
theorem cinv_step (ch : Nat → Bool) (s : CSt) (h : CInv s) (op : ROp) :
    CInv (cStep ch s op) ∧ s.next ≤ (cStep ch s op).next ∧ ∀ b ∈ s.prot, b ∈ (cStep ch s op).prot := by
  cases op with
  | asarray d x =>
    simp only [cStep]
    split
    · exact ⟨cinv_set h d (s.env x) rfl (by have := h.env x; simp; omega) (by simp) rfl, by simp, fun b hb => by simpa using hb⟩
    · exact ⟨cinv_set h d s.next rfl (by simp) (by simp) rfl, by simp, fun b hb => by simpa using hb⟩
  | fancy d x =>
    exact ⟨cinv_set h d s.next rfl (by simp [cStep]) (by simp [cStep]) rfl, by simp [cStep], fun b hb => by simpa [cStep] using hb⟩
  | basic d x =>
    exact ⟨cinv_set h d (s.env x) rfl (by simpa [cStep] using h.env x) (by simp [cStep]) rfl, by simp [cStep], fun b hb => by simpa [cStep] using hb⟩
  | bind d x =>
    exact ⟨cinv_set h d (s.env x) rfl (by simpa [cStep] using h.env x) (by simp [cStep]) rfl, by simp [cStep], fun b hb => by simpa [cStep] using hb⟩
  | fresh d =>
    exact ⟨cinv_set h d s.next rfl (by simp [cStep]) (by simp [cStep]) rfl, by simp [cStep], fun b hb => by simpa [cStep] using hb⟩
  | nanToNum d x copy =>
    cases copy with
    | true =>
      exact ⟨cinv_set h d s.next rfl (by simp [cStep]) (by simp [cStep]) rfl, by simp [cStep], fun b hb => by simpa [cStep] using hb⟩
    | false =>
      refine ⟨cinv_set h d (s.env x) (by simp [cStep]) (by simpa [cStep] using h.env x) (by simp [cStep]) (by simp [cStep]), by simp [cStep],
        fun b hb => by simpa [cStep] using hb⟩
  | write v =>
    refine ⟨⟨fun u => by simpa [cStep] using h.env u, fun b hb => ?_⟩, by simp [cStep], fun b hb => by simpa [cStep] using hb⟩
    have : b ∈ s.prot := by simpa [cStep] using hb
    simpa [cStep] using h.prot b this
  | phi d x y =>
    simp only [cStep]
    split
    · exact ⟨cinv_set h d (s.env x) rfl (by simpa using h.env x) (by simp) rfl, by simp, fun b hb => by simpa using hb⟩
    · exact ⟨cinv_set h d (s.env y) rfl (by simpa using h.env y) (by simp) rfl, by simp, fun b hb => by simpa using hb⟩
  | protect v =>
    refine ⟨⟨h.env, fun b hb => ?_⟩, Nat.le_refl _, fun b hb => List.mem_cons_of_mem _ hb⟩
    simp only [cStep, List.mem_cons] at hb
    rcases hb with rfl | hb
    · exact h.env v
    · exact h.prot b hb
  | slotStore own =>
    cases own with
    | true => exact ⟨by simpa [cStep] using h, by simp [cStep], fun b hb => by simpa [cStep] using hb⟩
    | false => exact ⟨⟨h.env, h.prot⟩, Nat.le_refl _, fun b hb => hb⟩

theorem cinv_foldl (ch : Nat → Bool) (ops : List ROp) :
    ∀ s : CSt, CInv s → CInv (ops.foldl (cStep ch) s) ∧ s.next ≤ (ops.foldl (cStep ch) s).next ∧ ∀ b ∈ s.prot, b ∈ (ops.foldl (cStep ch) s).prot := by
  induction ops with
  | nil => intro s h; exact ⟨h, Nat.le_refl _, fun b hb => hb⟩
  | cons op ops ih =>
    intro s h
    obtain ⟨h1, hn1, hp1⟩ := cinv_step ch s h op
    obtain ⟨h2, hn2, hp2⟩ := ih _ h1
    exact ⟨h2, Nat.le_trans hn1 hn2, fun b hb => hp2 b (hp1 b hb)⟩

/-- the entry state is related to the abstract initial state -/
theorem rel_entry {k n0 : Nat} {init : Nat → Nat} (hk : 0 < k) (P : List Nat) (hP : ∀ b ∈ P, b < n0) :
    Rel k n0 init (cEntry k init P n0 [] 0) (aInit k) := by
  refine ⟨Nat.add_comm _ _, Nat.le_refl _, fun v => ?_, fun b hb => ?_, fun i hi => List.mem_range.2 hi, fun _ => rfl, rfl⟩
  · by_cases hv : v < k
    · exact ⟨v, by simp [aInit, hv], by simp [ren, cEntry, hv]⟩
    · exact ⟨0, by simp [aInit, hv], by simp [ren, cEntry, hv, hk]⟩
  · rcases Nat.lt_or_ge b k with hlt | hge
    · exact List.mem_range.2 hlt
    · have h1 : n0 ≤ ren k n0 init b := ren_ge hge
      have h2 := hP _ hb
      omega

end RPSim

open RPSim

theorem clean_iff (k : Nat) (ops : List ROp) : clean k ops = true ↔ (aRun k ops).viol = [] ∧ (aRun k ops).slotBad = 0 := by
  simp [clean, List.isEmpty_iff]

/-- SIMULATION: a clean abstract run bounds every concrete run — whatever the entry variables hold (`init`, possibly the same buffer several
    times), whichever buffers the slots hold (`P`), however the run-time choices fall (`ch`): no protected buffer is written in place, no foreign
    slot is bound.  Hypotheses: the entry variables and the slots hold EXISTING buffers (ids below the allocation counter `n0`); `0 < k`
    (the generator always reserves entry variable 0). -/
theorem cRun_clean_of_clean (ch : Nat → Bool) (k n0 : Nat) (init : Nat → Nat) (P : List Nat) (ops : List ROp)
    (hk : 0 < k) (hinit : ∀ i, init i < n0) (hP : ∀ b ∈ P, b < n0) (hc : clean k ops = true) :
    (cRun ch k init P n0 ops).viol = [] ∧ (cRun ch k init P n0 ops).slotBad = 0 := by
  obtain ⟨hv, hs⟩ := (clean_iff k ops).1 hc
  have h := rel_foldl hinit ch ops _ _ (rel_entry (init := init) hk P hP)
  exact ⟨h.ok hv, h.slot.trans hs⟩

example : clean 2 [.bind 2 1, .fresh 3, .write 3, .protect 3, .slotStore true] = true := by decide
example : (cRun (fun _ => true) 2 (fun _ => 0) [0] 1 [.bind 2 1, .fresh 3, .write 3, .protect 3, .slotStore true]).viol = [] :=
  (cRun_clean_of_clean _ 2 1 _ [0] _ (by decide) (fun _ => by decide) (by decide) (by decide)).1

/-- EVALUATION of the generated lists: the abstract run of every method other than the constructor charges no object that may alias a
    `_cache` / `_data` entry (or a caller argument) with an in-place write and binds no slot but the one being served -/
theorem gen_result_methods_write_no_cached_array : ∀ p ∈ Gen.rpAll, 0 < p.1 ∧ clean p.1 p.2 = true := by
  decide +kernel

/-- … and the same for the constructor (every slot store is its own; no caller array is written in place) -/
theorem gen_result_ctor_clean : ∀ p ∈ Gen.rpCtor, 0 < p.1 ∧ clean p.1 p.2 = true := by
  decide +kernel

/-- no execution of any method of a result writes an array held by a slot (or handed in by the caller) in place, nor binds a foreign slot -/
theorem gen_result_methods_pure (ch : Nat → Bool) (n0 : Nat) (init : Nat → Nat) (P : List Nat)
    (hinit : ∀ i, init i < n0) (hP : ∀ b ∈ P, b < n0) :
    ∀ p ∈ Gen.rpAll, (cRun ch p.1 init P n0 p.2).viol = [] ∧ (cRun ch p.1 init P n0 p.2).slotBad = 0 := by
  intro p hp
  obtain ⟨hk, hc⟩ := gen_result_methods_write_no_cached_array p hp
  exact cRun_clean_of_clean ch p.1 n0 init P p.2 hk hinit hP hc

theorem gen_result_ctor_pure (ch : Nat → Bool) (n0 : Nat) (init : Nat → Nat) (P : List Nat)
    (hinit : ∀ i, init i < n0) (hP : ∀ b ∈ P, b < n0) :
    ∀ p ∈ Gen.rpCtor, (cRun ch p.1 init P n0 p.2).viol = [] ∧ (cRun ch p.1 init P n0 p.2).slotBad = 0 := by
  intro p hp
  obtain ⟨hk, hc⟩ := gen_result_ctor_clean p hp
  exact cRun_clean_of_clean ch p.1 n0 init P p.2 hk hinit hP hc

-- the hypotheses are satisfiable: a result holding 3 buffers, all entry variables on buffer 2 (maximal aliasing), always-alias oracle
example : ∀ p ∈ Gen.rpAll, (cRun (fun _ => true) p.1 (fun _ => 2) [0, 1, 2] 3 p.2).viol = [] :=
  fun p hp => (gen_result_methods_pure _ 3 _ [0, 1, 2] (fun _ => by decide) (by decide) p hp).1

/-! ### histories of calls -/

/-- a well-formed history state: something is allocated, the slots hold allocated buffers, nothing has gone wrong yet -/
structure HistOk (h : Hist) : Prop where
  pos : 0 < h.next
  prot : ∀ b ∈ h.prot, b < h.next
  viol : h.viol = []
  slot : h.slotBad = 0

theorem callStep_ok (h : Hist) (hh : HistOk h) (c : Call) (hk : 0 < c.k) (hc : clean c.k c.ops = true) :
    HistOk (callStep h c) ∧ ∀ b ∈ h.prot, b ∈ (callStep h c).prot := by
  obtain ⟨hpos, hprot, hviol, hslot⟩ := hh
  have hinit : ∀ i, (fun v => c.init v % h.next) i < h.next := fun i => Nat.mod_lt _ hpos
  have hrel := rel_foldl hinit c.ch c.ops _ _ (rel_entry (init := fun v => c.init v % h.next) hk h.prot hprot)
  obtain ⟨hv, hs⟩ := (clean_iff c.k c.ops).1 hc
  have hinv0 : CInv (cEntry c.k (fun v => c.init v % h.next) h.prot h.next [] 0) :=
    ⟨fun v => by simpa [cEntry] using hinit _, fun b hb => by simpa [cEntry] using hprot b hb⟩
  obtain ⟨hinv, hmono, hsub⟩ := cinv_foldl c.ch c.ops _ hinv0
  have e : callStep h c = { prot := (cRunFrom c.ch (cEntry c.k (fun v => c.init v % h.next) h.prot h.next [] 0) c.ops).prot,
                            next := (cRunFrom c.ch (cEntry c.k (fun v => c.init v % h.next) h.prot h.next [] 0) c.ops).next,
                            viol := (cRunFrom c.ch (cEntry c.k (fun v => c.init v % h.next) h.prot h.next [] 0) c.ops).viol,
                            slotBad := (cRunFrom c.ch (cEntry c.k (fun v => c.init v % h.next) h.prot h.next [] 0) c.ops).slotBad } := by
    simp only [callStep, hviol, hslot]
  rw [e]
  refine ⟨⟨?_, hinv.prot, hrel.ok hv, hrel.slot.trans hs⟩, hsub⟩
  have : h.next ≤ (cRunFrom c.ch (cEntry c.k (fun v => c.init v % h.next) h.prot h.next [] 0) c.ops).next := hmono
  exact Nat.lt_of_lt_of_le hpos this

/-- ANY history of calls whose lists are clean, from any well-formed state: no protected buffer is ever written, no foreign slot is ever
    bound, and the set of protected buffers only grows -/
theorem session_pure (calls : List Call) (hc : ∀ c ∈ calls, 0 < c.k ∧ clean c.k c.ops = true) :
    ∀ h : Hist, HistOk h → HistOk (session h calls) ∧ ∀ b ∈ h.prot, b ∈ (session h calls).prot := by
  induction calls with
  | nil => intro h hh; exact ⟨hh, fun b hb => hb⟩
  | cons c cs ih =>
    intro h hh
    obtain ⟨hk, hcl⟩ := hc c List.mem_cons_self
    obtain ⟨h1, hs1⟩ := callStep_ok h hh c hk hcl
    obtain ⟨h2, hs2⟩ := ih (fun c' hc' => hc c' (List.mem_cons_of_mem _ hc')) _ h1
    exact ⟨h2, fun b hb => hs2 b (hs1 b hb)⟩

/-- COROLLARY (C14 / C20 in words: reading attributes and calling the read-only methods of a result in any order returns the same arrays):
    along any history of calls of the generated methods — any order, any repetition, any aliasing among the objects the slots hold, any
    run-time choices — no array held by a slot is written in place and no slot other than the one being served is bound; the objects the
    slots hold at the start are still held, unchanged, at the end. -/
theorem gen_session_pure (calls : List Call) (hgen : ∀ c ∈ calls, (c.k, c.ops) ∈ Gen.rpAll) (h : Hist) (hh : HistOk h) :
    (session h calls).viol = [] ∧ (session h calls).slotBad = 0 ∧ ∀ b ∈ h.prot, b ∈ (session h calls).prot := by
  obtain ⟨h1, h2⟩ := session_pure calls (fun c hc => gen_result_methods_write_no_cached_array (c.k, c.ops) (hgen c hc)) h hh
  exact ⟨h1.viol, h1.slot, h2⟩

example : HistOk { prot := [0, 1, 2], next := 3, viol := [], slotBad := 0 } := ⟨by decide, by decide, rfl, rfl⟩

-- a history: plot, get_measurement, plot again — different aliasing among the entry variables and different run-time choices each time
example : (session { prot := [0, 1, 2], next := 3, viol := [], slotBad := 0 }
    [⟨Gen.rp_plot.1, Gen.rp_plot.2, fun v => v, fun _ => true⟩,
     ⟨Gen.rp_get_measurement.1, Gen.rp_get_measurement.2, fun _ => 1, fun _ => false⟩,
     ⟨Gen.rp_plot.1, Gen.rp_plot.2, fun v => 2 * v, fun n => n % 2 == 0⟩]).viol = [] := by
  refine (gen_session_pure _ ?_ _ ⟨by decide, by decide, rfl, rfl⟩).1
  intro c hc
  simp only [List.mem_cons, List.not_mem_nil, or_false] at hc
  rcases hc with rfl | rfl | rfl <;> decide +kernel

/-! ### negation witnesses: the same predicate REJECTS the stored property-breaking edits -/

/-- `plot` after the stored change C10g (/verif/seeded/C10g/patch.diff: `mag_error *= sigma`, `phase_error *= sigma`, `err *= sigma`): the effect
    list the generator produces for the changed source, kept here as a constant.  Entry variables: 0 = any slot object, 1 = **kwargs, 2 = self.f,
    3 = self.psd, 4 = self.asd, 5 = self.coh, 6 = self.csd, 7 = self.cf, 8 = self.cf_db, 9 = self.Hxy_mag_error, 10 = self.cf_rad,
    11 = self.Hxy_deg_error, 12 = self.Hxy_rad_error, 13 = self.Gxx_dev, 14 = self.Gxx, 15 = self.coh_dev, 16 = self.Gxy_dev, 17 = self.Hxy_dev.
    `.bind 22 9, .write 22` is `mag_error = self.Hxy_mag_error; mag_error *= sigma`; `.phi 44 11 12, .bind 45 44, .write 45` is
    `phase_error = self.Hxy_deg_error if deg else self.Hxy_rad_error; phase_error *= sigma`; the third in-place scaling (`err = err[finite_mask];
    err *= sigma`, a masked COPY) is harmless and is not charged. -/
def c10gPlot : Nat × List ROp := (18,
  [.fresh 18,
   .bind 19 2,
   .phi 19 19 3,
   .phi 19 19 2,
   .phi 19 19 4,
   .phi 19 19 2,
   .phi 19 19 5,
   .phi 19 19 2,
   .phi 19 19 18,
   .phi 19 19 2,
   .phi 19 19 7,
   .phi 20 8 7,
   .bind 21 20,
   .bind 22 9,
   .write 22,
   .fresh 23,
   .fresh 24,
   .bind 25 24,
   .fresh 26,
   .fresh 27,
   .bind 28 27,
   .fresh 29,
   .fresh 30,
   .bind 31 30,
   .fresh 32,
   .fresh 33,
   .bind 34 33,
   .phi 35 31 25,
   .phi 36 34 28,
   .basic 37 1,
   .fresh 38,
   .phi 39 38 10,
   .bind 40 39,
   .fresh 41,
   .phi 42 41 40,
   .bind 43 42,
   .phi 44 11 12,
   .bind 45 44,
   .write 45,
   .fresh 46,
   .fresh 47,
   .basic 48 1,
   .basic 49 19,
   .basic 50 49,
   .bind 51 50,
   .basic 52 49,
   .bind 53 52,
   .basic 54 49,
   .bind 55 54,
   .basic 56 49,
   .bind 57 56,
   .asarray 58 53,
   .bind 59 58,
   .asarray 60 55,
   .bind 61 60,
   .fresh 62,
   .fresh 63,
   .fresh 64,
   .bind 65 64,
   .fancy 66 59,
   .bind 67 66,
   .fancy 68 61,
   .bind 69 68,
   .fresh 70,
   .fresh 71,
   .fresh 72,
   .fresh 73,
   .bind 74 73,
   .phi 74 74 13,
   .phi 74 74 15,
   .phi 74 74 16,
   .phi 74 74 17,
   .basic 75 74,
   .bind 76 75,
   .fancy 77 76,
   .bind 78 77,
   .write 78,
   .fresh 79,
   .fresh 80,
   .basic 81 1,
   .phi 82 78 76])

/-- the predicate rejects it, and names the cache entries that are overwritten: Hxy_mag_error, Hxy_deg_error, Hxy_rad_error — and no other -/
theorem c10g_plot_rejected : clean c10gPlot.1 c10gPlot.2 = false ∧ (entriesWritten c10gPlot.1 c10gPlot.2).eraseDups = [11, 12, 9] := by
  decide +kernel

/-- … and there IS a concrete run of it that writes protected buffers (the rejection is not an artefact of the abstraction): every entry
    variable on its own buffer, all run-time choices "first alternative" (dB, deg) -/
theorem c10g_plot_witness : (cRun (fun _ => true) c10gPlot.1 (fun v => v) (List.range 18) 18 c10gPlot.2).viol = [11, 9] := by
  decide +kernel

/-- `__getattr__` arm GyyRx after C09g: `val = self.Gyy` (.bind 3 1); `val -= self.GyyCx` (.write 3); store -/
def c09gArm : Nat × List ROp := (3, [.bind 3 1, .write 3, .bind 4 3, .slotStore true, .protect 4])

theorem c09g_arm_rejected : clean c09gArm.1 c09gArm.2 = false := by decide

/-- `get_measurement` after C20c: `target_signal = getattr(self, which)` (.bind 3 0); `np.nan_to_num(target_signal, copy=False)` -/
def c20cGetMeasurement : Nat × List ROp := (3, [.bind 3 0, .asarray 4 1, .nanToNum 5 3 false, .fresh 6])

theorem c20c_get_measurement_rejected : clean c20cGetMeasurement.1 c20cGetMeasurement.2 = false := by decide

/-- `__getattr__` error arm after C20d: `self._cache.setdefault("coh", np.ones_like(navg))` binds the slot of ANOTHER attribute -/
def c20dArm : Nat × List ROp := (2, [.bind 2 1, .fresh 3, .slotStore false, .protect 3, .fresh 4, .bind 5 4, .slotStore true, .protect 5])

theorem c20d_arm_rejected : clean c20dArm.1 c20dArm.2 = false ∧ (aRun c20dArm.1 c20dArm.2).viol = [] := by decide

/-- order matters: writing a freshly allocated array BEFORE it is stored is fine, writing it AFTER the store is not -/
theorem write_before_store_ok : clean 1 [.fresh 1, .write 1, .slotStore true, .protect 1] = true := by decide
theorem write_after_store_rejected : clean 1 [.fresh 1, .slotStore true, .protect 1, .write 1] = false := by decide

/-- a masked copy may be scaled in place (the single-axis branch of C10g, which is harmless): `err = err[finite_mask]; err *= sigma` -/
theorem masked_copy_write_ok : clean 2 [.bind 2 1, .fresh 3, .fancy 4 2, .bind 5 4, .write 5] = true := by decide
/-- a basic slice is a view: `err = err[1:]; err *= sigma` would reach the cached array -/
theorem slice_view_write_rejected : clean 2 [.bind 2 1, .basic 4 2, .bind 5 4, .write 5] = false := by decide

/-- the generated lists are not empty shells: one list per name in `rpNames`, at least 20 of them, and the methods DO allocate, write (their own
    buffers) and store -/
theorem gen_result_methods_nontrivial : Gen.rpAll.length = Gen.rpNames.length ∧ 20 ≤ Gen.rpAll.length ∧
    (Gen.rpAll.any fun p => p.2.any fun op => match op with | .slotStore true => true | _ => false) = true ∧
    (Gen.rpAll.any fun p => p.2.any fun op => match op with | .write _ => true | _ => false) = true ∧
    (Gen.rpAll.any fun p => p.2.any fun op => match op with | .protect _ => true | _ => false) = true := by
  decide +kernel

#print axioms RPSim.rel_step
#print axioms RPSim.rel_foldl
#print axioms cRun_clean_of_clean
#print axioms gen_result_methods_write_no_cached_array
#print axioms gen_result_ctor_clean
#print axioms gen_result_methods_pure
#print axioms gen_result_ctor_pure
#print axioms session_pure
#print axioms gen_session_pure
#print axioms c10g_plot_rejected
#print axioms c10g_plot_witness
#print axioms c09g_arm_rejected
#print axioms c20c_get_measurement_rejected
#print axioms c20d_arm_rejected
#print axioms write_before_store_ok
#print axioms write_after_store_rejected
#print axioms masked_copy_write_ok
#print axioms slice_view_write_rejected
#print axioms gen_result_methods_nontrivial
