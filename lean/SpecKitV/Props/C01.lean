/-
  SpecKitV.Props.C01 — the translated Numba kernels and CUDA host functions of speckit
  (`SpecKitV.Gen.CoreKernels`, `SpecKitV.Gen.CudaKernels`, machine-generated) equal the
  hand-written reference estimator `Model.refStats` / `Model.refStatsAuto` at `α := ℝ`:
  Goertzel recurrence = direct windowed DFT up to a unit factor that cancels in `|X|²` and
  `X · conj Y`; streamed detrending = `Model.detr`; translated reducer = `Model.reduceStats`.
  Proof shape per kernel: unfold, normalise literals, rewrite each Goertzel `forRange` by
  `forRange_goertzel`, each accumulator `forRange` by `forRange_acc_sum`, then apply the
  general lemmas of `SpecKitV.Lemmas.Goertzel`.
-/
import SpecKitV.Lemmas.Goertzel
import SpecKitV.Gen.CoreKernels
import SpecKitV.Gen.CudaKernels
import SpecKitV.Model.Ref
open Finset

@[simp] theorem ofSci_zero_lit : (RealLike.ofSci 0 true 1 : ℝ) = 0 := by
  simp [RL.ofSci_eq]
@[simp] theorem ofSci_two_lit : (RealLike.ofSci 20 true 1 : ℝ) = 2 := by
  simp [RL.ofSci_eq]; norm_num

/-- the reducer: translated `_reduce_stats_nb` is the model reducer (all four arrays of the same length K ≥ 1) -/
theorem reduce_spec (xx yy xyr xyi : Arr ℝ) (hK : 0 < xx.n) (h1 : yy.n = xx.n) (h2 : xyr.n = xx.n) (h3 : xyi.n = xx.n) :
    Gen._reduce_stats_nb xx yy xyr xyi = Model.reduceStats xx.n xx.get yy.get xyr.get xyi.get := by
  obtain ⟨K, gxx⟩ := xx
  obtain ⟨K1, gyy⟩ := yy
  obtain ⟨K2, gxyr⟩ := xyr
  obtain ⟨K3, gxyi⟩ := xyi
  simp only at hK h1 h2 h3
  subst h1 h2 h3
  have hK0 : ¬ (K3 = 0) := Nat.pos_iff_ne_zero.mp hK
  unfold Gen._reduce_stats_nb Model.reduceStats
  simp only [Arr.mean, Arr.subS, Arr.add, Arr.mul, decide_eq_true_eq, ofSci_zero_lit, RL.zero_eq]
  rw [if_neg hK0]

/-- M2 is the mean squared scatter about the mean for EVERY K ≥ 1 (the K ≥ 2 guard agrees with the formula at K = 1) -/
theorem reduce_M2_all_K (K : ℕ) (hK : 0 < K) (xx yy xyr xyi : ℕ → ℝ) :
    (Model.reduceStats K xx yy xyr xyi).2.2.2.2
      = (∑ j ∈ Finset.range K, ((xyr j - (∑ i ∈ Finset.range K, xyr i) / K) ^ 2 + (xyi j - (∑ i ∈ Finset.range K, xyi i) / K) ^ 2)) / K := by
  unfold Model.reduceStats
  simp only [sumRange_eq_sum, RL.ofNat_eq, RL.zero_eq]
  by_cases h2 : K ≥ 2
  · rw [if_pos h2]
    congr 1
    apply Finset.sum_congr rfl
    intro j _
    ring
  · rw [if_neg h2]
    have : K = 1 := by omega
    subst this
    simp

theorem reduce_M2_nonneg (K : ℕ) (hK : 0 < K) (xx yy xyr xyi : ℕ → ℝ) :
    0 ≤ (Model.reduceStats K xx yy xyr xyi).2.2.2.2 := by
  rw [reduce_M2_all_K K hK]
  exact div_nonneg (Finset.sum_nonneg fun j _ => by positivity) (Nat.cast_nonneg K)

theorem reduce_M2_one (xx yy xyr xyi : ℕ → ℝ) : (Model.reduceStats 1 xx yy xyr xyi).2.2.2.2 = 0 := by
  simp [Model.reduceStats]

theorem reduceStats_congr (K : ℕ) (a a' b b' c c' d d' : ℕ → ℝ)
    (h : ∀ j, a j = a' j ∧ b j = b' j ∧ c j = c' j ∧ d j = d' j) :
    Model.reduceStats K a b c d = Model.reduceStats K a' b' c' d' := by
  rw [funext fun j => (h j).1, funext fun j => (h j).2.1, funext fun j => (h j).2.2.1,
    funext fun j => (h j).2.2.2]

/-- common opening: normalise literals and interface ops, turn every Goertzel loop into
    `goertzelS`, replace the translated reducer by the model reducer -/
macro "kernel_open" hK:term : tactic => `(tactic| (
  simp only [ofSci_zero_lit, ofSci_two_lit, RL.cos_eq, RL.sin_eq, forRange_goertzel]
  refine (reduce_spec _ _ _ _ ?_ ?_ ?_ ?_).trans ?_
  · exact $hK
  · rfl
  · rfl
  · rfl))

theorem stats_win_only_csd_eq_ref (x1 x2 : Arr ℝ) (starts : Arr ℕ) (hK : 0 < starts.n) (L : ℕ) (w : Arr ℝ) (ω : ℝ) (Q : ℕ → ℕ → ℝ) :
    Gen._stats_win_only_csd x1 x2 starts L w ω = Model.refStats (-1) Q x1.get x2.get starts.get starts.n L w.get ω := by
  unfold Gen._stats_win_only_csd
  kernel_open hK
  unfold Model.refStats
  apply reduceStats_congr
  intro j
  refine goertzel_pair_segDFT ω (-1) Q x1.get x2.get (starts.get j) L w.get _ _ ?_ ?_
  · intro n _; simp only [detr_none]
  · intro n _; simp only [detr_none]

theorem stats_win_only_auto_eq_ref (x : Arr ℝ) (starts : Arr ℕ) (hK : 0 < starts.n) (L : ℕ) (w : Arr ℝ) (ω : ℝ) (Q : ℕ → ℕ → ℝ) :
    Gen._stats_win_only_auto x starts L w ω = Model.refStatsAuto (-1) Q x.get starts.get starts.n L w.get ω := by
  unfold Gen._stats_win_only_auto
  kernel_open hK
  unfold Model.refStatsAuto
  apply reduceStats_congr
  intro j
  refine goertzel_auto4_segDFT ω (-1) Q x.get (starts.get j) L w.get _ ?_
  intro n _; simp only [detr_none]

theorem stats_detrend0_csd_eq_ref (x1 x2 : Arr ℝ) (starts : Arr ℕ) (hK : 0 < starts.n) (L : ℕ) (w : Arr ℝ) (ω : ℝ) (Q : ℕ → ℕ → ℝ) :
    Gen._stats_detrend0_csd x1 x2 starts L w ω = Model.refStats 0 Q x1.get x2.get starts.get starts.n L w.get ω := by
  unfold Gen._stats_detrend0_csd
  kernel_open hK
  unfold Model.refStats
  apply reduceStats_congr
  intro j
  refine goertzel_pair_segDFT ω 0 Q x1.get x2.get (starts.get j) L w.get _ _ ?_ ?_
  · intro n _
    simp only [detr_mean, Gen._apply_detrend0_inplace_nb_val, Gen._apply_detrend0_inplace_nb_mean,
      ofSci_zero_lit, forRange_acc_sum, RL.ofNat_eq]
  · intro n _
    simp only [detr_mean, Gen._apply_detrend0_inplace_nb_val, Gen._apply_detrend0_inplace_nb_mean,
      ofSci_zero_lit, forRange_acc_sum, RL.ofNat_eq]

theorem stats_detrend0_auto_eq_ref (x : Arr ℝ) (starts : Arr ℕ) (hK : 0 < starts.n) (L : ℕ) (w : Arr ℝ) (ω : ℝ) (Q : ℕ → ℕ → ℝ) :
    Gen._stats_detrend0_auto x starts L w ω = Model.refStatsAuto 0 Q x.get starts.get starts.n L w.get ω := by
  unfold Gen._stats_detrend0_auto
  kernel_open hK
  unfold Model.refStatsAuto
  apply reduceStats_congr
  intro j
  refine goertzel_auto4_segDFT ω 0 Q x.get (starts.get j) L w.get _ ?_
  intro n _
  simp only [detr_mean, Gen._apply_detrend0_inplace_nb_val, Gen._apply_detrend0_inplace_nb_mean,
    ofSci_zero_lit, forRange_acc_sum, RL.ofNat_eq]

theorem stats_poly_csd_eq_ref (x1 x2 : Arr ℝ) (starts : Arr ℕ) (hK : 0 < starts.n) (L : ℕ) (w : Arr ℝ) (ω : ℝ)
    (Qa : Arr2 ℝ) (p : ℕ) (hp : 1 ≤ p) (hQ : Qa.m = p + 1) :
    Gen._stats_poly_csd x1 x2 starts L w ω Qa = Model.refStats (p : ℤ) Qa.get x1.get x2.get starts.get starts.n L w.get ω := by
  unfold Gen._stats_poly_csd
  kernel_open hK
  unfold Model.refStats
  apply reduceStats_congr
  intro j
  refine goertzel_pair_segDFT ω (p : ℤ) Qa.get x1.get x2.get (starts.get j) L w.get _ _ ?_ ?_
  · intro n _
    simp only [detr_poly p hp, Gen._apply_poly_detrend_inplace_nb_rowdot,
      Gen._apply_poly_detrend_inplace_nb_alpha, ofSci_zero_lit, forRange_acc_sum, hQ]
  · intro n _
    simp only [detr_poly p hp, Gen._apply_poly_detrend_inplace_nb_rowdot,
      Gen._apply_poly_detrend_inplace_nb_alpha, ofSci_zero_lit, forRange_acc_sum, hQ]

theorem stats_poly_auto_eq_ref (x : Arr ℝ) (starts : Arr ℕ) (hK : 0 < starts.n) (L : ℕ) (w : Arr ℝ) (ω : ℝ)
    (Qa : Arr2 ℝ) (p : ℕ) (hp : 1 ≤ p) (hQ : Qa.m = p + 1) :
    Gen._stats_poly_auto x starts L w ω Qa = Model.refStatsAuto (p : ℤ) Qa.get x.get starts.get starts.n L w.get ω := by
  unfold Gen._stats_poly_auto
  kernel_open hK
  unfold Model.refStatsAuto
  apply reduceStats_congr
  intro j
  refine goertzel_auto4_segDFT ω (p : ℤ) Qa.get x.get (starts.get j) L w.get _ ?_
  intro n _
  simp only [detr_poly p hp, Gen._apply_poly_detrend_inplace_nb_rowdot,
    Gen._apply_poly_detrend_inplace_nb_alpha, ofSci_zero_lit, forRange_acc_sum, hQ]

/-! ### CUDA host functions (kernel + launch + reduce) -/

/-- opening for the CUDA hosts: discharge the `K = 0` early return, then as `kernel_open` -/
macro "cuda_open" hK:term : tactic => `(tactic| (
  rw [if_neg (by simpa using Nat.pos_iff_ne_zero.mp $hK)]
  kernel_open $hK))

theorem stats_win_only_csd_cuda_eq_ref (x1 x2 : Arr ℝ) (starts : Arr ℕ) (hK : 0 < starts.n) (L : ℕ) (w : Arr ℝ) (ω : ℝ) (Q : ℕ → ℕ → ℝ) :
    Gen._stats_win_only_csd_cuda x1 x2 starts L w ω = Model.refStats (-1) Q x1.get x2.get starts.get starts.n L w.get ω := by
  unfold Gen._stats_win_only_csd_cuda Gen._stats_win_only_csd_cuda_kernel
  cuda_open hK
  unfold Model.refStats
  apply reduceStats_congr
  intro j
  refine goertzel_pair_segDFT ω (-1) Q x1.get x2.get (starts.get j) L w.get _ _ ?_ ?_
  · intro n _; simp only [detr_none]
  · intro n _; simp only [detr_none]

theorem stats_win_only_auto_cuda_eq_ref (x : Arr ℝ) (starts : Arr ℕ) (hK : 0 < starts.n) (L : ℕ) (w : Arr ℝ) (ω : ℝ) (Q : ℕ → ℕ → ℝ) :
    Gen._stats_win_only_auto_cuda x starts L w ω = Model.refStatsAuto (-1) Q x.get starts.get starts.n L w.get ω := by
  unfold Gen._stats_win_only_auto_cuda Gen._stats_win_only_auto_cuda_kernel
  cuda_open hK
  unfold Model.refStatsAuto
  apply reduceStats_congr
  intro j
  refine goertzel_auto4_segDFT ω (-1) Q x.get (starts.get j) L w.get _ ?_
  intro n _; simp only [detr_none]

theorem stats_detrend0_csd_cuda_eq_ref (x1 x2 : Arr ℝ) (starts : Arr ℕ) (hK : 0 < starts.n) (L : ℕ) (w : Arr ℝ) (ω : ℝ) (Q : ℕ → ℕ → ℝ) :
    Gen._stats_detrend0_csd_cuda x1 x2 starts L w ω = Model.refStats 0 Q x1.get x2.get starts.get starts.n L w.get ω := by
  unfold Gen._stats_detrend0_csd_cuda Gen._stats_detrend0_csd_cuda_kernel
  cuda_open hK
  unfold Model.refStats
  apply reduceStats_congr
  intro j
  refine goertzel_pair_segDFT ω 0 Q x1.get x2.get (starts.get j) L w.get _ _ ?_ ?_
  · intro n _
    simp only [detr_mean, forRange_acc_sum2, RL.ofNat_eq]
  · intro n _
    simp only [detr_mean, forRange_acc_sum2, RL.ofNat_eq]

theorem stats_detrend0_auto_cuda_eq_ref (x : Arr ℝ) (starts : Arr ℕ) (hK : 0 < starts.n) (L : ℕ) (w : Arr ℝ) (ω : ℝ) (Q : ℕ → ℕ → ℝ) :
    Gen._stats_detrend0_auto_cuda x starts L w ω = Model.refStatsAuto 0 Q x.get starts.get starts.n L w.get ω := by
  unfold Gen._stats_detrend0_auto_cuda Gen._stats_detrend0_auto_cuda_kernel
  cuda_open hK
  unfold Model.refStatsAuto
  apply reduceStats_congr
  intro j
  refine goertzel_auto4_segDFT ω 0 Q x.get (starts.get j) L w.get _ ?_
  intro n _
  simp only [detr_mean, forRange_acc_sum, RL.ofNat_eq]

theorem stats_poly_csd_cuda_eq_ref (x1 x2 : Arr ℝ) (starts : Arr ℕ) (hK : 0 < starts.n) (L : ℕ) (w : Arr ℝ) (ω : ℝ)
    (Qa : Arr2 ℝ) (p : ℕ) (hp : 1 ≤ p) (hQ : Qa.m = p + 1) :
    Gen._stats_poly_csd_cuda x1 x2 starts L w ω Qa = Model.refStats (p : ℤ) Qa.get x1.get x2.get starts.get starts.n L w.get ω := by
  unfold Gen._stats_poly_csd_cuda Gen._stats_poly_csd_cuda_kernel
  cuda_open hK
  unfold Model.refStats
  apply reduceStats_congr
  intro j
  refine goertzel_pair_segDFT ω (p : ℤ) Qa.get x1.get x2.get (starts.get j) L w.get _ _ ?_ ?_
  · intro n _
    simp only [detr_poly p hp, forRange_acc_sum, hQ]
  · intro n _
    simp only [detr_poly p hp, forRange_acc_sum, hQ]

theorem stats_poly_auto_cuda_eq_ref (x : Arr ℝ) (starts : Arr ℕ) (hK : 0 < starts.n) (L : ℕ) (w : Arr ℝ) (ω : ℝ)
    (Qa : Arr2 ℝ) (p : ℕ) (hp : 1 ≤ p) (hQ : Qa.m = p + 1) :
    Gen._stats_poly_auto_cuda x starts L w ω Qa = Model.refStatsAuto (p : ℤ) Qa.get x.get starts.get starts.n L w.get ω := by
  unfold Gen._stats_poly_auto_cuda Gen._stats_poly_auto_cuda_kernel
  cuda_open hK
  unfold Model.refStatsAuto
  apply reduceStats_congr
  intro j
  refine goertzel_auto4_segDFT ω (p : ℤ) Qa.get x.get (starts.get j) L w.get _ ?_
  intro n _
  simp only [detr_poly p hp, forRange_acc_sum, hQ]

/-! ### hence all backends agree (also at `K = 0`, where both return zeros) -/

theorem numba_cuda_agree_win_only_csd (x1 x2 : Arr ℝ) (starts : Arr ℕ) (L : ℕ) (w : Arr ℝ) (ω : ℝ) :
    Gen._stats_win_only_csd_cuda x1 x2 starts L w ω = Gen._stats_win_only_csd x1 x2 starts L w ω := by
  by_cases h : starts.n = 0
  · unfold Gen._stats_win_only_csd_cuda Gen._stats_win_only_csd Gen._reduce_stats_nb
    simp [h]
  · have hK : 0 < starts.n := Nat.pos_of_ne_zero h
    rw [stats_win_only_csd_cuda_eq_ref x1 x2 starts hK L w ω (fun _ _ => 0),
      stats_win_only_csd_eq_ref x1 x2 starts hK L w ω (fun _ _ => 0)]

theorem numba_cuda_agree_win_only_auto (x : Arr ℝ) (starts : Arr ℕ) (L : ℕ) (w : Arr ℝ) (ω : ℝ) :
    Gen._stats_win_only_auto_cuda x starts L w ω = Gen._stats_win_only_auto x starts L w ω := by
  by_cases h : starts.n = 0
  · unfold Gen._stats_win_only_auto_cuda Gen._stats_win_only_auto Gen._reduce_stats_nb
    simp [h]
  · have hK : 0 < starts.n := Nat.pos_of_ne_zero h
    rw [stats_win_only_auto_cuda_eq_ref x starts hK L w ω (fun _ _ => 0),
      stats_win_only_auto_eq_ref x starts hK L w ω (fun _ _ => 0)]

theorem numba_cuda_agree_detrend0_csd (x1 x2 : Arr ℝ) (starts : Arr ℕ) (L : ℕ) (w : Arr ℝ) (ω : ℝ) :
    Gen._stats_detrend0_csd_cuda x1 x2 starts L w ω = Gen._stats_detrend0_csd x1 x2 starts L w ω := by
  by_cases h : starts.n = 0
  · unfold Gen._stats_detrend0_csd_cuda Gen._stats_detrend0_csd Gen._reduce_stats_nb
    simp [h]
  · have hK : 0 < starts.n := Nat.pos_of_ne_zero h
    rw [stats_detrend0_csd_cuda_eq_ref x1 x2 starts hK L w ω (fun _ _ => 0),
      stats_detrend0_csd_eq_ref x1 x2 starts hK L w ω (fun _ _ => 0)]

theorem numba_cuda_agree_detrend0_auto (x : Arr ℝ) (starts : Arr ℕ) (L : ℕ) (w : Arr ℝ) (ω : ℝ) :
    Gen._stats_detrend0_auto_cuda x starts L w ω = Gen._stats_detrend0_auto x starts L w ω := by
  by_cases h : starts.n = 0
  · unfold Gen._stats_detrend0_auto_cuda Gen._stats_detrend0_auto Gen._reduce_stats_nb
    simp [h]
  · have hK : 0 < starts.n := Nat.pos_of_ne_zero h
    rw [stats_detrend0_auto_cuda_eq_ref x starts hK L w ω (fun _ _ => 0),
      stats_detrend0_auto_eq_ref x starts hK L w ω (fun _ _ => 0)]

/-- for the polynomial kernels the agreement needs no hypothesis on `Q` at all: after inlining
    the two helper functions the CUDA kernel body is the Numba loop body -/
theorem numba_cuda_agree_poly_csd (x1 x2 : Arr ℝ) (starts : Arr ℕ) (L : ℕ) (w : Arr ℝ) (ω : ℝ) (Qa : Arr2 ℝ) :
    Gen._stats_poly_csd_cuda x1 x2 starts L w ω Qa = Gen._stats_poly_csd x1 x2 starts L w ω Qa := by
  by_cases h : starts.n = 0
  · unfold Gen._stats_poly_csd_cuda Gen._stats_poly_csd Gen._reduce_stats_nb
    simp [h]
  · unfold Gen._stats_poly_csd_cuda Gen._stats_poly_csd_cuda_kernel Gen._stats_poly_csd
    rw [if_neg (by simpa using h)]
    simp only [Gen._apply_poly_detrend_inplace_nb_rowdot, Gen._apply_poly_detrend_inplace_nb_alpha]

/-- for the polynomial kernels the agreement needs no hypothesis on `Q` at all: after inlining
    the two helper functions the CUDA kernel body is the Numba loop body -/
theorem numba_cuda_agree_poly_auto (x : Arr ℝ) (starts : Arr ℕ) (L : ℕ) (w : Arr ℝ) (ω : ℝ) (Qa : Arr2 ℝ) :
    Gen._stats_poly_auto_cuda x starts L w ω Qa = Gen._stats_poly_auto x starts L w ω Qa := by
  by_cases h : starts.n = 0
  · unfold Gen._stats_poly_auto_cuda Gen._stats_poly_auto Gen._reduce_stats_nb
    simp [h]
  · unfold Gen._stats_poly_auto_cuda Gen._stats_poly_auto_cuda_kernel Gen._stats_poly_auto
    rw [if_neg (by simpa using h)]
    simp only [Gen._apply_poly_detrend_inplace_nb_rowdot, Gen._apply_poly_detrend_inplace_nb_alpha]

/-! ### conventions pinned on the reference -/

set_option linter.unusedVariables false in
/-- auto mode is the diagonal: MYY = MXX = mu_r and mu_i = 0 -/
theorem auto_is_diag (order : ℤ) (Q : ℕ → ℕ → ℝ) (x : ℕ → ℝ) (starts : ℕ → ℕ) (K L : ℕ) (hK : 0 < K) (w : ℕ → ℝ) (ω : ℝ) :
    let r := Model.refStatsAuto order Q x starts K L w ω
    r.2.1 = r.1 ∧ r.2.2.1 = r.1 ∧ r.2.2.2.1 = 0 := by
  intro r
  refine ⟨rfl, rfl, ?_⟩
  simp [r, Model.refStatsAuto, Model.reduceStats, sumRange_eq_sum]

/-- sign convention pinned: the imaginary part of the cross term is Im(X · conj Y) -/
theorem ref_cross_is_X_conjY (order : ℤ) (Q : ℕ → ℕ → ℝ) (x y : ℕ → ℝ) (starts : ℕ → ℕ) (L : ℕ) (w : ℕ → ℝ) (ω : ℝ) :
    let r := Model.refStats order Q x y starts 1 L w ω
    (⟨r.2.2.1, r.2.2.2.1⟩ : ℂ) = Cx.toC (Model.segDFT order Q x (starts 0) L w ω) * (starRingEnd ℂ) (Cx.toC (Model.segDFT order Q y (starts 0) L w ω)) := by
  intro r
  rw [← Cx.toC_conj, ← Cx.toC_mul]
  simp [r, Model.refStats, Model.reduceStats, sumRange_eq_sum, Cx.toC]

/-- non-vacuity: concrete numbers, L = 3, two (repeated) starts: X = 1 + 2 + 3 = 6, |X|² = 36 -/
example : (Gen._stats_win_only_csd (α := ℝ) ⟨5, fun n => (n : ℝ)⟩ ⟨5, fun n => (n : ℝ) ^ 2⟩ ⟨2, fun _ => 1⟩ 3 ⟨3, fun _ => 1⟩ 0).1 = 36 := by
  unfold Gen._stats_win_only_csd Gen._reduce_stats_nb
  simp [forRange_succ, forRange_zero, Arr.mean, sumRange]
  norm_num

#print axioms reduce_spec
#print axioms reduce_M2_all_K
#print axioms reduce_M2_nonneg
#print axioms reduce_M2_one
#print axioms reduceStats_congr
#print axioms stats_win_only_csd_eq_ref
#print axioms stats_win_only_auto_eq_ref
#print axioms stats_detrend0_csd_eq_ref
#print axioms stats_detrend0_auto_eq_ref
#print axioms stats_poly_csd_eq_ref
#print axioms stats_poly_auto_eq_ref
#print axioms stats_win_only_csd_cuda_eq_ref
#print axioms stats_win_only_auto_cuda_eq_ref
#print axioms stats_detrend0_csd_cuda_eq_ref
#print axioms stats_detrend0_auto_cuda_eq_ref
#print axioms stats_poly_csd_cuda_eq_ref
#print axioms stats_poly_auto_cuda_eq_ref
#print axioms numba_cuda_agree_win_only_csd
#print axioms numba_cuda_agree_win_only_auto
#print axioms numba_cuda_agree_detrend0_csd
#print axioms numba_cuda_agree_detrend0_auto
#print axioms numba_cuda_agree_poly_csd
#print axioms numba_cuda_agree_poly_auto
#print axioms auto_is_diag
#print axioms ref_cross_is_X_conjY
