/-
  Props/StartsGen — the machine-translated start-position computation of `ltf_plan`
  (`Gen.ltf_plan_starts`, the per-bin body of the second loop of speckit/schedulers.py `ltf_plan`, regenerated
  from the source on every run) IS the hand model `Model.startsAccum`; hence the segment-safety theorems of
  `Lemmas/Starts.lean` (`startsAccum_safe`: every start is ≥ 0 and start + L ≤ N) and the overlap theorems are
  theorems about the code as translated.
-/
import SpecKitV.RealInst
import SpecKitV.Gen.Sched
import SpecKitV.Model.Sched
import SpecKitV.Lemmas.Starts

set_option linter.unusedVariables false

/-- generated = model, for every non-negative record length / segment length and every count -/
theorem gen_ltf_starts_eq_model (N L : ℕ) (K : ℤ) :
    Gen.ltf_plan_starts (α := ℝ) (N : ℤ) (L : ℤ) K = Model.startsAccum (α := ℝ) N L K := by
  unfold Gen.ltf_plan_starts Model.startsAccum
  simp only [RL.ofSci_eq, RL.ofInt_eq, RL.ofNat_eq, RL.one_eq, RL.zero_eq, RealLike.ge]
  norm_num

/-- hence: the translated code's start positions are safe (inside the record) -/
theorem gen_ltf_starts_safe (N L : ℕ) (K : ℤ) (hL : 1 ≤ L) (hLN : L ≤ N) (hK2 : 2 ≤ K) (hK : K ≤ (N : ℤ) - L + 1) :
    let D := Gen.ltf_plan_starts (α := ℝ) (N : ℤ) (L : ℤ) K
    D.length = K.toNat ∧ D.head? = some 0 ∧ D.getLast? = some ((N : ℤ) - L) ∧
    D.Pairwise (· < ·) ∧ (∀ d ∈ D, 0 ≤ d ∧ d + L ≤ N) := by
  intro D
  have h := startsAccum_safe N L K hL hLN hK2 hK
  simp only [D, gen_ltf_starts_eq_model]
  exact ⟨h.1, h.2.1, h.2.2.1, h.2.2.2.1, h.2.2.2.2.1⟩

#print axioms gen_ltf_starts_eq_model
#print axioms gen_ltf_starts_safe
