/-
  SpecKitV.Props.BuildQGen — the library's OWN detrend basis satisfies the contract of the detrending theorems.

  `Gen._build_Q L order` is `speckit.core._build_Q` as translated from the source on every run (Gen/BuildQ.lean, vk/regions/build_q.py):
  order validation, `np.linspace(-1, 1, L)`, the Vandermonde columns read from the source, the reduced QR factor as the stated contract
  `Np.qrReducedQ` (Gram–Schmidt; Np/BuildQ.lean).  Proved here, over ℝ, for every `L ≥ 1` and `order ∈ {1, 2}`:

  * the translated function returns `some Q` with `Q` of shape `L × min(L, order+1)`, ORTHONORMAL columns (`OrthoCols`), whose span is
    exactly the polynomials of degree `< min(L, order+1)` IN THE SAMPLE INDEX `n` (`InSpan` both ways) — `IsPolyBasis`,
    `gen_build_Q_isPolyBasis`; `none` exactly for the orders the Python rejects (`gen_build_Q_none`);
  * hence every hypothesis the kernel / detrend theorems put on the basis (`Qa.m = p+1`, `OrthoCols`, `InSpan`, completeness for
    short segments) holds for `libQ L order := the value of Gen._build_Q L order`, and the C01 / C08 statements hold for the three
    backends called with the library's own basis with NO hypothesis on the basis left (section "transfer").

  Ingredients: the span algebra of `InSpan`; Gram–Schmidt of linearly independent columns is orthonormal with the same flag of spans
  (`qr_spec`, any number of columns); Vandermonde columns on pairwise distinct nodes are independent (`vander_indep`, through the root
  count of a polynomial); the nodes of `linspace` are affine in the index with a non-zero slope (`linspace_affine`).
-/
import SpecKitV.Lemmas.DetrendComplete
import SpecKitV.Props.C01
import SpecKitV.Props.NumpyKernelsGen
import SpecKitV.Gen.BuildQ
import Mathlib.Algebra.Polynomial.Roots
import Mathlib.Data.List.GetD
import Mathlib.Tactic.IntervalCases
open Finset

namespace BuildQ

/-- `Arr.memo` (eager evaluation of a vector expression) is extensionally the identity -/
theorem memo_eq {β : Type} (a : Arr β) : Arr.memo a = a := by
  obtain ⟨n, get⟩ := a
  unfold Arr.memo
  simp only [Arr.mk.injEq, true_and]
  funext i
  split
  · simp only [Array.getElem_map, Array.getElem_range]
  · rfl

/-! ### 1. the span algebra of `InSpan` -/

section span
variable {f f' : ℕ → ℕ → ℝ} {L k k' : ℕ} {g g' h : ℕ → ℝ}

theorem inSpan_congr (hgg : ∀ n < L, g n = g' n) (hg : InSpan f L k g) : InSpan f L k g' := by
  obtain ⟨a, ha⟩ := hg
  exact ⟨a, fun n hn => by rw [← hgg n hn, ha n hn]⟩

theorem inSpan_congr_basis (hff : ∀ n < L, ∀ j < k, f n j = f' n j) (hg : InSpan f L k g) :
    InSpan f' L k g := by
  obtain ⟨a, ha⟩ := hg
  refine ⟨a, fun n hn => ?_⟩
  rw [ha n hn]
  exact sum_congr rfl (fun j hj => by rw [hff n hn j (mem_range.1 hj)])

theorem inSpan_zero : InSpan f L k (fun _ => 0) :=
  ⟨fun _ => 0, fun n _ => by simp⟩

theorem inSpan_add (hg : InSpan f L k g) (hh : InSpan f L k h) : InSpan f L k (fun n => g n + h n) := by
  obtain ⟨a, ha⟩ := hg
  obtain ⟨b, hb⟩ := hh
  refine ⟨fun i => a i + b i, fun n hn => ?_⟩
  beta_reduce
  rw [ha n hn, hb n hn, ← sum_add_distrib]
  exact sum_congr rfl (fun i _ => by ring)

theorem inSpan_smul (c : ℝ) (hg : InSpan f L k g) : InSpan f L k (fun n => c * g n) := by
  obtain ⟨a, ha⟩ := hg
  refine ⟨fun i => c * a i, fun n hn => ?_⟩
  beta_reduce
  rw [ha n hn, mul_sum]
  exact sum_congr rfl (fun i _ => by ring)

theorem inSpan_sub (hg : InSpan f L k g) (hh : InSpan f L k h) : InSpan f L k (fun n => g n - h n) := by
  have := inSpan_add hg (inSpan_smul (-1) hh)
  exact inSpan_congr (fun n _ => by ring) this

theorem inSpan_col {j : ℕ} (hj : j < k) : InSpan f L k (fun n => f n j) := by
  refine ⟨fun i => if i = j then 1 else 0, fun n _ => ?_⟩
  simp only [ite_mul, one_mul, zero_mul]
  rw [sum_ite_eq' (range k) j, if_pos (mem_range.2 hj)]

theorem inSpan_sum {ι : Type} (s : Finset ι) (c : ι → ℝ) (G : ι → ℕ → ℝ)
    (hG : ∀ i ∈ s, InSpan f L k (G i)) : InSpan f L k (fun n => ∑ i ∈ s, c i * G i n) := by
  classical
  induction s using Finset.induction_on with
  | empty => simpa using (inSpan_zero (f := f) (L := L) (k := k))
  | insert i s hi ih =>
    simp only [sum_insert hi]
    exact inSpan_add (inSpan_smul _ (hG i (mem_insert_self _ _)))
      (ih (fun j hj => hG j (mem_insert_of_mem hj)))

/-- if every basis vector of `f` lies in the span of `f'`, so does the span of `f` -/
theorem inSpan_trans (hcols : ∀ j < k, InSpan f' L k' (fun n => f n j)) (hg : InSpan f L k g) :
    InSpan f' L k' g := by
  obtain ⟨a, ha⟩ := hg
  exact inSpan_congr (fun n hn => (ha n hn).symm)
    (inSpan_sum (range k) a (fun j n => f n j) (fun j hj => hcols j (mem_range.1 hj)))

theorem inSpan_mono (hkk : k ≤ k') (hg : InSpan f L k g) : InSpan f L k' g :=
  inSpan_trans (fun _ hj => inSpan_col (lt_of_lt_of_le hj hkk)) hg

end span

/-! ### 2. linear independence of columns on the grid -/

/-- the first `r` columns of `v` (entry `v n k`: row `n`, column `k`) are linearly independent on the `L`-point grid -/
def LinIndepCols (v : ℕ → ℕ → ℝ) (L r : ℕ) : Prop :=
  ∀ c : ℕ → ℝ, (∀ n < L, ∑ k ∈ range r, c k * v n k = 0) → ∀ k < r, c k = 0

theorem linIndepCols_mono {v : ℕ → ℕ → ℝ} {L r k : ℕ} (hk : k ≤ r) (h : LinIndepCols v L r) :
    LinIndepCols v L k := by
  intro c hc i hi
  have h1 := h (fun j => if j < k then c j else 0) (fun n hn => by
    have e : ∑ j ∈ range r, (if j < k then c j else 0) * v n j = ∑ j ∈ range k, c j * v n j := by
      rw [← sum_subset (f := fun j => (if j < k then c j else 0) * v n j) (range_subset_range.2 hk)
        (fun j _ hj => by rw [if_neg (by simpa using hj), zero_mul])]
      exact sum_congr rfl (fun j hj => by rw [if_pos (mem_range.1 hj)])
    rw [e]
    exact hc n hn) i (lt_of_lt_of_le hi hk)
  simpa [hi] using h1

theorem linIndepCols_congr {v v' : ℕ → ℕ → ℝ} {L r : ℕ} (hvv : ∀ n < L, ∀ k < r, v n k = v' n k)
    (h : LinIndepCols v L r) : LinIndepCols v' L r := by
  intro c hc
  refine h c (fun n hn => ?_)
  rw [← hc n hn]
  exact sum_congr rfl (fun k hk => by rw [hvv n hn k (mem_range.1 hk)])

/-- a column in the span of the previous ones contradicts independence -/
theorem linIndepCols_not_inSpan {v : ℕ → ℕ → ℝ} {L k : ℕ} (h : LinIndepCols v L (k + 1)) :
    ¬ InSpan v L k (fun n => v n k) := by
  rintro ⟨a, ha⟩
  have h1 := h (fun j => if j < k then a j else -1) (fun n hn => by
    have e : ∑ x ∈ range k, (if x < k then a x else -1) * v n x = ∑ x ∈ range k, a x * v n x :=
      sum_congr rfl (fun j hj => by rw [if_pos (mem_range.1 hj)])
    have hv : v n k = ∑ x ∈ range k, a x * v n x := ha n hn
    rw [sum_range_succ, if_neg (lt_irrefl k), e, hv]
    ring) k (Nat.lt_succ_self k)
  simp at h1

/-! ### 3. Gram–Schmidt (`Np.qrReducedQ`) of independent columns -/

/-- the matrix whose columns are the arrays of the list -/
noncomputable def QM (qs : List (Arr ℝ)) : ℕ → ℕ → ℝ := fun n j => (Np.colOf qs j).get n

theorem QM_append_lt (qs : List (Arr ℝ)) (q : Arr ℝ) (n j : ℕ) (hj : j < qs.length) :
    QM (qs ++ [q]) n j = QM qs n j := by
  unfold QM Np.colOf
  rw [List.getD_append _ _ _ _ hj]

theorem QM_append_eq (qs : List (Arr ℝ)) (q : Arr ℝ) (n : ℕ) :
    QM (qs ++ [q]) n qs.length = q.get n := by
  unfold QM Np.colOf
  rw [List.getD_append_right _ _ _ _ (le_refl _)]
  simp

/-- the loop invariant: after `k` steps the list holds `k` orthonormal columns spanning what the first `k` columns of `V` span -/
structure GSInv (V : ℕ → ℕ → ℝ) (L k : ℕ) (qs : List (Arr ℝ)) : Prop where
  len : qs.length = k
  ortho : OrthoCols (QM qs) L k
  v_in_q : ∀ j < k, InSpan (QM qs) L k (fun n => V n j)
  q_in_v : ∀ j < k, InSpan V L k (fun n => QM qs n j)

theorem gsInv_zero (V : ℕ → ℕ → ℝ) (L : ℕ) : GSInv V L 0 [] :=
  ⟨rfl, fun k hk => absurd hk (Nat.not_lt_zero k), fun j hj => absurd hj (Nat.not_lt_zero j),
    fun j hj => absurd hj (Nat.not_lt_zero j)⟩

theorem gsStep_eq (V : Arr2 ℝ) (k : ℕ) (qs : List (Arr ℝ)) :
    Np.gsStep V k qs = qs ++ [⟨V.n, fun n =>
      (V.get n k - ∑ j ∈ range k, (∑ m ∈ range V.n, QM qs m j * V.get m k) * QM qs n j)
        / Real.sqrt (∑ m ∈ range V.n,
            (V.get m k - ∑ j ∈ range k, (∑ m' ∈ range V.n, QM qs m' j * V.get m' k) * QM qs m j)
            * (V.get m k - ∑ j ∈ range k, (∑ m' ∈ range V.n, QM qs m' j * V.get m' k) * QM qs m j))⟩] := by
  unfold Np.gsStep
  simp only [memo_eq, sumRange_eq_sum, RL.sqrt_eq, QM]

theorem gs_step (V : Arr2 ℝ) (k : ℕ) (hind : LinIndepCols V.get V.n (k + 1)) (qs : List (Arr ℝ))
    (h : GSInv V.get V.n k qs) : GSInv V.get V.n (k + 1) (Np.gsStep V k qs) := by
  obtain ⟨hlen, hO, hvq, hqv⟩ := h
  rw [gsStep_eq]
  set L := V.n with hL
  set Q := QM qs with hQdef
  set c : ℕ → ℝ := fun j => ∑ m ∈ range L, Q m j * V.get m k with hc
  set u : ℕ → ℝ := fun n => V.get n k - ∑ j ∈ range k, c j * Q n j with hu
  set S : ℝ := ∑ m ∈ range L, u m * u m with hS
  set qk : Arr ℝ := ⟨L, fun n => u n / Real.sqrt S⟩ with hqk
  set Q' := QM (qs ++ [qk]) with hQ'
  have hold : ∀ n, ∀ j < k, Q' n j = Q n j := fun n j hj => QM_append_lt qs qk n j (by rw [hlen]; exact hj)
  have hnew : ∀ n, Q' n k = u n / Real.sqrt S := fun n => by
    have := QM_append_eq qs qk n
    rw [hlen] at this
    exact this
  -- the projection part is in the span of the old columns, with coefficients `c`
  have hproj : ∀ j < k, ∑ m ∈ range L, Q m j * (∑ i ∈ range k, c i * Q m i) = c j := fun j hj =>
    coeff_of_span Q L k hO c (fun n => ∑ i ∈ range k, c i * Q n i) (fun n _ => rfl) j hj
  -- `u` is orthogonal to the old columns
  have hperp : ∀ j < k, ∑ n ∈ range L, Q n j * u n = 0 := fun j hj => by
    simp only [hu, mul_sub, sum_sub_distrib]
    rw [hproj j hj]
    exact sub_self _
  -- `u` does not vanish on the grid
  have hSpos : 0 < S := by
    have hnn : 0 ≤ S := sum_nonneg (fun m _ => mul_self_nonneg (u m))
    rcases hnn.lt_or_eq with hpos | h0
    · exact hpos
    · exfalso
      have hz : ∀ n ∈ range L, u n * u n = 0 :=
        (sum_eq_zero_iff_of_nonneg (fun m _ => mul_self_nonneg (u m))).1 h0.symm
      have hspanQ : InSpan Q L k (fun n => V.get n k) :=
        ⟨c, fun n hn => by
          have := mul_self_eq_zero.1 (hz n (mem_range.2 hn))
          simp only [hu] at this
          linarith⟩
      exact linIndepCols_not_inSpan hind (inSpan_trans hqv hspanQ)
  have hsq : Real.sqrt S * Real.sqrt S = S := Real.mul_self_sqrt hSpos.le
  have hs0 : Real.sqrt S ≠ 0 := (Real.sqrt_pos.2 hSpos).ne'
  refine ⟨by rw [List.length_append, hlen]; rfl, ?_, ?_, ?_⟩
  · -- orthonormality
    rw [← hQ']
    intro j hj j' hj'
    rcases Nat.lt_succ_iff_lt_or_eq.1 hj with hjk | hjk
    · rcases Nat.lt_succ_iff_lt_or_eq.1 hj' with hjk' | hjk'
      · rw [← hO j hjk j' hjk']
        exact sum_congr rfl (fun n _ => by rw [hold n j hjk, hold n j' hjk'])
      · rw [if_neg (by omega), hjk']
        have : ∑ n ∈ range L, Q' n j * Q' n k = (∑ n ∈ range L, Q n j * u n) / Real.sqrt S := by
          rw [sum_div]
          exact sum_congr rfl (fun n _ => by rw [hold n j hjk, hnew n]; ring)
        rw [this, hperp j hjk, zero_div]
    · rcases Nat.lt_succ_iff_lt_or_eq.1 hj' with hjk' | hjk'
      · rw [if_neg (by omega), hjk]
        have : ∑ n ∈ range L, Q' n k * Q' n j' = (∑ n ∈ range L, Q n j' * u n) / Real.sqrt S := by
          rw [sum_div]
          exact sum_congr rfl (fun n _ => by rw [hold n j' hjk', hnew n]; ring)
        rw [this, hperp j' hjk', zero_div]
      · rw [if_pos (by omega), hjk, hjk']
        have : ∑ n ∈ range L, Q' n k * Q' n k
            = (∑ n ∈ range L, u n * u n) / (Real.sqrt S * Real.sqrt S) := by
          rw [sum_div]
          exact sum_congr rfl (fun n _ => by rw [hnew n]; field_simp)
        rw [this, hsq]
        exact div_self hSpos.ne'
  · -- the columns of V are in the span of the new list
    rw [← hQ']
    intro j hj
    rcases Nat.lt_succ_iff_lt_or_eq.1 hj with hjk | hjk
    · exact inSpan_mono (Nat.le_succ k) (inSpan_congr_basis (fun n _ i hi => (hold n i hi).symm) (hvq j hjk))
    · rw [hjk]
      have h1 : InSpan Q' L (k + 1) (fun n => ∑ i ∈ range k, c i * Q' n i) :=
        inSpan_sum (range k) c (fun i n => Q' n i)
          (fun i hi => inSpan_col (Nat.lt_succ_of_lt (mem_range.1 hi)))
      have h2 : InSpan Q' L (k + 1) (fun n => Real.sqrt S * Q' n k) :=
        inSpan_smul _ (inSpan_col (Nat.lt_succ_self k))
      refine inSpan_congr (fun n _ => ?_) (inSpan_add h1 h2)
      rw [hnew n, mul_div_cancel₀ _ hs0]
      have : ∑ i ∈ range k, c i * Q' n i = ∑ i ∈ range k, c i * Q n i :=
        sum_congr rfl (fun i hi => by rw [hold n i (mem_range.1 hi)])
      rw [this]
      simp only [hu]
      ring
  · -- the new columns are in the span of the columns of V
    rw [← hQ']
    intro j hj
    rcases Nat.lt_succ_iff_lt_or_eq.1 hj with hjk | hjk
    · exact inSpan_mono (Nat.le_succ k) (inSpan_congr (fun n _ => (hold n j hjk).symm) (hqv j hjk))
    · rw [hjk]
      have h1 : InSpan V.get L (k + 1) (fun n => ∑ i ∈ range k, c i * Q n i) :=
        inSpan_sum (range k) c (fun i n => Q n i)
          (fun i hi => inSpan_mono (Nat.le_succ k) (hqv i (mem_range.1 hi)))
      have h2 : InSpan V.get L (k + 1) (fun n => V.get n k) := inSpan_col (Nat.lt_succ_self k)
      refine inSpan_congr (fun n _ => ?_) (inSpan_smul (1 / Real.sqrt S) (inSpan_sub h2 h1))
      rw [hnew n]
      simp only [hu]
      ring

/-- Gram–Schmidt of a matrix whose first `min(rows, cols)` columns are independent: orthonormal columns, the same flag of spans -/
theorem qr_spec (V : Arr2 ℝ) (hind : LinIndepCols V.get V.n (min V.n V.m)) :
    (Np.qrReducedQ V).n = V.n ∧ (Np.qrReducedQ V).m = min V.n V.m ∧
    OrthoCols (Np.qrReducedQ V).get V.n (min V.n V.m) ∧
    (∀ j < min V.n V.m, InSpan (Np.qrReducedQ V).get V.n (min V.n V.m) (fun n => V.get n j)) ∧
    (∀ j < min V.n V.m, InSpan V.get V.n (min V.n V.m) (fun n => (Np.qrReducedQ V).get n j)) := by
  have key : GSInv V.get V.n (min V.n V.m)
      (forRange (min V.n V.m) [] (fun k qs => Np.gsStep V k qs)) := by
    refine forRange_inv (fun k qs => k ≤ min V.n V.m → GSInv V.get V.n k qs) (min V.n V.m) []
      (fun k qs => Np.gsStep V k qs) (fun _ => gsInv_zero _ _) ?_ (le_refl _)
    intro k qs hk ih hk1
    exact gs_step V k (linIndepCols_mono hk1 hind) qs (ih (Nat.le_of_lt hk))
  exact ⟨rfl, rfl, key.ortho, key.v_in_q, key.q_in_v⟩

/-! ### 4. Vandermonde columns on pairwise distinct nodes are independent -/

open Polynomial in
theorem vander_indep (t : ℕ → ℝ) (L r : ℕ) (hr : r ≤ L)
    (hinj : ∀ i < L, ∀ j < L, t i = t j → i = j) : LinIndepCols (fun n k => t n ^ k) L r := by
  intro c hc k hk
  set P : ℝ[X] := ∑ i ∈ range r, C (c i) * X ^ i with hP
  have heval : ∀ n < L, P.eval (t n) = 0 := fun n hn => by
    rw [hP, eval_finsetSum, ← hc n hn]
    exact sum_congr rfl (fun i _ => by simp)
  have hdeg : P.natDegree < r := by
    have h1 : P.natDegree ≤ r - 1 := by
      rw [hP]
      refine natDegree_sum_le_of_forall_le _ _ (fun i hi => ?_)
      exact (natDegree_C_mul_X_pow_le (c i) i).trans (by have := mem_range.1 hi; omega)
    omega
  have hcard : ((range L).image t).card = L := by
    rw [card_image_of_injOn, card_range]
    intro i hi j hj hij
    exact hinj i (by simpa using hi) j (by simpa using hj) hij
  have hzero : P = 0 := by
    refine eq_zero_of_natDegree_lt_card_of_eval_eq_zero' P ((range L).image t) ?_ ?_
    · intro x hx
      obtain ⟨n, hn, rfl⟩ := mem_image.1 hx
      exact heval n (mem_range.1 hn)
    · rw [hcard]
      exact lt_of_lt_of_le hdeg hr
  have hcoeff : P.coeff k = c k := by
    rw [hP, finsetSum_coeff]
    simp only [coeff_C_mul_X_pow]
    rw [sum_ite_eq (range r) k c, if_pos (mem_range.2 hk)]
  rw [← hcoeff, hzero, coeff_zero]

/-! ### 5. grids that are affine in the sample index -/

/-- the nodes are `a + b·n` with a non-zero slope on the `L`-point grid -/
def AffineGrid (t : ℕ → ℝ) (L : ℕ) : Prop := ∃ a b : ℝ, b ≠ 0 ∧ ∀ n < L, t n = a + b * n

theorem AffineGrid.inj {t : ℕ → ℝ} {L : ℕ} (h : AffineGrid t L) :
    ∀ i < L, ∀ j < L, t i = t j → i = j := by
  obtain ⟨a, b, hb, ht⟩ := h
  intro i hi j hj hij
  rw [ht i hi, ht j hj] at hij
  have : (i : ℝ) = j := mul_left_cancel₀ hb (add_left_cancel hij)
  exact_mod_cast this

/-- `np.linspace(lo, hi, L)`, `lo ≠ hi`, `L ≥ 1`: node `n` is `lo + n·(hi−lo)/(L−1)` (also the last one, which NumPy overwrites by `hi`;
    for `L = 1` the single node is `lo`) -/
theorem linspace_affine (lo hi : ℝ) (hne : lo ≠ hi) (L : ℕ) (hL : 1 ≤ L) :
    AffineGrid (Np.linspace lo hi L).get L := by
  rcases Nat.lt_or_ge 1 L with h2 | h1
  · have hL1 : ((L - 1 : ℕ) : ℝ) ≠ 0 := by
      have : 0 < L - 1 := by omega
      exact_mod_cast this.ne'
    refine ⟨lo, (hi - lo) / ((L - 1 : ℕ) : ℝ), div_ne_zero (sub_ne_zero.2 hne.symm) hL1, fun n hn => ?_⟩
    unfold Np.linspace
    simp only [RL.ofNat_eq]
    rw [if_neg (by omega)]
    by_cases hlast : n + 1 = L
    · rw [if_pos (by simpa using hlast)]
      have : (n : ℝ) = ((L - 1 : ℕ) : ℝ) := by
        have : n = L - 1 := by omega
        rw [this]
      rw [this]
      field_simp
      ring
    · rw [if_neg (by simpa using hlast)]
      ring
  · have : L = 1 := by omega
    subst this
    refine ⟨lo, 1, one_ne_zero, fun n hn => ?_⟩
    have : n = 0 := by omega
    subst this
    simp [Np.linspace]

/-- the harmless variant `np.linspace(lo, hi, L+1)[:-1]`: node `n` is `lo + n·(hi−lo)/L` -/
theorem linspace_slice_affine (lo hi : ℝ) (hne : lo ≠ hi) (L : ℕ) (hL : 1 ≤ L) :
    AffineGrid (Np.slice (Np.linspace lo hi (L + 1)) 0 (-1)).get L := by
  have hL0 : (L : ℝ) ≠ 0 := by exact_mod_cast (by omega : L ≠ 0)
  refine ⟨lo, (hi - lo) / (L : ℝ), div_ne_zero (sub_ne_zero.2 hne.symm) hL0, fun n hn => ?_⟩
  unfold Np.slice Np.sliceBound Np.linspace
  simp only [RL.ofNat_eq]
  have h0 : ¬ ((0 : ℤ) < 0) := lt_irrefl 0
  simp only [h0, if_false, Int.toNat_zero, Nat.zero_min, Nat.zero_add]
  rw [if_neg (by omega), if_neg (by simp; omega)]
  simp only [Nat.add_sub_cancel]
  ring

/-! ### 6. polynomials in an affine grid variable = polynomials in the sample index (degree ≤ 2, explicitly) -/

/-- the monomial "matrix": entry `(n, k)` is `n^k` -/
noncomputable def mono : ℕ → ℕ → ℝ := fun n k => (n : ℝ) ^ k

/-- `(a + b n)^k`, `k ≤ 2`, is a polynomial of degree `k` in `n` -/
theorem pow_affine_inSpan_mono (a b : ℝ) (L k : ℕ) (hk : k < 3) :
    InSpan mono L (k + 1) (fun n => (a + b * n) ^ k) := by
  interval_cases k
  · exact ⟨fun _ => 1, fun n _ => by simp [mono]⟩
  · exact ⟨fun i => if i = 0 then a else b, fun n _ => by simp [mono, sum_range_succ]⟩
  · exact ⟨fun i => if i = 0 then a ^ 2 else if i = 1 then 2 * a * b else b ^ 2, fun n _ => by
      simp [mono, sum_range_succ]; ring⟩

/-- `n^k`, `k ≤ 2`, is a polynomial of degree `k` in `t = a + b n`, `b ≠ 0` -/
theorem mono_inSpan_pow_affine (a b : ℝ) (hb : b ≠ 0) (L k : ℕ) (hk : k < 3) :
    InSpan (fun n j => (a + b * (n : ℝ)) ^ j) L (k + 1) (fun n => (n : ℝ) ^ k) := by
  interval_cases k
  · exact ⟨fun _ => 1, fun n _ => by simp⟩
  · exact ⟨fun i => if i = 0 then -a / b else 1 / b, fun n _ => by
      simp [sum_range_succ]; field_simp; ring⟩
  · exact ⟨fun i => if i = 0 then a ^ 2 / b ^ 2 else if i = 1 then -2 * a / b ^ 2 else 1 / b ^ 2, fun n _ => by
      simp [sum_range_succ]; field_simp; ring⟩

/-- `(s + n)^k`, `k ≤ 3`: a polynomial of degree `k` in `n` whose top coefficient is 1 -/
theorem shift_pow_inSpan_mono (s L k : ℕ) (hk : k < 4) :
    InSpan mono L (k + 1) (fun n => (((s + n : ℕ) : ℝ)) ^ k) := by
  interval_cases k
  · exact ⟨fun _ => 1, fun n _ => by simp [mono]⟩
  · exact ⟨fun i => if i = 0 then (s : ℝ) else 1, fun n _ => by simp [mono, sum_range_succ]⟩
  · exact ⟨fun i => if i = 0 then (s : ℝ) ^ 2 else if i = 1 then 2 * s else 1, fun n _ => by
      simp [mono, sum_range_succ]; ring⟩
  · exact ⟨fun i => if i = 0 then (s : ℝ) ^ 3 else if i = 1 then 3 * s ^ 2 else if i = 2 then 3 * s else 1,
      fun n _ => by simp [mono, sum_range_succ]; ring⟩

/-- the monomials are independent on `L ≥ r` grid points -/
theorem mono_indep (L r : ℕ) (hr : r ≤ L) : LinIndepCols mono L r :=
  vander_indep (fun n => (n : ℝ)) L r hr (fun i _ j _ h => by exact_mod_cast h)

/-! ### 7. the contract of the detrend basis -/

/-- what the detrending theorems need of the basis for segments of length `L` and detrend order `p`:
    shape `L × r`, `r = min(L, p+1)`, orthonormal columns, span = polynomials of degree `< r` in the sample index -/
structure IsPolyBasis (Q : Arr2 ℝ) (L p : ℕ) : Prop where
  n_eq : Q.n = L
  m_eq : Q.m = min L (p + 1)
  ortho : OrthoCols Q.get L (min L (p + 1))
  mono_in_span : ∀ k < min L (p + 1), InSpan Q.get L (min L (p + 1)) (fun n => (n : ℝ) ^ k)
  cols_poly : ∀ j < min L (p + 1), InSpan mono L (min L (p + 1)) (fun n => Q.get n j)

/-- reduced QR (Gram–Schmidt) of a Vandermonde matrix `[1, t, (t·t)]` whose node column `t = V[:,1]` is affine in the sample index -/
theorem vander_qr_isPolyBasis (V : Arr2 ℝ) (L p : ℕ) (hp : p = 1 ∨ p = 2) (hn : V.n = L) (hm : V.m = p + 1)
    (h0 : ∀ n < L, V.get n 0 = 1) (h2 : p = 2 → ∀ n < L, V.get n 2 = V.get n 1 * V.get n 1)
    (ht : AffineGrid (fun n => V.get n 1) L) :
    IsPolyBasis (Np.qrReducedQ V) L p := by
  set t : ℕ → ℝ := fun n => V.get n 1 with htdef
  have hV : ∀ n < L, ∀ k < p + 1, V.get n k = t n ^ k := by
    intro n hn' k hk
    have hk3 : k = 0 ∨ k = 1 ∨ (k = 2 ∧ p = 2) := by omega
    rcases hk3 with rfl | rfl | ⟨rfl, hp2⟩
    · rw [h0 n hn', pow_zero]
    · rw [pow_one]
    · rw [h2 hp2 n hn', pow_two]
  set r := min L (p + 1) with hr
  have hrL : r ≤ L := min_le_left _ _
  have hrp : r ≤ p + 1 := min_le_right _ _
  have hind : LinIndepCols V.get V.n (min V.n V.m) := by
    rw [hn, hm]
    exact linIndepCols_congr (fun n hn' k hk => (hV n hn' k (lt_of_lt_of_le hk hrp)).symm)
      (vander_indep t L r hrL ht.inj)
  obtain ⟨h1, h2', h3, h4, h5⟩ := qr_spec V hind
  rw [hn, hm] at h2' h3 h4 h5
  obtain ⟨a, b, hb, hab⟩ := ht
  -- columns of V = powers of the affine variable, on the grid
  have hVT : ∀ n < L, ∀ k < r, V.get n k = (a + b * (n : ℝ)) ^ k := fun n hn' k hk => by
    rw [hV n hn' k (lt_of_lt_of_le hk hrp), hab n hn']
  refine ⟨h1.trans hn, h2', h3, ?_, ?_⟩
  · intro k hk
    have hk3 : k < 3 := by omega
    have e1 : InSpan (fun n j => (a + b * (n : ℝ)) ^ j) L r (fun n => (n : ℝ) ^ k) :=
      inSpan_mono (by omega) (mono_inSpan_pow_affine a b hb L k hk3)
    have e2 : InSpan V.get L r (fun n => (n : ℝ) ^ k) :=
      inSpan_congr_basis (fun n hn' j hj => (hVT n hn' j hj).symm) e1
    exact inSpan_trans h4 e2
  · intro j hj
    refine inSpan_trans (fun k hk => ?_) (h5 j hj)
    have hk3 : k < 3 := by omega
    exact inSpan_congr (fun n hn' => (hVT n hn' k hk).symm)
      (inSpan_mono (by omega) (pow_affine_inSpan_mono a b L k hk3))

/-! ### 8. the translated `_build_Q` -/

/-- the orders the Python rejects (`raise ValueError`): the translated function returns `none` -/
theorem gen_build_Q_none (L : ℕ) (order : ℤ) (h1 : order ≠ 1) (h2 : order ≠ 2) :
    Gen._build_Q (α := ℝ) L order = none := by
  unfold Gen._build_Q
  simp [h1, h2]

/-- evaluate the order tests of the translated function at a literal order -/
macro "build_q_guards" : tactic => `(tactic| (
  unfold Gen._build_Q
  simp only [Nat.cast_one, Nat.cast_ofNat, Int.reduceEq, Int.reduceNeg, Int.reduceLT, Int.reduceLE, eq_self_iff_true, ne_eq, not_true_eq_false,
    not_false_eq_true, decide_true, decide_false, Bool.or_true, Bool.true_or, Bool.or_false, Bool.false_or, Bool.and_true, Bool.true_and,
    Bool.and_false, Bool.false_and, Bool.not_true, Bool.not_false, Bool.false_eq_true, if_true, if_false]))

/-- the node column of the stacked matrix is the `linspace` vector (or its harmless variant): affine in the sample index -/
macro "build_q_nodes" hL:term : tactic => `(tactic| (
  simp only [Np.stackCols, List.getElem?_cons_succ, List.getElem?_cons_zero]
  first
    | exact linspace_affine _ _ (by simp only [RL.ofSci_eq]; norm_num) _ $hL
    | exact linspace_slice_affine _ _ (by simp only [RL.ofSci_eq]; norm_num) _ $hL))

/-- MAIN: for every `L ≥ 1` and order `p ∈ {1, 2}` the translated `_build_Q` returns a matrix satisfying the contract -/
theorem gen_build_Q_isPolyBasis (L : ℕ) (hL : 1 ≤ L) (p : ℕ) (hp : p = 1 ∨ p = 2) :
    ∃ Q : Arr2 ℝ, Gen._build_Q (α := ℝ) L (p : ℤ) = some Q ∧ IsPolyBasis Q L p := by
  rcases hp with rfl | rfl
  · build_q_guards
    refine ⟨_, rfl, ?_⟩
    refine vander_qr_isPolyBasis _ L 1 (Or.inl rfl) ?_ ?_ ?_ ?_ ?_
    · simp [Np.stackCols, Np.ones]
    · simp [Np.stackCols]
    · intro n _
      simp [Np.stackCols, Np.ones]
    · intro h
      omega
    · build_q_nodes hL
  · build_q_guards
    refine ⟨_, rfl, ?_⟩
    refine vander_qr_isPolyBasis _ L 2 (Or.inr rfl) ?_ ?_ ?_ ?_ ?_
    · simp [Np.stackCols, Np.ones]
    · simp [Np.stackCols]
    · intro n _
      simp [Np.stackCols, Np.ones]
    · intro _ n _
      simp [Np.stackCols]
    · build_q_nodes hL

/-! ### 9. the library's own basis -/

/-- the library's own basis: the value of the translated `_build_Q` (the empty matrix where the Python raises) -/
noncomputable def libQ (L : ℕ) (order : ℤ) : Arr2 ℝ :=
  (Gen._build_Q (α := ℝ) L order).getD ⟨0, 0, fun _ _ => 0⟩

theorem libQ_eq_some (L : ℕ) (hL : 1 ≤ L) (p : ℕ) (hp : p = 1 ∨ p = 2) :
    Gen._build_Q (α := ℝ) L (p : ℤ) = some (libQ L p) := by
  obtain ⟨Q, hQ, _⟩ := gen_build_Q_isPolyBasis L hL p hp
  rw [libQ, hQ, Option.getD_some]

theorem libQ_isPolyBasis (L : ℕ) (hL : 1 ≤ L) (p : ℕ) (hp : p = 1 ∨ p = 2) : IsPolyBasis (libQ L p) L p := by
  obtain ⟨Q, hQ, hB⟩ := gen_build_Q_isPolyBasis L hL p hp
  rw [libQ, hQ, Option.getD_some]
  exact hB

/-- the hypotheses are satisfiable / the statement is not vacuous: `L = 4`, order 2 -/
example : ∃ Q : Arr2 ℝ, Gen._build_Q (α := ℝ) 4 (2 : ℕ) = some Q ∧ Q.n = 4 ∧ Q.m = 3 ∧ OrthoCols Q.get 4 3 := by
  obtain ⟨Q, hQ, hB⟩ := gen_build_Q_isPolyBasis 4 (by norm_num) 2 (Or.inr rfl)
  exact ⟨Q, hQ, hB.n_eq, hB.m_eq, hB.ortho⟩

section full
variable (L : ℕ) (p : ℕ) (hp : p = 1 ∨ p = 2) (hLp : p + 1 ≤ L)
include hp hLp

/-- `Qa.m = p + 1`: the column count the kernel theorems of Props/C01, Props/NumpyKernelsGen ask for -/
theorem libQ_m : (libQ L p).m = p + 1 := by
  rw [(libQ_isPolyBasis L (by omega) p hp).m_eq, min_eq_right hLp]

theorem libQ_n : (libQ L p).n = L := (libQ_isPolyBasis L (by omega) p hp).n_eq

/-- `OrthoCols`: the orthonormality hypothesis of Lemmas/Detrend, Lemmas/CalibPoly, Props/C05, Props/LpsdCoreGen -/
theorem libQ_ortho : OrthoCols (libQ L p).get L (p + 1) := by
  have h := (libQ_isPolyBasis L (by omega) p hp).ortho
  rwa [min_eq_right hLp] at h

/-- every monomial of degree ≤ p in the sample index is in the span -/
theorem libQ_inSpan_mono (k : ℕ) (hk : k ≤ p) : InSpan (libQ L p).get L (p + 1) (fun n => (n : ℝ) ^ k) := by
  have h := (libQ_isPolyBasis L (by omega) p hp).mono_in_span
  rw [min_eq_right hLp] at h
  exact h k (by omega)

/-- the columns are polynomials of degree ≤ p in the sample index -/
theorem libQ_cols_poly (j : ℕ) (hj : j < p + 1) : InSpan mono L (p + 1) (fun n => (libQ L p).get n j) := by
  have h := (libQ_isPolyBasis L (by omega) p hp).cols_poly
  rw [min_eq_right hLp] at h
  exact h j hj

end full

/-- a polynomial of degree ≤ p in the ABSOLUTE sample index `m`: `Σ_{j ≤ p} c j · m^j` -/
noncomputable def polyN (p : ℕ) (c : ℕ → ℝ) (m : ℕ) : ℝ := ∑ j ∈ range (p + 1), c j * (m : ℝ) ^ j

/-- `InSpan` for every polynomial of degree ≤ p in the absolute sample index, seen from a segment starting at ANY `s` -/
theorem libQ_inSpan_poly (L p : ℕ) (hp : p = 1 ∨ p = 2) (hLp : p + 1 ≤ L) (c : ℕ → ℝ) (s : ℕ) :
    InSpan (libQ L p).get L (p + 1) (fun n => polyN p c (s + n)) := by
  unfold polyN
  refine inSpan_sum (range (p + 1)) c (fun j n => (((s + n : ℕ) : ℝ)) ^ j) (fun j hj => ?_)
  have hj' : j < p + 1 := mem_range.1 hj
  have h1 : InSpan mono L (p + 1) (fun n => (((s + n : ℕ) : ℝ)) ^ j) :=
    inSpan_mono (by omega) (shift_pow_inSpan_mono s L j (by omega))
  exact inSpan_trans (fun k hk => libQ_inSpan_mono L p hp hLp k (by omega)) h1

/-- the form used by Props/C05 and Props/LpsdCoreGen (order 1): every straight line `c + d·n` -/
theorem libQ_inSpan_line (L : ℕ) (hL : 2 ≤ L) (c d : ℝ) : InSpan (libQ L 1).get L 2 (fun n => c + d * n) := by
  have h := libQ_inSpan_poly L 1 (Or.inl rfl) hL (fun j => if j = 0 then c else d) 0
  refine inSpan_congr (fun n _ => ?_) h
  simp [polyN, sum_range_succ]

/-- "and nothing else": for `L ≥ p + 2` the monomial of degree `p+1` (from any segment start) is NOT in the span -/
theorem libQ_next_degree_not_inSpan (L p : ℕ) (hp : p = 1 ∨ p = 2) (hLp : p + 2 ≤ L) (s : ℕ) :
    ¬ InSpan (libQ L p).get L (p + 1) (fun n => (((s + n : ℕ) : ℝ)) ^ (p + 1)) := by
  intro h
  have h1 : InSpan mono L (p + 1) (fun n => (((s + n : ℕ) : ℝ)) ^ (p + 1)) :=
    inSpan_trans (fun j hj => libQ_cols_poly L p hp (by omega) j hj) h
  -- the lower-order part of `(s+n)^(p+1)`
  have hR : ∃ R : ℕ → ℝ, InSpan mono L (p + 1) R ∧ ∀ n : ℕ, (n : ℝ) ^ (p + 1) = (((s + n : ℕ) : ℝ)) ^ (p + 1) - R n := by
    rcases hp with rfl | rfl
    · exact ⟨fun n => (s : ℝ) ^ 2 + 2 * s * n,
        ⟨fun i => if i = 0 then (s : ℝ) ^ 2 else 2 * s, fun n _ => by simp [mono, sum_range_succ]⟩,
        fun n => by push_cast; ring⟩
    · exact ⟨fun n => (s : ℝ) ^ 3 + 3 * s ^ 2 * n + 3 * s * n ^ 2,
        ⟨fun i => if i = 0 then (s : ℝ) ^ 3 else if i = 1 then 3 * s ^ 2 else 3 * s, fun n _ => by
          simp [mono, sum_range_succ]⟩,
        fun n => by push_cast; ring⟩
  obtain ⟨R, hRs, hRe⟩ := hR
  have h2 : InSpan mono L (p + 1) (fun n => mono n (p + 1)) :=
    inSpan_congr (fun n _ => (hRe n).symm) (inSpan_sub h1 hRs)
  exact linIndepCols_not_inSpan (mono_indep L (p + 2) hLp) h2

/-! ### 10. transfer: the C01 / C08 statements with the library's own basis, no hypothesis on the basis left -/

theorem detr_congr_seg (order : ℤ) (Q : ℕ → ℕ → ℝ) (x y : ℕ → ℝ) (s L n : ℕ)
    (h : ∀ m < L, x (s + m) = y (s + m)) (hn : n < L) :
    Model.detr order Q x s L n = Model.detr order Q y s L n := by
  have e1 : (∑ m ∈ range L, x (s + m)) = ∑ m ∈ range L, y (s + m) :=
    sum_congr rfl (fun m hm => h m (mem_range.mp hm))
  have e2 : ∀ k, (∑ m ∈ range L, Q m k * x (s + m)) = ∑ m ∈ range L, Q m k * y (s + m) :=
    fun k => sum_congr rfl (fun m hm => by rw [h m (mem_range.mp hm)])
  unfold Model.detr
  simp only [sumRange_eq_sum, e1, e2, h n hn]

section transfer
variable (L : ℕ) (p : ℕ) (hp : p = 1 ∨ p = 2) (hLp : p + 1 ≤ L)
include hp hLp

/-- C08 on the reference: adding ANY polynomial of degree ≤ p in the sample index to the record leaves the windowed, detrended DFT of
    every segment unchanged, with the library's basis -/
theorem segDFT_libQ_add_poly (x : ℕ → ℝ) (c : ℕ → ℝ) (s : ℕ) (w : ℕ → ℝ) (ω : ℝ) :
    Model.segDFT (p : ℤ) (libQ L p).get (fun m => x m + polyN p c m) s L w ω
      = Model.segDFT (p : ℤ) (libQ L p).get x s L w ω := by
  have hp1 : 1 ≤ p := by omega
  rw [← segDFT_add_span p hp1 (libQ L p).get L (libQ_ortho L p hp hLp) x s (fun n => polyN p c (s + n))
    (libQ_inSpan_poly L p hp hLp c s) w ω]
  refine segDFT_congr _ _ _ _ _ _ s s L w ω (fun n hn => detr_congr_seg _ _ _ _ s L n (fun m _ => ?_) hn)
  simp only [Nat.add_sub_cancel_left]

theorem refStats_libQ_add_poly (x1 x2 : ℕ → ℝ) (c1 c2 : ℕ → ℝ) (starts : ℕ → ℕ) (K : ℕ) (w : ℕ → ℝ) (ω : ℝ) :
    Model.refStats (p : ℤ) (libQ L p).get (fun m => x1 m + polyN p c1 m) (fun m => x2 m + polyN p c2 m) starts K L w ω
      = Model.refStats (p : ℤ) (libQ L p).get x1 x2 starts K L w ω := by
  unfold Model.refStats
  simp only [segDFT_libQ_add_poly L p hp hLp]

theorem refStatsAuto_libQ_add_poly (x : ℕ → ℝ) (c : ℕ → ℝ) (starts : ℕ → ℕ) (K : ℕ) (w : ℕ → ℝ) (ω : ℝ) :
    Model.refStatsAuto (p : ℤ) (libQ L p).get (fun m => x m + polyN p c m) starts K L w ω
      = Model.refStatsAuto (p : ℤ) (libQ L p).get x starts K L w ω := by
  unfold Model.refStatsAuto
  simp only [segDFT_libQ_add_poly L p hp hLp]

/-! C01: the polynomial kernels of the three backends, CALLED WITH THE LIBRARY'S OWN BASIS, equal the reference estimator of order p -/

theorem stats_poly_csd_libQ_eq_ref (x1 x2 : Arr ℝ) (starts : Arr ℕ) (hK : 0 < starts.n) (w : Arr ℝ) (ω : ℝ) :
    Gen._stats_poly_csd x1 x2 starts L w ω (libQ L p)
      = Model.refStats (p : ℤ) (libQ L p).get x1.get x2.get starts.get starts.n L w.get ω :=
  stats_poly_csd_eq_ref x1 x2 starts hK L w ω (libQ L p) p (by omega) (libQ_m L p hp hLp)

theorem stats_poly_auto_libQ_eq_ref (x : Arr ℝ) (starts : Arr ℕ) (hK : 0 < starts.n) (w : Arr ℝ) (ω : ℝ) :
    Gen._stats_poly_auto x starts L w ω (libQ L p)
      = Model.refStatsAuto (p : ℤ) (libQ L p).get x.get starts.get starts.n L w.get ω :=
  stats_poly_auto_eq_ref x starts hK L w ω (libQ L p) p (by omega) (libQ_m L p hp hLp)

theorem stats_poly_csd_cuda_libQ_eq_ref (x1 x2 : Arr ℝ) (starts : Arr ℕ) (hK : 0 < starts.n) (w : Arr ℝ) (ω : ℝ) :
    Gen._stats_poly_csd_cuda x1 x2 starts L w ω (libQ L p)
      = Model.refStats (p : ℤ) (libQ L p).get x1.get x2.get starts.get starts.n L w.get ω :=
  stats_poly_csd_cuda_eq_ref x1 x2 starts hK L w ω (libQ L p) p (by omega) (libQ_m L p hp hLp)

theorem stats_poly_auto_cuda_libQ_eq_ref (x : Arr ℝ) (starts : Arr ℕ) (hK : 0 < starts.n) (w : Arr ℝ) (ω : ℝ) :
    Gen._stats_poly_auto_cuda x starts L w ω (libQ L p)
      = Model.refStatsAuto (p : ℤ) (libQ L p).get x.get starts.get starts.n L w.get ω :=
  stats_poly_auto_cuda_eq_ref x starts hK L w ω (libQ L p) p (by omega) (libQ_m L p hp hLp)

theorem np_poly_csd_libQ_eq_ref (x1 x2 : Arr ℝ) (starts : Arr ℕ) (hK : 0 < starts.n) (w : Arr ℝ) (ω : ℝ)
    (c : ℕ) (hc : 1 ≤ c) (u : ℕ → ℕ → ℝ) :
    Gen._stats_poly_csd_np x1 x2 starts L w ω (libQ L p) c u
      = Model.refStats (p : ℤ) (libQ L p).get x1.get x2.get starts.get starts.n L w.get ω :=
  gen_np_poly_csd_eq_ref x1 x2 starts hK L w ω (libQ L p) p (by omega) (libQ_m L p hp hLp) c hc u

theorem np_poly_auto_libQ_eq_ref (x : Arr ℝ) (starts : Arr ℕ) (hK : 0 < starts.n) (w : Arr ℝ) (ω : ℝ)
    (c : ℕ) (hc : 1 ≤ c) (u : ℕ → ℕ → ℝ) :
    Gen._stats_poly_auto_np x starts L w ω (libQ L p) c u
      = Model.refStatsAuto (p : ℤ) (libQ L p).get x.get starts.get starts.n L w.get ω :=
  gen_np_poly_auto_eq_ref x starts hK L w ω (libQ L p) p (by omega) (libQ_m L p hp hLp) c hc u

/-! C08 on the translated kernels themselves: a polynomial trend of degree ≤ p added to either channel changes NOTHING in the 5-tuple -/

theorem stats_poly_csd_libQ_add_poly (x1 x2 : Arr ℝ) (c1 c2 : ℕ → ℝ) (starts : Arr ℕ) (hK : 0 < starts.n) (w : Arr ℝ) (ω : ℝ) :
    Gen._stats_poly_csd ⟨x1.n, fun m => x1.get m + polyN p c1 m⟩ ⟨x2.n, fun m => x2.get m + polyN p c2 m⟩ starts L w ω (libQ L p)
      = Gen._stats_poly_csd x1 x2 starts L w ω (libQ L p) := by
  rw [stats_poly_csd_libQ_eq_ref L p hp hLp _ _ starts hK w ω, stats_poly_csd_libQ_eq_ref L p hp hLp x1 x2 starts hK w ω]
  exact refStats_libQ_add_poly L p hp hLp x1.get x2.get c1 c2 starts.get starts.n w.get ω

theorem stats_poly_auto_libQ_add_poly (x : Arr ℝ) (c : ℕ → ℝ) (starts : Arr ℕ) (hK : 0 < starts.n) (w : Arr ℝ) (ω : ℝ) :
    Gen._stats_poly_auto ⟨x.n, fun m => x.get m + polyN p c m⟩ starts L w ω (libQ L p)
      = Gen._stats_poly_auto x starts L w ω (libQ L p) := by
  rw [stats_poly_auto_libQ_eq_ref L p hp hLp _ starts hK w ω, stats_poly_auto_libQ_eq_ref L p hp hLp x starts hK w ω]
  exact refStatsAuto_libQ_add_poly L p hp hLp x.get c starts.get starts.n w.get ω

theorem stats_poly_csd_cuda_libQ_add_poly (x1 x2 : Arr ℝ) (c1 c2 : ℕ → ℝ) (starts : Arr ℕ) (hK : 0 < starts.n) (w : Arr ℝ) (ω : ℝ) :
    Gen._stats_poly_csd_cuda ⟨x1.n, fun m => x1.get m + polyN p c1 m⟩ ⟨x2.n, fun m => x2.get m + polyN p c2 m⟩ starts L w ω (libQ L p)
      = Gen._stats_poly_csd_cuda x1 x2 starts L w ω (libQ L p) := by
  rw [stats_poly_csd_cuda_libQ_eq_ref L p hp hLp _ _ starts hK w ω, stats_poly_csd_cuda_libQ_eq_ref L p hp hLp x1 x2 starts hK w ω]
  exact refStats_libQ_add_poly L p hp hLp x1.get x2.get c1 c2 starts.get starts.n w.get ω

theorem stats_poly_auto_cuda_libQ_add_poly (x : Arr ℝ) (c : ℕ → ℝ) (starts : Arr ℕ) (hK : 0 < starts.n) (w : Arr ℝ) (ω : ℝ) :
    Gen._stats_poly_auto_cuda ⟨x.n, fun m => x.get m + polyN p c m⟩ starts L w ω (libQ L p)
      = Gen._stats_poly_auto_cuda x starts L w ω (libQ L p) := by
  rw [stats_poly_auto_cuda_libQ_eq_ref L p hp hLp _ starts hK w ω, stats_poly_auto_cuda_libQ_eq_ref L p hp hLp x starts hK w ω]
  exact refStatsAuto_libQ_add_poly L p hp hLp x.get c starts.get starts.n w.get ω

theorem np_poly_csd_libQ_add_poly (x1 x2 : Arr ℝ) (c1 c2 : ℕ → ℝ) (starts : Arr ℕ) (hK : 0 < starts.n) (w : Arr ℝ) (ω : ℝ)
    (c : ℕ) (hc : 1 ≤ c) (u : ℕ → ℕ → ℝ) :
    Gen._stats_poly_csd_np ⟨x1.n, fun m => x1.get m + polyN p c1 m⟩ ⟨x2.n, fun m => x2.get m + polyN p c2 m⟩ starts L w ω (libQ L p) c u
      = Gen._stats_poly_csd_np x1 x2 starts L w ω (libQ L p) c u := by
  rw [np_poly_csd_libQ_eq_ref L p hp hLp _ _ starts hK w ω c hc u, np_poly_csd_libQ_eq_ref L p hp hLp x1 x2 starts hK w ω c hc u]
  exact refStats_libQ_add_poly L p hp hLp x1.get x2.get c1 c2 starts.get starts.n w.get ω

theorem np_poly_auto_libQ_add_poly (x : Arr ℝ) (c' : ℕ → ℝ) (starts : Arr ℕ) (hK : 0 < starts.n) (w : Arr ℝ) (ω : ℝ)
    (c : ℕ) (hc : 1 ≤ c) (u : ℕ → ℕ → ℝ) :
    Gen._stats_poly_auto_np ⟨x.n, fun m => x.get m + polyN p c' m⟩ starts L w ω (libQ L p) c u
      = Gen._stats_poly_auto_np x starts L w ω (libQ L p) c u := by
  rw [np_poly_auto_libQ_eq_ref L p hp hLp _ starts hK w ω c hc u, np_poly_auto_libQ_eq_ref L p hp hLp x starts hK w ω c hc u]
  exact refStatsAuto_libQ_add_poly L p hp hLp x.get c' starts.get starts.n w.get ω

end transfer

/-- the hypotheses of the transfer theorems are satisfiable: `L = 5`, order 2, two segment starts -/
example : ∃ (L p : ℕ) (starts : Arr ℕ), (p = 1 ∨ p = 2) ∧ p + 1 ≤ L ∧ 0 < starts.n :=
  ⟨5, 2, ⟨2, fun j => 3 * j⟩, Or.inr rfl, by norm_num, by norm_num⟩

/-! "…and nothing else": with `L ≥ p + 2` a trend of degree `p + 1` is NOT annihilated -/

theorem detr_libQ_next_degree (L p : ℕ) (hp : p = 1 ∨ p = 2) (hLp : p + 2 ≤ L) (s : ℕ) :
    ∃ n < L, Model.detr (p : ℤ) (libQ L p).get (fun m => (m : ℝ) ^ (p + 1)) s L n ≠ 0 := by
  by_contra hcon
  push Not at hcon
  refine libQ_next_degree_not_inSpan L p hp hLp s
    ⟨fun k => ∑ m ∈ range L, (libQ L p).get m k * (((s + m : ℕ) : ℝ)) ^ (p + 1), fun n hn => ?_⟩
  have h := hcon n hn
  rw [detr_poly_eq p (by omega)] at h
  have h' := sub_eq_zero.1 h
  beta_reduce
  rw [h']
  exact sum_congr rfl (fun k _ => by ring)

/-- hence there is a window for which the windowed, detrended DFT of the pure degree-`p+1` trend is non-zero (at ω = 0),
    whereas it is zero for every trend of degree ≤ p -/
theorem segDFT_libQ_next_degree_ne_zero (L p : ℕ) (hp : p = 1 ∨ p = 2) (hLp : p + 2 ≤ L) (s : ℕ) :
    ∃ w : ℕ → ℝ, (Model.segDFT (p : ℤ) (libQ L p).get (fun m => (m : ℝ) ^ (p + 1)) s L w 0).re ≠ 0 := by
  obtain ⟨n0, hn0, hne⟩ := detr_libQ_next_degree L p hp hLp s
  refine ⟨fun n => if n = n0 then 1 else 0, ?_⟩
  simp only [Model.segDFT, sumRange_eq_sum, RL.cos_eq, zero_mul, Real.cos_zero, mul_one, ite_mul, one_mul]
  rw [sum_ite_eq' (range L) n0, if_pos (mem_range.2 hn0)]
  exact hne

example : ∃ (L p : ℕ), (p = 1 ∨ p = 2) ∧ p + 2 ≤ L := ⟨4, 2, Or.inr rfl, le_refl _⟩

/-! Short segments `2 ≤ L ≤ p + 1`: the basis is a complete orthonormal `L × L` matrix, the detrended segment is identically zero -/

theorem libQ_complete (L p : ℕ) (hp : p = 1 ∨ p = 2) (hL : 1 ≤ L) (hLp : L ≤ p + 1) :
    (libQ L p).m = L ∧ OrthoCols (libQ L p).get L L := by
  have h := libQ_isPolyBasis L hL p hp
  have hm := h.m_eq
  have ho := h.ortho
  rw [min_eq_left hLp] at hm ho
  exact ⟨hm, ho⟩

theorem refStats_zero_of_segDFT_zero (order : ℤ) (Q : ℕ → ℕ → ℝ) (x y : ℕ → ℝ) (starts : ℕ → ℕ) (K L : ℕ) (w : ℕ → ℝ) (ω : ℝ)
    (hx : ∀ s, Model.segDFT order Q x s L w ω = ⟨0, 0⟩) (hy : ∀ s, Model.segDFT order Q y s L w ω = ⟨0, 0⟩) :
    Model.refStats order Q x y starts K L w ω = (0, 0, 0, 0, 0) := by
  have hre : ∀ a b : Cx ℝ, (a * b).re = a.re * b.re - a.im * b.im := fun _ _ => rfl
  have him : ∀ a b : Cx ℝ, (a * b).im = a.re * b.im + a.im * b.re := fun _ _ => rfl
  unfold Model.refStats Model.reduceStats
  simp [hx, hy, Cx.normSq, Cx.conj, sumRange_eq_sum, hre, him]

theorem stats_poly_csd_libQ_short (L p : ℕ) (hp : p = 1 ∨ p = 2) (hL : 2 ≤ L) (hLp : L ≤ p + 1)
    (x1 x2 : Arr ℝ) (starts : Arr ℕ) (hK : 0 < starts.n) (w : Arr ℝ) (ω : ℝ) :
    Gen._stats_poly_csd x1 x2 starts L w ω (libQ L p) = (0, 0, 0, 0, 0) := by
  obtain ⟨hm, ho⟩ := libQ_complete L p hp (by omega) hLp
  have hL1 : L = (L - 1) + 1 := by omega
  rw [stats_poly_csd_eq_ref x1 x2 starts hK L w ω (libQ L p) (L - 1) (by omega) (by omega)]
  refine refStats_zero_of_segDFT_zero _ _ _ _ _ _ _ _ _ (fun s => ?_) (fun s => ?_)
  · exact segDFT_complete_basis_zero (L - 1) (by omega) _ L hL1 (by rw [← hL1]; exact ho) _ s _ ω
  · exact segDFT_complete_basis_zero (L - 1) (by omega) _ L hL1 (by rw [← hL1]; exact ho) _ s _ ω

example : ∃ (L p : ℕ), (p = 1 ∨ p = 2) ∧ 2 ≤ L ∧ L ≤ p + 1 := ⟨2, 2, Or.inr rfl, le_refl _, by norm_num⟩

/-- the contract of Props/C05 `lpsdCore_order1_add_line_*` and Props/LpsdCoreGen `gen_lpsd_core_order1_add_line_auto`, per segment length
    `L ≥ 2`, for the library's basis (their hypotheses `hQ`, `hO`, `hS` at that `L`) -/
theorem libQ_line_contract (L : ℕ) (hL : 2 ≤ L) :
    (libQ L 1).m = 2 ∧ OrthoCols (libQ L 1).get L 2 ∧ ∀ c d : ℝ, InSpan (libQ L 1).get L 2 (fun n => c + d * n) :=
  ⟨libQ_m L 1 (Or.inl rfl) hL, libQ_ortho L 1 (Or.inl rfl) hL, fun c d => libQ_inSpan_line L hL c d⟩


/-! the other kernels on short segments, through the backend-agreement theorems (`cuda = numba` needs nothing, `numpy = numba` needs
    the column count) -/

theorem refStatsAuto_zero_of_segDFT_zero (order : ℤ) (Q : ℕ → ℕ → ℝ) (x : ℕ → ℝ) (starts : ℕ → ℕ) (K L : ℕ) (w : ℕ → ℝ) (ω : ℝ)
    (hx : ∀ s, Model.segDFT order Q x s L w ω = ⟨0, 0⟩) :
    Model.refStatsAuto order Q x starts K L w ω = (0, 0, 0, 0, 0) := by
  unfold Model.refStatsAuto Model.reduceStats
  simp [hx, Cx.normSq, sumRange_eq_sum]

theorem stats_poly_auto_libQ_short (L p : ℕ) (hp : p = 1 ∨ p = 2) (hL : 2 ≤ L) (hLp : L ≤ p + 1)
    (x : Arr ℝ) (starts : Arr ℕ) (hK : 0 < starts.n) (w : Arr ℝ) (ω : ℝ) :
    Gen._stats_poly_auto x starts L w ω (libQ L p) = (0, 0, 0, 0, 0) := by
  obtain ⟨hm, ho⟩ := libQ_complete L p hp (by omega) hLp
  have hL1 : L = (L - 1) + 1 := by omega
  rw [stats_poly_auto_eq_ref x starts hK L w ω (libQ L p) (L - 1) (by omega) (by omega)]
  refine refStatsAuto_zero_of_segDFT_zero _ _ _ _ _ _ _ _ (fun s => ?_)
  exact segDFT_complete_basis_zero (L - 1) (by omega) _ L hL1 (by rw [← hL1]; exact ho) _ s _ ω

theorem stats_poly_csd_cuda_libQ_short (L p : ℕ) (hp : p = 1 ∨ p = 2) (hL : 2 ≤ L) (hLp : L ≤ p + 1)
    (x1 x2 : Arr ℝ) (starts : Arr ℕ) (hK : 0 < starts.n) (w : Arr ℝ) (ω : ℝ) :
    Gen._stats_poly_csd_cuda x1 x2 starts L w ω (libQ L p) = (0, 0, 0, 0, 0) := by
  rw [numba_cuda_agree_poly_csd]
  exact stats_poly_csd_libQ_short L p hp hL hLp x1 x2 starts hK w ω

theorem stats_poly_auto_cuda_libQ_short (L p : ℕ) (hp : p = 1 ∨ p = 2) (hL : 2 ≤ L) (hLp : L ≤ p + 1)
    (x : Arr ℝ) (starts : Arr ℕ) (hK : 0 < starts.n) (w : Arr ℝ) (ω : ℝ) :
    Gen._stats_poly_auto_cuda x starts L w ω (libQ L p) = (0, 0, 0, 0, 0) := by
  rw [numba_cuda_agree_poly_auto]
  exact stats_poly_auto_libQ_short L p hp hL hLp x starts hK w ω

theorem np_poly_csd_libQ_short (L p : ℕ) (hp : p = 1 ∨ p = 2) (hL : 2 ≤ L) (hLp : L ≤ p + 1)
    (x1 x2 : Arr ℝ) (starts : Arr ℕ) (hK : 0 < starts.n) (w : Arr ℝ) (ω : ℝ) (c : ℕ) (hc : 1 ≤ c) (u : ℕ → ℕ → ℝ) :
    Gen._stats_poly_csd_np x1 x2 starts L w ω (libQ L p) c u = (0, 0, 0, 0, 0) := by
  obtain ⟨hm, _⟩ := libQ_complete L p hp (by omega) hLp
  rw [np_numba_agree_poly_csd x1 x2 starts L w ω (libQ L p) (L - 1) (by omega) (by omega) c hc u]
  exact stats_poly_csd_libQ_short L p hp hL hLp x1 x2 starts hK w ω

theorem np_poly_auto_libQ_short (L p : ℕ) (hp : p = 1 ∨ p = 2) (hL : 2 ≤ L) (hLp : L ≤ p + 1)
    (x : Arr ℝ) (starts : Arr ℕ) (hK : 0 < starts.n) (w : Arr ℝ) (ω : ℝ) (c : ℕ) (hc : 1 ≤ c) (u : ℕ → ℕ → ℝ) :
    Gen._stats_poly_auto_np x starts L w ω (libQ L p) c u = (0, 0, 0, 0, 0) := by
  obtain ⟨hm, _⟩ := libQ_complete L p hp (by omega) hLp
  rw [np_numba_agree_poly_auto x starts L w ω (libQ L p) (L - 1) (by omega) (by omega) c hc u]
  exact stats_poly_auto_libQ_short L p hp hL hLp x starts hK w ω

/-! `L = 1`: the basis is the `1 × 1` matrix `[±1]`; the kernel theorems of Props/C01 (which need at least two columns) do not apply,
    so the Numba / CUDA kernels are unfolded once more: the single sample is annihilated -/

theorem segDFT_order0_L1 (Q : ℕ → ℕ → ℝ) (x : ℕ → ℝ) (s : ℕ) (w : ℕ → ℝ) (ω : ℝ) :
    Model.segDFT 0 Q x s 1 w ω = ⟨0, 0⟩ := by
  simp [Model.segDFT, Model.detr, sumRange_eq_sum]

theorem stats_poly_csd_onecol_L1 (x1 x2 : Arr ℝ) (starts : Arr ℕ) (hK : 0 < starts.n) (w : Arr ℝ) (ω : ℝ)
    (Qa : Arr2 ℝ) (hQ : Qa.m = 1) (h00 : Qa.get 0 0 * Qa.get 0 0 = 1) :
    Gen._stats_poly_csd x1 x2 starts 1 w ω Qa = (0, 0, 0, 0, 0) := by
  have e : ∀ X : ℝ, Qa.get 0 0 * (Qa.get 0 0 * X) = X := fun X => by rw [← mul_assoc, h00, one_mul]
  have key : Gen._stats_poly_csd x1 x2 starts 1 w ω Qa
      = Model.refStats 0 Qa.get x1.get x2.get starts.get starts.n 1 w.get ω := by
    unfold Gen._stats_poly_csd
    kernel_open hK
    unfold Model.refStats
    apply reduceStats_congr
    intro j
    refine goertzel_pair_segDFT ω 0 Qa.get x1.get x2.get (starts.get j) 1 w.get _ _ ?_ ?_
    · intro n hn
      obtain rfl : n = 0 := by omega
      simp only [detr_mean, Gen._apply_poly_detrend_inplace_nb_rowdot,
        Gen._apply_poly_detrend_inplace_nb_alpha, ofSci_zero_lit, forRange_acc_sum, hQ, sum_range_one, e, Nat.cast_one, div_one]
    · intro n hn
      obtain rfl : n = 0 := by omega
      simp only [detr_mean, Gen._apply_poly_detrend_inplace_nb_rowdot,
        Gen._apply_poly_detrend_inplace_nb_alpha, ofSci_zero_lit, forRange_acc_sum, hQ, sum_range_one, e, Nat.cast_one, div_one]
  rw [key]
  exact refStats_zero_of_segDFT_zero _ _ _ _ _ _ _ _ _ (fun s => segDFT_order0_L1 _ _ s _ ω) (fun s => segDFT_order0_L1 _ _ s _ ω)

theorem stats_poly_auto_onecol_L1 (x : Arr ℝ) (starts : Arr ℕ) (hK : 0 < starts.n) (w : Arr ℝ) (ω : ℝ)
    (Qa : Arr2 ℝ) (hQ : Qa.m = 1) (h00 : Qa.get 0 0 * Qa.get 0 0 = 1) :
    Gen._stats_poly_auto x starts 1 w ω Qa = (0, 0, 0, 0, 0) := by
  have e : ∀ X : ℝ, Qa.get 0 0 * (Qa.get 0 0 * X) = X := fun X => by rw [← mul_assoc, h00, one_mul]
  have key : Gen._stats_poly_auto x starts 1 w ω Qa
      = Model.refStatsAuto 0 Qa.get x.get starts.get starts.n 1 w.get ω := by
    unfold Gen._stats_poly_auto
    kernel_open hK
    unfold Model.refStatsAuto
    apply reduceStats_congr
    intro j
    refine goertzel_auto4_segDFT ω 0 Qa.get x.get (starts.get j) 1 w.get _ ?_
    intro n hn
    obtain rfl : n = 0 := by omega
    simp only [detr_mean, Gen._apply_poly_detrend_inplace_nb_rowdot,
      Gen._apply_poly_detrend_inplace_nb_alpha, ofSci_zero_lit, forRange_acc_sum, hQ, sum_range_one, e, Nat.cast_one, div_one]
  rw [key]
  exact refStatsAuto_zero_of_segDFT_zero _ _ _ _ _ _ _ _ (fun s => segDFT_order0_L1 _ _ s _ ω)

theorem libQ_L1 (p : ℕ) (hp : p = 1 ∨ p = 2) :
    (libQ 1 p).m = 1 ∧ (libQ 1 p).get 0 0 * (libQ 1 p).get 0 0 = 1 := by
  obtain ⟨hm, ho⟩ := libQ_complete 1 p hp (le_refl _) (by omega)
  refine ⟨hm, ?_⟩
  have h := ho 0 (by norm_num) 0 (by norm_num)
  simpa using h

/-- `L = 1`, Numba and CUDA kernels with the library's basis: every statistic is 0 (the single sample is its own trend) -/
theorem stats_poly_csd_libQ_L1 (p : ℕ) (hp : p = 1 ∨ p = 2) (x1 x2 : Arr ℝ) (starts : Arr ℕ) (hK : 0 < starts.n) (w : Arr ℝ) (ω : ℝ) :
    Gen._stats_poly_csd x1 x2 starts 1 w ω (libQ 1 p) = (0, 0, 0, 0, 0) ∧
    Gen._stats_poly_csd_cuda x1 x2 starts 1 w ω (libQ 1 p) = (0, 0, 0, 0, 0) := by
  obtain ⟨hm, h00⟩ := libQ_L1 p hp
  have h := stats_poly_csd_onecol_L1 x1 x2 starts hK w ω (libQ 1 p) hm h00
  exact ⟨h, by rw [numba_cuda_agree_poly_csd]; exact h⟩

theorem stats_poly_auto_libQ_L1 (p : ℕ) (hp : p = 1 ∨ p = 2) (x : Arr ℝ) (starts : Arr ℕ) (hK : 0 < starts.n) (w : Arr ℝ) (ω : ℝ) :
    Gen._stats_poly_auto x starts 1 w ω (libQ 1 p) = (0, 0, 0, 0, 0) ∧
    Gen._stats_poly_auto_cuda x starts 1 w ω (libQ 1 p) = (0, 0, 0, 0, 0) := by
  obtain ⟨hm, h00⟩ := libQ_L1 p hp
  have h := stats_poly_auto_onecol_L1 x starts hK w ω (libQ 1 p) hm h00
  exact ⟨h, by rw [numba_cuda_agree_poly_auto]; exact h⟩


end BuildQ

#print axioms BuildQ.qr_spec
#print axioms BuildQ.vander_indep
#print axioms BuildQ.linspace_affine
#print axioms BuildQ.linspace_slice_affine
#print axioms BuildQ.vander_qr_isPolyBasis
#print axioms BuildQ.gen_build_Q_none
#print axioms BuildQ.gen_build_Q_isPolyBasis
#print axioms BuildQ.libQ_eq_some
#print axioms BuildQ.libQ_isPolyBasis
#print axioms BuildQ.libQ_m
#print axioms BuildQ.libQ_n
#print axioms BuildQ.libQ_ortho
#print axioms BuildQ.libQ_inSpan_mono
#print axioms BuildQ.libQ_cols_poly
#print axioms BuildQ.libQ_inSpan_poly
#print axioms BuildQ.libQ_inSpan_line
#print axioms BuildQ.libQ_next_degree_not_inSpan
#print axioms BuildQ.libQ_complete
#print axioms BuildQ.libQ_line_contract
#print axioms BuildQ.segDFT_libQ_add_poly
#print axioms BuildQ.refStats_libQ_add_poly
#print axioms BuildQ.refStatsAuto_libQ_add_poly
#print axioms BuildQ.stats_poly_csd_libQ_eq_ref
#print axioms BuildQ.stats_poly_auto_libQ_eq_ref
#print axioms BuildQ.stats_poly_csd_cuda_libQ_eq_ref
#print axioms BuildQ.stats_poly_auto_cuda_libQ_eq_ref
#print axioms BuildQ.np_poly_csd_libQ_eq_ref
#print axioms BuildQ.np_poly_auto_libQ_eq_ref
#print axioms BuildQ.stats_poly_csd_libQ_add_poly
#print axioms BuildQ.stats_poly_auto_libQ_add_poly
#print axioms BuildQ.stats_poly_csd_cuda_libQ_add_poly
#print axioms BuildQ.stats_poly_auto_cuda_libQ_add_poly
#print axioms BuildQ.np_poly_csd_libQ_add_poly
#print axioms BuildQ.np_poly_auto_libQ_add_poly
#print axioms BuildQ.detr_libQ_next_degree
#print axioms BuildQ.segDFT_libQ_next_degree_ne_zero
#print axioms BuildQ.stats_poly_csd_libQ_short
#print axioms BuildQ.stats_poly_auto_libQ_short
#print axioms BuildQ.stats_poly_csd_cuda_libQ_short
#print axioms BuildQ.stats_poly_auto_cuda_libQ_short
#print axioms BuildQ.np_poly_csd_libQ_short
#print axioms BuildQ.np_poly_auto_libQ_short
#print axioms BuildQ.stats_poly_csd_libQ_L1
#print axioms BuildQ.stats_poly_auto_libQ_L1
