/-
  Props/ConfigGlueGen — the decision and state logic of `SpectrumAnalyzer` as TRANSLATED from speckit/analysis.py on every run
  (Gen/ConfigGlue.lean) is the hand model / the specification the property theorems are about.
-/
import SpecKitV.RealInst
import SpecKitV.Gen.ConfigGlue
import SpecKitV.Model.ConfigGlue
import SpecKitV.Lemmas.AnalyzerGlue
import Mathlib.Tactic.CasesM

set_option linter.unusedVariables false
set_option linter.unusedSimpArgs false

namespace ConfigGlue
open CG CG.Spec

/-! ## (a) plan() -/

theorem decJ_encJ (z : ℤ) : decJ (encJ z) = z := by
  cases z with
  | ofNat n => simp [encJ, decJ]
  | negSucc n =>
    have h1 : (2 * n + 1) % 2 = 1 := by omega
    have h2 : (2 * n + 1) / 2 = n := by omega
    simp [encJ, decJ, h1, h2]

theorem runSteps_one {P : Type} (step : ℕ → P → P × Option PyExc) (i : ℕ) (p : P) :
    runSteps step i 1 p = step i p := by
  simp only [runSteps]
  rcases step i p with ⟨p', _ | e⟩ <;> rfl

theorem runSteps_add {P : Type} (step : ℕ → P → P × Option PyExc) (m n : ℕ) : ∀ (lo : ℕ) (p : P),
    runSteps step lo (m + n) p =
      (match runSteps step lo m p with
       | (p', some e) => (p', some e)
       | (p', none) => runSteps step (lo + m) n p') := by
  induction m with
  | zero => intro lo p; simp [runSteps]
  | succ m ih =>
    intro lo p
    rw [Nat.succ_add]
    simp only [runSteps]
    rcases step lo p with ⟨p', _ | e⟩
    · simp only [ih (lo + 1) p']
      have : lo + 1 + m = lo + (m + 1) := by omega
      rw [this]
    · rfl

variable {α : Type}

/-- the keyword arguments the translated `plan()` builds are the specified ones -/
theorem truthyOpt_eq {P : Type} (truthy : P → Bool) (hT : ∀ p, truthy p = true) (c : Option P) :
    truthyOpt truthy c = c.isSome := by
  cases c <;> simp [truthyOpt, hT]

/-- **translated `plan()` = `Model.planStep`**, for every configuration, scheduler, search function, family of opaque tail statements
    and every analyzer state.  (`hT`: a plan dict is truthy — only used if the source tests the cache by truthiness.) -/
theorem gen_cg_plan_eq_model {P : Type} (cfg : PlanCfg α P) (truthy : P → Bool) (hT : ∀ p, truthy p = true)
    (search : SchedFn α P → ℤ → SchedKw α → Except PyExc (Option ℤ))
    (step : ℕ → P → P × Option PyExc) (st : PlanSt P) :
    (resOpt (Gen.cg_plan cfg truthy search step st).1, toA (Gen.cg_plan cfg truthy search step st).2)
      = Model.planStep cfg.force_target_nf (searchM cfg search)
          (buildM cfg step Gen.cg_plan_nsteps Gen.cg_plan_band_step) (toA st) := by
  obtain ⟨j, c⟩ := st
  cases c with
  | some p =>
    simp [Gen.cg_plan, truthyOpt_eq truthy hT, PlanRes.ofOpt, resOpt, toA, Model.planStep]
  | none =>
    have hname : ((cfg.scheduler_func.name.getD "") == "new_ltf_plan") = decide (cfg.scheduler_func.name = some "new_ltf_plan") := by
      cases h : cfg.scheduler_func.name with
      | none => simp
      | some n => by_cases hh : n = "new_ltf_plan" <;> simp [hh]
    by_cases hn : cfg.scheduler_func.name = some "new_ltf_plan" <;>
    cases hf : cfg.force_target_nf <;>
    simp only [Gen.cg_plan, truthyOpt_eq truthy hT, Option.isSome_none, Bool.false_eq_true, if_false, hname, hn, hf, decide_true, decide_false,
      if_true, Model.planStep, toA, searchM, buildM, commonKw, callKw, decJ_encJ, Gen.cg_plan_nsteps, Gen.cg_plan_band_step, runSteps_one,
      postBuild, Nat.reduceAdd, Nat.reduceSub] <;>
    (repeat' split)
    all_goals try simp_all [resOpt, PlanRes.ofOpt, decJ_encJ]
    all_goals (subst_vars; simp_all [decJ_encJ])

/-- a cached plan is returned unchanged, and nothing else changes -/
theorem gen_plan_cached_unchanged {P : Type} (cfg : PlanCfg α P) (truthy : P → Bool) (hT : ∀ p, truthy p = true)
    (search : SchedFn α P → ℤ → SchedKw α → Except PyExc (Option ℤ))
    (step : ℕ → P → P × Option PyExc) (st : PlanSt P) (p : P) (h : st.cache = some p) :
    Gen.cg_plan cfg truthy search step st = (PlanRes.ok p, st) := by
  obtain ⟨j, c⟩ := st
  simp only at h
  subst h
  simp [Gen.cg_plan, truthyOpt_eq truthy hT, PlanRes.ofOpt]

/-- a successful `Model.planStep` leaves exactly the returned plan in the cache -/
theorem planStep_ok_cache {P : Type} (force : Bool) (search : ℕ → Option ℕ) (build : ℕ → Option P) (s : Model.AState P) (p : P)
    (h : (Model.planStep force search build s).1 = some p) : (Model.planStep force search build s).2.cache = some p := by
  unfold Model.planStep at h ⊢
  repeat' split
  all_goals simp_all

/-- the three public operations of an analyzer, each executed by the TRANSLATED method -/
def genStep {P R S Q : Type} (cfg : PlanCfg α P) (truthy : P → Bool)
    (search : SchedFn α P → ℤ → SchedKw α → Except PyExc (Option ℤ)) (step : ℕ → P → P × Option PyExc)
    (comp : P → P → R) (single : Q → S) (st : PlanSt P) : Model.AOp Q → OpOut P R S × PlanSt P
  | .plan =>
    match Gen.cg_plan cfg truthy search step st with
    | (.ok p, st') => (.plan p, st')
    | (.okNone, st') => (.planNone, st')
    | (.raised e, st') => (.error e, st')
  | .compute => Gen.cg_compute cfg truthy search step comp st
  | .single q => Gen.cg_compute_single_bin_state single q st

def genRun {P R S Q : Type} (cfg : PlanCfg α P) (truthy : P → Bool)
    (search : SchedFn α P → ℤ → SchedKw α → Except PyExc (Option ℤ)) (step : ℕ → P → P × Option PyExc)
    (comp : P → P → R) (single : Q → S) : PlanSt P → List (Model.AOp Q) → List (OpOut P R S)
  | _, [] => []
  | st, op :: ops =>
    (genStep cfg truthy search step comp single st op).1 ::
      genRun cfg truthy search step comp single (genStep cfg truthy search step comp single st op).2 ops

/-- **translated plan / compute / compute_single_bin = `Model.aStep`** (compute's numerics see the returned plan twice: as the
    return value of plan() and, inside `_lpsd_core`, as `self._plan_cache` — the same object) -/
theorem gen_step_eq_model {P R S Q : Type} (cfg : PlanCfg α P) (truthy : P → Bool) (hT : ∀ p, truthy p = true)
    (search : SchedFn α P → ℤ → SchedKw α → Except PyExc (Option ℤ)) (step : ℕ → P → P × Option PyExc)
    (comp : P → P → R) (single : Q → S) (st : PlanSt P) (op : Model.AOp Q) :
    (outA (genStep cfg truthy search step comp single st op).1, toA (genStep cfg truthy search step comp single st op).2)
      = Model.aStep cfg.force_target_nf (searchM cfg search) (buildM cfg step Gen.cg_plan_nsteps Gen.cg_plan_band_step)
          (fun p => comp p p) single (toA st) op := by
  have h := gen_cg_plan_eq_model cfg truthy hT search step st
  have hc := planStep_ok_cache cfg.force_target_nf (searchM cfg search) (buildM cfg step Gen.cg_plan_nsteps Gen.cg_plan_band_step) (toA st)
  rw [← h] at hc
  cases op with
  | single q => rfl
  | plan =>
    simp only [genStep, Model.aStep, ← h]
    rcases Gen.cg_plan cfg truthy search step st with ⟨r, st'⟩
    cases r <;> simp [resOpt, outA]
  | compute =>
    simp only [genStep, Gen.cg_compute, Model.aStep, ← h]
    generalize Gen.cg_plan cfg truthy search step st = g at hc ⊢
    obtain ⟨r, st'⟩ := g
    cases r with
    | ok p =>
      have := hc p rfl
      simp only [toA] at this
      simp [resOpt, outA, this]
    | okNone => simp [resOpt, outA]
    | raised e => simp [resOpt, outA]

/-- **translated op sequences = `Model.aRun`** -/
theorem gen_run_eq_model {P R S Q : Type} (cfg : PlanCfg α P) (truthy : P → Bool) (hT : ∀ p, truthy p = true)
    (search : SchedFn α P → ℤ → SchedKw α → Except PyExc (Option ℤ)) (step : ℕ → P → P × Option PyExc)
    (comp : P → P → R) (single : Q → S) (st : PlanSt P) (ops : List (Model.AOp Q)) :
    (genRun cfg truthy search step comp single st ops).map outA
      = Model.aRun cfg.force_target_nf (searchM cfg search) (buildM cfg step Gen.cg_plan_nsteps Gen.cg_plan_band_step)
          (fun p => comp p p) single (toA st) ops := by
  induction ops generalizing st with
  | nil => rfl
  | cons op ops ih =>
    have h := gen_step_eq_model cfg truthy hT search step comp single st op
    simp only [genRun, List.map_cons, Model.aRun, ih, ← h]

theorem outA_inj {P R S : Type} (a b : OpOut P R S) (h : outA a = outA b) (ha : outA a ≠ Model.AOut.error) : a = b := by
  cases a <;> cases b <;> simp_all [outA]

theorem map_outA_inj {P R S : Type} : ∀ (l1 l2 : List (OpOut P R S)), l1.map outA = l2.map outA →
    (∀ a ∈ l1, outA a ≠ Model.AOut.error) → l1 = l2
  | [], [], _, _ => rfl
  | [], _ :: _, h, _ => by simp at h
  | _ :: _, [], h, _ => by simp at h
  | a :: l1, b :: l2, h, hg => by
    simp only [List.map_cons, List.cons.injEq] at h
    rw [outA_inj a b h.1 (hg a List.mem_cons_self), map_outA_inj l1 l2 h.2 (fun x hx => hg x (List.mem_cons_of_mem _ hx))]

/-- **history independence of the translated analyzer** (transfer of `Model.history_independent_list`): in a history in which no
    call fails, every output is the output of the same operation on a fresh analyzer -/
theorem gen_history_independent_list {P R S Q : Type} (cfg : PlanCfg α P) (truthy : P → Bool) (hT : ∀ p, truthy p = true)
    (search : SchedFn α P → ℤ → SchedKw α → Except PyExc (Option ℤ)) (step : ℕ → P → P × Option PyExc)
    (comp : P → P → R) (single : Q → S) (j0 : ℤ) (ops : List (Model.AOp Q))
    (hok : ∀ o ∈ genRun cfg truthy search step comp single ⟨j0, none⟩ ops, outA o ≠ Model.AOut.error) :
    genRun cfg truthy search step comp single ⟨j0, none⟩ ops
      = ops.map (fun op => (genStep cfg truthy search step comp single ⟨j0, none⟩ op).1) := by
  apply map_outA_inj _ _ _ hok
  have hrun := gen_run_eq_model cfg truthy hT search step comp single ⟨j0, none⟩ ops
  have hok' : ∀ o ∈ Model.aRun cfg.force_target_nf (searchM cfg search) (buildM cfg step Gen.cg_plan_nsteps Gen.cg_plan_band_step)
      (fun p => comp p p) single ⟨none, encJ j0⟩ ops, o ≠ Model.AOut.error := by
    intro o ho
    have : o ∈ (genRun cfg truthy search step comp single ⟨j0, none⟩ ops).map outA := by rw [hrun]; exact ho
    obtain ⟨a, ha, rfl⟩ := List.mem_map.mp this
    exact hok a ha
  rw [hrun]
  have := Model.history_independent_list cfg.force_target_nf (searchM cfg search)
    (buildM cfg step Gen.cg_plan_nsteps Gen.cg_plan_band_step) (fun p => comp p p) single (encJ j0) ops hok'
  simp only [toA]
  rw [this, List.map_map]
  apply List.map_congr_left
  intro op _
  have h := gen_step_eq_model cfg truthy hT search step comp single ⟨j0, none⟩ op
  simp only [toA] at h
  simp only [Function.comp, ← h]

/-- indexed form -/
theorem gen_history_independent {P R S Q : Type} (cfg : PlanCfg α P) (truthy : P → Bool) (hT : ∀ p, truthy p = true)
    (search : SchedFn α P → ℤ → SchedKw α → Except PyExc (Option ℤ)) (step : ℕ → P → P × Option PyExc)
    (comp : P → P → R) (single : Q → S) (j0 : ℤ) (ops : List (Model.AOp Q)) (i : ℕ) (hi : i < ops.length)
    (hok : ∀ o ∈ genRun cfg truthy search step comp single ⟨j0, none⟩ ops, outA o ≠ Model.AOut.error) :
    (genRun cfg truthy search step comp single ⟨j0, none⟩ ops)[i]?
      = some (genStep cfg truthy search step comp single ⟨j0, none⟩ ops[i]).1 := by
  rw [gen_history_independent_list cfg truthy hT search step comp single j0 ops hok, List.getElem?_map,
    List.getElem?_eq_getElem hi]
  rfl

/-! ### the path the theorem excludes: a plan() call that RAISED after the forced-count search (DESIGN §8.3 (i))

`self.config["Jdes"] = int(solved_Jdes)` is executed before the scheduler call, validation and band restriction; if one of these
raises, `Jdes` stays overwritten and the cache stays empty, so the next plan() searches for a DIFFERENT target.  The witness: a
scheduler whose bin count is `Jdes - 100` (so the search answers `target + 100`), a band that contains no frequency of the plan
built with `Jdes = 200` but some of the others.  On the used analyzer the second plan() succeeds with the plan of `Jdes = 300`; on a
fresh analyzer plan() raises. -/

noncomputable def wCfg : PlanCfg ℝ ℤ :=
  { nx := 1000, fs := 1, olap := .str "default", bmin := 1, Lmin := 1, Kdes := 100, num_patch_pts := some 50, order := 0,
    final_olap := 1 / 2, force_target_nf := true, band := some (2, 3),
    scheduler_func := { name := some "ltf_plan",
                        call := fun kw => match kw.Jdes with | some (.int J) => .ok J | _ => .error .Other } }

def wSearch : SchedFn ℝ ℤ → ℤ → SchedKw ℝ → Except PyExc (Option ℤ) := fun _ t _ => .ok (some (t + 100))

def wStep : ℕ → ℤ → ℤ × Option PyExc :=
  fun i p => if i = Gen.cg_plan_band_step ∧ p = 200 then (p, some .ValueError) else (p, none)

/-- negation witness: `gen_history_independent_list` without `hok` is FALSE of the translated code -/
theorem gen_history_dependent_after_failure :
    genRun (R := ℤ) (S := ℤ) (Q := ℤ) wCfg (fun _ => true) wSearch wStep (fun p _ => p) id ⟨100, none⟩ [.plan, .plan]
        = [.error .ValueError, .plan 300]
      ∧ (genStep (R := ℤ) (S := ℤ) (Q := ℤ) wCfg (fun _ => true) wSearch wStep (fun p _ => p) id ⟨100, none⟩ .plan).1
          = .error .ValueError
      ∧ (genStep (R := ℤ) (S := ℤ) (Q := ℤ) wCfg (fun _ => true) wSearch wStep (fun p _ => p) id ⟨100, none⟩ .plan).2
          = ⟨200, none⟩ := by
  refine ⟨?_, ?_, ?_⟩ <;> rfl

/-- the hypotheses of `gen_history_independent_list` are satisfiable (same analyzer without the failing band) -/
example : ∀ o ∈ genRun (R := ℤ) (S := ℤ) (Q := ℤ) wCfg (fun _ => true) wSearch (fun _ p => (p, none)) (fun p _ => p) id
    ⟨100, none⟩ [.plan, .compute, .single 7, .plan], outA o ≠ Model.AOut.error := by
  have : genRun (R := ℤ) (S := ℤ) (Q := ℤ) wCfg (fun _ => true) wSearch (fun _ p => (p, none)) (fun p _ => p) id
      ⟨100, none⟩ [.plan, .compute, .single 7, .plan] = [.plan 200, .result 200, .single 7, .plan 200] := rfl
  rw [this]
  intro o ho
  simp only [List.mem_cons, List.not_mem_nil, or_false] at ho
  rcases ho with rfl | rfl | rfl | rfl <;> simp [outA]

/-! ## (c) `_process_scheduler_config` -/

/-- **translated scheduler table = specification** -/
theorem gen_sched_eq_spec (s : PyObj SchedId) : Gen.cg_process_scheduler_config s = schedSpec s := by
  cases s with
  | other => rfl
  | fn f => rfl
  | str s =>
    simp only [Gen.cg_process_scheduler_config, schedSpec, schedByName, dictGet?]
    by_cases h1 : s = "lpsd"
    · subst h1; rfl
    by_cases h2 : s = "ltf"
    · subst h2; rfl
    by_cases h3 : s = "vectorized_ltf"
    · subst h3; rfl
    by_cases h4 : s = "new_ltf"
    · subst h4; rfl
    have e1 : ("lpsd" == s) = false := by rw [beq_eq_false_iff_ne]; exact fun h => h1 h.symm
    have e2 : ("ltf" == s) = false := by rw [beq_eq_false_iff_ne]; exact fun h => h2 h.symm
    have e3 : ("vectorized_ltf" == s) = false := by rw [beq_eq_false_iff_ne]; exact fun h => h3 h.symm
    have e4 : ("new_ltf" == s) = false := by rw [beq_eq_false_iff_ne]; exact fun h => h4 h.symm
    simp [e1, e2, e3, e4, h1, h2, h3, h4]

/-- the scheduler whose `__name__` makes plan() pass `num_patch_pts` is selected by the string "new_ltf" and by no other string -/
theorem gen_sched_new_ltf (s : String) (out : SchedOut) (h : Gen.cg_process_scheduler_config (.str s) = .ok out) :
    ((out.scheduler_func.bind SchedId.name) = some "new_ltf_plan" ↔ s = "new_ltf") ∧ out.scheduler_name = some s := by
  rw [gen_sched_eq_spec] at h
  simp only [schedSpec, schedByName] at h
  split_ifs at h with h1 h2 h3 h4 <;> simp at h <;> subst h <;> simp_all [SchedId.name]

/-- a callable is taken as it is -/
theorem gen_sched_callable (f : SchedId) :
    Gen.cg_process_scheduler_config (.fn f) = .ok { scheduler_func := some f, scheduler_name := some ((SchedId.name f).getD "custom_sched") } := rfl

/-! ## (d) the request resolution of `compute_single_bin` -/

theorem isfinite_real (x : ℝ) : CG.isfinite x = true := by simp [CG.isfinite]

/-- **translated request resolution = specification** -/
theorem gen_request_eq_spec (fs : ℝ) (nx : ℤ) (L fres : Option ℝ) :
    Gen.cg_single_bin_request fs nx L fres = singleBinRequest fs nx L fres := by
  cases L <;> cases fres <;>
    simp only [Gen.cg_single_bin_request, singleBinRequest, Option.isSome_none, Option.isSome_some, Bool.and_true, Bool.and_false,
      Bool.false_eq_true, if_false, if_true, isfinite_real, Bool.not_true, Bool.false_or, RL.le_eq, RL.ofInt_eq, RL.ofNat_eq,
      Int.cast_zero, Nat.cast_zero, decide_eq_true_eq, Int.cast_one]
  all_goals (split_ifs <;> simp_all <;> omega)

/-- `L=` path: the reported resolution times the segment length is EXACTLY the sampling rate -/
theorem gen_request_L_exact (fs : ℝ) (nx : ℤ) (l : ℝ) (s : ℤ) (r : ℝ)
    (h : Gen.cg_single_bin_request fs nx (some l) none = .ok (s, r)) :
    s = RealLike.trunc l ∧ 1 ≤ s ∧ s ≤ nx ∧ r = fs / s ∧ r * s = fs := by
  rw [gen_request_eq_spec] at h
  simp only [singleBinRequest] at h
  split_ifs at h with hc
  · simp only [Except.ok.injEq, Prod.mk.injEq] at h
    obtain ⟨rfl, rfl⟩ := h
    push Not at hc
    have hs : (1 : ℤ) ≤ RealLike.trunc l := by omega
    have hs' : ((RealLike.trunc l : ℤ) : ℝ) ≠ 0 := by
      have : (1 : ℝ) ≤ ((RealLike.trunc l : ℤ) : ℝ) := by exact_mod_cast hs
      linarith
    refine ⟨rfl, hs, by omega, by simp, ?_⟩
    simp only [RL.ofInt_eq]
    field_simp

/-- `fres=` path: the reported resolution is the REQUESTED one and the length is `round(fs/fres)` (half to even), unless that rounds
    to less than one sample: then the length is 1 and the reported resolution is `fs`.  In the first case `r·L` differs from `fs` by
    at most `fres/2` (and in general is not equal to it, see `gen_request_fres_not_exact`). -/
theorem gen_request_fres (fs : ℝ) (nx : ℤ) (q : ℝ) (s : ℤ) (r : ℝ)
    (h : Gen.cg_single_bin_request fs nx none (some q) = .ok (s, r)) :
    0 < q ∧ s ≤ nx ∧
      ((1 ≤ RealLike.roundEven (fs / q) ∧ s = RealLike.roundEven (fs / q) ∧ r = q ∧ |r * s - fs| ≤ q / 2)
        ∨ (RealLike.roundEven (fs / q) < 1 ∧ s = 1 ∧ r = fs)) := by
  rw [gen_request_eq_spec] at h
  simp only [singleBinRequest, isfinite_real, Bool.not_true, Bool.false_or, RL.le_eq, RL.ofNat_eq, Nat.cast_zero,
    decide_eq_true_eq] at h
  split_ifs at h with hq h1 h2 h3
  · simp only [Except.ok.injEq, Prod.mk.injEq] at h
    obtain ⟨rfl, rfl⟩ := h
    push Not at hq h2
    exact ⟨hq, by omega, Or.inr ⟨h1, rfl, by simp⟩⟩
  · simp only [Except.ok.injEq, Prod.mk.injEq] at h
    obtain ⟨rfl, rfl⟩ := h
    push Not at hq h1 h3
    refine ⟨hq, h3, Or.inl ⟨h1, rfl, rfl, ?_⟩⟩
    have hr := roundEven_abs_sub_le (fs / q)
    have : q * ((RealLike.roundEven (fs / q) : ℤ) : ℝ) - fs = q * (((RealLike.roundEven (fs / q) : ℤ) : ℝ) - fs / q) := by
      field_simp
    rw [this, abs_mul, abs_of_pos hq]
    calc q * |((RealLike.roundEven (fs / q) : ℤ) : ℝ) - fs / q| ≤ q * (1 / 2) := by
          exact mul_le_mul_of_nonneg_left hr hq.le
      _ = q / 2 := by ring

/-- negation witness for "r·L = fs" on the `fres=` path: fs = 1, fres = 3/10 gives L = 3, r = 3/10, r·L = 9/10 -/
theorem gen_request_fres_not_exact :
    Gen.cg_single_bin_request (1 : ℝ) 100 none (some (3 / 10)) = .ok (3, 3 / 10) ∧ ((3 / 10 : ℝ) * (3 : ℤ) ≠ 1) := by
  have hr : RealLike.roundEven ((1 : ℝ) / (3 / 10)) = 3 := by
    have hfl : ⌊(1 : ℝ) / (3 / 10)⌋ = 3 := by
      rw [Int.floor_eq_iff]; constructor <;> norm_num
    rw [RL.roundEven_eq]
    simp only [hfl]
    norm_num
  refine ⟨?_, by norm_num⟩
  rw [gen_request_eq_spec]
  simp only [singleBinRequest, isfinite_real, hr, RL.le_eq, RL.ofNat_eq]
  norm_num

/-- the hypotheses of `gen_request_L_exact` / `gen_request_fres` are satisfiable -/
example : Gen.cg_single_bin_request (2 : ℝ) 100 (some 8) none = .ok (8, 2 / 8) := by
  rw [gen_request_eq_spec]
  have : RealLike.trunc (8 : ℝ) = 8 := by
    rw [RL.trunc_eq]; simp
  simp [singleBinRequest, this]

/-! ## (b) `_process_window_config` -/

theorem dictHas_eq {V : Type} (d : PyDict V) (k : String) : dictHas d k = (dictGet? d k).isSome := by
  induction d with
  | nil => rfl
  | cons kv rest ih =>
    obtain ⟨k', v⟩ := kv
    simp only [dictHas, List.any_cons, dictGet?] at ih ⊢
    by_cases h : (k' == k) = true
    · simp [h]
    · simp only [h, Bool.false_or, if_false]; exact ih

theorem dictHasOpt_eq {V : Type} (d : PyDict V) (k : Option String) : dictHasOpt d k = (dictGetOpt? d k).isSome := by
  cases k with
  | none => rfl
  | some k => exact dictHas_eq d k

theorem none_eq_iff {β : Type} (o : Option β) : (none = o) ↔ (o = none) := eq_comm

/-- **translated window / overlap decision = specification** -/
theorem gen_window_eq_spec (win : PyObj WinFn) (psll : Option ℝ) (olap : PyVal ℝ) (win_dict : PyDict WinFn)
    (olap_dict : PyDict ℝ) (parse : String → Option ℝ) :
    Gen.cg_process_window_config win psll olap win_dict olap_dict parse
      = windowSpec Gen.kaiser_alpha Gen.kaiser_rov win psll olap win_dict olap_dict parse := by
  cases win <;>
    simp only [Gen.cg_process_window_config, windowSpec, windowChoice, overlapChoice, dictHas_eq, dictHasOpt_eq, isfinite_real,
      RL.le_eq, RL.lt_eq, RL.ofSci_eq, RL.ofNat_eq]
  all_goals (repeat' split)
  all_goals try simp_all [none_eq_iff]
  all_goals (try casesm* _ ∧ _)
  all_goals (try subst_vars)
  all_goals try simp_all [none_eq_iff]
  all_goals (try (split_ifs at * <;> simp_all [none_eq_iff]))
  all_goals (try (rcases ‹(_ : ℝ) < 0 ∨ _› with h | h <;> linarith))

/-! ### range of the default Kaiser overlap -/

theorem kaiser_rov_poly (a : ℝ) (h : 1 / 2 ≤ a) :
    (1 : ℝ) / 100 ≤ (((442204 / 10 ^ 10 * a) + -(925946 / 10 ^ 9)) * a + 912223 / 10 ^ 8) * a + 61076 / 10 ^ 7 := by
  obtain ⟨t, rfl⟩ : ∃ t, a = 1 / 2 + t := ⟨a - 1 / 2, by ring⟩
  have ht : 0 ≤ t := by linarith
  nlinarith [mul_nonneg ht (sq_nonneg (t - 10)), mul_nonneg ht ht, ht]

theorem kaiser_rov_range (a : ℝ) (h : 1 / 2 ≤ a) : 0 ≤ Gen.kaiser_rov a ∧ Gen.kaiser_rov a < 1 := by
  have hq := kaiser_rov_poly a h
  unfold Gen.kaiser_rov
  simp only [RL.ofSci_eq, RL.ofNat_eq, if_true]
  push_cast
  generalize (((442204 / 10 ^ 10 * a) + -(925946 / 10 ^ 9)) * a + 912223 / 10 ^ 8) * a + 61076 / 10 ^ 7 = q at hq ⊢
  have hq0 : 0 < q := by linarith
  have h1 : 1 / q ≤ 100 := by
    rw [div_le_iff₀ hq0]; linarith
  have h2 : 0 < 1 / q := by positivity
  constructor
  · apply div_nonneg _ (by norm_num)
    linarith
  · rw [div_lt_one (by norm_num)]
    linarith

theorem kaiser_alpha_ge_half (p : ℝ) (h : 13 ≤ p) : 1 / 2 ≤ Gen.kaiser_alpha p := by
  unfold Gen.kaiser_alpha
  simp only [RL.ofSci_eq, RL.ofNat_eq, if_true]
  obtain ⟨t, rfl⟩ : ∃ t, p = 13 + 100 * t := ⟨(p - 13) / 100, by ring⟩
  have ht : 0 ≤ t := by linarith
  push_cast
  nlinarith [mul_nonneg ht (sq_nonneg (t - 13 / 5)), mul_nonneg ht ht, ht]

/-- a Kaiser request: the string "kaiser" in any capitalisation, `numpy.kaiser` or `scipy.signal.windows.kaiser` -/
def IsKaiserRequest (win : PyObj WinFn) : Prop :=
  (∃ s, win = .str s ∧ strLower s = "kaiser") ∨ win = .fn .np_kaiser ∨ win = .fn .sp_kaiser

/-- the window function is `numpy.kaiser` with an alpha only for a Kaiser request, and then alpha = kaiser_alpha(psll) -/
theorem windowChoice_kaiser (kalpha : ℝ → ℝ) (win : PyObj WinFn) (psll : Option ℝ) (win_dict : PyDict WinFn) (wf : WinFn) (x : ℝ)
    (nm : Option String) (h : windowChoice kalpha win psll win_dict = .ok (wf, some x, nm)) :
    IsKaiserRequest win ∧ wf = .np_kaiser ∧ ∃ p, psll = some p ∧ x = kalpha p := by
  unfold windowChoice at h
  cases win with
  | other => simp at h
  | str s =>
    simp only at h
    split_ifs at h with h1 h2
    · cases psll with
      | none => simp at h
      | some p =>
        simp only [Except.ok.injEq, Prod.mk.injEq, Option.some.injEq] at h
        exact ⟨Or.inl ⟨s, rfl, h1⟩, h.1.symm, p, rfl, h.2.1.symm⟩
    · simp at h
    · cases hd : dictGet? win_dict s <;> simp [hd] at h
  | fn f =>
    simp only at h
    split_ifs at h with h1
    · cases psll with
      | none => simp at h
      | some p =>
        simp only [Except.ok.injEq, Prod.mk.injEq, Option.some.injEq] at h
        refine ⟨Or.inr ?_, h.1.symm, p, rfl, h.2.1.symm⟩
        rcases h1 with rfl | rfl
        · exact Or.inl rfl
        · exact Or.inr rfl
    all_goals simp at h

/-- **a Kaiser request always yields `alpha = kaiser_alpha(psll)`, window function `numpy.kaiser`, and — with `olap="default"` —
    the overlap `kaiser_rov(alpha)`** -/
theorem gen_window_kaiser (win : PyObj WinFn) (psll : Option ℝ) (olap : PyVal ℝ) (win_dict : PyDict WinFn)
    (olap_dict : PyDict ℝ) (parse : String → Option ℝ) (out : WinOut ℝ) (hk : IsKaiserRequest win)
    (h : Gen.cg_process_window_config win psll olap win_dict olap_dict parse = .ok out) :
    ∃ p, psll = some p ∧ out.win_func = some .np_kaiser ∧ out.alpha = some (some (Gen.kaiser_alpha p)) ∧
      (olap.eqStr "default" = true → out.final_olap = some (Gen.kaiser_rov (Gen.kaiser_alpha p))) := by
  rw [gen_window_eq_spec] at h
  have hc : ∃ p nm, psll = some p ∧ windowChoice Gen.kaiser_alpha win psll win_dict = .ok (.np_kaiser, some (Gen.kaiser_alpha p), nm) := by
    rcases hk with ⟨s, rfl, hs⟩ | rfl | rfl
    · cases psll with
      | none => simp [windowSpec, windowChoice, hs] at h
      | some p => exact ⟨p, some "kaiser", rfl, by simp [windowChoice, hs]⟩
    · cases psll with
      | none => simp [windowSpec, windowChoice] at h
      | some p => exact ⟨p, some "kaiser", rfl, by simp [windowChoice]⟩
    · cases psll with
      | none => simp [windowSpec, windowChoice] at h
      | some p => exact ⟨p, some "kaiser", rfl, by simp [windowChoice]⟩
  obtain ⟨p, nm, hp, hw⟩ := hc
  refine ⟨p, hp, ?_⟩
  simp only [windowSpec, hw] at h
  cases ho : overlapChoice Gen.kaiser_rov WinFn.np_kaiser (some (Gen.kaiser_alpha p)) nm olap olap_dict parse with
  | error e => simp [ho] at h
  | ok v =>
    simp only [ho, Except.ok.injEq] at h
    subst h
    refine ⟨rfl, rfl, ?_⟩
    intro hd
    simp only [overlapChoice, hd, if_true] at ho
    simp only [Except.ok.injEq] at ho
    simp [ho]

/-- **an explicit overlap is used as it is, and construction succeeds only if it lies in [0, 1)** -/
theorem gen_window_explicit_olap (win : PyObj WinFn) (psll : Option ℝ) (v : ℝ) (win_dict : PyDict WinFn)
    (olap_dict : PyDict ℝ) (parse : String → Option ℝ) (out : WinOut ℝ)
    (h : Gen.cg_process_window_config win psll (.real v) win_dict olap_dict parse = .ok out) :
    out.final_olap = some v ∧ 0 ≤ v ∧ v < 1 := by
  rw [gen_window_eq_spec] at h
  simp only [windowSpec] at h
  cases hw : windowChoice Gen.kaiser_alpha win psll win_dict with
  | error e => simp [hw] at h
  | ok r =>
    obtain ⟨wf, a, nm⟩ := r
    simp only [hw, overlapChoice, PyVal.eqStr, Bool.false_eq_true, if_false, PyVal.float?, isfinite_real, Bool.true_and, RL.le_eq,
      RL.lt_eq, RL.ofNat_eq, Nat.cast_zero, Nat.cast_one, Bool.and_eq_true, decide_eq_true_eq] at h
    split_ifs at h with hc
    simp only [Except.ok.injEq] at h
    subst h
    exact ⟨rfl, hc.1, hc.2⟩

/-- conversely: an explicit overlap in [0, 1) is accepted whenever the window itself is -/
theorem gen_window_explicit_olap_ok (win : PyObj WinFn) (psll : Option ℝ) (v : ℝ) (win_dict : PyDict WinFn)
    (olap_dict : PyDict ℝ) (parse : String → Option ℝ) (hv : 0 ≤ v ∧ v < 1) (r : WinFn × Option ℝ × Option String)
    (hw : windowChoice Gen.kaiser_alpha win psll win_dict = .ok r) :
    Gen.cg_process_window_config win psll (.real v) win_dict olap_dict parse
      = .ok { win_func := some r.1, alpha := some r.2.1, final_olap := some v, win_name := some r.2.2 } := by
  rw [gen_window_eq_spec]
  obtain ⟨wf, a, nm⟩ := r
  simp [windowSpec, hw, overlapChoice, PyVal.eqStr, PyVal.float?, isfinite_real, hv.1, hv.2]

/-- **`final_olap` lies in [0, 1) whenever construction succeeds** — PARTIAL: under `hK` (a Kaiser request with the default overlap has
    `psll ≥ 13`) and `hD` (the entries of `olap_dict` lie in [0, 1)).
    Full statement (without `hK`): FALSE of the code, see `gen_window_final_olap_negative` (psll = 5 gives a NEGATIVE overlap:
    the default Kaiser overlap `kaiser_rov(alpha)` is not validated, only explicit values are). -/
theorem gen_window_final_olap_range_partial (win : PyObj WinFn) (psll : Option ℝ) (olap : PyVal ℝ) (win_dict : PyDict WinFn)
    (olap_dict : PyDict ℝ) (parse : String → Option ℝ) (out : WinOut ℝ)
    (h : Gen.cg_process_window_config win psll olap win_dict olap_dict parse = .ok out)
    (hK : IsKaiserRequest win → olap.eqStr "default" = true → ∀ p, psll = some p → 13 ≤ p)
    (hD : ∀ k v, dictGetOpt? olap_dict k = some v → 0 ≤ v ∧ v < 1) :
    ∃ v, out.final_olap = some v ∧ 0 ≤ v ∧ v < 1 := by
  rw [gen_window_eq_spec] at h
  simp only [windowSpec] at h
  cases hw : windowChoice Gen.kaiser_alpha win psll win_dict with
  | error e => simp [hw] at h
  | ok r =>
    obtain ⟨wf, a, nm⟩ := r
    simp only [hw] at h
    cases ho : overlapChoice Gen.kaiser_rov wf a nm olap olap_dict parse with
    | error e => simp [ho] at h
    | ok v =>
      simp only [ho, Except.ok.injEq] at h
      subst h
      refine ⟨v, rfl, ?_⟩
      unfold overlapChoice at ho
      by_cases hd : olap.eqStr "default" = true
      · simp only [hd, if_true] at ho
        by_cases hwf : wf = WinFn.np_kaiser
        · simp only [hwf, if_true] at ho
          cases a with
          | none => simp at ho
          | some x =>
            simp only [Except.ok.injEq] at ho
            subst ho
            subst hwf
            obtain ⟨hkr, _, p, hp, rfl⟩ := windowChoice_kaiser _ _ _ _ _ _ _ hw
            exact kaiser_rov_range _ (kaiser_alpha_ge_half p (hK hkr hd p hp))
        · simp only [hwf, if_false] at ho
          cases hl : dictGetOpt? olap_dict nm with
          | none =>
            simp only [hl, Except.ok.injEq, RL.ofSci_eq, if_true] at ho
            subst ho
            norm_num
          | some u =>
            simp only [hl, Except.ok.injEq] at ho
            subst ho
            exact hD nm _ hl
      · simp only [hd, if_false, Bool.false_eq_true] at ho
        cases hf : PyVal.float? parse olap with
        | none => simp [hf] at ho
        | some u =>
          simp only [hf, isfinite_real, Bool.true_and, RL.le_eq, RL.lt_eq, RL.ofNat_eq, Nat.cast_zero, Nat.cast_one,
            Bool.and_eq_true, decide_eq_true_eq] at ho
          split_ifs at ho with hc
          simp only [Except.ok.injEq] at ho
          subst ho
          exact hc

/-- negation witness: `win=np.kaiser` (the default), `psll=5`, `olap="default"` constructs successfully with a NEGATIVE `final_olap` -/
theorem gen_window_final_olap_negative (win_dict : PyDict WinFn) (olap_dict : PyDict ℝ) (parse : String → Option ℝ) :
    ∃ out v, Gen.cg_process_window_config (.fn .np_kaiser) (some (5 : ℝ)) (.str "default") win_dict olap_dict parse = .ok out
      ∧ out.final_olap = some v ∧ v < 0 := by
  refine ⟨{ win_func := some .np_kaiser, alpha := some (some (Gen.kaiser_alpha 5)),
            final_olap := some (Gen.kaiser_rov (Gen.kaiser_alpha 5)), win_name := some (some "kaiser") }, _, ?_, rfl, ?_⟩
  · rw [gen_window_eq_spec]
    simp [windowSpec, windowChoice, overlapChoice, PyVal.eqStr]
  · unfold Gen.kaiser_rov Gen.kaiser_alpha
    simp only [RL.ofSci_eq, RL.ofNat_eq, if_true]
    norm_num

/-- the hypotheses of `gen_window_final_olap_range_partial` are satisfiable: the default configuration (`win=np.kaiser, psll=200`) -/
example (win_dict : PyDict WinFn) (parse : String → Option ℝ) :
    ∃ out, Gen.cg_process_window_config (.fn .np_kaiser) (some (200 : ℝ)) (.str "default") win_dict [("Hanning", 1 / 2)] parse = .ok out := by
  rw [gen_window_eq_spec]
  simp [windowSpec, windowChoice, overlapChoice, PyVal.eqStr]

end ConfigGlue

#print axioms ConfigGlue.gen_cg_plan_eq_model
#print axioms ConfigGlue.gen_plan_cached_unchanged
#print axioms ConfigGlue.gen_step_eq_model
#print axioms ConfigGlue.gen_run_eq_model
#print axioms ConfigGlue.gen_history_independent_list
#print axioms ConfigGlue.gen_history_independent
#print axioms ConfigGlue.gen_history_dependent_after_failure
#print axioms ConfigGlue.gen_sched_eq_spec
#print axioms ConfigGlue.gen_sched_new_ltf
#print axioms ConfigGlue.gen_sched_callable
#print axioms ConfigGlue.gen_request_eq_spec
#print axioms ConfigGlue.gen_request_L_exact
#print axioms ConfigGlue.gen_request_fres
#print axioms ConfigGlue.gen_request_fres_not_exact
#print axioms ConfigGlue.gen_window_eq_spec
#print axioms ConfigGlue.kaiser_rov_range
#print axioms ConfigGlue.kaiser_alpha_ge_half
#print axioms ConfigGlue.gen_window_kaiser
#print axioms ConfigGlue.gen_window_explicit_olap
#print axioms ConfigGlue.gen_window_explicit_olap_ok
#print axioms ConfigGlue.gen_window_final_olap_range_partial
#print axioms ConfigGlue.gen_window_final_olap_negative
