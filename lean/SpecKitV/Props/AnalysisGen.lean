/-
  Props/AnalysisGen — the machine-translated request arithmetic of `SpectrumAnalyzer.compute_single_bin`
  (`Gen.single_bin_segmentation`: number of averages and segment starts; `Gen.single_bin_omega`: the digital frequency handed
  to the kernels; both regenerated from speckit/analysis.py on every run) IS the hand model `Model.singleBinStarts` /
  ω = 2π·freq/fs, so `singleBinStarts_in_range` etc. (Lemmas/AnalyzerGlue) are theorems about the code as translated, and the
  kernel is evaluated at the REQUESTED frequency, whatever the segment length was rounded to.
-/
import SpecKitV.RealInst
import SpecKitV.Gen.Analysis
import SpecKitV.Model.Analyzer
import SpecKitV.Props.Utils
import SpecKitV.Props.PostGen
import SpecKitV.Lemmas.AnalyzerGlue

set_option linter.unusedVariables false

theorem gen_single_bin_seg_eq_model (N L : ℕ) (olap : ℝ) :
    let g := Gen.single_bin_segmentation (α := ℝ) (N : ℤ) (L : ℤ) olap
    (List.range g.2.n).map g.2.get = Model.singleBinStarts (α := ℝ) N L olap ∧ (g.1 : ℤ) = g.2.n := by
  intro g
  simp only [g, Gen.single_bin_segmentation, Model.singleBinStarts, Arr.memo_eq, gen_round_half_up_eq_model]
  by_cases hNL : N = L
  · subst hNL
    simp
  · have hNL' : ¬ ((N : ℤ) = (L : ℤ)) := by exact_mod_cast hNL
    simp only [hNL, hNL', decide_false, if_false, Bool.false_eq_true]
    simp only [RL.ofInt_eq, RL.ofNat_eq, RL.ofSci_eq, RL.one_eq]
    norm_num
    split_ifs with h1
    · simp
    · refine ⟨?_, ?_⟩
      · apply List.map_congr_left
        intro i _
        simp [trunc_intCast]
      · have h2 := not_le.mp h1
        simp only []
        exact (Int.toNat_of_nonneg (by omega)).symm

theorem gen_single_bin_omega_eq (freq fs : ℝ) : Gen.single_bin_omega freq fs = 2 * Real.pi * freq / fs := by
  unfold Gen.single_bin_omega
  simp only [RL.ofSci_eq, RL.pi_eq]
  norm_num

#print axioms gen_single_bin_seg_eq_model
#print axioms gen_single_bin_omega_eq
