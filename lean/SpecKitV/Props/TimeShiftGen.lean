/-
  Props/TimeShiftGen — the machine-translated fractional time shift (`Gen.timeshift`, generated from speckit/dsp.py
  `timeshift` on every run: order check, trivial cases, floor / fraction split, the constant-shift path with its two early
  returns, trimming, edge padding and `np.correlate`, and the time-varying path with clip, zero padding, sliding windows,
  fancy indexing and `einsum`) IS the hand model `Model.shiftConst` / `Model.shiftVar`, sample by sample, for every record of
  size ≥ 2, every half-length h ≥ 1 (order 2h-1) and EVERY real shift (also when the stencil hangs over one or both ends,
  and beyond the record).  Hence the theorems of `Lemmas/TimeShiftPaths.lean` are theorems about the code as translated.
  The NumPy calls are the stated contracts of `SpecKitV/Np/TimeShift.lean` (unfolded here, never assumed).  The translation is
  `Option`-valued: `none` is a raised exception — the explicit `raise` statements AND the places where NumPy / indexing would
  raise (index out of range, padding an empty array, empty correlate operand, window longer than the array, shape mismatch);
  `… = some out` therefore also says that on valid input none of them fires (every fancy index is in range, etc.).

  Hypotheses of the equality theorems, and why:
    * `order = 2h-1`, `1 ≤ h`: the real code raises ValueError for an even order (`gen_timeshift_even_order`: the translated
      code returns `none`), and fails inside NumPy for a negative odd order (IndexError / "negative dimensions";
      `gen_timeshift_negative_order`: `none`).
    * `2 ≤ data.n`, shifts not all zero: otherwise the routine returns its input (`gen_timeshift_tiny`, `gen_timeshift_zero`).
    * `shifts.n = 1` (a Python float or a size-1 array) / `shifts.n = data.n`: any other size raises (`gen_timeshift_size_mismatch`).
-/
import SpecKitV.RealInst
import SpecKitV.Gen.TimeShift
import SpecKitV.Model.TimeShift
import SpecKitV.Lemmas.TimeShiftPaths
import SpecKitV.Props.TapsGen

set_option linter.unusedVariables false
open Finset

namespace TimeShiftGenAux

/-! ### bookkeeping -/

/-- `Arr.memo` (eager evaluation of a vector expression) is extensionally the identity -/
theorem memo_eq {β : Type} (a : Arr β) : Arr.memo a = a := by
  obtain ⟨n, get⟩ := a
  unfold Arr.memo
  simp only [Arr.mk.injEq, true_and]
  funext i
  split
  · rename_i h
    simp only [Array.getElem_map, Array.getElem_range]
  · rfl

/-- `np.floor(x).astype(int)` is the integer floor -/
theorem trunc_floor (x : ℝ) : RealLike.trunc ((RealLike.ofInt (RealLike.floor x)) : ℝ) = ⌊x⌋ := by
  rw [RL.trunc_eq, RL.ofInt_eq, RL.floor_eq]
  split_ifs
  · exact Int.floor_intCast _
  · exact Int.ceil_intCast _

theorem trunc_floor' (x : ℝ) : RealLike.trunc (((RealLike.floor x : ℤ)) : ℝ) = ⌊x⌋ := trunc_floor x

theorem fdiv_two (a : ℤ) : Int.fdiv a 2 = a / 2 := Int.fdiv_eq_ediv_of_nonneg a (by norm_num)
theorem fmod_two (a : ℤ) : Int.fmod a 2 = a % 2 := Int.fmod_eq_emod_of_nonneg a (by norm_num)

/-- the translator's spelling of Python `max(a, b)` / `min(a, b)` on integers -/
theorem ite_ge_max (a b : ℤ) : (if a ≥ b then a else b) = max a b := by
  split_ifs <;> omega
theorem ite_le_min (a b : ℤ) : (if a ≤ b then a else b) = min a b := by
  split_ifs <;> omega

theorem forRange_and (n : ℕ) (f : ℕ → Bool) :
    forRange n true (fun i acc => acc && f i) = true ↔ ∀ i < n, f i = true := by
  induction n with
  | zero => simp [forRange_zero]
  | succ m ih =>
    rw [forRange_succ, Bool.and_eq_true, ih]
    constructor
    · rintro ⟨h1, h2⟩ i hi
      rcases Nat.lt_succ_iff_lt_or_eq.mp hi with h | h
      · exact h1 i h
      · rw [h]; exact h2
    · intro hh
      exact ⟨fun i hi => hh i (Nat.lt_succ_of_lt hi), hh m (Nat.lt_succ_self m)⟩

/-- `np.all` -/
theorem all_iff (v : Arr Bool) : NpTS.all v = true ↔ ∀ i < v.n, v.get i = true := by
  unfold NpTS.all
  exact forRange_and v.n v.get

theorem all_mk_iff (n : ℕ) (f : ℕ → Bool) : NpTS.all ⟨n, f⟩ = true ↔ ∀ i < n, f i = true := all_iff ⟨n, f⟩

/-- packaging: a computed array with the right length and samples is the `some out` the statements ask for -/
theorem ex_some {N : ℕ} {f : ℕ → ℝ} (X : Arr ℝ) (hX : X.n = N ∧ ∀ n < N, X.get n = f n) :
    ∃ out : Arr ℝ, some X = some out ∧ out.n = N ∧ ∀ n < N, out.get n = f n := ⟨X, rfl, hX⟩

theorem pyIndex_neg_one (n : ℕ) : Np.pyIndex n (-1) = n - 1 := by
  unfold Np.pyIndex
  rw [if_pos (by omega)]
  omega

/-- translated taps at an integer expression that equals `h` -/
theorem taps_at (h : ℕ) (hh : 1 ≤ h) (d : ℝ) (z : ℤ) (hz : z = (h : ℤ)) :
    (Gen.lagrange_taps d z).n = 2 * h ∧ ∀ k < 2 * h, (Gen.lagrange_taps d z).get k = Model.tap h d k := by
  subst hz
  exact gen_taps_eq_model h hh d

/-! ### constant path: trim + edge padding reads the record at the clamped index -/

theorem padEdge_slice (data : Arr ℝ) (iMin iMax lo hi pl pr : ℤ)
    (hlo : lo = max 0 iMin) (hhi : hi = min (data.n : ℤ) iMax) (hpl : pl = max 0 (-iMin)) (hpr : pr = max 0 (iMax - (data.n : ℤ)))
    (h1 : ¬ (iMax - 1 < 0)) (h2 : ¬ (iMin > (data.n : ℤ) - 1)) (hlt : iMin < iMax) :
    (NpTS.padEdge (NpTS.slice data lo hi) pl pr).n = (iMax - iMin).toNat ∧
    ∀ j : ℕ, (j : ℤ) < iMax - iMin →
      (NpTS.padEdge (NpTS.slice data lo hi) pl pr).get j = data.get (Model.clampIdx ((j : ℤ) + iMin) data.n) := by
  have eL : NpTS.sliceBound data.n lo = lo.toNat := by
    unfold NpTS.sliceBound
    rw [if_neg (by omega), if_neg (by omega)]
  have eH : NpTS.sliceBound data.n hi = hi.toNat := by
    unfold NpTS.sliceBound
    rw [if_neg (by omega), if_neg (by omega)]
  refine ⟨?_, ?_⟩
  · simp only [NpTS.padEdge, NpTS.slice, eL, eH]
    omega
  · intro j hj
    simp only [NpTS.padEdge, NpTS.slice, eL, eH]
    unfold Model.clampIdx
    split_ifs <;> (congr 1; omega)

/-- pad-then-correlate is the clamped-index stencil sum of the model, at every sample, whatever part of the stencil hangs
    over the ends of the record -/
theorem const_core (data v : Arr ℝ) (h : ℕ) (d : ℝ) (hh : 1 ≤ h) (hsz : 1 ≤ data.n)
    (hv : v.n = 2 * h ∧ ∀ k < 2 * h, v.get k = Model.tap h d k)
    (sInt iMin iMax lo hi pl pr : ℤ)
    (hmin : iMin = sInt - ((h : ℤ) - 1)) (hmax : iMax = sInt + (h : ℤ) + (data.n : ℤ))
    (hlo : lo = max 0 iMin) (hhi : hi = min (data.n : ℤ) iMax) (hpl : pl = max 0 (-iMin)) (hpr : pr = max 0 (iMax - (data.n : ℤ)))
    (h1 : ¬ (iMax - 1 < 0)) (h2 : ¬ (iMin > (data.n : ℤ) - 1)) :
    (NpTS.correlateValid (NpTS.padEdge (NpTS.slice data lo hi) pl pr) v).n = data.n ∧
    ∀ n < data.n, (NpTS.correlateValid (NpTS.padEdge (NpTS.slice data lo hi) pl pr) v).get n
      = Model.shiftConst data.get data.n h sInt d n := by
  obtain ⟨hvn, hvk⟩ := hv
  obtain ⟨hn, hg⟩ := padEdge_slice data iMin iMax lo hi pl pr hlo hhi hpl hpr h1 h2 (by omega)
  have hle : v.n ≤ (NpTS.padEdge (NpTS.slice data lo hi) pl pr).n := by rw [hn, hvn]; omega
  unfold NpTS.correlateValid
  rw [if_pos hle]
  refine ⟨?_, ?_⟩
  · show (NpTS.padEdge (NpTS.slice data lo hi) pl pr).n - v.n + 1 = data.n
    rw [hn, hvn]; omega
  · intro n hnn
    show sumRange v.n (fun k => (NpTS.padEdge (NpTS.slice data lo hi) pl pr).get (n + k) * v.get k) = _
    rw [TimeShiftAux.shiftConst_filter data.get data.n h sInt d n (by omega) (by omega), sumRange_eq_sum, hvn]
    apply sum_congr rfl
    intro k hk
    have hk' := mem_range.mp hk
    rw [hvk k hk', hg (n + k) (by push_cast; omega)]
    congr 3
    push_cast
    omega

/-! ### time-varying path: zero padding + windows + fancy index reads zero outside the record, under the clip -/

theorem var_core (data : Arr ℝ) (h : ℕ) (hh : 1 ≤ h) (T : Arr (Arr ℝ)) (J : Arr ℤ) (pl pr w : ℤ)
    (sInt : ℕ → ℤ) (d : ℕ → ℝ)
    (hTn : T.n = data.n)
    (hT : ∀ n < data.n, (T.get n).n = 2 * h ∧ ∀ k < 2 * h, (T.get n).get k = Model.tap h (d n) k)
    (hpl : pl = 2 * (h : ℤ)) (hpr : pr = 2 * (h : ℤ)) (hw : w = 2 * (h : ℤ))
    (hJ : ∀ n < data.n, J.get n =
      (if (n : ℤ) + sInt n < -((h : ℤ) + 1) then -((h : ℤ) + 1)
       else if (n : ℤ) + sInt n > (data.n : ℤ) + ((h : ℤ) - 1) then (data.n : ℤ) + ((h : ℤ) - 1)
       else (n : ℤ) + sInt n) + (h : ℤ) + 1) :
    (NpTS.einsumRowDot T (NpTS.take (NpTS.slidingWindow (NpTS.padZero data pl pr) w) J)).n = data.n ∧
    ∀ n < data.n, (NpTS.einsumRowDot T (NpTS.take (NpTS.slidingWindow (NpTS.padZero data pl pr) w) J)).get n
      = Model.shiftVar data.get data.n h (sInt n) (d n) n := by
  refine ⟨hTn, ?_⟩
  intro n hn
  obtain ⟨hTn2, hTk⟩ := hT n hn
  subst hpl hpr hw
  simp only [NpTS.einsumRowDot, NpTS.take, NpTS.slidingWindow, NpTS.padZero, Model.shiftVar, sumRange_eq_sum, hTn2,
    RL.zero_eq, RL.ofNat_eq, Nat.cast_zero]
  apply sum_congr rfl
  intro k hk
  have hk' := mem_range.mp hk
  rw [hTk k hk', hJ n hn]
  congr 1
  set idx : ℤ := (if (n : ℤ) + sInt n < -((h : ℤ) + 1) then -((h : ℤ) + 1)
       else if (n : ℤ) + sInt n > (data.n : ℤ) + ((h : ℤ) - 1) then (data.n : ℤ) + ((h : ℤ) - 1)
       else (n : ℤ) + sInt n) with hidx
  have hb : -((h : ℤ) + 1) ≤ idx ∧ idx ≤ (data.n : ℤ) + ((h : ℤ) - 1) := by
    rw [hidx]
    split_ifs <;> omega
  rw [Np.pyIndex_nonneg _ _ (by omega)]
  split_ifs <;> first | rfl | (exfalso; omega) | (congr 1; omega)

/-! ### where NumPy would raise -/

theorem takeRejects_iff (n : ℕ) (idx : Arr ℤ) :
    NpTS.takeRejects n idx = true ↔ ¬ ∀ i < idx.n, -(n : ℤ) ≤ idx.get i ∧ idx.get i < (n : ℤ) := by
  unfold NpTS.takeRejects
  rw [Bool.not_eq_true', ← Bool.not_eq_true, all_mk_iff]
  simp only [decide_eq_true_eq]

theorem einsumRejects_iff {β : Type} (A B : Arr (Arr β)) :
    NpTS.einsumRejects A B = true ↔ (A.n ≠ B.n ∨ ¬ ∀ i < A.n, (A.get i).n = (B.get i).n) := by
  unfold NpTS.einsumRejects
  rw [Bool.or_eq_true, Bool.not_eq_true', ← Bool.not_eq_true, all_mk_iff]
  simp only [decide_eq_true_eq]

theorem taps_n (h : ℕ) (hh : 1 ≤ h) (d : ℝ) (z : ℤ) (hz : z = (h : ℤ)) : (Gen.lagrange_taps d z).n = 2 * h :=
  (taps_at h hh d z hz).1

/-- decide the outermost `if` of the goal with the given tactic, as long as that is possible (the conditions of the translated
    routine are decided semantically, so the proofs do not depend on how the Python spells them) -/
syntax "peel_ifs " tacticSeq : tactic
macro_rules
  | `(tactic| peel_ifs $t:tacticSeq) => `(tactic| repeat (first | rw [if_neg (by $t)] | rw [if_pos (by $t)]))

/-- conditions that are linear integer arithmetic once the lengths of the NumPy results are unfolded -/
syntax "ts_arith " term:max term:max : tactic
macro_rules
  | `(tactic| ts_arith $h $hh) => `(tactic| first
      | omega
      | (simp (disch := omega) only [taps_n $h $hh, NpTS.padEdge, NpTS.padZero, NpTS.slice, NpTS.sliceBound, NpTS.slidingWindow,
          NpTS.take, NpTS.ofScalar] <;> first | omega | (split_ifs <;> omega)))

end TimeShiftGenAux

open TimeShiftGenAux

/-! ## the translated routine, case by case

  Every proof has the same shape: normalise the generated term (`simp only` with the bookkeeping lemmas: eager evaluation,
  floor, `//` and `%` by 2, max/min, the rejection predicates), split into the cases the MODEL distinguishes, decide every `if`
  of the translated routine semantically (`peel_ifs`), and hand the surviving NumPy expression to `const_core` / `var_core`
  with all side conditions closed by `omega`. -/

/-- an even `order` is rejected (Python: ValueError) -/
theorem gen_timeshift_even_order (data shifts : Arr ℝ) (k : ℤ) : Gen.timeshift data shifts (2 * k) = none := by
  simp only [Gen.timeshift, fmod_two, decide_eq_true_eq]
  rw [if_pos (by omega)]

/-- a record of size ≤ 1 is returned as it is, whatever the shift (any odd order) -/
theorem gen_timeshift_tiny (data shifts : Arr ℝ) (k : ℤ) (hsz : data.n ≤ 1) :
    ∃ out : Arr ℝ, Gen.timeshift data shifts (2 * k + 1) = some out ∧ out.n = data.n ∧ ∀ n < data.n, out.get n = data.get n := by
  simp only [Gen.timeshift, fmod_two, decide_eq_true_eq, NpTS.item, Bool.and_eq_true]
  by_cases hd : data.n = 1
  · peel_ifs omega
    refine ⟨_, rfl, ?_, ?_⟩
    · simp only [NpTS.ofScalar]; omega
    · intro n hn
      have : n = 0 := by omega
      subst this
      rfl
  · peel_ifs omega
    exact ⟨_, rfl, rfl, fun _ _ => rfl⟩

/-- all shifts zero: the record itself is returned (any odd order, scalar or per-sample shifts) -/
theorem gen_timeshift_zero (data shifts : Arr ℝ) (k : ℤ) (hsz : 2 ≤ data.n) (hz : ∀ i < shifts.n, shifts.get i = 0) :
    Gen.timeshift data shifts (2 * k + 1) = some data := by
  simp only [Gen.timeshift, fmod_two, decide_eq_true_eq, memo_eq, all_mk_iff, RL.beq_eq, RL.ofNat_eq, Nat.cast_zero]
  peel_ifs (first | omega | exact hz)

/-- a shift vector whose size is neither 1 nor the size of the record is rejected (Python: ValueError), any odd order -/
theorem gen_timeshift_size_mismatch (data shifts : Arr ℝ) (k : ℤ) (hsz : 2 ≤ data.n) (hnz : ∃ i < shifts.n, shifts.get i ≠ 0)
    (h1 : shifts.n ≠ 1) (h2 : shifts.n ≠ data.n) : Gen.timeshift data shifts (2 * k + 1) = none := by
  obtain ⟨i0, hi0, hne⟩ := hnz
  simp only [Gen.timeshift, fdiv_two, fmod_two, decide_eq_true_eq, memo_eq, all_mk_iff, RL.beq_eq, RL.ofNat_eq, Nat.cast_zero]
  by_cases hk : k + 1 ≤ 0
  · peel_ifs (first | omega | (intro hall; exact hne (hall i0 hi0)))
  · peel_ifs (first | omega | (intro hall; exact hne (hall i0 hi0)))

/-- a negative odd `order` is rejected as soon as the filter is needed (Python: NumPy raises inside `lagrange_taps`,
    whose table of taps has no rows) -/
theorem gen_timeshift_negative_order (data shifts : Arr ℝ) (k : ℤ) (hk : k + 1 ≤ 0) (hsz : 2 ≤ data.n)
    (hnz : ∃ i < shifts.n, shifts.get i ≠ 0) : Gen.timeshift data shifts (2 * k + 1) = none := by
  obtain ⟨i0, hi0, hne⟩ := hnz
  simp only [Gen.timeshift, fdiv_two, fmod_two, decide_eq_true_eq, memo_eq, all_mk_iff, RL.beq_eq, RL.ofNat_eq, Nat.cast_zero]
  peel_ifs (first | omega | (intro hall; exact hne (hall i0 hi0)))

/-- CONSTANT-SHIFT PATH (a Python float / 0-d / size-1 array): translated = model at every sample, for every real shift ≠ 0
    — early returns, stencil over one or both ends, interior: all of it; in particular no NumPy call of the path raises -/
theorem gen_timeshift_const_eq_model (data shifts : Arr ℝ) (h : ℕ) (hh : 1 ≤ h) (hsz : 2 ≤ data.n)
    (h1 : shifts.n = 1) (hnz : shifts.get 0 ≠ 0) :
    ∃ out : Arr ℝ, Gen.timeshift data shifts (2 * (h : ℤ) - 1) = some out ∧ out.n = data.n ∧
      ∀ n < data.n, out.get n
        = Model.shiftConst data.get data.n h ⌊shifts.get 0⌋ (shifts.get 0 - (⌊shifts.get 0⌋ : ℝ)) n := by
  simp only [Gen.timeshift, memo_eq, NpTS.item, fdiv_two, fmod_two, ite_ge_max, ite_le_min,
    decide_eq_true_eq, RL.ofInt_eq, trunc_floor', all_mk_iff, RL.beq_eq, RL.ofNat_eq, Nat.cast_zero,
    NpTS.indexRejects, NpTS.padRejects, takeRejects_iff, einsumRejects_iff, Bool.or_eq_true, Bool.and_eq_true, Bool.true_and]
  by_cases c5 : ⌊shifts.get 0⌋ + (h : ℤ) + (data.n : ℤ) - 1 < 0
  · -- shifted out to the left: the first sample, repeated
    peel_ifs (first | ts_arith h hh | (intro hall; exact hnz (hall 0 (by omega))))
    refine ⟨_, rfl, ?_, ?_⟩
    · simp only [NpTS.repeat]; omega
    · intro n hn
      simp only [NpTS.repeat, Model.shiftConst]
      rw [if_pos (by omega)]
  by_cases c6 : ⌊shifts.get 0⌋ - ((h : ℤ) - 1) > (data.n : ℤ) - 1
  · -- shifted out to the right: the last sample, repeated
    peel_ifs (first | ts_arith h hh | (intro hall; exact hnz (hall 0 (by omega))))
    refine ⟨_, rfl, ?_, ?_⟩
    · simp only [NpTS.repeat]; omega
    · intro n hn
      simp only [NpTS.repeat, pyIndex_neg_one, Model.shiftConst]
      rw [if_neg (by omega), if_pos (by omega)]
  · -- trim, hold the ends, correlate
    peel_ifs (first | ts_arith h hh | (intro hall; exact hnz (hall 0 (by omega))))
    exact ex_some _ (const_core data _ h _ hh (by omega) (taps_at h hh _ _ (by omega))
        ⌊shifts.get 0⌋ (⌊shifts.get 0⌋ - ((h : ℤ) - 1)) (⌊shifts.get 0⌋ + (h : ℤ) + (data.n : ℤ)) _ _ _ _
        rfl rfl (by omega) (by omega) (by omega) (by omega) (by omega) (by omega))

/-- TIME-VARYING PATH (one shift per sample): translated = model at every sample, for every real shift vector that is not
    identically zero — clipped indices, partial stencils (zero outside the record), interior: all of it; in particular every
    fancy index is in range and no NumPy call of the path raises -/
theorem gen_timeshift_var_eq_model (data shifts : Arr ℝ) (h : ℕ) (hh : 1 ≤ h) (hsz : 2 ≤ data.n)
    (hn : shifts.n = data.n) (hnz : ∃ i < shifts.n, shifts.get i ≠ 0) :
    ∃ out : Arr ℝ, Gen.timeshift data shifts (2 * (h : ℤ) - 1) = some out ∧ out.n = data.n ∧
      ∀ n < data.n, out.get n
        = Model.shiftVar data.get data.n h ⌊shifts.get n⌋ (shifts.get n - (⌊shifts.get n⌋ : ℝ)) n := by
  obtain ⟨i0, hi0, hne⟩ := hnz
  simp only [Gen.timeshift, memo_eq, NpTS.item, fdiv_two, fmod_two, ite_ge_max, ite_le_min,
    decide_eq_true_eq, RL.ofInt_eq, trunc_floor', all_mk_iff, RL.beq_eq, RL.ofNat_eq, Nat.cast_zero,
    NpTS.indexRejects, NpTS.padRejects, takeRejects_iff, einsumRejects_iff, Bool.or_eq_true, Bool.and_eq_true, Bool.true_and,
    Bool.false_and, Bool.false_eq_true, or_false]
  peel_ifs (first
    | ts_arith h hh
    | (intro hall; exact hne (hall i0 hi0))
    | (refine not_not.mpr ?_          -- every fancy index is inside the table of windows
       intro i hi
       simp only [NpTS.slidingWindow, NpTS.padZero, NpTS.clip]
       first | omega | (split_ifs <;> omega))
    | (rw [not_or]                    -- taps and windows have the same shape
       refine ⟨?_, not_not.mpr ?_⟩
       · simp only [NpTS.take]; omega
       · intro i hi
         simp (disch := omega) only [taps_n h hh, NpTS.take, NpTS.slidingWindow]
         omega))
  exact ex_some _ (var_core data h hh _ _ _ _ _ (fun n => ⌊shifts.get n⌋) (fun n => shifts.get n - (⌊shifts.get n⌋ : ℝ))
      hn (fun n hn' => taps_at h hh _ _ (by omega)) (by omega) (by omega) (by omega)
      (fun n hn' => by
        simp only [NpTS.clip]
        split_ifs <;> omega))

example : ∃ (data shifts : Arr ℝ) (h : ℕ), 1 ≤ h ∧ 2 ≤ data.n ∧ shifts.n = 1 ∧ shifts.get 0 ≠ 0 :=
  ⟨⟨7, fun i => (i : ℝ) ^ 2⟩, ⟨1, fun _ => -5 / 2⟩, 2, by norm_num, by norm_num, rfl, by norm_num⟩
example : ∃ (data shifts : Arr ℝ) (h : ℕ), 1 ≤ h ∧ 2 ≤ data.n ∧ shifts.n = data.n ∧ ∃ i < shifts.n, shifts.get i ≠ 0 :=
  ⟨⟨7, fun i => (i : ℝ) ^ 2⟩, ⟨7, fun i => (i : ℝ) / 3 - 1⟩, 2, by norm_num, by norm_num, rfl, 0, by norm_num, by norm_num⟩
example : ∃ (data shifts : Arr ℝ), 2 ≤ data.n ∧ (∃ i < shifts.n, shifts.get i ≠ 0) ∧ shifts.n ≠ 1 ∧ shifts.n ≠ data.n :=
  ⟨⟨7, fun i => (i : ℝ) ^ 2⟩, ⟨3, fun i => (i : ℝ) / 3 - 1⟩, by norm_num, ⟨0, by norm_num, by norm_num⟩, by norm_num, by norm_num⟩

/-! ## transfer: the theorems about the model are theorems about the code as translated -/

/-- the fractional part the routine hands to `lagrange_taps` lies in [0, 1) -/
theorem gen_frac_range (s : ℝ) : 0 ≤ s - (⌊s⌋ : ℝ) ∧ s - (⌊s⌋ : ℝ) < 1 :=
  ⟨Int.fract_nonneg s, Int.fract_lt_one s⟩

/-- whatever the translated constant path returns IS the model, sample by sample -/
theorem gen_const_out (data shifts : Arr ℝ) (h : ℕ) (hh : 1 ≤ h) (hsz : 2 ≤ data.n) (h1 : shifts.n = 1) (hnz : shifts.get 0 ≠ 0)
    (out : Arr ℝ) (hout : Gen.timeshift data shifts (2 * (h : ℤ) - 1) = some out) :
    out.n = data.n ∧ ∀ n < data.n, out.get n
      = Model.shiftConst data.get data.n h ⌊shifts.get 0⌋ (shifts.get 0 - (⌊shifts.get 0⌋ : ℝ)) n := by
  obtain ⟨o, ho, hn, hg⟩ := gen_timeshift_const_eq_model data shifts h hh hsz h1 hnz
  rw [ho] at hout
  cases hout
  exact ⟨hn, hg⟩

/-- whatever the translated time-varying path returns IS the model, sample by sample -/
theorem gen_var_out (data shifts : Arr ℝ) (h : ℕ) (hh : 1 ≤ h) (hsz : 2 ≤ data.n) (hn : shifts.n = data.n)
    (hnz : ∃ i < shifts.n, shifts.get i ≠ 0) (out : Arr ℝ) (hout : Gen.timeshift data shifts (2 * (h : ℤ) - 1) = some out) :
    out.n = data.n ∧ ∀ n < data.n, out.get n
      = Model.shiftVar data.get data.n h ⌊shifts.get n⌋ (shifts.get n - (⌊shifts.get n⌋ : ℝ)) n := by
  obtain ⟨o, ho, hn', hg⟩ := gen_timeshift_var_eq_model data shifts h hh hsz hn hnz
  rw [ho] at hout
  cases hout
  exact ⟨hn', hg⟩

/-- constant path, interior stencil: the plain 2h-point Lagrange stencil sum -/
theorem gen_const_interior (data shifts : Arr ℝ) (h : ℕ) (hh : 1 ≤ h) (hsz : 2 ≤ data.n) (h1 : shifts.n = 1) (hnz : shifts.get 0 ≠ 0)
    (out : Arr ℝ) (hout : Gen.timeshift data shifts (2 * (h : ℤ) - 1) = some out)
    (n : ℕ) (hn : n < data.n) (hint : Interior data.n h ⌊shifts.get 0⌋ n) :
    out.get n = ∑ k ∈ range (2 * h),
      data.get ((n : ℤ) + ⌊shifts.get 0⌋ - ((h : ℤ) - 1) + (k : ℤ)).toNat * Model.tap h (shifts.get 0 - (⌊shifts.get 0⌋ : ℝ)) k := by
  rw [(gen_const_out data shifts h hh hsz h1 hnz out hout).2 n hn]
  exact shiftConst_interior data.get data.n h hh _ _ n hn hint

/-- constant path: for ANY record the interior output is the value at `n + s` of the unique polynomial of degree ≤ 2h-1
    through the 2h surrounding samples -/
theorem gen_const_is_interpolant (data shifts : Arr ℝ) (h : ℕ) (hh : 1 ≤ h) (hsz : 2 ≤ data.n) (h1 : shifts.n = 1)
    (hnz : shifts.get 0 ≠ 0) (out : Arr ℝ) (hout : Gen.timeshift data shifts (2 * (h : ℤ) - 1) = some out)
    (n : ℕ) (hn : n < data.n) (hint : Interior data.n h ⌊shifts.get 0⌋ n) (p : Polynomial ℝ) (hp : p.natDegree < 2 * h)
    (hfit : ∀ k < 2 * h, p.eval (((n : ℤ) + ⌊shifts.get 0⌋ - ((h : ℤ) - 1) + (k : ℤ) : ℤ) : ℝ)
      = data.get ((n : ℤ) + ⌊shifts.get 0⌋ - ((h : ℤ) - 1) + (k : ℤ)).toNat) :
    out.get n = p.eval ((n : ℝ) + shifts.get 0) := by
  rw [(gen_const_out data shifts h hh hsz h1 hnz out hout).2 n hn,
    shiftConst_is_interpolant data.get data.n h hh _ _ (gen_frac_range _).1 (gen_frac_range _).2 n hn hint p hp hfit]
  congr 1
  ring

/-- constant path: a record that samples a polynomial of degree ≤ 2h-1 is reproduced exactly at `n + s` on interior stencils -/
theorem gen_const_reproduces_poly (p : Polynomial ℝ) (data shifts : Arr ℝ) (h : ℕ) (hh : 1 ≤ h) (hp : p.natDegree < 2 * h)
    (hdata : ∀ i, data.get i = p.eval (i : ℝ)) (hsz : 2 ≤ data.n) (h1 : shifts.n = 1) (hnz : shifts.get 0 ≠ 0)
    (out : Arr ℝ) (hout : Gen.timeshift data shifts (2 * (h : ℤ) - 1) = some out)
    (n : ℕ) (hn : n < data.n) (hint : Interior data.n h ⌊shifts.get 0⌋ n) :
    out.get n = p.eval ((n : ℝ) + shifts.get 0) := by
  have e : data.get = fun (i : ℕ) => p.eval (i : ℝ) := funext hdata
  rw [(gen_const_out data shifts h hh hsz h1 hnz out hout).2 n hn, e,
    shiftConst_reproduces_poly p data.n h hh hp _ _ (gen_frac_range _).1 (gen_frac_range _).2 n hn hint]
  congr 1
  ring

/-- constant path: an integer shift `m ≠ 0` is a pure displacement with the end values held, at EVERY sample -/
theorem gen_const_integer (data shifts : Arr ℝ) (h : ℕ) (hh : 1 ≤ h) (hsz : 2 ≤ data.n) (h1 : shifts.n = 1) (m : ℤ) (hm : m ≠ 0)
    (hs : shifts.get 0 = (m : ℝ)) (out : Arr ℝ) (hout : Gen.timeshift data shifts (2 * (h : ℤ) - 1) = some out)
    (n : ℕ) (hn : n < data.n) : out.get n = data.get (Model.clampIdx ((n : ℤ) + m) data.n) := by
  have hnz : shifts.get 0 ≠ 0 := by rw [hs]; exact_mod_cast hm
  rw [(gen_const_out data shifts h hh hsz h1 hnz out hout).2 n hn, hs, Int.floor_intCast, sub_self]
  exact shiftConst_integer data.get data.n h hh hsz m n hn

/-- a zero shift is the identity (the record itself is returned) -/
theorem gen_zero_identity (data shifts : Arr ℝ) (h : ℕ) (hsz : 2 ≤ data.n) (hz : ∀ i < shifts.n, shifts.get i = 0) :
    Gen.timeshift data shifts (2 * (h : ℤ) - 1) = some data := by
  have e : 2 * (h : ℤ) - 1 = 2 * ((h : ℤ) - 1) + 1 := by ring
  rw [e]
  exact gen_timeshift_zero data shifts _ hsz hz

/-- constant path: a constant record is left unchanged by any shift -/
theorem gen_const_constant (c : ℝ) (data shifts : Arr ℝ) (hc : ∀ i, data.get i = c) (h : ℕ) (hh : 1 ≤ h) (hsz : 2 ≤ data.n)
    (h1 : shifts.n = 1) (hnz : shifts.get 0 ≠ 0) (out : Arr ℝ) (hout : Gen.timeshift data shifts (2 * (h : ℤ) - 1) = some out)
    (n : ℕ) (hn : n < data.n) : out.get n = c := by
  have e : data.get = fun _ => c := funext hc
  rw [(gen_const_out data shifts h hh hsz h1 hnz out hout).2 n hn, e]
  exact shiftConst_const c data.n h hh hsz _ _ (gen_frac_range _).1 (gen_frac_range _).2 n

/-- both translated paths agree wherever the stencil is interior: the time-varying path with shift `s` at sample `n`
    returns there what the constant path returns for the scalar shift `s` -/
theorem gen_paths_agree_interior (data sc sv : Arr ℝ) (h : ℕ) (hh : 1 ≤ h) (hsz : 2 ≤ data.n)
    (h1 : sc.n = 1) (hnz : sc.get 0 ≠ 0) (hv : sv.n = data.n) (hvnz : ∃ i < sv.n, sv.get i ≠ 0)
    (outC outV : Arr ℝ) (hC : Gen.timeshift data sc (2 * (h : ℤ) - 1) = some outC) (hV : Gen.timeshift data sv (2 * (h : ℤ) - 1) = some outV)
    (n : ℕ) (hn : n < data.n) (hsame : sv.get n = sc.get 0) (hint : Interior data.n h ⌊sc.get 0⌋ n) :
    outV.get n = outC.get n := by
  rw [(gen_var_out data sv h hh hsz hv hvnz outV hV).2 n hn, (gen_const_out data sc h hh hsz h1 hnz outC hC).2 n hn, hsame]
  exact paths_agree_interior data.get data.n h hh _ _ n hn hint

/-- time-varying path: at every sample whose own stencil is interior the output is the value at `n + shifts[n]` of the
    polynomial of degree ≤ 2h-1 through the 2h surrounding samples -/
theorem gen_var_is_interpolant (data shifts : Arr ℝ) (h : ℕ) (hh : 1 ≤ h) (hsz : 2 ≤ data.n) (hv : shifts.n = data.n)
    (hnz : ∃ i < shifts.n, shifts.get i ≠ 0) (out : Arr ℝ) (hout : Gen.timeshift data shifts (2 * (h : ℤ) - 1) = some out)
    (n : ℕ) (hn : n < data.n) (hint : Interior data.n h ⌊shifts.get n⌋ n) (p : Polynomial ℝ) (hp : p.natDegree < 2 * h)
    (hfit : ∀ k < 2 * h, p.eval (((n : ℤ) + ⌊shifts.get n⌋ - ((h : ℤ) - 1) + (k : ℤ) : ℤ) : ℝ)
      = data.get ((n : ℤ) + ⌊shifts.get n⌋ - ((h : ℤ) - 1) + (k : ℤ)).toNat) :
    out.get n = p.eval ((n : ℝ) + shifts.get n) := by
  rw [(gen_var_out data shifts h hh hsz hv hnz out hout).2 n hn, paths_agree_interior data.get data.n h hh _ _ n hn hint,
    shiftConst_is_interpolant data.get data.n h hh _ _ (gen_frac_range _).1 (gen_frac_range _).2 n hn hint p hp hfit]
  congr 1
  ring

example : Interior 12 2 ⌊((-5 / 2 : ℝ))⌋ 6 := by
  have : ⌊((-5 / 2 : ℝ))⌋ = -3 := by rw [Int.floor_eq_iff]; norm_num
  rw [this]; unfold Interior; norm_num

/-! ## the DataFrame wrapper: what `df_timeshift` hands to `timeshift` -/

/-- `seconds` seconds at sampling rate `fs` are `seconds·fs` samples -/
theorem gen_df_samples (fs seconds : ℝ) : Gen.df_timeshift_samples fs seconds = seconds * fs := by
  unfold Gen.df_timeshift_samples
  ring

/-- the wrapper uses the default order 31, i.e. half-length 16 -/
theorem gen_df_order : Gen.df_timeshift_order = 2 * ((16 : ℕ) : ℤ) - 1 := by decide

/-- shifted are exactly the columns whose dtype kind is one of b, i, u, f, c -/
theorem gen_df_numeric_kinds : Gen.df_timeshift_numeric_kinds = "biufc" := by decide

/-- `seconds == 0`: every column is returned as it is -/
theorem gen_df_column_noop (col : Arr ℝ) (fs : ℝ) : Gen.df_timeshift_column col fs 0 = some col := by
  simp [Gen.df_timeshift_column, Gen.df_timeshift_noop]

/-- otherwise a selected numeric column is the constant-path time shift by `seconds·fs` samples, order 31 -/
theorem gen_df_column_eq_model (col : Arr ℝ) (fs seconds : ℝ) (hsz : 2 ≤ col.n) (hs : seconds ≠ 0) (hfs : fs ≠ 0) :
    ∃ out : Arr ℝ, Gen.df_timeshift_column col fs seconds = some out ∧ out.n = col.n ∧
      ∀ n < col.n, out.get n
        = Model.shiftConst col.get col.n 16 ⌊seconds * fs⌋ (seconds * fs - (⌊seconds * fs⌋ : ℝ)) n := by
  have hno : Gen.df_timeshift_noop seconds = false := by
    simp [Gen.df_timeshift_noop, hs]
  have e0 : (NpTS.ofScalar (Gen.df_timeshift_samples fs seconds)).get 0 = seconds * fs := gen_df_samples fs seconds
  have key := gen_timeshift_const_eq_model col (NpTS.ofScalar (Gen.df_timeshift_samples fs seconds)) 16 (by norm_num) hsz rfl
    (by rw [e0]; exact mul_ne_zero hs hfs)
  rw [e0] at key
  unfold Gen.df_timeshift_column
  rw [hno, gen_df_order]
  exact key

example : ∃ (col : Arr ℝ) (fs seconds : ℝ), 2 ≤ col.n ∧ seconds ≠ 0 ∧ fs ≠ 0 :=
  ⟨⟨40, fun i => (i : ℝ)⟩, 4, -3 / 8, by norm_num, by norm_num, by norm_num⟩

#print axioms gen_timeshift_even_order
#print axioms gen_timeshift_tiny
#print axioms gen_timeshift_zero
#print axioms gen_timeshift_size_mismatch
#print axioms gen_timeshift_negative_order
#print axioms gen_timeshift_const_eq_model
#print axioms gen_timeshift_var_eq_model
#print axioms gen_const_interior
#print axioms gen_const_is_interpolant
#print axioms gen_const_reproduces_poly
#print axioms gen_const_integer
#print axioms gen_zero_identity
#print axioms gen_const_constant
#print axioms gen_paths_agree_interior
#print axioms gen_var_is_interpolant
#print axioms gen_df_samples
#print axioms gen_df_order
#print axioms gen_df_numeric_kinds
#print axioms gen_df_column_noop
#print axioms gen_df_column_eq_model
