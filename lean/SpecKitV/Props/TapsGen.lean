/-
  Props/TapsGen — the machine-translated Lagrange fractional-delay taps (`Gen.lagrange_taps`, generated from
  speckit/dsp.py `lagrange_taps` on every run) ARE the hand model `Model.tap`, tap by tap, for every half-length
  `h ≥ 1` and every real shift `d`; hence the theorems of `Lemmas/Taps.lean` (the taps are the Lagrange basis
  weights, sum to one, reproduce polynomials of degree < 2h) are theorems about the code as translated.
-/
import SpecKitV.RealInst
import SpecKitV.Gen.Dsp
import SpecKitV.Model.TimeShift
import SpecKitV.Lemmas.Taps

set_option linter.unusedVariables false

/-- a non-negative Python index is the index itself -/
theorem Np.pyIndex_nonneg (n : ℕ) (i : ℤ) (hi : 0 ≤ i) : Np.pyIndex n i = i.toNat := by
  unfold Np.pyIndex
  rw [if_neg (by omega)]

namespace TapsGenAux
open TapsAux

/-! ### the generated code, cut into its pieces (definitionally) -/

/-- body of the first generated loop (verbatim) -/
noncomputable def F1 (h : ℕ) (d : ℝ) : ℕ → ℝ × Arr ℝ → ℝ × Arr ℝ :=
  fun (j__i : Nat) (st1 : ℝ × Arr ℝ) =>
    let j : Int := (1 : Int) + ((j__i : Nat) : Int)
    let factor := st1.1
    let taps := st1.2
    let factor : ℝ := (factor * (((RealLike.ofInt (-(1 : Int))) * ((RealLike.ofNat 1) - ((RealLike.ofInt j) / (RealLike.ofInt (h : ℤ))))) / ((RealLike.ofNat 1) + ((RealLike.ofInt j) / (RealLike.ofInt (h : ℤ))))))
    let taps : Arr ℝ := Arr.set taps (Np.pyIndex taps.n (((((h : ℤ) : Int) - (1 : Int)) : Int) - (j : Int))) (factor / ((RealLike.ofInt j) + d))
    let taps : Arr ℝ := Arr.set taps (Np.pyIndex taps.n (((h : ℤ) : Int) + (j : Int))) (factor / ((RealLike.ofInt ((j : Int) + (1 : Int))) - d))
    (factor, taps)

/-- body of the second generated loop (verbatim) -/
noncomputable def F2 (d : ℝ) : ℕ → Arr ℝ → Arr ℝ :=
  fun (j__i : Nat) (st2 : Arr ℝ) =>
    let j : Int := (2 : Int) + ((j__i : Nat) : Int)
    let taps := st2
    let taps := (Arr.scale taps ((RealLike.ofNat 1) - ((d / (RealLike.ofInt j)) * (d / (RealLike.ofInt j)))))
    taps

/-- initial array of zeros -/
noncomputable def taps0 (h : ℕ) : Arr ℝ := ⟨(Int.toNat ((2 : Int) * (h : ℤ))), fun _ => (RealLike.ofNat 0)⟩

/-- state after the first loop -/
noncomputable def st1 (h : ℕ) (d : ℝ) : ℝ × Arr ℝ :=
  forRange (Int.toNat ((h : ℤ) - (1 : Int))) ((RealLike.ofNat 1 : ℝ) * (d * ((RealLike.ofNat 1) - d)), taps0 h) (F1 h d)

/-- array after the two central stores -/
noncomputable def mid (h : ℕ) (d : ℝ) : Arr ℝ :=
  let taps := (st1 h d).2
  let taps : Arr ℝ := Arr.set taps (Np.pyIndex taps.n ((h : ℤ) - (1 : Int))) ((RealLike.ofNat 1) - d)
  let taps : Arr ℝ := Arr.set taps (Np.pyIndex taps.n (h : ℤ)) d
  taps

theorem gen_unfold (h : ℕ) (d : ℝ) (hh : h ≠ 1) :
    Gen.lagrange_taps d (h : ℤ)
      = Arr.scale (forRange (Int.toNat ((h : ℤ) - (2 : Int))) (mid h d) (F2 d))
          (((RealLike.ofNat 1) + d) * ((RealLike.ofNat 1) - (d / (RealLike.ofInt (h : ℤ))))) := by
  have hne : ¬ ((h : ℤ) = 1) := by omega
  unfold Gen.lagrange_taps
  simp only [hne, decide_false, Bool.false_eq_true, if_false]
  rfl

/-! ### first loop -/

/-- contents of the array after `i` iterations of the first loop -/
noncomputable def G (h : ℕ) (d : ℝ) (i k : ℕ) : ℝ :=
  if k + 1 < h ∧ h - 1 - k ≤ i then Model.tapsFactor h d (h - 1 - k) / (((h - 1 - k : ℕ) : ℝ) + d)
  else if h < k ∧ k - h ≤ i then Model.tapsFactor h d (k - h) / (((k - h : ℕ) : ℝ) + 1 - d)
  else 0

/-- invariant of the first loop -/
def P1 (h : ℕ) (d : ℝ) (i : ℕ) (st : ℝ × Arr ℝ) : Prop :=
  st.1 = Model.tapsFactor h d i ∧ st.2.n = 2 * h ∧ ∀ k, st.2.get k = G h d i k

theorem idx_low (n h i : ℕ) (hi : i + 2 ≤ h) :
    Np.pyIndex n ((h : ℤ) - 1 - (1 + (i : ℤ))) = h - 2 - i := by
  rw [Np.pyIndex_nonneg _ _ (by omega)]; omega

theorem idx_up (n h i : ℕ) : Np.pyIndex n ((h : ℤ) + (1 + (i : ℤ))) = h + 1 + i := by
  rw [Np.pyIndex_nonneg _ _ (by omega)]; omega

theorem P1_step (h : ℕ) (d : ℝ) (i : ℕ) (st : ℝ × Arr ℝ) (hi : i < h - 1) (hP : P1 h d i st) :
    P1 h d (i + 1) (F1 h d i st) := by
  obtain ⟨hf, hn, hg⟩ := hP
  have hfac : st.1 * (((-1 : ℤ) : ℝ) * (1 - (((1 + (i : ℤ)) : ℤ) : ℝ) / (((h : ℤ)) : ℝ))
        / (1 + (((1 + (i : ℤ)) : ℤ) : ℝ) / (((h : ℤ)) : ℝ))) = Model.tapsFactor h d (i + 1) := by
    rw [tapsFactor_succ, hf]
    push_cast
    ring
  refine ⟨?_, ?_, ?_⟩
  · simp only [F1, RL.ofInt_eq, RL.ofNat_eq, Nat.cast_one]
    exact hfac
  · simp only [F1, Arr.set]
    exact hn
  · intro k
    simp only [F1, RL.ofInt_eq, RL.ofNat_eq, Nat.cast_one, Arr.set, idx_low _ h i (by omega), idx_up]
    rw [hfac]
    by_cases hk1 : k = h + 1 + i
    · rw [if_pos hk1]
      unfold G
      rw [if_neg (by omega), if_pos (by omega)]
      have e : k - h = i + 1 := by omega
      rw [e]
      push_cast
      ring
    · rw [if_neg hk1]
      by_cases hk2 : k = h - 2 - i
      · rw [if_pos hk2]
        unfold G
        rw [if_pos (by omega)]
        have e : h - 1 - k = i + 1 := by omega
        rw [e]
        push_cast
        ring
      · rw [if_neg hk2, hg k]
        unfold G
        have c1 : (k + 1 < h ∧ h - 1 - k ≤ i + 1) ↔ (k + 1 < h ∧ h - 1 - k ≤ i) := by omega
        have c2 : (h < k ∧ k - h ≤ i + 1) ↔ (h < k ∧ k - h ≤ i) := by omega
        simp only [c1, c2]

theorem P1_init (h : ℕ) (d : ℝ) :
    P1 h d 0 ((RealLike.ofNat 1 : ℝ) * (d * ((RealLike.ofNat 1) - d)), taps0 h) := by
  refine ⟨?_, ?_, ?_⟩
  · simp [tapsFactor_zero]
  · simp only [taps0]; omega
  · intro k
    unfold G
    rw [if_neg (by omega), if_neg (by omega)]
    simp [taps0]

theorem st1_inv (h : ℕ) (d : ℝ) : P1 h d (h - 1) (st1 h d) := by
  unfold st1
  have e : Int.toNat ((h : ℤ) - (1 : Int)) = h - 1 := by omega
  rw [e]
  exact forRange_inv (P1 h d) (h - 1) _ (F1 h d) (P1_init h d)
    (fun i s hi hP => P1_step h d i s hi hP)

/-! ### central stores -/

theorem mid_n (h : ℕ) (d : ℝ) : (mid h d).n = 2 * h := by
  simp only [mid, Arr.set]
  exact (st1_inv h d).2.1

theorem mid_get (h : ℕ) (hh : 2 ≤ h) (d : ℝ) (k : ℕ) (hk : k < 2 * h) :
    (mid h d).get k = Model.tapRaw h d k := by
  obtain ⟨_, hn, hg⟩ := st1_inv h d
  have i1 : ∀ n, Np.pyIndex n ((h : ℤ) - 1) = h - 1 := by
    intro n; rw [Np.pyIndex_nonneg _ _ (by omega)]; omega
  have i2 : ∀ n, Np.pyIndex n (h : ℤ) = h := by
    intro n; rw [Np.pyIndex_nonneg _ _ (by omega)]; omega
  simp only [mid, Arr.set, i1, i2, RL.ofNat_eq, Nat.cast_one]
  unfold Model.tapRaw
  simp only [RL.ofNat_eq, RL.one_eq]
  by_cases hk1 : k = h
  · rw [if_pos hk1, if_neg (by omega), if_pos hk1]
  · rw [if_neg hk1]
    by_cases hk2 : k = h - 1
    · rw [if_pos hk2, if_pos (by omega)]
    · rw [if_neg hk2, if_neg (by omega), if_neg hk1, hg k]
      unfold G
      by_cases hk3 : k + 1 < h
      · rw [if_pos ⟨hk3, by omega⟩, if_pos hk3]
      · rw [if_neg (by omega), if_neg hk3, if_pos ⟨by omega, by omega⟩]
        push_cast
        ring

/-! ### second loop: whole-array scaling -/

theorem forRange_scale_n (g : ℕ → ℝ) (n : ℕ) (a : Arr ℝ) :
    (forRange n a (fun i s => Arr.scale s (g i))).n = a.n := by
  induction n with
  | zero => rw [forRange_zero]
  | succ m ih => rw [forRange_succ]; simpa [Arr.scale] using ih

theorem forRange_scale_get (g : ℕ → ℝ) (n : ℕ) (a : Arr ℝ) (k : ℕ) :
    (forRange n a (fun i s => Arr.scale s (g i))).get k
      = forRange n (a.get k) (fun i acc => acc * g i) := by
  induction n with
  | zero => rw [forRange_zero, forRange_zero]
  | succ m ih => rw [forRange_succ, forRange_succ, ← ih]; rfl

theorem F2_eq (d : ℝ) :
    F2 d = fun i s => Arr.scale s (1 - (d / (((i + 2 : ℕ) : ℝ))) * (d / (((i + 2 : ℕ) : ℝ)))) := by
  funext i s
  simp only [F2, RL.ofInt_eq, RL.ofNat_eq, Nat.cast_one]
  have : (((2 : ℤ) + (i : ℤ) : ℤ) : ℝ) = ((i + 2 : ℕ) : ℝ) := by push_cast; ring
  rw [this]

theorem gen_ge2 (h : ℕ) (hh : 2 ≤ h) (d : ℝ) :
    (Gen.lagrange_taps d (h : ℤ)).n = 2 * h
      ∧ ∀ k < 2 * h, (Gen.lagrange_taps d (h : ℤ)).get k = Model.tap h d k := by
  rw [gen_unfold h d (by omega), F2_eq]
  have e : Int.toNat ((h : ℤ) - (2 : Int)) = h - 2 := by omega
  rw [e]
  refine ⟨?_, ?_⟩
  · show Arr.n (forRange _ _ _) = _
    rw [forRange_scale_n, mid_n]
  · intro k hk
    show Arr.get (forRange _ _ _) k * _ = _
    rw [forRange_scale_get, mid_get h hh d k hk]
    unfold Model.tap
    rw [if_neg (by omega)]
    simp only [RL.ofNat_eq, RL.one_eq, RL.ofInt_eq, Nat.cast_one, Int.cast_natCast]

theorem gen_eq1 (d : ℝ) :
    (Gen.lagrange_taps d ((1 : ℕ) : ℤ)).n = 2 * 1
      ∧ ∀ k < 2 * 1, (Gen.lagrange_taps d ((1 : ℕ) : ℤ)).get k = Model.tap 1 d k := by
  unfold Gen.lagrange_taps Model.tap
  simp only [Nat.cast_one, decide_true, if_true, Arr.set, RL.ofNat_eq, RL.one_eq]
  refine ⟨by simp, ?_⟩
  intro k hk
  have hk' : k = 0 ∨ k = 1 := by omega
  rcases hk' with rfl | rfl <;> simp

end TapsGenAux

open TapsGenAux

/-- generated = model, tap by tap, for every half-length `h ≥ 1` and EVERY real `d` (no range restriction) -/
theorem gen_taps_eq_model (h : ℕ) (hh : 1 ≤ h) (d : ℝ) :
    (Gen.lagrange_taps d (h : ℤ)).n = 2 * h
      ∧ ∀ k < 2 * h, (Gen.lagrange_taps d (h : ℤ)).get k = Model.tap h d k := by
  rcases Nat.eq_or_lt_of_le hh with h1 | h2
  · subst h1
    exact gen_eq1 d
  · exact gen_ge2 h h2 d

/-- hence: the translated taps are exactly the Lagrange basis weights on the nodes `-(h-1), …, h` -/
theorem gen_taps_eq_lagrange (h : ℕ) (hh : 1 ≤ h) (d : ℝ) (hd0 : 0 ≤ d) (hd1 : d < 1) (k : ℕ) (hk : k < 2 * h) :
    (Gen.lagrange_taps d (h : ℤ)).get k
      = ∏ m ∈ (Finset.range (2 * h)).erase k, (d - tapNode h m) / (tapNode h k - tapNode h m) := by
  rw [(gen_taps_eq_model h hh d).2 k hk]
  exact tap_eq_lagrange h hh d hd0 hd1 k hk

/-- hence: the translated taps sum to one -/
theorem gen_taps_sum_one (h : ℕ) (hh : 1 ≤ h) (d : ℝ) (hd0 : 0 ≤ d) (hd1 : d < 1) :
    ∑ k ∈ Finset.range (2 * h), (Gen.lagrange_taps d (h : ℤ)).get k = 1 := by
  rw [← taps_sum_one h hh d hd0 hd1]
  apply Finset.sum_congr rfl
  intro k hk
  exact (gen_taps_eq_model h hh d).2 k (Finset.mem_range.mp hk)

/-- hence: the translated taps reproduce every polynomial of degree ≤ 2h-1 exactly -/
theorem gen_taps_reproduce_poly (h : ℕ) (hh : 1 ≤ h) (d : ℝ) (hd0 : 0 ≤ d) (hd1 : d < 1)
    (p : Polynomial ℝ) (hp : p.natDegree < 2 * h) :
    ∑ k ∈ Finset.range (2 * h), (Gen.lagrange_taps d (h : ℤ)).get k * p.eval (tapNode h k) = p.eval d := by
  rw [← taps_reproduce_poly h hh d hd0 hd1 p hp]
  apply Finset.sum_congr rfl
  intro k hk
  rw [(gen_taps_eq_model h hh d).2 k (Finset.mem_range.mp hk)]

/-- the translated taps at zero shift are the unit impulse at the centre tap -/
theorem gen_tap_at_zero (h : ℕ) (hh : 1 ≤ h) (k : ℕ) (hk : k < 2 * h) :
    (Gen.lagrange_taps (0 : ℝ) (h : ℤ)).get k = if k + 1 = h then 1 else 0 := by
  rw [(gen_taps_eq_model h hh 0).2 k hk]
  exact tap_at_zero h hh k hk

#print axioms gen_taps_eq_model
#print axioms gen_taps_eq_lagrange
#print axioms gen_taps_sum_one
#print axioms gen_taps_reproduce_poly
#print axioms gen_tap_at_zero
