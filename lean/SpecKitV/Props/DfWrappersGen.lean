/-
  SpecKitV.Props.DfWrappersGen — the translated DataFrame wrappers (Gen/DfWrappers.lean, regenerated from speckit/dsp.py on every
  check run) are EQUAL to the hand model Model/DfWrappers.lean, and what that model says.
-/
import SpecKitV.RealInst
import SpecKitV.Gen.DfWrappers
import SpecKitV.Model.DfWrappers
import SpecKitV.Props.TimeShiftGen
import SpecKitV.Props.RmsGen

open NpDf Model.Df

namespace DfAux

/-! ## frames: lookup after update-or-append -/

variable {α : Type}

theorem hasCol_iff (f : Frame α) (c : String) : f.hasCol c = true ↔ ∃ col ∈ f.cols, col.name = c := by
  unfold Frame.hasCol Frame.names
  simp only [List.contains_iff_mem, List.mem_map]

theorem col?_none_iff (f : Frame α) (c : String) : f.col? c = none ↔ f.hasCol c = false := by
  rw [← Bool.not_eq_true, hasCol_iff]
  unfold Frame.col?
  simp only [List.find?_eq_none, beq_iff_eq, not_exists, not_and]

theorem col?_name {f : Frame α} {c : String} {col : Col α} (h : f.col? c = some col) : col.name = c := by
  unfold Frame.col? at h
  have := List.find?_some h
  simpa using this

theorem col?_mem {f : Frame α} {c : String} {col : Col α} (h : f.col? c = some col) : col ∈ f.cols := by
  unfold Frame.col? at h
  exact List.mem_of_find?_eq_some h

theorem find_map_same (l : List (Col α)) (c : String) (new : Col α) (hn : new.name = c) :
    (l.map (fun col => if col.name == c then new else col)).find? (fun col => col.name == c)
      = if (l.any (fun col => col.name == c)) then some new else none := by
  induction l with
  | nil => simp
  | cons x xs ih =>
    simp only [List.map_cons, List.find?_cons, List.any_cons]
    by_cases hx : x.name = c
    · simp [hx, hn]
    · have hxc : (x.name == c) = false := by simpa using hx
      simp only [hxc, Bool.false_eq_true, if_false, Bool.false_or]
      exact ih

theorem find_map_other (l : List (Col α)) (c : String) (new : Col α) (hn : new.name = c) (name : String) (hnc : name ≠ c) :
    (l.map (fun col => if col.name == c then new else col)).find? (fun col => col.name == name)
      = l.find? (fun col => col.name == name) := by
  induction l with
  | nil => simp
  | cons x xs ih =>
    simp only [List.map_cons, List.find?_cons]
    by_cases hx : x.name = c
    · have h1 : (c == name) = false := by simpa using fun h => hnc h.symm
      simp only [hx, beq_self_eq_true, if_true, hn, h1]
      exact ih
    · have hxc : (x.name == c) = false := by simpa using hx
      simp only [hxc, Bool.false_eq_true, if_false]
      rw [ih]

/-- **update-or-append, lookup**: after `f[c] = v` the label `c` holds the new column, every other label what it held before -/
theorem col?_setCol (f : Frame α) (c : String) (k : Char) (v : Arr α) (name : String) :
    (f.setCol c k v).col? name = if name = c then some ⟨c, k, v⟩ else f.col? name := by
  unfold Frame.setCol
  by_cases hc : f.hasCol c = true
  · simp only [hc, if_true]
    unfold Frame.col?
    by_cases hnc : name = c
    · subst hnc
      have : f.cols.any (fun col => col.name == name) = true := by
        obtain ⟨col, hm, hcn⟩ := (hasCol_iff f name).mp hc
        exact List.any_eq_true.mpr ⟨col, hm, by simpa using hcn⟩
      rw [find_map_same f.cols name ⟨name, k, v⟩ rfl]
      simp [this]
    · rw [find_map_other f.cols c ⟨c, k, v⟩ rfl name hnc]
      simp [hnc]
  · simp only [hc, Bool.false_eq_true, if_false]
    unfold Frame.col?
    rw [List.find?_append]
    by_cases hnc : name = c
    · subst hnc
      have hnone : f.cols.find? (fun col => col.name == name) = none :=
        (col?_none_iff f name).mpr (by simpa using hc)
      rw [hnone]
      simp
    · have : (c == name) = false := by simpa using fun h => hnc h.symm
      simp [hnc, this]

/-- pandas' order rule on the list of labels -/
def addName (names : List String) (c : String) : List String := if names.contains c then names else names ++ [c]

/-- **update-or-append, order**: an existing label keeps its position, a new one goes to the end -/
theorem names_setCol (f : Frame α) (c : String) (k : Char) (v : Arr α) : (f.setCol c k v).names = addName f.names c := by
  unfold Frame.setCol addName
  have hh : f.hasCol c = f.names.contains c := rfl
  by_cases hc : f.names.contains c = true
  · simp only [hh, hc, if_true]
    unfold Frame.names
    simp only [List.map_map]
    apply List.map_congr_left
    intro col _
    by_cases h : col.name = c <;> simp [h]
  · simp only [hh, hc, Bool.false_eq_true, if_false]
    simp [Frame.names]

theorem nrows_setCol (f : Frame α) (c : String) (k : Char) (v : Arr α) : (f.setCol c k v).nrows = f.nrows := by
  unfold Frame.setCol; split <;> rfl

theorem index_setCol (f : Frame α) (c : String) (k : Char) (v : Arr α) : (f.setCol c k v).index = f.index := by
  unfold Frame.setCol; split <;> rfl

/-! ## the object store: writes to a fresh copy never reach the older objects -/

/-- the store `objs` extended by ONE fresh frame object `g` (its reference is `objs.length`) -/
def ext (objs : List (Option (Frame α))) (g : Frame α) : Heap α := ⟨objs ++ [some g]⟩

theorem copy_eq (objs : List (Option (Frame α))) (r : Ref) :
    NpDf.copy (⟨objs⟩ : Heap α) r = (ext objs (Heap.frame ⟨objs⟩ r), objs.length) := rfl

theorem isFrame_lt {objs : List (Option (Frame α))} {r : Ref} (h : Heap.isFrame (⟨objs⟩ : Heap α) r = true) : r < objs.length := by
  unfold Heap.isFrame at h
  by_contra hge
  have : objs[r]? = none := List.getElem?_eq_none (Nat.le_of_not_lt hge)
  simp [List.getD_eq_getElem?_getD, this] at h

theorem frame_ext_old (objs : List (Option (Frame α))) (g : Frame α) (r : Ref) (hr : r < objs.length) :
    Heap.frame (ext objs g) r = Heap.frame ⟨objs⟩ r := by
  unfold Heap.frame ext
  simp only [List.getD_eq_getElem?_getD, List.getElem?_append_left hr]

theorem frame_ext_new (objs : List (Option (Frame α))) (g : Frame α) : Heap.frame (ext objs g) objs.length = g := by
  unfold Heap.frame ext
  simp [List.getD_eq_getElem?_getD]

theorem getitem_ext_old (objs : List (Option (Frame α))) (g : Frame α) (r : Ref) (hr : r < objs.length) (c : String) :
    NpDf.getitem (ext objs g) r c = (Heap.frame ⟨objs⟩ r).col? c := by
  unfold NpDf.getitem
  rw [frame_ext_old objs g r hr]

theorem setitem_ext_new (objs : List (Option (Frame α))) (g : Frame α) (c : String) (v : Arr α) :
    NpDf.setitem (ext objs g) objs.length c v
      = if v.n ≠ g.nrows then none else some (ext objs (g.setCol c resultKind v)) := by
  unfold NpDf.setitem
  rw [frame_ext_new]
  congr 1
  unfold Heap.write ext
  simp

theorem iloc_ext_new (objs : List (Option (Frame α))) (g : Frame α) (lo hi : Int) :
    NpDf.iloc (ext objs g) objs.length lo hi = (⟨objs ++ [some g] ++ [some (g.rows lo hi)]⟩, objs.length + 1) := by
  unfold NpDf.iloc
  rw [frame_ext_new]
  unfold Heap.alloc ext
  simp

/-- a loop whose body acts on a state `φ t` exactly as a model body acts on `t` -/
theorem forEach_map {β σ τ : Type} (f : β → σ → Option σ) (f' : β → τ → Option τ) (φ : τ → σ)
    (hstep : ∀ x t, f x (φ t) = (f' x t).map φ) : ∀ (l : List β) (t : τ), forEach l (φ t) f = (forEach l t f').map φ
  | [], t => rfl
  | x :: xs, t => by
    unfold forEach
    rw [hstep x t]
    cases hx : f' x t with
    | none => rfl
    | some t' => simp only [Option.map_some]; exact forEach_map f f' φ hstep xs t'

/-- every label of a frame is one of its columns -/
theorem names_all_hasCol (f : Frame α) : f.names.any (fun c => !f.hasCol c) = false := by
  rw [Bool.eq_false_iff]
  intro h
  obtain ⟨c, hc, hn⟩ := List.any_eq_true.mp h
  have : f.hasCol c = true := by unfold Frame.hasCol; simpa using hc
  simp [this] at hn

theorem filter_isEmpty_not {β : Type} (l : List β) (p : β → Bool) : (!(l.filter p).isEmpty) = l.any p := by
  induction l with
  | nil => rfl
  | cons x xs ih =>
    by_cases hx : p x = true
    · simp [hx]
    · have hx' : p x = false := by simpa using hx
      simp only [List.filter_cons, hx', Bool.false_eq_true, if_false, List.any_cons, Bool.false_or]
      exact ih

end DfAux

open DfAux

/-! ## translated = hand model (every input; no hypothesis) -/

/-- the per-column routine handed to the model of `df_detrend`: the translated `polynomial_detrend` (region Rms), `np.polyfit` its parameter -/
noncomputable abbrev detrendFn (polyfit : RmsGen.Polyfit) : Arr ℝ → ℤ → Option (Arr ℝ) := fun v p => Gen.polynomial_detrend polyfit v p

/-- the per-column routine handed to the model of `df_timeshift`: the translated `timeshift` (region TimeShift) with a Python-float
    shift (the one-element array) and the default order 31 -/
noncomputable abbrev shiftFn : Arr ℝ → ℝ → Option (Arr ℝ) := fun v s => Gen.timeshift v (NpTS.ofScalar s) 31

/-- **`df_detrend` as translated = the hand model**, for every object store, reference (DataFrame or not), column selection, order,
    inplace flag and suffix: same raise-or-not, same returned frame, same object layout (a fresh copy appended to the store) -/
theorem gen_df_detrend_eq_model (polyfit : RmsGen.Polyfit) (h : Heap ℝ) (df : Ref) (columns : Option (List String)) (order : ℤ)
    (inplace : Bool) (suffix : String) :
    Gen.df_detrend polyfit h df columns order inplace suffix
      = (dfDetrend (detrendFn polyfit) (h.isFrame df) (h.frame df) columns order inplace suffix).map (Result.realize h df) := by
  obtain ⟨objs⟩ := h
  unfold Gen.df_detrend dfDetrend
  by_cases hf : Heap.isFrame (⟨objs⟩ : Heap ℝ) df = true
  swap
  · simp [hf]
  have hlt := isFrame_lt hf
  by_cases he : (Heap.frame (⟨objs⟩ : Heap ℝ) df).empty = true
  · simp [hf, he]
  by_cases ho : order < 0
  · simp [hf, he, ho]
  simp only [hf, he, ho, Bool.not_true, Bool.false_eq_true, if_false, decide_false, Bool.or_false, Bool.or_self, copy_eq,
    filter_isEmpty_not]
  cases columns with
  | none =>
    simp only [selection, names_all_hasCol, Bool.false_eq_true, if_false, frame_ext_old _ _ _ hlt]
    rw [forEach_map (f' := step (fun v => detrendFn polyfit v order) (Heap.frame ⟨objs⟩ df) inplace suffix) (φ := ext objs)]
    · unfold applyCols
      cases forEach (Heap.frame (⟨objs⟩ : Heap ℝ) df).names (Heap.frame ⟨objs⟩ df)
        (step (fun v => detrendFn polyfit v order) (Heap.frame ⟨objs⟩ df) inplace suffix) <;> rfl
    · intro c g
      simp only [getitem_ext_old objs g df hlt, step]
      cases hcol : (Heap.frame (⟨objs⟩ : Heap ℝ) df).col? c with
      | none => rfl
      | some col =>
        simp only [kindIn, numeric, numericKinds]
        by_cases hk : ['b', 'i', 'u', 'f', 'c'].contains col.kind = true
        · simp only [hk, if_true]
          cases hT : Gen.polynomial_detrend polyfit col.vals order with
          | none => simp only [detrendFn, hT]; rfl
          | some v => cases inplace <;> by_cases hn : v.n = g.nrows <;> simp [hn, setitem_ext_new, target, detrendFn, hT]
        · simp only [hk, if_false]; rfl
  | some cols =>
    simp only [selection, frame_ext_old _ _ _ hlt]
    by_cases hm : (cols.any fun c => !(Heap.frame (⟨objs⟩ : Heap ℝ) df).hasCol c) = true
    · simp [hm]
    simp only [hm, Bool.false_eq_true, if_false]
    rw [forEach_map (f' := step (fun v => detrendFn polyfit v order) (Heap.frame ⟨objs⟩ df) inplace suffix) (φ := ext objs)]
    · unfold applyCols
      cases forEach cols (Heap.frame ⟨objs⟩ df)
        (step (fun v => detrendFn polyfit v order) (Heap.frame (⟨objs⟩ : Heap ℝ) df) inplace suffix) <;> rfl
    · intro c g
      simp only [getitem_ext_old objs g df hlt, step]
      cases hcol : (Heap.frame (⟨objs⟩ : Heap ℝ) df).col? c with
      | none => rfl
      | some col =>
        simp only [kindIn, numeric, numericKinds]
        by_cases hk : ['b', 'i', 'u', 'f', 'c'].contains col.kind = true
        · simp only [hk, if_true]
          cases hT : Gen.polynomial_detrend polyfit col.vals order with
          | none => simp only [detrendFn, hT]; rfl
          | some v => cases inplace <;> by_cases hn : v.n = g.nrows <;> simp [hn, setitem_ext_new, target, detrendFn, hT]
        · simp only [hk, if_false]; rfl

set_option hygiene false in
/-- one pass of the translated column loop of `df_timeshift` on the store `ext objs g` = `Model.Df.step` on `g`
    (uses the local names `objs df hlt seconds f inplace` of `gen_df_timeshift_eq_model`) -/
macro "df_ts_step" : tactic => `(tactic| (
  intro c g
  try simp only [mul_comm f seconds]          -- `fs * seconds` written the other way round is the same shift
  simp only [getitem_ext_old objs g df hlt, step]
  cases hcol : (Heap.frame (⟨objs⟩ : Heap ℝ) df).col? c with
  | none => rfl
  | some col =>
    simp only [kindIn, numeric, numericKinds]
    by_cases hk : ['b', 'i', 'u', 'f', 'c'].contains col.kind = true
    · simp only [hk, Bool.not_true, Bool.false_eq_true, if_false, if_true]
      cases hT : shiftFn col.vals (seconds * f) with
      | none => simp only [shiftFn] at hT; simp only [shiftFn, hT]; rfl
      | some v =>
        simp only [shiftFn] at hT
        cases inplace <;> by_cases hn : v.n = g.nrows <;> simp [hn, setitem_ext_new, target, shiftFn, hT]
    · have hk' : ['b', 'i', 'u', 'f', 'c'].contains col.kind = false := by simpa using hk
      simp only [hk', Bool.not_false, if_true, Bool.false_eq_true, if_false]; rfl))

set_option hygiene false in
/-- after the loop: the translated `truncate` post-processing on the store `ext objs g` = `Model.Df.truncRows` on `g` -/
macro "df_ts_trunc" : tactic => `(tactic| (
  try simp only [mul_comm f seconds]
  cases truncate with
  | none => rfl
  | other => rfl
  | bool b =>
    simp only [PyTrunc.isNone, PyTrunc.isBool, Bool.not_false, if_true, truncRows, iloc_ext_new, frame_ext_new, Option.map_some,
      decide_eq_true_eq, RL.ofNat_eq]
    split_ifs <;> rfl
  | int z =>
    simp only [PyTrunc.isNone, PyTrunc.isBool, PyTrunc.isInt, PyTrunc.toInt?, Bool.not_false, Bool.not_true, Bool.false_eq_true,
      if_true, if_false, truncRows, iloc_ext_new, frame_ext_new, Option.map_some, decide_eq_true_eq]
    split_ifs <;> rfl))

/-- **`df_timeshift` as translated = the hand model**, for every object store, reference (DataFrame or not), `fs` (finite, ±inf, nan),
    `seconds`, column selection, `truncate` (None / bool / int / anything else), inplace flag and suffix: same raise-or-not, same returned
    frame, same object layout (the input object itself on a zero shift; else a fresh copy, and a row slice of it when rows are cut) -/
theorem gen_df_timeshift_eq_model (h : Heap ℝ) (df : Ref) (fs : PyFloat ℝ) (seconds : ℝ) (columns : Option (List String))
    (truncate : PyTrunc) (inplace : Bool) (suffix : String) :
    Gen.df_timeshift h df fs seconds columns truncate inplace suffix
      = (dfTimeshift shiftFn (h.isFrame df) (h.frame df) fs seconds columns truncate inplace suffix).map (Result.realize h df) := by
  obtain ⟨objs⟩ := h
  unfold Gen.df_timeshift dfTimeshift
  by_cases hf : Heap.isFrame (⟨objs⟩ : Heap ℝ) df = true
  swap
  · simp [hf]
  have hlt := isFrame_lt hf
  by_cases he : (Heap.frame (⟨objs⟩ : Heap ℝ) df).empty = true
  · simp [hf, he]
  cases fs with
  | fin f =>
    by_cases hfs : f ≤ 0
    · simp [hf, he, hfs]
    by_cases hs : seconds = 0
    · simp [hf, he, hfs, hs, Result.realize]
    have h0 : (RealLike.ofSci 0 true 1 : ℝ) = 0 := by simp
    simp only [hf, he, hfs, hs, Bool.not_true, Bool.false_eq_true, if_false, decide_false, Bool.or_self, copy_eq,
      filter_isEmpty_not, RL.le_eq, RL.beq_eq, h0, RL.ofNat_eq, Nat.cast_zero, frame_ext_old _ _ _ hlt]
    cases columns with
    | none =>
      simp only [selection, names_all_hasCol, Bool.false_eq_true, if_false]
      rw [forEach_map (f' := step (fun v => shiftFn v (seconds * f)) (Heap.frame ⟨objs⟩ df) inplace suffix) (φ := ext objs)]
      · unfold applyCols
        cases forEach (Heap.frame (⟨objs⟩ : Heap ℝ) df).names (Heap.frame ⟨objs⟩ df)
          (step (fun v => shiftFn v (seconds * f)) (Heap.frame ⟨objs⟩ df) inplace suffix) with
        | none => rfl
        | some g =>
          simp only [Option.map_some]
          df_ts_trunc
      · df_ts_step
    | some cols =>
      simp only [selection]
      by_cases hm : (cols.any fun c => !(Heap.frame (⟨objs⟩ : Heap ℝ) df).hasCol c) = true
      · simp [hm]
      simp only [hm, Bool.false_eq_true, if_false]
      rw [forEach_map (f' := step (fun v => shiftFn v (seconds * f)) (Heap.frame ⟨objs⟩ df) inplace suffix) (φ := ext objs)]
      · unfold applyCols
        cases forEach cols (Heap.frame (⟨objs⟩ : Heap ℝ) df)
          (step (fun v => shiftFn v (seconds * f)) (Heap.frame ⟨objs⟩ df) inplace suffix) with
        | none => rfl
        | some g =>
          simp only [Option.map_some]
          df_ts_trunc
      · df_ts_step
  | pinf => simp [hf, he]
  | ninf => simp [hf, he]
  | nan => simp [hf, he]

/-! ## what the hand model says: the column loop, declaratively -/

namespace DfSpec
variable {α : Type}

theorem target_inj (inplace : Bool) (suffix : String) {c c' : String}
    (h : target inplace suffix c = target inplace suffix c') : c = c' := by
  unfold target at h
  cases inplace
  · simpa using h
  · simpa using h

/-- `c` names a numeric column (dtype kind b, i, u, f or c) of `df` -/
def NumericCol (df : Frame α) (c : String) : Prop := ∃ col, df.col? c = some col ∧ numeric col.kind = true

theorem step_shape {T : Arr α → Option (Arr α)} {df : Frame α} {ip : Bool} {sfx c : String} {out out' : Frame α}
    (h : step T df ip sfx c out = some out') : out'.nrows = out.nrows ∧ out'.index = out.index := by
  unfold step at h
  cases hc : df.col? c with
  | none => simp [hc] at h
  | some col =>
    simp only [hc] at h
    by_cases hk : numeric col.kind = true
    · simp only [hk, if_true] at h
      cases hT : T col.vals with
      | none => simp [hT] at h
      | some v =>
        simp only [hT] at h
        by_cases hn : v.n = out.nrows
        · simp only [hn, ne_eq, not_true_eq_false, if_false, Option.some.injEq] at h
          rw [← h]; exact ⟨nrows_setCol _ _ _ _, index_setCol _ _ _ _⟩
        · simp [hn] at h
    · simp only [hk, Bool.false_eq_true, if_false, Option.some.injEq] at h
      rw [← h]; exact ⟨rfl, rfl⟩

/-- one pass: what is stored (a numeric column) and that nothing else is touched -/
theorem step_spec {T : Arr α → Option (Arr α)} {df : Frame α} {ip : Bool} {sfx c : String} {out out' : Frame α}
    (h : step T df ip sfx c out = some out') :
    (∀ col, df.col? c = some col → numeric col.kind = true →
        ∃ v, T col.vals = some v ∧ v.n = out.nrows ∧ out'.col? (target ip sfx c) = some ⟨target ip sfx c, resultKind, v⟩
          ∧ out'.names = addName out.names (target ip sfx c)) ∧
    (∀ name, (NumericCol df c → target ip sfx c ≠ name) → out'.col? name = out.col? name) ∧
    (¬ NumericCol df c → out' = out) := by
  unfold step at h
  cases hc : df.col? c with
  | none => simp [hc] at h
  | some col =>
    simp only [hc] at h
    by_cases hk : numeric col.kind = true
    · simp only [hk, if_true] at h
      cases hT : T col.vals with
      | none => simp [hT] at h
      | some v =>
        simp only [hT] at h
        by_cases hn : v.n = out.nrows
        · simp only [hn, ne_eq, not_true_eq_false, if_false, Option.some.injEq] at h
          subst h
          refine ⟨?_, ?_, ?_⟩
          · intro col' hcol' _
            cases hcol'
            exact ⟨v, hT, hn, by rw [col?_setCol]; simp, names_setCol _ _ _ _⟩
          · intro name hne
            rw [col?_setCol]
            have : name ≠ target ip sfx c := fun e => hne ⟨col, hc, hk⟩ e.symm
            simp [this]
          · intro hnot
            exact absurd ⟨col, hc, hk⟩ hnot
        · simp [hn] at h
    · simp only [hk, Bool.false_eq_true, if_false, Option.some.injEq] at h
      subst h
      refine ⟨fun col' hcol' hk' => ?_, fun _ _ => rfl, fun _ => rfl⟩
      cases hcol'
      exact absurd hk' hk

theorem apply_shape {T : Arr α → Option (Arr α)} {df : Frame α} {ip : Bool} {sfx : String} :
    ∀ (sel : List String) {out g : Frame α}, applyCols T df ip sfx sel out = some g → g.nrows = out.nrows ∧ g.index = out.index
  | [], out, g, h => by
    simp only [applyCols, forEach, Option.some.injEq] at h
    rw [← h]; exact ⟨rfl, rfl⟩
  | c :: cs, out, g, h => by
    simp only [applyCols, forEach] at h
    cases hs : step T df ip sfx c out with
    | none => simp [hs] at h
    | some out' =>
      simp only [hs] at h
      have h1 := step_shape hs
      have h2 := apply_shape cs (out := out') (g := g) h
      exact ⟨h2.1.trans h1.1, h2.2.trans h1.2⟩

/-- **nothing else is touched**: a label that is not the target of a selected numeric column holds what it held before
    (in particular: unselected columns, non-numeric columns, and no label appears that is not a target) -/
theorem apply_other {T : Arr α → Option (Arr α)} {df : Frame α} {ip : Bool} {sfx : String} :
    ∀ (sel : List String) {out g : Frame α}, applyCols T df ip sfx sel out = some g →
      ∀ name, (∀ c ∈ sel, NumericCol df c → target ip sfx c ≠ name) → g.col? name = out.col? name
  | [], out, g, h, name, _ => by
    simp only [applyCols, forEach, Option.some.injEq] at h
    rw [← h]
  | c :: cs, out, g, h, name, hno => by
    simp only [applyCols, forEach] at h
    cases hs : step T df ip sfx c out with
    | none => simp [hs] at h
    | some out' =>
      simp only [hs] at h
      rw [apply_other cs (out := out') (g := g) h name (fun c' hc' => hno c' (List.mem_cons_of_mem _ hc'))]
      exact (step_spec hs).2.1 name (hno c List.mem_cons_self)

/-- **every selected numeric column is transformed**: its target label holds `T(values of the INPUT column)` as a float column -/
theorem apply_target {T : Arr α → Option (Arr α)} {df : Frame α} {ip : Bool} {sfx : String} :
    ∀ (sel : List String) {out g : Frame α}, applyCols T df ip sfx sel out = some g →
      ∀ c ∈ sel, ∀ col, df.col? c = some col → numeric col.kind = true →
        ∃ v, T col.vals = some v ∧ v.n = out.nrows ∧ g.col? (target ip sfx c) = some ⟨target ip sfx c, resultKind, v⟩
  | [], _, _, _, c, hc, _, _, _ => by simp at hc
  | x :: xs, out, g, h, c, hc, col, hcol, hk => by
    simp only [applyCols, forEach] at h
    cases hs : step T df ip sfx x out with
    | none => simp [hs] at h
    | some out' =>
      simp only [hs] at h
      by_cases hin : c ∈ xs
      · obtain ⟨v, hT, hn, hg⟩ := apply_target xs (out := out') (g := g) h c hin col hcol hk
        exact ⟨v, hT, hn.trans (step_shape hs).1, hg⟩
      · have hcx : c = x := by
          rcases List.mem_cons.mp hc with h1 | h1
          · exact h1
          · exact absurd h1 hin
        subst hcx
        obtain ⟨v, hT, hn, hg, _⟩ := (step_spec hs).1 col hcol hk
        refine ⟨v, hT, hn, ?_⟩
        rw [apply_other xs (out := out') (g := g) h (target ip sfx c) (fun c' hc' _ e => hin (by rw [← target_inj ip sfx e]; exact hc'))]
        exact hg

/-- `c` names a numeric column of `df` (as a Boolean) -/
def isNum (df : Frame α) (c : String) : Bool :=
  match df.col? c with
  | some col => numeric col.kind
  | none => false

/-- the labels `T` is applied to, in loop order -/
def numericSel (df : Frame α) (sel : List String) : List String := sel.filter (isNum df)

theorem numericCol_iff (df : Frame α) (c : String) : NumericCol df c ↔ isNum df c = true := by
  unfold NumericCol isNum
  cases df.col? c with
  | none => simp
  | some col => simp

/-- **column order** (pandas' rule): the input's labels in their order; then each NEW target label, appended when first stored -/
theorem apply_names {T : Arr α → Option (Arr α)} {df : Frame α} {ip : Bool} {sfx : String} :
    ∀ (sel : List String) {out g : Frame α}, applyCols T df ip sfx sel out = some g →
      g.names = ((numericSel df sel).map (target ip sfx)).foldl addName out.names
  | [], out, g, h => by
    simp only [applyCols, forEach, Option.some.injEq] at h
    rw [← h]; rfl
  | c :: cs, out, g, h => by
    simp only [applyCols, forEach] at h
    cases hs : step T df ip sfx c out with
    | none => simp [hs] at h
    | some out' =>
      simp only [hs] at h
      rw [apply_names cs (out := out') (g := g) h]
      unfold numericSel
      by_cases hnc : NumericCol df c
      · obtain ⟨col, hcol, hk⟩ := hnc
        have hp := (numericCol_iff df c).mp ⟨col, hcol, hk⟩
        obtain ⟨_, _, _, _, hnames⟩ := (step_spec hs).1 col hcol hk
        rw [List.filter_cons_of_pos hp, List.map_cons, List.foldl_cons, hnames]
      · have hp : ¬ isNum df c = true :=
          fun e => hnc ((numericCol_iff df c).mpr e)
        rw [List.filter_cons_of_neg hp, (step_spec hs).2.2 hnc]

/-- **the loop does not raise** when every selected label exists and `T` succeeds, with a result of the frame's length, on every
    numeric column of the input -/
theorem apply_ok {T : Arr α → Option (Arr α)} {df : Frame α} {ip : Bool} {sfx : String}
    (hT : ∀ col ∈ df.cols, numeric col.kind = true → ∃ v, T col.vals = some v ∧ v.n = df.nrows) :
    ∀ (sel : List String) (out : Frame α), out.nrows = df.nrows → (∀ c ∈ sel, df.hasCol c = true) →
      ∃ g, applyCols T df ip sfx sel out = some g
  | [], out, _, _ => ⟨out, rfl⟩
  | c :: cs, out, hn, hsel => by
    have hc : df.hasCol c = true := hsel c List.mem_cons_self
    have hstep : ∃ out', step T df ip sfx c out = some out' := by
      unfold step
      cases hcol : df.col? c with
      | none => rw [(col?_none_iff df c).mp hcol] at hc; simp at hc
      | some col =>
        simp only []
        by_cases hk : numeric col.kind = true
        · obtain ⟨v, hv, hvn⟩ := hT col (col?_mem hcol) hk
          simp [hk, hv, hvn, hn]
        · simp [hk]
    obtain ⟨out', hs⟩ := hstep
    obtain ⟨g, hg⟩ := apply_ok hT cs out' ((step_shape hs).1.trans hn) (fun c' hc' => hsel c' (List.mem_cons_of_mem _ hc'))
    exact ⟨g, by simp only [applyCols, forEach, hs]; exact hg⟩

/-! ### row slices -/

/-- **truncation by `nt` rows at each end** (`0 < nt`, `2·nt < len`): `len - 2·nt` rows remain, row `i` of the result is row `nt + i`
    of the frame, for every column and for the row index; labels, dtypes and column order are kept -/
theorem rows_trunc (g : Frame α) (nt : Int) (h0 : 0 < nt) (h2 : nt * 2 < (g.nrows : Int)) :
    (g.rows nt (-nt)).nrows = g.nrows - 2 * nt.toNat ∧
    (g.rows nt (-nt)).names = g.names ∧
    (∀ i, (g.rows nt (-nt)).index.get i = g.index.get (nt.toNat + i)) ∧
    (g.rows nt (-nt)).index.n = g.nrows - 2 * nt.toNat ∧
    (∀ name col, g.col? name = some col → (g.rows nt (-nt)).col? name
        = some ⟨col.name, col.kind, ⟨g.nrows - 2 * nt.toNat, fun i => col.vals.get (nt.toNat + i)⟩⟩) := by
  have hl : NpTS.sliceBound g.nrows nt = nt.toNat := by
    unfold NpTS.sliceBound
    rw [if_neg (by omega), if_neg (by omega)]
  have hu : NpTS.sliceBound g.nrows (-nt) = g.nrows - nt.toNat := by
    unfold NpTS.sliceBound
    rw [if_pos (by omega)]
    omega
  have hlen : g.nrows - nt.toNat - nt.toNat = g.nrows - 2 * nt.toNat := by omega
  refine ⟨?_, ?_, ?_, ?_, ?_⟩
  · simp only [Frame.rows, hl, hu, hlen]
  · simp [Frame.rows, Frame.names, List.map_map, Function.comp_def]
  · intro i; simp only [Frame.rows, hl]
  · simp only [Frame.rows, hl, hu, hlen]
  · intro name col hcol
    unfold Frame.col? at hcol ⊢
    simp only [Frame.rows, List.find?_map, Function.comp_def, hcol, Option.map_some, hl, hu, hlen]

/-- the empty slice `iloc[0:0]`: no rows, the same columns (labels, dtypes, order) -/
theorem rows_empty (g : Frame α) : (g.rows 0 0).nrows = 0 ∧ (g.rows 0 0).names = g.names ∧ (g.rows 0 0).index.n = 0 := by
  have h0 : NpTS.sliceBound g.nrows 0 = 0 := by
    unfold NpTS.sliceBound
    rw [if_neg (by omega)]
    split <;> omega
  refine ⟨?_, ?_, ?_⟩
  · simp only [Frame.rows, h0, Nat.sub_self]
  · simp [Frame.rows, Frame.names, List.map_map, Function.comp_def]
  · simp only [Frame.rows, h0, Nat.sub_self]

end DfSpec

/-! ## the translated wrappers: specification theorems (transfer through the equality theorems) -/

open DfSpec Finset

/-- every column has one value per row (what pandas guarantees of a DataFrame) -/
def NpDf.Frame.WF {α : Type} (f : Frame α) : Prop := ∀ col ∈ f.cols, col.vals.n = f.nrows

/-- the number of rows `truncate` removes at EACH end: `None` none, a bool (True **or False**: `isinstance(False, bool)`) the amount
    `int(2·|seconds·fs|)`, an integer itself -/
noncomputable def nTrunc (truncate : PyTrunc) (seconds f : ℝ) : ℤ :=
  match truncate with
  | .none => 0
  | .bool _ => RealLike.trunc ((2 : ℝ) * |seconds * f|)
  | .int z => z
  | .other => 0

/-- objects are only appended: every object that existed before the call (the input frame in particular) is unchanged -/
theorem realize_untouched {α : Type} (h : Heap α) (df : Ref) (r : Result α) (q : ℕ) (hq : q < h.objs.length) :
    (r.realize h df).1.objs.getD q none = h.objs.getD q none := by
  cases r <;> simp [Result.realize, List.getD_eq_getElem?_getD, List.getElem?_append_left, hq, Nat.lt_succ_of_lt hq]

/-- the translated `timeshift` with a non-zero float shift and the default order never raises and keeps the length -/
theorem shiftFn_ok (v : Arr ℝ) (s : ℝ) (hs : s ≠ 0) : ∃ out, shiftFn v s = some out ∧ out.n = v.n := by
  unfold shiftFn
  by_cases hsz : v.n ≤ 1
  · obtain ⟨out, ho, hn, _⟩ := gen_timeshift_tiny v (NpTS.ofScalar s) 15 hsz
    exact ⟨out, by simpa using ho, hn⟩
  · obtain ⟨out, ho, hn, _⟩ := gen_timeshift_const_eq_model v (NpTS.ofScalar s) 16 (by norm_num) (by omega) rfl hs
    exact ⟨out, by simpa using ho, hn⟩

/-- **`df_timeshift`, accepted input with a non-zero shift** (a non-empty DataFrame, `fs > 0` finite, `seconds ≠ 0`, every requested
    label present, `truncate` None / bool / int).  The call does not raise; it allocates a fresh copy `g` of the input (and, when rows
    are cut, a row slice of `g`, which is returned); in `g`
    * rows and row index are the input's;
    * the labels are the input's in their order, followed by each NEW target label in the order of first storage (`addName`);
    * every selected numeric column `c` (dtype kind b, i, u, f, c) yields under `c` (inplace) or `c ++ suffix` a float column equal to
      the translated `timeshift(values of the INPUT column c, seconds·fs, order 31)`;
    * every label that is not such a target holds exactly what the input holds (unselected, non-numeric, and no other label exists);
    the returned frame is `truncRows g (nTrunc …)`: `g` itself if `nTrunc ≤ 0`, the empty frame if `2·nTrunc ≥ len`, else the rows
    `nTrunc … len - nTrunc - 1` (`DfSpec.rows_trunc`). -/
theorem gen_df_timeshift_spec (h : Heap ℝ) (df : Ref) (f seconds : ℝ) (columns : Option (List String)) (truncate : PyTrunc)
    (inplace : Bool) (suffix : String)
    (hframe : h.isFrame df = true) (hne : (h.frame df).empty = false) (hwf : (h.frame df).WF) (hfs : 0 < f) (hs : seconds ≠ 0)
    (hcols : ∀ c ∈ selection (h.frame df) columns, (h.frame df).hasCol c = true) (htr : truncate ≠ PyTrunc.other) :
    ∃ g : Frame ℝ,
      Gen.df_timeshift h df (.fin f) seconds columns truncate inplace suffix
        = some ((truncRows g (nTrunc truncate seconds f)).realize h df) ∧
      g.nrows = (h.frame df).nrows ∧ g.index = (h.frame df).index ∧
      g.names = ((numericSel (h.frame df) (selection (h.frame df) columns)).map (target inplace suffix)).foldl addName (h.frame df).names ∧
      (∀ c ∈ selection (h.frame df) columns, ∀ col, (h.frame df).col? c = some col → numeric col.kind = true →
        ∃ out, Gen.timeshift col.vals (NpTS.ofScalar (seconds * f)) 31 = some out ∧ out.n = (h.frame df).nrows ∧
          g.col? (target inplace suffix c) = some ⟨target inplace suffix c, 'f', out⟩) ∧
      (∀ name, (∀ c ∈ selection (h.frame df) columns, NumericCol (h.frame df) c → target inplace suffix c ≠ name) →
        g.col? name = (h.frame df).col? name) := by
  have hT : ∀ col ∈ (h.frame df).cols, numeric col.kind = true →
      ∃ v, (fun v => shiftFn v (seconds * f)) col.vals = some v ∧ v.n = (h.frame df).nrows := by
    intro col hcol _
    obtain ⟨out, ho, hn⟩ := shiftFn_ok col.vals (seconds * f) (mul_ne_zero hs (ne_of_gt hfs))
    exact ⟨out, ho, hn.trans (hwf col hcol)⟩
  obtain ⟨g, hg⟩ := apply_ok (T := fun v => shiftFn v (seconds * f)) (ip := inplace) (sfx := suffix) hT (selection (h.frame df) columns) (h.frame df) rfl hcols
  have hany : (selection (h.frame df) columns).any (fun c => !(h.frame df).hasCol c) = false := by
    rw [Bool.eq_false_iff]
    intro hh
    obtain ⟨c, hc, hn⟩ := List.any_eq_true.mp hh
    simp [hcols c hc] at hn
  refine ⟨g, ?_, (apply_shape _ hg).1, (apply_shape _ hg).2, apply_names _ hg, ?_, apply_other _ hg⟩
  · rw [gen_df_timeshift_eq_model]
    unfold dfTimeshift
    have hfs' : ¬ f ≤ 0 := not_le.mpr hfs
    simp only [hframe, hne, Bool.not_true, Bool.or_self, Bool.false_eq_true, if_false, RL.le_eq, RL.ofNat_eq, Nat.cast_zero, hfs',
      decide_false, RL.beq_eq, hs, hany, hg]
    cases truncate with
    | other => exact absurd rfl htr
    | none => simp [nTrunc, truncRows]
    | bool b => simp [nTrunc]
    | int z => simp [nTrunc]
  · intro c hc col hcol hk
    obtain ⟨v, hv, hn, hgc⟩ := apply_target _ hg c hc col hcol hk
    exact ⟨v, hv, hn, hgc⟩

/-- a small frame: a float column and a string column, three rows -/
noncomputable def exFrame : Frame ℝ := ⟨[⟨"a", 'f', ⟨3, fun i => (i : ℝ)⟩⟩, ⟨"s", 'O', ⟨3, fun _ => 0⟩⟩], 3, ⟨3, fun i => i⟩⟩

theorem exFrame_facts : Heap.isFrame (⟨[some exFrame]⟩ : Heap ℝ) 0 = true ∧ (Heap.frame (⟨[some exFrame]⟩ : Heap ℝ) 0).empty = false ∧
    (Heap.frame (⟨[some exFrame]⟩ : Heap ℝ) 0).WF ∧ (Heap.frame (⟨[some exFrame]⟩ : Heap ℝ) 0).hasCol "a" = true := by
  refine ⟨rfl, ?_, ?_, ?_⟩
  · show exFrame.empty = false
    simp [exFrame, Frame.empty]
  · show exFrame.WF
    intro col hcol
    simp only [exFrame, List.mem_cons, List.not_mem_nil, or_false] at hcol
    rcases hcol with rfl | rfl <;> rfl
  · show exFrame.hasCol "a" = true
    simp [exFrame, Frame.hasCol, Frame.names]

example : ∃ (h : Heap ℝ) (df : Ref) (f seconds : ℝ) (columns : Option (List String)) (truncate : PyTrunc),
    h.isFrame df = true ∧ (h.frame df).empty = false ∧ (h.frame df).WF ∧ 0 < f ∧ seconds ≠ 0 ∧
    (∀ c ∈ selection (h.frame df) columns, (h.frame df).hasCol c = true) ∧ truncate ≠ PyTrunc.other :=
  ⟨⟨[some exFrame]⟩, 0, 2, -3 / 8, some ["a"], .bool false, exFrame_facts.1, exFrame_facts.2.1, exFrame_facts.2.2.1, by norm_num,
    by norm_num, by intro c hc; simp only [selection, List.mem_singleton] at hc; subst hc; exact exFrame_facts.2.2.2, by simp⟩

/-- **the input frame is not modified** — nor is any other object that existed before the call: whatever `df_timeshift` returns, the
    store it leaves agrees with the old one on every old reference (all writes go to the fresh copy made by `df.copy()`) -/
theorem gen_df_timeshift_input_untouched (h h' : Heap ℝ) (df r : Ref) (fs : PyFloat ℝ) (seconds : ℝ) (columns : Option (List String))
    (truncate : PyTrunc) (inplace : Bool) (suffix : String)
    (hres : Gen.df_timeshift h df fs seconds columns truncate inplace suffix = some (h', r)) :
    (∀ q < h.objs.length, h'.objs.getD q none = h.objs.getD q none) ∧ (h.isFrame df = true → h'.frame df = h.frame df) := by
  rw [gen_df_timeshift_eq_model] at hres
  cases hm : dfTimeshift shiftFn (h.isFrame df) (h.frame df) fs seconds columns truncate inplace suffix with
  | none => simp [hm] at hres
  | some res =>
    simp only [hm, Option.map_some, Option.some.injEq] at hres
    have hq : ∀ q < h.objs.length, h'.objs.getD q none = h.objs.getD q none := by
      intro q hq
      have := realize_untouched h df res q hq
      rw [hres] at this
      exact this
    refine ⟨hq, fun hfr => ?_⟩
    obtain ⟨objs⟩ := h
    unfold Heap.frame
    rw [hq df (isFrame_lt hfr)]

/-- **a zero shift returns the input frame itself** (the same object, the store unchanged), whatever `columns` / `truncate` say —
    even labels that do not exist and a `truncate` of the wrong type are not looked at -/
theorem gen_df_timeshift_zero (h : Heap ℝ) (df : Ref) (f : ℝ) (columns : Option (List String)) (truncate : PyTrunc) (inplace : Bool)
    (suffix : String) (hframe : h.isFrame df = true) (hne : (h.frame df).empty = false) (hfs : 0 < f) :
    Gen.df_timeshift h df (.fin f) 0 columns truncate inplace suffix = some (h, df) := by
  rw [gen_df_timeshift_eq_model]
  unfold dfTimeshift
  have hfs' : ¬ f ≤ 0 := not_le.mpr hfs
  simp [hframe, hne, hfs', Result.realize]

/-- **`truncate=False` truncates exactly like `truncate=True`** (`isinstance(False, bool)` is true, and the value of the bool is never
    read): on every input the two calls agree.  (The docstring says "If True, truncate …": recorded as a finding in the report.) -/
theorem gen_df_timeshift_truncate_false_eq_true (h : Heap ℝ) (df : Ref) (fs : PyFloat ℝ) (seconds : ℝ) (columns : Option (List String))
    (inplace : Bool) (suffix : String) :
    Gen.df_timeshift h df fs seconds columns (.bool false) inplace suffix
      = Gen.df_timeshift h df fs seconds columns (.bool true) inplace suffix := by
  rw [gen_df_timeshift_eq_model, gen_df_timeshift_eq_model]
  rfl

/-- **exactly which inputs raise** (`df_timeshift`; frames whose columns all have one value per row): not a DataFrame; an empty frame;
    `fs` not a finite positive number; or — only for a NON-ZERO shift — a requested label that is not a column, or a `truncate` that is
    neither None, bool nor int. -/
theorem gen_df_timeshift_rejects_iff (h : Heap ℝ) (df : Ref) (fs : PyFloat ℝ) (seconds : ℝ) (columns : Option (List String))
    (truncate : PyTrunc) (inplace : Bool) (suffix : String) (hwf : (h.frame df).WF) :
    Gen.df_timeshift h df fs seconds columns truncate inplace suffix = none ↔
      (h.isFrame df = false ∨ (h.frame df).empty = true ∨ (∀ f, fs = .fin f → f ≤ 0) ∨
        (seconds ≠ 0 ∧ ((∃ c ∈ selection (h.frame df) columns, (h.frame df).hasCol c = false) ∨ truncate = .other))) := by
  by_cases hframe : h.isFrame df = true
  swap
  · have : h.isFrame df = false := by simpa using hframe
    rw [gen_df_timeshift_eq_model]; simp [dfTimeshift, this]
  by_cases hne : (h.frame df).empty = true
  · rw [gen_df_timeshift_eq_model]; simp [dfTimeshift, hne]
  have hne' : (h.frame df).empty = false := by simpa using hne
  cases fs with
  | pinf => rw [gen_df_timeshift_eq_model]; simp [dfTimeshift]
  | ninf => rw [gen_df_timeshift_eq_model]; simp [dfTimeshift]
  | nan => rw [gen_df_timeshift_eq_model]; simp [dfTimeshift]
  | fin f =>
    by_cases hfs : f ≤ 0
    · rw [gen_df_timeshift_eq_model]; simp [dfTimeshift, hfs]
    have hfs' : 0 < f := not_le.mp hfs
    by_cases hs : seconds = 0
    · subst hs
      rw [gen_df_timeshift_zero h df f columns truncate inplace suffix hframe hne' hfs']
      simp [hframe, hne', hfs]
    by_cases hmiss : ∃ c ∈ selection (h.frame df) columns, (h.frame df).hasCol c = false
    · have hany : (selection (h.frame df) columns).any (fun c => !(h.frame df).hasCol c) = true := by
        obtain ⟨c, hc, hn⟩ := hmiss
        exact List.any_eq_true.mpr ⟨c, hc, by simp [hn]⟩
      rw [gen_df_timeshift_eq_model]
      simp only [dfTimeshift, hframe, hne', Bool.not_true, Bool.or_self, Bool.false_eq_true, if_false, RL.le_eq, RL.ofNat_eq,
        Nat.cast_zero, hfs, decide_false, RL.beq_eq, hs, hany, if_true, Option.map_none, true_iff]
      exact Or.inr (Or.inr (Or.inr ⟨hs, Or.inl hmiss⟩))
    have hcols : ∀ c ∈ selection (h.frame df) columns, (h.frame df).hasCol c = true := by
      intro c hc
      by_contra hn
      exact hmiss ⟨c, hc, by simpa using hn⟩
    by_cases htr : truncate = PyTrunc.other
    · subst htr
      rw [gen_df_timeshift_eq_model]
      have : (dfTimeshift shiftFn (h.isFrame df) (h.frame df) (PyFloat.fin f) seconds columns PyTrunc.other inplace suffix) = none := by
        unfold dfTimeshift
        simp only [hframe, hne', Bool.not_true, Bool.or_self, Bool.false_eq_true, if_false, RL.le_eq, RL.ofNat_eq, Nat.cast_zero,
          hfs, decide_false, RL.beq_eq, hs]
        split_ifs
        · rfl
        · split <;> rfl
      rw [this]
      simp [hs]
    · obtain ⟨g, hg, _⟩ := gen_df_timeshift_spec h df f seconds columns truncate inplace suffix hframe hne' hwf hfs' hs hcols htr
      rw [hg]
      simp only [reduceCtorEq, false_iff, not_or, not_and]
      refine ⟨by simp [hframe], by simp [hne'], ?_, fun _ => ⟨hmiss, htr⟩⟩
      intro hall
      exact hfs (hall f rfl)

/-- per column: in the interior (16 samples of the record on either side of the shifted position) the stored value is the value at
    `n + seconds·fs` of the polynomial of degree ≤ 31 through the 32 surrounding samples of the INPUT column (transfer of
    `gen_const_is_interpolant`, region TimeShift, to the column the wrapper stores) -/
theorem gen_df_timeshift_column_interpolant (col out : Arr ℝ) (f seconds : ℝ) (hfs : 0 < f) (hs : seconds ≠ 0) (hsz : 2 ≤ col.n)
    (hout : Gen.timeshift col (NpTS.ofScalar (seconds * f)) 31 = some out)
    (n : ℕ) (hn : n < col.n) (hint : Interior col.n 16 ⌊seconds * f⌋ n) (p : Polynomial ℝ) (hp : p.natDegree < 2 * 16)
    (hfit : ∀ k : ℕ, k < 2 * 16 → p.eval (((n : ℤ) + ⌊seconds * f⌋ - (((16 : ℕ) : ℤ) - 1) + (k : ℤ) : ℤ) : ℝ)
      = col.get ((n : ℤ) + ⌊seconds * f⌋ - (((16 : ℕ) : ℤ) - 1) + (k : ℤ)).toNat) :
    out.get n = p.eval ((n : ℝ) + seconds * f) :=
  gen_const_is_interpolant col (NpTS.ofScalar (seconds * f)) 16 (by norm_num) hsz rfl (mul_ne_zero hs (ne_of_gt hfs)) out
    (by simpa using hout) n hn hint p hp hfit

/-- the defaults of the keyword parameters of `df_timeshift`, as written in the source -/
theorem gen_df_timeshift_defaults :
    Gen.df_timeshift_columns_default = none ∧ Gen.df_timeshift_truncate_default = PyTrunc.none ∧
    Gen.df_timeshift_inplace_default = false ∧ Gen.df_timeshift_suffix_default = "_shifted" :=
  ⟨rfl, rfl, rfl, by decide⟩

/-! ### `df_detrend` -/

/-- under the `np.polyfit` contract the translated `polynomial_detrend` never raises on a non-empty record with `order ≥ 0`, and keeps the length -/
theorem detrendFn_ok (polyfit : RmsGen.Polyfit) (hc : RmsGen.PolyfitLS polyfit) (v : Arr ℝ) (hn : v.n ≠ 0) (order : ℤ) (ho : 0 ≤ order) :
    ∃ out, detrendFn polyfit v order = some out ∧ out.n = v.n := by
  unfold detrendFn
  by_cases h0 : order = 0
  · subst h0
    have h := gen_detrend0_eq_model polyfit v hn
    cases hr : Gen.polynomial_detrend polyfit v 0 with
    | none => rw [hr] at h; simp at h
    | some r =>
      refine ⟨r, rfl, ?_⟩
      rw [hr, Option.map_some, Option.some.injEq] at h
      have := congrArg List.length h
      rw [RmsGen.toList_length, RmsAux.detrend0_eq, List.length_map, RmsGen.toList_length] at this
      exact this
  · obtain ⟨r, hr, hrn, _⟩ := gen_detrend_orthogonal polyfit hc v hn order (by omega)
    exact ⟨r, hr, hrn⟩

/-- **`df_detrend`, accepted input** (a non-empty DataFrame, `order ≥ 0`, every requested label present; `np.polyfit` obeys its
    least-squares contract `RmsGen.PolyfitLS`).  The call does not raise and returns a fresh copy `g` of the input (appended to the
    store) in which rows and index are the input's, the labels follow pandas' order rule, every selected numeric column `c` yields
    under `c` / `c ++ suffix` a float column equal to the translated `polynomial_detrend(values of the INPUT column c, order)`, and
    every other label holds exactly what the input holds. -/
theorem gen_df_detrend_spec (polyfit : RmsGen.Polyfit) (hc : RmsGen.PolyfitLS polyfit) (h : Heap ℝ) (df : Ref)
    (columns : Option (List String)) (order : ℤ) (inplace : Bool) (suffix : String)
    (hframe : h.isFrame df = true) (hne : (h.frame df).empty = false) (hwf : (h.frame df).WF) (ho : 0 ≤ order)
    (hcols : ∀ c ∈ selection (h.frame df) columns, (h.frame df).hasCol c = true) :
    ∃ g : Frame ℝ,
      Gen.df_detrend polyfit h df columns order inplace suffix = some (⟨h.objs ++ [some g]⟩, h.objs.length) ∧
      g.nrows = (h.frame df).nrows ∧ g.index = (h.frame df).index ∧
      g.names = ((numericSel (h.frame df) (selection (h.frame df) columns)).map (target inplace suffix)).foldl addName (h.frame df).names ∧
      (∀ c ∈ selection (h.frame df) columns, ∀ col, (h.frame df).col? c = some col → numeric col.kind = true →
        ∃ out, Gen.polynomial_detrend polyfit col.vals order = some out ∧ out.n = (h.frame df).nrows ∧
          g.col? (target inplace suffix c) = some ⟨target inplace suffix c, 'f', out⟩) ∧
      (∀ name, (∀ c ∈ selection (h.frame df) columns, NumericCol (h.frame df) c → target inplace suffix c ≠ name) →
        g.col? name = (h.frame df).col? name) := by
  have hrows : (h.frame df).nrows ≠ 0 := by
    intro h0
    simp [Frame.empty, h0] at hne
  have hT : ∀ col ∈ (h.frame df).cols, numeric col.kind = true →
      ∃ v, (fun v => detrendFn polyfit v order) col.vals = some v ∧ v.n = (h.frame df).nrows := by
    intro col hcol _
    obtain ⟨out, hout, hn⟩ := detrendFn_ok polyfit hc col.vals (by rw [hwf col hcol]; exact hrows) order ho
    exact ⟨out, hout, hn.trans (hwf col hcol)⟩
  obtain ⟨g, hg⟩ := apply_ok (T := fun v => detrendFn polyfit v order) (ip := inplace) (sfx := suffix) hT
    (selection (h.frame df) columns) (h.frame df) rfl hcols
  have hany : (selection (h.frame df) columns).any (fun c => !(h.frame df).hasCol c) = false := by
    rw [Bool.eq_false_iff]
    intro hh
    obtain ⟨c, hc', hn⟩ := List.any_eq_true.mp hh
    simp [hcols c hc'] at hn
  refine ⟨g, ?_, (apply_shape _ hg).1, (apply_shape _ hg).2, apply_names _ hg, ?_, apply_other _ hg⟩
  · rw [gen_df_detrend_eq_model]
    unfold dfDetrend
    have ho' : ¬ order < 0 := not_lt.mpr ho
    simp only [hframe, hne, Bool.not_true, Bool.or_self, Bool.false_eq_true, if_false, ho', hany, hg, Option.map_some, Result.realize]
  · intro c hc' col hcol hk
    obtain ⟨v, hv, hn, hgc⟩ := apply_target _ hg c hc' col hcol hk
    exact ⟨v, hv, hn, hgc⟩

example : ∃ (polyfit : RmsGen.Polyfit) (h : Heap ℝ) (df : Ref) (columns : Option (List String)) (order : ℤ),
    RmsGen.PolyfitLS polyfit ∧ h.isFrame df = true ∧ (h.frame df).empty = false ∧ (h.frame df).WF ∧ 0 ≤ order ∧
    (∀ c ∈ selection (h.frame df) columns, (h.frame df).hasCol c = true) :=
  ⟨RmsGen.lsPolyfit, ⟨[some exFrame]⟩, 0, some ["a"], 2, RmsGen.lsPolyfit_contract, exFrame_facts.1, exFrame_facts.2.1, exFrame_facts.2.2.1,
    by norm_num, by intro c hc; simp only [selection, List.mem_singleton] at hc; subst hc; exact exFrame_facts.2.2.2⟩

/-- the input frame (and every other old object) is not modified by `df_detrend` -/
theorem gen_df_detrend_input_untouched (polyfit : RmsGen.Polyfit) (h h' : Heap ℝ) (df r : Ref) (columns : Option (List String))
    (order : ℤ) (inplace : Bool) (suffix : String)
    (hres : Gen.df_detrend polyfit h df columns order inplace suffix = some (h', r)) :
    (∀ q < h.objs.length, h'.objs.getD q none = h.objs.getD q none) ∧ (h.isFrame df = true → h'.frame df = h.frame df) ∧
      r = h.objs.length := by
  rw [gen_df_detrend_eq_model] at hres
  cases hm : dfDetrend (detrendFn polyfit) (h.isFrame df) (h.frame df) columns order inplace suffix with
  | none => simp [hm] at hres
  | some res =>
    simp only [hm, Option.map_some, Option.some.injEq] at hres
    have hq : ∀ q < h.objs.length, h'.objs.getD q none = h.objs.getD q none := by
      intro q hq
      have := realize_untouched h df res q hq
      rw [hres] at this
      exact this
    refine ⟨hq, fun hfr => ?_, ?_⟩
    · obtain ⟨objs⟩ := h
      unfold Heap.frame
      rw [hq df (isFrame_lt hfr)]
    · -- the model of df_detrend only ever returns a fresh copy
      have : ∃ g, res = Result.fresh g := by
        unfold dfDetrend at hm
        split_ifs at hm
        cases ha : applyCols (fun v => detrendFn polyfit v order) (h.frame df) inplace suffix (selection (h.frame df) columns) (h.frame df) with
        | none => simp [ha] at hm
        | some g => simp only [ha, Option.map_some, Option.some.injEq] at hm; exact ⟨g, hm.symm⟩
      obtain ⟨g, rfl⟩ := this
      simp only [Result.realize, Prod.mk.injEq] at hres
      exact hres.2.symm

/-- **exactly which inputs raise** (`df_detrend`; frames whose columns all have one value per row; `np.polyfit` obeys its contract):
    not a DataFrame; an empty frame; `order < 0`; a requested label that is not a column. -/
theorem gen_df_detrend_rejects_iff (polyfit : RmsGen.Polyfit) (hc : RmsGen.PolyfitLS polyfit) (h : Heap ℝ) (df : Ref)
    (columns : Option (List String)) (order : ℤ) (inplace : Bool) (suffix : String) (hwf : (h.frame df).WF) :
    Gen.df_detrend polyfit h df columns order inplace suffix = none ↔
      (h.isFrame df = false ∨ (h.frame df).empty = true ∨ order < 0 ∨
        ∃ c ∈ selection (h.frame df) columns, (h.frame df).hasCol c = false) := by
  by_cases hframe : h.isFrame df = true
  swap
  · have : h.isFrame df = false := by simpa using hframe
    rw [gen_df_detrend_eq_model]; simp [dfDetrend, this]
  by_cases hne : (h.frame df).empty = true
  · rw [gen_df_detrend_eq_model]; simp [dfDetrend, hne]
  have hne' : (h.frame df).empty = false := by simpa using hne
  by_cases ho : order < 0
  · rw [gen_df_detrend_eq_model]; simp [dfDetrend, ho]
  by_cases hmiss : ∃ c ∈ selection (h.frame df) columns, (h.frame df).hasCol c = false
  · have hany : (selection (h.frame df) columns).any (fun c => !(h.frame df).hasCol c) = true := by
      obtain ⟨c, hc', hn⟩ := hmiss
      exact List.any_eq_true.mpr ⟨c, hc', by simp [hn]⟩
    rw [gen_df_detrend_eq_model]
    simp only [dfDetrend, hframe, hne', Bool.not_true, Bool.or_self, Bool.false_eq_true, if_false, ho, hany, if_true,
      Option.map_none, true_iff]
    exact Or.inr (Or.inr (Or.inr hmiss))
  have hcols : ∀ c ∈ selection (h.frame df) columns, (h.frame df).hasCol c = true := by
    intro c hc'
    by_contra hn
    exact hmiss ⟨c, hc', by simpa using hn⟩
  obtain ⟨g, hg, _⟩ := gen_df_detrend_spec polyfit hc h df columns order inplace suffix hframe hne' hwf (not_lt.mp ho) hcols
  rw [hg]
  simp only [reduceCtorEq, false_iff, not_or]
  exact ⟨by simp [hframe], by simp [hne'], ho, hmiss⟩

/-- **per column, orders ≥ 1** (transfer of the RmsGen theorems to what the wrapper stores): the column `out` stored for a numeric
    input column `x` (`polynomial_detrend(x, order) = some out`) is orthogonal to `1, t, …, t^d`, `d = min(order, len-1)`; it vanishes
    when `x` is a polynomial of degree ≤ d on the sample grid; and detrending it again returns it unchanged -/
theorem gen_df_detrend_column_props (polyfit : RmsGen.Polyfit) (hc : RmsGen.PolyfitLS polyfit) (x out : Arr ℝ) (hn : x.n ≠ 0)
    (order : ℤ) (ho : 1 ≤ order) (hout : Gen.polynomial_detrend polyfit x order = some out) :
    out.n = x.n ∧
    (∀ k ≤ RmsGen.effDeg x.n order, ∑ i ∈ range x.n, out.get i * (i : ℝ) ^ k = 0) ∧
    (∀ a : ℕ → ℝ, (∀ i < x.n, x.get i = ∑ k ∈ range (RmsGen.effDeg x.n order + 1), a k * (i : ℝ) ^ k) → ∀ i < x.n, out.get i = 0) ∧
    (∃ r', Gen.polynomial_detrend polyfit out order = some r' ∧ r'.n = out.n ∧ ∀ i < x.n, r'.get i = out.get i) := by
  obtain ⟨r, hr, hrn, horth⟩ := gen_detrend_orthogonal polyfit hc x hn order ho
  have e : r = out := by rw [hr] at hout; exact Option.some.inj hout
  subst e
  refine ⟨hrn, horth, ?_, ?_⟩
  · intro a ha
    obtain ⟨r2, hr2, hz⟩ := gen_detrend_kills_poly polyfit hc x hn order ho a ha
    have e2 : r2 = r := by rw [hr] at hr2; exact (Option.some.inj hr2).symm
    subst e2
    exact hz
  · obtain ⟨r1, r', h1, h2, hn', hid⟩ := gen_detrend_idempotent polyfit hc x hn order ho
    have e1 : r1 = r := by rw [hr] at h1; exact (Option.some.inj h1).symm
    subst e1
    exact ⟨r', h2, hn', hid⟩

/-- order 0 per column: the stored column is `x - mean(x)` (`Model.detrend0`) and sums to zero -/
theorem gen_df_detrend_column_order0 (polyfit : RmsGen.Polyfit) (x out : Arr ℝ) (hn : x.n ≠ 0)
    (hout : Gen.polynomial_detrend polyfit x 0 = some out) :
    Np.Rms.toList out = Model.detrend0 (Np.Rms.toList x) ∧ (Np.Rms.toList out).sum = 0 := by
  have h := gen_detrend0_eq_model polyfit x hn
  rw [hout, Option.map_some, Option.some.injEq] at h
  exact ⟨h, gen_detrend0_sum_zero polyfit x hn out hout⟩

/-- the defaults of the keyword parameters of `df_detrend`, as written in the source -/
theorem gen_df_detrend_defaults :
    Gen.df_detrend_columns_default = none ∧ Gen.df_detrend_order_default = 1 ∧
    Gen.df_detrend_inplace_default = false ∧ Gen.df_detrend_suffix_default = "_detrended" :=
  ⟨rfl, rfl, rfl, by decide⟩

/-! ### the hypotheses of the remaining theorems are satisfiable -/

/-- `gen_df_timeshift_zero` / `gen_df_timeshift_rejects_iff` / `gen_df_detrend_rejects_iff`: a well-formed non-empty frame, `fs > 0` -/
example : ∃ (h : Heap ℝ) (df : Ref) (f : ℝ), h.isFrame df = true ∧ (h.frame df).empty = false ∧ (h.frame df).WF ∧ 0 < f :=
  ⟨⟨[some exFrame]⟩, 0, 2, exFrame_facts.1, exFrame_facts.2.1, exFrame_facts.2.2.1, by norm_num⟩

/-- `DfSpec.rows_trunc`: one row cut at each end of a three-row frame -/
example : ∃ (g : Frame ℝ) (nt : ℤ), 0 < nt ∧ nt * 2 < (g.nrows : ℤ) := ⟨exFrame, 1, by norm_num, by norm_num [exFrame]⟩

/-- `gen_df_detrend_column_props`: a polyfit obeying the contract, a non-empty column, an order ≥ 1 and the stored result -/
example : ∃ (polyfit : RmsGen.Polyfit) (x out : Arr ℝ) (order : ℤ),
    RmsGen.PolyfitLS polyfit ∧ x.n ≠ 0 ∧ 1 ≤ order ∧ Gen.polynomial_detrend polyfit x order = some out := by
  obtain ⟨out, ho, _⟩ := detrendFn_ok RmsGen.lsPolyfit RmsGen.lsPolyfit_contract (⟨4, fun i => (i : ℝ) ^ 3⟩ : Arr ℝ) (by norm_num) 2 (by norm_num)
  exact ⟨RmsGen.lsPolyfit, _, out, 2, RmsGen.lsPolyfit_contract, by norm_num, by norm_num, ho⟩

/-- `gen_df_detrend_column_order0` -/
example : ∃ (polyfit : RmsGen.Polyfit) (x out : Arr ℝ), x.n ≠ 0 ∧ Gen.polynomial_detrend polyfit x 0 = some out := by
  obtain ⟨out, ho, _⟩ := detrendFn_ok RmsGen.lsPolyfit RmsGen.lsPolyfit_contract (⟨4, fun i => (i : ℝ) ^ 3⟩ : Arr ℝ) (by norm_num) 0 (by norm_num)
  exact ⟨RmsGen.lsPolyfit, _, out, by norm_num, ho⟩

/-- `gen_df_timeshift_column_interpolant`: a 60-sample column, `fs = 4`, `seconds = -3/8` (shift −1.5 samples), an interior sample and
    the stored result (the interpolating polynomial exists by Lagrange interpolation: `TimeShiftGen`'s own example covers `Interior`) -/
example : ∃ (col out : Arr ℝ) (f seconds : ℝ), 0 < f ∧ seconds ≠ 0 ∧ 2 ≤ col.n ∧
    Gen.timeshift col (NpTS.ofScalar (seconds * f)) 31 = some out := by
  obtain ⟨out, ho, _⟩ := shiftFn_ok (⟨60, fun i => (i : ℝ) ^ 2⟩ : Arr ℝ) ((-3 / 8 : ℝ) * 4) (by norm_num)
  exact ⟨_, out, 4, -3 / 8, by norm_num, by norm_num, by norm_num, ho⟩

#print axioms gen_df_timeshift_eq_model
#print axioms gen_df_detrend_eq_model
#print axioms gen_df_timeshift_spec
#print axioms gen_df_timeshift_input_untouched
#print axioms gen_df_timeshift_zero
#print axioms gen_df_timeshift_truncate_false_eq_true
#print axioms gen_df_timeshift_rejects_iff
#print axioms gen_df_timeshift_column_interpolant
#print axioms gen_df_timeshift_defaults
#print axioms gen_df_detrend_spec
#print axioms gen_df_detrend_input_untouched
#print axioms gen_df_detrend_rejects_iff
#print axioms gen_df_detrend_column_props
#print axioms gen_df_detrend_column_order0
#print axioms gen_df_detrend_defaults
#print axioms DfSpec.rows_trunc
#print axioms DfSpec.rows_empty
#print axioms DfAux.col?_setCol
#print axioms DfAux.names_setCol
