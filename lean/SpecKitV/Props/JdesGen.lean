/-
  Props/JdesGen — the machine-translated binary search `Gen.find_Jdes_binary_search`
  (speckit/utils.py:43-111) IS the hand model `Model.findJdes … 100 1000000`, for every count function
  on the naturals, every target and every fuel; soundness is proved directly on the generated loop for
  an arbitrary integer-valued count function (no monotonicity); completeness for a monotone count
  function is transferred from `findJdes_complete`, with a LOGARITHMIC fuel bound (20 iterations suffice
  for the range [100, 1000000], since 999901 < 2^20).
-/
import SpecKitV.RealInst
import SpecKitV.Gen.Utils
import SpecKitV.Model.Sched
import SpecKitV.Props.C04

set_option linter.unusedVariables false

namespace JdesGen

/-- loop state of the generated search: `(found__, lower, res__, upper)` -/
abbrev St := Bool × ℤ × ℤ × ℤ

/-- the loop condition `not found and lower <= upper` -/
def cond (s : St) : Bool := (!s.1) && decide (s.2.1 ≤ s.2.2.2)

/-- the loop body in normal form -/
def body (nf_of : ℤ → ℤ) (target : ℤ) (s : St) : St :=
  if nf_of (Int.fdiv (s.2.1 + s.2.2.2) 2) = target then
    (true, s.2.1, Int.fdiv (s.2.1 + s.2.2.2) 2, s.2.2.2)
  else if nf_of (Int.fdiv (s.2.1 + s.2.2.2) 2) < target then
    (s.1, Int.fdiv (s.2.1 + s.2.2.2) 2 + 1, s.2.2.1, s.2.2.2)
  else
    (s.1, s.2.1, s.2.2.1, Int.fdiv (s.2.1 + s.2.2.2) 2 - 1)

/-- what the generated function returns from the final loop state -/
def out (s : St) : Option ℤ := if s.1 then some s.2.2.1 else none

/-- the generated function in normal form -/
theorem gen_eq (nf_of : ℤ → ℤ) (target : ℤ) (fuel : ℕ) :
    Gen.find_Jdes_binary_search nf_of target fuel
      = out (whileFuel fuel cond (body nf_of target) (false, 100, 0, 1000000)).1 := by
  unfold Gen.find_Jdes_binary_search out
  have hb : (fun (ws1 : Bool × Int × Int × Int) =>
      let found__ := ws1.1
      let lower := ws1.2.1
      let res__ := ws1.2.2.1
      let upper := ws1.2.2.2
      let Jdes : Int := (Int.fdiv (((lower : Int) + (upper : Int)) : Int) (2 : Int))
      let nf : Int := (nf_of (Jdes : Int))
      let br3 :=
        if (decide ((nf : Int) = (target : Int))) then
          let found__ : Bool := true
          let res__ : Int := Jdes
          (found__, res__, lower, upper)
        else
          let br2 :=
            if (decide ((nf : Int) < (target : Int))) then
              let lower : Int := ((Jdes : Int) + (1 : Int))
              (lower, upper)
            else
              let upper : Int := ((Jdes : Int) - (1 : Int))
              (lower, upper)
          let lower := br2.1
          let upper := br2.2
          (found__, res__, lower, upper)
      let found__ := br3.1
      let res__ := br3.2.1
      let lower := br3.2.2.1
      let upper := br3.2.2.2
      (found__, lower, res__, upper)) = body nf_of target := by
    funext s
    unfold body
    by_cases h1 : nf_of (Int.fdiv (s.2.1 + s.2.2.2) 2) = target
    · simp [h1]
    · by_cases h2 : nf_of (Int.fdiv (s.2.1 + s.2.2.2) 2) < target
      · simp [h1, h2]
      · simp [h1, h2]
  simp only [hb]
  rfl

/-- a loop whose condition is already false returns its state -/
theorem whileFuel_stop {σ : Type} (n : ℕ) (c : σ → Bool) (b : σ → σ) (s : σ) (h : c s = false) :
    (whileFuel n c b s).1 = s := by
  cases n with
  | zero => rfl
  | succ k => simp [whileFuel, h]

theorem whileFuel_succ {σ : Type} (n : ℕ) (c : σ → Bool) (b : σ → σ) (s : σ) :
    whileFuel (n + 1) c b s = if c s then whileFuel n c b (b s) else (s, true) := rfl

/-! ### soundness, directly on the generated loop, for an arbitrary `nf_of : ℤ → ℤ` -/

/-- the loop invariant -/
def Inv (nf_of : ℤ → ℤ) (target : ℤ) (s : St) : Prop :=
  100 ≤ s.2.1 ∧ s.2.2.2 ≤ 1000000 ∧
    (s.1 = true → nf_of s.2.2.1 = target ∧ 100 ≤ s.2.2.1 ∧ s.2.2.1 ≤ 1000000)

theorem fdiv_two_bounds (a b : ℤ) (h : a ≤ b) :
    a ≤ Int.fdiv (a + b) 2 ∧ Int.fdiv (a + b) 2 ≤ b := by
  have e : Int.fdiv (a + b) 2 = (a + b) / 2 := Int.fdiv_eq_ediv_of_nonneg _ (by norm_num)
  rw [e]
  omega

theorem body_inv (nf_of : ℤ → ℤ) (target : ℤ) (s : St) (hc : cond s = true)
    (hi : Inv nf_of target s) : Inv nf_of target (body nf_of target s) := by
  obtain ⟨h1, h2, h3⟩ := hi
  simp only [cond, Bool.and_eq_true, Bool.not_eq_eq_eq_not, Bool.not_true, decide_eq_true_eq] at hc
  obtain ⟨hf, hle⟩ := hc
  obtain ⟨hb1, hb2⟩ := fdiv_two_bounds _ _ hle
  unfold body
  split_ifs with c1 c2
  · exact ⟨h1, h2, fun _ => ⟨c1, by simp only; omega, by simp only; omega⟩⟩
  · refine ⟨by simp only; omega, h2, fun h => ?_⟩
    simp only [hf] at h
    exact absurd h (by simp)
  · refine ⟨h1, by simp only; omega, fun h => ?_⟩
    simp only [hf] at h
    exact absurd h (by simp)

theorem whileFuel_inv (nf_of : ℤ → ℤ) (target : ℤ) (n : ℕ) (s : St) (hi : Inv nf_of target s) :
    Inv nf_of target (whileFuel n cond (body nf_of target) s).1 := by
  induction n generalizing s with
  | zero => exact hi
  | succ k ih =>
    rw [whileFuel_succ]
    by_cases hc : cond s = true
    · rw [if_pos hc]
      exact ih _ (body_inv nf_of target s hc hi)
    · rw [if_neg hc]
      exact hi

/-! ### simulation: generated loop = model search -/

theorem fdiv_cast (lo hi : ℕ) : Int.fdiv ((lo : ℤ) + (hi : ℤ)) 2 = (((lo + hi) / 2 : ℕ) : ℤ) := by
  rw [Int.fdiv_eq_ediv_of_nonneg _ (by norm_num)]
  push_cast
  rfl

theorem sim (nf : ℕ → ℕ) (target : ℕ) (n : ℕ) : ∀ (lo hi : ℕ) (r : ℤ),
    out (whileFuel n cond (body (fun J => ((nf J.toNat : ℕ) : ℤ)) (target : ℤ))
        (false, (lo : ℤ), r, (hi : ℤ))).1
      = (Model.findJdes nf target n lo hi).map (fun J => (J : ℤ)) := by
  induction n with
  | zero => intro lo hi r; rfl
  | succ k ih =>
    intro lo hi r
    rw [whileFuel_succ, findJdes_succ]
    by_cases h0 : lo ≤ hi
    · have hc : cond (false, (lo : ℤ), r, (hi : ℤ)) = true := by
        simp only [cond, Bool.not_false, Bool.true_and, decide_eq_true_eq]
        exact_mod_cast h0
      rw [if_pos hc, if_pos h0]
      have hb : body (fun J => ((nf J.toNat : ℕ) : ℤ)) (target : ℤ) (false, (lo : ℤ), r, (hi : ℤ))
          = if nf ((lo + hi) / 2) = target then (true, (lo : ℤ), (((lo + hi) / 2 : ℕ) : ℤ), (hi : ℤ))
            else if nf ((lo + hi) / 2) < target then (false, (((lo + hi) / 2 + 1 : ℕ) : ℤ), r, (hi : ℤ))
            else (false, (lo : ℤ), r, (((lo + hi) / 2 : ℕ) : ℤ) - 1) := by
        unfold body
        simp only [fdiv_cast, Int.toNat_natCast, Nat.cast_inj, Nat.cast_lt, Nat.cast_add,
          Nat.cast_one]
      rw [hb]
      by_cases h1 : nf ((lo + hi) / 2) = target
      · rw [if_pos h1, if_pos (beq_iff_eq.mpr h1)]
        rw [whileFuel_stop _ _ _ _ (by simp [cond])]
        rfl
      · rw [if_neg h1, if_neg (fun h => h1 (beq_iff_eq.mp h))]
        by_cases h2 : nf ((lo + hi) / 2) < target
        · rw [if_pos h2, if_pos h2]
          exact ih _ _ _
        · rw [if_neg h2, if_neg h2]
          by_cases h3 : (lo + hi) / 2 = 0
          · rw [if_pos (beq_iff_eq.mpr h3)]
            rw [whileFuel_stop _ _ _ _ (by
              simp only [cond, Bool.not_false, Bool.true_and, decide_eq_false_iff_not, h3]
              omega)]
            rfl
          · rw [if_neg (fun h => h3 (beq_iff_eq.mp h))]
            have e : ((((lo + hi) / 2 : ℕ) : ℤ) - 1) = (((lo + hi) / 2 - 1 : ℕ) : ℤ) := by omega
            rw [e]
            exact ih _ _ _
    · have hc : cond (false, (lo : ℤ), r, (hi : ℤ)) = false := by
        simp only [cond, Bool.not_false, Bool.true_and, decide_eq_false_iff_not]
        omega
      simp only [hc, Bool.false_eq_true, if_false, if_neg h0]
      rfl

/-! ### a logarithmic fuel bound for the model search -/

theorem findJdes_fuel_log (nf : ℕ → ℕ) (target : ℕ) (fuel : ℕ) :
    ∀ lo hi, hi + 1 - lo < 2 ^ fuel → ∀ extra : ℕ,
      Model.findJdes nf target (fuel + extra) lo hi = Model.findJdes nf target fuel lo hi := by
  induction fuel with
  | zero =>
    intro lo hi hlt extra
    have hh : ¬ lo ≤ hi := by simp only [pow_zero] at hlt; omega
    cases extra with
    | zero => rfl
    | succ e =>
      rw [show 0 + (e + 1) = e + 1 by omega, findJdes_succ, if_neg hh]
      rfl
  | succ n ih =>
    intro lo hi hlt extra
    have e : n + 1 + extra = (n + extra) + 1 := by omega
    rw [e, findJdes_succ, findJdes_succ]
    rw [pow_succ] at hlt
    by_cases h0 : lo ≤ hi
    · rw [if_pos h0, if_pos h0]
      by_cases h1 : (nf ((lo + hi) / 2) == target) = true
      · rw [if_pos h1, if_pos h1]
      · rw [if_neg h1, if_neg h1]
        by_cases h2 : nf ((lo + hi) / 2) < target
        · rw [if_pos h2, if_pos h2]
          exact ih _ _ (by omega) extra
        · rw [if_neg h2, if_neg h2]
          by_cases h3 : ((lo + hi) / 2 == 0) = true
          · rw [if_pos h3, if_pos h3]
          · rw [if_neg h3, if_neg h3]
            have h3' : (lo + hi) / 2 ≠ 0 := fun h => h3 (beq_iff_eq.mpr h)
            exact ih _ _ (by omega) extra
    · rw [if_neg h0, if_neg h0]

/-- for a monotone count function, `hi + 1 - lo < 2 ^ fuel` iterations decide the interval -/
theorem findJdes_complete_log (nf : ℕ → ℕ) (hmono : Monotone nf) (target fuel lo hi : ℕ)
    (hfuel : hi + 1 - lo < 2 ^ fuel) (h : Model.findJdes nf target fuel lo hi = none) :
    ∀ J, lo ≤ J → J ≤ hi → nf J ≠ target := by
  have h' : Model.findJdes nf target (fuel + (hi + 2)) lo hi = none := by
    rw [findJdes_fuel_log nf target fuel lo hi hfuel]; exact h
  exact findJdes_complete nf hmono target _ lo hi (by omega) h'

end JdesGen

open JdesGen

/-- generated = model (integers vs naturals) -/
theorem gen_findJdes_eq_model (nf : ℕ → ℕ) (target fuel : ℕ) :
    Gen.find_Jdes_binary_search (fun J => ((nf J.toNat : ℕ) : ℤ)) (target : ℤ) fuel
      = (Model.findJdes nf target fuel 100 1000000).map (fun J => (J : ℤ)) := by
  rw [gen_eq]
  exact sim nf target fuel 100 1000000 0

/-- soundness for ANY integer-valued count function: a returned Jdes has exactly the target count and
    lies in the search range -/
theorem gen_findJdes_sound (nf_of : ℤ → ℤ) (target : ℤ) (fuel : ℕ) (J : ℤ)
    (h : Gen.find_Jdes_binary_search nf_of target fuel = some J) :
    nf_of J = target ∧ 100 ≤ J ∧ J ≤ 1000000 := by
  rw [gen_eq] at h
  have hi := whileFuel_inv nf_of target fuel (false, 100, 0, 1000000)
    ⟨le_refl _, le_refl _, fun h => absurd h (by simp)⟩
  obtain ⟨_, _, h3⟩ := hi
  unfold out at h
  split_ifs at h with hf
  simp only [Option.some.injEq] at h
  subst h
  exact h3 hf

/-- completeness for a monotone count function with the LOGARITHMIC fuel bound `20 ≤ fuel`
    (the range [100, 1000000] has 999901 < 2^20 points) -/
theorem gen_findJdes_complete_log (nf : ℕ → ℕ) (hmono : Monotone nf) (target fuel : ℕ)
    (hfuel : 20 ≤ fuel)
    (J0 : ℕ) (h0 : 100 ≤ J0 ∧ J0 ≤ 1000000) (hJ0 : nf J0 = target) :
    ∃ J, Gen.find_Jdes_binary_search (fun J => ((nf J.toNat : ℕ) : ℤ)) (target : ℤ) fuel = some J
      ∧ nf J.toNat = target := by
  rw [gen_findJdes_eq_model]
  cases hm : Model.findJdes nf target fuel 100 1000000 with
  | none =>
    have hp : 1000000 + 1 - 100 < 2 ^ fuel :=
      lt_of_lt_of_le (by norm_num) (Nat.pow_le_pow_right (by norm_num : 0 < 2) hfuel)
    exact absurd hJ0 (findJdes_complete_log nf hmono target fuel 100 1000000 hp hm J0 h0.1 h0.2)
  | some J =>
    refine ⟨(J : ℤ), rfl, ?_⟩
    rw [Int.toNat_natCast]
    exact (findJdes_sound nf target fuel 100 1000000 J hm).1

/-- completeness for a monotone count function, given enough fuel -/
theorem gen_findJdes_complete (nf : ℕ → ℕ) (hmono : Monotone nf) (target fuel : ℕ) (hfuel : 64 ≤ fuel)
    (J0 : ℕ) (h0 : 100 ≤ J0 ∧ J0 ≤ 1000000) (hJ0 : nf J0 = target) :
    ∃ J, Gen.find_Jdes_binary_search (fun J => ((nf J.toNat : ℕ) : ℤ)) (target : ℤ) fuel = some J
      ∧ nf J.toNat = target :=
  gen_findJdes_complete_log nf hmono target fuel (by omega) J0 h0 hJ0

#print axioms gen_findJdes_eq_model
#print axioms gen_findJdes_sound
#print axioms gen_findJdes_complete_log
#print axioms gen_findJdes_complete
