/-
  Props/Utils — the scalar utilities translated from utils.py are the hand-model functions the scheduler and
  window theorems talk about (so those theorems are about the code that exists).
-/
import SpecKitV.RealInst
import SpecKitV.Gen.Utils
import SpecKitV.Model.Sched
import SpecKitV.Model.Analyzer
import SpecKitV.Lemmas.Starts

/-- translated `utils.round_half_up` is the model's rounding, hence ⌊v + 1/2⌋ -/
theorem gen_round_half_up_eq_model (v : ℝ) : Gen.round_half_up v = Model.roundHalfUp v := by
  unfold Gen.round_half_up Model.roundHalfUp
  simp only [RealLike.ge, RealLike.le]

theorem gen_round_half_up_eq_floor (v : ℝ) : Gen.round_half_up v = ⌊v + 1 / 2⌋ := by
  rw [gen_round_half_up_eq_model, roundHalfUp_eq]

/-- translated `utils.kaiser_alpha` is the cubic used by the window model -/
theorem gen_kaiser_alpha_eq_model (p : ℝ) : Gen.kaiser_alpha p = Model.kaiserAlpha p := by
  unfold Gen.kaiser_alpha Model.kaiserAlpha
  rfl

#print axioms gen_round_half_up_eq_model
#print axioms gen_round_half_up_eq_floor
#print axioms gen_kaiser_alpha_eq_model
