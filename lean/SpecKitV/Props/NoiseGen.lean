/-
  Props/NoiseGen — the machine-translated IIR cascade `Gen._numba_lfilter_cascade` and coefficient design
  `Gen._calc_filter_coeffs` (from speckit/noise.py) ARE the hand models `Model.cascadeRun` /
  `Model.filterCoeffs`, so the chunking / continuity theorems of `Lemmas/Chunking.lean` are theorems
  about the code as translated.

  Structure: the generated loops are definitionally `forRange` over explicit bodies (`innerBody`,
  `outerBody`; `gen_cascade_unfold` is `rfl`).  `inner_inv` is the loop invariant of the sample loop
  (after k steps: length unchanged, indices ≥ k untouched, indices < k and the carried state are the
  model's `sectionRun` on the first k samples), `outer_inv` the invariant of the section loop (after k
  sections: the array is the model cascade over the first k sections, rows ≥ k of the state matrix are
  untouched — so the state read in iteration k is the ORIGINAL one — and column 0 of rows < k holds the
  model's final states).  Everything about the cascade is structural and proved for every `[RealLike α]`;
  the hypotheses `b.n = a.n`, `zi.n = a.n` of the main theorems are not needed (arrays are total index
  functions) and are kept only because the statements were fixed.
-/
import SpecKitV.RealInst
import SpecKitV.Gen.Noise
import SpecKitV.Model.Noise
import SpecKitV.Lemmas.Chunking

set_option linter.unusedVariables false

/-- list view of an array -/
def Arr.toList {α : Type} (a : Arr α) : List α := (List.range a.n).map a.get
/-- the sections described by the coefficient/state matrices: row i = (a0, a1), (b0, b1), state zi[i,0] -/
def sectionsOf {α : Type} (a b zi : Arr2 α) : List (Model.Section α) :=
  (List.range a.n).map (fun i => { a0 := a.get i 0, a1 := a.get i 1, b1 := b.get i 1, z := zi.get i 0 })

/-! ### coefficient design -/

theorem gen_filter_coeffs_eq_model (fmin fmax fs : ℝ) :
    Gen._calc_filter_coeffs fmin fmax fs = Model.filterCoeffs fs fmin fmax := by
  unfold Gen._calc_filter_coeffs Model.filterCoeffs
  simp only [RL.ofSci_eq, RL.ofInt_eq, RL.pi_eq]
  norm_num

namespace NoiseGen
variable {α : Type} [RealLike α]

/-! ### model-side helpers -/

/-- cascade over `l ++ [s]`: run `l`, then the last section on its output -/
theorem cascadeRun_snoc (l : List (Model.Section α)) (s : Model.Section α) (xs : List α) :
    Model.cascadeRun (l ++ [s]) xs
      = ((Model.sectionRun s.a0 s.a1 s.b1 s.z (Model.cascadeRun l xs).1).1,
         (Model.cascadeRun l xs).2
           ++ [{ s with z := (Model.sectionRun s.a0 s.a1 s.b1 s.z (Model.cascadeRun l xs).1).2 }]) := by
  induction l generalizing xs with
  | nil => rfl
  | cons t l ih => rw [List.cons_append, Model.cascadeRun_cons, ih, Model.cascadeRun_cons]; rfl

/-- the cascade never changes the coefficients of the sections -/
theorem cascadeRun_coeffs (l : List (Model.Section α)) (xs : List α) :
    (Model.cascadeRun l xs).2.map (fun s => (s.a0, s.a1, s.b1)) = l.map (fun s => (s.a0, s.a1, s.b1)) := by
  induction l generalizing xs with
  | nil => rfl
  | cons t l ih => rw [Model.cascadeRun_cons, List.map_cons, List.map_cons, ih]

theorem cascadeRun_states_length (l : List (Model.Section α)) (xs : List α) :
    (Model.cascadeRun l xs).2.length = l.length := by
  induction l generalizing xs with
  | nil => rfl
  | cons t l ih => rw [Model.cascadeRun_cons, List.length_cons, List.length_cons, ih]

omit [RealLike α] in
/-- a list of sections is determined by its coefficients and its states -/
theorem sections_ext (l1 l2 : List (Model.Section α))
    (hc : l1.map (fun s => (s.a0, s.a1, s.b1)) = l2.map (fun s => (s.a0, s.a1, s.b1)))
    (hz : l1.map (fun s => s.z) = l2.map (fun s => s.z)) : l1 = l2 := by
  induction l1 generalizing l2 with
  | nil =>
    cases l2 with
    | nil => rfl
    | cons t l2 => simp at hc
  | cons s l1 ih =>
    cases l2 with
    | nil => simp at hc
    | cons t l2 =>
      simp only [List.map_cons, List.cons.injEq, Prod.mk.injEq] at hc hz
      obtain ⟨⟨h0, h1, h2⟩, hc⟩ := hc
      obtain ⟨h3, hz⟩ := hz
      rw [ih l2 hc hz]
      cases s; cases t
      simp only at h0 h1 h2 h3
      subst h0 h1 h2 h3
      rfl

/-! ### the generated loops as `forRange` over explicit bodies -/

/-- body of the sample loop (noise.py:119-126) -/
def innerBody (a0 a1 b1 : α) (j : ℕ) (st : Arr α × α) : Arr α × α :=
  let y := a0 * st.1.get j + st.2
  (Arr.set st.1 j y, a1 * st.1.get j - b1 * y)

/-- body of the section loop -/
def outerBody (a b : Arr2 α) (i : ℕ) (st : Arr α × Arr2 α) : Arr α × Arr2 α :=
  let r := forRange st.1.n (st.1, st.2.get i 0) (innerBody (a.get i 0) (a.get i 1) (b.get i 1))
  (r.1, Arr2.set st.2 i 0 r.2)

theorem gen_cascade_unfold (samples : Arr α) (a b zi : Arr2 α) :
    Gen._numba_lfilter_cascade samples a b zi = forRange a.n (samples, zi) (outerBody a b) := rfl

/-! ### sample loop -/

theorem inner_inv (a0 a1 b1 z : α) (x : Arr α) (k : ℕ) :
    (forRange k (x, z) (innerBody a0 a1 b1)).1.n = x.n ∧
    (∀ j, k ≤ j → (forRange k (x, z) (innerBody a0 a1 b1)).1.get j = x.get j) ∧
    ((List.range k).map (forRange k (x, z) (innerBody a0 a1 b1)).1.get,
      (forRange k (x, z) (innerBody a0 a1 b1)).2)
      = Model.sectionRun a0 a1 b1 z ((List.range k).map x.get) := by
  induction k with
  | zero => rw [forRange_zero]; exact ⟨rfl, fun _ _ => rfl, rfl⟩
  | succ k ih =>
    rw [forRange_succ]
    generalize forRange k (x, z) (innerBody a0 a1 b1) = r at ih ⊢
    obtain ⟨hn, hge, hrun⟩ := ih
    refine ⟨hn, ?_, ?_⟩
    · intro j hj
      show (if j = k then _ else r.1.get j) = _
      rw [if_neg (by omega), hge j (by omega)]
    · have hlt : (List.range k).map (innerBody a0 a1 b1 k r).1.get = (List.range k).map r.1.get := by
        apply List.map_congr_left
        intro j hj
        have : j ≠ k := by have := List.mem_range.1 hj; omega
        show (if j = k then _ else r.1.get j) = _
        rw [if_neg this]
      have hk : (innerBody a0 a1 b1 k r).1.get k = a0 * x.get k + r.2 := by
        show (if k = k then a0 * r.1.get k + r.2 else _) = _
        rw [if_pos rfl, hge k (le_refl k)]
      have h2 : (innerBody a0 a1 b1 k r).2 = a1 * x.get k - b1 * (a0 * x.get k + r.2) := by
        show a1 * r.1.get k - b1 * (a0 * r.1.get k + r.2) = _
        rw [hge k (le_refl k)]
      rw [List.range_succ, List.map_append, List.map_append, Model.sectionRun_append, ← hrun, hlt,
        List.map_cons, List.map_nil, List.map_cons, List.map_nil, hk, h2]
      rfl

/-- inner loop over the whole block, generic version -/
theorem section_loop (a0 a1 b1 z : α) (x : Arr α) :
    ((forRange x.n (x, z) (innerBody a0 a1 b1)).1.toList, (forRange x.n (x, z) (innerBody a0 a1 b1)).2)
      = Model.sectionRun a0 a1 b1 z x.toList ∧
    (forRange x.n (x, z) (innerBody a0 a1 b1)).1.n = x.n := by
  obtain ⟨hn, _, hrun⟩ := inner_inv a0 a1 b1 z x x.n
  refine ⟨?_, hn⟩
  unfold Arr.toList
  rw [hn]
  exact hrun

/-! ### section loop -/

/-- the first `k` sections described by the matrices -/
def secsUpTo (a b zi : Arr2 α) (k : ℕ) : List (Model.Section α) :=
  (List.range k).map (fun i => { a0 := a.get i 0, a1 := a.get i 1, b1 := b.get i 1, z := zi.get i 0 })

theorem outer_inv (samples : Arr α) (a b zi : Arr2 α) (k : ℕ) :
    (forRange k (samples, zi) (outerBody a b)).1.toList
        = (Model.cascadeRun (secsUpTo a b zi k) samples.toList).1 ∧
    (forRange k (samples, zi) (outerBody a b)).1.n = samples.n ∧
    (∀ i l, k ≤ i → (forRange k (samples, zi) (outerBody a b)).2.get i l = zi.get i l) ∧
    (List.range k).map (fun i => (forRange k (samples, zi) (outerBody a b)).2.get i 0)
        = (Model.cascadeRun (secsUpTo a b zi k) samples.toList).2.map (fun s => s.z) := by
  induction k with
  | zero => rw [forRange_zero]; exact ⟨rfl, rfl, fun _ _ _ => rfl, rfl⟩
  | succ k ih =>
    rw [forRange_succ]
    generalize forRange k (samples, zi) (outerBody a b) = r at ih ⊢
    obtain ⟨hout, hn, hge, hst⟩ := ih
    have hsecs : secsUpTo a b zi (k + 1) = secsUpTo a b zi k
        ++ [{ a0 := a.get k 0, a1 := a.get k 1, b1 := b.get k 1, z := zi.get k 0 }] := by
      unfold secsUpTo
      rw [List.range_succ, List.map_append]
      rfl
    have hz0 : r.2.get k 0 = zi.get k 0 := hge k 0 (le_refl k)
    obtain ⟨hrun, hn'⟩ := section_loop (a.get k 0) (a.get k 1) (b.get k 1) (zi.get k 0) r.1
    rw [hout] at hrun
    have h1 : (outerBody a b k r).1
        = (forRange r.1.n (r.1, zi.get k 0) (innerBody (a.get k 0) (a.get k 1) (b.get k 1))).1 := by
      rw [← hz0]; rfl
    have h2 : (outerBody a b k r).2 = Arr2.set r.2 k 0
        (forRange r.1.n (r.1, zi.get k 0) (innerBody (a.get k 0) (a.get k 1) (b.get k 1))).2 := by
      rw [← hz0]; rfl
    rw [hsecs, cascadeRun_snoc, h1, h2]
    generalize forRange r.1.n (r.1, zi.get k 0) (innerBody (a.get k 0) (a.get k 1) (b.get k 1)) = q
      at hrun hn' ⊢
    have hq1 := congrArg Prod.fst hrun
    have hq2 := congrArg Prod.snd hrun
    dsimp only at hq1 hq2 ⊢
    refine ⟨hq1, hn'.trans hn, ?_, ?_⟩
    · intro i l hi
      show (if i = k ∧ l = 0 then _ else r.2.get i l) = _
      rw [if_neg (by omega), hge i l (by omega)]
    · have hlt : (List.range k).map (fun i => (Arr2.set r.2 k 0 q.2).get i 0)
          = (List.range k).map (fun i => r.2.get i 0) := by
        apply List.map_congr_left
        intro j hj
        have : j ≠ k := by have := List.mem_range.1 hj; omega
        show (if j = k ∧ 0 = 0 then _ else r.2.get j 0) = _
        rw [if_neg (fun h => this h.1)]
      have hk : (Arr2.set r.2 k 0 q.2).get k 0 = q.2 := by
        show (if k = k ∧ 0 = 0 then q.2 else _) = _
        rw [if_pos ⟨rfl, rfl⟩]
      rw [List.range_succ, List.map_append, hlt, hst, List.map_append, List.map_cons, List.map_nil,
        List.map_cons, List.map_nil, hk, hq2]

/-- generic core: outputs, length, final states (as a list) and coefficients -/
theorem cascade_core (samples : Arr α) (a b zi : Arr2 α) :
    (Gen._numba_lfilter_cascade samples a b zi).1.toList
        = (Model.cascadeRun (sectionsOf a b zi) samples.toList).1 ∧
    (Gen._numba_lfilter_cascade samples a b zi).1.n = samples.n ∧
    (List.range a.n).map (fun i => (Gen._numba_lfilter_cascade samples a b zi).2.get i 0)
        = (Model.cascadeRun (sectionsOf a b zi) samples.toList).2.map (fun s => s.z) := by
  obtain ⟨h1, h2, _, h4⟩ := outer_inv samples a b zi a.n
  exact ⟨h1, h2, h4⟩

/-- the sections described by the ORIGINAL coefficients and the RETURNED state matrix are the model's
    final sections -/
theorem sectionsOf_final (samples : Arr α) (a b zi : Arr2 α) :
    sectionsOf a b (Gen._numba_lfilter_cascade samples a b zi).2
      = (Model.cascadeRun (sectionsOf a b zi) samples.toList).2 := by
  apply sections_ext
  · rw [cascadeRun_coeffs]
    unfold sectionsOf
    rw [List.map_map, List.map_map]
    rfl
  · rw [← (cascade_core samples a b zi).2.2]
    unfold sectionsOf
    rw [List.map_map]
    rfl

omit [RealLike α] in
theorem toList_concat (s1 s2 : Arr α) :
    (⟨s1.n + s2.n, fun k => if k < s1.n then s1.get k else s2.get (k - s1.n)⟩ : Arr α).toList
      = s1.toList ++ s2.toList := by
  unfold Arr.toList
  show (List.range (s1.n + s2.n)).map _ = _
  rw [List.range_add, List.map_append, List.map_map]
  congr 1
  · apply List.map_congr_left
    intro j hj
    show (if j < s1.n then _ else _) = _
    rw [if_pos (List.mem_range.1 hj)]
  · apply List.map_congr_left
    intro j hj
    show (if s1.n + j < s1.n then _ else s2.get (s1.n + j - s1.n)) = _
    rw [if_neg (by omega), Nat.add_sub_cancel_left]

omit [RealLike α] in
/-- states as `getD` from the list form -/
theorem state_getD (n : ℕ) (f : ℕ → α) (l : List (Model.Section α)) (d : Model.Section α)
    (h : (List.range n).map f = l.map (fun s => s.z)) (i : ℕ) (hi : i < n) :
    f i = (l.getD i d).z := by
  have h' := congrArg (fun l => l[i]?) h
  simp only [List.getElem?_map, List.getElem?_range hi, Option.map_some] at h'
  rw [List.getD_eq_getElem?_getD]
  cases hl : l[i]? with
  | none => rw [hl] at h'; simp at h'
  | some s => rw [hl] at h'; simpa using h'

end NoiseGen

open NoiseGen

/-! ### main theorems -/

/-- inner loop: one section over the whole block = `Model.sectionRun` -/
theorem gen_section_loop (a0 a1 b1 z : ℝ) (x : Arr ℝ) :
    let r := forRange x.n (x, z) (fun j (st : Arr ℝ × ℝ) =>
        let y := a0 * st.1.get j + st.2
        (Arr.set st.1 j y, a1 * st.1.get j - b1 * y))
    (r.1.toList, r.2) = Model.sectionRun a0 a1 b1 z x.toList ∧ r.1.n = x.n :=
  section_loop a0 a1 b1 z x

/-- the generated cascade equals the model cascade: same output samples, same final states -/
theorem gen_cascade_eq_model (samples : Arr ℝ) (a b zi : Arr2 ℝ) (hb : b.n = a.n) (hz : zi.n = a.n) :
    let g := Gen._numba_lfilter_cascade samples a b zi
    let m := Model.cascadeRun (sectionsOf a b zi) samples.toList
    g.1.toList = m.1 ∧ g.1.n = samples.n ∧
    (∀ i < a.n, g.2.get i 0 = (m.2.getD i ⟨0, 0, 0, 0⟩).z) ∧
    m.2.map (fun s => (s.a0, s.a1, s.b1)) = (sectionsOf a b zi).map (fun s => (s.a0, s.a1, s.b1)) := by
  intro g m
  obtain ⟨h1, h2, h3⟩ := cascade_core samples a b zi
  exact ⟨h1, h2, fun i hi => state_getD a.n (fun i => g.2.get i 0) m.2 _ h3 i hi,
    cascadeRun_coeffs _ _⟩

/-- hence chunk invariance of the GENERATED cascade -/
theorem gen_cascade_chunking (s1 s2 : Arr ℝ) (a b zi : Arr2 ℝ) (hb : b.n = a.n) (hz : zi.n = a.n) :
    let whole : Arr ℝ := ⟨s1.n + s2.n, fun k => if k < s1.n then s1.get k else s2.get (k - s1.n)⟩
    let g1 := Gen._numba_lfilter_cascade s1 a b zi
    let g2 := Gen._numba_lfilter_cascade s2 a b g1.2
    let gw := Gen._numba_lfilter_cascade whole a b zi
    gw.1.toList = g1.1.toList ++ g2.1.toList ∧ ∀ i < a.n, gw.2.get i 0 = g2.2.get i 0 := by
  intro whole g1 g2 gw
  obtain ⟨w1, _, w3⟩ := cascade_core whole a b zi
  obtain ⟨p1, _, _⟩ := cascade_core s1 a b zi
  obtain ⟨q1, _, q3⟩ := cascade_core s2 a b g1.2
  have hfin : sectionsOf a b g1.2 = (Model.cascadeRun (sectionsOf a b zi) s1.toList).2 :=
    sectionsOf_final s1 a b zi
  have hwl : whole.toList = s1.toList ++ s2.toList := toList_concat s1 s2
  rw [hwl, Model.cascadeRun_append] at w1 w3
  rw [hfin] at q1 q3
  refine ⟨?_, ?_⟩
  · show gw.1.toList = g1.1.toList ++ g2.1.toList
    rw [w1, p1, q1]
  · intro i hi
    have e1 := state_getD a.n (fun i => gw.2.get i 0) _ ⟨0, 0, 0, 0⟩ w3 i hi
    have e2 := state_getD a.n (fun i => g2.2.get i 0) _ ⟨0, 0, 0, 0⟩ q3 i hi
    exact e1.trans e2.symm

#print axioms gen_filter_coeffs_eq_model
#print axioms gen_section_loop
#print axioms gen_cascade_eq_model
#print axioms gen_cascade_chunking

