/-
  SpecKitV.Props.C04 — monotone resolution, the count formula, even spreading of the segment
  starts, the reported overlap, and the search that forces a target number of bins.
-/
import SpecKitV.Props.C03

set_option linter.unusedVariables false

open PlanC02 PlanC03

/-- along the iterative LTF/LPSD plan L never increases and K never decreases -/
theorem ltfPlan_monotone (c : Model.Cfg ℝ) (h : Adm c) (extra : ℕ) :
    (Model.ltfPlan c (c.N + extra)).Pairwise (fun a b => b.L ≤ a.L ∧ a.K ≤ b.K) := by
  rw [ltfPlan_map, ltf_walk_fuel c h extra, List.pairwise_map]
  refine (ltf_walk_pairwise c h).imp_of_mem ?_
  intro a b ha hb hab
  obtain ⟨hsa, _, hpa, _⟩ := ltf_entry c h a ha
  obtain ⟨hsb, _, _, _⟩ := ltf_entry c h b hb
  have hm := ltfStep_mono c h a.1 b.1 hpa hab.le
  rw [← hsa, ← hsb] at hm
  exact hm

/-- the same for the LPSD plan (it is the LTF plan of the modified configuration) -/
theorem lpsdPlan_monotone (c : Model.Cfg ℝ) (h : Adm c) (extra : ℕ) :
    (Model.lpsdPlan c (c.N + extra)).Pairwise (fun a b => b.L ≤ a.L ∧ a.K ≤ b.K) :=
  ltfPlan_monotone { c with bmin := RealLike.one, Lmin := 1 } (adm_lpsd h) extra

/-- the number of averages is the nearest integer (ties up) to 1+(N−L)/((1−olap)L), capped at N−L+1 -/
theorem ltfPlan_K_formula (c : Model.Cfg ℝ) (h : Adm c) (extra : ℕ) :
    ∀ b ∈ Model.ltfPlan c (c.N + extra), b.K = min (⌊((c.N : ℝ) - b.L) / ((1 - c.olap) * b.L) + 1 + 1 / 2⌋) ((c.N : ℤ) - b.L + 1) := by
  rw [ltfPlan_map, ltf_walk_fuel c h extra]
  intro b hb
  obtain ⟨e, he, rfl⟩ := List.mem_map.mp hb
  obtain ⟨hstep, _, hpos, _⟩ := ltf_entry c h e he
  have hK := (ltfStep_K c h e.1 hpos).2.2.2
  rw [← hstep] at hK
  show e.2.2.2.2 = _
  rw [hK, SchedLtf.capK_eq, nsegRaw_eq]
  rfl

/-- the same count formula for the LPSD plan -/
theorem lpsdPlan_K_formula (c : Model.Cfg ℝ) (h : Adm c) (extra : ℕ) :
    ∀ b ∈ Model.lpsdPlan c (c.N + extra), b.K = min (⌊((c.N : ℝ) - b.L) / ((1 - c.olap) * b.L) + 1 + 1 / 2⌋) ((c.N : ℤ) - b.L + 1) :=
  ltfPlan_K_formula { c with bmin := RealLike.one, Lmin := 1 } (adm_lpsd h) extra

/-- segments are spread evenly: each start within half a sample of its ideal position (all four schedulers) -/
theorem plan_even_spread (c : Model.Cfg ℝ) (h : Adm c) (extra : ℕ) :
    ∀ l ∈ [Model.ltfPlan c (c.N + extra), Model.lpsdPlan c (c.N + extra), Model.newPlan c (c.N + extra), Model.vecPlan c (c.N + extra)],
    ∀ b ∈ l, 2 ≤ b.K → ∀ i (hi : i < b.D.length),
      |((b.D.get ⟨i, hi⟩ : ℤ) : ℝ) - i * (((c.N : ℝ) - b.L) / ((b.K : ℝ) - 1))| ≤ 1 / 2 := by
  intro l hl
  simp only [List.mem_cons, List.mem_nil_iff, or_false] at hl
  rcases hl with rfl | rfl | rfl | rfl
  · exact fun b hb => ((ltfPlan_full c h extra).2 b hb).2.1
  · exact fun b hb => ((lpsdPlan_full c h extra).2 b hb).2.1
  · exact fun b hb => ((newPlan_full c h extra).2 b hb).2.1
  · exact fun b hb => (vecPlan_full c h _ b hb).2.1

/-- the reported overlap is the realised mean overlap of the starts (closed form = mean of (L − diff)/L), 0 for one segment -/
theorem plan_overlap_reported (c : Model.Cfg ℝ) (h : Adm c) (extra : ℕ) :
    ∀ l ∈ [Model.ltfPlan c (c.N + extra), Model.lpsdPlan c (c.N + extra), Model.newPlan c (c.N + extra), Model.vecPlan c (c.N + extra)],
    ∀ b ∈ l, b.O = Model.overlapMean (α := ℝ) b.L b.D ∧ (b.K = 1 → b.O = 0) ∧
             (2 ≤ b.K → b.O = ((b.L : ℝ) - ((c.N : ℝ) - b.L) / ((b.K : ℝ) - 1)) / b.L) := by
  intro l hl
  simp only [List.mem_cons, List.mem_nil_iff, or_false] at hl
  rcases hl with rfl | rfl | rfl | rfl
  · exact fun b hb => ((ltfPlan_full c h extra).2 b hb).2.2
  · exact fun b hb => ((lpsdPlan_full c h extra).2 b hb).2.2
  · exact fun b hb => ((newPlan_full c h extra).2 b hb).2.2
  · exact fun b hb => (vecPlan_full c h _ b hb).2.2

/-- the reported overlap is always `< 1` (it may be negative: when the count is small the
    spacing `(N−L)/(K−1)` can exceed `L`, i.e. the segments leave gaps) -/
theorem plan_overlap_lt_one (c : Model.Cfg ℝ) (h : Adm c) (extra : ℕ) :
    ∀ l ∈ [Model.ltfPlan c (c.N + extra), Model.lpsdPlan c (c.N + extra), Model.newPlan c (c.N + extra), Model.vecPlan c (c.N + extra)],
    ∀ b ∈ l, b.O < 1 := by
  intro l hl b hb
  have hfull : BinFull c.N 1 b ∨ BinFull c.N c.Lmin b := by
    simp only [List.mem_cons, List.mem_nil_iff, or_false] at hl
    rcases hl with rfl | rfl | rfl | rfl
    · exact Or.inr ((ltfPlan_full c h extra).2 b hb)
    · exact Or.inl ((lpsdPlan_full c h extra).2 b hb)
    · exact Or.inr ((newPlan_full c h extra).2 b hb)
    · exact Or.inr (vecPlan_full c h _ b hb)
  have key : ∀ m, BinFull c.N m b → b.O < 1 := by
    intro m hf
    obtain ⟨hs, _, _, h1, h2⟩ := hf
    obtain ⟨hL, hLN, hK1, _, _, _, _, _, _, hKL⟩ := hs
    by_cases hK : b.K = 1
    · rw [h1 hK]; norm_num
    · have hK2 : 2 ≤ b.K := by omega
      rw [h2 hK2]
      have hL1 : 1 ≤ b.L := le_trans (le_max_left _ _) hL
      have hLr : (0 : ℝ) < (b.L : ℝ) := by exact_mod_cast hL1
      have hKr : (0 : ℝ) < (b.K : ℝ) - 1 := by
        have : ((2 : ℤ) : ℝ) ≤ (b.K : ℝ) := by exact_mod_cast hK2
        push_cast at this; linarith
      have hNL : b.L < c.N := by
        rcases Nat.lt_or_ge b.L c.N with hlt | hge
        · exact hlt
        · -- L = N would force the capped count to 1
          exfalso
          obtain ⟨_, _, _, _, hlen, hhead, hlast, hpw, _, _⟩ :
            BinSafe c.N m b := ⟨hL, hLN, hK1, by assumption, by assumption, by assumption,
              by assumption, by assumption, by assumption, hKL⟩
          have hLeq : b.L = c.N := le_antisymm hLN hge
          -- first and last start coincide although there are ≥ 2 strictly increasing starts
          match hD : b.D, hlen, hhead, hlast, hpw with
          | [], hlen, _, _, _ => simp at hlen; omega
          | [d], hlen, _, _, _ => simp at hlen; omega
          | d0 :: d1 :: t, _, hhead, hlast, hpw =>
            simp only [List.head?_cons, Option.some.injEq] at hhead
            rw [List.getLast?_cons_cons] at hlast
            have hmem : ((c.N : ℤ) - b.L) ∈ d1 :: t := List.mem_of_getLast? hlast
            have := (List.pairwise_cons.mp hpw).1 _ hmem
            rw [hhead, hLeq] at this
            omega
      have hNLr : (0 : ℝ) < (c.N : ℝ) - b.L := by
        have : (b.L : ℝ) < (c.N : ℝ) := by exact_mod_cast hNL
        linarith
      rw [div_lt_one hLr]
      have : 0 < ((c.N : ℝ) - b.L) / ((b.K : ℝ) - 1) := div_pos hNLr hKr
      linarith
  rcases hfull with hf | hf
  · exact key _ hf
  · exact key _ hf

/-! ### forcing a target count -/

theorem findJdes_succ (nf : ℕ → ℕ) (target n lo hi : ℕ) :
    Model.findJdes nf target (n + 1) lo hi =
      if lo ≤ hi then
        if (nf ((lo + hi) / 2) == target) = true then some ((lo + hi) / 2)
        else if nf ((lo + hi) / 2) < target then Model.findJdes nf target n ((lo + hi) / 2 + 1) hi
        else if ((lo + hi) / 2 == 0) = true then none
        else Model.findJdes nf target n lo ((lo + hi) / 2 - 1)
      else none := rfl

/-- forcing a target count: the search returns some J only if the plan built with J has exactly the target number of bins -/
theorem findJdes_sound (nf : ℕ → ℕ) (target fuel lo hi J : ℕ) (h : Model.findJdes nf target fuel lo hi = some J) : nf J = target ∧ lo ≤ J ∧ J ≤ hi := by
  induction fuel generalizing lo hi with
  | zero => exact absurd h (by simp [Model.findJdes])
  | succ n ih =>
    rw [findJdes_succ] at h
    split_ifs at h with h0 h1 h2 h3
    · simp only [Option.some.injEq] at h
      subst h
      exact ⟨beq_iff_eq.mp h1, by omega, by omega⟩
    · have := ih _ _ h
      omega
    · have := ih _ _ h
      omega

theorem findJdes_fuel_gen (nf : ℕ → ℕ) (target : ℕ) (fuel : ℕ) :
    ∀ lo hi, hi + 1 - lo < fuel → ∀ extra : ℕ,
      Model.findJdes nf target (fuel + extra) lo hi = Model.findJdes nf target fuel lo hi := by
  induction fuel with
  | zero => intro lo hi hlt; omega
  | succ n ih =>
    intro lo hi hlt extra
    have e : n + 1 + extra = (n + extra) + 1 := by omega
    rw [e, findJdes_succ, findJdes_succ]
    by_cases h0 : lo ≤ hi
    · rw [if_pos h0, if_pos h0]
      by_cases h1 : (nf ((lo + hi) / 2) == target) = true
      · rw [if_pos h1, if_pos h1]
      · rw [if_neg h1, if_neg h1]
        by_cases h2 : nf ((lo + hi) / 2) < target
        · rw [if_pos h2, if_pos h2]
          exact ih _ _ (by omega) extra
        · rw [if_neg h2, if_neg h2]
          by_cases h3 : ((lo + hi) / 2 == 0) = true
          · rw [if_pos h3, if_pos h3]
          · rw [if_neg h3, if_neg h3]
            have h3' : (lo + hi) / 2 ≠ 0 := fun hh => h3 (beq_iff_eq.mpr hh)
            exact ih _ _ (by omega) extra
    · rw [if_neg h0, if_neg h0]

/-- and it terminates within log₂ of the range: with fuel ≥ hi − lo + 2 running out of fuel is impossible to distinguish from exhausting the interval -/
theorem findJdes_fuel (nf : ℕ → ℕ) (target lo hi : ℕ) (extra : ℕ) :
    Model.findJdes nf target (hi - lo + 2 + extra) lo hi = Model.findJdes nf target (hi - lo + 2) lo hi :=
  findJdes_fuel_gen nf target (hi - lo + 2) lo hi (by omega) extra

/-- conversely, with that much fuel a `none` means no candidate the search visited had the target count;
    in particular for a monotone count function no `J` in the interval has it -/
theorem findJdes_complete (nf : ℕ → ℕ) (hmono : Monotone nf) (target fuel lo hi : ℕ)
    (hfuel : hi + 1 - lo < fuel) (h : Model.findJdes nf target fuel lo hi = none) :
    ∀ J, lo ≤ J → J ≤ hi → nf J ≠ target := by
  induction fuel generalizing lo hi with
  | zero => omega
  | succ n ih =>
    intro J hlo hhi
    rw [findJdes_succ] at h
    have h0 : lo ≤ hi := le_trans hlo hhi
    rw [if_pos h0] at h
    split_ifs at h with h1 h2 h3
    · -- nf mid < target: everything ≤ mid is too small
      by_cases hJ : J ≤ (lo + hi) / 2
      · have := hmono hJ
        omega
      · exact ih _ _ (by omega) h J (by omega) hhi
    · -- mid = 0 and nf 0 > target
      have hm : (lo + hi) / 2 = 0 := beq_iff_eq.mp h3
      have h1' : nf ((lo + hi) / 2) ≠ target := fun hh => h1 (beq_iff_eq.mpr hh)
      have := hmono (show (lo + hi) / 2 ≤ J by omega)
      omega
    · have h1' : nf ((lo + hi) / 2) ≠ target := fun hh => h1 (beq_iff_eq.mpr hh)
      by_cases hJ : (lo + hi) / 2 ≤ J
      · have := hmono hJ
        omega
      · exact ih _ _ (by omega) h J hlo (by omega)

/-! ### log spacing where nothing clamps, on the plan -/

/-- plan-level restatement of `ltfStep_logspaced`: for a bin in the pure logarithmic regime whose
    length was not touched by a clamp, `|L − fs/(f·logfact)| ≤ 1/2`, so the next frequency is
    `f + fs/L ≈ f·(1 + logfact)` -/
theorem ltfPlan_logspaced (c : Model.Cfg ℝ) (h : Adm c) (extra : ℕ) :
    ∀ b ∈ Model.ltfPlan c (c.N + extra),
      (Model.consts c).freslim ≤ b.f * (Model.consts c).logfact →
      c.bmin ≤ 1 / (Model.consts c).logfact →
      ((c.Lmin : ℤ) ≤ ⌊c.fs / (b.f * (Model.consts c).logfact) + 1 / 2⌋ ∧
        ⌊c.fs / (b.f * (Model.consts c).logfact) + 1 / 2⌋ ≤ c.N) →
      Model.nsegRaw c.N (1 - c.olap) (⌊c.fs / (b.f * (Model.consts c).logfact) + 1 / 2⌋).toNat ≠ 1 →
      |(b.L : ℝ) - c.fs / (b.f * (Model.consts c).logfact)| ≤ 1 / 2 := by
  rw [ltfPlan_map, ltf_walk_fuel c h extra]
  intro b hb
  obtain ⟨e, he, rfl⟩ := List.mem_map.mp hb
  obtain ⟨hstep, _, hpos, _⟩ := ltf_entry c h e he
  intro hbr hbm hcl hk
  have := ltfStep_logspaced c h e.1 hpos hbr hbm hcl hk
  simp only at this
  rw [← hstep] at this
  exact this

#print axioms ltfPlan_monotone
#print axioms lpsdPlan_monotone
#print axioms ltfPlan_K_formula
#print axioms lpsdPlan_K_formula
#print axioms plan_even_spread
#print axioms plan_overlap_reported
#print axioms plan_overlap_lt_one
#print axioms findJdes_sound
#print axioms findJdes_fuel
#print axioms findJdes_complete
#print axioms ltfPlan_logspaced
