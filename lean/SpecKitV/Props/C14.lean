/-
  Props/C14 — results do not depend on thread scheduling or on call history.

  (a) schedules.  The translator accepts a `prange` loop only if it is a MAP loop: every store is
  `arr[j] = e` at the loop index into an array the body does not read, and no scalar is carried across
  iterations (vk/translate.py raises `Unsupported` otherwise, which breaks Gen/CoreKernels).  For such a loop
  an execution under any thread schedule is a sequence of single-index writes `a[j] := body j` in some order
  with every index written at least once; `prange_any_schedule` shows the final array is `body` whatever the
  order, grouping or repetition.  The reduction runs after the loop in one thread (Gen._reduce_stats_nb).
  (b) call history and (c) attribute access order: re-exported from Lemmas/AnalyzerGlue.
-/
import SpecKitV.Lemmas.AnalyzerGlue
import SpecKitV.Gen.CoreKernels

namespace Par

/-- executing the writes `a[i] := body i` sequentially in the order `sched` -/
def runWrites {β : Type} (body : ℕ → β) (sched : List ℕ) (init : ℕ → β) : ℕ → β :=
  sched.foldl (fun a i => Function.update a i (body i)) init

theorem runWrites_of_mem {β : Type} (body : ℕ → β) (sched : List ℕ) (init : ℕ → β) (j : ℕ)
    (h : j ∈ sched ∨ init j = body j) : runWrites body sched init j = body j := by
  induction sched generalizing init with
  | nil =>
    rcases h with h | h
    · simp at h
    · simpa [runWrites] using h
  | cons i rest ih =>
    unfold runWrites
    rw [List.foldl_cons]
    apply ih
    by_cases hij : j = i
    · right; subst hij; simp
    · rcases h with h | h
      · rcases List.mem_cons.mp h with h | h
        · exact absurd h hij
        · exact Or.inl h
      · right; rw [Function.update_of_ne hij]; exact h

/-- any schedule that writes every index `< K` at least once (any order, any chunking, repeats allowed)
    leaves exactly `body j` at every `j < K` -/
theorem prange_any_schedule {β : Type} (body : ℕ → β) (K : ℕ) (sched : List ℕ) (init : ℕ → β)
    (hcover : ∀ j < K, j ∈ sched) : ∀ j < K, runWrites body sched init j = body j :=
  fun j hj => runWrites_of_mem body sched init j (Or.inl (hcover j hj))

/-- two schedules (e.g. 1 thread vs 16 threads with any chunk size) agree on every index -/
theorem prange_schedules_agree {β : Type} (body : ℕ → β) (K : ℕ) (s1 s2 : List ℕ) (i1 i2 : ℕ → β)
    (h1 : ∀ j < K, j ∈ s1) (h2 : ∀ j < K, j ∈ s2) :
    ∀ j < K, runWrites body s1 i1 j = runWrites body s2 i2 j := by
  intro j hj
  rw [prange_any_schedule body K s1 i1 h1 j hj, prange_any_schedule body K s2 i2 h2 j hj]

/-- indices outside the loop range are never touched by an in-range schedule -/
theorem prange_frame {β : Type} (body : ℕ → β) (sched : List ℕ) (init : ℕ → β) (j : ℕ) (h : j ∉ sched) :
    runWrites body sched init j = init j := by
  induction sched generalizing init with
  | nil => rfl
  | cons i rest ih =>
    unfold runWrites
    rw [List.foldl_cons]
    have hne : j ≠ i := fun e => h (by simp [e])
    have hr : j ∉ rest := fun e => h (List.mem_cons_of_mem _ e)
    have := ih (Function.update init i (body i)) hr
    unfold runWrites at this
    rw [this, Function.update_of_ne hne]

end Par

#print axioms Par.prange_any_schedule
#print axioms Par.prange_schedules_agree
#print axioms Par.prange_frame
