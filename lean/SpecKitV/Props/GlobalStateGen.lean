/-
  SpecKitV.Props.GlobalStateGen — the library has no state that outlives a call beyond the audited constant tables, and exactly the audited decorators
  (region GlobalState, regenerated from /repo each run; see vk/regions/global_state.py for what is listed and why).  The right-hand sides are the lists of
  the pinned source, audited by hand when this file was written: JIT decorators with their flags (`parallel=True` only on the six segment-parallel kernels,
  never on the reducer or the helpers), `__all__`, and the two constant tables of flattop.py.  No memoiser, no module- or class-level container, no mutable
  default argument, no `global`, no store to a class attribute, no `setattr` anywhere in core / analysis / schedulers / utils / noise / dsp / systems.
  Proofs are `rfl` on string lists: they re-check the CURRENT source.
-/
import SpecKitV.Gen.GlobalState

namespace GlobalStateGen

theorem gen_globalState_core : Gen.globalState_core =
    ["func:_apply_detrend0_inplace_nb_mean:decorator-_njit(cache=True, fastmath=True)",
     "func:_apply_detrend0_inplace_nb_val:decorator-_njit(cache=True, fastmath=True)",
     "func:_apply_poly_detrend_inplace_nb_alpha:decorator-_njit(cache=True, fastmath=True)",
     "func:_apply_poly_detrend_inplace_nb_rowdot:decorator-_njit(cache=True, fastmath=True)",
     "func:_goertzel_real_imag:decorator-_njit(cache=True, fastmath=True)",
     "func:_reduce_stats_nb:decorator-_njit(cache=True, fastmath=True)",
     "func:_stats_detrend0_auto:decorator-_njit(parallel=True, fastmath=True, cache=True)",
     "func:_stats_detrend0_csd:decorator-_njit(parallel=True, fastmath=True, cache=True)",
     "func:_stats_poly_auto:decorator-_njit(parallel=True, fastmath=True, cache=True)",
     "func:_stats_poly_csd:decorator-_njit(parallel=True, fastmath=True, cache=True)",
     "func:_stats_win_only_auto:decorator-_njit(parallel=True, fastmath=True, cache=True)",
     "func:_stats_win_only_csd:decorator-_njit(parallel=True, fastmath=True, cache=True)",
     "module:__all__:mutable-List"] := rfl

theorem gen_globalState_core_cuda : Gen.globalState_core_cuda =
    ["func:_stats_detrend0_auto_cuda_kernel:decorator-cuda.jit",
     "func:_stats_detrend0_csd_cuda_kernel:decorator-cuda.jit",
     "func:_stats_poly_auto_cuda_kernel:decorator-cuda.jit",
     "func:_stats_poly_csd_cuda_kernel:decorator-cuda.jit",
     "func:_stats_win_only_auto_cuda_kernel:decorator-cuda.jit",
     "func:_stats_win_only_csd_cuda_kernel:decorator-cuda.jit",
     "module:__all__:mutable-List"] := rfl

theorem gen_globalState_analysis : Gen.globalState_analysis =
    [] := rfl

theorem gen_globalState_flattop : Gen.globalState_flattop =
    ["module:olap_dict:mutable-Dict",
     "module:win_dict:mutable-Dict"] := rfl

theorem gen_globalState_schedulers : Gen.globalState_schedulers =
    [] := rfl

theorem gen_globalState_utils : Gen.globalState_utils =
    [] := rfl

theorem gen_globalState_noise : Gen.globalState_noise =
    ["func:_numba_lfilter_cascade:decorator-numba.jit(nopython=True, cache=True)",
     "func:alpha:decorator-property",
     "func:fmax:decorator-property",
     "func:fmin:decorator-property",
     "func:fs:decorator-property",
     "func:rms:decorator-property"] := rfl

theorem gen_globalState_dsp : Gen.globalState_dsp =
    [] := rfl

theorem gen_globalState_systems : Gen.globalState_systems =
    [] := rfl

theorem gen_globalState_init : Gen.globalState_init =
    [] := rfl

end GlobalStateGen

#print axioms GlobalStateGen.gen_globalState_core
#print axioms GlobalStateGen.gen_globalState_core_cuda
#print axioms GlobalStateGen.gen_globalState_analysis
#print axioms GlobalStateGen.gen_globalState_flattop
#print axioms GlobalStateGen.gen_globalState_schedulers
#print axioms GlobalStateGen.gen_globalState_utils
#print axioms GlobalStateGen.gen_globalState_noise
#print axioms GlobalStateGen.gen_globalState_dsp
#print axioms GlobalStateGen.gen_globalState_systems
#print axioms GlobalStateGen.gen_globalState_init
