/-
  Props/KernelHeapGen — the NumPy fallback kernels never write into a caller's buffer.

  `Gen.kheapAll` (regenerated from core.py on every run by vk/regions/kernel_heap.py) lists, per kernel, the buffer operations of its
  body with `_gather_segments` inlined.  `Model.cRun` is the concrete aliasing semantics (one buffer per variable, run-time choices by an
  arbitrary oracle), `Model.aRun` the may-alias abstraction.
  * `cRun_sub_aRun`: for EVERY oracle and EVERY op list the concrete written buffers are among the abstract ones (simulation, by induction);
  * `np_kernels_abstract_clean`: the abstract run of every generated kernel writes no caller buffer (evaluation of the generated lists);
  * `np_kernels_write_no_caller_buffer`: hence no execution of any NumPy kernel, whatever `np.asarray` aliases and whichever branches run,
    writes the record, the start list, the window or the basis handed to it: every written buffer was allocated by the kernel itself.
  * `view_gather_would_write`: sharpness — if the gather were a VIEW (basic indexing) instead of a fancy-index copy, the order-0 kernel's
    in-place mean removal would write the caller's record (the defect class of seeded changes C01, C13c, C14).
-/
import SpecKitV.Gen.KernelHeap

open Model Model.KHeap

namespace KHeapSim

/-- simulation relation between a concrete and an abstract state -/
structure Rel (c : CSt) (a : ASt) : Prop where
  next : c.next = a.next
  env : ∀ v, c.env v ∈ a.env v
  written : ∀ b ∈ c.written, b ∈ a.written

theorem rel_init (k : Nat) : Rel (cInit k) (aInit k) :=
  ⟨rfl, fun v => by simp [cInit, aInit], fun b hb => by simp [cInit] at hb⟩

theorem rel_step (ch : Nat → Bool) (c : CSt) (a : ASt) (h : Rel c a) (op : KOp) :
    Rel (cStep ch c op) (aStep a op) := by
  obtain ⟨hn, he, hw⟩ := h
  cases op with
  | asarray d x =>
    simp only [cStep, aStep]
    split
    · refine ⟨by simp [CSt.set, ASt.set, hn], fun v => ?_, fun b hb => by simpa [CSt.set, ASt.set] using hw b (by simpa [CSt.set] using hb)⟩
      by_cases hv : v = d
      · simp [CSt.set, ASt.set, hv, he x]
      · simp [CSt.set, ASt.set, hv, he v]
    · refine ⟨by simp [CSt.set, ASt.set, hn], fun v => ?_, fun b hb => by simpa [CSt.set, ASt.set] using hw b (by simpa [CSt.set] using hb)⟩
      by_cases hv : v = d
      · simp [CSt.set, ASt.set, hv, hn]
      · simp [CSt.set, ASt.set, hv, he v]
  | fancy d x =>
    refine ⟨by simp [cStep, aStep, CSt.set, ASt.set, hn], fun v => ?_, fun b hb => by simpa [cStep, aStep, CSt.set, ASt.set] using hw b (by simpa [cStep, CSt.set] using hb)⟩
    by_cases hv : v = d
    · simp [cStep, aStep, CSt.set, ASt.set, hv, hn]
    · simp [cStep, aStep, CSt.set, ASt.set, hv, he v]
  | basic d x =>
    refine ⟨by simp [cStep, aStep, CSt.set, ASt.set, hn], fun v => ?_, fun b hb => by simpa [cStep, aStep, CSt.set, ASt.set] using hw b (by simpa [cStep, CSt.set] using hb)⟩
    by_cases hv : v = d
    · simp [cStep, aStep, CSt.set, ASt.set, hv, he x]
    · simp [cStep, aStep, CSt.set, ASt.set, hv, he v]
  | bind d x =>
    refine ⟨by simp [cStep, aStep, CSt.set, ASt.set, hn], fun v => ?_, fun b hb => by simpa [cStep, aStep, CSt.set, ASt.set] using hw b (by simpa [cStep, CSt.set] using hb)⟩
    by_cases hv : v = d
    · simp [cStep, aStep, CSt.set, ASt.set, hv, he x]
    · simp [cStep, aStep, CSt.set, ASt.set, hv, he v]
  | fresh d =>
    refine ⟨by simp [cStep, aStep, CSt.set, ASt.set, hn], fun v => ?_, fun b hb => by simpa [cStep, aStep, CSt.set, ASt.set] using hw b (by simpa [cStep, CSt.set] using hb)⟩
    by_cases hv : v = d
    · simp [cStep, aStep, CSt.set, ASt.set, hv, hn]
    · simp [cStep, aStep, CSt.set, ASt.set, hv, he v]
  | nanToNum d x copy =>
    cases copy with
    | true =>
      refine ⟨by simp [cStep, aStep, CSt.set, ASt.set, hn], fun v => ?_, fun b hb => by simpa [cStep, aStep, CSt.set, ASt.set] using hw b (by simpa [cStep, CSt.set] using hb)⟩
      by_cases hv : v = d
      · simp [cStep, aStep, CSt.set, ASt.set, hv, hn]
      · simp [cStep, aStep, CSt.set, ASt.set, hv, he v]
    | false =>
      refine ⟨by simp [cStep, aStep, CSt.set, ASt.set, hn], fun v => ?_, fun b hb => ?_⟩
      · by_cases hv : v = d
        · simp [cStep, aStep, CSt.set, ASt.set, hv, he x]
        · simp [cStep, aStep, CSt.set, ASt.set, hv, he v]
      · simp only [cStep, CSt.set, Bool.false_eq_true, if_false, List.mem_cons] at hb
        simp only [aStep, ASt.set, Bool.false_eq_true, if_false, List.mem_append]
        rcases hb with rfl | hb
        · exact Or.inl (he x)
        · exact Or.inr (hw b hb)
  | write v =>
    refine ⟨by simp [cStep, aStep, hn], fun u => by simpa [cStep, aStep] using he u, fun b hb => ?_⟩
    simp only [cStep, List.mem_cons] at hb
    simp only [aStep, List.mem_append]
    rcases hb with rfl | hb
    · exact Or.inl (he v)
    · exact Or.inr (hw b hb)
  | phi d x y =>
    simp only [cStep, aStep]
    split
    · refine ⟨by simp [CSt.set, ASt.set, hn], fun v => ?_, fun b hb => by simpa [CSt.set, ASt.set] using hw b (by simpa [CSt.set] using hb)⟩
      by_cases hv : v = d
      · simp [CSt.set, ASt.set, hv, he x]
      · simp [CSt.set, ASt.set, hv, he v]
    · refine ⟨by simp [CSt.set, ASt.set, hn], fun v => ?_, fun b hb => by simpa [CSt.set, ASt.set] using hw b (by simpa [CSt.set] using hb)⟩
      by_cases hv : v = d
      · simp [CSt.set, ASt.set, hv, he y]
      · simp [CSt.set, ASt.set, hv, he v]

theorem rel_foldl (ch : Nat → Bool) (ops : List KOp) :
    ∀ (c : CSt) (a : ASt), Rel c a → Rel (ops.foldl (cStep ch) c) (ops.foldl aStep a) := by
  induction ops with
  | nil => intro c a h; simpa using h
  | cons op ops ih => intro c a h; simpa using ih _ _ (rel_step ch c a h op)

end KHeapSim

/-- every buffer a concrete execution writes is in the abstract written set — for every oracle, every op list -/
theorem cRun_sub_aRun (ch : Nat → Bool) (k : Nat) (ops : List KOp) :
    ∀ b ∈ (cRun ch k ops).written, b ∈ (aRun k ops).written :=
  (KHeapSim.rel_foldl ch ops _ _ (KHeapSim.rel_init k)).written

/-- abstract evaluation of the generated op lists: no caller buffer is ever charged with a write -/
theorem np_kernels_abstract_clean : ∀ p ∈ Gen.kheapAll, callerWritten p.1 p.2 = [] := by
  decide +kernel

/-- no execution of any NumPy fallback kernel writes one of the buffers it was handed (record(s), starts, window, basis) -/
theorem np_kernels_write_no_caller_buffer (ch : Nat → Bool) :
    ∀ p ∈ Gen.kheapAll, ∀ b ∈ (cRun ch p.1 p.2).written, p.1 ≤ b := by
  intro p hp b hb
  have h1 := cRun_sub_aRun ch p.1 p.2 b hb
  have h2 := np_kernels_abstract_clean p hp
  rcases Nat.lt_or_ge b p.1 with hlt | hge
  · have hm : b ∈ callerWritten p.1 p.2 := by
      simp only [callerWritten, List.mem_filter]
      exact ⟨h1, by simpa using hlt⟩
    rw [h2] at hm
    exact absurd hm List.not_mem_nil
  · exact hge

/-- sharpness: with a VIEW in place of the fancy-index gather, in-place mean removal reaches the caller's record (buffer 0) -/
theorem view_gather_would_write :
    0 ∈ callerWritten 1 [.asarray 1 0, .basic 2 1, .nanToNum 3 2 false, .write 3] := by
  decide

/-- the generated lists are not trivially clean: the kernels DO write (their own) buffers -/
theorem np_kernels_do_write : ∀ p ∈ Gen.kheapAll, (aRun p.1 p.2).written ≠ [] := by
  decide +kernel

#print axioms cRun_sub_aRun
#print axioms np_kernels_abstract_clean
#print axioms np_kernels_write_no_caller_buffer
#print axioms view_gather_would_write
#print axioms np_kernels_do_write
