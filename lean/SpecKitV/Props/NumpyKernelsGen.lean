/-
  Props/NumpyKernelsGen — the machine-translated NumPy fallback kernels of speckit/core.py (`Gen/NumpyKernels.lean`: `_gather_segments`
  and `_stats_{win_only,detrend0,poly}_{auto,csd}_np`, regenerated from the source on every run, whole-array NumPy semantics through the
  contracts of `Np/NumpyKernels.lean`) EQUAL the reference estimator `Model.refStats` / `Model.refStatsAuto` over ℝ:
  for every record, every start vector of length K ≥ 1 (repeats, any order), every L, window, ω, basis Q, EVERY chunk size
  `_chunk ≥ 1` and whatever the uninitialised memory returned by `np.empty` contains.

  Proof shape per kernel (macros `np_auto_proof` / `np_csd_proof`):
  * the chunk loop is handled by the invariant `Filled K c it f a` ("after `it` chunks the entries below `min (it·c) K` of the output
    array are the per-segment values `f`") through `forRange_inv`; one chunk = `filled_step`; `K ≤ ⌈K/c⌉·c` = `rangeLen_mul_ge`;
  * row `i` of a chunk's `(segs ⋯ * w) @ e` is identified with the model's segment DFT `S` (csd kernels: `e = exp(-iωn)` gives exactly `S`,
    and nothing else is accepted, so the sign of the exponent and the side of the conjugate are pinned by `Im (X · conj Y)`;
    auto kernels: `S` or `conj S`, both have the same `|·|²`), by unfolding the Np combinators and comparing nested finite sums up to
    commutativity inside the summands (`sum_ring`);
  * the statements after the loop are compared with `Model.reduceStats` component by component (`np_tail`).
  Hypotheses: `0 < starts.n` (K = 0 returns zeros before any array code runs: `gen_np_*_K0`), `1 ≤ c` (Python's `range` raises for
  step 0), and for the polynomial kernels `Qa.m = p + 1` with `1 ≤ p` as for the Numba kernels in Props/C01.
-/
import SpecKitV.RealInst
import SpecKitV.Lemmas.CxC
import SpecKitV.Lemmas.Goertzel
import SpecKitV.Model.Ref
import SpecKitV.Gen.NumpyKernels
import SpecKitV.Props.C01
open Finset

set_option linter.unusedVariables false
set_option linter.unusedSimpArgs false
set_option linter.unreachableTactic false
set_option linter.unusedTactic false

namespace NpK

/-! ### literals, slices -/
@[simp] theorem ofSci_zero_lit : (RealLike.ofSci 0 true 1 : ℝ) = 0 := by simp [RL.ofSci_eq]
@[simp] theorem ofSci_one_lit : (RealLike.ofSci 10 true 1 : ℝ) = 1 := by simp [RL.ofSci_eq]

theorem sliceBound_natCast (n k : ℕ) : Np.sliceBound n (k : ℤ) = min k n := by
  have h : ¬ ((k : ℤ) < 0) := by omega
  simp [Np.sliceBound, h]

theorem rangeLen_mul_ge (K c : ℕ) (hc : 1 ≤ c) : K ≤ Np.rangeLen 0 K c * c := by
  unfold Np.rangeLen
  have h := Nat.lt_mul_div_succ (K + c - 1) (show 0 < c by omega)
  rw [Nat.mul_succ] at h
  simp only [Nat.sub_zero]
  rw [Nat.mul_comm] at h
  generalize (K + c - 1) / c * c = m at h ⊢
  omega

/-- after `it` chunks of size `c` the entries below `min (it*c) K` of the output array hold the per-segment values `f` -/
def Filled (K c it : ℕ) (f : ℕ → ℝ) (a : Arr ℝ) : Prop := a.n = K ∧ ∀ j, j < min (it * c) K → a.get j = f j

theorem filled_zero (K c : ℕ) (f : ℕ → ℝ) (g : ℕ → ℝ) : Filled K c 0 f (Np.empty K g) := by
  refine ⟨rfl, ?_⟩
  intro j hj
  simp at hj

theorem filled_step {K c it : ℕ} {f : ℕ → ℝ} {a : Arr ℝ} (h : Filled K c it f a) (j0 j1 : ℕ)
    (hj0 : j0 = it * c) (hj1 : j1 = min (it * c + c) K) (v : Arr ℝ)
    (hvn : v.n = j1 - j0) (hv : ∀ i, j0 + i < j1 → v.get i = f (j0 + i)) :
    Filled K c (it + 1) f (Np.setSlice a (j0 : ℤ) (j1 : ℤ) v) := by
  obtain ⟨hn, hg⟩ := h
  refine ⟨hn, ?_⟩
  intro j hj
  have hsucc : (it + 1) * c = it * c + c := by ring
  rw [hsucc] at hj
  simp only [Np.setSlice, sliceBound_natCast, hn]
  generalize it * c = m at *
  subst hj0
  by_cases hlt : j < j0
  · have : ¬ (min j0 K ≤ j ∧ j < min j1 K) := by omega
    rw [if_neg this]
    exact hg j (by omega)
  · have hc : min j0 K ≤ j ∧ j < min j1 K := by omega
    rw [if_pos hc]
    have hm : min j0 K = j0 := by omega
    rw [hm]
    have hidx : (if v.n = 1 then 0 else j - j0) = j - j0 := by
      split_ifs with h1
      · omega
      · rfl
    rw [hidx, hv (j - j0) (by omega)]
    congr 1
    omega

theorem filled_final {K c : ℕ} (hc : 1 ≤ c) {f : ℕ → ℝ} {a : Arr ℝ} (h : Filled K c (Np.rangeLen 0 K c) f a) :
    a.n = K ∧ ∀ j, j < K → a.get j = f j := by
  refine ⟨h.1, fun j hj => h.2 j ?_⟩
  have := rangeLen_mul_ge K c hc
  omega


/-! ### per-row values -/

theorem Cx.ext' {a b : Cx ℝ} (hr : a.re = b.re) (hi : a.im = b.im) : a = b := by
  cases a; cases b; simp_all

theorem mean_eq_of {a : Arr ℝ} {K : ℕ} (hn : a.n = K) {p : ℕ → ℝ} (h : ∀ j, j < K → a.get j = p j) :
    Arr.mean a = (∑ j ∈ range K, p j) / (K : ℝ) := by
  unfold Arr.mean
  rw [hn, sumRange_eq_sum, RL.ofNat_eq]
  congr 1
  exact Finset.sum_congr rfl (fun j hj => h j (Finset.mem_range.mp hj))

/-- orientation of the phase argument: `cos (n·a) = cos (a·n)` for a sample index `n` (so `1j*n*omega` and `1j*omega*n` agree) -/
theorem cos_natCast_mul (n : ℕ) (a : ℝ) : Real.cos ((n : ℝ) * a) = Real.cos (a * n) := by rw [mul_comm]
theorem sin_natCast_mul (n : ℕ) (a : ℝ) : Real.sin ((n : ℝ) * a) = Real.sin (a * n) := by rw [mul_comm]

theorem cx_mul_re (a b : Cx ℝ) : (a * b).re = a.re * b.re - a.im * b.im := rfl
theorem cx_mul_im (a b : Cx ℝ) : (a * b).im = a.re * b.im + a.im * b.re := rfl

end NpK

open Lean Elab Tactic Meta in
/-- name the local definition whose value is a `forRange` loop (after `extract_lets`) -/
elab "name_loop " id:ident : tactic => withMainContext do
  for d in (← getLCtx) do
    if let some v := d.value? then
      if v.getAppFn.isConstOf ``forRange then
        let g ← getMainGoal
        replaceMainGoal [← g.rename d.fvarId id.getId]
        return
  throwError "no local definition is a forRange loop"

/-- equality of two expressions built from nested finite sums of products, up to commutativity inside the summands -/
syntax "sum_ring" : tactic
macro_rules
  | `(tactic| sum_ring) => `(tactic| first
      | ring1
      | (apply Finset.sum_congr rfl; intro _ _; sum_ring)
      | (apply congrArg Neg.neg; sum_ring)
      | (apply congrArg₂ HSub.hSub <;> sum_ring)
      | (apply congrArg₂ HAdd.hAdd <;> sum_ring))

/-- the length of the vector stored by one chunk is the length of the slice it is stored into -/
macro "len_tac" : tactic => `(tactic| (
  simp (config := {zetaDelta := true}) only [Np.matvecC, Np.mulRow, Np.rowMul, Np.sub2, Np.subCol, Np.matmul,
    Gen._gather_segments, Np.take2, Np.outerAdd, Np.slice, NpK.sliceBound_natCast]
  omega))

/-- row `i` of a chunk's `(segs ⋯ * w) @ e` is the model's segment DFT (or its conjugate): both components are the same nested sums
    up to the order of the factors; the first listed lemma rewrites the row's position in the slice into its global segment index -/
macro "row_eq" "[" ts:Lean.Parser.Tactic.simpLemma,* "]" : tactic => `(tactic| (
  apply NpK.Cx.ext' <;>
  ( simp (config := {zetaDelta := true}) only [Np.matvecC, Np.mulRow, Np.rowMul, Np.sub2, Np.subCol, Np.rowMean, Np.matmul, Np.transpose,
      Gen._gather_segments, Np.take2, Np.outerAdd, Np.slice, Np.arange, Np.arangeF, Np.expI, NpK.sliceBound_natCast,
      sumRange_eq_sum, RL.cos_eq, RL.sin_eq, RL.ofNat_eq, RL.zero_eq, NpK.ofSci_one_lit, NpK.ofSci_zero_lit,
      Model.segDFT, Cx.conj, one_mul, mul_one, neg_mul, mul_neg, Real.cos_neg, Real.sin_neg, zero_sub, neg_neg,
      NpK.cos_natCast_mul, NpK.sin_natCast_mul, $ts,*]
    <;> simp (config := {failIfUnchanged := false}) only [$ts,*, Finset.mul_sum, Finset.sum_mul, sub_mul, mul_sub,
      Finset.sum_sub_distrib, Finset.sum_neg_distrib]
    <;> sum_ring)))

/-- identify the generalised row value `z` (with `hz : <row i of (⋯) @ e> = z`) as one of two candidate model values -/
macro "row_cases" z:ident hz:ident "[" a:term "," b:term "]" "[" ts:Lean.Parser.Tactic.simpLemma,* "]" : tactic => `(tactic| (
  first
    | (have hz' : $z = $a := by rw [← $hz]; row_eq [$ts,*])
    | (have hz' : $z = $b := by rw [← $hz]; row_eq [$ts,*])
  clear $hz
  subst hz'))

/-- the statements after the chunk loop: means of the filled arrays and the mean squared scatter, against `Model.reduceStats` -/
macro "np_tail" "[" ms:Lean.Parser.Tactic.simpLemma,* "]" "[" gs:Lean.Parser.Tactic.simpLemma,* "]" : tactic => `(tactic| (
  simp (config := {zetaDelta := true, zeta := true}) only [$ms,*, sumRange_eq_sum, RL.ofNat_eq, RL.zero_eq, NpK.ofSci_zero_lit,
    decide_eq_true_eq, Prod.mk.injEq]
  simp (config := {failIfUnchanged := false}) only [Finset.sum_const_zero, zero_div, true_and, and_true, sub_self, mul_zero, add_zero]
  split_ifs with h2
  · refine NpK.mean_eq_of (by assumption) (fun j hj => ?_)
    simp only [$gs,*, hj]
    all_goals ring1
  · trivial))

/-- the whole equality proof of an auto kernel, after `unfold Gen.<kernel>`: `S j` is the model's DFT of segment `j` -/
macro "np_auto_proof" S:term "," starts:term "," c:term "," hK:term "," hc:term "," "[" ts:Lean.Parser.Tactic.simpLemma,* "]" : tactic => `(tactic| (
  extract_lets K
  rw [if_neg (by simpa [K] using Nat.pos_iff_ne_zero.mp $hK)]
  name_loop st
  have hloop : NpK.Filled ($starts).n $c (Np.rangeLen 0 ($starts).n $c) (fun j => Cx.normSq ($S j)) st := by
    refine forRange_inv (fun it (s : Arr ℝ) => NpK.Filled ($starts).n $c it (fun j => Cx.normSq ($S j)) s) _ _ _ (NpK.filled_zero _ _ _ _) ?_
    intro it s _ h
    refine NpK.filled_step h _ _ (by omega) (by simp [K]) _ (by len_tac) ?_
    intro i hi
    have hm : min (0 + it * $c) ($starts).n = 0 + it * $c := by simp only [K] at hi; omega
    dsimp only
    generalize hz : (Np.matvecC (α := ℝ) _ _).get i = z
    row_cases z hz [$S (0 + it * $c + i), Cx.conj ($S (0 + it * $c + i))] [hm, $ts,*]
    simp only [Cx.normSq, Cx.conj]
    all_goals ring1
  obtain ⟨hn, hget⟩ := NpK.filled_final $hc hloop
  clear_value st
  have hmean := NpK.mean_eq_of hn hget
  unfold Model.refStatsAuto Model.reduceStats
  np_tail [hmean] [hget]))

/-- the whole equality proof of a csd kernel, after `unfold Gen.<kernel>`: `S1 j`, `S2 j` are the model's DFTs of segment `j` of the two
    channels; each stored row value must be exactly `S1`/`S2` (no conjugates) -/
macro "np_csd_proof" S1:term "," S2:term "," starts:term "," c:term "," hK:term "," hc:term "," "[" ts:Lean.Parser.Tactic.simpLemma,* "]" : tactic => `(tactic| (
  extract_lets K
  rw [if_neg (by simpa [K] using Nat.pos_iff_ne_zero.mp $hK)]
  name_loop st
  have hloop : NpK.Filled ($starts).n $c (Np.rangeLen 0 ($starts).n $c) (fun j => Cx.normSq ($S1 j)) st.1
      ∧ NpK.Filled ($starts).n $c (Np.rangeLen 0 ($starts).n $c) (fun j => Cx.normSq ($S2 j)) st.2.1
      ∧ NpK.Filled ($starts).n $c (Np.rangeLen 0 ($starts).n $c) (fun j => ($S1 j * Cx.conj ($S2 j)).re) st.2.2.1
      ∧ NpK.Filled ($starts).n $c (Np.rangeLen 0 ($starts).n $c) (fun j => ($S1 j * Cx.conj ($S2 j)).im) st.2.2.2 := by
    refine forRange_inv (fun it (s : Arr ℝ × Arr ℝ × Arr ℝ × Arr ℝ) =>
      NpK.Filled ($starts).n $c it (fun j => Cx.normSq ($S1 j)) s.1 ∧ NpK.Filled ($starts).n $c it (fun j => Cx.normSq ($S2 j)) s.2.1
      ∧ NpK.Filled ($starts).n $c it (fun j => ($S1 j * Cx.conj ($S2 j)).re) s.2.2.1
      ∧ NpK.Filled ($starts).n $c it (fun j => ($S1 j * Cx.conj ($S2 j)).im) s.2.2.2) _ _ _
      ⟨NpK.filled_zero _ _ _ _, NpK.filled_zero _ _ _ _, NpK.filled_zero _ _ _ _, NpK.filled_zero _ _ _ _⟩ ?_
    intro it s _ h
    obtain ⟨h1, h2, h3, h4⟩ := h
    refine ⟨NpK.filled_step h1 _ _ (by omega) (by simp [K]) _ (by len_tac) ?_, NpK.filled_step h2 _ _ (by omega) (by simp [K]) _ (by len_tac) ?_,
      NpK.filled_step h3 _ _ (by omega) (by simp [K]) _ (by len_tac) ?_, NpK.filled_step h4 _ _ (by omega) (by simp [K]) _ (by len_tac) ?_⟩
    all_goals
      intro i hi
      have hm : min (0 + it * $c) ($starts).n = 0 + it * $c := by simp only [K] at hi; omega
      dsimp only
      generalize hz : (Np.matvecC (α := ℝ) _ _).get i = z
      row_cases z hz [$S1 (0 + it * $c + i), $S2 (0 + it * $c + i)] [hm, $ts,*]
      try (generalize hz2 : (Np.matvecC (α := ℝ) _ _).get i = z2
           row_cases z2 hz2 [$S1 (0 + it * $c + i), $S2 (0 + it * $c + i)] [hm, $ts,*])
      first | rfl | (simp only [Cx.normSq, Cx.conj, NpK.cx_mul_re, NpK.cx_mul_im]; all_goals ring1)
  obtain ⟨⟨hn1, hg1⟩, ⟨hn2, hg2⟩, ⟨hn3, hg3⟩, ⟨hn4, hg4⟩⟩ :=
    And.intro (NpK.filled_final $hc hloop.1) (And.intro (NpK.filled_final $hc hloop.2.1)
      (And.intro (NpK.filled_final $hc hloop.2.2.1) (NpK.filled_final $hc hloop.2.2.2)))
  clear_value st
  have hm1 := NpK.mean_eq_of hn1 hg1
  have hm2 := NpK.mean_eq_of hn2 hg2
  have hm3 := NpK.mean_eq_of hn3 hg3
  have hm4 := NpK.mean_eq_of hn4 hg4
  unfold Model.refStats Model.reduceStats
  np_tail [hm1, hm2, hm3, hm4] [hg1, hg2, hg3, hg4]))

/-- the translated gather: row `r` of `_gather_segments x starts L` is the segment of `x` starting at `starts[r]` -/
theorem gen_gather_segments_spec (x : Arr ℝ) (starts : Arr ℕ) (L : ℕ) :
    (Gen._gather_segments x starts L).n = starts.n ∧ (Gen._gather_segments x starts L).m = L
      ∧ ∀ r n, (Gen._gather_segments x starts L).get r n = x.get (starts.get r + n) := by
  simp only [Gen._gather_segments, Np.take2, Np.outerAdd, Np.arange, true_and, implies_true]

/-! ### the six equalities: translated NumPy fallback = reference estimator, for every chunk size -/

theorem gen_np_win_only_auto_eq_ref (x : Arr ℝ) (starts : Arr ℕ) (hK : 0 < starts.n) (L : ℕ) (w : Arr ℝ) (ω : ℝ) (Q : ℕ → ℕ → ℝ)
    (c : ℕ) (hc : 1 ≤ c) (u : ℕ → ℕ → ℝ) :
    Gen._stats_win_only_auto_np x starts L w ω c u = Model.refStatsAuto (-1) Q x.get starts.get starts.n L w.get ω := by
  unfold Gen._stats_win_only_auto_np
  np_auto_proof (fun j => Model.segDFT (-1) Q x.get (starts.get j) L w.get ω), starts, c, hK, hc, [detr_none]

theorem gen_np_win_only_csd_eq_ref (x1 x2 : Arr ℝ) (starts : Arr ℕ) (hK : 0 < starts.n) (L : ℕ) (w : Arr ℝ) (ω : ℝ) (Q : ℕ → ℕ → ℝ)
    (c : ℕ) (hc : 1 ≤ c) (u : ℕ → ℕ → ℝ) :
    Gen._stats_win_only_csd_np x1 x2 starts L w ω c u = Model.refStats (-1) Q x1.get x2.get starts.get starts.n L w.get ω := by
  unfold Gen._stats_win_only_csd_np
  np_csd_proof (fun j => Model.segDFT (-1) Q x1.get (starts.get j) L w.get ω), (fun j => Model.segDFT (-1) Q x2.get (starts.get j) L w.get ω),
    starts, c, hK, hc, [detr_none]

theorem gen_np_detrend0_auto_eq_ref (x : Arr ℝ) (starts : Arr ℕ) (hK : 0 < starts.n) (L : ℕ) (w : Arr ℝ) (ω : ℝ) (Q : ℕ → ℕ → ℝ)
    (c : ℕ) (hc : 1 ≤ c) (u : ℕ → ℕ → ℝ) :
    Gen._stats_detrend0_auto_np x starts L w ω c u = Model.refStatsAuto 0 Q x.get starts.get starts.n L w.get ω := by
  unfold Gen._stats_detrend0_auto_np
  np_auto_proof (fun j => Model.segDFT 0 Q x.get (starts.get j) L w.get ω), starts, c, hK, hc, [detr_mean]

theorem gen_np_detrend0_csd_eq_ref (x1 x2 : Arr ℝ) (starts : Arr ℕ) (hK : 0 < starts.n) (L : ℕ) (w : Arr ℝ) (ω : ℝ) (Q : ℕ → ℕ → ℝ)
    (c : ℕ) (hc : 1 ≤ c) (u : ℕ → ℕ → ℝ) :
    Gen._stats_detrend0_csd_np x1 x2 starts L w ω c u = Model.refStats 0 Q x1.get x2.get starts.get starts.n L w.get ω := by
  unfold Gen._stats_detrend0_csd_np
  np_csd_proof (fun j => Model.segDFT 0 Q x1.get (starts.get j) L w.get ω), (fun j => Model.segDFT 0 Q x2.get (starts.get j) L w.get ω),
    starts, c, hK, hc, [detr_mean]

theorem gen_np_poly_auto_eq_ref (x : Arr ℝ) (starts : Arr ℕ) (hK : 0 < starts.n) (L : ℕ) (w : Arr ℝ) (ω : ℝ)
    (Qa : Arr2 ℝ) (p : ℕ) (hp : 1 ≤ p) (hQ : Qa.m = p + 1) (c : ℕ) (hc : 1 ≤ c) (u : ℕ → ℕ → ℝ) :
    Gen._stats_poly_auto_np x starts L w ω Qa c u = Model.refStatsAuto (p : ℤ) Qa.get x.get starts.get starts.n L w.get ω := by
  unfold Gen._stats_poly_auto_np
  np_auto_proof (fun j => Model.segDFT (p : ℤ) Qa.get x.get (starts.get j) L w.get ω), starts, c, hK, hc, [detr_poly p hp, hQ]

theorem gen_np_poly_csd_eq_ref (x1 x2 : Arr ℝ) (starts : Arr ℕ) (hK : 0 < starts.n) (L : ℕ) (w : Arr ℝ) (ω : ℝ)
    (Qa : Arr2 ℝ) (p : ℕ) (hp : 1 ≤ p) (hQ : Qa.m = p + 1) (c : ℕ) (hc : 1 ≤ c) (u : ℕ → ℕ → ℝ) :
    Gen._stats_poly_csd_np x1 x2 starts L w ω Qa c u = Model.refStats (p : ℤ) Qa.get x1.get x2.get starts.get starts.n L w.get ω := by
  unfold Gen._stats_poly_csd_np
  np_csd_proof (fun j => Model.segDFT (p : ℤ) Qa.get x1.get (starts.get j) L w.get ω),
    (fun j => Model.segDFT (p : ℤ) Qa.get x2.get (starts.get j) L w.get ω), starts, c, hK, hc, [detr_poly p hp, hQ]

/-! ### non-vacuity: the hypotheses are satisfiable by concrete, non-trivial instances (two chunks of one segment; two chunks of sizes 2, 1) -/

example : Gen._stats_win_only_csd_np (α := ℝ) ⟨5, fun n => (n : ℝ)⟩ ⟨5, fun n => (n : ℝ) ^ 2⟩ ⟨2, fun j => j⟩ 3 ⟨3, fun _ => 1⟩ (1 / 2) 1 (fun _ _ => 7)
    = Model.refStats (-1) (fun _ _ => 0) (fun n => (n : ℝ)) (fun n => (n : ℝ) ^ 2) (fun j => j) 2 3 (fun _ => 1) (1 / 2) :=
  gen_np_win_only_csd_eq_ref _ _ ⟨2, fun j => j⟩ (by decide) _ _ _ _ 1 (by decide) _

example : Gen._stats_poly_auto_np (α := ℝ) ⟨7, fun n => (n : ℝ) ^ 2⟩ ⟨3, fun j => 2 * j⟩ 3 ⟨3, fun n => (n : ℝ) + 1⟩ 1 ⟨3, 2, fun n k => (n : ℝ) ^ k⟩ 2 (fun _ _ => 7)
    = Model.refStatsAuto ((1 : ℕ) : ℤ) (fun n k => (n : ℝ) ^ k) (fun n => (n : ℝ) ^ 2) (fun j => 2 * j) 3 3 (fun n => (n : ℝ) + 1) 1 :=
  gen_np_poly_auto_eq_ref _ ⟨3, fun j => 2 * j⟩ (by decide) _ _ _ ⟨3, 2, fun n k => (n : ℝ) ^ k⟩ 1 (by decide) rfl 2 (by decide) _

/-- concrete numbers through the chunk loop (chunk size 1, two chunks, repeated start 1): X = 1 + 2 + 3 = 6, |X|² = 36 -/
example : (Gen._stats_win_only_auto_np (α := ℝ) ⟨5, fun n => (n : ℝ)⟩ ⟨2, fun _ => 1⟩ 3 ⟨3, fun _ => 1⟩ 0 1 (fun _ _ => 7)).1 = 36 := by
  rw [gen_np_win_only_auto_eq_ref _ ⟨2, fun _ => 1⟩ (by decide) _ _ _ (fun _ _ => 0) 1 (by decide) _]
  simp [Model.refStatsAuto, Model.reduceStats, Model.segDFT, Model.detr, Cx.normSq, sumRange, forRange_succ, forRange_zero]
  norm_num

/-! ### K = 0: every fallback returns zeros before any array code runs -/

theorem gen_np_win_only_auto_K0 (x : Arr ℝ) (starts : Arr ℕ) (h : starts.n = 0) (L : ℕ) (w : Arr ℝ) (ω : ℝ) (c : ℕ) (u : ℕ → ℕ → ℝ) :
    Gen._stats_win_only_auto_np x starts L w ω c u = (0, 0, 0, 0, 0) := by
  unfold Gen._stats_win_only_auto_np; simp [h]
theorem gen_np_win_only_csd_K0 (x1 x2 : Arr ℝ) (starts : Arr ℕ) (h : starts.n = 0) (L : ℕ) (w : Arr ℝ) (ω : ℝ) (c : ℕ) (u : ℕ → ℕ → ℝ) :
    Gen._stats_win_only_csd_np x1 x2 starts L w ω c u = (0, 0, 0, 0, 0) := by
  unfold Gen._stats_win_only_csd_np; simp [h]
theorem gen_np_detrend0_auto_K0 (x : Arr ℝ) (starts : Arr ℕ) (h : starts.n = 0) (L : ℕ) (w : Arr ℝ) (ω : ℝ) (c : ℕ) (u : ℕ → ℕ → ℝ) :
    Gen._stats_detrend0_auto_np x starts L w ω c u = (0, 0, 0, 0, 0) := by
  unfold Gen._stats_detrend0_auto_np; simp [h]
theorem gen_np_detrend0_csd_K0 (x1 x2 : Arr ℝ) (starts : Arr ℕ) (h : starts.n = 0) (L : ℕ) (w : Arr ℝ) (ω : ℝ) (c : ℕ) (u : ℕ → ℕ → ℝ) :
    Gen._stats_detrend0_csd_np x1 x2 starts L w ω c u = (0, 0, 0, 0, 0) := by
  unfold Gen._stats_detrend0_csd_np; simp [h]
theorem gen_np_poly_auto_K0 (x : Arr ℝ) (starts : Arr ℕ) (h : starts.n = 0) (L : ℕ) (w : Arr ℝ) (ω : ℝ) (Qa : Arr2 ℝ) (c : ℕ) (u : ℕ → ℕ → ℝ) :
    Gen._stats_poly_auto_np x starts L w ω Qa c u = (0, 0, 0, 0, 0) := by
  unfold Gen._stats_poly_auto_np; simp [h]
theorem gen_np_poly_csd_K0 (x1 x2 : Arr ℝ) (starts : Arr ℕ) (h : starts.n = 0) (L : ℕ) (w : Arr ℝ) (ω : ℝ) (Qa : Arr2 ℝ) (c : ℕ) (u : ℕ → ℕ → ℝ) :
    Gen._stats_poly_csd_np x1 x2 starts L w ω Qa c u = (0, 0, 0, 0, 0) := by
  unfold Gen._stats_poly_csd_np; simp [h]

/-- the chunk sizes the code actually uses (the keyword defaults in the source) satisfy the hypothesis `1 ≤ _chunk` -/
theorem gen_np_default_chunks_pos :
    1 ≤ Gen._stats_win_only_auto_np_chunk_default ∧ 1 ≤ Gen._stats_win_only_csd_np_chunk_default
    ∧ 1 ≤ Gen._stats_detrend0_auto_np_chunk_default ∧ 1 ≤ Gen._stats_detrend0_csd_np_chunk_default
    ∧ 1 ≤ Gen._stats_poly_auto_np_chunk_default ∧ 1 ≤ Gen._stats_poly_csd_np_chunk_default := by
  unfold Gen._stats_win_only_auto_np_chunk_default Gen._stats_win_only_csd_np_chunk_default Gen._stats_detrend0_auto_np_chunk_default
    Gen._stats_detrend0_csd_np_chunk_default Gen._stats_poly_auto_np_chunk_default Gen._stats_poly_csd_np_chunk_default
  omega

/-! ### transfer corollaries: what Props/C01 proves of the reference / of the Numba kernels holds of the translated NumPy fallbacks -/

/-- NumPy fallback = Numba kernel (as translated), every K including 0, every chunk size -/
theorem np_numba_agree_win_only_auto (x : Arr ℝ) (starts : Arr ℕ) (L : ℕ) (w : Arr ℝ) (ω : ℝ) (c : ℕ) (hc : 1 ≤ c) (u : ℕ → ℕ → ℝ) :
    Gen._stats_win_only_auto_np x starts L w ω c u = Gen._stats_win_only_auto x starts L w ω := by
  by_cases h : starts.n = 0
  · rw [gen_np_win_only_auto_K0 x starts h]; unfold Gen._stats_win_only_auto Gen._reduce_stats_nb; simp [h]
  · have hK : 0 < starts.n := Nat.pos_of_ne_zero h
    rw [gen_np_win_only_auto_eq_ref x starts hK L w ω (fun _ _ => 0) c hc u, stats_win_only_auto_eq_ref x starts hK L w ω (fun _ _ => 0)]

theorem np_numba_agree_win_only_csd (x1 x2 : Arr ℝ) (starts : Arr ℕ) (L : ℕ) (w : Arr ℝ) (ω : ℝ) (c : ℕ) (hc : 1 ≤ c) (u : ℕ → ℕ → ℝ) :
    Gen._stats_win_only_csd_np x1 x2 starts L w ω c u = Gen._stats_win_only_csd x1 x2 starts L w ω := by
  by_cases h : starts.n = 0
  · rw [gen_np_win_only_csd_K0 x1 x2 starts h]; unfold Gen._stats_win_only_csd Gen._reduce_stats_nb; simp [h]
  · have hK : 0 < starts.n := Nat.pos_of_ne_zero h
    rw [gen_np_win_only_csd_eq_ref x1 x2 starts hK L w ω (fun _ _ => 0) c hc u, stats_win_only_csd_eq_ref x1 x2 starts hK L w ω (fun _ _ => 0)]

theorem np_numba_agree_detrend0_auto (x : Arr ℝ) (starts : Arr ℕ) (L : ℕ) (w : Arr ℝ) (ω : ℝ) (c : ℕ) (hc : 1 ≤ c) (u : ℕ → ℕ → ℝ) :
    Gen._stats_detrend0_auto_np x starts L w ω c u = Gen._stats_detrend0_auto x starts L w ω := by
  by_cases h : starts.n = 0
  · rw [gen_np_detrend0_auto_K0 x starts h]; unfold Gen._stats_detrend0_auto Gen._reduce_stats_nb; simp [h]
  · have hK : 0 < starts.n := Nat.pos_of_ne_zero h
    rw [gen_np_detrend0_auto_eq_ref x starts hK L w ω (fun _ _ => 0) c hc u, stats_detrend0_auto_eq_ref x starts hK L w ω (fun _ _ => 0)]

theorem np_numba_agree_detrend0_csd (x1 x2 : Arr ℝ) (starts : Arr ℕ) (L : ℕ) (w : Arr ℝ) (ω : ℝ) (c : ℕ) (hc : 1 ≤ c) (u : ℕ → ℕ → ℝ) :
    Gen._stats_detrend0_csd_np x1 x2 starts L w ω c u = Gen._stats_detrend0_csd x1 x2 starts L w ω := by
  by_cases h : starts.n = 0
  · rw [gen_np_detrend0_csd_K0 x1 x2 starts h]; unfold Gen._stats_detrend0_csd Gen._reduce_stats_nb; simp [h]
  · have hK : 0 < starts.n := Nat.pos_of_ne_zero h
    rw [gen_np_detrend0_csd_eq_ref x1 x2 starts hK L w ω (fun _ _ => 0) c hc u, stats_detrend0_csd_eq_ref x1 x2 starts hK L w ω (fun _ _ => 0)]

theorem np_numba_agree_poly_auto (x : Arr ℝ) (starts : Arr ℕ) (L : ℕ) (w : Arr ℝ) (ω : ℝ) (Qa : Arr2 ℝ) (p : ℕ) (hp : 1 ≤ p)
    (hQ : Qa.m = p + 1) (c : ℕ) (hc : 1 ≤ c) (u : ℕ → ℕ → ℝ) :
    Gen._stats_poly_auto_np x starts L w ω Qa c u = Gen._stats_poly_auto x starts L w ω Qa := by
  by_cases h : starts.n = 0
  · rw [gen_np_poly_auto_K0 x starts h]; unfold Gen._stats_poly_auto Gen._reduce_stats_nb; simp [h]
  · have hK : 0 < starts.n := Nat.pos_of_ne_zero h
    rw [gen_np_poly_auto_eq_ref x starts hK L w ω Qa p hp hQ c hc u, stats_poly_auto_eq_ref x starts hK L w ω Qa p hp hQ]

theorem np_numba_agree_poly_csd (x1 x2 : Arr ℝ) (starts : Arr ℕ) (L : ℕ) (w : Arr ℝ) (ω : ℝ) (Qa : Arr2 ℝ) (p : ℕ) (hp : 1 ≤ p)
    (hQ : Qa.m = p + 1) (c : ℕ) (hc : 1 ≤ c) (u : ℕ → ℕ → ℝ) :
    Gen._stats_poly_csd_np x1 x2 starts L w ω Qa c u = Gen._stats_poly_csd x1 x2 starts L w ω Qa := by
  by_cases h : starts.n = 0
  · rw [gen_np_poly_csd_K0 x1 x2 starts h]; unfold Gen._stats_poly_csd Gen._reduce_stats_nb; simp [h]
  · have hK : 0 < starts.n := Nat.pos_of_ne_zero h
    rw [gen_np_poly_csd_eq_ref x1 x2 starts hK L w ω Qa p hp hQ c hc u, stats_poly_csd_eq_ref x1 x2 starts hK L w ω Qa p hp hQ]

example : ∃ (starts : Arr ℕ) (c : ℕ), 1 ≤ c ∧ 2 ≤ starts.n ∧ c < starts.n := ⟨⟨3, fun j => 2 * j⟩, 2, by decide, by decide, by decide⟩

/-- the chunk size does not matter: any two chunkings of the same bin give the same statistics (stated for the most general kernel) -/
theorem np_poly_csd_chunk_invariant (x1 x2 : Arr ℝ) (starts : Arr ℕ) (L : ℕ) (w : Arr ℝ) (ω : ℝ) (Qa : Arr2 ℝ) (p : ℕ) (hp : 1 ≤ p)
    (hQ : Qa.m = p + 1) (c c' : ℕ) (hc : 1 ≤ c) (hc' : 1 ≤ c') (u u' : ℕ → ℕ → ℝ) :
    Gen._stats_poly_csd_np x1 x2 starts L w ω Qa c u = Gen._stats_poly_csd_np x1 x2 starts L w ω Qa c' u' := by
  rw [np_numba_agree_poly_csd x1 x2 starts L w ω Qa p hp hQ c hc u, np_numba_agree_poly_csd x1 x2 starts L w ω Qa p hp hQ c' hc' u']

/-- auto mode is the diagonal for the translated NumPy auto kernels: MYY = MXX = mu_r, mu_i = 0 -/
theorem np_auto_is_diag_win_only (x : Arr ℝ) (starts : Arr ℕ) (hK : 0 < starts.n) (L : ℕ) (w : Arr ℝ) (ω : ℝ) (c : ℕ) (hc : 1 ≤ c) (u : ℕ → ℕ → ℝ) :
    let r := Gen._stats_win_only_auto_np x starts L w ω c u
    r.2.1 = r.1 ∧ r.2.2.1 = r.1 ∧ r.2.2.2.1 = 0 := by
  rw [gen_np_win_only_auto_eq_ref x starts hK L w ω (fun _ _ => 0) c hc u]
  exact auto_is_diag _ _ _ _ _ _ hK _ _

theorem np_auto_is_diag_detrend0 (x : Arr ℝ) (starts : Arr ℕ) (hK : 0 < starts.n) (L : ℕ) (w : Arr ℝ) (ω : ℝ) (c : ℕ) (hc : 1 ≤ c) (u : ℕ → ℕ → ℝ) :
    let r := Gen._stats_detrend0_auto_np x starts L w ω c u
    r.2.1 = r.1 ∧ r.2.2.1 = r.1 ∧ r.2.2.2.1 = 0 := by
  rw [gen_np_detrend0_auto_eq_ref x starts hK L w ω (fun _ _ => 0) c hc u]
  exact auto_is_diag _ _ _ _ _ _ hK _ _

theorem np_auto_is_diag_poly (x : Arr ℝ) (starts : Arr ℕ) (hK : 0 < starts.n) (L : ℕ) (w : Arr ℝ) (ω : ℝ) (Qa : Arr2 ℝ) (p : ℕ) (hp : 1 ≤ p)
    (hQ : Qa.m = p + 1) (c : ℕ) (hc : 1 ≤ c) (u : ℕ → ℕ → ℝ) :
    let r := Gen._stats_poly_auto_np x starts L w ω Qa c u
    r.2.1 = r.1 ∧ r.2.2.1 = r.1 ∧ r.2.2.2.1 = 0 := by
  rw [gen_np_poly_auto_eq_ref x starts hK L w ω Qa p hp hQ c hc u]
  exact auto_is_diag _ _ _ _ _ _ hK _ _

/-- sign convention pinned on the translated NumPy cross kernels (one segment): (mu_r, mu_i) = X · conj Y with the forward DFT -/
theorem np_cross_is_X_conjY_win_only (x1 x2 : Arr ℝ) (starts : Arr ℕ) (h1 : starts.n = 1) (L : ℕ) (w : Arr ℝ) (ω : ℝ) (c : ℕ) (hc : 1 ≤ c) (u : ℕ → ℕ → ℝ) :
    let r := Gen._stats_win_only_csd_np x1 x2 starts L w ω c u
    (⟨r.2.2.1, r.2.2.2.1⟩ : ℂ) = Cx.toC (Model.segDFT (-1) (fun _ _ => 0) x1.get (starts.get 0) L w.get ω)
      * (starRingEnd ℂ) (Cx.toC (Model.segDFT (-1) (fun _ _ => 0) x2.get (starts.get 0) L w.get ω)) := by
  rw [gen_np_win_only_csd_eq_ref x1 x2 starts (by omega) L w ω (fun _ _ => 0) c hc u, h1]
  exact ref_cross_is_X_conjY _ _ _ _ _ _ _ _

theorem np_cross_is_X_conjY_detrend0 (x1 x2 : Arr ℝ) (starts : Arr ℕ) (h1 : starts.n = 1) (L : ℕ) (w : Arr ℝ) (ω : ℝ) (c : ℕ) (hc : 1 ≤ c) (u : ℕ → ℕ → ℝ) :
    let r := Gen._stats_detrend0_csd_np x1 x2 starts L w ω c u
    (⟨r.2.2.1, r.2.2.2.1⟩ : ℂ) = Cx.toC (Model.segDFT 0 (fun _ _ => 0) x1.get (starts.get 0) L w.get ω)
      * (starRingEnd ℂ) (Cx.toC (Model.segDFT 0 (fun _ _ => 0) x2.get (starts.get 0) L w.get ω)) := by
  rw [gen_np_detrend0_csd_eq_ref x1 x2 starts (by omega) L w ω (fun _ _ => 0) c hc u, h1]
  exact ref_cross_is_X_conjY _ _ _ _ _ _ _ _

theorem np_cross_is_X_conjY_poly (x1 x2 : Arr ℝ) (starts : Arr ℕ) (h1 : starts.n = 1) (L : ℕ) (w : Arr ℝ) (ω : ℝ) (Qa : Arr2 ℝ) (p : ℕ) (hp : 1 ≤ p)
    (hQ : Qa.m = p + 1) (c : ℕ) (hc : 1 ≤ c) (u : ℕ → ℕ → ℝ) :
    let r := Gen._stats_poly_csd_np x1 x2 starts L w ω Qa c u
    (⟨r.2.2.1, r.2.2.2.1⟩ : ℂ) = Cx.toC (Model.segDFT (p : ℤ) Qa.get x1.get (starts.get 0) L w.get ω)
      * (starRingEnd ℂ) (Cx.toC (Model.segDFT (p : ℤ) Qa.get x2.get (starts.get 0) L w.get ω)) := by
  rw [gen_np_poly_csd_eq_ref x1 x2 starts (by omega) L w ω Qa p hp hQ c hc u, h1]
  exact ref_cross_is_X_conjY _ _ _ _ _ _ _ _

example : ∃ starts : Arr ℕ, starts.n = 1 := ⟨⟨1, fun _ => 4⟩, rfl⟩

/-- M2 of every translated NumPy fallback is non-negative (stated for the most general kernel) -/
theorem np_poly_csd_M2_nonneg (x1 x2 : Arr ℝ) (starts : Arr ℕ) (hK : 0 < starts.n) (L : ℕ) (w : Arr ℝ) (ω : ℝ) (Qa : Arr2 ℝ) (p : ℕ) (hp : 1 ≤ p)
    (hQ : Qa.m = p + 1) (c : ℕ) (hc : 1 ≤ c) (u : ℕ → ℕ → ℝ) :
    0 ≤ (Gen._stats_poly_csd_np x1 x2 starts L w ω Qa c u).2.2.2.2 := by
  rw [gen_np_poly_csd_eq_ref x1 x2 starts hK L w ω Qa p hp hQ c hc u]
  exact reduce_M2_nonneg _ hK _ _ _ _

#print axioms gen_gather_segments_spec
#print axioms gen_np_win_only_auto_eq_ref
#print axioms gen_np_win_only_csd_eq_ref
#print axioms gen_np_detrend0_auto_eq_ref
#print axioms gen_np_detrend0_csd_eq_ref
#print axioms gen_np_poly_auto_eq_ref
#print axioms gen_np_poly_csd_eq_ref
#print axioms gen_np_win_only_auto_K0
#print axioms gen_np_win_only_csd_K0
#print axioms gen_np_detrend0_auto_K0
#print axioms gen_np_detrend0_csd_K0
#print axioms gen_np_poly_auto_K0
#print axioms gen_np_poly_csd_K0
#print axioms gen_np_default_chunks_pos
#print axioms np_numba_agree_win_only_auto
#print axioms np_numba_agree_win_only_csd
#print axioms np_numba_agree_detrend0_auto
#print axioms np_numba_agree_detrend0_csd
#print axioms np_numba_agree_poly_auto
#print axioms np_numba_agree_poly_csd
#print axioms np_poly_csd_chunk_invariant
#print axioms np_auto_is_diag_win_only
#print axioms np_auto_is_diag_detrend0
#print axioms np_auto_is_diag_poly
#print axioms np_cross_is_X_conjY_win_only
#print axioms np_cross_is_X_conjY_detrend0
#print axioms np_cross_is_X_conjY_poly
#print axioms np_poly_csd_M2_nonneg
