/-
  SpecKitV.Props.C02 — every plan segments the record safely and completely.

  For each of the four schedulers of `Model/Sched.lean` (at `α := ℝ`) every bin of the plan has
  `max 1 Lmin ≤ L ≤ N`, `1 ≤ K = navg = #D`, first start `0`, last start `N − L`, strictly
  increasing starts that all fit in the record, and `K = 1 → L = N`.  The analyzer's validation
  of a plan accepts every such bin.

  The file also proves the stronger per-bin record `BinFull` (even spreading and the reported
  overlap) that `Props/C04` re-exports, and the "plan = map over the walk" equations used by
  `Props/C03`.
-/
import SpecKitV.RealInst
import SpecKitV.Model.Sched
import SpecKitV.Lemmas.SchedLtf
import SpecKitV.Lemmas.SchedNewVec
import SpecKitV.Lemmas.Starts

set_option linter.unusedVariables false

/-- what the property demands of one bin (LminEff = Lmin, or 1 for lpsd) -/
def BinSafe (N LminEff : ℕ) (b : Model.Bin ℝ) : Prop :=
  max 1 LminEff ≤ b.L ∧ b.L ≤ N ∧ 1 ≤ b.K ∧ b.navg = b.K ∧ b.D.length = b.K.toNat ∧ b.D.head? = some 0 ∧
  b.D.getLast? = some ((N : ℤ) - b.L) ∧ b.D.Pairwise (· < ·) ∧ (∀ d ∈ b.D, 0 ≤ d ∧ d + b.L ≤ N) ∧ (b.K = 1 → b.L = N)

/-- `BinSafe` plus even spreading of the starts and the reported overlap (used by C04) -/
def BinFull (N LminEff : ℕ) (b : Model.Bin ℝ) : Prop :=
  BinSafe N LminEff b ∧
  (2 ≤ b.K → ∀ i (hi : i < b.D.length),
      |((b.D.get ⟨i, hi⟩ : ℤ) : ℝ) - i * (((N : ℝ) - b.L) / ((b.K : ℝ) - 1))| ≤ 1 / 2) ∧
  b.O = Model.overlapMean (α := ℝ) b.L b.D ∧ (b.K = 1 → b.O = 0) ∧
  (2 ≤ b.K → b.O = ((b.L : ℝ) - ((N : ℝ) - b.L) / ((b.K : ℝ) - 1)) / b.L)

namespace PlanC02
open Model

/-! ### configurations -/

theorem adm_nv {c : Cfg ℝ} (h : Adm c) : SchedNV.Adm c :=
  ⟨h.hN, h.hfs, h.holap0, h.holap1, h.hbmin1, h.hbminN, h.hLmin1, h.hLminN, h.hJ, h.hK⟩

/-- the configuration `lpsd_plan` hands to `ltf_plan` is admissible -/
theorem adm_lpsd {c : Cfg ℝ} (h : Adm c) : Adm { c with bmin := RealLike.one, Lmin := 1 } := by
  have hN : (8 : ℝ) ≤ (c.N : ℝ) := by exact_mod_cast h.hN
  refine ⟨h.hN, h.hfs, h.holap0, h.holap1, ?_, ?_, le_refl _, ?_, h.hJ, h.hK⟩
  · show (1 : ℝ) ≤ RealLike.one
    rw [RL.one_eq]
  · show (RealLike.one : ℝ) < (c.N : ℝ) / 2
    rw [RL.one_eq]; linarith
  · show 1 ≤ c.N
    have := h.hN; omega

/-! ### one bin from its length, count and start list -/

theorem overlapMean_single (L : ℕ) (d : ℤ) : overlapMean (α := ℝ) L [d] = 0 := by
  show (RealLike.zero : ℝ) = 0
  rw [RL.zero_eq]

theorem overlapClosed_one (N L : ℕ) : overlapClosed (α := ℝ) N L 1 = 0 := by
  unfold overlapClosed
  rw [if_neg (by omega), RL.zero_eq]

theorem binFull_single (N LminEff : ℕ) (f r bb o : ℝ) (hL : max 1 LminEff ≤ N) (ho : o = 0) :
    BinFull N LminEff { f := f, r := r, b := bb, L := N, K := 1, navg := 1, D := [0], O := o } := by
  refine ⟨⟨hL, le_refl _, le_refl _, rfl, rfl, rfl, ?_, List.pairwise_singleton _ _, ?_, fun _ => rfl⟩,
    ?_, ?_, fun _ => ho, ?_⟩
  · show [(0 : ℤ)].getLast? = some ((N : ℤ) - (N : ℤ))
    rw [sub_self]; rfl
  · intro d hd
    rw [List.mem_singleton] at hd
    subst hd
    show (0 : ℤ) ≤ 0 ∧ (0 : ℤ) + (N : ℤ) ≤ (N : ℤ)
    omega
  · intro h2; exact absurd h2 (by norm_num)
  · show o = overlapMean (α := ℝ) N [0]
    rw [overlapMean_single, ho]
  · intro h2; exact absurd h2 (by norm_num)

/-- a bin built the `ltf_plan` way -/
theorem binFull_accum (N LminEff L : ℕ) (K : ℤ) (f r bb : ℝ) (hL : max 1 LminEff ≤ L) (hLN : L ≤ N)
    (hK1 : 1 ≤ K) (hcap : K ≤ (N : ℤ) - L + 1) (h1 : K = 1 → L = N) :
    BinFull N LminEff
      { f := f, r := r, b := bb, L := L, K := K, navg := K,
        D := startsAccum (α := ℝ) N L K, O := overlapMean L (startsAccum (α := ℝ) N L K) } := by
  have hL1 : 1 ≤ L := le_trans (le_max_left _ _) hL
  by_cases hK : K = 1
  · subst hK
    have := h1 rfl
    subst this
    rw [startsAccum_one]
    exact binFull_single L LminEff f r bb _ hL (overlapMean_single L 0)
  · have hK2 : 2 ≤ K := by omega
    have hs := startsAccum_safe N L K hL1 hLN hK2 hcap
    have ho := overlapMean_accum_eq_closed N L K hL1 hLN hK2 hcap
    refine ⟨⟨hL, hLN, hK1, rfl, hs.1, hs.2.1, hs.2.2.1, hs.2.2.2.1, hs.2.2.2.2.1, fun e => absurd e hK⟩,
      fun _ => hs.2.2.2.2.2, rfl, fun e => absurd e hK, fun _ => ?_⟩
    show overlapMean (α := ℝ) L (startsAccum (α := ℝ) N L K) = _
    rw [ho, overlapClosed_eq N L K hK2]

/-- a bin built the `new_ltf_plan` / `vectorized_ltf_plan` way -/
theorem binFull_even (N LminEff L : ℕ) (K : ℤ) (f r bb : ℝ) (hL : max 1 LminEff ≤ L) (hLN : L ≤ N)
    (hK1 : 1 ≤ K) (hcap : K ≤ (N : ℤ) - L + 1) (h1 : K = 1 → L = N) :
    BinFull N LminEff
      { f := f, r := r, b := bb, L := L, K := K, navg := K,
        D := startsEven (α := ℝ) N L K, O := overlapClosed (α := ℝ) N L K } := by
  have hL1 : 1 ≤ L := le_trans (le_max_left _ _) hL
  by_cases hK : K = 1
  · subst hK
    have := h1 rfl
    subst this
    rw [startsEven_one]
    exact binFull_single L LminEff f r bb _ hL (overlapClosed_one L L)
  · have hK2 : 2 ≤ K := by omega
    have hs := startsEven_safe N L K hL1 hLN hK2 hcap
    have ho := overlapMean_eq_closed N L K hL1 hLN hK2 hcap
    refine ⟨⟨hL, hLN, hK1, rfl, hs.1, hs.2.1, hs.2.2.1, hs.2.2.2.1, hs.2.2.2.2.1, fun e => absurd e hK⟩,
      fun _ => hs.2.2.2.2.2, ho.symm, fun e => absurd e hK, fun _ => ?_⟩
    show overlapClosed (α := ℝ) N L K = _
    rw [overlapClosed_eq N L K hK2]

/-! ### the plans as maps over their walks -/

/-- the bin `ltf_plan` records for one walk entry -/
noncomputable def mkLtf (c : Cfg ℝ) (e : ℝ × ℝ × ℝ × ℕ × ℤ) : Bin ℝ :=
  { f := e.1, r := e.2.1, b := e.2.2.1, L := e.2.2.2.1, K := e.2.2.2.2, navg := e.2.2.2.2,
    D := startsAccum (α := ℝ) c.N e.2.2.2.1 e.2.2.2.2,
    O := overlapMean e.2.2.2.1 (startsAccum (α := ℝ) c.N e.2.2.2.1 e.2.2.2.2) }

theorem ltfPlan_map (c : Cfg ℝ) (fuel : ℕ) :
    ltfPlan c fuel =
      (walk fuel (consts c).fmax (ltfStep c (consts c)) (consts c).fmin).map (mkLtf c) := rfl

theorem lpsdPlan_def (c : Cfg ℝ) (fuel : ℕ) :
    lpsdPlan c fuel = ltfPlan { c with bmin := RealLike.one, Lmin := 1 } fuel := rfl

/-- the bin `new_ltf_plan` records for one walk entry -/
noncomputable def mkNew (c : Cfg ℝ) (e : ℝ × ℝ × ℝ × ℕ × ℤ) : Bin ℝ :=
  { f := e.1, r := e.2.1, b := e.2.2.1, L := e.2.2.2.1, K := e.2.2.2.2, navg := e.2.2.2.2,
    D := startsEven (α := ℝ) c.N e.2.2.2.1 e.2.2.2.2,
    O := overlapClosed (α := ℝ) c.N e.2.2.2.1 e.2.2.2.2 }

/-- initial state of the `new_ltf_plan` loop -/
noncomputable def newS0 (c : Cfg ℝ) : NewState ℝ :=
  { fi := (consts c).fmin, j := 0, stage2 := false, stage3 := false,
    alpha := RealLike.zero, kStage2 := 0, crossover := 0 }

theorem newPlan_map (c : Cfg ℝ) (fuel : ℕ) :
    newPlan c fuel = (newWalk fuel c (consts c) (newS0 c)).map (mkNew c) := rfl

/-- the bin `vectorized_ltf_plan` records for one walk entry -/
noncomputable def mkVec (c : Cfg ℝ) (e : ℝ × ℝ × ℕ × ℤ) : Bin ℝ :=
  { f := e.1, r := e.2.1, b := e.1 / e.2.1, L := e.2.2.1, K := e.2.2.2, navg := e.2.2.2,
    D := startsEven (α := ℝ) c.N e.2.2.1 e.2.2.2,
    O := overlapClosed (α := ℝ) c.N e.2.2.1 e.2.2.2 }

/-- the parameter map of `vectorized_ltf_plan` on its own log grid -/
noncomputable def vecMap (c : Cfg ℝ) (i : ℕ) : ℝ × ℕ × ℤ :=
  vecGridPoint c (RealLike.one - c.olap) (c.fs / RealLike.ofNat c.N)
    (c.fs / RealLike.ofNat c.N * (RealLike.one + (RealLike.one - c.olap) * (RealLike.ofNat c.Kdes - RealLike.one)))
    (RealLike.pow (RealLike.ofNat c.N / RealLike.two) (RealLike.one / RealLike.ofNat c.Jdes) - RealLike.one)
    (vecGrid c i)

/-- the entries of the vectorised walk -/
noncomputable def vecEntries (c : Cfg ℝ) (fuel : ℕ) : List (ℝ × ℝ × ℕ × ℤ) :=
  vecWalk fuel (c.fs / RealLike.two) (vecGrid c) (10 * c.Jdes) (vecMap c)
    (c.bmin * c.fs / RealLike.ofNat c.N)

theorem vecPlan_map (c : Cfg ℝ) (fuel : ℕ) :
    vecPlan c fuel = (vecEntries c fuel).map (mkVec c) := rfl

/-! ### per-entry facts of the walks -/

/-- every entry of the LTF walk (fuel `N`) is the step at its own frequency, which is `≥ fmin > 0` -/
theorem ltf_entry (c : Cfg ℝ) (h : Adm c)
    (e : ℝ × ℝ × ℝ × ℕ × ℤ)
    (he : e ∈ walk c.N (consts c).fmax (ltfStep c (consts c)) (consts c).fmin) :
    e.2 = ltfStep c (consts c) e.1 ∧ (consts c).fmin ≤ e.1 ∧ 0 < e.1 ∧ e.1 < (consts c).fmax := by
  have h1 := walk_entry_is_step _ _ _ _ e he
  have h2 := ltf_walk_ge_fmin c h e he
  have h3 := walk_below _ _ _ _ e he
  exact ⟨h1, h2, lt_of_lt_of_le (SchedLtf.fmin_pos c h) h2, h3⟩

/-- facts of `vecGridPoint` that need only `0 < xov` -/
theorem vecGridPoint_props' (c : Cfg ℝ) (h : Adm c) (xov rmin ravg clog fg : ℝ) (hx0 : 0 < xov) :
    let o := vecGridPoint c xov rmin ravg clog fg
    o.1 * (o.2.1 : ℝ) = c.fs ∧ 0 < o.1 ∧ c.fs / c.N ≤ o.1 ∧ max 1 c.Lmin ≤ o.2.1 ∧ o.2.1 ≤ c.N ∧
    1 ≤ o.2.2 ∧ o.2.2 ≤ (c.N : ℤ) - o.2.1 + 1 ∧ (o.2.2 = 1 → o.2.1 = c.N) := by
  obtain ⟨l, hl⟩ := SchedNV.vecGridPoint_eq c xov rmin ravg clog fg
  have hb := SchedNV.clampClip_bounds c.N c.Lmin h.hLminN l
  have hp := SchedNV.binAt_props c (adm_nv h) xov fg hx0 _ hb.1 hb.2
  rw [hl]
  exact ⟨hp.1, hp.2.1, hp.2.2.1, hp.2.2.2.1, hp.2.2.2.2.1, hp.2.2.2.2.2.1, hp.2.2.2.2.2.2.1,
    hp.2.2.2.2.2.2.2.1⟩

theorem vec_entry (c : Cfg ℝ) (h : Adm c) (fuel : ℕ) (e : ℝ × ℝ × ℕ × ℤ) (he : e ∈ vecEntries c fuel) :
    e.1 < c.fs / 2 ∧
    e.2.1 * (e.2.2.1 : ℝ) = c.fs ∧ 0 < e.2.1 ∧ c.fs / c.N ≤ e.2.1 ∧ max 1 c.Lmin ≤ e.2.2.1 ∧ e.2.2.1 ≤ c.N ∧
    1 ≤ e.2.2.2 ∧ e.2.2.2 ≤ (c.N : ℤ) - e.2.2.1 + 1 ∧ (e.2.2.2 = 1 → e.2.2.1 = c.N) := by
  obtain ⟨idx, _, hmap, _⟩ := SchedNV.vecWalk_entry_from_map _ _ _ _ _ _ e he
  have hlt := SchedNV.vecWalk_below _ _ _ _ _ _ e he
  have hx0 : (0 : ℝ) < RealLike.one - c.olap := by
    show (0 : ℝ) < (RealLike.one : ℝ) - c.olap
    rw [RL.one_eq]; linarith [h.holap1]
  have hp := vecGridPoint_props' c h (RealLike.one - c.olap) (c.fs / RealLike.ofNat c.N)
    (c.fs / RealLike.ofNat c.N * (RealLike.one + (RealLike.one - c.olap) * (RealLike.ofNat c.Kdes - RealLike.one)))
    (RealLike.pow (RealLike.ofNat c.N / RealLike.two) (RealLike.one / RealLike.ofNat c.Jdes) - RealLike.one)
    (vecGrid c idx) hx0
  have hmap' : e.2 = vecGridPoint c (RealLike.one - c.olap) (c.fs / RealLike.ofNat c.N)
    (c.fs / RealLike.ofNat c.N * (RealLike.one + (RealLike.one - c.olap) * (RealLike.ofNat c.Kdes - RealLike.one)))
    (RealLike.pow (RealLike.ofNat c.N / RealLike.two) (RealLike.one / RealLike.ofNat c.Jdes) - RealLike.one)
    (vecGrid c idx) := hmap
  simp only at hp
  rw [← hmap'] at hp
  refine ⟨?_, hp⟩
  have e2 : (c.fs / RealLike.two : ℝ) = c.fs / 2 := by
    show c.fs / (RealLike.two : ℝ) = c.fs / 2
    rw [RL.two_eq]
  rw [← e2]; exact hlt

/-! ### the four plans -/

theorem ltfPlan_full (c : Cfg ℝ) (h : Adm c) (extra : ℕ) :
    ltfPlan c (c.N + extra) ≠ [] ∧ ∀ b ∈ ltfPlan c (c.N + extra), BinFull c.N c.Lmin b := by
  rw [ltfPlan_map, ltf_walk_fuel c h extra]
  constructor
  · intro hnil
    exact ltf_walk_nonempty c h (List.map_eq_nil_iff.mp hnil)
  · intro b hb
    obtain ⟨e, he, rfl⟩ := List.mem_map.mp hb
    obtain ⟨hstep, _, hpos, _⟩ := ltf_entry c h e he
    have hL := ltfStep_L_bounds c h e.1 hpos
    have hK := ltfStep_K c h e.1 hpos
    simp only at hL hK
    rw [← hstep] at hL hK
    exact binFull_accum c.N c.Lmin e.2.2.2.1 e.2.2.2.2 e.1 e.2.1 e.2.2.1 hL.1 hL.2 hK.1 hK.2.1 hK.2.2.1

theorem lpsdPlan_full (c : Cfg ℝ) (h : Adm c) (extra : ℕ) :
    lpsdPlan c (c.N + extra) ≠ [] ∧ ∀ b ∈ lpsdPlan c (c.N + extra), BinFull c.N 1 b :=
  ltfPlan_full { c with bmin := RealLike.one, Lmin := 1 } (adm_lpsd h) extra

theorem newS0_fi (c : Cfg ℝ) : (newS0 c).fi = (consts c).fmin := rfl

theorem newPlan_full (c : Cfg ℝ) (h : Adm c) (extra : ℕ) :
    newPlan c (c.N + extra) ≠ [] ∧ ∀ b ∈ newPlan c (c.N + extra), BinFull c.N c.Lmin b := by
  rw [newPlan_map, SchedNV.newWalk_fuel c (adm_nv h) (newS0 c) (le_refl _) extra]
  constructor
  · intro hnil
    have hw := List.map_eq_nil_iff.mp hnil
    obtain ⟨n, hn⟩ : ∃ n, c.N = n + 1 := ⟨c.N - 1, by have := h.hN; omega⟩
    rw [hn, SchedNV.newWalk_succ_pos n c _ (newS0 c) (SchedLtf.fmin_lt_fmax c h)] at hw
    exact List.cons_ne_nil _ _ hw
  · intro b hb
    obtain ⟨e, he, rfl⟩ := List.mem_map.mp hb
    have hp := SchedNV.newWalk_bins c.N c (adm_nv h) (newS0 c) (SchedLtf.fmin_pos c h) e he
    exact binFull_even c.N c.Lmin e.2.2.2.1 e.2.2.2.2 e.1 e.2.1 e.2.2.1 hp.2.2.1 hp.2.2.2.1 hp.2.2.2.2.1
      hp.2.2.2.2.2.1 hp.2.2.2.2.2.2.1

theorem vecPlan_full (c : Cfg ℝ) (h : Adm c) (fuel : ℕ) :
    ∀ b ∈ vecPlan c fuel, BinFull c.N c.Lmin b := by
  rw [vecPlan_map]
  intro b hb
  obtain ⟨e, he, rfl⟩ := List.mem_map.mp hb
  have hp := vec_entry c h fuel e he
  exact binFull_even c.N c.Lmin e.2.2.1 e.2.2.2 e.1 e.2.1 (e.1 / e.2.1) hp.2.2.2.2.1 hp.2.2.2.2.2.1
    hp.2.2.2.2.2.2.1 hp.2.2.2.2.2.2.2.1 hp.2.2.2.2.2.2.2.2

end PlanC02

open PlanC02

/-! ### the requested statements -/

theorem ltfPlan_safe (c : Model.Cfg ℝ) (h : Adm c) (extra : ℕ) :
    Model.ltfPlan c (c.N + extra) ≠ [] ∧ ∀ b ∈ Model.ltfPlan c (c.N + extra), BinSafe c.N c.Lmin b :=
  ⟨(ltfPlan_full c h extra).1, fun b hb => ((ltfPlan_full c h extra).2 b hb).1⟩

theorem lpsdPlan_safe (c : Model.Cfg ℝ) (h : Adm c) (extra : ℕ) :
    Model.lpsdPlan c (c.N + extra) ≠ [] ∧ ∀ b ∈ Model.lpsdPlan c (c.N + extra), BinSafe c.N 1 b :=
  ⟨(lpsdPlan_full c h extra).1, fun b hb => ((lpsdPlan_full c h extra).2 b hb).1⟩

theorem newPlan_safe (c : Model.Cfg ℝ) (h : Adm c) (extra : ℕ) :
    Model.newPlan c (c.N + extra) ≠ [] ∧ ∀ b ∈ Model.newPlan c (c.N + extra), BinSafe c.N c.Lmin b :=
  ⟨(newPlan_full c h extra).1, fun b hb => ((newPlan_full c h extra).2 b hb).1⟩

theorem vecPlan_safe (c : Model.Cfg ℝ) (h : Adm c) (fuel : ℕ) :
    ∀ b ∈ Model.vecPlan c fuel, BinSafe c.N c.Lmin b :=
  fun b hb => (vecPlan_full c h fuel b hb).1

/-- the analyzer's validation of a scheduler's output (analysis.py:474-498) accepts every safe bin -/
def planValid (N Lmin : ℕ) (isLpsd : Bool) (b : Model.Bin ℝ) : Bool :=
  !((decide (b.L < Lmin) && !isLpsd) || decide (b.L < 1)) && !b.D.isEmpty &&
  b.D.all (fun d => decide (0 ≤ d) && decide (d ≤ (N : ℤ) - b.L)) && decide (b.K = (b.D.length : ℤ))

theorem planValid_of (N Lmin : ℕ) (isLpsd : Bool) (b : Model.Bin ℝ) (hL : isLpsd = true ∨ Lmin ≤ b.L)
    (hL1 : 1 ≤ b.L) (hK1 : 1 ≤ b.K) (hlen : b.D.length = b.K.toNat)
    (hall : ∀ d ∈ b.D, 0 ≤ d ∧ d + b.L ≤ N) : planValid N Lmin isLpsd b = true := by
  unfold planValid
  have h1 : (decide (b.L < Lmin) && !isLpsd) = false := by
    rcases hL with hL | hL
    · rw [hL]; simp
    · have : ¬ b.L < Lmin := by omega
      simp [this]
  have h2 : decide (b.L < 1) = false := by
    have : ¬ b.L < 1 := by omega
    simp [this]
  have h3 : b.D.isEmpty = false := by
    cases hD : b.D with
    | nil => rw [hD] at hlen; simp at hlen; omega
    | cons a t => rfl
  have h4 : b.D.all (fun d => decide (0 ≤ d) && decide (d ≤ (N : ℤ) - b.L)) = true := by
    rw [List.all_eq_true]
    intro d hd
    have := hall d hd
    have h5 : d ≤ (N : ℤ) - b.L := by omega
    simp [this.1, h5]
  have h5 : decide (b.K = (b.D.length : ℤ)) = true := by
    have : b.K = (b.D.length : ℤ) := by rw [hlen]; omega
    simp [this]
  rw [h1, h2, h3, h4, h5]
  rfl

theorem planValidate_ok (N Lmin : ℕ) (b : Model.Bin ℝ) (hb : BinSafe N Lmin b) : planValid N Lmin false b = true := by
  obtain ⟨hL, hLN, hK1, _, hlen, _, _, _, hall, _⟩ := hb
  exact planValid_of N Lmin false b (Or.inr (le_trans (le_max_right _ _) hL))
    (le_trans (le_max_left _ _) hL) hK1 hlen hall

theorem planValidate_ok_lpsd (N Lmin : ℕ) (b : Model.Bin ℝ) (hb : BinSafe N 1 b) : planValid N Lmin true b = true := by
  obtain ⟨hL, hLN, hK1, _, hlen, _, _, _, hall, _⟩ := hb
  exact planValid_of N Lmin true b (Or.inl rfl) (le_trans (le_max_left _ _) hL) hK1 hlen hall

/-- non-vacuity: the admissible configuration of `Lemmas/SchedLtf.lean` has a non-empty safe plan -/
example : ∃ b, b ∈ Model.ltfPlan (α := ℝ) { N := 1000, fs := 2, olap := 1/2, bmin := 1, Lmin := 1, Jdes := 100, Kdes := 10 } (1000 + 8)
    ∧ BinSafe 1000 1 b := by
  have hA : Adm { N := 1000, fs := 2, olap := 1/2, bmin := 1, Lmin := 1, Jdes := 100, Kdes := 10 } := by
    constructor <;> norm_num
  obtain ⟨hne, hall⟩ := ltfPlan_safe _ hA 8
  obtain ⟨b, hb⟩ := List.exists_mem_of_ne_nil _ hne
  exact ⟨b, hb, hall b hb⟩

#print axioms ltfPlan_safe
#print axioms lpsdPlan_safe
#print axioms newPlan_safe
#print axioms vecPlan_safe
#print axioms planValidate_ok
#print axioms planValidate_ok_lpsd
#print axioms PlanC02.ltfPlan_full
#print axioms PlanC02.lpsdPlan_full
#print axioms PlanC02.newPlan_full
#print axioms PlanC02.vecPlan_full
