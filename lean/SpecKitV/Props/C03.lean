/-
  SpecKitV.Props.C03 — the frequency grid of every plan obeys the DFT and stepping constraints:
  `r·L = fs`, `f < fs/2`, `b = f/r = f·L/fs`, consecutive frequencies differ by the resolution
  of the earlier bin, frequencies strictly increase, the first frequency is `fs/N·bmin`, and the
  bin number stays above `bmin` (up to the rounding of `L` for the LTF/LPSD scheduler).
-/
import SpecKitV.Props.C02

set_option linter.unusedVariables false

def GridOK (c : Model.Cfg ℝ) (bminEff : ℝ) (l : List (Model.Bin ℝ)) : Prop :=
  (∀ b ∈ l, b.r * (b.L : ℝ) = c.fs ∧ b.f < c.fs / 2 ∧ b.b = b.f / b.r ∧ b.b = b.f * (b.L : ℝ) / c.fs ∧ 0 < b.r) ∧
  l.IsChain (fun a b => b.f = a.f + a.r) ∧ l.Pairwise (fun a b => a.f < b.f) ∧
  (∀ b0, l.head? = some b0 → b0.f = c.fs / c.N * bminEff)

namespace PlanC03
open Model PlanC02

/-- a chain `f b = f a + r a` with positive `r` is strictly increasing (pairwise) -/
theorem pairwise_lt_of_chain {β : Type} (l : List β) (f r : β → ℝ)
    (hc : l.IsChain (fun a b => f b = f a + r a)) (hr : ∀ a ∈ l, 0 < r a) :
    l.Pairwise (fun a b => f a < f b) := by
  have h1 : l.IsChain (fun a b => f a < f b) :=
    hc.imp_of_mem_imp (fun a b ha _ hab => by have := hr a ha; linarith)
  have : Trans (fun a b : β => f a < f b) (fun a b => f a < f b) (fun a b => f a < f b) :=
    ⟨fun h1 h2 => lt_trans h1 h2⟩
  exact h1.pairwise

theorem gridOK_of (c : Cfg ℝ) (bminEff : ℝ) (l : List (Bin ℝ))
    (hbin : ∀ b ∈ l, b.r * (b.L : ℝ) = c.fs ∧ b.f < c.fs / 2 ∧ b.b = b.f / b.r ∧
      b.b = b.f * (b.L : ℝ) / c.fs ∧ 0 < b.r)
    (hchain : l.IsChain (fun a b => b.f = a.f + a.r))
    (hhead : ∀ b0, l.head? = some b0 → b0.f = c.fs / c.N * bminEff) : GridOK c bminEff l :=
  ⟨hbin, hchain, pairwise_lt_of_chain l (fun b => b.f) (fun b => b.r) hchain
    (fun b hb => (hbin b hb).2.2.2.2), hhead⟩

/-- the entries of the LTF walk have strictly increasing frequencies -/
theorem ltf_walk_pairwise (c : Cfg ℝ) (h : Adm c) :
    (walk c.N (consts c).fmax (ltfStep c (consts c)) (consts c).fmin).Pairwise
      (fun a b => a.1 < b.1) := by
  refine pairwise_lt_of_chain _ (fun e : ℝ × ℝ × ℝ × ℕ × ℤ => e.1) (fun e => e.2.1)
    (walk_stepping _ _ _ _) ?_
  intro e he
  obtain ⟨hstep, _, hpos, _⟩ := ltf_entry c h e he
  have hr := (ltfStep_rL c h e.1 hpos).2.1
  rw [← hstep] at hr
  exact hr

/-- one more per-entry fact of the multi-stage walk: the recorded bin number is the one `newStep`
    computes from a state whose frequency is the recorded one (and is ≥ the starting frequency) -/
theorem newWalk_entry (c : Cfg ℝ) (h : SchedNV.Adm c) (fuel : ℕ) (s : NewState ℝ) (hfi : 0 < s.fi) :
    ∀ e ∈ newWalk fuel c (consts c) s, ∃ s' : NewState ℝ, s.fi ≤ s'.fi ∧ e.1 = s'.fi ∧
      e.2.1 = (newStep c (consts c) s').1.1 ∧ e.2.2.1 = (newStep c (consts c) s').1.2.1 := by
  induction fuel generalizing s with
  | zero => intro e he; simp [SchedNV.newWalk_zero] at he
  | succ n ih =>
    by_cases hlt : s.fi < (consts c).fmax
    · rw [SchedNV.newWalk_succ_pos n c _ s hlt]
      intro e he
      rcases List.mem_cons.mp he with rfl | he
      · exact ⟨s, le_refl _, rfl, rfl, rfl⟩
      · have hr := (SchedNV.newStep_rL c h s hfi).2.1
        have hn := (SchedNV.newStep_next c s).1
        obtain ⟨s', h1, h2⟩ := ih (newStep c (consts c) s).2 (by rw [hn]; linarith) e he
        exact ⟨s', by rw [hn] at h1; linarith, h2⟩
    · rw [SchedNV.newWalk_succ_neg n c _ s hlt]; intro e he; simp at he

theorem fmax_eq' (c : Cfg ℝ) : (consts c).fmax = c.fs / 2 := SchedLtf.fmax_eq c

end PlanC03

open PlanC02 PlanC03

theorem ltfPlan_grid (c : Model.Cfg ℝ) (h : Adm c) (extra : ℕ) :
    GridOK c c.bmin (Model.ltfPlan c (c.N + extra)) ∧
    ∀ b ∈ Model.ltfPlan c (c.N + extra), c.bmin - b.f / (2 * c.fs) ≤ b.b := by
  rw [ltfPlan_map, ltf_walk_fuel c h extra]
  constructor
  · apply gridOK_of
    · intro b hb
      obtain ⟨e, he, rfl⟩ := List.mem_map.mp hb
      obtain ⟨hstep, _, hpos, hlt⟩ := ltf_entry c h e he
      have hr := ltfStep_rL c h e.1 hpos
      have hbin := ltfStep_bin c h e.1 hpos
      simp only at hr hbin
      rw [← hstep] at hr hbin
      rw [fmax_eq'] at hlt
      exact ⟨hr.1, hlt, hbin.1, hbin.2, hr.2.1⟩
    · exact (List.isChain_map (mkLtf c)).2 (walk_stepping _ _ _ _)
    · intro b0 hb0
      have hN : 0 < c.N := lt_of_lt_of_le (by norm_num) h.hN
      rw [List.head?_map, walk_first c.N _ _ _ hN (SchedLtf.fmin_lt_fmax c h)] at hb0
      simp only [Option.map_some, Option.some.injEq] at hb0
      rw [← hb0]
      exact SchedLtf.fmin_eq c
  · intro b hb
    obtain ⟨e, he, rfl⟩ := List.mem_map.mp hb
    obtain ⟨hstep, hge, hpos, _⟩ := ltf_entry c h e he
    rw [SchedLtf.fmin_eq] at hge
    have hs := ltfStep_bmin_slack c h e.1 hge
    simp only at hs
    rw [← hstep] at hs
    exact hs

theorem lpsd_is_ltf (c : Model.Cfg ℝ) (fuel : ℕ) : Model.lpsdPlan c fuel = Model.ltfPlan { c with bmin := 1, Lmin := 1 } fuel := by
  rw [lpsdPlan_def, RL.one_eq]

/-- hence the LPSD plan has the LTF grid properties with `bmin = 1` -/
theorem lpsdPlan_grid (c : Model.Cfg ℝ) (h : Adm c) (extra : ℕ) :
    GridOK c 1 (Model.lpsdPlan c (c.N + extra)) ∧
    ∀ b ∈ Model.lpsdPlan c (c.N + extra), 1 - b.f / (2 * c.fs) ≤ b.b := by
  have hA : Adm { c with bmin := (1 : ℝ), Lmin := 1 } := by
    have := adm_lpsd h
    rwa [RL.one_eq] at this
  rw [lpsd_is_ltf]
  exact ltfPlan_grid { c with bmin := (1 : ℝ), Lmin := 1 } hA extra

theorem newPlan_grid (c : Model.Cfg ℝ) (h : Adm c) (extra : ℕ) :
    GridOK c c.bmin (Model.newPlan c (c.N + extra)) ∧ ∀ b ∈ Model.newPlan c (c.N + extra), c.bmin ≤ b.b := by
  rw [newPlan_map, SchedNV.newWalk_fuel c (adm_nv h) (newS0 c) (le_refl _) extra]
  have hfs := h.hfs
  constructor
  · apply gridOK_of
    · intro b hb
      obtain ⟨e, he, rfl⟩ := List.mem_map.mp hb
      have hp := SchedNV.newWalk_bins c.N c (adm_nv h) (newS0 c) (SchedLtf.fmin_pos c h) e he
      have hlt := SchedNV.newWalk_below c.N c (newS0 c) e he
      rw [fmax_eq'] at hlt
      have hL1 : 1 ≤ e.2.2.2.1 := le_trans (le_max_left _ _) hp.2.2.1
      have hLr : (0 : ℝ) < (e.2.2.2.1 : ℝ) := by exact_mod_cast hL1
      have hr : e.2.1 = c.fs / (e.2.2.2.1 : ℝ) := by
        rw [eq_div_iff hLr.ne']; exact hp.2.1
      have hr0 : 0 < e.2.1 := by rw [hr]; positivity
      refine ⟨hp.2.1, hlt, hp.2.2.2.2.2.2.2, ?_, hr0⟩
      show e.2.2.1 = e.1 * (e.2.2.2.1 : ℝ) / c.fs
      rw [hp.2.2.2.2.2.2.2, hr, div_div_eq_mul_div]
    · exact (List.isChain_map (mkNew c)).2 (SchedNV.newWalk_stepping _ _ _)
    · intro b0 hb0
      rw [List.head?_map] at hb0
      cases hw : (Model.newWalk c.N c (Model.consts c) (newS0 c)).head? with
      | none => rw [hw] at hb0; simp at hb0
      | some y =>
        rw [hw] at hb0
        simp only [Option.map_some, Option.some.injEq] at hb0
        have := SchedNV.newWalk_head c.N c (Model.consts c) (newS0 c) y (by rw [hw]; rfl)
        rw [← hb0]
        show y.1 = _
        rw [this, newS0_fi, SchedLtf.fmin_eq]
  · intro b hb
    obtain ⟨e, he, rfl⟩ := List.mem_map.mp hb
    obtain ⟨s', h1, _, _, h4⟩ :=
      newWalk_entry c (adm_nv h) c.N (newS0 c) (SchedLtf.fmin_pos c h) e he
    have := SchedNV.newStep_bmin c (adm_nv h) s' (by rw [newS0_fi, SchedLtf.fmin_eq] at h1; exact h1)
    show c.bmin ≤ e.2.2.1
    rw [h4]; exact this

theorem vecPlan_grid (c : Model.Cfg ℝ) (h : Adm c) (fuel : ℕ) :
    (∀ b ∈ Model.vecPlan c fuel, b.r * (b.L : ℝ) = c.fs ∧ b.f < c.fs / 2 ∧ b.b = b.f / b.r ∧ 0 < b.r) ∧
    (Model.vecPlan c fuel).IsChain (fun a b => b.f = a.f + a.r) ∧
    (∀ b0, (Model.vecPlan c fuel).head? = some b0 → b0.f = c.bmin * c.fs / c.N) := by
  rw [vecPlan_map]
  refine ⟨?_, ?_, ?_⟩
  · intro b hb
    obtain ⟨e, he, rfl⟩ := List.mem_map.mp hb
    have hp := vec_entry c h fuel e he
    exact ⟨hp.2.1, hp.1, rfl, hp.2.2.1⟩
  · exact (List.isChain_map (mkVec c)).2 (SchedNV.vecWalk_stepping _ _ _ _ _ _)
  · intro b0 hb0
    rw [List.head?_map] at hb0
    cases hw : (vecEntries c fuel).head? with
    | none => rw [hw] at hb0; simp at hb0
    | some y =>
      rw [hw] at hb0
      simp only [Option.map_some, Option.some.injEq] at hb0
      have := SchedNV.vecWalk_head fuel (c.fs / RealLike.two) (Model.vecGrid c) (10 * c.Jdes) (vecMap c)
        (c.bmin * c.fs / RealLike.ofNat c.N) y (by show y ∈ (vecEntries c fuel).head?; rw [hw]; rfl)
      rw [← hb0]
      show y.1 = _
      rw [this]
      rfl

/-- the vectorised plan's frequencies strictly increase as well -/
theorem vecPlan_increasing (c : Model.Cfg ℝ) (h : Adm c) (fuel : ℕ) :
    (Model.vecPlan c fuel).Pairwise (fun a b => a.f < b.f) :=
  pairwise_lt_of_chain _ (fun b => b.f) (fun b => b.r) (vecPlan_grid c h fuel).2.1
    (fun b hb => ((vecPlan_grid c h fuel).1 b hb).2.2.2)

#print axioms ltfPlan_grid
#print axioms lpsd_is_ltf
#print axioms lpsdPlan_grid
#print axioms newPlan_grid
#print axioms vecPlan_grid
#print axioms vecPlan_increasing
