/-
  SpecKitV.Props.C05 — composition: the per-bin loop of `_lpsd_core` (`Model.lpsdCore`: window cache
  per `L`, basis cache per `(L, order)`, dispatch on mode and detrend order to the six translated
  Numba kernels) computes, for every plan bin, the reference estimator of that bin.
-/
import SpecKitV.RealInst
import SpecKitV.Props.C01
import SpecKitV.Lemmas.AnalyzerGlue
import SpecKitV.Model.Pipeline
import SpecKitV.Lemmas.Detrend
open Finset

/-! ### one bin -/

theorem toNat_succ_cast (order : ℤ) (h : order = 1 ∨ order = 2) :
    1 ≤ order.toNat ∧ (order + 1).toNat = order.toNat + 1 ∧ ((order.toNat : ℕ) : ℤ) = order := by
  rcases h with rfl | rfl <;> decide

/-- the dispatched kernel of one bin, fed the way `coreStep` feeds it, is the reference estimator (cross mode).
    The column count of the basis matters for the polynomial orders only (for orders −1, 0 no basis is handed over). -/
theorem dispatch_eq_ref_cross (order : ℤ) (hord : order = -1 ∨ order = 0 ∨ order = 1 ∨ order = 2)
    (x1 x2 : Arr ℝ) (fs : ℝ) (b : Model.PBin ℝ) (hK : 0 < b.D.n) (w : Arr ℝ) (Q : Arr2 ℝ)
    (hQ : order = 1 ∨ order = 2 → Q.m = (order + 1).toNat) :
    Model.dispatch true order x1 x2 fs b w (if order = 1 ∨ order = 2 then some Q else none)
      = Model.refStats order Q.get x1.get x2.get b.D.get b.D.n b.L w.get (2 * Real.pi * b.f / fs) := by
  have hω : (RealLike.two * RealLike.pi * b.f / fs : ℝ) = 2 * Real.pi * b.f / fs := by
    simp only [RL.two_eq, RL.pi_eq]
  rcases hord with rfl | rfl | h12
  · simp only [Model.dispatch, if_true, hω]
    exact stats_win_only_csd_eq_ref x1 x2 b.D hK b.L w _ Q.get
  · have h0 : ¬ ((0 : ℤ) = -1) := by decide
    simp only [Model.dispatch, if_true, if_neg h0, hω]
    exact stats_detrend0_csd_eq_ref x1 x2 b.D hK b.L w _ Q.get
  · obtain ⟨hp, hp1, hcast⟩ := toNat_succ_cast order h12
    have hm1 : ¬ (order = -1) := by rcases h12 with rfl | rfl <;> decide
    have h0 : ¬ (order = 0) := by rcases h12 with rfl | rfl <;> decide
    simp only [Model.dispatch, if_true, if_neg hm1, if_neg h0, if_pos h12, hω]
    have := stats_poly_csd_eq_ref x1 x2 b.D hK b.L w (2 * Real.pi * b.f / fs) Q order.toNat hp
      ((hQ h12).trans hp1)
    rw [hcast] at this
    exact this

/-- the same in auto mode -/
theorem dispatch_eq_ref_auto (order : ℤ) (hord : order = -1 ∨ order = 0 ∨ order = 1 ∨ order = 2)
    (x1 x2 : Arr ℝ) (fs : ℝ) (b : Model.PBin ℝ) (hK : 0 < b.D.n) (w : Arr ℝ) (Q : Arr2 ℝ)
    (hQ : order = 1 ∨ order = 2 → Q.m = (order + 1).toNat) :
    Model.dispatch false order x1 x2 fs b w (if order = 1 ∨ order = 2 then some Q else none)
      = Model.refStatsAuto order Q.get x1.get b.D.get b.D.n b.L w.get (2 * Real.pi * b.f / fs) := by
  have hω : (RealLike.two * RealLike.pi * b.f / fs : ℝ) = 2 * Real.pi * b.f / fs := by
    simp only [RL.two_eq, RL.pi_eq]
  have hf : ¬ (false = true) := Bool.false_ne_true
  rcases hord with rfl | rfl | h12
  · simp only [Model.dispatch, if_true, if_neg hf, hω]
    exact stats_win_only_auto_eq_ref x1 b.D hK b.L w _ Q.get
  · have h0 : ¬ ((0 : ℤ) = -1) := by decide
    simp only [Model.dispatch, if_true, if_neg h0, if_neg hf, hω]
    exact stats_detrend0_auto_eq_ref x1 b.D hK b.L w _ Q.get
  · obtain ⟨hp, hp1, hcast⟩ := toNat_succ_cast order h12
    have hm1 : ¬ (order = -1) := by rcases h12 with rfl | rfl <;> decide
    have h0 : ¬ (order = 0) := by rcases h12 with rfl | rfl <;> decide
    simp only [Model.dispatch, if_neg hm1, if_neg h0, if_pos h12, if_neg hf, hω]
    have := stats_poly_auto_eq_ref x1 b.D hK b.L w (2 * Real.pi * b.f / fs) Q order.toNat hp
      ((hQ h12).trans hp1)
    rw [hcast] at this
    exact this

/-- the cached loop is the plain per-bin map (no hypotheses) -/
theorem lpsdCore_eq_map (iscsd : Bool) (order : ℤ) (x1 x2 : Arr ℝ) (fs : ℝ)
    (mkWin : ℕ → Arr ℝ) (mkQ : ℕ → ℤ → Arr2 ℝ) (bins : List (Model.PBin ℝ)) :
    Model.lpsdCore iscsd order x1 x2 fs mkWin mkQ bins
      = bins.map (fun b => Model.dispatch iscsd order x1 x2 fs b (mkWin b.L)
          (if order = 1 ∨ order = 2 then some (mkQ b.L order) else none)) := by
  unfold Model.lpsdCore
  rw [Model.coreLoop_eq_map mkWin mkQ order _ _ _ (Model.cachesOk_empty mkWin mkQ)]

/-! ### the main theorems -/

/-- bin j of the computed spectrum is the reference estimator on the bin's own (f, L, D), with the window
    for that L and (orders 1,2) the basis for (L, order).
    `hQ` (column count of the basis) is asked ONLY for the polynomial orders and ONLY at the segment lengths of the plan's own bins:
    the library's `_build_Q(L, p)` has `min(L, p+1)` columns (Props/BuildQGen), so a hypothesis "for every L" is false of it at `L ≤ p`
    and no real run would satisfy it; Props/PipelineClosed instantiates this form with the translated `_build_Q`. -/
theorem lpsdCore_eq_ref_cross (order : ℤ) (hord : order = -1 ∨ order = 0 ∨ order = 1 ∨ order = 2)
    (x1 x2 : Arr ℝ) (fs : ℝ)
    (mkWin : ℕ → Arr ℝ) (mkQ : ℕ → ℤ → Arr2 ℝ) (bins : List (Model.PBin ℝ))
    (hQ : order = 1 ∨ order = 2 → ∀ b ∈ bins, (mkQ b.L order).m = (order + 1).toNat)
    (hK : ∀ b ∈ bins, 0 < b.D.n) :
    Model.lpsdCore true order x1 x2 fs mkWin mkQ bins
      = bins.map (fun b => Model.refStats order (mkQ b.L order).get x1.get x2.get b.D.get b.D.n b.L
          (mkWin b.L).get (2 * Real.pi * b.f / fs)) := by
  rw [lpsdCore_eq_map]
  apply List.map_congr_left
  intro b hb
  exact dispatch_eq_ref_cross order hord x1 x2 fs b (hK b hb) (mkWin b.L) (mkQ b.L order) (fun h => hQ h b hb)

theorem lpsdCore_eq_ref_auto (order : ℤ) (hord : order = -1 ∨ order = 0 ∨ order = 1 ∨ order = 2)
    (x1 x2 : Arr ℝ) (fs : ℝ)
    (mkWin : ℕ → Arr ℝ) (mkQ : ℕ → ℤ → Arr2 ℝ) (bins : List (Model.PBin ℝ))
    (hQ : order = 1 ∨ order = 2 → ∀ b ∈ bins, (mkQ b.L order).m = (order + 1).toNat)
    (hK : ∀ b ∈ bins, 0 < b.D.n) :
    Model.lpsdCore false order x1 x2 fs mkWin mkQ bins
      = bins.map (fun b => Model.refStatsAuto order (mkQ b.L order).get x1.get b.D.get b.D.n b.L
          (mkWin b.L).get (2 * Real.pi * b.f / fs)) := by
  rw [lpsdCore_eq_map]
  apply List.map_congr_left
  intro b hb
  exact dispatch_eq_ref_auto order hord x1 x2 fs b (hK b hb) (mkWin b.L) (mkQ b.L order) (fun h => hQ h b hb)

/-- a cached window or basis is never used for another length: the result for a bin depends only on that bin -/
theorem lpsdCore_bin_local (iscsd : Bool) (order : ℤ) (x1 x2 : Arr ℝ) (fs : ℝ)
    (mkWin : ℕ → Arr ℝ) (mkQ : ℕ → ℤ → Arr2 ℝ) (pre post : List (Model.PBin ℝ)) (b : Model.PBin ℝ) :
    (Model.lpsdCore iscsd order x1 x2 fs mkWin mkQ (pre ++ b :: post))[pre.length]?
      = some ((Model.lpsdCore iscsd order x1 x2 fs mkWin mkQ [b])[0]'(by
          simp [Model.lpsdCore, Model.coreLoop])) := by
  simp only [lpsdCore_eq_map, List.map_append, List.map_cons, List.map_nil, List.getElem_cons_zero]
  rw [List.getElem?_append_right (by simp)]
  simp

/-- restricting to a band = filtering the unrestricted result (per-bin fields stay aligned) -/
theorem lpsdCore_band (iscsd : Bool) (order : ℤ) (x1 x2 : Arr ℝ) (fs : ℝ)
    (mkWin : ℕ → Arr ℝ) (mkQ : ℕ → ℤ → Arr2 ℝ) (lo hi : ℝ) (bins : List (Model.PBin ℝ)) :
    Model.lpsdCore iscsd order x1 x2 fs mkWin mkQ (Model.bandFilter (fun b => b.f) lo hi bins)
      = ((bins.zip (Model.lpsdCore iscsd order x1 x2 fs mkWin mkQ bins)).filter
          (fun p => decide (lo ≤ p.1.f) && decide (p.1.f ≤ hi))).map Prod.snd := by
  unfold Model.lpsdCore
  rw [Model.band_commutes_zip]
  simp only [RL.ge_eq, RL.le_eq]

/-- stored window sums -/
theorem winSums_spec (w : Arr ℝ) :
    Model.winSums w = ((∑ n ∈ Finset.range w.n, w.get n) ^ 2, ∑ n ∈ Finset.range w.n, (w.get n) ^ 2) := by
  simp only [Model.winSums, sumRange_eq_sum, RLmul, pow_two]

/-! ### the single-bin path (`compute_single_bin`, analysis.py:622-735): same dispatch, no caches -/

/-- `compute_single_bin` runs the same dispatch on one user-defined bin with a freshly built window and basis:
    it is the one-element plan through `_lpsd_core` -/
theorem lpsdCore_single (iscsd : Bool) (order : ℤ) (x1 x2 : Arr ℝ) (fs : ℝ)
    (mkWin : ℕ → Arr ℝ) (mkQ : ℕ → ℤ → Arr2 ℝ) (b : Model.PBin ℝ) :
    Model.lpsdCore iscsd order x1 x2 fs mkWin mkQ [b]
      = [Model.dispatch iscsd order x1 x2 fs b (mkWin b.L)
          (if order = 1 ∨ order = 2 then some (mkQ b.L order) else none)] := by
  rw [lpsdCore_eq_map, List.map_cons, List.map_nil]

/-! ### order dispatch: order 1 uses the kernel family of 1 and the basis built for 1

Consequence of the two main theorems and `Lemmas/Detrend`: if the basis built for `(L, 1)` has orthonormal
columns whose span contains the affine functions (what `_build_Q(L, 1)` is for), adding any straight line
`a + c·m` to the input leaves every bin of the order-1 spectrum unchanged.  (With the basis of order 0 — one
column — or the mean-removal kernel this fails.) -/

theorem detr_congr_seg (order : ℤ) (Q : ℕ → ℕ → ℝ) (x y : ℕ → ℝ) (s L : ℕ)
    (h : ∀ m < L, x (s + m) = y (s + m)) (n : ℕ) (hn : n < L) :
    Model.detr order Q x s L n = Model.detr order Q y s L n := by
  have e1 : (∑ m ∈ range L, x (s + m)) = ∑ m ∈ range L, y (s + m) :=
    sum_congr rfl (fun m hm => h m (mem_range.mp hm))
  have e2 : ∀ k, (∑ m ∈ range L, Q m k * x (s + m)) = ∑ m ∈ range L, Q m k * y (s + m) :=
    fun k => sum_congr rfl (fun m hm => by rw [h m (mem_range.mp hm)])
  unfold Model.detr
  simp only [sumRange_eq_sum, e1, e2, h n hn]

theorem segDFT_order1_add_line (Q : ℕ → ℕ → ℝ) (L : ℕ) (hO : OrthoCols Q L 2)
    (hS : ∀ c d : ℝ, InSpan Q L 2 (fun n => c + d * n)) (x : ℕ → ℝ) (s : ℕ) (w : ℕ → ℝ) (ω a c : ℝ) :
    Model.segDFT 1 Q (fun m => x m + (a + c * m)) s L w ω = Model.segDFT 1 Q x s L w ω := by
  apply segDFT_congr
  intro n hn
  have h1 : ((1 : ℕ) : ℤ) = 1 := rfl
  have key := detr_poly_add_span 1 le_rfl Q L hO x s (fun n => (a + c * s) + c * n) (hS _ _) n hn
  rw [h1] at key
  rw [← key]
  apply detr_congr_seg _ _ _ _ _ _ _ n hn
  intro m _
  simp only [Nat.add_sub_cancel_left, Nat.cast_add]
  ring

theorem lpsdCore_order1_add_line_auto (x1 x2 : Arr ℝ) (fs : ℝ)
    (mkWin : ℕ → Arr ℝ) (mkQ : ℕ → ℤ → Arr2 ℝ)
    (bins : List (Model.PBin ℝ)) (hQ : ∀ b ∈ bins, (mkQ b.L 1).m = 2) (hK : ∀ b ∈ bins, 0 < b.D.n)
    (hO : ∀ b ∈ bins, OrthoCols (mkQ b.L 1).get b.L 2)
    (hS : ∀ b ∈ bins, ∀ c d : ℝ, InSpan (mkQ b.L 1).get b.L 2 (fun n => c + d * n)) (a c : ℝ) :
    Model.lpsdCore false 1 ⟨x1.n, fun m => x1.get m + (a + c * m)⟩ x2 fs mkWin mkQ bins
      = Model.lpsdCore false 1 x1 x2 fs mkWin mkQ bins := by
  have h1 : (1 : ℤ) = -1 ∨ (1 : ℤ) = 0 ∨ (1 : ℤ) = 1 ∨ (1 : ℤ) = 2 := by decide
  rw [lpsdCore_eq_ref_auto 1 h1 _ x2 fs mkWin mkQ bins (fun _ => hQ) hK,
    lpsdCore_eq_ref_auto 1 h1 x1 x2 fs mkWin mkQ bins (fun _ => hQ) hK]
  apply List.map_congr_left
  intro b hb
  simp only [Model.refStatsAuto, segDFT_order1_add_line _ _ (hO b hb) (hS b hb)]

theorem lpsdCore_order1_add_line_cross (x1 x2 : Arr ℝ) (fs : ℝ)
    (mkWin : ℕ → Arr ℝ) (mkQ : ℕ → ℤ → Arr2 ℝ)
    (bins : List (Model.PBin ℝ)) (hQ : ∀ b ∈ bins, (mkQ b.L 1).m = 2) (hK : ∀ b ∈ bins, 0 < b.D.n)
    (hO : ∀ b ∈ bins, OrthoCols (mkQ b.L 1).get b.L 2)
    (hS : ∀ b ∈ bins, ∀ c d : ℝ, InSpan (mkQ b.L 1).get b.L 2 (fun n => c + d * n)) (a1 c1 a2 c2 : ℝ) :
    Model.lpsdCore true 1 ⟨x1.n, fun m => x1.get m + (a1 + c1 * m)⟩
        ⟨x2.n, fun m => x2.get m + (a2 + c2 * m)⟩ fs mkWin mkQ bins
      = Model.lpsdCore true 1 x1 x2 fs mkWin mkQ bins := by
  have h1 : (1 : ℤ) = -1 ∨ (1 : ℤ) = 0 ∨ (1 : ℤ) = 1 ∨ (1 : ℤ) = 2 := by decide
  rw [lpsdCore_eq_ref_cross 1 h1 _ _ fs mkWin mkQ bins (fun _ => hQ) hK,
    lpsdCore_eq_ref_cross 1 h1 x1 x2 fs mkWin mkQ bins (fun _ => hQ) hK]
  apply List.map_congr_left
  intro b hb
  simp only [Model.refStats, segDFT_order1_add_line _ _ (hO b hb) (hS b hb)]

/-! ### the hypotheses are satisfiable: one bin, `L = 3`, two segment starts, every supported order -/

example (order : ℤ) (hord : order = -1 ∨ order = 0 ∨ order = 1 ∨ order = 2) (x1 x2 : Arr ℝ) :
    Model.lpsdCore true order x1 x2 2 (fun L => ⟨L, fun _ => 1⟩)
        (fun L o => ⟨L, (o + 1).toNat, fun _ _ => 0⟩) [⟨1 / 3, 3, ⟨2, fun j => 2 * j⟩⟩]
      = [Model.refStats order (fun _ _ => 0) x1.get x2.get (fun j => 2 * j) 2 3 (fun _ => 1)
          (2 * Real.pi * (1 / 3) / 2)] :=
  lpsdCore_eq_ref_cross order hord x1 x2 2 _ _ _ (fun _ _ _ => rfl)
    (by intro b hb; rw [List.mem_singleton] at hb; subst hb; exact Nat.zero_lt_two)

example (order : ℤ) (hord : order = -1 ∨ order = 0 ∨ order = 1 ∨ order = 2) (x1 x2 : Arr ℝ) :
    Model.lpsdCore false order x1 x2 2 (fun L => ⟨L, fun _ => 1⟩)
        (fun L o => ⟨L, (o + 1).toNat, fun _ _ => 0⟩) [⟨1 / 3, 3, ⟨2, fun j => 2 * j⟩⟩]
      = [Model.refStatsAuto order (fun _ _ => 0) x1.get (fun j => 2 * j) 2 3 (fun _ => 1)
          (2 * Real.pi * (1 / 3) / 2)] :=
  lpsdCore_eq_ref_auto order hord x1 x2 2 _ _ _ (fun _ _ _ => rfl)
    (by intro b hb; rw [List.mem_singleton] at hb; subst hb; exact Nat.zero_lt_two)

/-- the extra hypotheses of the order-1 corollary are satisfiable (L = 2, orthonormal 2×2 basis) -/
example : OrthoCols (fun n k => if n = k then (1 : ℝ) else 0) 2 2 ∧
    ∀ c d : ℝ, InSpan (fun n k => if n = k then (1 : ℝ) else 0) 2 2 (fun n => c + d * n) := by
  constructor
  · intro k hk k' hk'
    obtain rfl | rfl : k = 0 ∨ k = 1 := by omega
    all_goals obtain rfl | rfl : k' = 0 ∨ k' = 1 := by omega
    all_goals simp
  · intro c d
    refine ⟨fun k => c + d * k, ?_⟩
    intro n hn
    obtain rfl | rfl : n = 0 ∨ n = 1 := by omega
    all_goals simp

#print axioms lpsdCore_eq_ref_cross
#print axioms lpsdCore_eq_ref_auto
#print axioms lpsdCore_bin_local
#print axioms lpsdCore_band
#print axioms winSums_spec
#print axioms lpsdCore_single
#print axioms lpsdCore_order1_add_line_auto
#print axioms lpsdCore_order1_add_line_cross
