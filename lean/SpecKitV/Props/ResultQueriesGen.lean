/-
  Props/ResultQueriesGen — the machine-translated result-side glue of speckit/analysis.py (`Gen/ResultQueries.lean`, regenerated from
  the source on every run by vk/regions/result_queries.py) IS the hand model / specification:

  (a) `Gen.compute_assemble`  (SpectrumAnalyzer.compute: scatter loop, sanitising, result dictionary) = `Model.assemble`
      — "field F of bin i of the result is component c of row i", for rows in any order with distinct indices;
  (b) `Gen.getattr_protocol`  (the cache protocol of SpectrumResult.__getattr__)                   = `Model.lazyGet` / `Model.lazyRun`
      — with `lazy_cache_sound` / `lazy_order_independent` (C14-c) transferred to the translated protocol;
  (c) `Gen.get_measurement`                                                                     = `Model.measure`
      — with the `np.interp` contract theorems transferred: tabulated value at a grid frequency, affine in between, clamped
        outside, complex quantities componentwise, scalar in → scalar out;
  (d) `Gen.to_dataframe`                                                                        = `Model.exportFrame`
      — export = projection of the attribute table onto the per-bin arrays, indexed by `f`; `Gen.result_dir` advertises the
        default attributes, the dictionary keys and the dynamic names, every one of which the formula table serves.

  Proofs go through the named loop bodies (`Gen.compute_scatter_step`, `Gen.to_dataframe_step`) by projection equations and
  through `simp only` with semantic lemmas, so renamed temporaries / reordered independent statements do not break them.
-/
import SpecKitV.RealInst
import SpecKitV.Gen.ResultQueries
import SpecKitV.Model.ResultQueries
import SpecKitV.Model.Analyzer
import SpecKitV.Lemmas.AnalyzerGlue
import SpecKitV.Lemmas.Rms
import SpecKitV.PReal

set_option linter.unusedVariables false
set_option linter.unusedSimpArgs false

namespace RQ

/-! ## (a) compute(): the scatter loop -/

theorem pyIndex_nonneg (n : ℕ) (i : ℤ) (hi : 0 ≤ i) : Np.pyIndex n i = i.toNat := by
  unfold Np.pyIndex
  rw [if_neg (by omega)]

@[simp] theorem nanToNum_real (x a b c : ℝ) : Np.nanToNum x a b c = x := by
  simp [Np.nanToNum, Np.isfinite]

@[simp] theorem isfinite_real (x : ℝ) : Np.isfinite x = true := by
  simp [Np.isfinite]

/-- `re + 1j*im` (in any of its commuted spellings) is the complex number with these parts -/
theorem cx_recombine (a b : ℝ) : Cx.add (Cx.ofReal a) (Cx.mul Np.cxI (Cx.ofReal b)) = ⟨a, b⟩ := by
  simp [Cx.add, Cx.mul, Cx.ofReal, Np.cxI]
theorem cx_recombine₂ (a b : ℝ) : Cx.add (Cx.ofReal a) (Cx.mul (Cx.ofReal b) Np.cxI) = ⟨a, b⟩ := by
  simp [Cx.add, Cx.mul, Cx.ofReal, Np.cxI]
theorem cx_recombine₃ (a b : ℝ) : Cx.add (Cx.mul Np.cxI (Cx.ofReal b)) (Cx.ofReal a) = ⟨a, b⟩ := by
  simp [Cx.add, Cx.mul, Cx.ofReal, Np.cxI]
theorem cx_recombine₄ (a b : ℝ) : Cx.add (Cx.mul (Cx.ofReal b) Np.cxI) (Cx.ofReal a) = ⟨a, b⟩ := by
  simp [Cx.add, Cx.mul, Cx.ofReal, Np.cxI]

section Scatter
variable {σ ρ β : Type}

/-- a fold whose step writes `val r` at index `idx r` of the array `π` of the state: frame -/
theorem scatter_frame (g : σ → ρ → σ) (π : σ → Arr β) (idx : ρ → ℕ) (val : ρ → β) (rows : List ρ)
    (hg : ∀ s, ∀ r ∈ rows, π (g s r) = Arr.set (π s) (idx r) (val r)) (s : σ) (k : ℕ)
    (hk : k ∉ rows.map idx) : (π (rows.foldl g s)).get k = (π s).get k := by
  induction rows generalizing s with
  | nil => rfl
  | cons r rest ih =>
    simp only [List.map_cons, List.mem_cons, not_or] at hk
    rw [List.foldl_cons, ih (fun s r hr => hg s r (List.mem_cons_of_mem _ hr)) _ hk.2, hg _ _ List.mem_cons_self]
    simp [Arr.set, hk.1]

theorem scatter_len (g : σ → ρ → σ) (π : σ → Arr β) (idx : ρ → ℕ) (val : ρ → β) (rows : List ρ)
    (hg : ∀ s, ∀ r ∈ rows, π (g s r) = Arr.set (π s) (idx r) (val r)) (s : σ) :
    (π (rows.foldl g s)).n = (π s).n := by
  induction rows generalizing s with
  | nil => rfl
  | cons r rest ih =>
    rw [List.foldl_cons, ih (fun s r hr => hg s r (List.mem_cons_of_mem _ hr)), hg _ _ List.mem_cons_self]; rfl

/-- … and the written value, when the indices are distinct -/
theorem scatter_get (g : σ → ρ → σ) (π : σ → Arr β) (idx : ρ → ℕ) (val : ρ → β) (rows : List ρ)
    (hg : ∀ s, ∀ r ∈ rows, π (g s r) = Arr.set (π s) (idx r) (val r)) (s : σ)
    (hnd : (rows.map idx).Nodup) (r : ρ) (hr : r ∈ rows) : (π (rows.foldl g s)).get (idx r) = val r := by
  induction rows generalizing s with
  | nil => simp at hr
  | cons r0 rest ih =>
    rw [List.map_cons, List.nodup_cons] at hnd
    rw [List.foldl_cons]
    have hg' := fun s r hr => hg s r (List.mem_cons_of_mem _ hr)
    rcases List.mem_cons.mp hr with h | h
    · subst h
      rw [scatter_frame g π idx val rest hg' _ _ hnd.1, hg _ _ List.mem_cons_self]
      simp [Arr.set]
    · exact ih hg' _ hnd.2 h

end Scatter

/-- the scatter loop over rows with distinct non-negative indices leaves, in the array `π`, the model's per-bin array -/
theorem scatter_eq_binArray {σ β : Type} (g : σ → Np.Row8 ℝ → σ) (π : σ → Arr β) (val : Np.Row8 ℝ → β)
    (rows : List (Np.Row8 ℝ))
    (hg : ∀ s, ∀ r ∈ rows, π (g s r) = Arr.set (π s) r.p0.toNat (val r))
    (hidx : ∀ r ∈ rows, 0 ≤ r.p0) (hnd : (rows.map (·.p0)).Nodup) (s : σ) :
    π (rows.foldl g s) = Model.binArray (π s).n rows val (π s).get := by
  have hnd' : (rows.map (fun r => r.p0.toNat)).Nodup := by
    have : rows.map (fun r => r.p0.toNat) = (rows.map (·.p0)).map Int.toNat := by simp
    rw [this]
    refine List.Nodup.map_on ?_ hnd
    intro a ha b hb hab
    obtain ⟨ra, hra, rfl⟩ := List.mem_map.mp ha
    obtain ⟨rb, hrb, rfl⟩ := List.mem_map.mp hb
    have := hidx ra hra; have := hidx rb hrb
    omega
  have hn := scatter_len g π (fun r => r.p0.toNat) val rows hg s
  rcases hS : π (rows.foldl g s) with ⟨n, get⟩
  rw [hS] at hn
  simp only at hn
  subst hn
  unfold Model.binArray
  congr 1
  funext k
  have hgetk : get k = (π (rows.foldl g s)).get k := by rw [hS]
  rw [hgetk]
  unfold Model.rowAt
  cases hf : rows.find? (fun r => r.p0 == (k : ℤ)) with
  | some r =>
    have hr : r ∈ rows := List.mem_of_find?_eq_some hf
    have hk : r.p0 = (k : ℤ) := by simpa using List.find?_some hf
    have : r.p0.toNat = k := by omega
    rw [← this]
    exact scatter_get g π (fun r => r.p0.toNat) val rows hg s hnd' r hr
  | none =>
    rw [List.find?_eq_none] at hf
    apply scatter_frame g π (fun r => r.p0.toNat) val rows hg s k
    intro hmem
    obtain ⟨r, hr, hrk⟩ := List.mem_map.mp hmem
    have h0 := hidx r hr
    have := hf r hr
    simp only [beq_iff_eq] at this
    omega

end RQ

open RQ in
/-- **(a) `compute()` assembles the rows of `_lpsd_core` as specified** — for rows in ANY order whose bin indices are
    distinct and non-negative (what `_lpsd_core(np.arange(nf))` returns; a negative index is not rejected by Python — it
    wraps around — and is excluded here; an index ≥ nf raises `IndexError` in Python and writes outside the arrays here),
    over ℝ (where `np.nan_to_num` is the identity), whatever `np.empty` left in the buffers. -/
theorem gen_compute_assemble_eq_model (nf : ℕ) (rows : List (Np.Row8 ℝ)) (junk : ℕ → ℝ) (junkC : ℕ → Cx ℝ)
    (hidx : ∀ r ∈ rows, 0 ≤ r.p0) (hnd : (rows.map (·.p0)).Nodup) :
    Gen.compute_assemble nf rows junk junkC = Model.assemble nf rows junk junkC := by
  have pyi : ∀ (n : ℕ), ∀ r ∈ rows, Np.pyIndex n r.p0 = r.p0.toNat := fun n r hr => pyIndex_nonneg n _ (hidx r hr)
  set init : Arr ℝ × Arr ℝ × Arr (Cx ℝ) × Arr ℝ × Arr ℝ × Arr ℝ × Arr ℝ :=
    (⟨nf, junk⟩, ⟨nf, junk⟩, ⟨nf, junkC⟩, ⟨nf, junk⟩, ⟨nf, junk⟩, ⟨nf, junk⟩, ⟨nf, junk⟩) with hinit
  have h1 := scatter_eq_binArray (Gen.compute_scatter_step nf) (fun s => s.1) (·.p2) rows
    (fun s r hr => by rcases s with ⟨a, b, c, d, e, f, g⟩; simp only [Gen.compute_scatter_step, pyi _ r hr]) hidx hnd init
  have h2 := scatter_eq_binArray (Gen.compute_scatter_step nf) (fun s => s.2.1) (·.p3) rows
    (fun s r hr => by rcases s with ⟨a, b, c, d, e, f, g⟩; simp only [Gen.compute_scatter_step, pyi _ r hr]) hidx hnd init
  have h3 := scatter_eq_binArray (Gen.compute_scatter_step nf) (fun s => s.2.2.1) (·.p1) rows
    (fun s r hr => by rcases s with ⟨a, b, c, d, e, f, g⟩; simp only [Gen.compute_scatter_step, pyi _ r hr]) hidx hnd init
  have h4 := scatter_eq_binArray (Gen.compute_scatter_step nf) (fun s => s.2.2.2.1) (·.p4) rows
    (fun s r hr => by rcases s with ⟨a, b, c, d, e, f, g⟩; simp only [Gen.compute_scatter_step, pyi _ r hr]) hidx hnd init
  have h5 := scatter_eq_binArray (Gen.compute_scatter_step nf) (fun s => s.2.2.2.2.1) (·.p5) rows
    (fun s r hr => by rcases s with ⟨a, b, c, d, e, f, g⟩; simp only [Gen.compute_scatter_step, pyi _ r hr]) hidx hnd init
  have h6 := scatter_eq_binArray (Gen.compute_scatter_step nf) (fun s => s.2.2.2.2.2.1) (·.p6) rows
    (fun s r hr => by rcases s with ⟨a, b, c, d, e, f, g⟩; simp only [Gen.compute_scatter_step, pyi _ r hr]) hidx hnd init
  have h7 := scatter_eq_binArray (Gen.compute_scatter_step nf) (fun s => s.2.2.2.2.2.2) (·.p7) rows
    (fun s r hr => by rcases s with ⟨a, b, c, d, e, f, g⟩; simp only [Gen.compute_scatter_step, pyi _ r hr]) hidx hnd init
  unfold Gen.compute_assemble Model.assemble
  simp only [List.foldl_cons, List.foldl_nil]
  rw [← hinit]
  rcases hS : rows.foldl (Gen.compute_scatter_step nf) init with ⟨a, b, c, d, e, f, g⟩
  rw [hS] at h1 h2 h3 h4 h5 h6 h7
  simp only at h1 h2 h3 h4 h5 h6 h7
  simp only [hinit] at h1 h2 h3 h4 h5 h6 h7
  subst h1 h2 h3 h4 h5 h6 h7
  simp only [Np.amap, Np.azip, nanToNum_real, cx_recombine, cx_recombine₂, cx_recombine₃, cx_recombine₄, Model.binArray]

namespace RQ
theorem rowAt_of_mem (rows : List (Np.Row8 ℝ)) (hidx : ∀ r ∈ rows, 0 ≤ r.p0) (hnd : (rows.map (·.p0)).Nodup)
    (r : Np.Row8 ℝ) (hr : r ∈ rows) : Model.rowAt rows r.p0.toNat = some r := by
  unfold Model.rowAt
  have hk : ((r.p0.toNat : ℕ) : ℤ) = r.p0 := Int.toNat_of_nonneg (hidx r hr)
  cases hf : rows.find? (fun q => q.p0 == ((r.p0.toNat : ℕ) : ℤ)) with
  | none =>
    rw [List.find?_eq_none] at hf
    have := hf r hr
    simp [hk] at this
  | some q =>
    have hq : q ∈ rows := List.mem_of_find?_eq_some hf
    have hqk : q.p0 = r.p0 := by
      have := List.find?_some hf
      simp only [beq_iff_eq] at this
      rw [this, hk]
    rw [List.inj_on_of_nodup_map hnd hq hr hqk]
end RQ

open RQ in
/-- "field F of bin i of the result is component c of row i": `XX ← p2 (MXX)`, `YY ← p3 (MYY)`, `XY ← p1`, `S12 ← p4 (S1²)`,
    `S2 ← p5`, `M2 ← p6`, `compute_t ← p7`, all at index `p0`, all arrays of length `nf` -/
theorem gen_compute_field_of_row (nf : ℕ) (rows : List (Np.Row8 ℝ)) (junk : ℕ → ℝ) (junkC : ℕ → Cx ℝ)
    (hidx : ∀ r ∈ rows, 0 ≤ r.p0) (hnd : (rows.map (·.p0)).Nodup) (r : Np.Row8 ℝ) (hr : r ∈ rows) :
    let G := Gen.compute_assemble nf rows junk junkC
    (G.XX.n = nf ∧ G.YY.n = nf ∧ G.XY.n = nf ∧ G.S12.n = nf ∧ G.S2.n = nf ∧ G.M2.n = nf ∧ G.compute_t.n = nf) ∧
    G.XX.get r.p0.toNat = r.p2 ∧ G.YY.get r.p0.toNat = r.p3 ∧ G.XY.get r.p0.toNat = r.p1 ∧ G.S12.get r.p0.toNat = r.p4 ∧
    G.S2.get r.p0.toNat = r.p5 ∧ G.M2.get r.p0.toNat = r.p6 ∧ G.compute_t.get r.p0.toNat = r.p7 := by
  intro G
  have hG : G = Model.assemble nf rows junk junkC := gen_compute_assemble_eq_model nf rows junk junkC hidx hnd
  rw [hG]
  simp only [Model.assemble, Model.binArray, rowAt_of_mem rows hidx hnd r hr, and_self]

open RQ in
/-- the order of the rows does not matter: any permutation of the rows (e.g. another thread schedule of a chunked core) gives
    the same result arrays -/
theorem gen_compute_assemble_perm (nf : ℕ) (rows rows' : List (Np.Row8 ℝ)) (junk : ℕ → ℝ) (junkC : ℕ → Cx ℝ)
    (hperm : rows.Perm rows') (hidx : ∀ r ∈ rows, 0 ≤ r.p0) (hnd : (rows.map (·.p0)).Nodup) :
    Gen.compute_assemble nf rows junk junkC = Gen.compute_assemble nf rows' junk junkC := by
  have hidx' : ∀ r ∈ rows', 0 ≤ r.p0 := fun r hr => hidx r (hperm.mem_iff.mpr hr)
  have hnd' : (rows'.map (·.p0)).Nodup := (hperm.map _).nodup_iff.mp hnd
  rw [gen_compute_assemble_eq_model nf rows junk junkC hidx hnd, gen_compute_assemble_eq_model nf rows' junk junkC hidx' hnd']
  have hrow : ∀ k, Model.rowAt rows k = Model.rowAt rows' k := by
    intro k
    cases h : Model.rowAt rows k with
    | some r =>
      have hr : r ∈ rows := List.mem_of_find?_eq_some h
      have hk : r.p0 = (k : ℤ) := by simpa using List.find?_some h
      have : r.p0.toNat = k := by omega
      rw [← this, rowAt_of_mem rows' hidx' hnd' r (hperm.mem_iff.mp hr)]
    | none =>
      cases h' : Model.rowAt rows' k with
      | none => rfl
      | some r =>
        exfalso
        have hr : r ∈ rows' := List.mem_of_find?_eq_some h'
        have hk : r.p0 = (k : ℤ) := by simpa using List.find?_some h'
        unfold Model.rowAt at h
        rw [List.find?_eq_none] at h
        have := h r (hperm.mem_iff.mpr hr)
        simp [hk] at this
  simp only [Model.assemble, Model.binArray, hrow]

open RQ in
/-- when the rows cover every bin `0 … nf−1`, nothing of what `np.empty` left in the buffers survives in bins `< nf` -/
theorem gen_compute_no_junk (nf : ℕ) (rows : List (Np.Row8 ℝ)) (junk junk' : ℕ → ℝ) (junkC junkC' : ℕ → Cx ℝ)
    (hidx : ∀ r ∈ rows, 0 ≤ r.p0) (hnd : (rows.map (·.p0)).Nodup) (hcover : ∀ k < nf, ∃ r ∈ rows, r.p0 = (k : ℤ))
    (k : ℕ) (hk : k < nf) :
    let G := Gen.compute_assemble nf rows junk junkC
    let G' := Gen.compute_assemble nf rows junk' junkC'
    G.XX.get k = G'.XX.get k ∧ G.YY.get k = G'.YY.get k ∧ G.XY.get k = G'.XY.get k ∧ G.S12.get k = G'.S12.get k ∧
    G.S2.get k = G'.S2.get k ∧ G.M2.get k = G'.M2.get k ∧ G.compute_t.get k = G'.compute_t.get k := by
  intro G G'
  obtain ⟨r, hr, hrk⟩ := hcover k hk
  have hk' : r.p0.toNat = k := by omega
  have h1 := gen_compute_field_of_row nf rows junk junkC hidx hnd r hr
  have h2 := gen_compute_field_of_row nf rows junk' junkC' hidx hnd r hr
  simp only [hk'] at h1 h2
  obtain ⟨_, a1, a2, a3, a4, a5, a6, a7⟩ := h1
  obtain ⟨_, b1, b2, b3, b4, b5, b6, b7⟩ := h2
  exact ⟨a1.trans b1.symm, a2.trans b2.symm, a3.trans b3.symm, a4.trans b4.symm, a5.trans b5.symm, a6.trans b6.symm, a7.trans b7.symm⟩

/-! ### sanitising, read at the STRICT partial reals (`PReal = Option ℝ`, `none` = NaN / ±Inf): over ℝ `np.nan_to_num` is the
    identity and invisible; here it is what makes every entry of the result a finite number -/

namespace RQ
theorem preal_isSome_add (a b : PReal) : (a + b).isSome = (a.isSome && b.isSome) := by
  cases a <;> cases b <;> rfl
theorem preal_isSome_sub (a b : PReal) : (a - b).isSome = (a.isSome && b.isSome) := by
  cases a <;> cases b <;> rfl
theorem preal_isSome_mul (a b : PReal) : (a * b).isSome = (a.isSome && b.isSome) := by
  cases a <;> cases b <;> rfl
theorem preal_isSome_ofNat (n : ℕ) : (RealLike.ofNat n : PReal).isSome = true := rfl
theorem preal_isSome_ofSci (m : ℕ) (sg : Bool) (e : ℕ) : (RealLike.ofSci m sg e : PReal).isSome = true := rfl

/-- `np.nan_to_num(x, nan=a, posinf=b, neginf=c)` with finite replacement values is finite, whatever `x` -/
theorem nanToNum_isSome (x a b c : PReal) (ha : a.isSome = true) (hb : b.isSome = true) (hc : c.isSome = true) :
    (Np.nanToNum x a b c).isSome = true := by
  cases x with
  | none => simpa [Np.nanToNum, RealLike.beq, PReal.cmp] using ha
  | some v =>
    have h1 : RealLike.beq (some v : PReal) (some v) = true := by simp
    have h2 : Np.isfinite (some v : PReal) = true := by simp [Np.isfinite]
    simp [Np.nanToNum, h1, h2]
end RQ

open RQ in
/-- every entry of `XX, YY, XY, S12, S2, M2` that `compute()` hands to the result is a FINITE number — whatever the rows contain
    (NaN / ±Inf included), whatever their order, whatever `np.empty` left behind.  (`compute_t` is not sanitised by the code.) -/
theorem gen_compute_sanitised (nf : ℕ) (rows : List (Np.Row8 PReal)) (junk : ℕ → PReal) (junkC : ℕ → Cx PReal) (k : ℕ) :
    let G := Gen.compute_assemble nf rows junk junkC
    (G.XX.get k).isSome = true ∧ (G.YY.get k).isSome = true ∧ (G.XY.get k).re.isSome = true ∧ (G.XY.get k).im.isSome = true ∧
    (G.S12.get k).isSome = true ∧ (G.S2.get k).isSome = true ∧ (G.M2.get k).isSome = true := by
  intro G
  have hz := preal_isSome_ofSci 0 true 1
  have hn : ∀ x : PReal, (Np.nanToNum x (RealLike.ofSci 0 true 1) (RealLike.ofSci 0 true 1) (RealLike.ofSci 0 true 1)).isSome = true :=
    fun x => nanToNum_isSome x _ _ _ hz hz hz
  simp only [G, Gen.compute_assemble, List.foldl_cons, List.foldl_nil]
  rcases rows.foldl (Gen.compute_scatter_step nf) _ with ⟨a, b, c, d, e, f, g⟩
  simp only [Np.amap, Np.azip, hn, Cx.add, Cx.mul, Cx.ofReal, Np.cxI, preal_isSome_add, preal_isSome_sub, preal_isSome_mul,
    preal_isSome_ofNat, Bool.and_self, Bool.and_true, Bool.true_and, and_self]

/-- the hypotheses are satisfiable: three rows in scrambled order -/
example : ∃ rows : List (Np.Row8 ℝ), rows.length = 3 ∧ (∀ r ∈ rows, 0 ≤ r.p0) ∧ (rows.map (·.p0)).Nodup ∧
    (∀ k : ℕ, k < 3 → ∃ r ∈ rows, r.p0 = (k : ℤ)) ∧ rows.map (·.p0) ≠ [0, 1, 2] := by
  refine ⟨[⟨2, ⟨1, 2⟩, 3, 4, 5, 6, 7, 8⟩, ⟨0, ⟨0, 1⟩, 1, 1, 1, 1, 1, 1⟩, ⟨1, ⟨5, 5⟩, 2, 2, 2, 2, 2, 2⟩], rfl, ?_, ?_, ?_, ?_⟩
  · intro r hr; simp at hr; rcases hr with rfl | rfl | rfl <;> simp
  · simp
  · intro k hk
    have : k = 0 ∨ k = 1 ∨ k = 2 := by omega
    rcases this with rfl | rfl | rfl <;> simp
  · simp

/-! ## (b) `SpectrumResult.__getattr__`: the cache protocol -/

namespace RQ

/-- the attribute function the protocol implements: the formula table for the names it serves, the result dictionary otherwise -/
def evalTbl {V : Type} (eval : String → V) (data : String → Option V) (n : String) : V :=
  if Gen.getattr_is_formula n then eval n else (data n).getD (eval n)

/-- nested reads happen only while a formula is evaluated -/
def touchedTbl (touched : String → List String) (n : String) : List String :=
  if Gen.getattr_is_formula n then touched n else []

theorem dictGet_eq_lookup {V : Type} (c : List (String × V)) (k : String) : Np.dictGet c k = Model.lookup k c := by
  induction c with
  | nil => rfl
  | cons p rest ih =>
    obtain ⟨k', v⟩ := p
    simp only [Np.dictGet, Model.lookup, ih]

/-- a sequence of attribute reads through the generated protocol, threading the cache (`none`: some read raised) -/
def genRun {V : Type} (eval : String → V) (touched : String → List String) (data : String → Option V) :
    List (String × V) → List String → Option (List V)
  | _, [] => some []
  | c, n :: ns =>
    match Gen.getattr_protocol eval touched data c n with
    | none => none
    | some (v, c') => (genRun eval touched data c' ns).map (v :: ·)

/-- a readable name: public, and served by the formula table or present in the result dictionary -/
def Readable {V : Type} (data : String → Option V) (name : String) : Prop :=
  Np.startswith name "_" = false ∧ (Gen.getattr_is_formula name = true ∨ (data name).isSome = true)

end RQ

open RQ in
/-- **(b) the translated cache protocol IS `Model.lazyGet`** for every readable name (a name starting with `_` and a name
    that is neither a formula name nor a key of the result dictionary raise `AttributeError` in the real code: `gen_getattr_private`,
    `gen_getattr_unknown`), every cache, every formula table; `htf`: the attributes a formula reads are formula names (true of
    the generated tables: `gen_touched_are_formulas`). -/
theorem gen_getattr_eq_model {V : Type} (eval : String → V) (touched : String → List String) (data : String → Option V)
    (cache : List (String × V)) (name : String) (hread : Readable data name)
    (htf : ∀ n ∈ touched name, Gen.getattr_is_formula n = true) :
    Gen.getattr_protocol eval touched data cache name
      = some (Model.lazyGet (evalTbl eval data) (touchedTbl touched) cache name) := by
  obtain ⟨hpub, hknown⟩ := hread
  unfold Gen.getattr_protocol Model.lazyGet
  simp only [hpub, Bool.false_eq_true, if_false, Np.dictHas, dictGet_eq_lookup]
  cases hl : Model.lookup name cache with
  | some v => simp
  | none =>
    simp only [Option.isSome_none, Bool.false_eq_true, if_false]
    by_cases hf : Gen.getattr_is_formula name = true
    · have hmap : (touched name).map (fun n => (n, eval n)) = (touched name).map (fun n => (n, evalTbl eval data n)) := by
        apply List.map_congr_left
        intro n hn
        simp [evalTbl, htf n hn]
      simp only [hf, if_true, Np.cacheStore, Np.formulaReads, evalTbl, touchedTbl, hmap]
    · have hd : (data name).isSome = true := by
        rcases hknown with h | h
        · exact absurd h hf
        · exact h
      obtain ⟨v, hv⟩ := Option.isSome_iff_exists.mp hd
      simp [hf, hv, Np.cacheStore, evalTbl, touchedTbl]

/-- a private name raises `AttributeError` and leaves the cache alone -/
theorem gen_getattr_private {V : Type} (eval : String → V) (touched : String → List String) (data : String → Option V)
    (cache : List (String × V)) (name : String) (h : Np.startswith name "_" = true) :
    Gen.getattr_protocol eval touched data cache name = none := by
  unfold Gen.getattr_protocol
  simp [h]

/-- an unknown name (not cached, no formula, not in the result dictionary) raises `AttributeError` -/
theorem gen_getattr_unknown {V : Type} (eval : String → V) (touched : String → List String) (data : String → Option V)
    (cache : List (String × V)) (name : String) (hc : Model.lookup name cache = none)
    (hf : Gen.getattr_is_formula name = false) (hd : data name = none) :
    Gen.getattr_protocol eval touched data cache name = none := by
  unfold Gen.getattr_protocol
  simp [Np.dictHas, RQ.dictGet_eq_lookup, hc, hf, hd]

open RQ in
/-- sequences of reads: the translated protocol threaded through a list of readable names IS `Model.lazyRun` -/
theorem gen_getattr_run_eq_model {V : Type} (eval : String → V) (touched : String → List String) (data : String → Option V)
    (cache : List (String × V)) (names : List String) (hread : ∀ n ∈ names, Readable data n)
    (htf : ∀ m, ∀ n ∈ touched m, Gen.getattr_is_formula n = true) :
    genRun eval touched data cache names = some (Model.lazyRun (evalTbl eval data) (touchedTbl touched) cache names) := by
  induction names generalizing cache with
  | nil => rfl
  | cons n ns ih =>
    simp only [genRun, Model.lazyRun]
    rw [gen_getattr_eq_model eval touched data cache n (hread n List.mem_cons_self) (htf n)]
    simp only [ih _ (fun m hm => hread m (List.mem_cons_of_mem _ hm)), Option.map_some]

open RQ in
/-- transfer of `lazyGet_sound` (C14-c `lazy_cache_sound`): on a cache whose entries are values of the attribute function, a read
    through the translated protocol returns the attribute function's value and leaves such a cache -/
theorem gen_lazy_cache_sound {V : Type} (eval : String → V) (touched : String → List String) (data : String → Option V)
    (cache : List (String × V)) (name : String) (hread : Readable data name)
    (htf : ∀ n ∈ touched name, Gen.getattr_is_formula n = true) (hok : Model.LazyOk (evalTbl eval data) cache) :
    ∃ c', Gen.getattr_protocol eval touched data cache name = some (evalTbl eval data name, c')
      ∧ Model.LazyOk (evalTbl eval data) c' := by
  obtain ⟨h1, h2⟩ := Model.lazyGet_sound (evalTbl eval data) (touchedTbl touched) cache hok name
  refine ⟨(Model.lazyGet (evalTbl eval data) (touchedTbl touched) cache name).2, ?_, h2⟩
  rw [gen_getattr_eq_model eval touched data cache name hread htf, ← h1]

open RQ in
/-- transfer of `lazyRun_empty`: from the empty cache every sequence of readable names returns the attribute function's values,
    whatever the order and the repetitions -/
theorem gen_lazy_run_empty {V : Type} (eval : String → V) (touched : String → List String) (data : String → Option V)
    (names : List String) (hread : ∀ n ∈ names, Readable data n)
    (htf : ∀ m, ∀ n ∈ touched m, Gen.getattr_is_formula n = true) :
    genRun eval touched data [] names = some (names.map (evalTbl eval data)) := by
  rw [gen_getattr_run_eq_model eval touched data [] names hread htf, Model.lazyRun_empty]

open RQ in
/-- transfer of `lazy_order_independent`: two access orders that are permutations of each other return, for every name read,
    the same value (the attribute function's) -/
theorem gen_lazy_order_independent {V : Type} (eval : String → V) (touched : String → List String) (data : String → Option V)
    (ns ms : List String) (hperm : ns.Perm ms) (hread : ∀ n ∈ ns, Readable data n)
    (htf : ∀ m, ∀ n ∈ touched m, Gen.getattr_is_formula n = true) (n : String) (hn : n ∈ ns) :
    ∃ (vs ws : List V) (i j : ℕ), genRun eval touched data [] ns = some vs ∧ genRun eval touched data [] ms = some ws
      ∧ vs[i]? = some (evalTbl eval data n) ∧ ws[j]? = some (evalTbl eval data n) := by
  have hread' : ∀ n ∈ ms, Readable data n := fun m hm => hread m (hperm.mem_iff.mpr hm)
  obtain ⟨i, j, hi, hj⟩ := Model.lazy_order_independent (evalTbl eval data) (touchedTbl touched) ns ms hperm n hn
  exact ⟨_, _, i, j, gen_getattr_run_eq_model eval touched data [] ns hread htf,
    gen_getattr_run_eq_model eval touched data [] ms hread' htf, hi, hj⟩

open RQ in
/-- the formula table wins over the result dictionary: a formula name that is ALSO a key of the dictionary is served by its formula -/
theorem gen_getattr_formula_first {V : Type} (eval : String → V) (touched : String → List String) (data : String → Option V)
    (name : String) (hpub : Np.startswith name "_" = false) (hf : Gen.getattr_is_formula name = true)
    (htf : ∀ n ∈ touched name, Gen.getattr_is_formula n = true) :
    (Gen.getattr_protocol eval touched data [] name).map Prod.fst = some (eval name) := by
  rw [gen_getattr_eq_model eval touched data [] name ⟨hpub, Or.inl hf⟩ htf]
  simp [Model.lazyGet, Model.lookup, evalTbl, hf]

/-! ## (c) `SpectrumResult.get_measurement` -/

namespace RQ

theorem all_isfinite_real (f : List ℝ) : f.all Np.isfinite = true := by
  simp [List.all_eq_true]

end RQ

open RQ in
/-- **(c) the translated `get_measurement` IS `Model.measure`**: over ℝ (every query is finite, so the `ValueError` branch is not
    taken) for every grid, every real or complex table, every scalar or array query: real tables are interpolated with
    `np.interp` on the grid `self.f`; complex tables componentwise (real and imaginary parts separately, recombined as
    `re + 1j*im`); a scalar query gives a scalar, an array query an array of the same length. -/
theorem gen_get_measurement_eq_model (grid : List ℝ) (tbl : Np.Table ℝ) (q : Np.Query ℝ) :
    Gen.get_measurement grid tbl q = some (Model.measure grid tbl q) := by
  unfold Gen.get_measurement
  simp only [all_isfinite_real, Bool.not_true, Bool.false_eq_true, if_false]
  cases tbl with
  | real y =>
    cases q with
    | scalar x => simp [Model.measure, Model.measureR, Np.asarrayQ, Np.isscalarQ, Np.interp, Np.item]
    | array xs => simp [Model.measure, Model.measureR, Np.asarrayQ, Np.isscalarQ, Np.interp]
  | cplx y =>
    cases q with
    | scalar x =>
      simp [Model.measure, Model.measureC, Np.asarrayQ, Np.isscalarQ, Np.item, Np.interp, Cx.add, Cx.sub, Cx.mul, Cx.ofReal, Np.cxI]
    | array xs =>
      simp [Model.measure, Model.measureC, Np.asarrayQ, Np.isscalarQ, Np.interp, List.zipWith_map_left, List.zipWith_map_right,
        List.zipWith_self, Cx.add, Cx.sub, Cx.mul, Cx.ofReal, Np.cxI]

/-! transfer of the `np.interp` contract theorems (Lemmas/Rms `interp_at_grid`, `interp_between`, `interp_clamp_left/right`)
    to the translated method; the grid is strictly increasing (C03) and as long as the table -/

/-- at a grid frequency the measurement is the tabulated value (real quantity) -/
theorem gen_get_measurement_at_grid_real (grid y : List ℝ) (hlen : grid.length = y.length) (hs : grid.Pairwise (· < ·))
    (i : ℕ) (hi : i < grid.length) :
    Gen.get_measurement grid (.real y) (.scalar (grid.getD i 0)) = some (.scalarR (y.getD i 0)) := by
  rw [gen_get_measurement_eq_model]
  simp only [Model.measure, Model.measureR, interp_at_grid grid y hlen hs i hi]

/-- at a grid frequency the measurement is the tabulated value, componentwise (complex quantity) -/
theorem gen_get_measurement_at_grid_cplx (grid : List ℝ) (y : List (Cx ℝ)) (hlen : grid.length = y.length)
    (hs : grid.Pairwise (· < ·)) (i : ℕ) (hi : i < grid.length) :
    Gen.get_measurement grid (.cplx y) (.scalar (grid.getD i 0))
      = some (.scalarC ⟨(y.map Cx.re).getD i 0, (y.map Cx.im).getD i 0⟩) := by
  rw [gen_get_measurement_eq_model]
  simp only [Model.measure, Model.measureC]
  rw [interp_at_grid grid (y.map Cx.re) (by simpa using hlen) hs i hi,
    interp_at_grid grid (y.map Cx.im) (by simpa using hlen) hs i hi]

/-- strictly between two neighbouring grid frequencies the measurement is the affine interpolant (real quantity) -/
theorem gen_get_measurement_between_real (grid y : List ℝ) (hlen : grid.length = y.length) (hs : grid.Pairwise (· < ·))
    (i : ℕ) (hi : i + 1 < grid.length) (x : ℝ) (h1 : grid.getD i 0 < x) (h2 : x < grid.getD (i+1) 0) :
    Gen.get_measurement grid (.real y) (.scalar x)
      = some (.scalarR (y.getD i 0 + (y.getD (i+1) 0 - y.getD i 0) / (grid.getD (i+1) 0 - grid.getD i 0) * (x - grid.getD i 0))) := by
  rw [gen_get_measurement_eq_model]
  simp only [Model.measure, Model.measureR, interp_between grid y hlen hs i hi x h1 h2]

/-- … and componentwise for a complex quantity: real and imaginary parts are interpolated separately -/
theorem gen_get_measurement_between_cplx (grid : List ℝ) (y : List (Cx ℝ)) (hlen : grid.length = y.length)
    (hs : grid.Pairwise (· < ·)) (i : ℕ) (hi : i + 1 < grid.length) (x : ℝ) (h1 : grid.getD i 0 < x) (h2 : x < grid.getD (i+1) 0) :
    Gen.get_measurement grid (.cplx y) (.scalar x)
      = some (.scalarC
          ⟨(y.map Cx.re).getD i 0 + ((y.map Cx.re).getD (i+1) 0 - (y.map Cx.re).getD i 0) / (grid.getD (i+1) 0 - grid.getD i 0) * (x - grid.getD i 0),
           (y.map Cx.im).getD i 0 + ((y.map Cx.im).getD (i+1) 0 - (y.map Cx.im).getD i 0) / (grid.getD (i+1) 0 - grid.getD i 0) * (x - grid.getD i 0)⟩) := by
  rw [gen_get_measurement_eq_model]
  simp only [Model.measure, Model.measureC]
  rw [interp_between grid (y.map Cx.re) (by simpa using hlen) hs i hi x h1 h2,
    interp_between grid (y.map Cx.im) (by simpa using hlen) hs i hi x h1 h2]

/-- below the first / above the last grid frequency the measurement is clamped to the boundary value (real and complex) -/
theorem gen_get_measurement_clamp_real (grid y : List ℝ) (hlen : grid.length = y.length) (hne : grid ≠ [])
    (hs : grid.Pairwise (· < ·)) (x : ℝ) :
    (x ≤ grid.headD 0 → Gen.get_measurement grid (.real y) (.scalar x) = some (.scalarR (y.headD 0))) ∧
    (grid.getLastD 0 ≤ x → Gen.get_measurement grid (.real y) (.scalar x) = some (.scalarR (y.getLastD 0))) := by
  refine ⟨fun hx => ?_, fun hx => ?_⟩
  · rw [gen_get_measurement_eq_model]
    simp only [Model.measure, Model.measureR, interp_clamp_left grid y hlen hne x hx]
  · rw [gen_get_measurement_eq_model]
    simp only [Model.measure, Model.measureR, interp_clamp_right grid y hlen hne hs x hx]

theorem gen_get_measurement_clamp_cplx (grid : List ℝ) (y : List (Cx ℝ)) (hlen : grid.length = y.length) (hne : grid ≠ [])
    (hs : grid.Pairwise (· < ·)) (x : ℝ) :
    (x ≤ grid.headD 0 → Gen.get_measurement grid (.cplx y) (.scalar x)
        = some (.scalarC ⟨(y.map Cx.re).headD 0, (y.map Cx.im).headD 0⟩)) ∧
    (grid.getLastD 0 ≤ x → Gen.get_measurement grid (.cplx y) (.scalar x)
        = some (.scalarC ⟨(y.map Cx.re).getLastD 0, (y.map Cx.im).getLastD 0⟩)) := by
  have h1 : grid.length = (y.map Cx.re).length := by simpa using hlen
  have h2 : grid.length = (y.map Cx.im).length := by simpa using hlen
  refine ⟨fun hx => ?_, fun hx => ?_⟩
  · rw [gen_get_measurement_eq_model]
    simp only [Model.measure, Model.measureC]
    rw [interp_clamp_left grid _ h1 hne x hx, interp_clamp_left grid _ h2 hne x hx]
  · rw [gen_get_measurement_eq_model]
    simp only [Model.measure, Model.measureC]
    rw [interp_clamp_right grid _ h1 hne hs x hx, interp_clamp_right grid _ h2 hne hs x hx]

/-- an array query is answered element by element with the scalar answers, in order, and has the length of the query -/
theorem gen_get_measurement_array (grid : List ℝ) (y : List ℝ) (xs : List ℝ) :
    Gen.get_measurement grid (.real y) (.array xs) = some (.arrayR (xs.map (fun x => Model.interp grid y x))) := by
  rw [gen_get_measurement_eq_model]
  rfl

/-! ## (d) `SpectrumResult.to_dataframe` and `SpectrumResult.__dir__` -/

namespace RQ

theorem mem_dedup (a : String) (l : List String) : a ∈ Np.dedup l ↔ a ∈ l := by
  induction l with
  | nil => simp [Np.dedup]
  | cons b l ih =>
    unfold Np.dedup
    split_ifs with h
    · rw [ih]; constructor
      · exact List.mem_cons_of_mem _
      · intro hm; rcases List.mem_cons.mp hm with rfl | h'
        · exact h
        · exact h'
    · simp [ih]

theorem nodup_dedup (l : List String) : (Np.dedup l).Nodup := by
  induction l with
  | nil => simp [Np.dedup]
  | cons b l ih =>
    unfold Np.dedup
    split_ifs with h
    · exact ih
    · exact List.nodup_cons.mpr ⟨fun hm => h ((mem_dedup b l).mp hm), ih⟩

/-- the contract of `sorted(set(xs) - S)`: its elements … -/
theorem mem_sortedSetDiff (a : String) (xs S : List String) : a ∈ Np.sortedSetDiff xs S ↔ a ∈ xs ∧ a ∉ S := by
  unfold Np.sortedSetDiff
  rw [List.mem_mergeSort, mem_dedup, List.mem_filter]
  simp

/-- … without repetition -/
theorem nodup_sortedSetDiff (xs S : List String) : (Np.sortedSetDiff xs S).Nodup := by
  unfold Np.sortedSetDiff
  exact (List.mergeSort_perm _ _).nodup_iff.mpr (nodup_dedup _)

section Frame
variable {V : Type} (callable isNdarray : V → Bool) (shape : V → List Nat) (tbl : String → Option V) (n : ℕ)

/-- the model's column selector -/
def sel (a : String) : Option (String × V) :=
  if a = "f" ∨ Np.startswith a "_" = true then none
  else match tbl a with
    | some v => if Model.perBin callable isNdarray shape n v then some (a, v) else none
    | none => none

theorem sel_key {a : String} {p : String × V} (h : sel callable isNdarray shape tbl n a = some p) : p.1 = a ∧ a ≠ "f" := by
  unfold sel at h
  split_ifs at h with h1
  push Not at h1
  cases ht : tbl a with
  | none => simp [ht] at h
  | some v =>
    simp only [ht] at h
    split_ifs at h
    simp only [Option.some.injEq] at h
    subst h
    exact ⟨rfl, h1.1⟩

theorem dictHas_cons_ne {d : List (String × V)} {k k' : String} {v : V} (h : k ≠ k') :
    Np.dictHas ((k', v) :: d) k = Np.dictHas d k := by
  simp [Np.dictHas, Np.dictGet, h]

theorem dictHas_false_of_not_mem (d : List (String × V)) (k : String) (h : k ∉ d.map Prod.fst) : Np.dictHas d k = false := by
  induction d with
  | nil => rfl
  | cons p d ih =>
    obtain ⟨k', v⟩ := p
    simp only [List.map_cons, List.mem_cons, not_or] at h
    rw [dictHas_cons_ne h.1]
    exact ih h.2

theorem odictSet_new (d : List (String × V)) (k : String) (v : V) (h : k ∉ d.map Prod.fst) :
    Np.odictSet d k v = d ++ [(k, v)] := by
  unfold Np.odictSet
  rw [dictHas_false_of_not_mem d k h]
  simp

theorem odictSet_head_same (cols : List (String × V)) (k : String) (v : V) (h : k ∉ cols.map Prod.fst) :
    Np.odictSet ((k, v) :: cols) k v = (k, v) :: cols := by
  unfold Np.odictSet
  have : Np.dictHas ((k, v) :: cols) k = true := by simp [Np.dictHas, Np.dictGet]
  rw [this, if_pos rfl, List.map_cons, if_pos rfl]
  congr 1
  conv_rhs => rw [← List.map_id cols]
  apply List.map_congr_left
  intro p hp
  have : k ≠ p.1 := fun e => h (e ▸ List.mem_map_of_mem hp)
  simp [this]

/-- the translated loop, given its body as a function of the dictionary built so far and the attribute name -/
theorem fold_cols (body : List (String × V) → String → List (String × V)) (f0 : V) (htf : tbl "f" = some f0)
    (hbody : ∀ d a, body d a =
      (if Np.startswith a "_" = true then d
       else match tbl a with
         | none => d
         | some val => if callable val = true then d
           else if (isNdarray val && ((shape val).take 1 == [n])) = true then Np.odictSet d a val else d))
    (names : List String) (hnd : names.Nodup) (cols : List (String × V))
    (hdisj : ∀ a ∈ names, a ∉ cols.map Prod.fst) (hf : "f" ∉ cols.map Prod.fst) :
    names.foldl body (("f", f0) :: cols)
      = ("f", f0) :: (cols ++ names.filterMap (sel callable isNdarray shape tbl n)) := by
  induction names generalizing cols with
  | nil => simp
  | cons a rest ih =>
    rw [List.nodup_cons] at hnd
    have hdisj' : ∀ b ∈ rest, b ∉ cols.map Prod.fst := fun b hb => hdisj b (List.mem_cons_of_mem _ hb)
    rw [List.foldl_cons, hbody]
    by_cases hpriv : Np.startswith a "_" = true
    · have hs : sel callable isNdarray shape tbl n a = none := by simp [sel, hpriv]
      simp only [hpriv, if_true]
      rw [ih hnd.2 cols hdisj' hf, List.filterMap_cons, hs]
    · simp only [hpriv, Bool.false_eq_true, if_false]
      cases ht : tbl a with
      | none =>
        have hs : sel callable isNdarray shape tbl n a = none := by simp [sel, ht]
        simp only []
        rw [ih hnd.2 cols hdisj' hf, List.filterMap_cons, hs]
      | some val =>
        simp only []
        by_cases hc : callable val = true
        · have hs : sel callable isNdarray shape tbl n a = none := by simp [sel, ht, Model.perBin, hc]
          simp only [hc, if_true]
          rw [ih hnd.2 cols hdisj' hf, List.filterMap_cons, hs]
        · simp only [hc, Bool.false_eq_true, if_false]
          by_cases hsh : (isNdarray val && ((shape val).take 1 == [n])) = true
          · simp only [hsh, if_true]
            by_cases haf : a = "f"
            · -- the index itself: re-stored under its own key with its own value
              subst haf
              have hval : val = f0 := by rw [htf] at ht; exact (Option.some.inj ht).symm
              have hs : sel callable isNdarray shape tbl n "f" = none := by simp [sel]
              rw [hval, odictSet_head_same cols "f" f0 hf, ih hnd.2 cols hdisj' hf, List.filterMap_cons, hs]
            · have hs : sel callable isNdarray shape tbl n a = some (a, val) := by
                have hc' : callable val = false := by simpa using hc
                simp only [sel, ht, Model.perBin, haf, hpriv, false_or, hc', Bool.not_false, Bool.true_and]
                simp [hsh]
              have hnew : a ∉ (("f", f0) :: cols).map Prod.fst := by
                simp only [List.map_cons, List.mem_cons, not_or]
                exact ⟨haf, hdisj a List.mem_cons_self⟩
              rw [odictSet_new _ a val hnew, List.cons_append]
              rw [ih hnd.2 (cols ++ [(a, val)]) ?_ ?_, List.filterMap_cons, hs, List.append_assoc]
              · rfl
              · intro b hb
                simp only [List.map_append, List.map_cons, List.map_nil, List.mem_append, List.mem_singleton, not_or]
                exact ⟨hdisj' b hb, fun e => hnd.1 (e ▸ hb)⟩
              · simp only [List.map_append, List.map_cons, List.map_nil, List.mem_append, List.mem_singleton, not_or]
                exact ⟨hf, fun e => haf e.symm⟩
          · have hs : sel callable isNdarray shape tbl n a = none := by
              have : (isNdarray val && ((shape val).take 1 == [n])) = false := by simpa using hsh
              simp only [sel, ht, Model.perBin, Bool.and_assoc, this, Bool.and_false]
              simp
            simp only [hsh, Bool.false_eq_true, if_false]
            rw [ih hnd.2 cols hdisj' hf, List.filterMap_cons, hs]

end Frame
end RQ

namespace RQ
theorem exportColumns_eq {V : Type} (callable isNdarray : V → Bool) (shape : V → List ℕ) (names : List String)
    (tbl : String → Option V) (n : ℕ) :
    Model.exportColumns callable isNdarray shape names tbl n
      = (Np.sortedSetDiff names ["iscsd", "fs"]).filterMap (sel callable isNdarray shape tbl n) := rfl

theorem step_eq {V : Type} (callable isNdarray : V → Bool) (shape : V → List ℕ) (tbl : String → Option V) (n : ℕ)
    (d : List (String × V)) (a : String) :
    Gen.to_dataframe_step callable isNdarray shape tbl n d a =
      (if Np.startswith a "_" = true then d
       else match tbl a with
         | none => d
         | some val => if callable val = true then d
           else if (isNdarray val && ((shape val).take 1 == [n])) = true then Np.odictSet d a val else d) := by
  unfold Gen.to_dataframe_step
  split_ifs with h1
  · rfl
  · cases tbl a with
    | none => rfl
    | some val => rfl

theorem filterMap_sel_keys_nodup {V : Type} (callable isNdarray : V → Bool) (shape : V → List ℕ) (tbl : String → Option V) (n : ℕ)
    (l : List String) (hnd : l.Nodup) : ((l.filterMap (sel callable isNdarray shape tbl n)).map Prod.fst).Nodup := by
  induction l with
  | nil => simp
  | cons a l ih =>
    rw [List.nodup_cons] at hnd
    rw [List.filterMap_cons]
    cases hs : sel callable isNdarray shape tbl n a with
    | none => exact ih hnd.2
    | some p =>
      simp only [List.map_cons, List.nodup_cons]
      refine ⟨?_, ih hnd.2⟩
      intro hm
      obtain ⟨q, hq, hqa⟩ := List.mem_map.mp hm
      obtain ⟨b, hb, hbq⟩ := List.mem_filterMap.mp hq
      have k1 := (sel_key callable isNdarray shape tbl n hs).1
      have k2 := (sel_key callable isNdarray shape tbl n hbq).1
      apply hnd.1
      rw [← k1, ← hqa, k2]
      exact hb
end RQ

open RQ in
/-- **(d) the translated `to_dataframe` IS the model export** — for every attribute table (`tbl name = none`: the read raises
    `AttributeError`), every description of values (`callable`, `isNdarray`, `shape`), every name list `dir(self)`:
    index = the attribute `f`; columns = the public names of `set(dir(self)) − {iscsd, fs}` whose value is a non-callable
    ndarray with first dimension `n = f.shape[0]`, in sorted order; `none` (an exception) exactly when `f` cannot be read or is
    0-dimensional. -/
theorem gen_to_dataframe_eq_model {V : Type} (callable isNdarray : V → Bool) (shape : V → List ℕ) (names : List String)
    (tbl : String → Option V) :
    Gen.to_dataframe callable isNdarray shape names tbl = Model.exportFrame callable isNdarray shape names tbl := by
  unfold Gen.to_dataframe Model.exportFrame
  cases htf : tbl "f" with
  | none => rfl
  | some f0 =>
    simp only [Np.dictGet, if_true]
    cases hn : (shape f0)[0]? with
    | none => rfl
    | some n =>
      simp only []
      rw [fold_cols callable isNdarray shape tbl n _ f0 htf (step_eq callable isNdarray shape tbl n) _
        (nodup_sortedSetDiff _ _) [] (fun a _ => by simp) (by simp)]
      simp only [List.nil_append, Np.frameSetIndex, Np.dictGet, if_true, exportColumns_eq]
      congr 2
      rw [List.filter_cons]
      simp only [beq_self_eq_true, Bool.not_true, Bool.false_eq_true, if_false]
      rw [List.filter_eq_self.mpr]
      intro p hp
      obtain ⟨a, _, ha⟩ := List.mem_filterMap.mp hp
      obtain ⟨h1, h2⟩ := sel_key callable isNdarray shape tbl n ha
      simp [h1, h2]

open RQ in
/-- which names become columns: exactly the per-bin array attributes, each once -/
theorem gen_to_dataframe_columns {V : Type} (callable isNdarray : V → Bool) (shape : V → List ℕ) (names : List String)
    (tbl : String → Option V) (f0 : V) (n : ℕ) (hf : tbl "f" = some f0) (hn : (shape f0)[0]? = some n) :
    ∃ cols, Gen.to_dataframe callable isNdarray shape names tbl = some (f0, cols) ∧ (cols.map Prod.fst).Nodup ∧
      ∀ a v, (a, v) ∈ cols ↔
        (a ∈ names ∧ a ≠ "iscsd" ∧ a ≠ "fs" ∧ a ≠ "f" ∧ Np.startswith a "_" = false ∧ tbl a = some v ∧
          callable v = false ∧ isNdarray v = true ∧ (shape v).take 1 = [n]) := by
  refine ⟨Model.exportColumns callable isNdarray shape names tbl n, ?_, ?_, ?_⟩
  · rw [gen_to_dataframe_eq_model]
    simp only [Model.exportFrame, hf, hn]
  · rw [exportColumns_eq]
    exact filterMap_sel_keys_nodup callable isNdarray shape tbl n _ (nodup_sortedSetDiff names ["iscsd", "fs"])
  · intro a v
    rw [exportColumns_eq, List.mem_filterMap]
    constructor
    · rintro ⟨b, hb, hsel'⟩
      obtain ⟨k1, k2⟩ := sel_key callable isNdarray shape tbl n hsel'
      simp only at k1
      subst k1
      rw [mem_sortedSetDiff] at hb
      simp only [List.mem_cons, List.not_mem_nil, or_false, not_or] at hb
      unfold sel at hsel'
      split_ifs at hsel' with h1
      push Not at h1
      cases ht : tbl a with
      | none => simp [ht] at hsel'
      | some w =>
        simp only [ht] at hsel'
        split_ifs at hsel' with h2
        simp only [Option.some.injEq, Prod.mk.injEq, true_and] at hsel'
        subst hsel'
        simp only [Model.perBin, Bool.and_eq_true, Bool.not_eq_true', beq_iff_eq] at h2
        exact ⟨hb.1, hb.2.1, hb.2.2, h1.1, by simpa using h1.2, rfl, h2.1.1, h2.1.2, h2.2⟩
    · rintro ⟨h1, h2, h3, h4, h5, h6, h7, h8, h9⟩
      refine ⟨a, ?_, ?_⟩
      · rw [mem_sortedSetDiff]; simp [h1, h2, h3]
      · simp [sel, h4, h5, h6, Model.perBin, h7, h8, h9]

/-- `__dir__`: the advertised names are the default attributes, the keys of the result dictionary and the dynamic names (the same
    list for auto and cross results), each once -/
theorem gen_result_dir_spec (dflt dataKeys : List String) :
    (Gen.result_dir dflt dataKeys).Nodup ∧
    ∀ a, a ∈ Gen.result_dir dflt dataKeys ↔ Model.advertised dflt dataKeys Gen.dir_dynamic a := by
  unfold Gen.result_dir Np.sortedSet Model.advertised
  refine ⟨RQ.nodup_sortedSetDiff _ _, fun a => ?_⟩
  rw [RQ.mem_sortedSetDiff]
  simp

/-! ## consistency of the generated tables (finite checks on the generated lists) -/

/-- every dynamic name `__dir__` advertises is served by the formula table of `__getattr__` (so `dir(result)` never advertises a
    name whose read raises `AttributeError`) -/
theorem gen_dir_served : ∀ a ∈ Gen.dir_dynamic, Gen.getattr_is_formula a = true := by
  decide

/-- no advertised dynamic name is private -/
theorem gen_dir_public : ∀ a ∈ Gen.dir_dynamic, Np.startswith a "_" = false := by
  decide

/-- the attributes a formula reads through `self.<attr>` are themselves formula names (the premise `htf` of the protocol theorems),
    for auto and for cross results -/
theorem gen_touched_are_formulas :
    (∀ m, ∀ n ∈ Gen.touchedAuto m, Gen.getattr_is_formula n = true) ∧
    (∀ m, ∀ n ∈ Gen.touchedCross m, Gen.getattr_is_formula n = true) := by
  have key : ∀ (tbl : List (String × List String)), (∀ p ∈ tbl, ∀ n ∈ p.2, Gen.getattr_is_formula n = true) →
      ∀ m, ∀ n ∈ (Np.dictGet tbl m).getD [], Gen.getattr_is_formula n = true := by
    intro tbl h m n hn
    induction tbl with
    | nil => simp [Np.dictGet] at hn
    | cons p tbl ih =>
      obtain ⟨k, l⟩ := p
      unfold Np.dictGet at hn
      split_ifs at hn with hk
      · exact h (k, l) List.mem_cons_self n (by simpa using hn)
      · exact ih (fun q hq => h q (List.mem_cons_of_mem _ hq)) hn
  exact ⟨key Gen.touchedAutoTable (by decide), key Gen.touchedCrossTable (by decide)⟩

/-- hence: on a fresh AUTO or CROSS result, ANY sequence of reads of advertised dynamic names through the translated protocol
    (with the generated nested-read tables) returns the formula table's value for each — whatever the order and the repetitions -/
theorem gen_lazy_run_dynamic {V : Type} (eval : String → V) (data : String → Option V) (names : List String)
    (hn : ∀ n ∈ names, n ∈ Gen.dir_dynamic) :
    RQ.genRun eval Gen.touchedAuto data [] names = some (names.map eval) ∧
    RQ.genRun eval Gen.touchedCross data [] names = some (names.map eval) := by
  have hread : ∀ n ∈ names, RQ.Readable data n :=
    fun n h => ⟨gen_dir_public n (hn n h), Or.inl (gen_dir_served n (hn n h))⟩
  have hev : names.map (RQ.evalTbl eval data) = names.map eval := by
    apply List.map_congr_left
    intro n h
    simp [RQ.evalTbl, gen_dir_served n (hn n h)]
  rw [gen_lazy_run_empty eval Gen.touchedAuto data names hread gen_touched_are_formulas.1,
    gen_lazy_run_empty eval Gen.touchedCross data names hread gen_touched_are_formulas.2, hev]
  exact ⟨rfl, rfl⟩

/-! ### the hypotheses of the theorems above are satisfiable by concrete non-trivial instances -/

/-- `Readable`: a formula name, a dictionary key; not readable: a private name -/
example : RQ.Readable (fun n => if n = "f" then some (0 : ℕ) else none) "asd"
    ∧ RQ.Readable (fun n => if n = "f" then some (0 : ℕ) else none) "f"
    ∧ ¬ RQ.Readable (fun n => if n = "f" then some (0 : ℕ) else none) "_cache" := by
  refine ⟨⟨by decide, Or.inl (by decide)⟩, ⟨by decide, Or.inr (by simp)⟩, ?_⟩
  rintro ⟨h, _⟩
  exact absurd h (by decide)

/-- `gen_getattr_unknown`: an unknown public name -/
example : Gen.getattr_is_formula "nonexistent" = false ∧ Np.startswith "nonexistent" "_" = false := by decide

/-- a strictly increasing grid with a table of the same length (premises of the `get_measurement` transfer theorems) -/
example : ([1, 2, 4] : List ℝ).Pairwise (· < ·) ∧ ([1, 2, 4] : List ℝ).length = ([⟨1, 0⟩, ⟨0, 1⟩, ⟨2, 2⟩] : List (Cx ℝ)).length
    ∧ ([1, 2, 4] : List ℝ) ≠ [] ∧ ([1, 2, 4] : List ℝ).getD 0 0 < 3 / 2 ∧ (3 / 2 : ℝ) < ([1, 2, 4] : List ℝ).getD 1 0 := by
  refine ⟨by simp; norm_num, rfl, by simp, by norm_num, by norm_num⟩

/-- `gen_to_dataframe_columns`: an attribute table with an index `f` of 3 bins, one per-bin column, one scalar, one method -/
example : ∃ (tbl : String → Option (Bool × Bool × List ℕ)) (f0 : Bool × Bool × List ℕ),
    tbl "f" = some f0 ∧ (f0.2.2)[0]? = some 3 ∧ tbl "asd" = some (false, true, [3]) ∧ tbl "nf" = some (false, false, [])
      ∧ tbl "plot" = some (true, false, []) ∧ tbl "zzz" = none :=
  ⟨fun n => if n = "f" then some (false, true, [3]) else if n = "asd" then some (false, true, [3])
     else if n = "nf" then some (false, false, []) else if n = "plot" then some (true, false, []) else none,
   (false, true, [3]), by decide, by decide, by decide, by decide, by decide, by decide⟩

#print axioms gen_compute_assemble_eq_model
#print axioms gen_compute_field_of_row
#print axioms gen_compute_assemble_perm
#print axioms gen_compute_no_junk
#print axioms gen_compute_sanitised
#print axioms gen_getattr_eq_model
#print axioms gen_getattr_private
#print axioms gen_getattr_unknown
#print axioms gen_getattr_run_eq_model
#print axioms gen_lazy_cache_sound
#print axioms gen_lazy_run_empty
#print axioms gen_lazy_order_independent
#print axioms gen_getattr_formula_first
#print axioms gen_get_measurement_eq_model
#print axioms gen_get_measurement_at_grid_real
#print axioms gen_get_measurement_at_grid_cplx
#print axioms gen_get_measurement_between_real
#print axioms gen_get_measurement_between_cplx
#print axioms gen_get_measurement_clamp_real
#print axioms gen_get_measurement_clamp_cplx
#print axioms gen_get_measurement_array
#print axioms gen_to_dataframe_eq_model
#print axioms gen_to_dataframe_columns
#print axioms gen_result_dir_spec
#print axioms gen_dir_served
#print axioms gen_dir_public
#print axioms gen_touched_are_formulas
#print axioms gen_lazy_run_dynamic
#print axioms RQ.mem_sortedSetDiff
#print axioms RQ.nodup_sortedSetDiff
