/-
  SpecKitV.Props.C13Finite — property C13 "finite for finite input" of the generated attribute
  definitions (`SpecKitV/Gen/Attrs.lean`), at the STRICT partial instance `PReal = Option ℝ`
  (`SpecKitV/PReal.lean`: x/0, sqrt(<0), log10(≤0), arcsin(|x|>1) … are `none`, `none` propagates).

  For every finite per-bin record `d` with the sign conditions that hold for real estimates
  (XX, YY, S2, S12, M2 ≥ 0, navg ≥ 1, fs > 0) — and NO non-vanishing assumption, so all-zero and
  constant inputs (XX = YY = XY = S2 = S12 = 0) are covered — every density, coherence and
  transfer-function attribute evaluates to a finite number, and so do the error bars wherever the
  coherence is in (0, 1].

  Layout: `lift_*` lemmas show the stronger fact that the strict evaluation succeeds AND agrees with
  the total evaluation at ℝ:  `attr (lift d) = some (attr d)`.  The requested theorems are
  corollaries (`Fin (some _)`).
-/
import SpecKitV.PReal
import SpecKitV.Gen.Attrs
open Gen PReal

set_option linter.unusedVariables false
set_option linter.unnecessarySeqFocus false
set_option linter.unusedSimpArgs false
set_option linter.unusedSectionVars false

namespace C13Finite

/-- the admissible finite inputs -/
def Adm (d : BinData ℝ) : Prop :=
  0 ≤ d.XX ∧ 0 ≤ d.YY ∧ 0 ≤ d.S2 ∧ 0 ≤ d.S12 ∧ 0 ≤ d.M2 ∧ 1 ≤ d.navg ∧ 0 < d.fs

/-! ### strict evaluation = total evaluation: densities -/

theorem lift_aGxx (d : BinData ℝ) (hfs : d.fs ≠ 0) :
    Auto.Gxx (BinData.lift d) = some (Auto.Gxx d) := by
  by_cases h : d.S2 = 0 <;> simp [Auto.Gxx, h, hfs]

theorem lift_aENBW (d : BinData ℝ) : Auto.ENBW (BinData.lift d) = some (Auto.ENBW d) := by
  by_cases h : d.S12 = 0 <;> simp [Auto.ENBW, h]

theorem lift_apsd (d : BinData ℝ) (hfs : d.fs ≠ 0) :
    Auto.psd (BinData.lift d) = some (Auto.psd d) := by
  simp only [Auto.psd, lift_aGxx d hfs]

theorem aGxx_nonneg (d : BinData ℝ) (hX : 0 ≤ d.XX) (hS : 0 ≤ d.S2) (hfs : 0 < d.fs) :
    0 ≤ Auto.Gxx d := by
  by_cases h : d.S2 = 0
  · simp [Auto.Gxx, h]
  · simp only [Auto.Gxx, RL.bne_eq, RL.ofNat_eq, Nat.cast_zero, h, decide_false, Bool.not_false,
      if_true, RL.ofSci_eq]
    positivity

theorem lift_aasd (d : BinData ℝ) (hX : 0 ≤ d.XX) (hS : 0 ≤ d.S2) (hfs : 0 < d.fs) :
    Auto.asd (BinData.lift d) = some (Auto.asd d) := by
  have h0 : 0 ≤ Auto.psd d := aGxx_nonneg d hX hS hfs
  simp [Auto.asd, lift_apsd d hfs.ne', h0]

theorem lift_aps (d : BinData ℝ) (hfs : d.fs ≠ 0) :
    Auto.ps (BinData.lift d) = some (Auto.ps d) := by
  simp [Auto.ps, lift_apsd d hfs, lift_aENBW]

theorem lift_cGxx (d : BinData ℝ) (hfs : d.fs ≠ 0) :
    Cross.Gxx (BinData.lift d) = some (Cross.Gxx d) := by
  by_cases h : d.S2 = 0 <;> simp [Cross.Gxx, h, hfs]

theorem lift_cGyy (d : BinData ℝ) (hfs : d.fs ≠ 0) :
    Cross.Gyy (BinData.lift d) = some (Cross.Gyy d) := by
  by_cases h : d.S2 = 0 <;> simp [Cross.Gyy, h, hfs]

theorem lift_cGxy (d : BinData ℝ) (hfs : d.fs ≠ 0) :
    Cross.Gxy (BinData.lift d) = cx (Cross.Gxy d) := by
  by_cases h : d.S2 = 0 <;> simp [Cross.Gxy, h, hfs]

theorem lift_cENBW (d : BinData ℝ) : Cross.ENBW (BinData.lift d) = some (Cross.ENBW d) := by
  by_cases h : d.S12 = 0 <;> simp [Cross.ENBW, h]

theorem lift_ccsd (d : BinData ℝ) (hfs : d.fs ≠ 0) :
    Cross.csd (BinData.lift d) = cx (Cross.csd d) := by
  simp only [Cross.csd, lift_cGxy d hfs]

theorem lift_cGyx (d : BinData ℝ) (hfs : d.fs ≠ 0) :
    Cross.Gyx (BinData.lift d) = cx (Cross.Gyx d) := by
  simp [Cross.Gyx, lift_cGxy d hfs]

theorem lift_ccs (d : BinData ℝ) (hfs : d.fs ≠ 0) :
    Cross.cs (BinData.lift d) = cx (Cross.cs d) := by
  simp [Cross.cs, lift_ccsd d hfs, lift_cENBW]

/-! ### coherence -/

theorem lift_coh (d : BinData ℝ) : Cross.coh (BinData.lift d) = some (Cross.coh d) := by
  by_cases hx : d.XX = 0 <;> by_cases hy : d.YY = 0 <;> simp [Cross.coh, hx, hy]

theorem lift_ccoh (d : BinData ℝ) (hX : 0 ≤ d.XX) (hY : 0 ≤ d.YY) :
    Cross.ccoh (BinData.lift d) = cx (Cross.ccoh d) := by
  by_cases hx : d.XX = 0
  · simp [Cross.ccoh, hx]
  by_cases hy : d.YY = 0
  · simp [Cross.ccoh, hy]
  have hpos : 0 < d.XX * d.YY :=
    mul_pos (lt_of_le_of_ne hX (Ne.symm hx)) (lt_of_le_of_ne hY (Ne.symm hy))
  have h0 : 0 ≤ d.XX * d.YY := hpos.le
  have hs : Real.sqrt (d.XX * d.YY) ≠ 0 := (Real.sqrt_pos.mpr hpos).ne'
  simp [Cross.ccoh, hx, hy, h0, hs]

/-! ### transfer function -/

theorem lift_Hxy (d : BinData ℝ) : Cross.Hxy (BinData.lift d) = cx (Cross.Hxy d) := by
  by_cases hx : d.XX = 0 <;> simp [Cross.Hxy, hx]

theorem lift_Hyx (d : BinData ℝ) : Cross.Hyx (BinData.lift d) = cx (Cross.Hyx d) := by
  simp [Cross.Hyx, lift_Hxy]

theorem lift_tf (d : BinData ℝ) : Cross.tf (BinData.lift d) = cx (Cross.tf d) := by
  simp only [Cross.tf, lift_Hxy]

theorem lift_cf (d : BinData ℝ) : Cross.cf (BinData.lift d) = some (Cross.cf d) := by
  simp [Cross.cf, lift_Hxy]

theorem lift_cf_rad (d : BinData ℝ) : Cross.cf_rad (BinData.lift d) = some (Cross.cf_rad d) := by
  simp [Cross.cf_rad, lift_Hxy]

theorem lift_cf_deg (d : BinData ℝ) : Cross.cf_deg (BinData.lift d) = some (Cross.cf_deg d) := by
  simp [Cross.cf_deg, lift_Hxy, Real.pi_ne_zero]

/-! ### conditioned spectra -/

theorem lift_GyyCx (d : BinData ℝ) (hfs : d.fs ≠ 0) :
    Cross.GyyCx (BinData.lift d) = some (Cross.GyyCx d) := by
  simp [Cross.GyyCx, lift_coh, lift_cGyy d hfs]

theorem lift_GyyRx (d : BinData ℝ) (hfs : d.fs ≠ 0) :
    Cross.GyyRx (BinData.lift d) = some (Cross.GyyRx d) := by
  simp [Cross.GyyRx, lift_coh, lift_cGyy d hfs]

theorem lift_GyySx (d : BinData ℝ) (hfs : d.fs ≠ 0) :
    Cross.GyySx (BinData.lift d) = some (Cross.GyySx d) := by
  simp [Cross.GyySx, lift_cGyy d hfs, lift_cGxx d hfs, lift_Hxy, lift_Hyx, lift_cGyx d hfs,
    lift_cGxy d hfs]

/-! ### empirical deviations -/

theorem lift_cXY_emp_var (d : BinData ℝ) (hn : 0 < d.navg) :
    Cross.XY_emp_var (BinData.lift d) = some (Cross.XY_emp_var d) := by
  simp [Cross.XY_emp_var, hn, hn.ne']

theorem lift_cXY_emp_dev (d : BinData ℝ) (hn : 0 < d.navg) (hM : 0 ≤ d.M2) :
    Cross.XY_emp_dev (BinData.lift d) = some (Cross.XY_emp_dev d) := by
  have h0 : 0 ≤ d.M2 / d.navg := div_nonneg hM hn.le
  simp [Cross.XY_emp_dev, hn, hn.ne', h0]

theorem lift_cGxy_emp_dev (d : BinData ℝ) (hn : 0 < d.navg) (hM : 0 ≤ d.M2) (hfs : d.fs ≠ 0) :
    Cross.Gxy_emp_dev (BinData.lift d) = some (Cross.Gxy_emp_dev d) := by
  have h0 : 0 ≤ d.M2 / d.navg := div_nonneg hM hn.le
  by_cases hS : 0 < d.S2
  · simp [Cross.Gxy_emp_dev, hn, hn.ne', h0, hS, hS.ne', hfs]
  · simp [Cross.Gxy_emp_dev, hn, hn.ne', h0, hS]

theorem lift_aXY_emp_var (d : BinData ℝ) (hn : 0 < d.navg) :
    Auto.XY_emp_var (BinData.lift d) = some (Auto.XY_emp_var d) := by
  simp [Auto.XY_emp_var, hn, hn.ne']

theorem lift_aXY_emp_dev (d : BinData ℝ) (hn : 0 < d.navg) (hM : 0 ≤ d.M2) :
    Auto.XY_emp_dev (BinData.lift d) = some (Auto.XY_emp_dev d) := by
  have h0 : 0 ≤ d.M2 / d.navg := div_nonneg hM hn.le
  simp [Auto.XY_emp_dev, hn, hn.ne', h0]

theorem lift_aGxx_emp_dev (d : BinData ℝ) (hn : 0 < d.navg) (hM : 0 ≤ d.M2) (hfs : d.fs ≠ 0) :
    Auto.Gxx_emp_dev (BinData.lift d) = some (Auto.Gxx_emp_dev d) := by
  have h0 : 0 ≤ d.M2 / d.navg := div_nonneg hM hn.le
  by_cases hS : 0 < d.S2
  · simp [Auto.Gxx_emp_dev, hn, hn.ne', h0, hS, hS.ne', hfs]
  · simp [Auto.Gxx_emp_dev, hn, hn.ne', h0, hS]

/-! ### error bars of auto results (coherence ≡ 1) -/

theorem sqrt_navg_ne (d : BinData ℝ) (hn : 0 < d.navg) : Real.sqrt d.navg ≠ 0 :=
  (Real.sqrt_pos.mpr hn).ne'

theorem lift_aGxx_dev (d : BinData ℝ) (hn : 0 < d.navg) (hfs : d.fs ≠ 0) :
    Auto.Gxx_dev (BinData.lift d) = some (Auto.Gxx_dev d) := by
  simp [Auto.Gxx_dev, lift_aGxx d hfs, hn.le, sqrt_navg_ne d hn]

theorem lift_aGyy_dev (d : BinData ℝ) (hn : 0 < d.navg) (hfs : d.fs ≠ 0) :
    Auto.Gyy_dev (BinData.lift d) = some (Auto.Gyy_dev d) := by
  simp only [Auto.Gyy_dev, lift_aGxx_dev d hn hfs]

theorem lift_aGxx_error (d : BinData ℝ) (hn : 0 < d.navg) :
    Auto.Gxx_error (BinData.lift d) = some (Auto.Gxx_error d) := by
  simp [Auto.Gxx_error, hn.le, sqrt_navg_ne d hn]

theorem lift_aGyy_error (d : BinData ℝ) (hn : 0 < d.navg) :
    Auto.Gyy_error (BinData.lift d) = some (Auto.Gyy_error d) := by
  simp only [Auto.Gyy_error, lift_aGxx_error d hn]

/-! ### error bars of cross results, where 0 < coh ≤ 1 -/

theorem lift_cGxx_dev (d : BinData ℝ) (hn : 0 < d.navg) (hfs : d.fs ≠ 0) :
    Cross.Gxx_dev (BinData.lift d) = some (Cross.Gxx_dev d) := by
  simp [Cross.Gxx_dev, lift_cGxx d hfs, hn.le, sqrt_navg_ne d hn]

theorem lift_cGyy_dev (d : BinData ℝ) (hn : 0 < d.navg) (hfs : d.fs ≠ 0) :
    Cross.Gyy_dev (BinData.lift d) = some (Cross.Gyy_dev d) := by
  simp [Cross.Gyy_dev, lift_cGyy d hfs, hn.le, sqrt_navg_ne d hn]

theorem lift_cGxx_error (d : BinData ℝ) (hn : 0 < d.navg) :
    Cross.Gxx_error (BinData.lift d) = some (Cross.Gxx_error d) := by
  simp [Cross.Gxx_error, hn.le, sqrt_navg_ne d hn]

theorem lift_cGyy_error (d : BinData ℝ) (hn : 0 < d.navg) :
    Cross.Gyy_error (BinData.lift d) = some (Cross.Gyy_error d) := by
  simp [Cross.Gyy_error, hn.le, sqrt_navg_ne d hn]

theorem cabs_nonneg (z : Cx ℝ) : 0 ≤ Cx.abs z := by
  simp only [Cx.abs, RL.sqrt_eq]; exact Real.sqrt_nonneg _

theorem lift_cGxy_dev (d : BinData ℝ) (hn : 0 < d.navg) (hfs : d.fs ≠ 0) (hc : 0 < Cross.coh d) :
    Cross.Gxy_dev (BinData.lift d) = some (Cross.Gxy_dev d) := by
  have h0 : 0 ≤ Cx.abs (Cross.Gxy d) * Cx.abs (Cross.Gxy d) / Cross.coh d / d.navg :=
    div_nonneg (div_nonneg (mul_self_nonneg _) hc.le) hn.le
  simp [Cross.Gxy_dev, lift_cGxy d hfs, lift_coh, hc.ne', hn.ne', h0]

/-- the common divisor `sqrt(coh·2·navg)` of the transfer-function error bars -/
theorem den_pos (d : BinData ℝ) (hn : 0 < d.navg) (hc : 0 < Cross.coh d) :
    0 < Cross.coh d * 2 * d.navg := by positivity

theorem lift_Hxy_dev (d : BinData ℝ) (hn : 0 < d.navg) (hc : 0 < Cross.coh d) :
    Cross.Hxy_dev (BinData.lift d) = some (Cross.Hxy_dev d) := by
  have hp := den_pos d hn hc
  have hs : Real.sqrt (Cross.coh d * 2 * d.navg) ≠ 0 := (Real.sqrt_pos.mpr hp).ne'
  simp [Cross.Hxy_dev, lift_Hxy, lift_coh, hp.le, hs]

theorem lift_coh_dev (d : BinData ℝ) (hn : 0 < d.navg) :
    Cross.coh_dev (BinData.lift d) = some (Cross.coh_dev d) := by
  simp only [Cross.coh_dev, lift_coh, BinData.lift_navg, ofNat_eq, mul_some, sub_some, abs_some,
    div_some_of_ne _ hn.ne', sqrt_some_of_nonneg (abs_nonneg _)]
  simp

theorem lift_cGxy_error (d : BinData ℝ) (hn : 0 < d.navg) (hc : 0 < Cross.coh d) :
    Cross.Gxy_error (BinData.lift d) = some (Cross.Gxy_error d) := by
  have hp : 0 < Cross.coh d * d.navg := mul_pos hc hn
  have hs : Real.sqrt (Cross.coh d * d.navg) ≠ 0 := (Real.sqrt_pos.mpr hp).ne'
  simp [Cross.Gxy_error, lift_coh, hp.le, hs]

theorem lift_Hxy_mag_error (d : BinData ℝ) (hn : 0 < d.navg) (hc : 0 < Cross.coh d) :
    Cross.Hxy_mag_error (BinData.lift d) = some (Cross.Hxy_mag_error d) := by
  have hp := den_pos d hn hc
  have hs : Real.sqrt (Cross.coh d * 2 * d.navg) ≠ 0 := (Real.sqrt_pos.mpr hp).ne'
  simp [Cross.Hxy_mag_error, lift_coh, hp.le, hs]

theorem lift_Hxy_rad_error (d : BinData ℝ) (hn : 0 < d.navg) (hc : 0 < Cross.coh d)
    (hc1 : Cross.coh d ≤ 1) :
    Cross.Hxy_rad_error (BinData.lift d) = some (Cross.Hxy_rad_error d) := by
  have hp := den_pos d hn hc
  have hs : Real.sqrt (Cross.coh d * 2 * d.navg) ≠ 0 := (Real.sqrt_pos.mpr hp).ne'
  have ha : abs (Real.sqrt (abs (1 - Cross.coh d))) ≤ 1 := by
    rw [abs_of_nonneg (Real.sqrt_nonneg _), Real.sqrt_le_one, abs_le] <;>
      constructor <;> linarith
  simp [Cross.Hxy_rad_error, lift_coh, hp.le, hs, ha]

theorem lift_Hxy_deg_error (d : BinData ℝ) (hn : 0 < d.navg) (hc : 0 < Cross.coh d)
    (hc1 : Cross.coh d ≤ 1) :
    Cross.Hxy_deg_error (BinData.lift d) = some (Cross.Hxy_deg_error d) := by
  simp [Cross.Hxy_deg_error, lift_Hxy_rad_error d hn hc hc1, Real.pi_ne_zero]

theorem lift_coh_error (d : BinData ℝ) (hn : 0 < d.navg) (hc : 0 < Cross.coh d) :
    Cross.coh_error (BinData.lift d) = some (Cross.coh_error d) := by
  have hs : Real.sqrt (Cross.coh d) * Real.sqrt d.navg ≠ 0 :=
    mul_ne_zero (Real.sqrt_pos.mpr hc).ne' (Real.sqrt_pos.mpr hn).ne'
  simp [Cross.coh_error, lift_coh, hc.le, hn.le, hs]

/-! ### the requested theorems -/

section
variable (d : BinData ℝ)
  (H : 0 ≤ d.XX ∧ 0 ≤ d.YY ∧ 0 ≤ d.S2 ∧ 0 ≤ d.S12 ∧ 0 ≤ d.M2 ∧ 1 ≤ d.navg ∧ 0 < d.fs)
include H

local notation "D" => BinData.lift d

theorem densities_finite :
    Fin (Gen.Cross.Gxx D) ∧ Fin (Gen.Cross.Gyy D) ∧ CFin (Gen.Cross.Gxy D) ∧ CFin (Gen.Cross.Gyx D) ∧
    CFin (Gen.Cross.csd D) ∧ CFin (Gen.Cross.cs D) ∧
    Fin (Gen.Cross.ENBW D) ∧ Fin (Gen.Auto.Gxx D) ∧ Fin (Gen.Auto.psd D) ∧ Fin (Gen.Auto.asd D) ∧
    Fin (Gen.Auto.ps D) ∧ Fin (Gen.Auto.ENBW D) := by
  obtain ⟨hX, hY, hS2, hS12, hM, hn, hfs⟩ := H
  have hf := hfs.ne'
  rw [lift_cGxx d hf, lift_cGyy d hf, lift_cGxy d hf, lift_cGyx d hf, lift_ccsd d hf, lift_ccs d hf,
    lift_cENBW, lift_aGxx d hf, lift_apsd d hf, lift_aasd d hX hS2 hfs, lift_aps d hf, lift_aENBW]
  simp

theorem coherence_finite : Fin (Gen.Cross.coh D) ∧ CFin (Gen.Cross.ccoh D) := by
  obtain ⟨hX, hY, hS2, hS12, hM, hn, hfs⟩ := H
  rw [lift_coh, lift_ccoh d hX hY]
  simp

theorem tf_finite :
    CFin (Gen.Cross.Hxy D) ∧ CFin (Gen.Cross.Hyx D) ∧ CFin (Gen.Cross.tf D) ∧ Fin (Gen.Cross.cf D) ∧
    Fin (Gen.Cross.cf_rad D) ∧ Fin (Gen.Cross.cf_deg D) := by
  rw [lift_Hxy, lift_Hyx, lift_tf, lift_cf, lift_cf_rad, lift_cf_deg]
  simp

theorem conditioned_finite :
    Fin (Gen.Cross.GyyCx D) ∧ Fin (Gen.Cross.GyyRx D) ∧ Fin (Gen.Cross.GyySx D) := by
  obtain ⟨hX, hY, hS2, hS12, hM, hn, hfs⟩ := H
  have hf := hfs.ne'
  rw [lift_GyyCx d hf, lift_GyyRx d hf, lift_GyySx d hf]
  simp

theorem empirical_finite :
    Fin (Gen.Cross.XY_emp_var D) ∧ Fin (Gen.Cross.XY_emp_dev D) ∧ Fin (Gen.Cross.Gxy_emp_dev D) ∧
    Fin (Gen.Auto.XY_emp_var D) ∧ Fin (Gen.Auto.XY_emp_dev D) ∧ Fin (Gen.Auto.Gxx_emp_dev D) := by
  obtain ⟨hX, hY, hS2, hS12, hM, hn, hfs⟩ := H
  have hf := hfs.ne'
  have hn0 : 0 < d.navg := lt_of_lt_of_le one_pos hn
  rw [lift_cXY_emp_var d hn0, lift_cXY_emp_dev d hn0 hM, lift_cGxy_emp_dev d hn0 hM hf,
    lift_aXY_emp_var d hn0, lift_aXY_emp_dev d hn0 hM, lift_aGxx_emp_dev d hn0 hM hf]
  simp

theorem auto_errors_finite :
    Fin (Gen.Auto.Gxx_dev D) ∧ Fin (Gen.Auto.Gyy_dev D) ∧ Fin (Gen.Auto.Gxx_error D) ∧
    Fin (Gen.Auto.Gyy_error D) := by
  obtain ⟨hX, hY, hS2, hS12, hM, hn, hfs⟩ := H
  have hf := hfs.ne'
  have hn0 : 0 < d.navg := lt_of_lt_of_le one_pos hn
  rw [lift_aGxx_dev d hn0 hf, lift_aGyy_dev d hn0 hf, lift_aGxx_error d hn0, lift_aGyy_error d hn0]
  simp

/-- error bars are finite wherever the coherence is positive (and ≤ 1, which holds for real
    estimates by Cauchy–Schwarz) -/
theorem cross_errors_finite (hc : ∃ g : ℝ, Gen.Cross.coh D = some g ∧ 0 < g ∧ g ≤ 1) :
    Fin (Gen.Cross.Gxx_dev D) ∧ Fin (Gen.Cross.Gyy_dev D) ∧ Fin (Gen.Cross.Gxy_dev D) ∧
    Fin (Gen.Cross.Hxy_dev D) ∧ Fin (Gen.Cross.coh_dev D) ∧
    Fin (Gen.Cross.Gxx_error D) ∧ Fin (Gen.Cross.Gyy_error D) ∧ Fin (Gen.Cross.Gxy_error D) ∧
    Fin (Gen.Cross.Hxy_mag_error D) ∧
    Fin (Gen.Cross.Hxy_rad_error D) ∧ Fin (Gen.Cross.Hxy_deg_error D) ∧ Fin (Gen.Cross.coh_error D) := by
  obtain ⟨hX, hY, hS2, hS12, hM, hn, hfs⟩ := H
  have hf := hfs.ne'
  have hn0 : 0 < d.navg := lt_of_lt_of_le one_pos hn
  obtain ⟨g, hg, hg0, hg1⟩ := hc
  rw [lift_coh] at hg
  obtain rfl : Cross.coh d = g := Option.some.inj hg
  rw [lift_cGxx_dev d hn0 hf, lift_cGyy_dev d hn0 hf, lift_cGxy_dev d hn0 hf hg0,
    lift_Hxy_dev d hn0 hg0, lift_coh_dev d hn0, lift_cGxx_error d hn0, lift_cGyy_error d hn0,
    lift_cGxy_error d hn0 hg0, lift_Hxy_mag_error d hn0 hg0, lift_Hxy_rad_error d hn0 hg0 hg1,
    lift_Hxy_deg_error d hn0 hg0 hg1, lift_coh_error d hn0 hg0]
  simp

end

/-! ### the strict instance is not vacuous -/

/-- the guards matter: without the guard the zero-input transfer function is NOT finite -/
example : (RealLike.ofNat 1 : PReal) / (RealLike.ofNat 0 : PReal) = none := by simp

/-- and `cf_db` (20·log10 |H|) is legitimately −∞ at a zero transfer function: not finite, and
    excluded from the claim -/
example : Gen.Cross.cf_db (BinData.lift
    { XX := 0, YY := 1, XY := ⟨0, 0⟩, S12 := 1, S2 := 1, M2 := 0, navg := 1, fs := 1 }) = none := by
  simp [Cross.cf_db, lift_cf, Cross.cf, Cross.Hxy, Cx.abs, Cx.ofReal, Cx.normSq]

/-- the hypothesis `0 < coh` of `cross_errors_finite` is needed: at an all-zero record (coherence 0)
    the relative error `1/sqrt(coh·navg)` is a division by zero -/
example : Gen.Cross.Gxy_error (BinData.lift
    { XX := 0, YY := 0, XY := ⟨0, 0⟩, S12 := 0, S2 := 0, M2 := 0, navg := 1, fs := 1 }) = none := by
  simp [Cross.Gxy_error, lift_coh, Cross.coh]

/-- … and so is `coh ≤ 1` (for the phase error only): `arcsin(sqrt|1 − coh|)` leaves its domain for
    coh > 2 (impossible for real estimates, |XY|² ≤ XX·YY) -/
example : Gen.Cross.Hxy_rad_error (BinData.lift
    { XX := 1, YY := 1, XY := ⟨2, 0⟩, S12 := 1, S2 := 1, M2 := 0, navg := 1, fs := 1 }) = none := by
  have h4 : Real.sqrt (2 * 2) = 2 := Real.sqrt_mul_self (by norm_num)
  have h : (1 : ℝ) < abs (Real.sqrt (abs (1 - 2 * 2))) := by
    rw [abs_of_nonneg (Real.sqrt_nonneg _), Real.lt_sqrt (by norm_num)]
    norm_num
  simp [Cross.Hxy_rad_error, lift_coh, Cross.coh, Cx.abs, Cx.normSq, h4, arcsin_some_of_one_lt h]

end C13Finite

#print axioms C13Finite.densities_finite
#print axioms C13Finite.coherence_finite
#print axioms C13Finite.tf_finite
#print axioms C13Finite.conditioned_finite
#print axioms C13Finite.empirical_finite
#print axioms C13Finite.auto_errors_finite
#print axioms C13Finite.cross_errors_finite
