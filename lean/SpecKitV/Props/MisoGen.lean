/-
  Props/MisoGen — the machine-translated speckit/systems.py (`Gen/Miso.lean`, regenerated from the source on every run) against the
  hand model `Model.misoResidual` and the property theorems of `Lemmas/MisoResidual`.
-/
import SpecKitV.RealInst
import SpecKitV.Lemmas.CxC
import SpecKitV.Lemmas.MisoResidual
import SpecKitV.Gen.Miso
import SpecKitV.Props.AttrsA
import SpecKitV.Lemmas.CauchySchwarz

set_option linter.unusedVariables false
set_option linter.unusedSimpArgs false
set_option linter.unnecessarySeqFocus false
set_option linter.unusedTactic false
set_option linter.unreachableTactic false

open Finset
open Np.Miso

namespace MisoGen

/-! ### NumPy / builtin primitives at ℝ -/

theorem forRange_cx_toC (n : ℕ) (z0 : Cx ℝ) (f : ℕ → Cx ℝ) :
    Cx.toC (forRange n z0 (fun i acc => acc + f i)) = Cx.toC z0 + ∑ i ∈ range n, Cx.toC (f i) := by
  induction n with
  | zero => simp [forRange_zero]
  | succ k ih => rw [forRange_succ, Cx.toC_add, ih, Finset.sum_range_succ, add_assoc]

theorem zeroC_toC : Cx.toC (Cx.ofReal (RealLike.zero : ℝ)) = 0 := by
  simp [Cx.toC_ofReal]

theorem sumAxis0_toC (n : ℕ) (f : ℕ → Cx ℝ) : Cx.toC (sumAxis0 n f) = ∑ i ∈ range n, Cx.toC (f i) := by
  unfold sumAxis0; rw [forRange_cx_toC, zeroC_toC, zero_add]

theorem pySum_toC (n : ℕ) (f : ℕ → Cx ℝ) : Cx.toC (pySum n f) = ∑ i ∈ range n, Cx.toC (f i) := by
  unfold pySum; rw [forRange_cx_toC, zeroC_toC, zero_add]

theorem matVec_toC (n : ℕ) (M : ℕ → ℕ → Cx ℝ) (v : ℕ → Cx ℝ) (i : ℕ) :
    Cx.toC (matVec n M v i) = ∑ j ∈ range n, Cx.toC (M i j) * Cx.toC (v j) := by
  unfold matVec; rw [forRange_cx_toC, zeroC_toC, zero_add]
  exact Finset.sum_congr rfl fun j _ => Cx.toC_mul _ _

theorem normSq_nonneg' (z : Cx ℝ) : 0 ≤ Cx.normSq z := AttrsA.normSq_nonneg z

theorem abs_ge_re (z : Cx ℝ) : |z.re| ≤ Cx.abs z := by
  rw [Cx.abs, RL.sqrt_eq]
  apply Real.abs_le_sqrt
  unfold Cx.normSq; nlinarith [mul_self_nonneg z.im]

/-- `np.abs(np.sqrt(z)) = sqrt(|z|)` for every complex `z` (principal square root) -/
theorem abs_csqrt (z : Cx ℝ) : Cx.abs (csqrt z) = Real.sqrt (Cx.abs z) := by
  have hr := abs_ge_re z
  have h1 : 0 ≤ (Cx.abs z + z.re) / 2 := by
    have := neg_abs_le z.re; linarith
  have h2 : 0 ≤ (Cx.abs z - z.re) / 2 := by
    have := le_abs_self z.re; linarith
  have key : Cx.normSq (csqrt z) = Cx.abs z := by
    unfold csqrt Cx.normSq
    simp only [RL.sqrt_eq, RL.two_eq, RL.lt_eq, RL.zero_eq]
    split_ifs <;>
    · simp only [neg_mul_neg, Real.mul_self_sqrt h1, Real.mul_self_sqrt h2]; ring
  rw [Cx.abs, key, RL.sqrt_eq]

/-- a loop that accumulates `st k + g j k` into an array along the frequency axis -/
theorem forRange_fun_sum (n : ℕ) (init : ℕ → Cx ℝ) (body : ℕ → (ℕ → Cx ℝ) → (ℕ → Cx ℝ)) (g : ℕ → ℕ → ℂ)
    (hbody : ∀ j st k, Cx.toC (body j st k) = Cx.toC (st k) + g j k) (k : ℕ) :
    Cx.toC (forRange n init body k) = Cx.toC (init k) + ∑ j ∈ range n, g j k := by
  induction n with
  | zero => simp [forRange_zero]
  | succ m ih => rw [forRange_succ, hbody, ih, Finset.sum_range_succ, add_assoc]

/-! ### loops: "established at iteration i, preserved afterwards" and "never touched" -/

theorem forRange_establish {σ : Type} (n : ℕ) (init : σ) (body : ℕ → σ → σ) (I Pp : σ → Prop)
    (hI0 : I init) (hI : ∀ j s, j < n → I s → I (body j s))
    (i : ℕ) (hi : i < n) (hest : ∀ s, I s → Pp (body i s))
    (hpres : ∀ j s, i < j → j < n → I s → Pp s → Pp (body j s)) :
    Pp (forRange n init body) ∧ I (forRange n init body) := by
  have key : ∀ m, m ≤ n → I (forRange m init body) ∧ (i < m → Pp (forRange m init body)) := by
    intro m
    induction m with
    | zero => intro _; exact ⟨by simpa [forRange_zero] using hI0, fun h => absurd h (Nat.not_lt_zero _)⟩
    | succ m ih =>
      intro hm
      obtain ⟨hIm, hPm⟩ := ih (Nat.le_of_succ_le hm)
      rw [forRange_succ]
      refine ⟨hI m _ hm hIm, fun him => ?_⟩
      by_cases h : i = m
      · subst h; exact hest _ hIm
      · exact hpres m _ (by omega) hm hIm (hPm (by omega))
  exact ⟨(key n le_rfl).2 hi, (key n le_rfl).1⟩

theorem forRange_preserve {σ : Type} (n : ℕ) (init : σ) (body : ℕ → σ → σ) (I : σ → Prop)
    (hI0 : I init) (hI : ∀ j s, j < n → I s → I (body j s)) : I (forRange n init body) :=
  forRange_inv (fun _ s => I s) n init body hI0 (fun j s hj h => hI j s hj h)

/-- an observation that no iteration changes (while the invariant `I` holds) -/
theorem forRange_frame {σ β : Type} (n : ℕ) (init : σ) (body : ℕ → σ → σ) (I : σ → Prop) (obs : σ → β)
    (hI0 : I init) (hI : ∀ j s, j < n → I s → I (body j s))
    (h : ∀ j s, j < n → I s → obs (body j s) = obs s) : obs (forRange n init body) = obs init := by
  have := forRange_inv (fun _ s => I s ∧ obs s = obs init) n init body ⟨hI0, rfl⟩
    (fun j s hj hs => ⟨hI j s hj hs.1, (h j s hj hs.1).trans hs.2⟩)
  exact this.2

theorem forRangeFrom_establish {σ : Type} (a b : ℕ) (init : σ) (body : ℕ → σ → σ) (I Pp : σ → Prop)
    (hI0 : I init) (hI : ∀ j s, a ≤ j → j < b → I s → I (body j s))
    (i : ℕ) (hai : a ≤ i) (hi : i < b) (hest : ∀ s, I s → Pp (body i s))
    (hpres : ∀ j s, i < j → j < b → I s → Pp s → Pp (body j s)) :
    Pp (forRangeFrom a b init body) ∧ I (forRangeFrom a b init body) := by
  unfold forRangeFrom
  have := forRange_establish (b - a) init (fun t s => body (a + t) s) I Pp hI0
    (fun j s hj => hI (a + j) s (by omega) (by omega)) (i - a) (by omega)
    (fun s hs => by have e : a + (i - a) = i := by omega
                    simpa only [e] using hest s hs)
    (fun j s hij hj => hpres (a + j) s (by omega) (by omega))
  exact this

theorem forRangeFrom_preserve {σ : Type} (a b : ℕ) (init : σ) (body : ℕ → σ → σ) (I : σ → Prop)
    (hI0 : I init) (hI : ∀ j s, a ≤ j → j < b → I s → I (body j s)) : I (forRangeFrom a b init body) := by
  unfold forRangeFrom
  exact forRange_preserve (b - a) init _ I hI0 (fun j s hj => hI (a + j) s (by omega) (by omega))

theorem forRangeFrom_frame {σ β : Type} (a b : ℕ) (init : σ) (body : ℕ → σ → σ) (I : σ → Prop) (obs : σ → β)
    (hI0 : I init) (hI : ∀ j s, a ≤ j → j < b → I s → I (body j s))
    (h : ∀ j s, a ≤ j → j < b → I s → obs (body j s) = obs s) : obs (forRangeFrom a b init body) = obs init := by
  unfold forRangeFrom
  exact forRange_frame (b - a) init _ I obs hI0 (fun j s hj => hI (a + j) s (by omega) (by omega))
    (fun j s hj => h (a + j) s (by omega) (by omega))

/-! ### the dict keys (Python strings) for at most nine inputs: one digit per index, no two keys coincide -/

def Tkey (i j : ℕ) : Key := ['T'] ++ Key.num (i + 1) ++ Key.num (j + 1)
def Skey (i : ℕ) : Key := ['S'] ++ Key.num (i + 1) ++ ['0']
def S0key (i : ℕ) : Key := ['S', '0'] ++ Key.num (i + 1)
def Hkey (i : ℕ) : Key := ['H'] ++ Key.num (i + 1)
def S00key : Key := ['S', '0', '0']
def asdKey : Key := ['o', 'p', 't', 'i', 'm', 'a', 'l', '_', 'a', 's', 'd']

theorem num_succ (n : ℕ) (h : n < 9) : Key.num (n + 1) = [Nat.digitChar (n + 1)] := by
  unfold Key.num; exact Nat.toDigits_of_lt_base (by omega)

theorem digitChar_inj (a b : ℕ) (ha : a < 10) (hb : b < 10) (h : Nat.digitChar a = Nat.digitChar b) : a = b := by
  have := congrArg Char.toNat h
  rw [Nat.toNat_digitChar_of_lt_ten ha, Nat.toNat_digitChar_of_lt_ten hb] at this
  omega

theorem digitChar_succ_inj (a b : ℕ) (ha : a < 9) (hb : b < 9) : Nat.digitChar (a + 1) = Nat.digitChar (b + 1) ↔ a = b :=
  ⟨fun h => by have := digitChar_inj _ _ (by omega) (by omega) h; omega, fun h => by rw [h]⟩

theorem Tkey_eq (i j : ℕ) (hi : i < 9) (hj : j < 9) : Tkey i j = ['T', Nat.digitChar (i + 1), Nat.digitChar (j + 1)] := by
  simp [Tkey, num_succ, hi, hj]
theorem Skey_eq (i : ℕ) (hi : i < 9) : Skey i = ['S', Nat.digitChar (i + 1), '0'] := by simp [Skey, num_succ, hi]
theorem S0key_eq (i : ℕ) (hi : i < 9) : S0key i = ['S', '0', Nat.digitChar (i + 1)] := by simp [S0key, num_succ, hi]
theorem Hkey_eq (i : ℕ) (hi : i < 9) : Hkey i = ['H', Nat.digitChar (i + 1)] := by simp [Hkey, num_succ, hi]

theorem Tkey_inj (i j a b : ℕ) (hi : i < 9) (hj : j < 9) (ha : a < 9) (hb : b < 9) :
    Tkey i j = Tkey a b ↔ i = a ∧ j = b := by
  rw [Tkey_eq i j hi hj, Tkey_eq a b ha hb]
  simp [digitChar_succ_inj, hi, hj, ha, hb]
theorem Skey_inj (i a : ℕ) (hi : i < 9) (ha : a < 9) : Skey i = Skey a ↔ i = a := by
  rw [Skey_eq i hi, Skey_eq a ha]; simp [digitChar_succ_inj, hi, ha]
theorem S0key_inj (i a : ℕ) (hi : i < 9) (ha : a < 9) : S0key i = S0key a ↔ i = a := by
  rw [S0key_eq i hi, S0key_eq a ha]; simp [digitChar_succ_inj, hi, ha]
theorem Hkey_inj (i a : ℕ) (hi : i < 9) (ha : a < 9) : Hkey i = Hkey a ↔ i = a := by
  rw [Hkey_eq i hi, Hkey_eq a ha]; simp [digitChar_succ_inj, hi, ha]
theorem Skey_ne_S0key (i a : ℕ) (hi : i < 9) (ha : a < 9) : Skey i ≠ S0key a := by
  rw [Skey_eq i hi, S0key_eq a ha]; simp
theorem Skey_ne_S00 (i : ℕ) (hi : i < 9) : Skey i ≠ S00key := by rw [Skey_eq i hi]; simp [S00key]
theorem S0key_ne_S00 (i : ℕ) (hi : i < 9) : S0key i ≠ S00key := by rw [S0key_eq i hi]; simp [S00key]
theorem Tkey_ne_Skey (i j a : ℕ) (hi : i < 9) (hj : j < 9) (ha : a < 9) : Tkey i j ≠ Skey a := by
  rw [Tkey_eq i j hi hj, Skey_eq a ha]; simp
theorem Tkey_ne_S0key (i j a : ℕ) (hi : i < 9) (hj : j < 9) (ha : a < 9) : Tkey i j ≠ S0key a := by
  rw [Tkey_eq i j hi hj, S0key_eq a ha]; simp
theorem Tkey_ne_S00 (i j : ℕ) (hi : i < 9) (hj : j < 9) : Tkey i j ≠ S00key := by rw [Tkey_eq i j hi hj]; simp [S00key]
theorem Tkey_ne_Hkey (i j a : ℕ) (hi : i < 9) (hj : j < 9) (ha : a < 9) : Tkey i j ≠ Hkey a := by
  rw [Tkey_eq i j hi hj, Hkey_eq a ha]; simp
theorem Skey_ne_Hkey (i a : ℕ) (hi : i < 9) (ha : a < 9) : Skey i ≠ Hkey a := by
  rw [Skey_eq i hi, Hkey_eq a ha]; simp
theorem S0key_ne_Hkey (i a : ℕ) (hi : i < 9) (ha : a < 9) : S0key i ≠ Hkey a := by
  rw [S0key_eq i hi, Hkey_eq a ha]; simp
theorem S00_ne_Hkey (a : ℕ) (ha : a < 9) : S00key ≠ Hkey a := by rw [Hkey_eq a ha]; simp [S00key]
theorem T11_eq : (['T', '1', '1'] : Key) = Tkey 0 0 := by rw [Tkey_eq 0 0 (by omega) (by omega)]; rfl

/-! ### dict stores -/

theorem dict_set_same (d : Dict ℝ) (key : Key) (v : ℕ → Cx ℝ) : Dict.set d key v key = v := by
  simp [Dict.set]
theorem dict_set_other (d : Dict ℝ) (key key' : Key) (v : ℕ → Cx ℝ) (h : key' ≠ key) : Dict.set d key v key' = d key' := by
  simp [Dict.set, h]

end MisoGen

open MisoGen

/-! ## 1. The residual formula of both solvers IS the hand model (no hypotheses: pure structure) -/

theorem gen_numeric_loop6_toC (q : ℕ) (ltf : Ltf ℝ) (la : LinAlg ℝ) (Tmat : A3 ℝ) (Hvec : A2 ℝ) (Sum3 : ℕ → Cx ℝ) (i k : ℕ) :
    Cx.toC (Gen.MISO_numeric_optimal_spectral_analysis.loop6 q ltf la Tmat Hvec Sum3 i k)
      = Cx.toC (Sum3 k) + ∑ j ∈ range q, (starRingEnd ℂ) (Cx.toC (Hvec j k)) * Cx.toC (Hvec i k) * Cx.toC (Tmat j i k) := by
  unfold Gen.MISO_numeric_optimal_spectral_analysis.loop6
  apply forRange_fun_sum
  intro j st k
  simp only [Cx.toC_add, Cx.toC_mul, Cx.toC_conj]
  try ring

theorem gen_numeric_loop5_toC (q : ℕ) (ltf : Ltf ℝ) (la : LinAlg ℝ) (Tmat : A3 ℝ) (Hvec : A2 ℝ) (Sum3 : ℕ → Cx ℝ) (k : ℕ) :
    Cx.toC (Gen.MISO_numeric_optimal_spectral_analysis.loop5 q ltf la Tmat Hvec Sum3 k)
      = Cx.toC (Sum3 k) + ∑ i ∈ range q, ∑ j ∈ range q,
          (starRingEnd ℂ) (Cx.toC (Hvec j k)) * Cx.toC (Hvec i k) * Cx.toC (Tmat j i k) := by
  unfold Gen.MISO_numeric_optimal_spectral_analysis.loop5
  apply forRange_fun_sum
  intro i st k
  simp only [gen_numeric_loop6_toC]

/-- `MISO_numeric_optimal_spectral_analysis` returns `sqrt |Model.misoResidual|` evaluated on ITS OWN arrays `S00`, `Svec`, `Tmat`, `Hvec`
    (whatever they contain): the translated `Sum1/Sum2/Sum3/optimal_asd` statements are the hand model's formula -/
theorem gen_numeric_eq_model (q : ℕ) (ltf : Ltf ℝ) (la : LinAlg ℝ) (k : ℕ) :
    let L := Gen.MISO_numeric_optimal_spectral_analysis.locals q ltf la
    Gen.MISO_numeric_optimal_spectral_analysis q ltf la k
      = Real.sqrt (Cx.abs (Model.misoResidual q (L.S00 k) (fun i => L.Svec i k) (fun i j => L.Tmat i j k) (fun i => L.Hvec i k))) := by
  intro L
  simp only [L, Gen.MISO_numeric_optimal_spectral_analysis, Gen.MISO_numeric_optimal_spectral_analysis.locals,
    Gen.MISO_numeric_optimal_spectral_analysis.stage4]
  first
    | rw [abs_csqrt]
    | rw [RL.sqrt_eq]
  congr 2
  apply Cx.toC_injective
  simp only [model_misoResidual_toC, Cx.toC_add, Cx.toC_sub, Cx.toC_ofReal, sumAxis0_toC, Cx.toC_mul, Cx.toC_conj,
    gen_numeric_loop5_toC, zeroC_toC, zero_add, RL.zero_eq, RL.ofNat_eq, Nat.cast_zero, Complex.ofReal_zero, add_zero]
  try ring

/-! ## 2. Assembly of the analytic solver: what the dict `result` holds when the residual is evaluated (at most nine inputs: each index is
one digit of the f-string keys; beyond that keys such as `T111` are ambiguous in the Python source itself) -/

namespace MisoGen

theorem Tkey_def (i j : ℕ) : (['T'] ++ Key.num (i + 1) ++ Key.num (j + 1) : Key) = Tkey i j := rfl
theorem Skey_def (i : ℕ) : (['S'] ++ Key.num (i + 1) ++ ['0'] : Key) = Skey i := rfl
theorem S0key_def (i : ℕ) : (['S', '0'] ++ Key.num (i + 1) : Key) = S0key i := rfl
theorem Hkey_def (i : ℕ) : (['H'] ++ Key.num (i + 1) : Key) = Hkey i := rfl
theorem Hkey_def' (i : ℕ) : (['H'] ++ Key.num (1 + i) : Key) = Hkey i := by rw [Nat.add_comm]; rfl
theorem S00key_def : (['S', '0', '0'] : Key) = S00key := rfl
theorem asdKey_def : (['o', 'p', 't', 'i', 'm', 'a', 'l', '_', 'a', 's', 'd'] : Key) = asdKey := rfl

/-- the value the source files under `T{i+1}{j+1}` -/
noncomputable def Tval (ltf : Ltf ℝ) (i j k : ℕ) : Cx ℝ :=
  if i = j then Cx.ofReal (Gen.Auto.Gxx ((ltf.auto (Chan.inp i)).bin k))
  else if i < j then Gen.Cross.Gxy ((ltf.cross (Chan.inp i) (Chan.inp j)).bin k)
  else Cx.conj (Gen.Cross.Gxy ((ltf.cross (Chan.inp j) (Chan.inp i)).bin k))

/-- the value filed under `S{i+1}0` -/
noncomputable def Sval (ltf : Ltf ℝ) (i k : ℕ) : Cx ℝ := Gen.Cross.Gxy ((ltf.cross (Chan.inp i) Chan.out).bin k)

variable (q : ℕ) (ltf : Ltf ℝ) (Hsol : ℕ → ℕ → Cx ℝ)

/-! #### loop1: `T{i+1}{i+1}` for 1 ≤ i < q -/
theorem a_loop1_frame (hq : q ≤ 9) (d : Dict ℝ) (κ : Key) (h : ∀ i, 1 ≤ i → i < q → κ ≠ Tkey i i) :
    Gen.MISO_analytic_optimal_spectral_analysis.loop1 q ltf Hsol d κ = d κ := by
  unfold Gen.MISO_analytic_optimal_spectral_analysis.loop1
  refine forRangeFrom_frame 1 q d _ (fun _ => True) (fun d => d κ) trivial (fun _ _ _ _ _ => trivial) ?_
  intro j s h1 h2 _
  simp only [Tkey_def]
  exact dict_set_other _ _ _ _ (h j h1 h2)

theorem a_loop1_hit (hq : q ≤ 9) (d : Dict ℝ) (i : ℕ) (h1 : 1 ≤ i) (hi : i < q) :
    Gen.MISO_analytic_optimal_spectral_analysis.loop1 q ltf Hsol d (Tkey i i)
      = fun k => Cx.ofReal (Gen.Auto.Gxx ((ltf.auto (Chan.inp i)).bin k)) := by
  unfold Gen.MISO_analytic_optimal_spectral_analysis.loop1
  refine (forRangeFrom_establish 1 q d _ (fun _ => True) (fun d => d (Tkey i i) = _) trivial (fun _ _ _ _ _ => trivial)
    i h1 hi ?_ ?_).1
  · intro s _
    simp only [Tkey_def]
    exact dict_set_same _ _ _
  · intro j s hij hj _ hs
    simp only [Tkey_def]
    rw [dict_set_other _ _ _ _ (by rw [Ne, Tkey_inj i i j j (by omega) (by omega) (by omega) (by omega)]; omega)]
    exact hs

/-! #### loop2 / loop3: `T{i+1}{j+1}` and `T{j+1}{i+1}` for i < j < q -/
theorem a_loop3_frame (hq : q ≤ 9) (d : Dict ℝ) (i : ℕ) (κ : Key) (h : ∀ j, i < j → j < q → κ ≠ Tkey i j ∧ κ ≠ Tkey j i) :
    Gen.MISO_analytic_optimal_spectral_analysis.loop3 q ltf Hsol d i κ = d κ := by
  unfold Gen.MISO_analytic_optimal_spectral_analysis.loop3
  refine forRangeFrom_frame (i + 1) q d _ (fun _ => True) (fun d => d κ) trivial (fun _ _ _ _ _ => trivial) ?_
  intro j s h1 h2 _
  simp only [Tkey_def]
  rw [dict_set_other _ _ _ _ (h j (by omega) h2).2, dict_set_other _ _ _ _ (h j (by omega) h2).1]

theorem a_loop2_frame (hq : q ≤ 9) (d : Dict ℝ) (κ : Key) (h : ∀ i j, i < j → j < q → κ ≠ Tkey i j ∧ κ ≠ Tkey j i) :
    Gen.MISO_analytic_optimal_spectral_analysis.loop2 q ltf Hsol d κ = d κ := by
  unfold Gen.MISO_analytic_optimal_spectral_analysis.loop2
  refine forRange_frame q d _ (fun _ => True) (fun d => d κ) trivial (fun _ _ _ _ => trivial) ?_
  intro i s hi _
  exact a_loop3_frame q ltf Hsol hq s i κ (fun j hij hj => h i j hij hj)

theorem a_loop3_hit (hq : q ≤ 9) (d : Dict ℝ) (i j : ℕ) (hij : i < j) (hj : j < q) :
    Gen.MISO_analytic_optimal_spectral_analysis.loop3 q ltf Hsol d i (Tkey i j)
        = (fun k => Gen.Cross.Gxy ((ltf.cross (Chan.inp i) (Chan.inp j)).bin k)) ∧
    Gen.MISO_analytic_optimal_spectral_analysis.loop3 q ltf Hsol d i (Tkey j i)
        = (fun k => Cx.conj (Gen.Cross.Gxy ((ltf.cross (Chan.inp i) (Chan.inp j)).bin k))) := by
  unfold Gen.MISO_analytic_optimal_spectral_analysis.loop3
  refine (forRangeFrom_establish (i + 1) q d _ (fun _ => True)
    (fun d => d (Tkey i j) = _ ∧ d (Tkey j i) = _) trivial (fun _ _ _ _ _ => trivial) j (by omega) hj ?_ ?_).1
  · intro s _
    simp only [Tkey_def]
    refine ⟨?_, dict_set_same _ _ _⟩
    rw [dict_set_other _ _ _ _ (by rw [Ne, Tkey_inj i j j i (by omega) (by omega) (by omega) (by omega)]; omega)]
    exact dict_set_same _ _ _
  · intro j' s hjj' hj' _ hs
    simp only [Tkey_def]
    refine ⟨?_, ?_⟩
    · rw [dict_set_other _ _ _ _ (by rw [Ne, Tkey_inj i j j' i (by omega) (by omega) (by omega) (by omega)]; omega),
        dict_set_other _ _ _ _ (by rw [Ne, Tkey_inj i j i j' (by omega) (by omega) (by omega) (by omega)]; omega)]
      exact hs.1
    · rw [dict_set_other _ _ _ _ (by rw [Ne, Tkey_inj j i j' i (by omega) (by omega) (by omega) (by omega)]; omega),
        dict_set_other _ _ _ _ (by rw [Ne, Tkey_inj j i i j' (by omega) (by omega) (by omega) (by omega)]; omega)]
      exact hs.2

theorem a_loop2_hit (hq : q ≤ 9) (d : Dict ℝ) (i j : ℕ) (hij : i < j) (hj : j < q) :
    Gen.MISO_analytic_optimal_spectral_analysis.loop2 q ltf Hsol d (Tkey i j)
        = (fun k => Gen.Cross.Gxy ((ltf.cross (Chan.inp i) (Chan.inp j)).bin k)) ∧
    Gen.MISO_analytic_optimal_spectral_analysis.loop2 q ltf Hsol d (Tkey j i)
        = (fun k => Cx.conj (Gen.Cross.Gxy ((ltf.cross (Chan.inp i) (Chan.inp j)).bin k))) := by
  unfold Gen.MISO_analytic_optimal_spectral_analysis.loop2
  refine (forRange_establish q d _ (fun _ => True)
    (fun d => d (Tkey i j) = _ ∧ d (Tkey j i) = _) trivial (fun _ _ _ _ => trivial) i (by omega) ?_ ?_).1
  · intro s _
    exact a_loop3_hit q ltf Hsol hq s i j hij hj
  · intro i' s hii' hi' _ hs
    try dsimp only
    rw [a_loop3_frame q ltf Hsol hq s i' (Tkey i j) (fun j' h1 h2 => by
        constructor <;> rw [Ne, Tkey_inj _ _ _ _ (by omega) (by omega) (by omega) (by omega)] <;> omega),
      a_loop3_frame q ltf Hsol hq s i' (Tkey j i) (fun j' h1 h2 => by
        constructor <;> rw [Ne, Tkey_inj _ _ _ _ (by omega) (by omega) (by omega) (by omega)] <;> omega)]
    exact hs

/-! #### loop4: `S{i+1}0` and `S0{i+1}` -/
theorem a_loop4_frame (hq : q ≤ 9) (d : Dict ℝ) (κ : Key) (h : ∀ i, i < q → κ ≠ Skey i ∧ κ ≠ S0key i) :
    Gen.MISO_analytic_optimal_spectral_analysis.loop4 q ltf Hsol d κ = d κ := by
  unfold Gen.MISO_analytic_optimal_spectral_analysis.loop4
  refine forRange_frame q d _ (fun _ => True) (fun d => d κ) trivial (fun _ _ _ _ => trivial) ?_
  intro i s hi _
  simp only [Skey_def, S0key_def]
  rw [dict_set_other _ _ _ _ (h i hi).2, dict_set_other _ _ _ _ (h i hi).1]

theorem a_loop4_hit (hq : q ≤ 9) (d : Dict ℝ) (i : ℕ) (hi : i < q) :
    Gen.MISO_analytic_optimal_spectral_analysis.loop4 q ltf Hsol d (Skey i) = (fun k => Sval ltf i k) ∧
    Gen.MISO_analytic_optimal_spectral_analysis.loop4 q ltf Hsol d (S0key i) = (fun k => Cx.conj (Sval ltf i k)) := by
  unfold Gen.MISO_analytic_optimal_spectral_analysis.loop4
  refine (forRange_establish q d _ (fun _ => True)
    (fun d => d (Skey i) = _ ∧ d (S0key i) = _) trivial (fun _ _ _ _ => trivial) i hi ?_ ?_).1
  · intro s _
    simp only [Skey_def, S0key_def]
    refine ⟨?_, dict_set_same _ _ _⟩
    rw [dict_set_other _ _ _ _ (Skey_ne_S0key i i (by omega) (by omega))]
    exact dict_set_same _ _ _
  · intro j s hij hj _ hs
    simp only [Skey_def, S0key_def]
    refine ⟨?_, ?_⟩
    · rw [dict_set_other _ _ _ _ (Skey_ne_S0key i j (by omega) (by omega)),
        dict_set_other _ _ _ _ (by rw [Ne, Skey_inj i j (by omega) (by omega)]; omega)]
      exact hs.1
    · rw [dict_set_other _ _ _ _ (by rw [Ne, S0key_inj i j (by omega) (by omega)]; omega),
        dict_set_other _ _ _ _ (Ne.symm (Skey_ne_S0key j i (by omega) (by omega)))]
      exact hs.2

/-! #### the stored solution -/
theorem storeSolution_frame (d : Dict ℝ) (n : ℕ) (name : ℕ → Key) (v : ℕ → ℕ → Cx ℝ) (κ : Key) (h : ∀ p, p < n → κ ≠ name p) :
    Dict.storeSolution d n name v κ = d κ := by
  unfold Dict.storeSolution
  refine forRange_frame n d _ (fun _ => True) (fun d => d κ) trivial (fun _ _ _ _ => trivial) ?_
  intro p s hp _
  exact dict_set_other _ _ _ _ (h p hp)

theorem storeSolution_hit (d : Dict ℝ) (n : ℕ) (name : ℕ → Key) (v : ℕ → ℕ → Cx ℝ) (p : ℕ) (hp : p < n)
    (hinj : ∀ p', p < p' → p' < n → name p ≠ name p') : Dict.storeSolution d n name v (name p) = v p := by
  unfold Dict.storeSolution
  refine (forRange_establish n d _ (fun _ => True) (fun d => d (name p) = v p) trivial (fun _ _ _ _ => trivial) p hp ?_ ?_).1
  · intro s _; exact dict_set_same _ _ _
  · intro p' s h1 h2 _ hs
    rw [dict_set_other _ _ _ _ (hinj p' h1 h2)]; exact hs

end MisoGen

namespace MisoGen
variable (q : ℕ) (ltf : Ltf ℝ) (Hsol : ℕ → ℕ → Cx ℝ)

/-- the dict `result` of the analytic solver when the residual sums are evaluated (all spectra and the solution stored) -/
noncomputable def aDict : Dict ℝ := (Gen.MISO_analytic_optimal_spectral_analysis.stage4 q ltf Hsol).result

theorem aDict_eq : aDict q ltf Hsol = Dict.storeSolution
    (Dict.set (Gen.MISO_analytic_optimal_spectral_analysis.loop4 q ltf Hsol
      (Gen.MISO_analytic_optimal_spectral_analysis.loop2 q ltf Hsol
        (Gen.MISO_analytic_optimal_spectral_analysis.loop1 q ltf Hsol
          (Dict.set Dict.empty (Tkey 0 0) (fun k => Cx.ofReal (Gen.Auto.Gxx ((ltf.auto (Chan.inp 0)).bin k)))))))
      S00key (fun k => Cx.ofReal (Gen.Auto.Gxx ((ltf.auto Chan.out).bin k))))
    q Hkey Hsol := by
  simp only [aDict, Gen.MISO_analytic_optimal_spectral_analysis.stage4, Gen.MISO_analytic_optimal_spectral_analysis.stage3,
    Gen.MISO_analytic_optimal_spectral_analysis.stage2, Gen.MISO_analytic_optimal_spectral_analysis.stage1,
    Gen.MISO_analytic_optimal_spectral_analysis.stage0, T11_eq, S00key_def, Hkey_def', Nat.add_sub_cancel]
  try rfl

theorem analytic_T (hq : q ≤ 9) (i j : ℕ) (hi : i < q) (hj : j < q) :
    aDict q ltf Hsol (Tkey i j) = fun k => Tval ltf i j k := by
  rw [aDict_eq, storeSolution_frame _ _ _ _ _ (fun p hp => Tkey_ne_Hkey i j p (by omega) (by omega) (by omega)),
    dict_set_other _ _ _ _ (Tkey_ne_S00 i j (by omega) (by omega)),
    a_loop4_frame q ltf Hsol hq _ _ (fun a ha => ⟨Tkey_ne_Skey i j a (by omega) (by omega) (by omega),
      Tkey_ne_S0key i j a (by omega) (by omega) (by omega)⟩)]
  rcases Nat.lt_trichotomy i j with hij | hij | hij
  · rw [(a_loop2_hit q ltf Hsol hq _ i j hij hj).1]
    funext k; simp [Tval, Nat.ne_of_lt hij, hij]
  · subst hij
    rw [a_loop2_frame q ltf Hsol hq _ _ (fun a b hab hb => by
      constructor <;> rw [Ne, Tkey_inj _ _ _ _ (by omega) (by omega) (by omega) (by omega)] <;> omega)]
    by_cases h0 : i = 0
    · subst h0
      rw [a_loop1_frame q ltf Hsol hq _ _ (fun a h1 ha => by
        rw [Ne, Tkey_inj _ _ _ _ (by omega) (by omega) (by omega) (by omega)]; omega), dict_set_same]
      funext k; simp [Tval]
    · rw [a_loop1_hit q ltf Hsol hq _ i (by omega) hi]
      funext k; simp [Tval]
  · rw [(a_loop2_hit q ltf Hsol hq _ j i hij hi).2]
    funext k; simp [Tval, Nat.ne_of_gt hij, Nat.lt_asymm hij]

theorem analytic_S (hq : q ≤ 9) (i : ℕ) (hi : i < q) :
    aDict q ltf Hsol (Skey i) = (fun k => Sval ltf i k) ∧ aDict q ltf Hsol (S0key i) = (fun k => Cx.conj (Sval ltf i k)) := by
  rw [aDict_eq, storeSolution_frame _ _ _ _ _ (fun p hp => Skey_ne_Hkey i p (by omega) (by omega)),
    storeSolution_frame _ _ _ _ _ (fun p hp => S0key_ne_Hkey i p (by omega) (by omega)),
    dict_set_other _ _ _ _ (Skey_ne_S00 i (by omega)), dict_set_other _ _ _ _ (S0key_ne_S00 i (by omega))]
  exact a_loop4_hit q ltf Hsol hq _ i hi

theorem analytic_S00 (hq : q ≤ 9) :
    aDict q ltf Hsol S00key = fun k => Cx.ofReal (Gen.Auto.Gxx ((ltf.auto Chan.out).bin k)) := by
  rw [aDict_eq, storeSolution_frame _ _ _ _ _ (fun p hp => S00_ne_Hkey p (by omega)), dict_set_same]

theorem analytic_H (hq : q ≤ 9) (i : ℕ) (hi : i < q) : aDict q ltf Hsol (Hkey i) = Hsol i := by
  rw [aDict_eq]
  exact storeSolution_hit _ _ _ _ i hi (fun p h1 h2 => by rw [Ne, Hkey_inj i p (by omega) (by omega)]; omega)

end MisoGen

/-! ## 3. The residual formula of the analytic solver IS the hand model -/

namespace MisoGen
variable (q : ℕ) (ltf : Ltf ℝ) (Hsol : ℕ → ℕ → Cx ℝ)

theorem a_loop6_toC (result : Dict ℝ) (Sum3 : ℕ → Cx ℝ) (i k : ℕ) :
    Cx.toC (Gen.MISO_analytic_optimal_spectral_analysis.loop6 q ltf Hsol result Sum3 i k)
      = Cx.toC (Sum3 k) + ∑ j ∈ range q, (starRingEnd ℂ) (Cx.toC (result (Hkey j) k)) * Cx.toC (result (Hkey i) k)
          * Cx.toC (result (Tkey j i) k) := by
  unfold Gen.MISO_analytic_optimal_spectral_analysis.loop6
  apply forRange_fun_sum
  intro j st k
  simp only [Cx.toC_add, Cx.toC_mul, Cx.toC_conj, Hkey_def, Tkey_def]
  try ring

theorem a_loop5_toC (result : Dict ℝ) (S1 S2 S3 : ℕ → Cx ℝ) (k : ℕ) :
    let r := Gen.MISO_analytic_optimal_spectral_analysis.loop5 q ltf Hsol result S1 S2 S3
    Cx.toC (r.1 k) = Cx.toC (S1 k) + ∑ i ∈ range q, Cx.toC (result (Hkey i) k) * Cx.toC (result (S0key i) k) ∧
    Cx.toC (r.2.1 k) = Cx.toC (S2 k) + ∑ i ∈ range q, (starRingEnd ℂ) (Cx.toC (result (Hkey i) k)) * Cx.toC (result (Skey i) k) ∧
    Cx.toC (r.2.2 k) = Cx.toC (S3 k) + ∑ i ∈ range q, ∑ j ∈ range q,
        (starRingEnd ℂ) (Cx.toC (result (Hkey j) k)) * Cx.toC (result (Hkey i) k) * Cx.toC (result (Tkey j i) k) := by
  intro r
  simp only [r]
  unfold Gen.MISO_analytic_optimal_spectral_analysis.loop5
  refine forRange_inv (fun n (st : (ℕ → Cx ℝ) × (ℕ → Cx ℝ) × (ℕ → Cx ℝ)) =>
    Cx.toC (st.1 k) = Cx.toC (S1 k) + ∑ i ∈ range n, Cx.toC (result (Hkey i) k) * Cx.toC (result (S0key i) k) ∧
    Cx.toC (st.2.1 k) = Cx.toC (S2 k) + ∑ i ∈ range n, (starRingEnd ℂ) (Cx.toC (result (Hkey i) k)) * Cx.toC (result (Skey i) k) ∧
    Cx.toC (st.2.2 k) = Cx.toC (S3 k) + ∑ i ∈ range n, ∑ j ∈ range q,
        (starRingEnd ℂ) (Cx.toC (result (Hkey j) k)) * Cx.toC (result (Hkey i) k) * Cx.toC (result (Tkey j i) k))
    q _ _ ?_ ?_
  · simp
  · rintro i st hi ⟨h1, h2, h3⟩
    simp only [Finset.sum_range_succ, ← add_assoc, ← h1, ← h2, ← h3]
    simp only [Cx.toC_add, Cx.toC_mul, Cx.toC_conj, Hkey_def, Tkey_def, Skey_def, S0key_def, a_loop6_toC]
    try (refine ⟨?_, ?_, ?_⟩ <;> first | trivial | ring)

end MisoGen

/-- `MISO_analytic_optimal_spectral_analysis` (q ≤ 9 inputs) returns `sqrt |Model.misoResidual|` of: `S00` = Gxx of `ltf(output)`;
    `S_i` = Gxy of `ltf([input_i, output])` (`S0i` is its conjugate: that is what the code files under `S0{i}`);
    `T_ij` = Gxx of `ltf(input_i)` (i = j), Gxy of `ltf([input_i, input_j])` (i < j), its conjugate (i > j); `H` = the stored solution.
    No hypothesis on the data. -/
theorem gen_analytic_eq_model (q : ℕ) (ltf : Ltf ℝ) (Hsol : ℕ → ℕ → Cx ℝ) (hq : q ≤ 9) (k : ℕ) :
    Gen.MISO_analytic_optimal_spectral_analysis q ltf Hsol k
      = Real.sqrt (Cx.abs (Model.misoResidual q (Gen.Auto.Gxx ((ltf.auto Chan.out).bin k)) (fun i => Sval ltf i k)
          (fun i j => Tval ltf i j k) (fun i => Hsol i k))) := by
  have hD : (Gen.MISO_analytic_optimal_spectral_analysis.stage4 q ltf Hsol).result = aDict q ltf Hsol := rfl
  have h5 := a_loop5_toC q ltf Hsol (aDict q ltf Hsol)
    (Gen.MISO_analytic_optimal_spectral_analysis.stage4 q ltf Hsol).Sum1
    (Gen.MISO_analytic_optimal_spectral_analysis.stage4 q ltf Hsol).Sum2
    (Gen.MISO_analytic_optimal_spectral_analysis.stage4 q ltf Hsol).Sum3 k
  simp only [Gen.MISO_analytic_optimal_spectral_analysis, Gen.MISO_analytic_optimal_spectral_analysis.locals, hD, asdKey_def,
    S00key_def, dict_set_same, Cx.ofReal]
  first
    | rw [abs_csqrt]
    | rw [RL.sqrt_eq]
  congr 2
  apply Cx.toC_injective
  obtain ⟨e1, e2, e3⟩ := h5
  simp only [model_misoResidual_toC, Cx.toC_add, Cx.toC_sub, e1, e2, e3]
  have z1 : Cx.toC ((Gen.MISO_analytic_optimal_spectral_analysis.stage4 q ltf Hsol).Sum1 k) = 0 := by
    simp [Gen.MISO_analytic_optimal_spectral_analysis.stage4, Cx.toC_ofReal]
  have z2 : Cx.toC ((Gen.MISO_analytic_optimal_spectral_analysis.stage4 q ltf Hsol).Sum2 k) = 0 := by
    simp [Gen.MISO_analytic_optimal_spectral_analysis.stage4, Cx.toC_ofReal]
  have z3 : Cx.toC ((Gen.MISO_analytic_optimal_spectral_analysis.stage4 q ltf Hsol).Sum3 k) = 0 := by
    simp [Gen.MISO_analytic_optimal_spectral_analysis.stage4, Cx.toC_ofReal]
  rw [z1, z2, z3, analytic_S00 q ltf Hsol hq]
  have s1 : ∑ i ∈ range q, Cx.toC (aDict q ltf Hsol (Hkey i) k) * Cx.toC (aDict q ltf Hsol (S0key i) k)
      = ∑ i ∈ range q, Cx.toC (Hsol i k) * (starRingEnd ℂ) (Cx.toC (Sval ltf i k)) :=
    Finset.sum_congr rfl fun i hi => by
      rw [analytic_H q ltf Hsol hq i (Finset.mem_range.mp hi), (analytic_S q ltf Hsol hq i (Finset.mem_range.mp hi)).2, Cx.toC_conj]
  have s2 : ∑ i ∈ range q, (starRingEnd ℂ) (Cx.toC (aDict q ltf Hsol (Hkey i) k)) * Cx.toC (aDict q ltf Hsol (Skey i) k)
      = ∑ i ∈ range q, (starRingEnd ℂ) (Cx.toC (Hsol i k)) * Cx.toC (Sval ltf i k) :=
    Finset.sum_congr rfl fun i hi => by
      rw [analytic_H q ltf Hsol hq i (Finset.mem_range.mp hi), (analytic_S q ltf Hsol hq i (Finset.mem_range.mp hi)).1]
  have s3 : ∑ i ∈ range q, ∑ j ∈ range q, (starRingEnd ℂ) (Cx.toC (aDict q ltf Hsol (Hkey j) k)) * Cx.toC (aDict q ltf Hsol (Hkey i) k)
        * Cx.toC (aDict q ltf Hsol (Tkey j i) k)
      = ∑ i ∈ range q, ∑ j ∈ range q, (starRingEnd ℂ) (Cx.toC (Hsol j k)) * Cx.toC (Hsol i k) * Cx.toC (Tval ltf j i k) :=
    Finset.sum_congr rfl fun i hi => Finset.sum_congr rfl fun j hj => by
      rw [analytic_H q ltf Hsol hq i (Finset.mem_range.mp hi), analytic_H q ltf Hsol hq j (Finset.mem_range.mp hj),
        analytic_T q ltf Hsol hq j i (Finset.mem_range.mp hj) (Finset.mem_range.mp hi)]
  rw [s1, s2, s3]
  simp only [Cx.toC_ofReal]
  try ring

/-! ## 4. Assembly of the numeric solver: `Tmat`, `Svec`, `S00` — for EVERY number of inputs (the memoisation keys are unambiguous) -/

namespace MisoGen

/-! #### the memoisation keys of the numeric solver are unambiguous for EVERY number of inputs
`"S00"`, `"T{i+1}_{j+1}"`, `"T11"` (single-input case), `"S{i+1}0"`: decimal representation is injective (`Nat.ofDigitChars_ten_toDigits`), contains no
`'_'` (`Nat.underscore_not_in_toDigits`), and is `"0"` only for 0. -/

/-- the pair key of `MISO_numeric_optimal_spectral_analysis` (speckit commit a8eaa1b: the two indices are separated) -/
def NTkey (i j : ℕ) : Key := ['T'] ++ Key.num (i + 1) ++ ['_'] ++ Key.num (j + 1)
def T11key : Key := ['T', '1', '1']

theorem NTkey_def (i j : ℕ) : (['T'] ++ Key.num (i + 1) ++ ['_'] ++ Key.num (j + 1) : Key) = NTkey i j := rfl
theorem T11key_def : (['T', '1', '1'] : Key) = T11key := rfl

theorem num_inj (a b : ℕ) (h : Key.num a = Key.num b) : a = b := by
  have := congrArg (fun l => Nat.ofDigitChars 10 l 0) h
  simpa [Key.num] using this

theorem num_no_underscore (a : ℕ) : '_' ∉ Key.num a := Nat.underscore_not_in_toDigits

theorem num_ne_zero_digit (a : ℕ) : Key.num (a + 1) ≠ ['0'] := by
  intro h
  have : Key.num (a + 1) = Key.num 0 := by rw [h]; simp [Key.num, Nat.toDigits_zero]
  exact absurd (num_inj _ _ this) (by omega)

theorem NTkey_eq (i j : ℕ) : NTkey i j = 'T' :: (Key.num (i + 1) ++ '_' :: Key.num (j + 1)) := by
  simp [NTkey]

/-- **all indices**: the pair key determines the pair -/
theorem NTkey_inj (i j a b : ℕ) : NTkey i j = NTkey a b ↔ i = a ∧ j = b := by
  constructor
  · intro h
    rw [NTkey_eq, NTkey_eq, List.cons.injEq] at h
    obtain ⟨h1, _, h2⟩ := (List.append_cons_inj_of_notMem (num_no_underscore _) (num_no_underscore _)).mp h.2
    exact ⟨by have := num_inj _ _ h1; omega, by have := num_inj _ _ h2; omega⟩
  · rintro ⟨rfl, rfl⟩; rfl

theorem Skey_eq' (i : ℕ) : Skey i = 'S' :: (Key.num (i + 1) ++ ['0']) := by simp [Skey]

/-- **all indices**: `"S{i+1}0"` determines `i` -/
theorem Skey_inj' (i a : ℕ) : Skey i = Skey a ↔ i = a := by
  constructor
  · intro h
    rw [Skey_eq', Skey_eq', List.cons.injEq] at h
    have := num_inj _ _ (List.append_cancel_right h.2)
    omega
  · rintro rfl; rfl

theorem Skey_ne_S00' (i : ℕ) : Skey i ≠ S00key := by
  intro h
  rw [Skey_eq', S00key, List.cons.injEq] at h
  have h2 : Key.num (i + 1) ++ ['0'] = ['0'] ++ ['0'] := h.2
  exact num_ne_zero_digit i (List.append_cancel_right h2)

theorem NTkey_ne_Skey (i j a : ℕ) : NTkey i j ≠ Skey a := by rw [NTkey_eq, Skey_eq']; simp
theorem NTkey_ne_S00 (i j : ℕ) : NTkey i j ≠ S00key := by rw [NTkey_eq]; simp [S00key]
theorem Skey_ne_T11 (a : ℕ) : Skey a ≠ T11key := by rw [Skey_eq']; simp [T11key]
theorem S00_ne_T11 : S00key ≠ T11key := by simp [S00key, T11key]
theorem NTkey_ne_T11 (i j : ℕ) : NTkey i j ≠ T11key := by
  intro h
  rw [NTkey_eq, T11key, List.cons.injEq] at h
  have hm : '_' ∈ Key.num (i + 1) ++ '_' :: Key.num (j + 1) := by simp
  rw [h.2] at hm
  simp at hm

open Classical in
/-- the `ltf` call a memoisation key of `get_ltf_result` stands for (well defined because the key families are injective and disjoint) -/
noncomputable def canon (ltf : Ltf ℝ) (key : Key) : Spec ℝ :=
  if h : ∃ p : ℕ × ℕ, key = NTkey p.1 p.2 then ltf.cross (Chan.inp h.choose.1) (Chan.inp h.choose.2)
  else if h : ∃ i, key = Skey i then ltf.cross (Chan.inp h.choose) Chan.out
  else if key = T11key then ltf.cross (Chan.inp 0) (Chan.inp 0)
  else ltf.auto Chan.out

theorem canon_NT (ltf : Ltf ℝ) (i j : ℕ) : canon ltf (NTkey i j) = ltf.cross (Chan.inp i) (Chan.inp j) := by
  have h : ∃ p : ℕ × ℕ, NTkey i j = NTkey p.1 p.2 := ⟨(i, j), rfl⟩
  unfold canon
  rw [dif_pos h]
  obtain ⟨e1, e2⟩ := (NTkey_inj _ _ _ _).mp h.choose_spec
  rw [← e1, ← e2]

theorem canon_S (ltf : Ltf ℝ) (i : ℕ) : canon ltf (Skey i) = ltf.cross (Chan.inp i) Chan.out := by
  have h0 : ¬ ∃ p : ℕ × ℕ, Skey i = NTkey p.1 p.2 := fun ⟨p, e⟩ => NTkey_ne_Skey p.1 p.2 i e.symm
  have h : ∃ a, Skey i = Skey a := ⟨i, rfl⟩
  unfold canon
  rw [dif_neg h0, dif_pos h]
  rw [← (Skey_inj' _ _).mp h.choose_spec]

theorem canon_T11 (ltf : Ltf ℝ) : canon ltf T11key = ltf.cross (Chan.inp 0) (Chan.inp 0) := by
  have h0 : ¬ ∃ p : ℕ × ℕ, T11key = NTkey p.1 p.2 := fun ⟨p, e⟩ => NTkey_ne_T11 p.1 p.2 e.symm
  have h1 : ¬ ∃ a, T11key = Skey a := fun ⟨a, e⟩ => Skey_ne_T11 a e.symm
  unfold canon
  rw [dif_neg h0, dif_neg h1, if_pos rfl]

theorem canon_S00 (ltf : Ltf ℝ) : canon ltf S00key = ltf.auto Chan.out := by
  have h0 : ¬ ∃ p : ℕ × ℕ, S00key = NTkey p.1 p.2 := fun ⟨p, e⟩ => NTkey_ne_S00 p.1 p.2 e.symm
  have h1 : ¬ ∃ a, S00key = Skey a := fun ⟨a, e⟩ => Skey_ne_S00' a e.symm
  unfold canon
  rw [dif_neg h0, dif_neg h1, if_neg S00_ne_T11]

/-- every cached object is the result of the call its key stands for -/
def Coh (ltf : Ltf ℝ) (c : Cache ℝ) : Prop := ∀ key o, c key = some o → o = canon ltf key

theorem coh_empty (ltf : Ltf ℝ) : Coh ltf Cache.empty := by
  intro key o h; simp [Cache.empty] at h

theorem memo_coh (ltf : Ltf ℝ) (c : Cache ℝ) (key : Key) (mk : Unit → Spec ℝ) (hc : Coh ltf c) (hmk : mk () = canon ltf key) :
    (Cache.memo c key mk).1 = canon ltf key ∧ Coh ltf (Cache.memo c key mk).2 := by
  unfold Cache.memo
  cases h : c key with
  | some o => exact ⟨hc key o h, hc⟩
  | none =>
    refine ⟨hmk, ?_⟩
    intro key' o' h'
    by_cases e : key' = key
    · subst e; simp at h'; rw [← h', hmk]
    · simp [e] at h'; exact hc key' o' h'

theorem anyNonzero_zero (n : ℕ) (v : ℕ → Cx ℝ) (h : ∀ k, v k = Cx.ofReal RealLike.zero) : anyNonzero n v = false := by
  unfold anyNonzero
  refine forRange_inv (fun _ acc => acc = false) n false _ rfl ?_
  intro k acc _ hacc
  subst hacc
  simp [h k, Cx.ofReal, RealLike.bne]

theorem setRow_apply (T : A3 ℝ) (i j : ℕ) (v : ℕ → Cx ℝ) (a b : ℕ) :
    A3.setRow T i j v a b = if a = i ∧ b = j then v else T a b := by
  funext k; simp only [A3.setRow]; split_ifs <;> rfl

theorem setRow2_apply (S : A2 ℝ) (i : ℕ) (v : ℕ → Cx ℝ) (a : ℕ) : A2.setRow S i v a = if a = i then v else S a := by
  funext k; simp only [A2.setRow]; split_ifs <;> rfl

end MisoGen

namespace MisoGen
variable (q : ℕ) (ltf : Ltf ℝ) (la : LinAlg ℝ) (A : Chan → ℕ → ℝ)

/-- every two-channel analysis reports, as its `Gxx` / `Gyy`, the auto-spectrum `A` of its first / second channel (C01/C05: one plan for
    all calls, `XX` is the mean of `|X|²` of the first channel whatever the second one is) -/
def AutoCons (ltf : Ltf ℝ) (A : Chan → ℕ → ℝ) : Prop :=
  ∀ a b k, Gen.Cross.Gxx ((ltf.cross a b).bin k) = A a k ∧ Gen.Cross.Gyy ((ltf.cross a b).bin k) = A b k

def Dg (A : Chan → ℕ → ℝ) (a : ℕ) (T : A3 ℝ) : Prop := ∀ k, T a a k = Cx.ofReal (A (Chan.inp a) k)
def Zg (a : ℕ) (T : A3 ℝ) : Prop := ∀ k, T a a k = Cx.ofReal RealLike.zero
noncomputable def Gv (ltf : Ltf ℝ) (a b k : ℕ) : Cx ℝ := Gen.Cross.Gxy ((ltf.cross (Chan.inp a) (Chan.inp b)).bin k)

/-- the diagonal rule `if not np.any(T[a, a, :]): T[a, a, :] = v` -/
theorem diag_step (T : A3 ℝ) (n a0 : ℕ) (v : ℕ → Cx ℝ) (hv : ∀ k, v k = Cx.ofReal (A (Chan.inp a0) k)) :
    let T' := if (!(anyNonzero n (fun k => T a0 a0 k))) = true then A3.setRow T a0 a0 v else T
    (∀ a b, ¬(a = a0 ∧ b = a0) → T' a b = T a b) ∧ ((Zg a0 T ∨ Dg A a0 T) → Dg A a0 T') := by
  intro T'
  by_cases hany : anyNonzero n (fun k => T a0 a0 k) = true
  · have e : T' = T := by simp [T', hany]
    rw [e]
    refine ⟨fun _ _ _ => rfl, fun h => ?_⟩
    rcases h with hz | hd
    · rw [anyNonzero_zero n _ hz] at hany; exact absurd hany (by simp)
    · exact hd
  · have e : T' = A3.setRow T a0 a0 v := by simp [T', hany]
    rw [e]
    refine ⟨fun a b hab => by rw [setRow_apply, if_neg hab], fun _ k => ?_⟩
    rw [setRow_apply, if_pos ⟨rfl, rfl⟩]; exact hv k

/-- state of the `Tmat` assembly while row `i` has been filled up to (excluding) column `bound` -/
def L2post (ltf : Ltf ℝ) (A : Chan → ℕ → ℝ) (Tmat : A3 ℝ) (i bound : ℕ) (c' : Cache ℝ) (T' : A3 ℝ) : Prop :=
  Coh ltf c' ∧ (∀ a, Zg a T' ∨ Dg A a T') ∧
  (∀ b, i < b → b < bound → T' i b = (fun k => Gv ltf i b k) ∧ T' b i = fun k => Cx.conj (Gv ltf i b k)) ∧
  (∀ a b, a ≠ b → ¬(a = i ∧ i < b ∧ b < bound) → ¬(b = i ∧ i < a ∧ a < bound) → T' a b = Tmat a b) ∧
  (∀ a, Dg A a Tmat → Dg A a T') ∧
  (i + 1 < bound → Dg A i T') ∧ (∀ b, i < b → b < bound → Dg A b T')

theorem forRange_inv_conseq {σ : Type} (P : ℕ → σ → Prop) (Q : σ → Prop) (n : ℕ) (init : σ) (f : ℕ → σ → σ)
    (h0 : P 0 init) (hs : ∀ i s, i < n → P i s → P (i + 1) (f i s)) (hQ : ∀ s, P n s → Q s) : Q (forRange n init f) :=
  hQ _ (forRange_inv P n init f h0 hs)

/-- inner loop of the `Tmat` assembly (row `i`, `j = i+1 … q-1`) -/
theorem n_loop2 (hA : AutoCons ltf A) (result : Cache ℝ) (obj : Spec ℝ) (nf : ℕ) (Tmat : A3 ℝ) (i : ℕ) (hi : i < q)
    (hc : Coh ltf result) (hzd : ∀ a, Zg a Tmat ∨ Dg A a Tmat) :
    L2post ltf A Tmat i q (Gen.MISO_numeric_optimal_spectral_analysis.loop2 q ltf la result obj nf Tmat i).2.1
      (Gen.MISO_numeric_optimal_spectral_analysis.loop2 q ltf la result obj nf Tmat i).2.2 := by
  unfold Gen.MISO_numeric_optimal_spectral_analysis.loop2 forRangeFrom
  apply forRange_inv_conseq (fun t (st : Spec ℝ × Cache ℝ × A3 ℝ) => L2post ltf A Tmat i (i + 1 + t) st.2.1 st.2.2)
    (fun st => L2post ltf A Tmat i q st.2.1 st.2.2)
  · exact ⟨hc, hzd, fun b h1 h2 => by omega, fun a b _ _ _ => rfl, fun a h => h, fun h => by omega, fun b h1 h2 => by omega⟩
  rotate_left
  · intro s hs
    have e : i + 1 + (q - (i + 1)) = q := by omega
    rw [e] at hs; exact hs
  · rintro t st ht ⟨hC, hZD, hoff, hfr, hpres, hdi, hdb⟩
    show L2post ltf A Tmat i (i + 1 + (t + 1)) _ _
    unfold L2post
    -- the body at j = i + 1 + t
    obtain ⟨hm1, hm2⟩ := memo_coh ltf st.2.1 (NTkey i (i + 1 + t))
      (fun _ => ltf.cross (Chan.inp i) (Chan.inp (i + 1 + t))) hC (by rw [canon_NT])
    rw [canon_NT] at hm1
    simp only [NTkey_def, hm1]
    -- the two diagonal rules
    set T2 : A3 ℝ := A3.setRow (A3.setRow st.2.2 i (i + 1 + t) fun k_ => Gen.Cross.Gxy ((ltf.cross (Chan.inp i) (Chan.inp (i + 1 + t))).bin k_))
      (i + 1 + t) i fun k_ => Cx.conj (Gen.Cross.Gxy ((ltf.cross (Chan.inp i) (Chan.inp (i + 1 + t))).bin k_)) with hT2
    have hne : i ≠ i + 1 + t := by omega
    have T2diag : ∀ a, T2 a a = st.2.2 a a := by
      intro a
      rw [hT2, setRow_apply, setRow_apply]
      rw [if_neg (by omega), if_neg (by omega)]
    have hZD2 : ∀ a, Zg a T2 ∨ Dg A a T2 := by
      intro a
      rcases hZD a with h | h
      · left; intro k; rw [T2diag]; exact h k
      · right; intro k; rw [T2diag]; exact h k
    obtain ⟨d1f, d1d⟩ := diag_step A T2 nf i (fun k_ => Cx.ofReal (Gen.Cross.Gxx ((ltf.cross (Chan.inp i) (Chan.inp (i + 1 + t))).bin k_)))
      (fun k => by rw [(hA _ _ k).1])
    set T3 : A3 ℝ := if (!(anyNonzero nf fun k => T2 i i k)) = true then
      A3.setRow T2 i i (fun k_ => Cx.ofReal (Gen.Cross.Gxx ((ltf.cross (Chan.inp i) (Chan.inp (i + 1 + t))).bin k_))) else T2 with hT3
    obtain ⟨d2f, d2d⟩ := diag_step A T3 nf (i + 1 + t) (fun k_ => Cx.ofReal (Gen.Cross.Gyy ((ltf.cross (Chan.inp i) (Chan.inp (i + 1 + t))).bin k_)))
      (fun k => by rw [(hA _ _ k).2])
    set T4 : A3 ℝ := if (!(anyNonzero nf fun k => T3 (i + 1 + t) (i + 1 + t) k)) = true then
      A3.setRow T3 (i + 1 + t) (i + 1 + t) (fun k_ => Cx.ofReal (Gen.Cross.Gyy ((ltf.cross (Chan.inp i) (Chan.inp (i + 1 + t))).bin k_))) else T3 with hT4
    -- entries of T4 in terms of st.2.2
    have off : ∀ a b, a ≠ b → T4 a b = T2 a b := fun a b hab => by
      rw [d2f a b (by omega), d1f a b (by omega)]
    have dgpres : ∀ a, Dg A a st.2.2 → Dg A a T4 := by
      intro a ha
      have h2 : Dg A a T2 := fun k => by rw [T2diag]; exact ha k
      have h3 : Dg A a T3 := by
        by_cases e : a = i
        · subst e; exact d1d (Or.inr h2)
        · intro k; rw [d1f a a (by omega)]; exact h2 k
      by_cases e : a = i + 1 + t
      · subst e; exact d2d (Or.inr h3)
      · intro k; rw [d2f a a (by omega)]; exact h3 k
    have zd3 : ∀ a, Zg a T3 ∨ Dg A a T3 := by
      intro a
      by_cases e : a = i
      · subst e; exact Or.inr (d1d (hZD2 a))
      · rcases hZD2 a with h | h
        · left; intro k; rw [d1f a a (by omega)]; exact h k
        · right; intro k; rw [d1f a a (by omega)]; exact h k
    have zd4 : ∀ a, Zg a T4 ∨ Dg A a T4 := by
      intro a
      by_cases e : a = i + 1 + t
      · subst e; exact Or.inr (d2d (zd3 _))
      · rcases zd3 a with h | h
        · left; intro k; rw [d2f a a (by omega)]; exact h k
        · right; intro k; rw [d2f a a (by omega)]; exact h k
    have di4 : Dg A i T4 := by
      have h3 : Dg A i T3 := d1d (hZD2 i)
      intro k; rw [d2f i i (by omega)]; exact h3 k
    have dj4 : Dg A (i + 1 + t) T4 := d2d (zd3 _)
    refine ⟨hm2, zd4, ?_, ?_, fun a ha => dgpres a (hpres a ha), fun _ => di4, ?_⟩
    · intro b hb1 hb2
      change b < i + 1 + (t + 1) at hb2
      by_cases e : b = i + 1 + t
      · subst e
        rw [off _ _ (by omega), off _ _ (by omega), hT2]
        constructor
        · rw [setRow_apply, if_neg (by omega), setRow_apply, if_pos ⟨rfl, rfl⟩]; rfl
        · rw [setRow_apply, if_pos ⟨rfl, rfl⟩]; rfl
      · obtain ⟨o1, o2⟩ := hoff b hb1 (by omega)
        rw [off _ _ (by omega), off _ _ (by omega), hT2]
        constructor
        · rw [setRow_apply, if_neg (by omega), setRow_apply, if_neg (by omega)]; exact o1
        · rw [setRow_apply, if_neg (by omega), setRow_apply, if_neg (by omega)]; exact o2
    · intro a b hab h1 h2
      rw [off a b hab, hT2, setRow_apply, if_neg (by omega), setRow_apply, if_neg (by omega)]
      exact hfr a b hab (by omega) (by omega)
    · intro b hb1 hb2
      by_cases e : b = i + 1 + t
      · subst e; exact dj4
      · exact dgpres b (hdb b hb1 (by omega))

end MisoGen

namespace MisoGen
variable (q : ℕ) (ltf : Ltf ℝ) (la : LinAlg ℝ) (A : Chan → ℕ → ℝ)

/-- state of the `Tmat` assembly when rows `< n` are done -/
def L1post (ltf : Ltf ℝ) (A : Chan → ℕ → ℝ) (q n : ℕ) (c' : Cache ℝ) (T' : A3 ℝ) : Prop :=
  Coh ltf c' ∧ (∀ a, Zg a T' ∨ Dg A a T') ∧
  (∀ a b, a < n → a < b → b < q → T' a b = (fun k => Gv ltf a b k) ∧ T' b a = fun k => Cx.conj (Gv ltf a b k)) ∧
  (0 < n → 2 ≤ q → ∀ a, a < q → Dg A a T')

theorem n_loop1 (hA : AutoCons ltf A) (result : Cache ℝ) (obj : Spec ℝ) (nf : ℕ) (Tmat : A3 ℝ)
    (hc : Coh ltf result) (hzd : ∀ a, Zg a Tmat ∨ Dg A a Tmat) :
    L1post ltf A q q (Gen.MISO_numeric_optimal_spectral_analysis.loop1 q ltf la result obj nf Tmat).2.1
      (Gen.MISO_numeric_optimal_spectral_analysis.loop1 q ltf la result obj nf Tmat).2.2 := by
  unfold Gen.MISO_numeric_optimal_spectral_analysis.loop1
  apply forRange_inv_conseq (fun n (st : Spec ℝ × Cache ℝ × A3 ℝ) => L1post ltf A q n st.2.1 st.2.2)
    (fun st => L1post ltf A q q st.2.1 st.2.2)
  · exact ⟨hc, hzd, fun a b h => by omega, fun h => by omega⟩
  rotate_left
  · intro s hs; exact hs
  · rintro n st hn ⟨hC, hZD, hoff, hdg⟩
    obtain ⟨h1, h2, h3, h4, h5, h6, h7⟩ := n_loop2 q ltf la A hA st.2.1 st.1 nf st.2.2 n hn hC hZD
    refine ⟨h1, h2, ?_, ?_⟩
    · intro a b ha hab hb
      by_cases e : a = n
      · subst e; exact h3 b hab hb
      · obtain ⟨o1, o2⟩ := hoff a b (by omega) hab hb
        rw [h4 a b (by omega) (by omega) (by omega), h4 b a (by omega) (by omega) (by omega)]
        exact ⟨o1, o2⟩
    · intro _ hq2 a ha
      by_cases e : n = 0
      · subst e
        by_cases e0 : a = 0
        · subst e0; exact h6 (by omega)
        · exact h7 a (by omega) ha
      · exact h5 a (hdg (by omega) hq2 a ha)

/-- what `Tmat[i, j, :]` holds when the per-bin systems are solved -/
noncomputable def NTval (ltf : Ltf ℝ) (A : Chan → ℕ → ℝ) (i j k : ℕ) : Cx ℝ :=
  if i = j then Cx.ofReal (A (Chan.inp i) k) else if i < j then Gv ltf i j k else Cx.conj (Gv ltf j i k)

theorem stage0_facts :
    let s := Gen.MISO_numeric_optimal_spectral_analysis.stage0 q ltf la
    Coh ltf s.result ∧ s.obj = ltf.auto Chan.out ∧ s.nf = (ltf.auto Chan.out).nf ∧
    (s.S00 = fun k => Gen.Auto.Gxx ((ltf.auto Chan.out).bin k)) ∧ (∀ a, Zg a s.Tmat) ∧
    (s.Svec = fun _ _ => Cx.ofReal RealLike.zero) := by
  intro s
  obtain ⟨m1, m2⟩ := memo_coh ltf Cache.empty S00key (fun _ => ltf.auto Chan.out) (coh_empty ltf) (canon_S00 ltf).symm
  rw [canon_S00] at m1
  simp only [s, Gen.MISO_numeric_optimal_spectral_analysis.stage0, S00key_def, m1]
  refine ⟨m2, ?_, ?_, ?_, ?_, ?_⟩ <;> first | trivial | rfl | (intro a k; rfl)

/-- `Tmat` after the assembly (stage 2: the pair loops and the `q == 1` case) -/
theorem numeric_Tmat (hq1 : 1 ≤ q) (hA : AutoCons ltf A) (i j : ℕ) (hi : i < q) (hj : j < q) (k : ℕ) :
    (Gen.MISO_numeric_optimal_spectral_analysis.stage2 q ltf la).Tmat i j k = NTval ltf A i j k ∧
    Coh ltf (Gen.MISO_numeric_optimal_spectral_analysis.stage2 q ltf la).result := by
  obtain ⟨c0, o0, n0, s0, z0, v0⟩ := stage0_facts q ltf la
  obtain ⟨hC, hZD, hoff, hdg⟩ := n_loop1 q ltf la A hA
    (Gen.MISO_numeric_optimal_spectral_analysis.stage0 q ltf la).result
    (Gen.MISO_numeric_optimal_spectral_analysis.stage0 q ltf la).obj
    (Gen.MISO_numeric_optimal_spectral_analysis.stage0 q ltf la).nf
    (Gen.MISO_numeric_optimal_spectral_analysis.stage0 q ltf la).Tmat c0 (fun a => Or.inl (z0 a))
  by_cases h1 : q = 1
  · -- single input: the pair loops are empty, the diagonal comes from ltf([x0, x0]).Gxx
    have hi0 : i = 0 := by omega
    have hj0 : j = 0 := by omega
    subst hi0 hj0
    subst h1
    obtain ⟨m1, m2⟩ := memo_coh ltf _ T11key (fun _ => ltf.cross (Chan.inp 0) (Chan.inp 0)) hC
      (by rw [canon_T11])
    rw [canon_T11] at m1
    simp only [Gen.MISO_numeric_optimal_spectral_analysis.stage2, Gen.MISO_numeric_optimal_spectral_analysis.stage1, decide_true,
      if_true, T11key_def, m1]
    refine ⟨?_, m2⟩
    rw [setRow_apply, if_pos ⟨rfl, rfl⟩]
    simp only [NTval, if_true, (hA _ _ k).1]
  · have e : decide (q = 1) = false := by simp [h1]
    simp only [Gen.MISO_numeric_optimal_spectral_analysis.stage2, Gen.MISO_numeric_optimal_spectral_analysis.stage1, e]
    refine ⟨?_, hC⟩
    simp only [Bool.false_eq_true, if_false]
    rcases Nat.lt_trichotomy i j with hij | hij | hij
    · rw [(hoff i j hi hij hj).1]; simp [NTval, Nat.ne_of_lt hij, hij]
    · subst hij
      rw [hdg (by omega) (by omega) i hi k]; simp [NTval]
    · rw [(hoff j i hj hij hi).2]; simp [NTval, Nat.ne_of_gt hij, Nat.lt_asymm hij]

theorem n_loop3 (result : Cache ℝ) (obj : Spec ℝ) (Svec : A2 ℝ) (hc : Coh ltf result) (i : ℕ) (hi : i < q) :
    (Gen.MISO_numeric_optimal_spectral_analysis.loop3 q ltf la result obj Svec).2.2 i = fun k => Sval ltf i k := by
  unfold Gen.MISO_numeric_optimal_spectral_analysis.loop3
  apply forRange_inv_conseq (fun n (st : Spec ℝ × Cache ℝ × A2 ℝ) => Coh ltf st.2.1 ∧ ∀ a, a < n → st.2.2 a = fun k => Sval ltf a k)
    (fun st => st.2.2 i = fun k => Sval ltf i k)
  · exact ⟨hc, fun a h => by omega⟩
  rotate_left
  · intro s hs; exact hs.2 i hi
  · rintro n st hn ⟨hC, hS⟩
    obtain ⟨m1, m2⟩ := memo_coh ltf st.2.1 (Skey n) (fun _ => ltf.cross (Chan.inp n) Chan.out) hC
      (by rw [canon_S])
    rw [canon_S] at m1
    simp only [Skey_def, m1]
    refine ⟨m2, fun a ha => ?_⟩
    rw [setRow2_apply]
    by_cases e : a = n
    · subst e; rw [if_pos rfl]; rfl
    · rw [if_neg e]; exact hS a (by omega)

/-- the arrays of the numeric solver when the per-bin systems are solved: `Tmat`, `Svec`, `S00`, `nf` -/
theorem numeric_assembly (hq1 : 1 ≤ q) (hA : AutoCons ltf A) :
    let s := Gen.MISO_numeric_optimal_spectral_analysis.stage3 q ltf la
    (∀ i j k, i < q → j < q → s.Tmat i j k = NTval ltf A i j k) ∧ (∀ i k, i < q → s.Svec i k = Sval ltf i k) ∧
    (∀ k, s.S00 k = Gen.Auto.Gxx ((ltf.auto Chan.out).bin k)) ∧ s.nf = (ltf.auto Chan.out).nf := by
  intro s
  obtain ⟨c0, o0, n0, s0, z0, v0⟩ := stage0_facts q ltf la
  refine ⟨fun i j k hi hj => ?_, fun i k hi => ?_, fun k => ?_, ?_⟩
  · exact (numeric_Tmat q ltf la A hq1 hA i j hi hj k).1
  · have hC := (numeric_Tmat q ltf la A hq1 hA 0 0 (by omega) (by omega) 0).2
    have := n_loop3 q ltf la (Gen.MISO_numeric_optimal_spectral_analysis.stage2 q ltf la).result
      (Gen.MISO_numeric_optimal_spectral_analysis.stage2 q ltf la).obj
      (Gen.MISO_numeric_optimal_spectral_analysis.stage2 q ltf la).Svec hC i hi
    simp only [s, Gen.MISO_numeric_optimal_spectral_analysis.stage3]
    rw [this]
  · have : s.S00 = (Gen.MISO_numeric_optimal_spectral_analysis.stage0 q ltf la).S00 := rfl
    rw [this, s0]
  · have : s.nf = (Gen.MISO_numeric_optimal_spectral_analysis.stage0 q ltf la).nf := rfl
    rw [this, n0]

end MisoGen

/-! ## 5. What is handed to the external solvers, and what their contracts give back -/

namespace MisoGen
variable (q : ℕ) (ltf : Ltf ℝ) (la : LinAlg ℝ)

/-- `H` solves the normal equations `Σ_j T_ij H_j = S_i` (i < q) -/
def SolvesAt (q : ℕ) (T : ℕ → ℕ → Cx ℝ) (S H : ℕ → Cx ℝ) : Prop :=
  ∀ i, i < q → ∑ j ∈ range q, Cx.toC (T i j) * Cx.toC (H j) = Cx.toC (S i)

/-- CONTRACT of `np.linalg.solve` / `np.linalg.pinv` (trusted base): on a solvable system `T H = S`, what `solve(T, S)` returns (if it
    does not raise) and `pinv(T) @ S` are solutions.  (`cond` only selects the branch.) -/
def LinAlgSound (la : LinAlg ℝ) (q : ℕ) : Prop :=
  ∀ T S, (∃ H0, SolvesAt q T S H0) →
    (∀ H, la.solve q T S = some H → SolvesAt q T S H) ∧ SolvesAt q T S (matVec q (la.pinv q T) S)

theorem setCol_apply (H : A2 ℝ) (k : ℕ) (v : ℕ → Cx ℝ) (a k' : ℕ) : A2.setCol H k v a k' = if k' = k then v a else H a k' := rfl

/-- the per-bin solve loop hands `Tmat[:, :, k]` (in that index order) and `Svec[:, k]` to the solver; under the solver contract column
    `k` of `Hvec` solves the normal equations of bin `k` -/
theorem numeric_H_solves (hla : LinAlgSound la q) (nf : ℕ) (Tmat : A3 ℝ) (Svec Hvec : A2 ℝ)
    (hcons : ∀ k, k < nf → ∃ H0, SolvesAt q (fun a b => Tmat a b k) (fun a => Svec a k) H0) (k : ℕ) (hk : k < nf) :
    SolvesAt q (fun a b => Tmat a b k) (fun a => Svec a k)
      (fun a => Gen.MISO_numeric_optimal_spectral_analysis.loop4 q ltf la nf Tmat Svec Hvec a k) := by
  unfold Gen.MISO_numeric_optimal_spectral_analysis.loop4
  apply forRange_inv_conseq (fun n (H : A2 ℝ) => ∀ k', k' < n → SolvesAt q (fun a b => Tmat a b k') (fun a => Svec a k') (fun a => H a k'))
    (fun H => SolvesAt q (fun a b => Tmat a b k) (fun a => Svec a k) (fun a => H a k))
  · intro k' h; omega
  rotate_left
  · intro H hH; exact hH k hk
  · intro n H hn hH
    obtain ⟨hsolve, hpinv⟩ := hla (fun a b => Tmat a b n) (fun a => Svec a n) (hcons n hn)
    -- whichever branch is taken, column n receives a solution and the other columns are kept
    have hcol : ∀ v, SolvesAt q (fun a b => Tmat a b n) (fun a => Svec a n) v →
        ∀ k', k' < n + 1 → SolvesAt q (fun a b => Tmat a b k') (fun a => Svec a k') (fun a => A2.setCol H n v a k') := by
      intro v hv k' hk'
      by_cases e : k' = n
      · subst e; simpa only [setCol_apply, if_true] using hv
      · have := hH k' (by omega)
        simpa only [setCol_apply, if_neg e] using this
    simp only []
    rcases hc : la.cond q (fun a b => Tmat a b n) with _ | cnd
    · simp only []
      exact hcol _ hpinv
    · simp only []
      split_ifs
      · exact hcol _ hpinv
      · rcases hs : la.solve q (fun a b => Tmat a b n) (fun a => Svec a n) with _ | sol
        · simp only []
          exact hcol _ hpinv
        · simp only []
          exact hcol _ (hsolve sol hs)

end MisoGen

namespace MisoGen
variable (q : ℕ) (ltf : Ltf ℝ) (Hsol : ℕ → ℕ → Cx ℝ)

theorem Skey_def' (i : ℕ) : (['S'] ++ Key.num (1 + i) ++ ['0'] : Key) = Skey i := by rw [Nat.add_comm]; rfl

/-- CONTRACT of `sp.solve` + `lambdify` (trusted base): the values stored under the unknowns' names satisfy, at bin `k`, the equations
    that the source built symbolically (`Gen.….eqns`, translated from the source), evaluated at the arrays stored under the symbols'
    names -/
def AnalyticSolved (q : ℕ) (ltf : Ltf ℝ) (Hsol : ℕ → ℕ → Cx ℝ) (k : ℕ) : Prop :=
  ∀ i, i < q → Cx.toC (Gen.MISO_analytic_optimal_spectral_analysis.eqns q (fun key => aDict q ltf Hsol key k) i) = 0

/-- the symbolic system of the analytic solver is `Σ_j T_ij H_j = S_i0` with `T_ij`, `S_i0` the stored spectra: not transposed, not
    conjugated -/
theorem analytic_H_solves (hq : q ≤ 9) (k : ℕ) (hsol : AnalyticSolved q ltf Hsol k) :
    SolvesAt q (fun i j => Tval ltf i j k) (fun i => Sval ltf i k) (fun i => Hsol i k) := by
  intro i hi
  have h := hsol i hi
  unfold Gen.MISO_analytic_optimal_spectral_analysis.eqns at h
  simp only [Cx.toC_sub, Cx.toC_add, pySum_toC, Cx.toC_mul, Skey_def', Tkey_def, Hkey_def', Hkey_def, Skey_def] at h
  rw [(analytic_S q ltf Hsol hq i hi).1] at h
  have s : ∑ j ∈ range q, Cx.toC (aDict q ltf Hsol (Tkey i j) k) * Cx.toC (aDict q ltf Hsol (Hkey j) k)
      = ∑ j ∈ range q, Cx.toC (Tval ltf i j k) * Cx.toC (Hsol j k) :=
    Finset.sum_congr rfl fun j hj => by
      rw [analytic_T q ltf Hsol hq i j hi (Finset.mem_range.mp hj), analytic_H q ltf Hsol hq j (Finset.mem_range.mp hj)]
  rw [s] at h
  exact (sub_eq_zero.mp h).symm

end MisoGen

/-! ## 6. Gram structure: the assembled arrays are the `T`, `S`, `S00` of `Lemmas/MisoResidual` (index and conjugation convention) -/

namespace MisoGen
open ComplexConjugate

/-- C01/C05 at bin `k`: every `ltf` call of one systems function runs the same plan (same `fs, **kwargs`, equal-length records), so its
    base estimates are means over the SAME `K` segments of products of the per-segment windowed DFTs `Z chan s`:
    `XY` of `ltf([a, b])` is the mean of `Z_a · conj Z_b` (Props/C01 `ref_cross_is_X_conjY`), `XX` / `YY` the mean squared moduli of the
    first / second channel, `S2` and `fs` are common. -/
structure GramLtf (ltf : Ltf ℝ) (k K : ℕ) (fs S2 : ℝ) (Z : Chan → ℕ → ℂ) : Prop where
  cXY : ∀ a b, Cx.toC ((ltf.cross a b).bin k).XY = (1 / (K : ℂ)) * ∑ s ∈ range K, Z a s * conj (Z b s)
  cXX : ∀ a b, ((ltf.cross a b).bin k).XX = (1 / (K : ℝ)) * ∑ s ∈ range K, Complex.normSq (Z a s)
  cYY : ∀ a b, ((ltf.cross a b).bin k).YY = (1 / (K : ℝ)) * ∑ s ∈ range K, Complex.normSq (Z b s)
  cfs : ∀ a b, ((ltf.cross a b).bin k).fs = fs
  cS2 : ∀ a b, ((ltf.cross a b).bin k).S2 = S2
  aXX : ∀ a, ((ltf.auto a).bin k).XX = (1 / (K : ℝ)) * ∑ s ∈ range K, Complex.normSq (Z a s)
  afs : ∀ a, ((ltf.auto a).bin k).fs = fs
  aS2 : ∀ a, ((ltf.auto a).bin k).S2 = S2

variable {ltf : Ltf ℝ} {k K : ℕ} {fs S2 : ℝ} {Z : Chan → ℕ → ℂ}

/-- the auto-spectrum of a channel -/
noncomputable def autoOf (K : ℕ) (fs S2 : ℝ) (Z : Chan → ℕ → ℂ) (a : Chan) : ℝ :=
  2 * ((1 / (K : ℝ)) * ∑ s ∈ range K, Complex.normSq (Z a s)) / (fs * S2)

theorem gram_Gxy (h : GramLtf ltf k K fs S2 Z) (a b : Chan) :
    Cx.toC (Gen.Cross.Gxy ((ltf.cross a b).bin k))
      = ((2 / (fs * S2) : ℝ) : ℂ) * ((1 / (K : ℂ)) * ∑ s ∈ range K, Z a s * conj (Z b s)) := by
  rw [AttrsA.cGxy, h.cXY, h.cfs, h.cS2]; push_cast; ring

theorem gram_cGxx (h : GramLtf ltf k K fs S2 Z) (a b : Chan) :
    Gen.Cross.Gxx ((ltf.cross a b).bin k) = autoOf K fs S2 Z a ∧ Gen.Cross.Gyy ((ltf.cross a b).bin k) = autoOf K fs S2 Z b := by
  rw [AttrsA.cGxx, AttrsA.cGyy, h.cXX, h.cYY, h.cfs, h.cS2]; exact ⟨rfl, rfl⟩

theorem gram_aGxx (h : GramLtf ltf k K fs S2 Z) (a : Chan) :
    Gen.Auto.Gxx ((ltf.auto a).bin k) = autoOf K fs S2 Z a := by
  rw [AttrsA.aGxx, h.aXX, h.afs, h.aS2]; rfl

theorem autoOf_cast (a : Chan) :
    ((autoOf K fs S2 Z a : ℝ) : ℂ) = ((2 / (fs * S2) : ℝ) : ℂ) * ((1 / (K : ℂ)) * ∑ s ∈ range K, Z a s * conj (Z a s)) := by
  simp only [autoOf, Complex.mul_conj]; push_cast; ring

theorem T_conj (c : ℝ) (X : ℕ → ℕ → ℂ) (i j : ℕ) : conj (Miso.T K c X j i) = Miso.T K c X i j := by
  simp only [Miso.T, map_mul, map_sum, map_div₀, map_one, Complex.conj_ofReal, Complex.conj_natCast, Complex.conj_conj]
  congr 2
  exact Finset.sum_congr rfl fun s _ => by ring

/-- the inputs' and the output's segment DFTs -/
def Xof (Z : Chan → ℕ → ℂ) (i s : ℕ) : ℂ := Z (Chan.inp i) s
def Yof (Z : Chan → ℕ → ℂ) (s : ℕ) : ℂ := Z Chan.out s

theorem gram_Tval (h : GramLtf ltf k K fs S2 Z) (i j : ℕ) :
    Cx.toC (Tval ltf i j k) = Miso.T K (2 / (fs * S2)) (Xof Z) i j := by
  unfold Tval
  split_ifs with h1 h2
  · subst h1; rw [Cx.toC_ofReal, gram_aGxx h, autoOf_cast]; rfl
  · rw [gram_Gxy h]; rfl
  · rw [Cx.toC_conj, gram_Gxy h, ← T_conj]; rfl

theorem gram_NTval (h : GramLtf ltf k K fs S2 Z) (A : Chan → ℕ → ℝ) (hA : ∀ a, A a k = autoOf K fs S2 Z a) (i j : ℕ) :
    Cx.toC (NTval ltf A i j k) = Miso.T K (2 / (fs * S2)) (Xof Z) i j := by
  unfold NTval Gv
  split_ifs with h1 h2
  · subst h1; rw [Cx.toC_ofReal, hA, autoOf_cast]; rfl
  · rw [gram_Gxy h]; rfl
  · rw [Cx.toC_conj, gram_Gxy h, ← T_conj]; rfl

theorem gram_Sval (h : GramLtf ltf k K fs S2 Z) (i : ℕ) :
    Cx.toC (Sval ltf i k) = Miso.S K (2 / (fs * S2)) (Xof Z) (Yof Z) i := by
  unfold Sval; rw [gram_Gxy h]; rfl

theorem gram_S00 (h : GramLtf ltf k K fs S2 Z) :
    Gen.Auto.Gxx ((ltf.auto Chan.out).bin k) = Miso.S00 K (2 / (fs * S2)) (Yof Z) := by
  rw [gram_aGxx h]; simp only [autoOf, Miso.S00, Yof]; ring

end MisoGen

/-! ## 7. Transfer: the theorems of `Lemmas/MisoResidual` about the values the translated functions return -/

namespace MisoGen
open ComplexConjugate

/-- complex number → model pair -/
def ofC (z : ℂ) : Cx ℝ := ⟨z.re, z.im⟩
@[simp] theorem toC_ofC (z : ℂ) : Cx.toC (ofC z) = z := rfl

/-- the hand model evaluated on arrays that are the Gram quantities IS `Miso.resid` -/
theorem model_eq_resid (q K : ℕ) (c : ℝ) (X : ℕ → ℕ → ℂ) (Y : ℕ → ℂ) (S00 : ℝ) (S : ℕ → Cx ℝ) (T : ℕ → ℕ → Cx ℝ) (H : ℕ → Cx ℝ)
    (hT : ∀ i j, i < q → j < q → Cx.toC (T i j) = Miso.T K c X i j) (hS : ∀ i, i < q → Cx.toC (S i) = Miso.S K c X Y i)
    (h00 : S00 = Miso.S00 K c Y) :
    Cx.toC (Model.misoResidual q S00 S T H) = Miso.resid q K c X Y (fun j => Cx.toC (H j)) := by
  rw [model_misoResidual_toC, Miso.resid, h00]
  congr 1
  · congr 1
    · congr 1
      exact Finset.sum_congr rfl fun i hi => by rw [hS i (Finset.mem_range.mp hi)]
    · exact Finset.sum_congr rfl fun i hi => by rw [hS i (Finset.mem_range.mp hi)]
  · exact Finset.sum_congr rfl fun i hi => Finset.sum_congr rfl fun j hj => by
      rw [hT j i (Finset.mem_range.mp hj) (Finset.mem_range.mp hi)]

theorem abs_of_resid (q K : ℕ) (c : ℝ) (hc : 0 ≤ c) (X : ℕ → ℕ → ℂ) (Y : ℕ → ℂ) (z : Cx ℝ) (H : ℕ → ℂ)
    (hz : Cx.toC z = Miso.resid q K c X Y H) : Cx.abs z = (Miso.resid q K c X Y H).re := by
  obtain ⟨him, hre⟩ := Miso.residual_real_nonneg q K c X Y hc H
  rw [Cx.abs_eq, hz]
  have : Miso.resid q K c X Y H = (((Miso.resid q K c X Y H).re : ℝ) : ℂ) := by
    apply Complex.ext <;> simp [him]
  rw [this, Complex.norm_real, Real.norm_eq_abs, abs_of_nonneg hre, Complex.ofReal_re]

theorem solvesAt_iff (q K : ℕ) (c : ℝ) (X : ℕ → ℕ → ℂ) (Y : ℕ → ℂ) (S : ℕ → Cx ℝ) (T : ℕ → ℕ → Cx ℝ) (H : ℕ → Cx ℝ)
    (hT : ∀ i j, i < q → j < q → Cx.toC (T i j) = Miso.T K c X i j) (hS : ∀ i, i < q → Cx.toC (S i) = Miso.S K c X Y i) :
    SolvesAt q T S H ↔ ∀ i, i < q → ∑ j ∈ range q, Miso.T K c X i j * Cx.toC (H j) = Miso.S K c X Y i := by
  unfold SolvesAt
  refine forall_congr' fun i => forall_congr' fun hi => ?_
  rw [hS i hi]
  have : ∑ j ∈ range q, Cx.toC (T i j) * Cx.toC (H j) = ∑ j ∈ range q, Miso.T K c X i j * Cx.toC (H j) :=
    Finset.sum_congr rfl fun j hj => by rw [hT i j hi (Finset.mem_range.mp hj)]
  rw [this]

end MisoGen

open MisoGen

section numeric
variable (q : ℕ) (ltf : Ltf ℝ) (la : LinAlg ℝ) (K : ℕ → ℕ) (fs : ℝ) (S2 : ℕ → ℝ) (Z : ℕ → Chan → ℕ → ℂ)

/-- the transfer functions the numeric solver ends up with, as complex numbers -/
noncomputable def numericH (k : ℕ) (j : ℕ) : ℂ := Cx.toC ((Gen.MISO_numeric_optimal_spectral_analysis.locals q ltf la).Hvec j k)

theorem numeric_arrays (hq1 : 1 ≤ q) (hG : ∀ k, GramLtf ltf k (K k) fs (S2 k) (Z k)) (k : ℕ) :
    (∀ i j, i < q → j < q → Cx.toC ((Gen.MISO_numeric_optimal_spectral_analysis.locals q ltf la).Tmat i j k)
        = Miso.T (K k) (2 / (fs * S2 k)) (Xof (Z k)) i j) ∧
    (∀ i, i < q → Cx.toC ((Gen.MISO_numeric_optimal_spectral_analysis.locals q ltf la).Svec i k)
        = Miso.S (K k) (2 / (fs * S2 k)) (Xof (Z k)) (Yof (Z k)) i) ∧
    (Gen.MISO_numeric_optimal_spectral_analysis.locals q ltf la).S00 k = Miso.S00 (K k) (2 / (fs * S2 k)) (Yof (Z k)) ∧
    (Gen.MISO_numeric_optimal_spectral_analysis.locals q ltf la).nf = (ltf.auto Chan.out).nf := by
  have hA : AutoCons ltf (fun a k => autoOf (K k) fs (S2 k) (Z k) a) := fun a b k => gram_cGxx (hG k) a b
  obtain ⟨hT, hS, h00, hnf⟩ := numeric_assembly q ltf la _ hq1 hA
  have eT : (Gen.MISO_numeric_optimal_spectral_analysis.locals q ltf la).Tmat = (Gen.MISO_numeric_optimal_spectral_analysis.stage3 q ltf la).Tmat := rfl
  have eS : (Gen.MISO_numeric_optimal_spectral_analysis.locals q ltf la).Svec = (Gen.MISO_numeric_optimal_spectral_analysis.stage3 q ltf la).Svec := rfl
  have e0 : (Gen.MISO_numeric_optimal_spectral_analysis.locals q ltf la).S00 = (Gen.MISO_numeric_optimal_spectral_analysis.stage3 q ltf la).S00 := rfl
  have en : (Gen.MISO_numeric_optimal_spectral_analysis.locals q ltf la).nf = (Gen.MISO_numeric_optimal_spectral_analysis.stage3 q ltf la).nf := rfl
  refine ⟨fun i j hi hj => ?_, fun i hi => ?_, ?_, ?_⟩
  · rw [eT, hT i j k hi hj]; exact gram_NTval (hG k) _ (fun a => rfl) i j
  · rw [eS, hS i k hi]; exact gram_Sval (hG k) i
  · rw [e0, h00 k]; exact gram_S00 (hG k)
  · rw [en, hnf]

/-- **numeric solver = `Miso.resid`**: with the Gram structure of the `ltf` results, `MISO_numeric_optimal_spectral_analysis` returns, for
    WHATEVER the external solver produced, the square root of the residual form of `Lemmas/MisoResidual` at its own `Hvec` — hence
    (`Miso.residual_is_norm`) of `c·mean_s |Y_s − Σ_j conj(H_j) X_{j,s}|²`: real and non-negative -/
theorem gen_numeric_eq_resid (hq1 : 1 ≤ q) (hG : ∀ k, GramLtf ltf k (K k) fs (S2 k) (Z k)) (k : ℕ)
    (hc : 0 ≤ 2 / (fs * S2 k)) :
    Gen.MISO_numeric_optimal_spectral_analysis q ltf la k
      = Real.sqrt (Miso.resid q (K k) (2 / (fs * S2 k)) (Xof (Z k)) (Yof (Z k)) (numericH q ltf la k)).re := by
  obtain ⟨hT, hS, h00, _⟩ := numeric_arrays q ltf la K fs S2 Z hq1 hG k
  rw [gen_numeric_eq_model]
  congr 1
  exact abs_of_resid q (K k) _ hc _ _ _ _ (model_eq_resid q (K k) _ _ _ _ _ _ _ hT hS h00)

theorem gen_numeric_is_norm (hq1 : 1 ≤ q) (hG : ∀ k, GramLtf ltf k (K k) fs (S2 k) (Z k)) (k : ℕ)
    (hc : 0 ≤ 2 / (fs * S2 k)) :
    Gen.MISO_numeric_optimal_spectral_analysis q ltf la k
      = Real.sqrt (2 / (fs * S2 k) * ((1 / (K k : ℝ)) * ∑ s ∈ range (K k),
          Complex.normSq (Yof (Z k) s - ∑ j ∈ range q, (starRingEnd ℂ) (numericH q ltf la k j) * Xof (Z k) j s))) := by
  rw [gen_numeric_eq_resid q ltf la K fs S2 Z hq1 hG k hc, Miso.resid_re]; rfl

/-- normal equations of bin `k` in Gram form -/
def NormalEq (q K : ℕ) (c : ℝ) (X : ℕ → ℕ → ℂ) (Y : ℕ → ℂ) (H : ℕ → ℂ) : Prop :=
  ∀ i, i < q → ∑ j ∈ range q, Miso.T K c X i j * H j = Miso.S K c X Y i

/-- under the solver contract the numeric `Hvec[:, k]` solves the normal equations of bin `k` (the source hands `Tmat[:, :, k]`,
    `Svec[:, k]` to the solver in the right index order) -/
theorem gen_numeric_normal_eq (hq1 : 1 ≤ q) (hG : ∀ k, GramLtf ltf k (K k) fs (S2 k) (Z k)) (hla : LinAlgSound la q)
    (hcons : ∀ k, k < (ltf.auto Chan.out).nf → ∃ H0, NormalEq q (K k) (2 / (fs * S2 k)) (Xof (Z k)) (Yof (Z k)) H0)
    (k : ℕ) (hk : k < (ltf.auto Chan.out).nf) :
    NormalEq q (K k) (2 / (fs * S2 k)) (Xof (Z k)) (Yof (Z k)) (numericH q ltf la k) := by
  have arr := fun k => numeric_arrays q ltf la K fs S2 Z hq1 hG k
  have eH : (Gen.MISO_numeric_optimal_spectral_analysis.locals q ltf la).Hvec
      = Gen.MISO_numeric_optimal_spectral_analysis.loop4 q ltf la (Gen.MISO_numeric_optimal_spectral_analysis.locals q ltf la).nf
          (Gen.MISO_numeric_optimal_spectral_analysis.locals q ltf la).Tmat (Gen.MISO_numeric_optimal_spectral_analysis.locals q ltf la).Svec
          (Gen.MISO_numeric_optimal_spectral_analysis.stage3 q ltf la).Hvec := rfl
  have hnf := (arr 0).2.2.2
  have iff := fun k' (H : ℕ → Cx ℝ) => solvesAt_iff q (K k') (2 / (fs * S2 k')) (Xof (Z k')) (Yof (Z k'))
    (fun a => (Gen.MISO_numeric_optimal_spectral_analysis.locals q ltf la).Svec a k')
    (fun a b => (Gen.MISO_numeric_optimal_spectral_analysis.locals q ltf la).Tmat a b k') H (arr k').1 (arr k').2.1
  have hs := numeric_H_solves q ltf la hla (Gen.MISO_numeric_optimal_spectral_analysis.locals q ltf la).nf
    (Gen.MISO_numeric_optimal_spectral_analysis.locals q ltf la).Tmat (Gen.MISO_numeric_optimal_spectral_analysis.locals q ltf la).Svec
    (Gen.MISO_numeric_optimal_spectral_analysis.stage3 q ltf la).Hvec
    (fun k' hk' => by
      obtain ⟨H0, hH0⟩ := hcons k' (by rw [← hnf]; exact hk')
      refine ⟨fun j => ofC (H0 j), ?_⟩
      rw [iff k']
      intro i hi
      simpa only [toC_ofC] using hH0 i hi) k (by rw [hnf]; exact hk)
  rw [iff k, ← eH] at hs
  exact hs

/-- `0 ≤ residual ≤ Gyy` for the numeric solver (transfer of `Miso.residual_le_output`) -/
theorem gen_numeric_le_output (hq1 : 1 ≤ q) (hG : ∀ k, GramLtf ltf k (K k) fs (S2 k) (Z k)) (hla : LinAlgSound la q)
    (hcons : ∀ k, k < (ltf.auto Chan.out).nf → ∃ H0, NormalEq q (K k) (2 / (fs * S2 k)) (Xof (Z k)) (Yof (Z k)) H0)
    (k : ℕ) (hk : k < (ltf.auto Chan.out).nf) (hc : 0 ≤ 2 / (fs * S2 k)) :
    Gen.MISO_numeric_optimal_spectral_analysis q ltf la k ≤ Real.sqrt (Gen.Auto.Gxx ((ltf.auto Chan.out).bin k)) := by
  rw [gen_numeric_eq_resid q ltf la K fs S2 Z hq1 hG k hc, gram_S00 (hG k)]
  exact Real.sqrt_le_sqrt (Miso.residual_le_output q (K k) _ _ _ hc _
    (gen_numeric_normal_eq q ltf la K fs S2 Z hq1 hG hla hcons k hk))

/-- `y = Σ a_j x_j` in every segment ⇒ the numeric solver returns 0 (transfer of `Miso.exact_combination_zero`) -/
theorem gen_numeric_exact_combination_zero (hq1 : 1 ≤ q) (hG : ∀ k, GramLtf ltf k (K k) fs (S2 k) (Z k))
    (hla : LinAlgSound la q)
    (hcons : ∀ k, k < (ltf.auto Chan.out).nf → ∃ H0, NormalEq q (K k) (2 / (fs * S2 k)) (Xof (Z k)) (Yof (Z k)) H0)
    (k : ℕ) (hk : k < (ltf.auto Chan.out).nf) (hc : 0 ≤ 2 / (fs * S2 k))
    (a : ℕ → ℂ) (hY : ∀ s, s < K k → Yof (Z k) s = ∑ j ∈ range q, a j * Xof (Z k) j s) :
    Gen.MISO_numeric_optimal_spectral_analysis q ltf la k = 0 := by
  rw [gen_numeric_eq_resid q ltf la K fs S2 Z hq1 hG k hc,
    Miso.exact_combination_zero q (K k) _ _ _ hc a hY _ (gen_numeric_normal_eq q ltf la K fs S2 Z hq1 hG hla hcons k hk)]
  exact Real.sqrt_zero

end numeric

section analytic
variable (q : ℕ) (ltf : Ltf ℝ) (Hsol : ℕ → ℕ → Cx ℝ) (k K : ℕ) (fs S2 : ℝ) (Z : Chan → ℕ → ℂ)

/-- the stored analytic solution at bin `k`, as complex numbers -/
noncomputable def analyticH (j : ℕ) : ℂ := Cx.toC (Hsol j k)

/-- **analytic solver = `Miso.resid`** (any stored solution; Gram structure needed at bin `k` only) -/
theorem gen_analytic_eq_resid (hq : q ≤ 9) (hG : GramLtf ltf k K fs S2 Z) (hc : 0 ≤ 2 / (fs * S2)) :
    Gen.MISO_analytic_optimal_spectral_analysis q ltf Hsol k
      = Real.sqrt (Miso.resid q K (2 / (fs * S2)) (Xof Z) (Yof Z) (analyticH Hsol k)).re := by
  rw [gen_analytic_eq_model q ltf Hsol hq k]
  congr 1
  exact abs_of_resid q K _ hc _ _ _ _ (model_eq_resid q K _ _ _ _ _ _ _ (fun i j _ _ => gram_Tval hG i j)
    (fun i _ => gram_Sval hG i) (gram_S00 hG))

/-- under the SymPy contract the stored solution solves the normal equations (the source's symbolic system is `T H = S`) -/
theorem gen_analytic_normal_eq (hq : q ≤ 9) (hG : GramLtf ltf k K fs S2 Z) (hsol : AnalyticSolved q ltf Hsol k) :
    NormalEq q K (2 / (fs * S2)) (Xof Z) (Yof Z) (analyticH Hsol k) :=
  (solvesAt_iff q K _ (Xof Z) (Yof Z) _ _ _ (fun i j _ _ => gram_Tval hG i j) (fun i _ => gram_Sval hG i)).mp
    (analytic_H_solves q ltf Hsol hq k hsol)

theorem gen_analytic_le_output (hq : q ≤ 9) (hG : GramLtf ltf k K fs S2 Z) (hc : 0 ≤ 2 / (fs * S2))
    (hsol : AnalyticSolved q ltf Hsol k) :
    Gen.MISO_analytic_optimal_spectral_analysis q ltf Hsol k ≤ Real.sqrt (Gen.Auto.Gxx ((ltf.auto Chan.out).bin k)) := by
  rw [gen_analytic_eq_resid q ltf Hsol k K fs S2 Z hq hG hc, gram_S00 hG]
  exact Real.sqrt_le_sqrt (Miso.residual_le_output q K _ _ _ hc _ (gen_analytic_normal_eq q ltf Hsol k K fs S2 Z hq hG hsol))

theorem gen_analytic_exact_combination_zero (hq : q ≤ 9) (hG : GramLtf ltf k K fs S2 Z) (hc : 0 ≤ 2 / (fs * S2))
    (hsol : AnalyticSolved q ltf Hsol k) (a : ℕ → ℂ) (hY : ∀ s, s < K → Yof Z s = ∑ j ∈ range q, a j * Xof Z j s) :
    Gen.MISO_analytic_optimal_spectral_analysis q ltf Hsol k = 0 := by
  rw [gen_analytic_eq_resid q ltf Hsol k K fs S2 Z hq hG hc,
    Miso.exact_combination_zero q K _ _ _ hc a hY _ (gen_analytic_normal_eq q ltf Hsol k K fs S2 Z hq hG hsol)]
  exact Real.sqrt_zero

/-- re-mixing the inputs by an invertible matrix (permutations included) does not change what the analytic solver returns -/
theorem gen_analytic_remix_invariant (hq : q ≤ 9) (hc : 0 ≤ 2 / (fs * S2))
    (ltf' : Ltf ℝ) (Hsol' : ℕ → ℕ → Cx ℝ) (Z' : Chan → ℕ → ℂ)
    (hG : GramLtf ltf k K fs S2 Z) (hG' : GramLtf ltf' k K fs S2 Z')
    (A B : ℕ → ℕ → ℂ) (hY : ∀ s, Yof Z' s = Yof Z s)
    (hX' : ∀ i, i < q → ∀ s, s < K → Xof Z' i s = ∑ j ∈ range q, A i j * Xof Z j s)
    (hB : ∀ j, j < q → ∀ s, s < K → Xof Z j s = ∑ i ∈ range q, B j i * Xof Z' i s)
    (hsol : AnalyticSolved q ltf Hsol k) (hsol' : AnalyticSolved q ltf' Hsol' k) :
    Gen.MISO_analytic_optimal_spectral_analysis q ltf Hsol k = Gen.MISO_analytic_optimal_spectral_analysis q ltf' Hsol' k := by
  rw [gen_analytic_eq_resid q ltf Hsol k K fs S2 Z hq hG hc, gen_analytic_eq_resid q ltf' Hsol' k K fs S2 Z' hq hG' hc]
  have hYf : Yof Z' = Yof Z := funext hY
  have h' := gen_analytic_normal_eq q ltf' Hsol' k K fs S2 Z' hq hG' hsol'
  rw [hYf] at h' ⊢
  rw [Miso.remix_invariant q K _ (Xof Z) (Yof Z) hc A B (Xof Z') hX' hB _ _
    (gen_analytic_normal_eq q ltf Hsol k K fs S2 Z hq hG hsol) h']

end analytic

/-- **analytic = numeric**: both solvers return the same value at every bin (any two solutions of the normal equations give the same
    residual, singular `T` included) -/
theorem gen_solvers_agree (q : ℕ) (ltf : Ltf ℝ) (la : LinAlg ℝ) (Hsol : ℕ → ℕ → Cx ℝ) (K : ℕ → ℕ) (fs : ℝ) (S2 : ℕ → ℝ)
    (Z : ℕ → Chan → ℕ → ℂ) (hq : q ≤ 9) (hq1 : 1 ≤ q) (hG : ∀ k, GramLtf ltf k (K k) fs (S2 k) (Z k)) (hla : LinAlgSound la q)
    (hcons : ∀ k, k < (ltf.auto Chan.out).nf → ∃ H0, NormalEq q (K k) (2 / (fs * S2 k)) (Xof (Z k)) (Yof (Z k)) H0)
    (k : ℕ) (hk : k < (ltf.auto Chan.out).nf) (hc : 0 ≤ 2 / (fs * S2 k)) (hsol : AnalyticSolved q ltf Hsol k) :
    Gen.MISO_numeric_optimal_spectral_analysis q ltf la k = Gen.MISO_analytic_optimal_spectral_analysis q ltf Hsol k := by
  rw [gen_numeric_eq_resid q ltf la K fs S2 Z hq1 hG k hc, gen_analytic_eq_resid q ltf Hsol k (K k) fs (S2 k) (Z k) hq (hG k) hc,
    Miso.solvers_agree q (K k) _ _ _ hc _ _ (gen_numeric_normal_eq q ltf la K fs S2 Z hq1 hG hla hcons k hk)
      (gen_analytic_normal_eq q ltf Hsol k (K k) fs (S2 k) (Z k) hq (hG k) hsol)]

/-! ### SISO -/

theorem gram_CS {ltf : Ltf ℝ} {k K : ℕ} {fs S2 : ℝ} {Z : Chan → ℕ → ℂ} (h : GramLtf ltf k K fs S2 Z) (a b : Chan) :
    CS ((ltf.cross a b).bin k) := by
  refine ⟨?_, ?_, ?_⟩
  · rw [h.cXX]; exact mul_nonneg (by positivity) (Finset.sum_nonneg fun s _ => Complex.normSq_nonneg _)
  · rw [h.cYY]; exact mul_nonneg (by positivity) (Finset.sum_nonneg fun s _ => Complex.normSq_nonneg _)
  · rw [Cx.normSq_eq, h.cXY, h.cXX, h.cYY, Complex.normSq_mul]
    have e : Complex.normSq (1 / (K : ℂ)) = (1 / (K : ℝ)) * (1 / (K : ℝ)) := by
      rw [show (1 / (K : ℂ)) = ((1 / (K : ℝ) : ℝ) : ℂ) by push_cast; rfl, Complex.normSq_ofReal]
    rw [e]
    have cs := cross_cs_complex K (Z a) (Z b)
    have hk : 0 ≤ (1 / (K : ℝ)) * (1 / (K : ℝ)) := by positivity
    calc (1 / (K : ℝ)) * (1 / (K : ℝ)) * Complex.normSq (∑ s ∈ range K, Z a s * (starRingEnd ℂ) (Z b s))
        ≤ (1 / (K : ℝ)) * (1 / (K : ℝ)) * ((∑ s ∈ range K, Complex.normSq (Z a s)) * (∑ s ∈ range K, Complex.normSq (Z b s))) :=
          mul_le_mul_of_nonneg_left cs hk
      _ = _ := by ring

/-- `SISO_optimal_spectral_analysis` calls `ltf([input, output])` (that order) and returns `sqrt(Gyy·(1 − coherence))` of it, for every complex
    cross-spectrum (the source returns `sqrt(GyySx)`: transfer of `residual_identity'`, the repaired D2; the proof also accepts the
    equivalent spellings `sqrt(GyyRx)` and `sqrt(Gyy*(1-coh))`) -/
theorem gen_siso_eq_GyyRx (ltf : Ltf ℝ) (k K : ℕ) (fs S2 : ℝ) (Z : Chan → ℕ → ℂ) (hG : GramLtf ltf k K fs S2 Z)
    (hfs : 0 < fs) (hS2 : 0 ≤ S2) :
    Gen.SISO_optimal_spectral_analysis ltf k
      = Real.sqrt (Gen.Cross.Gyy ((ltf.cross (Chan.inp 0) Chan.out).bin k) * (1 - Gen.Cross.coh ((ltf.cross (Chan.inp 0) Chan.out).bin k))) := by
  simp only [Gen.SISO_optimal_spectral_analysis, Gen.SISO_optimal_spectral_analysis.locals, RL.sqrt_eq]
  congr 1
  first
    | exact residual_identity' _ (gram_CS hG _ _) (by rw [hG.cfs]; exact hfs) (by rw [hG.cS2]; exact hS2)
    | (simp only [Gen.Cross.GyyRx, RL.ofNat_eq]; push_cast; ring)

/-- the numeric solver's value is the least the formula can give: ≤ the residual form at ANY other transfer vector `H'`
    (transfer of `Miso.normal_eq_minimises`; no invertibility of `T` assumed) -/
theorem gen_numeric_minimises (q : ℕ) (ltf : Ltf ℝ) (la : LinAlg ℝ) (K : ℕ → ℕ) (fs : ℝ) (S2 : ℕ → ℝ) (Z : ℕ → Chan → ℕ → ℂ)
    (hq1 : 1 ≤ q) (hG : ∀ k, GramLtf ltf k (K k) fs (S2 k) (Z k)) (hla : LinAlgSound la q)
    (hcons : ∀ k, k < (ltf.auto Chan.out).nf → ∃ H0, NormalEq q (K k) (2 / (fs * S2 k)) (Xof (Z k)) (Yof (Z k)) H0)
    (k : ℕ) (hk : k < (ltf.auto Chan.out).nf) (hc : 0 ≤ 2 / (fs * S2 k)) (H' : ℕ → ℂ) :
    Gen.MISO_numeric_optimal_spectral_analysis q ltf la k
      ≤ Real.sqrt (Miso.resid q (K k) (2 / (fs * S2 k)) (Xof (Z k)) (Yof (Z k)) H').re := by
  rw [gen_numeric_eq_resid q ltf la K fs S2 Z hq1 hG k hc]
  exact Real.sqrt_le_sqrt (Miso.normal_eq_minimises q (K k) _ _ _ hc _ H'
    (gen_numeric_normal_eq q ltf la K fs S2 Z hq1 hG hla hcons k hk))

/-- re-mixing the inputs by an invertible matrix (permutations included) does not change what the numeric solver returns -/
theorem gen_numeric_remix_invariant (q : ℕ) (ltf ltf' : Ltf ℝ) (la la' : LinAlg ℝ) (K : ℕ → ℕ) (fs : ℝ) (S2 : ℕ → ℝ)
    (Z Z' : ℕ → Chan → ℕ → ℂ) (hq1 : 1 ≤ q)
    (hG : ∀ k, GramLtf ltf k (K k) fs (S2 k) (Z k)) (hG' : ∀ k, GramLtf ltf' k (K k) fs (S2 k) (Z' k))
    (hla : LinAlgSound la q) (hla' : LinAlgSound la' q)
    (hcons : ∀ k, k < (ltf.auto Chan.out).nf → ∃ H0, NormalEq q (K k) (2 / (fs * S2 k)) (Xof (Z k)) (Yof (Z k)) H0)
    (hcons' : ∀ k, k < (ltf'.auto Chan.out).nf → ∃ H0, NormalEq q (K k) (2 / (fs * S2 k)) (Xof (Z' k)) (Yof (Z' k)) H0)
    (k : ℕ) (hk : k < (ltf.auto Chan.out).nf) (hk' : k < (ltf'.auto Chan.out).nf) (hc : 0 ≤ 2 / (fs * S2 k))
    (A B : ℕ → ℕ → ℂ) (hY : ∀ s, Yof (Z' k) s = Yof (Z k) s)
    (hX' : ∀ i, i < q → ∀ s, s < K k → Xof (Z' k) i s = ∑ j ∈ range q, A i j * Xof (Z k) j s)
    (hB : ∀ j, j < q → ∀ s, s < K k → Xof (Z k) j s = ∑ i ∈ range q, B j i * Xof (Z' k) i s) :
    Gen.MISO_numeric_optimal_spectral_analysis q ltf la k = Gen.MISO_numeric_optimal_spectral_analysis q ltf' la' k := by
  rw [gen_numeric_eq_resid q ltf la K fs S2 Z hq1 hG k hc, gen_numeric_eq_resid q ltf' la' K fs S2 Z' hq1 hG' k hc]
  have hYf : Yof (Z' k) = Yof (Z k) := funext hY
  have h' := gen_numeric_normal_eq q ltf' la' K fs S2 Z' hq1 hG' hla' hcons' k hk'
  rw [hYf] at h' ⊢
  rw [Miso.remix_invariant q (K k) _ (Xof (Z k)) (Yof (Z k)) hc A B (Xof (Z' k)) hX' hB _ _
    (gen_numeric_normal_eq q ltf la K fs S2 Z hq1 hG hla hcons k hk) h']

/-- single input: the SISO function and ANY solution of the one-dimensional normal equation give the same value, whenever the input's
    spectrum does not vanish at the bin (transfer of `Miso.siso_case` + `residual_identity'`) -/
theorem gen_siso_eq_miso_q1 (ltf : Ltf ℝ) (k K : ℕ) (fs S2 : ℝ) (Z : Chan → ℕ → ℂ) (hG : GramLtf ltf k K fs S2 Z)
    (hfs : 0 < fs) (hS2 : 0 < S2) (hX : (Miso.T K (2 / (fs * S2)) (Xof Z) 0 0).re ≠ 0)
    (H : ℕ → ℂ) (hH : NormalEq 1 K (2 / (fs * S2)) (Xof Z) (Yof Z) H) :
    Gen.SISO_optimal_spectral_analysis ltf k = Real.sqrt (Miso.resid 1 K (2 / (fs * S2)) (Xof Z) (Yof Z) H).re := by
  have hc : (0 : ℝ) ≤ 2 / (fs * S2) := by positivity
  rw [gen_siso_eq_GyyRx ltf k K fs S2 Z hG hfs hS2.le]
  congr 1
  have h1 : Miso.T K (2 / (fs * S2)) (Xof Z) 0 0 * H 0 = Miso.S K (2 / (fs * S2)) (Xof Z) (Yof Z) 0 := by
    have := hH 0 (by omega); simpa using this
  have hs := Miso.siso_case K (2 / (fs * S2)) (Xof Z) (Yof Z) hc H h1
  -- the same identity for Gyy·(1 − coh), from the Gram form of the two-channel analysis
  set d := (ltf.cross (Chan.inp 0) Chan.out).bin k with hd
  have hcs := gram_CS hG (Chan.inp 0) Chan.out
  obtain ⟨hxx, hyy, hcsi⟩ := hcs
  have eT : (Miso.T K (2 / (fs * S2)) (Xof Z) 0 0).re = 2 / (fs * S2) * d.XX := by
    rw [hG.cXX]
    have : Miso.T K (2 / (fs * S2)) (Xof Z) 0 0
        = (((2 / (fs * S2)) * ((1 / (K : ℝ)) * ∑ s ∈ range K, Complex.normSq (Z (Chan.inp 0) s)) : ℝ) : ℂ) := by
      simp only [Miso.T, Xof, Complex.mul_conj]; push_cast; rfl
    rw [this, Complex.ofReal_re]
  have e00 : Miso.S00 K (2 / (fs * S2)) (Yof Z) = 2 / (fs * S2) * d.YY := by
    rw [hG.cYY]; rfl
  have eS : Complex.normSq (Miso.S K (2 / (fs * S2)) (Xof Z) (Yof Z) 0) = (2 / (fs * S2)) ^ 2 * Cx.normSq d.XY := by
    rw [Cx.normSq_eq, hG.cXY, Miso.S, Complex.normSq_mul, Complex.normSq_ofReal]; simp only [Xof, Yof]; ring
  have eg : Gen.Cross.Gyy d * (1 - Gen.Cross.coh d) = 2 / (fs * S2) * (d.YY * (1 - Cx.normSq d.XY / (d.XX * d.YY))) := by
    rw [AttrsA.cGyy, AttrsA.ccoh, hG.cfs, hG.cS2]; ring
  rw [eT, e00, eS] at hs
  rw [eT] at hX
  have hxx0 : d.XX ≠ 0 := fun h => hX (by rw [h]; ring)
  have hc0 : (2 / (fs * S2)) ≠ 0 := fun h => hX (by rw [h]; ring)
  rw [eg]
  apply mul_left_cancel₀ hX
  rw [hs]
  by_cases hy0 : d.YY = 0
  · have hcsi' : Cx.normSq d.XY ≤ d.XX * d.YY := hcsi
    have : Cx.normSq d.XY = 0 := le_antisymm (by rw [hy0, mul_zero] at hcsi'; exact hcsi') (AttrsA.normSq_nonneg _)
    rw [hy0, this]; ring
  · field_simp

/-! ### the hypotheses are satisfiable: concrete instances -/

namespace MisoGen
open ComplexConjugate

/-- an `ltf` whose results have the Gram structure of given per-segment DFTs (any number of bins / segments) -/
noncomputable def ltfOf (nf : ℕ) (K : ℕ → ℕ) (fs : ℝ) (S2 : ℕ → ℝ) (Z : ℕ → Chan → ℕ → ℂ) : Ltf ℝ where
  auto a := ⟨nf, fun k =>
    { XX := (1 / (K k : ℝ)) * ∑ s ∈ range (K k), Complex.normSq (Z k a s),
      YY := (1 / (K k : ℝ)) * ∑ s ∈ range (K k), Complex.normSq (Z k a s),
      XY := ofC ((1 / (K k : ℂ)) * ∑ s ∈ range (K k), Z k a s * conj (Z k a s)),
      S12 := 1, S2 := S2 k, M2 := 0, navg := K k, fs := fs }⟩
  cross a b := ⟨nf, fun k =>
    { XX := (1 / (K k : ℝ)) * ∑ s ∈ range (K k), Complex.normSq (Z k a s),
      YY := (1 / (K k : ℝ)) * ∑ s ∈ range (K k), Complex.normSq (Z k b s),
      XY := ofC ((1 / (K k : ℂ)) * ∑ s ∈ range (K k), Z k a s * conj (Z k b s)),
      S12 := 1, S2 := S2 k, M2 := 0, navg := K k, fs := fs }⟩

theorem ltfOf_gram (nf : ℕ) (K : ℕ → ℕ) (fs : ℝ) (S2 : ℕ → ℝ) (Z : ℕ → Chan → ℕ → ℂ) (k : ℕ) :
    GramLtf (ltfOf nf K fs S2 Z) k (K k) fs (S2 k) (Z k) :=
  ⟨fun _ _ => rfl, fun _ _ => rfl, fun _ _ => rfl, fun _ _ => rfl, fun _ _ => rfl, fun _ => rfl, fun _ => rfl, fun _ => rfl⟩

/-- two inputs, three segments, complex DFT values with a phase between input 0 and the output -/
def Z0 : ℕ → Chan → ℕ → ℂ := fun k c s =>
  match c with
  | Chan.inp i => ⟨(i : ℝ) + s + 1, (k : ℝ) - s⟩
  | Chan.out => ⟨2 * s + 1, (s : ℝ) + k⟩

/-- `GramLtf`, `0 ≤ 2/(fs·S2)`: satisfied by a concrete non-degenerate instance (5 bins, 3 segments, fs = 2, S2 = 3) -/
example : (∀ k, GramLtf (ltfOf 5 (fun _ => 3) 2 (fun _ => 3) Z0) k 3 2 3 (Z0 k)) ∧ (0 : ℝ) ≤ 2 / (2 * 3) :=
  ⟨fun k => ltfOf_gram 5 (fun _ => 3) 2 (fun _ => 3) Z0 k, by norm_num⟩

/-- a `np.linalg` that satisfies the contract for one input: `solve` raises, `pinv(T) = 1/T` (0 if `T = 0`) -/
noncomputable def la1 : LinAlg ℝ where
  cond _ _ := none
  pinv _ T := fun _ _ => ofC ((Cx.toC (T 0 0))⁻¹)
  solve _ _ _ := none

example : LinAlgSound la1 1 := by
  intro T S ⟨H0, hH0⟩
  refine ⟨fun H h => by simp [la1] at h, ?_⟩
  intro i hi
  have hi0 : i = 0 := by omega
  subst hi0
  have h0 := hH0 0 (by omega)
  simp only [Finset.sum_range_one] at h0 ⊢
  rw [matVec_toC]
  simp only [Finset.sum_range_one, la1, toC_ofC]
  by_cases hT : Cx.toC (T 0 0) = 0
  · rw [hT] at h0 ⊢; rw [← h0]; ring
  · field_simp

/-- the equations of the analytic solver, in terms of the stored spectra -/
theorem analytic_eqns_toC (q : ℕ) (ltf : Ltf ℝ) (Hsol : ℕ → ℕ → Cx ℝ) (hq : q ≤ 9) (k i : ℕ) (hi : i < q) :
    Cx.toC (Gen.MISO_analytic_optimal_spectral_analysis.eqns q (fun key => aDict q ltf Hsol key k) i)
      = Cx.toC (Sval ltf i k) - ∑ j ∈ range q, Cx.toC (Tval ltf i j k) * Cx.toC (Hsol j k) := by
  unfold Gen.MISO_analytic_optimal_spectral_analysis.eqns
  simp only [Cx.toC_sub, Cx.toC_add, pySum_toC, Cx.toC_mul, Skey_def', Tkey_def, Hkey_def', Hkey_def, Skey_def]
  rw [(analytic_S q ltf Hsol hq i hi).1]
  congr 1
  exact Finset.sum_congr rfl fun j hj => by
    rw [analytic_T q ltf Hsol hq i j hi (Finset.mem_range.mp hj), analytic_H q ltf Hsol hq j (Finset.mem_range.mp hj)]

/-- one input, one segment, X = 1, Y = 2, fs = 1, S2 = 2 (c = 1): T = 1, S = 2; the stored solution H = 2 satisfies the SymPy contract,
    and the normal equation is solvable -/
def Z1 : ℕ → Chan → ℕ → ℂ := fun _ c _ => match c with | Chan.inp _ => 1 | Chan.out => 2

example : AnalyticSolved 1 (ltfOf 1 (fun _ => 1) 1 (fun _ => 2) Z1) (fun _ _ => ofC 2) 0
    ∧ NormalEq 1 1 (2 / (1 * 2)) (Xof (Z1 0)) (Yof (Z1 0)) (fun _ => 2) := by
  have hG := ltfOf_gram 1 (fun _ => 1) 1 (fun _ => 2) Z1 0
  constructor
  · intro i hi
    have hi0 : i = 0 := by omega
    subst hi0
    rw [analytic_eqns_toC 1 _ _ (by omega) 0 0 (by omega), gram_Sval hG, Finset.sum_range_one, gram_Tval hG]
    simp [Miso.S, Miso.T, Xof, Yof, Z1, map_ofNat]
  · intro i hi
    have hi0 : i = 0 := by omega
    subst hi0
    simp [Miso.S, Miso.T, Xof, Yof, Z1, map_ofNat]

end MisoGen


/-! ### negation witnesses: where the concatenated-digit key scheme is ambiguous (checked facts, not comments) -/

/-- the ANALYTIC solver's key scheme `f"T{i+1}{j+1}"` (the translated key function, `MisoGen.Tkey_def`) is ambiguous from eleven inputs
    on: `T{1}{11}` and `T{11}{1}` are both the string `"T111"`.  (SymPy cannot run at q ≥ 11, so this cannot be exhibited on the real code;
    the analytic theorems are stated for q ≤ 9.) -/
theorem analytic_key_collision :
    MisoGen.Tkey 0 10 = MisoGen.Tkey 10 0 ∧ MisoGen.Tkey 0 10 = ['T', '1', '1', '1'] ∧ ((0 : ℕ), (10 : ℕ)) ≠ (10, 0) :=
  ⟨by decide, by decide, by decide⟩

/-- … and what the translated code does with it: with 11 inputs the row loop of input 1 stores `Gxy` under `"T111"` and immediately
    overwrites it with `conj(Gxy)` (the store meant for `T{11}{1}`), so the entry read as `T_{1,11}` holds the conjugate -/
theorem analytic_T_1_11_holds_conjugate (ltf : Ltf ℝ) (Hsol : ℕ → ℕ → Cx ℝ) (d : Dict ℝ) :
    Gen.MISO_analytic_optimal_spectral_analysis.loop3 11 ltf Hsol d 0 (MisoGen.Tkey 0 10)
      = fun k => Cx.conj (Gen.Cross.Gxy ((ltf.cross (Chan.inp 0) (Chan.inp 10)).bin k)) := by
  unfold Gen.MISO_analytic_optimal_spectral_analysis.loop3 forRangeFrom
  rw [show 11 - (0 + 1) = 9 + 1 from rfl, forRange_succ]
  simp only [MisoGen.Tkey_def]
  have e : MisoGen.Tkey 0 10 = MisoGen.Tkey (0 + 1 + 9) 0 := by decide
  rw [e]
  exact MisoGen.dict_set_same _ _ _

/-- the OLD numeric scheme (before speckit commit a8eaa1b: `f"T{i+1}{j+1}"` as memoisation key of the pairs i < j): the pairs (1,112) and
    (11,12) share the key `"T1112"`, so from 112 inputs on `get_ltf_result` returned the spectrum of another pair (defect D14).  With the
    separator the key determines the pair for ALL indices: `MisoGen.NTkey_inj`. -/
theorem old_numeric_key_collision :
    MisoGen.Tkey 0 111 = MisoGen.Tkey 10 11 ∧ (0 : ℕ) < 111 ∧ (10 : ℕ) < 11 ∧ ((0 : ℕ), (111 : ℕ)) ≠ (10, 11) :=
  ⟨by decide, by decide, by decide, by decide⟩

#print axioms gen_numeric_eq_model
#print axioms gen_analytic_eq_model
#print axioms MisoGen.numeric_assembly
#print axioms MisoGen.analytic_T
#print axioms MisoGen.analytic_S
#print axioms MisoGen.analytic_S00
#print axioms MisoGen.analytic_H
#print axioms MisoGen.numeric_H_solves
#print axioms MisoGen.analytic_H_solves
#print axioms gen_numeric_eq_resid
#print axioms gen_numeric_is_norm
#print axioms gen_numeric_normal_eq
#print axioms gen_numeric_le_output
#print axioms gen_numeric_minimises
#print axioms gen_numeric_exact_combination_zero
#print axioms gen_numeric_remix_invariant
#print axioms gen_analytic_eq_resid
#print axioms gen_analytic_normal_eq
#print axioms gen_analytic_le_output
#print axioms gen_analytic_exact_combination_zero
#print axioms gen_analytic_remix_invariant
#print axioms gen_solvers_agree
#print axioms gen_siso_eq_GyyRx
#print axioms gen_siso_eq_miso_q1
#print axioms MisoGen.abs_csqrt
#print axioms MisoGen.NTkey_inj
#print axioms MisoGen.Skey_inj'
#print axioms analytic_key_collision
#print axioms analytic_T_1_11_holds_conjugate
#print axioms old_numeric_key_collision
