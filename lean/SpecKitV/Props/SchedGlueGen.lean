/-
  Props/SchedGlueGen — the machine-translated GLUE of speckit/schedulers.py (`Gen/SchedGlue.lean`, regenerated from the source on every
  run by vk/regions/sched_glue.py): `_require_args`; `lpsd_plan`'s forwarding; for `ltf_plan`, `vectorized_ltf_plan`, `new_ltf_plan`
  the unpacking of the keyword dictionary, the statements after the frequency walk (for `ltf_plan`: `navg` bookkeeping, the start
  positions per bin, the third loop "Compute the actual overlaps") and the OUTPUT DICTIONARY — composed with the translated walks /
  start positions / closed-form post-processing of region Sched at the positions the source has them.

  Main results (α := ℝ, every fuel, every keyword dictionary that binds the seven names; no other hypothesis):
    `gen_ltf_plan_eq_model`   Gen.ltf_plan args            = some (planDict (Model.ltfPlan c))   (none iff the plan is empty: sys.exit)
    `gen_vec_plan_eq_model`   Gen.vectorized_ltf_plan args = some (planDict (Model.vecPlan c))
    `gen_new_plan_eq_model`   Gen.new_ltf_plan args        = some (planDict (Model.newPlan c))
    `gen_lpsd_plan_eq_ltf`, `gen_lpsd_plan_eq_model`
                              Gen.lpsd_plan args = Gen.ltf_plan (args with bmin := 1.0, Lmin := 1 stored last) = planDict (Model.lpsdPlan c)
                              whatever `args` holds (or does not hold) under "bmin" / "Lmin"
  where `planDict bins` says what every key must hold: "f" "r" "b" the bins' f r b, "m" the bin number b again, "L" "K" the bins' L K,
  "navg" the bins' navg (= K), "D" the bins' start lists, "O" the bins' overlaps, "nf" the number of bins.  So a published value that is
  not the model's (a swapped key, `navg` from another count, overlaps of the wrong sign, the caller's bmin winning, two names exchanged in
  the unpacking) breaks these equalities.  Inside `gen_ltf_post_eq` (step `hb3`, through `overlapMean_eq_sum` / `overlapMean_short`):
  the third loop's `np.mean((L - (indices[1:] - indices[:-1])) / L)`, `0.0` for a single segment, is `Model.overlapMean`.

  Hypotheses: `HasCfg args c` — the dictionary binds N, Lmin, Jdes, Kdes to Python ints and fs, olap, bmin to numbers, with the values of
  the model configuration `c` (naturals for the four counts, as everywhere in Props/C02–C04; a missing name is the TypeError case:
  `gen_plan_missing_key`, `gen_lpsd_missing_key`).  `HasCfg5` for `lpsd_plan` asks nothing about "bmin", "Lmin".
  Transfer corollaries (`gen_*_plan_props`, `gen_plan_wiring`, `gen_plan_overlap_key`): the theorems of Props/C02, C03, C04, C04Vec,
  C04New restated for the dictionary the translated code returns.
-/
import SpecKitV.RealInst
import SpecKitV.Gen.SchedGlue
import SpecKitV.Model.Sched
import SpecKitV.Props.SchedGen
import SpecKitV.Props.VecGen
import SpecKitV.Props.StartsGen
import SpecKitV.Props.PostGen
import SpecKitV.Props.C04
import SpecKitV.Props.C04New
import SpecKitV.Props.C04Vec

set_option linter.unusedVariables false

namespace SchedGlue

/-! ### keyword dictionaries -/

theorem get?_set_self {β : Type} (d : Py.Dict β) (k : String) (v : β) : Py.Dict.get? (Py.Dict.set d k v) k = some v := by
  simp [Py.Dict.get?, Py.Dict.set, List.lookup]

theorem get?_set_ne {β : Type} (d : Py.Dict β) (k k' : String) (v : β) (h : k' ≠ k) :
    Py.Dict.get? (Py.Dict.set d k v) k' = Py.Dict.get? d k' := by
  have : (k' == k) = false := by simpa using h
  simp [Py.Dict.get?, Py.Dict.set, List.lookup, this]

theorem get?_copy {β : Type} (d : Py.Dict β) (k : String) : Py.Dict.get? (Py.Dict.copy d) k = Py.Dict.get? d k := rfl

/-- reading after a store: the stored value under the stored name, the old binding under every other name -/
theorem get?_set {β : Type} (d : Py.Dict β) (k k' : String) (v : β) :
    Py.Dict.get? (Py.Dict.set d k v) k' = if k' = k then some v else Py.Dict.get? d k' := by
  by_cases h : k' = k
  · subst h; rw [if_pos rfl, get?_set_self]
  · rw [if_neg h, get?_set_ne _ _ _ _ h]

theorem mapM_congr_mem {γ δ : Type} (f g : γ → Option δ) (l : List γ) (h : ∀ a ∈ l, f a = g a) : l.mapM f = l.mapM g := by
  induction l with
  | nil => rfl
  | cons x t ih =>
    rw [List.mapM_cons, List.mapM_cons, h x (List.mem_cons_self), ih (fun a ha => h a (List.mem_cons_of_mem _ ha))]

theorem mapM_none_of_mem {γ δ : Type} (f : γ → Option δ) (l : List γ) (a : γ) (h : a ∈ l) (hf : f a = none) :
    l.mapM f = none := by
  induction l with
  | nil => cases h
  | cons x t ih =>
    rw [List.mapM_cons]
    rcases List.mem_cons.mp h with rfl | h'
    · simp [hf]
    · cases hx : f x <;> simp [ih h']


/-! ### `np.array(list)`, the list view, slices -/

theorem ofList_n {β : Type} (d : β) (l : List β) : (NpSG.ofList d l).n = l.length := by
  simp [NpSG.ofList]

theorem ofList_get {β : Type} (d : β) (l : List β) (i : ℕ) : (NpSG.ofList d l).get i = l.getD i d := by
  simp [NpSG.ofList, Array.getD_eq_getD_getElem?, List.getD_eq_getElem?_getD]

theorem map_range_of_get {γ δ : Type} (l : List γ) (F : ℕ → δ) (G : γ → δ)
    (h : ∀ j (hj : j < l.length), F j = G l[j]) : (List.range l.length).map F = l.map G := by
  apply List.ext_getElem
  · simp
  · intro i h1 h2
    simp only [List.getElem_map, List.getElem_range]
    exact h i (by simpa using h2)

theorem toList_ofList {β : Type} (d : β) (l : List β) : NpSG.toList (NpSG.ofList d l) = l := by
  unfold NpSG.toList
  rw [ofList_n]
  have := map_range_of_get l (NpSG.ofList d l).get id (fun j hj => by
    rw [ofList_get, List.getD_eq_getElem?_getD, List.getElem?_eq_getElem hj]; rfl)
  simpa using this

theorem toList_mk {β : Type} (n : ℕ) (g : ℕ → β) : NpSG.toList ⟨n, g⟩ = (List.range n).map g := rfl

theorem slice_from_one_n {β : Type} (a : Arr β) : (NpSG.slice a (some 1) none).n = a.n - 1 := by
  simp only [NpSG.slice, NpSG.sliceBound]
  norm_num
  omega

theorem slice_from_one_get {β : Type} (a : Arr β) (i : ℕ) (h : 1 ≤ a.n) : (NpSG.slice a (some 1) none).get i = a.get (1 + i) := by
  simp only [NpSG.slice, NpSG.sliceBound]
  norm_num
  congr 1
  omega

theorem slice_to_m1_n {β : Type} (a : Arr β) : (NpSG.slice a none (some (-1))).n = a.n - 1 := by
  simp only [NpSG.slice, NpSG.sliceBound]
  norm_num
  omega

theorem slice_to_m1_get {β : Type} (a : Arr β) (i : ℕ) : (NpSG.slice a none (some (-1))).get i = a.get i := by
  simp [NpSG.slice, NpSG.sliceBound]


/-! ### loops that append -/

/-- a `for j in range(n)` loop whose body appends `val j` to a list computes the list of the `val j` -/
theorem forRange_append {β : Type} (n : ℕ) (body : ℕ → List β → List β) (val : ℕ → β) (init : List β)
    (hb : ∀ j, j < n → ∀ O, body j O = O ++ [val j]) : forRange n init body = init ++ (List.range n).map val := by
  induction n with
  | zero => simp [forRange_zero]
  | succ k ih =>
    rw [forRange_succ, ih (fun j hj => hb j (by omega)), hb k (by omega), List.range_succ]
    simp

/-- the same with a list carried unchanged between two lists that grow -/
theorem forRange_append3 {β γ δ : Type} (n : ℕ) (L0 : List γ) (body : ℕ → (List β × List γ × List δ) → (List β × List γ × List δ))
    (d : ℕ → β) (a : ℕ → δ) (D0 : List β) (nv0 : List δ)
    (hb : ∀ j, j < n → ∀ D nv, body j (D, L0, nv) = (D ++ [d j], L0, nv ++ [a j])) :
    forRange n (D0, L0, nv0) body = (D0 ++ (List.range n).map d, L0, nv0 ++ (List.range n).map a) := by
  induction n with
  | zero => simp [forRange_zero]
  | succ k ih =>
    rw [forRange_succ, ih (fun j hj => hb j (by omega)), hb k (by omega), List.range_succ]
    simp

theorem sum_map_range (n : ℕ) (g : ℕ → ℝ) : ((List.range n).map g).sum = ∑ i ∈ Finset.range n, g i := by
  induction n with
  | zero => simp
  | succ k ih => rw [List.range_succ, List.map_append, List.sum_append, ih, Finset.sum_range_succ]; simp

theorem zip_tail (l : List ℤ) :
    List.zip l l.tail = (List.range (l.length - 1)).map (fun i => (l.getD i 0, l.getD (1 + i) 0)) := by
  apply List.ext_getElem
  · simp
  · intro i h1 h2
    simp only [List.length_zip, List.length_tail] at h1
    simp only [List.getElem_zip, List.getElem_tail, List.getElem_map, List.getElem_range]
    have h3 : i < l.length := by omega
    have h4 : 1 + i < l.length := by omega
    rw [List.getD_eq_getElem?_getD, List.getD_eq_getElem?_getD, List.getElem?_eq_getElem h3, List.getElem?_eq_getElem h4]
    simp [Nat.add_comm]

/-- the model's realised mean overlap as a finite sum over consecutive starts -/
theorem overlapMean_eq_sum (l : ℕ) (d : List ℤ) (h : 1 < d.length) :
    Model.overlapMean (α := ℝ) l d
      = (∑ i ∈ Finset.range (d.length - 1), ((((l : ℤ) - (d.getD (1 + i) 0 - d.getD i 0) : ℤ) : ℝ) / ((l : ℤ) : ℝ)))
          / ((d.length - 1 : ℕ) : ℝ) := by
  match d, h with
  | d0 :: d1 :: rest, _ =>
    unfold Model.overlapMean
    simp only [foldl_add_eq_sum, RL.ofInt_eq, RL.ofNat_eq, List.map_map, List.length_map]
    have hz := zip_tail (d0 :: d1 :: rest)
    simp only [List.tail_cons] at hz
    rw [hz, List.map_map, sum_map_range]
    simp

theorem overlapMean_short (l : ℕ) (d : List ℤ) (h : ¬ 1 < d.length) : Model.overlapMean (α := ℝ) l d = 0 := by
  match d, h with
  | [], _ => simp [Model.overlapMean]
  | [_], _ => simp [Model.overlapMean]
  | _ :: _ :: _, h => simp at h

/-! ### the record view of a model plan -/

/-- the dictionary of a plan given bin by bin: what each key of the output dictionary must hold -/
noncomputable def planDict (bins : List (Model.Bin ℝ)) : Py.PlanDict ℝ :=
  { f := bins.map (·.f), r := bins.map (·.r), b := bins.map (·.b), m := bins.map (·.b),
    L := bins.map (fun x => (x.L : ℤ)), K := bins.map (·.K), navg := bins.map (·.navg),
    D := bins.map (·.D), O := bins.map (·.O), nf := bins.length }

theorem set_getD_self {β : Type} (l : List β) (j : ℕ) (d : β) : l.set j (l.getD j d) = l := by
  apply List.ext_getElem
  · simp
  · intro i h1 h2
    rw [List.getElem_set]
    split_ifs with h
    · subst h
      rw [List.getD_eq_getElem?_getD, List.getElem?_eq_getElem h2]; rfl
    · rfl

theorem getD_map_lt {γ β : Type} (l : List γ) (a : γ → β) (d : β) (j : ℕ) (hj : j < l.length) : (l.map a).getD j d = a l[j] := by
  rw [List.getD_eq_getElem?_getD, List.getElem?_eq_getElem (by simpa using hj)]
  simp

theorem gen_ltf_post_eq (Nn : ℕ) (bins : List (Model.Bin ℝ))
    (hshape : ∀ b ∈ bins, b.navg = b.K ∧ b.D = Model.startsAccum (α := ℝ) Nn b.L b.K ∧ b.O = Model.overlapMean (α := ℝ) b.L b.D)
    (fs olap bmin : ℝ) (Lmin Jdes Kdes : ℤ) :
    Gen.ltf_plan_glue_post (Nn : ℤ) fs olap bmin Lmin Jdes Kdes (bins.map (·.f)) (bins.map (·.r)) (bins.map (·.b))
      (bins.map (fun b => (b.L : ℤ))) (bins.map (·.K)) = if bins = [] then none else some (planDict bins) := by
  unfold Gen.ltf_plan_glue_post
  simp only [List.length_map]
  rw [forRange_append3 bins.length _ _ (fun j => Gen.ltf_plan_starts (α := ℝ) (Nn : ℤ) ((bins.map (fun b => (b.L : ℤ))).getD j 0) ((bins.map (·.K)).getD j 0))
    (fun j => (bins.map (·.K)).getD j 0) [] [] ?hb2]
  case hb2 =>
    intro j hj D nv
    simp only [set_getD_self]
  have hD : (List.range bins.length).map (fun j => Gen.ltf_plan_starts (α := ℝ) (Nn : ℤ) ((bins.map (fun b => (b.L : ℤ))).getD j 0) ((bins.map (·.K)).getD j 0))
      = bins.map (·.D) := by
    apply map_range_of_get
    intro j hj
    rw [getD_map_lt _ _ _ _ hj, getD_map_lt _ _ _ _ hj, gen_ltf_starts_eq_model, (hshape _ (List.getElem_mem hj)).2.1]
  have hK : (List.range bins.length).map (fun j => (bins.map (·.K)).getD j 0) = bins.map (·.K) := by
    apply map_range_of_get
    intro j hj
    rw [getD_map_lt _ _ _ _ hj]
  simp only [List.nil_append, hD, hK]
  rw [forRange_append bins.length _ (fun j => Model.overlapMean (α := ℝ) ((bins.map (·.L)).getD j 0) ((bins.map (·.D)).getD j [])) [] ?hb3]
  case hb3 =>
    intro j hj O
    have hLj : (bins.map (fun b => (b.L : ℤ))).getD j 0 = (((bins.map (·.L)).getD j 0 : ℕ) : ℤ) := by
      rw [getD_map_lt _ _ _ _ hj, getD_map_lt _ _ _ _ hj]
    rw [hLj]
    generalize (bins.map (·.L)).getD j 0 = l
    generalize (bins.map (·.D)).getD j [] = d
    simp only [Arr.memo_eq, ofList_n, slice_from_one_n, slice_to_m1_get, ofList_get, Arr.mean, sumRange_eq_sum,
      RL.ofInt_eq, RL.ofNat_eq, RL.ofSci_eq, gt_iff_lt, decide_eq_true_eq]
    by_cases hlen : 1 < d.length
    · rw [if_pos hlen, overlapMean_eq_sum _ _ hlen]
      congr 3
      apply Finset.sum_congr rfl
      intro i hi
      rw [slice_from_one_get _ _ (by rw [ofList_n]; omega), ofList_get]
    · rw [if_neg hlen, overlapMean_short _ _ hlen]
      norm_num
  have hO : (List.range bins.length).map (fun j => Model.overlapMean (α := ℝ) ((bins.map (·.L)).getD j 0) ((bins.map (·.D)).getD j []))
      = bins.map (·.O) := by
    apply map_range_of_get
    intro j hj
    rw [getD_map_lt _ _ _ _ hj, getD_map_lt _ _ _ _ hj, (hshape _ (List.getElem_mem hj)).2.2]
  have hnavg : bins.map (·.K) = bins.map (·.navg) := List.map_congr_left (fun b hb => (hshape b hb).1.symm)
  simp only [List.nil_append, hO, toList_ofList, ofList_n, List.length_map, decide_eq_true_eq]
  by_cases hb : bins = []
  · subst hb
    simp
  · have hlen : bins.length ≠ 0 := fun h => hb (List.length_eq_zero_iff.mp h)
    rw [if_neg hlen, if_neg hb]
    simp only [planDict, ← hnavg]


theorem vec_post_D_n (N : ℤ) (L K : Arr ℤ) : (Gen.vectorized_ltf_plan_post (α := ℝ) N L K).2.1.n = K.n := rfl
theorem vec_post_O_n (N : ℤ) (L K : Arr ℤ) : (Gen.vectorized_ltf_plan_post (α := ℝ) N L K).2.2.n = L.n := rfl

/-- the list view of the translated closed-form `D`, `O` for plan lists `L`, `K` given bin by bin -/
theorem vec_post_views (Nn : ℕ) (bins : List (Model.Bin ℝ)) :
    let g := Gen.vectorized_ltf_plan_post (α := ℝ) (Nn : ℤ) (NpSG.ofList 0 (bins.map (fun b => (b.L : ℤ)))) (NpSG.ofList 0 (bins.map (·.K)))
    NpSG.toList2 g.2.1 = bins.map (fun b => Model.startsEven (α := ℝ) Nn b.L b.K) ∧
    NpSG.toList g.2.2 = bins.map (fun b => Model.overlapClosed (α := ℝ) Nn b.L b.K) := by
  intro g
  have hget : ∀ j (hj : j < bins.length),
      (List.range (g.2.1.get j).n).map (g.2.1.get j).get = Model.startsEven (α := ℝ) Nn bins[j].L bins[j].K ∧
      g.2.2.get j = Model.overlapClosed (α := ℝ) Nn bins[j].L bins[j].K := by
    intro j hj
    have hL : (NpSG.ofList (0 : ℤ) (bins.map (fun b => (b.L : ℤ)))).get j = ((bins[j].L : ℕ) : ℤ) := by
      rw [ofList_get, getD_map_lt _ _ _ _ hj]
    have hK : (NpSG.ofList (0 : ℤ) (bins.map (·.K))).get j = bins[j].K := by
      rw [ofList_get, getD_map_lt _ _ _ _ hj]
    have h := gen_vec_post_eq_model Nn (NpSG.ofList 0 (bins.map (fun b => (b.L : ℤ)))) (NpSG.ofList 0 (bins.map (·.K))) j bins[j].L hL
    rw [hK] at h
    exact ⟨h.2.2.1, h.2.2.2⟩
  constructor
  · unfold NpSG.toList2 NpSG.toList
    rw [List.map_map]
    have hn : g.2.1.n = bins.length := by
      show (NpSG.ofList (0 : ℤ) (bins.map (·.K))).n = bins.length
      rw [ofList_n, List.length_map]
    rw [hn]
    apply map_range_of_get
    intro j hj
    exact (hget j hj).1
  · unfold NpSG.toList
    have hn : g.2.2.n = bins.length := by
      show (NpSG.ofList (0 : ℤ) (bins.map (fun b => (b.L : ℤ)))).n = bins.length
      rw [ofList_n, List.length_map]
    rw [hn]
    apply map_range_of_get
    intro j hj
    exact (hget j hj).2

theorem gen_vec_post_glue_eq (Nn : ℕ) (bins : List (Model.Bin ℝ))
    (hshape : ∀ b ∈ bins, b.b = b.f / b.r ∧ b.navg = b.K ∧ b.D = Model.startsEven (α := ℝ) Nn b.L b.K ∧
      b.O = Model.overlapClosed (α := ℝ) Nn b.L b.K)
    (fs olap bmin : ℝ) (Lmin Jdes Kdes : ℤ) :
    Gen.vectorized_ltf_plan_glue_post (Nn : ℤ) fs olap bmin Lmin Jdes Kdes (bins.map (·.f)) (bins.map (·.r))
      (bins.map (fun b => (b.L : ℤ))) (bins.map (·.K)) = some (planDict bins) := by
  unfold Gen.vectorized_ltf_plan_glue_post
  have hv := vec_post_views Nn bins
  simp only at hv
  have hb : (List.range bins.length).map (fun i => (bins.map (·.f)).getD i (0 : ℝ) / (bins.map (·.r)).getD i (0 : ℝ)) = bins.map (·.b) := by
    apply map_range_of_get
    intro j hj
    rw [getD_map_lt _ _ _ _ hj, getD_map_lt _ _ _ _ hj, (hshape _ (List.getElem_mem hj)).1]
  have hD : bins.map (fun b => Model.startsEven (α := ℝ) Nn b.L b.K) = bins.map (·.D) :=
    List.map_congr_left (fun b hb => (hshape b hb).2.2.1.symm)
  have hO : bins.map (fun b => Model.overlapClosed (α := ℝ) Nn b.L b.K) = bins.map (·.O) :=
    List.map_congr_left (fun b hb => (hshape b hb).2.2.2.symm)
  have hnavg : bins.map (·.K) = bins.map (·.navg) := List.map_congr_left (fun b hb => (hshape b hb).2.1.symm)
  simp only [Arr.memo_eq, hv.1, hv.2, toList_ofList, toList_mk, ofList_n, ofList_get, List.length_map, RL.ofNat_eq, Nat.cast_zero,
    hb, hD, hO]
  simp only [planDict, ← hnavg]


theorem gen_new_post_glue_eq (Nn : ℕ) (bins : List (Model.Bin ℝ))
    (hshape : ∀ b ∈ bins, b.navg = b.K ∧ b.D = Model.startsEven (α := ℝ) Nn b.L b.K ∧ b.O = Model.overlapClosed (α := ℝ) Nn b.L b.K)
    (fs olap bmin : ℝ) (Lmin Jdes Kdes : ℤ) :
    Gen.new_ltf_plan_glue_post (Nn : ℤ) fs olap bmin Lmin Jdes Kdes (bins.map (·.f)) (bins.map (·.r)) (bins.map (·.b))
      (bins.map (fun b => (b.L : ℤ))) (bins.map (·.K)) = some (planDict bins) := by
  unfold Gen.new_ltf_plan_glue_post
  have hv := vec_post_views Nn bins
  simp only at hv
  have hD : bins.map (fun b => Model.startsEven (α := ℝ) Nn b.L b.K) = bins.map (·.D) :=
    List.map_congr_left (fun b hb => (hshape b hb).2.1.symm)
  have hO : bins.map (fun b => Model.overlapClosed (α := ℝ) Nn b.L b.K) = bins.map (·.O) :=
    List.map_congr_left (fun b hb => (hshape b hb).2.2.symm)
  have hnavg : bins.map (·.K) = bins.map (·.navg) := List.map_congr_left (fun b hb => (hshape b hb).1.symm)
  simp only [gen_new_post_eq_vec_post, hv.1, hv.2, toList_ofList, ofList_n, List.length_map, hD, hO]
  simp only [planDict, ← hnavg]

/-! ### `_require_args` and the unpacking -/

/-- `_require_args` returns the values of the required names in the order of the list, or raises when one is missing
    (the separate `missing` test never decides anything the lookups would not) -/
theorem gen_require_args_eq {β : Type} (d : Py.Dict β) (req : List String) :
    Gen._require_args d req = req.mapM (fun k => Py.Dict.get? d k) := by
  unfold Gen._require_args
  simp only
  split_ifs with h
  · have hne : List.filter (fun k => !Py.Dict.contains d k) req ≠ [] := by
      intro h0
      rw [h0] at h
      simp at h
    obtain ⟨k, hk⟩ := List.exists_mem_of_ne_nil _ hne
    rw [List.mem_filter] at hk
    have hn : Py.Dict.get? d k = none := by
      have := hk.2
      simp only [Py.Dict.contains, Bool.not_eq_eq_eq_not, Bool.not_true, Option.isSome_eq_false_iff, Option.isNone_iff_eq_none] at this
      exact this
    exact (mapM_none_of_mem _ _ k hk.1 hn).symm
  · rfl

/-- the keyword dictionary binds the configuration `c`: the seven names the schedulers unpack, lengths / counts as Python ints -/
structure HasCfg (args : Py.Dict (Py.Val ℝ)) (c : Model.Cfg ℝ) : Prop where
  hN : (Py.Dict.get? args "N").bind Py.Val.asInt = some (c.N : ℤ)
  hfs : (Py.Dict.get? args "fs").map Py.Val.asReal = some c.fs
  holap : (Py.Dict.get? args "olap").map Py.Val.asReal = some c.olap
  hbmin : (Py.Dict.get? args "bmin").map Py.Val.asReal = some c.bmin
  hLmin : (Py.Dict.get? args "Lmin").bind Py.Val.asInt = some (c.Lmin : ℤ)
  hJdes : (Py.Dict.get? args "Jdes").bind Py.Val.asInt = some (c.Jdes : ℤ)
  hKdes : (Py.Dict.get? args "Kdes").bind Py.Val.asInt = some (c.Kdes : ℤ)

theorem unpack7 (args : Py.Dict (Py.Val ℝ)) (c : Model.Cfg ℝ) (h : HasCfg args c) :
    ∃ vN vfs volap vbmin vLmin vJdes vKdes,
      Gen._require_args args ["N", "fs", "olap", "bmin", "Lmin", "Jdes", "Kdes"] = some [vN, vfs, volap, vbmin, vLmin, vJdes, vKdes] ∧
      Py.Val.asInt vN = some (c.N : ℤ) ∧ Py.Val.asReal vfs = c.fs ∧ Py.Val.asReal volap = c.olap ∧ Py.Val.asReal vbmin = c.bmin ∧
      Py.Val.asInt vLmin = some (c.Lmin : ℤ) ∧ Py.Val.asInt vJdes = some (c.Jdes : ℤ) ∧ Py.Val.asInt vKdes = some (c.Kdes : ℤ) := by
  obtain ⟨vN, hN1, hN2⟩ := Option.bind_eq_some_iff.mp h.hN
  obtain ⟨vfs, hfs1, hfs2⟩ := Option.map_eq_some_iff.mp h.hfs
  obtain ⟨volap, ho1, ho2⟩ := Option.map_eq_some_iff.mp h.holap
  obtain ⟨vbmin, hb1, hb2⟩ := Option.map_eq_some_iff.mp h.hbmin
  obtain ⟨vLmin, hL1, hL2⟩ := Option.bind_eq_some_iff.mp h.hLmin
  obtain ⟨vJdes, hJ1, hJ2⟩ := Option.bind_eq_some_iff.mp h.hJdes
  obtain ⟨vKdes, hK1, hK2⟩ := Option.bind_eq_some_iff.mp h.hKdes
  refine ⟨vN, vfs, volap, vbmin, vLmin, vJdes, vKdes, ?_, hN2, hfs2, ho2, hb2, hL2, hJ2, hK2⟩
  rw [gen_require_args_eq]
  simp [List.mapM_cons, hN1, hfs1, ho1, hb1, hL1, hJ1, hK1]


/-! ### the three schedulers: translated code = record view of the model plan -/

theorem ltf_walk_lists (c : Model.Cfg ℝ) (fuel : ℕ) :
    Gen.ltf_plan_walk (c.N : ℤ) c.fs c.olap c.bmin (c.Lmin : ℤ) (c.Jdes : ℤ) (c.Kdes : ℤ) fuel =
      ((Model.ltfPlan c fuel).map (·.f), (Model.ltfPlan c fuel).map (·.r), (Model.ltfPlan c fuel).map (·.b),
       (Model.ltfPlan c fuel).map (fun b => (b.L : ℤ)), (Model.ltfPlan c fuel).map (·.K)) := by
  rw [gen_ltf_walk_eq_model]
  simp only [Model.ltfPlan, List.map_map]
  rfl

theorem ltf_shape (c : Model.Cfg ℝ) (fuel : ℕ) :
    ∀ b ∈ Model.ltfPlan c fuel, b.navg = b.K ∧ b.D = Model.startsAccum (α := ℝ) c.N b.L b.K ∧
      b.O = Model.overlapMean (α := ℝ) b.L b.D := by
  intro b hb
  simp only [Model.ltfPlan, List.mem_map] at hb
  obtain ⟨e, _, rfl⟩ := hb
  exact ⟨rfl, rfl, rfl⟩

theorem gen_ltf_plan_eq_model (args : Py.Dict (Py.Val ℝ)) (c : Model.Cfg ℝ) (h : HasCfg args c) (fuel : ℕ) :
    Gen.ltf_plan args fuel = if Model.ltfPlan c fuel = [] then none else some (planDict (Model.ltfPlan c fuel)) := by
  obtain ⟨vN, vfs, volap, vbmin, vLmin, vJdes, vKdes, hreq, hN, hfs, holap, hbmin, hLmin, hJdes, hKdes⟩ := unpack7 args c h
  unfold Gen.ltf_plan
  simp only [hreq, hN, hLmin, hJdes, hKdes, hfs, holap, hbmin, ltf_walk_lists]
  exact gen_ltf_post_eq c.N (Model.ltfPlan c fuel) (ltf_shape c fuel) _ _ _ _ _ _


theorem vec_walk_lists (c : Model.Cfg ℝ) (fuel : ℕ) :
    Gen.vectorized_ltf_plan_walk (c.N : ℤ) c.fs c.olap c.bmin (c.Lmin : ℤ) (c.Jdes : ℤ) (c.Kdes : ℤ) fuel =
      ((Model.vecPlan c fuel).map (·.f), (Model.vecPlan c fuel).map (·.r),
       (Model.vecPlan c fuel).map (fun b => (b.L : ℤ)), (Model.vecPlan c fuel).map (·.K)) := by
  have h := gen_vec_walk_eq_plan c fuel
  simp only at h
  exact Prod.ext h.1 (Prod.ext h.2.1 (Prod.ext h.2.2.1 h.2.2.2))

theorem vec_shape (c : Model.Cfg ℝ) (fuel : ℕ) :
    ∀ b ∈ Model.vecPlan c fuel, b.b = b.f / b.r ∧ b.navg = b.K ∧ b.D = Model.startsEven (α := ℝ) c.N b.L b.K ∧
      b.O = Model.overlapClosed (α := ℝ) c.N b.L b.K := by
  intro b hb
  simp only [Model.vecPlan, Model.vecPlanCore, List.mem_map] at hb
  obtain ⟨e, _, rfl⟩ := hb
  exact ⟨rfl, rfl, rfl, rfl⟩

theorem gen_vec_plan_eq_model (args : Py.Dict (Py.Val ℝ)) (c : Model.Cfg ℝ) (h : HasCfg args c) (fuel : ℕ) :
    Gen.vectorized_ltf_plan args fuel = some (planDict (Model.vecPlan c fuel)) := by
  obtain ⟨vN, vfs, volap, vbmin, vLmin, vJdes, vKdes, hreq, hN, hfs, holap, hbmin, hLmin, hJdes, hKdes⟩ := unpack7 args c h
  unfold Gen.vectorized_ltf_plan
  simp only [hreq, hN, hLmin, hJdes, hKdes, hfs, holap, hbmin, vec_walk_lists]
  exact gen_vec_post_glue_eq c.N (Model.vecPlan c fuel) (vec_shape c fuel) _ _ _ _ _ _

theorem new_walk_lists (c : Model.Cfg ℝ) (fuel : ℕ) :
    Gen.new_ltf_plan_walk (c.N : ℤ) c.fs c.olap c.bmin (c.Lmin : ℤ) (c.Jdes : ℤ) (c.Kdes : ℤ) fuel =
      ((Model.newPlan c fuel).map (·.f), (Model.newPlan c fuel).map (·.r), (Model.newPlan c fuel).map (·.b),
       (Model.newPlan c fuel).map (fun b => (b.L : ℤ)), (Model.newPlan c fuel).map (·.K)) := by
  rw [gen_new_walk_eq_model]
  simp only [Model.newPlan, List.map_map, RL.zero_eq]
  rfl

theorem new_shape (c : Model.Cfg ℝ) (fuel : ℕ) :
    ∀ b ∈ Model.newPlan c fuel, b.navg = b.K ∧ b.D = Model.startsEven (α := ℝ) c.N b.L b.K ∧
      b.O = Model.overlapClosed (α := ℝ) c.N b.L b.K := by
  intro b hb
  simp only [Model.newPlan, List.mem_map] at hb
  obtain ⟨e, _, rfl⟩ := hb
  exact ⟨rfl, rfl, rfl⟩

theorem gen_new_plan_eq_model (args : Py.Dict (Py.Val ℝ)) (c : Model.Cfg ℝ) (h : HasCfg args c) (fuel : ℕ) :
    Gen.new_ltf_plan args fuel = some (planDict (Model.newPlan c fuel)) := by
  obtain ⟨vN, vfs, volap, vbmin, vLmin, vJdes, vKdes, hreq, hN, hfs, holap, hbmin, hLmin, hJdes, hKdes⟩ := unpack7 args c h
  unfold Gen.new_ltf_plan
  simp only [hreq, hN, hLmin, hJdes, hKdes, hfs, holap, hbmin, new_walk_lists]
  exact gen_new_post_glue_eq c.N (Model.newPlan c fuel) (new_shape c fuel) _ _ _ _ _ _

/-! ### `lpsd_plan`: the forwarding -/

/-- `ltf_plan` reads its keyword dictionary only through the seven names it unpacks -/
theorem ltf_plan_congr (a a' : Py.Dict (Py.Val ℝ)) (fuel : ℕ)
    (h : ∀ k ∈ ["N", "fs", "olap", "bmin", "Lmin", "Jdes", "Kdes"], Py.Dict.get? a k = Py.Dict.get? a' k) :
    Gen.ltf_plan a fuel = Gen.ltf_plan a' fuel := by
  have hr : Gen._require_args a ["N", "fs", "olap", "bmin", "Lmin", "Jdes", "Kdes"]
      = Gen._require_args a' ["N", "fs", "olap", "bmin", "Lmin", "Jdes", "Kdes"] := by
    rw [gen_require_args_eq, gen_require_args_eq]
    exact mapM_congr_mem _ _ _ h
  unfold Gen.ltf_plan
  rw [hr]

/-- `lpsd_plan(**args)` is `ltf_plan` applied to `args` with `bmin := 1.0`, `Lmin := 1` overriding whatever the caller passed under
    these two names, provided the five names it requires are present; otherwise it raises.  (Proved through what `ltf_plan` can
    read of the forwarded dictionary, so the order of the two stores and the name of the temporary do not matter; the caller's
    values winning, another literal, or a dropped store do.) -/
theorem gen_lpsd_forward (args : Py.Dict (Py.Val ℝ)) (fuel : ℕ) :
    Gen.lpsd_plan args fuel =
      (Gen._require_args args ["N", "fs", "olap", "Jdes", "Kdes"]).bind (fun _ =>
        Gen.ltf_plan (Py.Dict.set (Py.Dict.set args "bmin" (Py.Val.real 1)) "Lmin" (Py.Val.int 1)) fuel) := by
  unfold Gen.lpsd_plan
  have h1 : (RealLike.ofSci 10 true 1 : ℝ) = 1 := by rw [RL.ofSci_eq]; norm_num
  cases hreq : Gen._require_args args ["N", "fs", "olap", "Jdes", "Kdes"] with
  | none => rfl
  | some vs =>
    simp only [Option.bind_some]
    apply ltf_plan_congr
    intro k hk
    simp only [List.mem_cons, List.not_mem_nil, or_false] at hk
    rcases hk with rfl | rfl | rfl | rfl | rfl | rfl | rfl <;> simp [get?_set, get?_copy, h1]

/-- the five names `lpsd_plan` requires, bound to the configuration `c` (nothing is asked of `bmin`, `Lmin`: they may be absent or
    hold anything) -/
structure HasCfg5 (args : Py.Dict (Py.Val ℝ)) (c : Model.Cfg ℝ) : Prop where
  hN : (Py.Dict.get? args "N").bind Py.Val.asInt = some (c.N : ℤ)
  hfs : (Py.Dict.get? args "fs").map Py.Val.asReal = some c.fs
  holap : (Py.Dict.get? args "olap").map Py.Val.asReal = some c.olap
  hJdes : (Py.Dict.get? args "Jdes").bind Py.Val.asInt = some (c.Jdes : ℤ)
  hKdes : (Py.Dict.get? args "Kdes").bind Py.Val.asInt = some (c.Kdes : ℤ)

theorem hasCfg_forwarded (args : Py.Dict (Py.Val ℝ)) (c : Model.Cfg ℝ) (h : HasCfg5 args c) :
    HasCfg (Py.Dict.set (Py.Dict.set args "bmin" (Py.Val.real 1)) "Lmin" (Py.Val.int 1)) { c with bmin := 1, Lmin := 1 } := by
  constructor
  · rw [get?_set_ne _ _ _ _ (by decide), get?_set_ne _ _ _ _ (by decide)]; exact h.hN
  · rw [get?_set_ne _ _ _ _ (by decide), get?_set_ne _ _ _ _ (by decide)]; exact h.hfs
  · rw [get?_set_ne _ _ _ _ (by decide), get?_set_ne _ _ _ _ (by decide)]; exact h.holap
  · rw [get?_set_ne _ _ _ _ (by decide), get?_set_self]; rfl
  · rw [get?_set_self]; rfl
  · rw [get?_set_ne _ _ _ _ (by decide), get?_set_ne _ _ _ _ (by decide)]; exact h.hJdes
  · rw [get?_set_ne _ _ _ _ (by decide), get?_set_ne _ _ _ _ (by decide)]; exact h.hKdes

theorem require5 (args : Py.Dict (Py.Val ℝ)) (c : Model.Cfg ℝ) (h : HasCfg5 args c) :
    ∃ vs, Gen._require_args args ["N", "fs", "olap", "Jdes", "Kdes"] = some vs := by
  obtain ⟨vN, hN1, _⟩ := Option.bind_eq_some_iff.mp h.hN
  obtain ⟨vfs, hfs1, _⟩ := Option.map_eq_some_iff.mp h.hfs
  obtain ⟨volap, ho1, _⟩ := Option.map_eq_some_iff.mp h.holap
  obtain ⟨vJdes, hJ1, _⟩ := Option.bind_eq_some_iff.mp h.hJdes
  obtain ⟨vKdes, hK1, _⟩ := Option.bind_eq_some_iff.mp h.hKdes
  refine ⟨[vN, vfs, volap, vJdes, vKdes], ?_⟩
  rw [gen_require_args_eq]
  simp [List.mapM_cons, hN1, hfs1, ho1, hJ1, hK1]

/-- "The LPSD scheduler is the LTF scheduler with bmin=1 and Lmin=1": for the translated code, whatever the caller passed as
    `bmin` / `Lmin` (or did not pass) -/
theorem gen_lpsd_plan_eq_ltf (args : Py.Dict (Py.Val ℝ)) (c : Model.Cfg ℝ) (h : HasCfg5 args c) (fuel : ℕ) :
    Gen.lpsd_plan args fuel = Gen.ltf_plan (Py.Dict.set (Py.Dict.set args "bmin" (Py.Val.real 1)) "Lmin" (Py.Val.int 1)) fuel ∧
    Gen.lpsd_plan args fuel =
      (if Model.ltfPlan { c with bmin := 1, Lmin := 1 } fuel = [] then none
       else some (planDict (Model.ltfPlan { c with bmin := 1, Lmin := 1 } fuel))) := by
  obtain ⟨vs, hvs⟩ := require5 args c h
  have hf := gen_lpsd_forward args fuel
  rw [hvs, Option.bind_some] at hf
  exact ⟨hf, hf.trans (gen_ltf_plan_eq_model _ _ (hasCfg_forwarded args c h) fuel)⟩

theorem gen_lpsd_plan_eq_model (args : Py.Dict (Py.Val ℝ)) (c : Model.Cfg ℝ) (h : HasCfg5 args c) (fuel : ℕ) :
    Gen.lpsd_plan args fuel = if Model.lpsdPlan c fuel = [] then none else some (planDict (Model.lpsdPlan c fuel)) := by
  rw [lpsd_is_ltf]
  exact (gen_lpsd_plan_eq_ltf args c h fuel).2

/-- a missing required name: no scheduler returns a plan (`TypeError`) -/
theorem gen_plan_missing_key (args : Py.Dict (Py.Val ℝ)) (k : String)
    (hk : k ∈ ["N", "fs", "olap", "bmin", "Lmin", "Jdes", "Kdes"]) (hn : Py.Dict.get? args k = none) (fuel : ℕ) :
    Gen.ltf_plan args fuel = none ∧ Gen.vectorized_ltf_plan args fuel = none ∧ Gen.new_ltf_plan args fuel = none := by
  have hreq : Gen._require_args args ["N", "fs", "olap", "bmin", "Lmin", "Jdes", "Kdes"] = none := by
    rw [gen_require_args_eq]
    exact mapM_none_of_mem _ _ k hk hn
  refine ⟨?_, ?_, ?_⟩
  · unfold Gen.ltf_plan; simp only [hreq]
  · unfold Gen.vectorized_ltf_plan; simp only [hreq]
  · unfold Gen.new_ltf_plan; simp only [hreq]

theorem gen_lpsd_missing_key (args : Py.Dict (Py.Val ℝ)) (k : String)
    (hk : k ∈ ["N", "fs", "olap", "Jdes", "Kdes"]) (hn : Py.Dict.get? args k = none) (fuel : ℕ) :
    Gen.lpsd_plan args fuel = none := by
  rw [gen_lpsd_forward, gen_require_args_eq, mapM_none_of_mem _ _ k hk hn]
  rfl


/-! ### key by key -/

/-- which model field each key of the returned dictionary holds -/
theorem planDict_keys (bins : List (Model.Bin ℝ)) :
    (planDict bins).f = bins.map (·.f) ∧ (planDict bins).r = bins.map (·.r) ∧ (planDict bins).b = bins.map (·.b) ∧
    (planDict bins).m = bins.map (·.b) ∧ (planDict bins).L = bins.map (fun x => (x.L : ℤ)) ∧ (planDict bins).K = bins.map (·.K) ∧
    (planDict bins).navg = bins.map (·.navg) ∧ (planDict bins).D = bins.map (·.D) ∧ (planDict bins).O = bins.map (·.O) ∧
    (planDict bins).nf = bins.length := ⟨rfl, rfl, rfl, rfl, rfl, rfl, rfl, rfl, rfl, rfl⟩

/-- the wiring claims of the properties: `"m"` IS the bin number `"b"`, `"navg"` equals `"K"`, `"nf" = len(f)`, every per-bin entry
    has `nf` elements -/
def Wired (d : Py.PlanDict ℝ) : Prop :=
  d.m = d.b ∧ d.navg = d.K ∧ d.nf = d.f.length ∧ d.r.length = d.nf ∧ d.b.length = d.nf ∧ d.L.length = d.nf ∧ d.K.length = d.nf ∧
  d.D.length = d.nf ∧ d.O.length = d.nf

theorem wired_planDict (bins : List (Model.Bin ℝ)) (hnv : ∀ b ∈ bins, b.navg = b.K) : Wired (planDict bins) := by
  refine ⟨rfl, List.map_congr_left hnv, ?_, ?_, ?_, ?_, ?_, ?_, ?_⟩ <;> simp [planDict]

/-- … for whatever any of the four translated schedulers returns -/
theorem gen_plan_wiring (args : Py.Dict (Py.Val ℝ)) (c : Model.Cfg ℝ) (h : HasCfg args c) (fuel : ℕ) (d : Py.PlanDict ℝ)
    (hd : Gen.ltf_plan args fuel = some d ∨ Gen.lpsd_plan args fuel = some d ∨ Gen.vectorized_ltf_plan args fuel = some d ∨
      Gen.new_ltf_plan args fuel = some d) : Wired d := by
  rcases hd with hd | hd | hd | hd
  · rw [gen_ltf_plan_eq_model args c h fuel] at hd
    split_ifs at hd
    rw [← Option.some.inj hd]
    exact wired_planDict _ (fun b hb => (ltf_shape c fuel b hb).1)
  · have h5 : HasCfg5 args c := ⟨h.hN, h.hfs, h.holap, h.hJdes, h.hKdes⟩
    rw [(gen_lpsd_plan_eq_ltf args c h5 fuel).2] at hd
    split_ifs at hd
    rw [← Option.some.inj hd]
    exact wired_planDict _ (fun b hb => (ltf_shape _ fuel b hb).1)
  · rw [gen_vec_plan_eq_model args c h fuel] at hd
    rw [← Option.some.inj hd]
    exact wired_planDict _ (fun b hb => (vec_shape c fuel b hb).2.1)
  · rw [gen_new_plan_eq_model args c h fuel] at hd
    rw [← Option.some.inj hd]
    exact wired_planDict _ (fun b hb => (new_shape c fuel b hb).1)

theorem zipWith_map_map {γ β δ ε : Type} (l : List γ) (a : γ → β) (b : γ → δ) (f : β → δ → ε) :
    List.zipWith f (l.map a) (l.map b) = l.map (fun x => f (a x) (b x)) := by
  induction l with
  | nil => rfl
  | cons x t ih => simp [ih]

/-- dictionary-level form of "the reported overlap is the realised mean overlap": entry by entry, `"O"` is the mean of
    `(L − (D[i+1] − D[i])) / L` over the published `"D"` with the published `"L"` -/
theorem planDict_overlap (bins : List (Model.Bin ℝ)) (h : ∀ b ∈ bins, b.O = Model.overlapMean (α := ℝ) b.L b.D) :
    (planDict bins).O = List.zipWith (fun (l : ℤ) D => Model.overlapMean (α := ℝ) l.toNat D) (planDict bins).L (planDict bins).D := by
  simp only [planDict, zipWith_map_map, Int.toNat_natCast]
  exact List.map_congr_left h

/-! ### transfer: the property theorems for the dictionaries the translated schedulers return -/

/-- C02 + C03 + C04 for the translated `ltf_plan` (fuel `N` suffices): it returns a plan; every bin is safe and complete, the starts are
    evenly spread, the reported overlap is the realised one (`BinFull`); the grid obeys the DFT / stepping constraints (`GridOK`) with
    the bmin slack; L never increases and K never decreases -/
theorem gen_ltf_plan_props (args : Py.Dict (Py.Val ℝ)) (c : Model.Cfg ℝ) (h : HasCfg args c) (hA : Adm c) (extra : ℕ) :
    ∃ bins : List (Model.Bin ℝ), Gen.ltf_plan args (c.N + extra) = some (planDict bins) ∧ bins ≠ [] ∧
      (∀ b ∈ bins, BinFull c.N c.Lmin b) ∧ GridOK c c.bmin bins ∧ (∀ b ∈ bins, c.bmin - b.f / (2 * c.fs) ≤ b.b) ∧
      bins.Pairwise (fun a b => b.L ≤ a.L ∧ a.K ≤ b.K) := by
  have hf := PlanC02.ltfPlan_full c hA extra
  refine ⟨Model.ltfPlan c (c.N + extra), ?_, hf.1, hf.2, (ltfPlan_grid c hA extra).1, (ltfPlan_grid c hA extra).2,
    ltfPlan_monotone c hA extra⟩
  rw [gen_ltf_plan_eq_model args c h, if_neg hf.1]

/-- the same for the translated `lpsd_plan`, with the effective `bmin = 1`, `Lmin = 1`, whatever the caller passed for them -/
theorem gen_lpsd_plan_props (args : Py.Dict (Py.Val ℝ)) (c : Model.Cfg ℝ) (h : HasCfg5 args c) (hA : Adm c) (extra : ℕ) :
    ∃ bins : List (Model.Bin ℝ), Gen.lpsd_plan args (c.N + extra) = some (planDict bins) ∧ bins ≠ [] ∧
      (∀ b ∈ bins, BinFull c.N 1 b) ∧ GridOK c 1 bins ∧ (∀ b ∈ bins, 1 - b.f / (2 * c.fs) ≤ b.b) ∧
      bins.Pairwise (fun a b => b.L ≤ a.L ∧ a.K ≤ b.K) := by
  have hf := PlanC02.lpsdPlan_full c hA extra
  refine ⟨Model.lpsdPlan c (c.N + extra), ?_, hf.1, hf.2, (lpsdPlan_grid c hA extra).1, (lpsdPlan_grid c hA extra).2,
    lpsdPlan_monotone c hA extra⟩
  rw [gen_lpsd_plan_eq_model args c h, if_neg hf.1]

theorem gen_new_plan_props (args : Py.Dict (Py.Val ℝ)) (c : Model.Cfg ℝ) (h : HasCfg args c) (hA : Adm c) (extra : ℕ) :
    ∃ bins : List (Model.Bin ℝ), Gen.new_ltf_plan args (c.N + extra) = some (planDict bins) ∧ bins ≠ [] ∧
      (∀ b ∈ bins, BinFull c.N c.Lmin b) ∧ GridOK c c.bmin bins ∧ (∀ b ∈ bins, c.bmin ≤ b.b) ∧
      bins.Pairwise (fun a b => b.L ≤ a.L ∧ a.K ≤ b.K) := by
  have hf := PlanC02.newPlan_full c hA extra
  exact ⟨Model.newPlan c (c.N + extra), gen_new_plan_eq_model args c h _, hf.1, hf.2, (newPlan_grid c hA extra).1,
    (newPlan_grid c hA extra).2, newPlan_monotone c hA _⟩

theorem gen_vec_plan_props (args : Py.Dict (Py.Val ℝ)) (c : Model.Cfg ℝ) (h : HasCfg args c) (hA : Adm c) (fuel : ℕ) :
    ∃ bins : List (Model.Bin ℝ), Gen.vectorized_ltf_plan args fuel = some (planDict bins) ∧
      (∀ b ∈ bins, BinFull c.N c.Lmin b) ∧
      (∀ b ∈ bins, b.r * (b.L : ℝ) = c.fs ∧ b.f < c.fs / 2 ∧ b.b = b.f / b.r ∧ 0 < b.r) ∧
      bins.IsChain (fun a b => b.f = a.f + a.r) ∧ bins.Pairwise (fun a b => a.f < b.f) ∧
      (∀ b0, bins.head? = some b0 → b0.f = c.bmin * c.fs / c.N) ∧
      bins.Pairwise (fun a b => b.L ≤ a.L ∧ a.K ≤ b.K) :=
  ⟨Model.vecPlan c fuel, gen_vec_plan_eq_model args c h fuel, PlanC02.vecPlan_full c hA fuel, (vecPlan_grid c hA fuel).1,
    (vecPlan_grid c hA fuel).2.1, vecPlan_increasing c hA fuel, (vecPlan_grid c hA fuel).2.2, vecPlan_monotone c hA fuel⟩

/-- C04 f at the level of the dictionary, all four translated schedulers: `"O"[j]` is the realised mean overlap of `"D"[j]` for
    segment length `"L"[j]` -/
theorem gen_plan_overlap_key (args : Py.Dict (Py.Val ℝ)) (c : Model.Cfg ℝ) (h : HasCfg args c) (hA : Adm c) (extra : ℕ)
    (d : Py.PlanDict ℝ)
    (hd : Gen.ltf_plan args (c.N + extra) = some d ∨ Gen.lpsd_plan args (c.N + extra) = some d ∨
      Gen.vectorized_ltf_plan args (c.N + extra) = some d ∨ Gen.new_ltf_plan args (c.N + extra) = some d) :
    d.O = List.zipWith (fun (l : ℤ) D => Model.overlapMean (α := ℝ) l.toNat D) d.L d.D := by
  rcases hd with hd | hd | hd | hd
  · obtain ⟨bins, hb, _, hfull, _⟩ := gen_ltf_plan_props args c h hA extra
    rw [hb] at hd
    rw [← Option.some.inj hd]
    exact planDict_overlap bins (fun b hb => (hfull b hb).2.2.1)
  · obtain ⟨bins, hb, _, hfull, _⟩ := gen_lpsd_plan_props args c ⟨h.hN, h.hfs, h.holap, h.hJdes, h.hKdes⟩ hA extra
    rw [hb] at hd
    rw [← Option.some.inj hd]
    exact planDict_overlap bins (fun b hb => (hfull b hb).2.2.1)
  · obtain ⟨bins, hb, hfull, _⟩ := gen_vec_plan_props args c h hA (c.N + extra)
    rw [hb] at hd
    rw [← Option.some.inj hd]
    exact planDict_overlap bins (fun b hb => (hfull b hb).2.2.1)
  · obtain ⟨bins, hb, _, hfull, _⟩ := gen_new_plan_props args c h hA extra
    rw [hb] at hd
    rw [← Option.some.inj hd]
    exact planDict_overlap bins (fun b hb => (hfull b hb).2.2.1)

/-! ### the hypotheses are satisfiable -/

/-- a keyword dictionary as a caller builds it: the seven names (an `int` where a float is expected, an unknown extra name, and a
    SECOND, later binding of `bmin` that wins) -/
noncomputable def exArgs : Py.Dict (Py.Val ℝ) :=
  Py.Dict.set (Py.Dict.set (Py.Dict.set (Py.Dict.set (Py.Dict.set (Py.Dict.set (Py.Dict.set (Py.Dict.set (Py.Dict.set Py.Dict.empty
    "bmin" (Py.Val.real 7)) "N" (Py.Val.int 1000)) "fs" (Py.Val.real 2)) "olap" (Py.Val.real (1 / 2))) "zzz" (Py.Val.real 9))
    "bmin" (Py.Val.int 3)) "Lmin" (Py.Val.int 4)) "Jdes" (Py.Val.int 50)) "Kdes" (Py.Val.int 10)

noncomputable def exCfg : Model.Cfg ℝ := { N := 1000, fs := 2, olap := 1 / 2, bmin := 3, Lmin := 4, Jdes := 50, Kdes := 10 }

example : HasCfg exArgs exCfg := by
  constructor <;> simp [exArgs, exCfg, Py.Dict.set, Py.Dict.empty, Py.Dict.get?, List.lookup, Py.Val.asInt, Py.Val.asReal]

example : Adm exCfg := by
  constructor <;> simp [exCfg] <;> norm_num

/-- for `lpsd_plan` the caller's `bmin = 3`, `Lmin = 4` are in the dictionary and do not matter: the same `HasCfg5` holds for a
    configuration with any other `bmin`, `Lmin` -/
example : HasCfg5 exArgs { exCfg with bmin := 123, Lmin := 77 } := by
  constructor <;> simp [exArgs, exCfg, Py.Dict.set, Py.Dict.empty, Py.Dict.get?, List.lookup, Py.Val.asInt, Py.Val.asReal]

example : Py.Dict.get? exArgs "Kdes" ≠ none ∧ Py.Dict.get? exArgs "nope" = none := by
  constructor <;> simp [exArgs, Py.Dict.set, Py.Dict.empty, Py.Dict.get?, List.lookup]

/-- a non-trivial instance of the per-bin shape hypothesis of `gen_ltf_post_eq`: one bin of three segments -/
noncomputable def exBin : Model.Bin ℝ where
  f := 1
  r := 1
  b := 1
  L := 4
  K := 3
  navg := 3
  D := Model.startsAccum (α := ℝ) 10 4 3
  O := Model.overlapMean (α := ℝ) 4 (Model.startsAccum (α := ℝ) 10 4 3)

example : ∀ b ∈ [exBin], b.navg = b.K ∧ b.D = Model.startsAccum (α := ℝ) 10 b.L b.K ∧ b.O = Model.overlapMean (α := ℝ) b.L b.D := by
  intro b hb
  simp only [List.mem_singleton] at hb
  subst hb
  exact ⟨rfl, rfl, rfl⟩

end SchedGlue

#print axioms SchedGlue.gen_require_args_eq
#print axioms SchedGlue.gen_ltf_post_eq
#print axioms SchedGlue.gen_vec_post_glue_eq
#print axioms SchedGlue.gen_new_post_glue_eq
#print axioms SchedGlue.gen_ltf_plan_eq_model
#print axioms SchedGlue.gen_vec_plan_eq_model
#print axioms SchedGlue.gen_new_plan_eq_model
#print axioms SchedGlue.gen_lpsd_forward
#print axioms SchedGlue.gen_lpsd_plan_eq_ltf
#print axioms SchedGlue.gen_lpsd_plan_eq_model
#print axioms SchedGlue.gen_plan_missing_key
#print axioms SchedGlue.gen_lpsd_missing_key
#print axioms SchedGlue.planDict_keys
#print axioms SchedGlue.gen_plan_wiring
#print axioms SchedGlue.planDict_overlap
#print axioms SchedGlue.gen_ltf_plan_props
#print axioms SchedGlue.gen_lpsd_plan_props
#print axioms SchedGlue.gen_new_plan_props
#print axioms SchedGlue.gen_vec_plan_props
#print axioms SchedGlue.gen_plan_overlap_key
