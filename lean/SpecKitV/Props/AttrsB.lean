/-
  SpecKitV.Props.AttrsB — C10 (analytic Bendat–Piersol error bars) and C11 (empirical error
  estimates) for the generated per-bin attributes `Gen.Auto.*`, `Gen.Cross.*` at `α := ℝ`.
-/
import SpecKitV.RealInst
import SpecKitV.Lemmas.CxC
import SpecKitV.Lemmas.Arcsin
import SpecKitV.Gen.Attrs
open Gen

/-! ## helpers (pure real arithmetic) -/

theorem AttrsB.cx_abs_nonneg (a : Cx ℝ) : 0 ≤ Cx.abs a := by
  rw [Cx.abs_eq]; exact norm_nonneg _

theorem AttrsB.sqrt_sq_div_div {a g n : ℝ} (ha : 0 ≤ a) :
    Real.sqrt (a * a / g / n) = a / Real.sqrt (g * n) := by
  rw [div_div, Real.sqrt_div (mul_self_nonneg a), Real.sqrt_mul_self ha]

theorem AttrsB.sqrt_coh_dev {g n : ℝ} (hg : 0 ≤ g) (hg1 : g ≤ 1) (hn : 0 ≤ n) :
    Real.sqrt |2 * g / n * ((1 - g) * (1 - g))| = Real.sqrt (2 * g) * (1 - g) / Real.sqrt n := by
  have h1 : 0 ≤ 1 - g := by linarith
  have h2 : 0 ≤ 2 * g := by linarith
  rw [abs_of_nonneg (mul_nonneg (div_nonneg h2 hn) (mul_self_nonneg _))]
  rw [div_mul_eq_mul_div, Real.sqrt_div (mul_nonneg h2 (mul_self_nonneg _)),
    Real.sqrt_mul h2, Real.sqrt_mul_self h1]

/-- the scientific literal `2.0` -/
theorem AttrsB.ofSci_two : (RealLike.ofSci 20 true 1 : ℝ) = 2 := by
  simp only [RL.ofSci_eq]; norm_num

/-! ## C10 — analytic (Bendat–Piersol) error bars -/

theorem Gxx_dev_formula (d : BinData ℝ) :
    Cross.Gxx_dev d = Cross.Gxx d / Real.sqrt d.navg ∧
    Auto.Gxx_dev d = Auto.Gxx d / Real.sqrt d.navg := by
  constructor <;> simp only [Cross.Gxx_dev, Auto.Gxx_dev, RL.sqrt_eq]

theorem Gyy_dev_formula (d : BinData ℝ) :
    Cross.Gyy_dev d = Cross.Gyy d / Real.sqrt d.navg ∧
    Auto.Gyy_dev d = Auto.Gxx d / Real.sqrt d.navg := by
  constructor <;> simp only [Cross.Gyy_dev, Auto.Gyy_dev, Auto.Gxx_dev, RL.sqrt_eq]

/-- total complex deviation |Gxy|/√(g·n) -/
theorem Gxy_dev_formula (d : BinData ℝ) (hg : 0 < Cross.coh d) (hn : 0 < d.navg) :
    Cross.Gxy_dev d = Cx.abs (Cross.Gxy d) / Real.sqrt (Cross.coh d * d.navg) := by
  have _ := hg; have _ := hn
  simp only [Cross.Gxy_dev, RL.sqrt_eq]
  exact AttrsB.sqrt_sq_div_div (AttrsB.cx_abs_nonneg _)

theorem Hxy_dev_formula (d : BinData ℝ) (hg : 0 < Cross.coh d) (hg1 : Cross.coh d ≤ 1)
    (hn : 0 < d.navg) :
    Cross.Hxy_dev d =
      Cx.abs (Cross.Hxy d) * Real.sqrt (1 - Cross.coh d) / Real.sqrt (2 * Cross.coh d * d.navg) := by
  have _ := hg; have _ := hn
  simp only [Cross.Hxy_dev, RL.sqrt_eq, RL.abs_eq, RL.ofNat_eq, Nat.cast_one, Nat.cast_ofNat]
  rw [abs_of_nonneg (by linarith), mul_comm (Cross.coh d) 2]

theorem coh_dev_formula (d : BinData ℝ) (hg : 0 < Cross.coh d) (hg1 : Cross.coh d ≤ 1)
    (hn : 0 < d.navg) :
    Cross.coh_dev d = Real.sqrt (2 * Cross.coh d) * (1 - Cross.coh d) / Real.sqrt d.navg := by
  simp only [Cross.coh_dev, RL.sqrt_eq, RL.abs_eq, RL.ofNat_eq, Nat.cast_one, Nat.cast_ofNat]
  exact AttrsB.sqrt_coh_dev hg.le hg1 hn.le

/-- normalised random errors -/
theorem Gxx_error_formula (d : BinData ℝ) :
    Cross.Gxx_error d = 1 / Real.sqrt d.navg ∧ Auto.Gxx_error d = 1 / Real.sqrt d.navg ∧
    Cross.Gyy_error d = 1 / Real.sqrt d.navg ∧ Auto.Gyy_error d = 1 / Real.sqrt d.navg := by
  refine ⟨?_, ?_, ?_, ?_⟩ <;>
    simp only [Cross.Gxx_error, Auto.Gxx_error, Cross.Gyy_error, Auto.Gyy_error, RL.sqrt_eq,
      RL.ofNat_eq, Nat.cast_one]

theorem Gxy_error_formula (d : BinData ℝ) :
    Cross.Gxy_error d = 1 / Real.sqrt (Cross.coh d * d.navg) := by
  simp only [Cross.Gxy_error, RL.sqrt_eq, RL.ofNat_eq, Nat.cast_one]

theorem Hxy_mag_error_formula (d : BinData ℝ) :
    Cross.Hxy_mag_error d = magErr (Cross.coh d) d.navg := by
  simp only [Cross.Hxy_mag_error, magErr, RL.sqrt_eq, RL.abs_eq, RL.ofNat_eq, Nat.cast_one,
    Nat.cast_ofNat]

theorem Hxy_rad_error_formula (d : BinData ℝ) :
    Cross.Hxy_rad_error d = radErr (Cross.coh d) d.navg := by
  simp only [Cross.Hxy_rad_error, radErr, RL.sqrt_eq, RL.abs_eq, RL.arcsin_eq, RL.ofNat_eq,
    Nat.cast_one, Nat.cast_ofNat]

theorem Hxy_deg_error_formula (d : BinData ℝ) :
    Cross.Hxy_deg_error d = Cross.Hxy_rad_error d * (180 / Real.pi) := by
  simp only [Cross.Hxy_deg_error, RL.pi_eq, RL.ofNat_eq, Nat.cast_ofNat]

theorem coh_error_formula (d : BinData ℝ) (hg : 0 < Cross.coh d) (hn : 0 < d.navg) :
    Cross.coh_error d =
      Real.sqrt 2 * (1 - Cross.coh d) / Real.sqrt (Cross.coh d * d.navg) := by
  have _ := hn
  simp only [Cross.coh_error, RL.sqrt_eq, RL.ofNat_eq, Nat.cast_one, Nat.cast_ofNat]
  rw [Real.sqrt_mul hg.le]

/-- each deviation is the estimate times its normalised error -/
theorem Gxx_dev_is_est_times_error (d : BinData ℝ) :
    Cross.Gxx_dev d = Cross.Gxx d * Cross.Gxx_error d ∧
    Auto.Gxx_dev d = Auto.Gxx d * Auto.Gxx_error d := by
  rw [(Gxx_dev_formula d).1, (Gxx_dev_formula d).2, (Gxx_error_formula d).1,
    (Gxx_error_formula d).2.1]
  exact ⟨div_eq_mul_one_div _ _, div_eq_mul_one_div _ _⟩

theorem Gxy_dev_is_est_times_error (d : BinData ℝ) (hg : 0 < Cross.coh d) (hn : 0 < d.navg) :
    Cross.Gxy_dev d = Cx.abs (Cross.Gxy d) * Cross.Gxy_error d := by
  rw [Gxy_dev_formula d hg hn, Gxy_error_formula d]
  exact div_eq_mul_one_div _ _

theorem Hxy_dev_is_est_times_error (d : BinData ℝ) :
    Cross.Hxy_dev d = Cx.abs (Cross.Hxy d) * Cross.Hxy_mag_error d := by
  simp only [Cross.Hxy_dev, Cross.Hxy_mag_error]
  exact mul_div_assoc _ _ _

theorem coh_dev_is_est_times_error (d : BinData ℝ) (hg : 0 < Cross.coh d)
    (hg1 : Cross.coh d ≤ 1) (hn : 0 < d.navg) :
    Cross.coh_dev d = Cross.coh d * Cross.coh_error d := by
  rw [coh_dev_formula d hg hg1 hn, coh_error_formula d hg hn]
  generalize Cross.coh d = g at hg hg1 ⊢
  generalize d.navg = n at hn ⊢
  have hsg : 0 < Real.sqrt g := Real.sqrt_pos.2 hg
  have hsn : 0 < Real.sqrt n := Real.sqrt_pos.2 hn
  rw [Real.sqrt_mul (by norm_num : (0 : ℝ) ≤ 2), Real.sqrt_mul hg.le]
  have hgg : g = Real.sqrt g * Real.sqrt g := (Real.mul_self_sqrt hg.le).symm
  generalize Real.sqrt g = s at hsg hgg ⊢
  generalize Real.sqrt n = t at hsn ⊢
  subst hgg
  have hs0 : s ≠ 0 := hsg.ne'
  have ht0 : t ≠ 0 := hsn.ne'
  rw [eq_comm, mul_div_assoc', div_eq_div_iff (mul_ne_zero hs0 ht0) ht0]
  ring

/-! ### 1/√n scaling -/

theorem AttrsB.Gxx_dev_mul_sqrt (d : BinData ℝ) (hn : 0 < d.navg) :
    Cross.Gxx_dev d * Real.sqrt d.navg = Cross.Gxx d := by
  rw [(Gxx_dev_formula d).1, div_mul_cancel₀ _ (Real.sqrt_pos.2 hn).ne']

theorem AttrsB.Gxy_dev_mul_sqrt (d : BinData ℝ) (hg : 0 < Cross.coh d) (hn : 0 < d.navg) :
    Cross.Gxy_dev d * Real.sqrt d.navg = Cx.abs (Cross.Gxy d) / Real.sqrt (Cross.coh d) := by
  rw [Gxy_dev_formula d hg hn, Real.sqrt_mul hg.le]
  have hsg : 0 < Real.sqrt (Cross.coh d) := Real.sqrt_pos.2 hg
  have hsn : 0 < Real.sqrt d.navg := Real.sqrt_pos.2 hn
  field_simp

theorem AttrsB.Hxy_dev_mul_sqrt (d : BinData ℝ) (hg : 0 < Cross.coh d) (hg1 : Cross.coh d ≤ 1)
    (hn : 0 < d.navg) :
    Cross.Hxy_dev d * Real.sqrt d.navg =
      Cx.abs (Cross.Hxy d) * Real.sqrt (1 - Cross.coh d) / Real.sqrt (2 * Cross.coh d) := by
  rw [Hxy_dev_formula d hg hg1 hn, Real.sqrt_mul (by linarith : 0 ≤ 2 * Cross.coh d)]
  have hsg : 0 < Real.sqrt (2 * Cross.coh d) := Real.sqrt_pos.2 (by linarith)
  have hsn : 0 < Real.sqrt d.navg := Real.sqrt_pos.2 hn
  field_simp

theorem AttrsB.coh_dev_mul_sqrt (d : BinData ℝ) (hg : 0 < Cross.coh d) (hg1 : Cross.coh d ≤ 1)
    (hn : 0 < d.navg) :
    Cross.coh_dev d * Real.sqrt d.navg = Real.sqrt (2 * Cross.coh d) * (1 - Cross.coh d) := by
  rw [coh_dev_formula d hg hg1 hn, div_mul_cancel₀ _ (Real.sqrt_pos.2 hn).ne']

/-- deviations shrink as 1/√n: dev·√n does not depend on n (two results differing only in navg) -/
theorem dev_scales_inv_sqrt_n (d : BinData ℝ) (n' : ℝ) (hn : 0 < d.navg) (hn' : 0 < n')
    (hg : 0 < Cross.coh d) (hg1 : Cross.coh d ≤ 1) :
    let d' : BinData ℝ := { d with navg := n' }
    Cross.Gxx_dev d * Real.sqrt d.navg = Cross.Gxx_dev d' * Real.sqrt n' ∧
    Cross.Gxy_dev d * Real.sqrt d.navg = Cross.Gxy_dev d' * Real.sqrt n' ∧
    Cross.Hxy_dev d * Real.sqrt d.navg = Cross.Hxy_dev d' * Real.sqrt n' ∧
    Cross.coh_dev d * Real.sqrt d.navg = Cross.coh_dev d' * Real.sqrt n' := by
  intro d'
  have hcoh : Cross.coh d' = Cross.coh d := by simp only [Cross.coh, d']
  have hGxx : Cross.Gxx d' = Cross.Gxx d := by simp only [Cross.Gxx, d']
  have hGxy : Cross.Gxy d' = Cross.Gxy d := by simp only [Cross.Gxy, d']
  have hHxy : Cross.Hxy d' = Cross.Hxy d := by simp only [Cross.Hxy, d']
  have hnav : d'.navg = n' := rfl
  have hn'' : 0 < d'.navg := hn'
  have hg' : 0 < Cross.coh d' := hcoh ▸ hg
  have hg1' : Cross.coh d' ≤ 1 := hcoh ▸ hg1
  have e1 := AttrsB.Gxx_dev_mul_sqrt d' hn''
  have e2 := AttrsB.Gxy_dev_mul_sqrt d' hg' hn''
  have e3 := AttrsB.Hxy_dev_mul_sqrt d' hg' hg1' hn''
  have e4 := AttrsB.coh_dev_mul_sqrt d' hg' hg1' hn''
  rw [hnav] at e1 e2 e3 e4
  rw [e1, e2, e3, e4, hcoh, hGxx, hGxy, hHxy]
  exact ⟨AttrsB.Gxx_dev_mul_sqrt d hn, AttrsB.Gxy_dev_mul_sqrt d hg hn,
    AttrsB.Hxy_dev_mul_sqrt d hg hg1 hn, AttrsB.coh_dev_mul_sqrt d hg hg1 hn⟩

/-- phase error vs relative magnitude error -/
theorem phase_ge_mag (d : BinData ℝ) (hg : 0 < Cross.coh d) (hg1 : Cross.coh d ≤ 1)
    (hn : 1 ≤ d.navg) :
    Cross.Hxy_mag_error d ≤ Cross.Hxy_rad_error d := by
  rw [Hxy_mag_error_formula, Hxy_rad_error_formula]
  exact magErr_le_radErr hg hg1 hn

theorem phase_le_half_pi_mag (d : BinData ℝ) (hg : 0 < Cross.coh d) (hg1 : Cross.coh d ≤ 1)
    (hn : 1 ≤ d.navg) :
    Cross.Hxy_rad_error d ≤ Real.pi / 2 * Cross.Hxy_mag_error d := by
  rw [Hxy_mag_error_formula, Hxy_rad_error_formula]
  exact radErr_le_half_pi_magErr hg hg1 hn

/-- for auto-spectra the coherence entering the formulas is identically 1 -/
theorem auto_dev_uses_unit_coherence (d : BinData ℝ) :
    Auto.Gxx_dev d = Auto.Gxx d / Real.sqrt d.navg ∧ Auto.Gxx_error d = 1 / Real.sqrt d.navg :=
  ⟨(Gxx_dev_formula d).2, (Gxx_error_formula d).2.1⟩

/-! ## C11 — empirical error estimates from the segment scatter -/

theorem emp_var_formula (d : BinData ℝ) (hn : 0 < d.navg) :
    Cross.XY_emp_var d = d.M2 / d.navg ∧ Auto.XY_emp_var d = d.M2 / d.navg := by
  constructor <;>
    simp only [Cross.XY_emp_var, Auto.XY_emp_var, RL.gt_eq, RL.ofNat_eq, Nat.cast_zero, hn,
      decide_true, if_true]

theorem emp_var_nonneg (d : BinData ℝ) (hM : 0 ≤ d.M2) :
    0 ≤ Cross.XY_emp_var d ∧ 0 ≤ Auto.XY_emp_var d := by
  constructor <;>
  · simp only [Cross.XY_emp_var, Auto.XY_emp_var, RL.gt_eq, RL.ofNat_eq, Nat.cast_zero,
      RL.zero_eq, decide_eq_true_eq]
    split_ifs with h
    · exact div_nonneg hM h.le
    · exact le_rfl

theorem emp_var_zero_of_M2_zero (d : BinData ℝ) (hM : d.M2 = 0) :
    Cross.XY_emp_var d = 0 ∧ Auto.XY_emp_var d = 0 := by
  constructor <;>
    simp only [Cross.XY_emp_var, Auto.XY_emp_var, hM, zero_div, RL.zero_eq, ite_self]

theorem emp_dev_is_sqrt (d : BinData ℝ) :
    Cross.XY_emp_dev d = Real.sqrt (Cross.XY_emp_var d) ∧
    Auto.XY_emp_dev d = Real.sqrt (Auto.XY_emp_var d) := by
  constructor <;>
    simp only [Cross.XY_emp_dev, Auto.XY_emp_dev, Cross.XY_emp_var, Auto.XY_emp_var, RL.sqrt_eq]

/-- spectral units: multiply by 2/(fs·S2) -/
theorem emp_dev_is_scaled_emp (d : BinData ℝ) (hS2 : 0 < d.S2) :
    Auto.Gxx_emp_dev d = 2 / (d.fs * d.S2) * Auto.XY_emp_dev d ∧
    Cross.Gxy_emp_dev d = 2 / (d.fs * d.S2) * Cross.XY_emp_dev d := by
  constructor <;>
    simp only [Auto.Gxx_emp_dev, Cross.Gxy_emp_dev, Auto.XY_emp_dev, Cross.XY_emp_dev,
      AttrsB.ofSci_two, RL.gt_eq, RL.ofNat_eq, Nat.cast_zero, hS2, decide_true, if_true]

theorem Gxx_emp_dev_formula (d : BinData ℝ) (hS2 : 0 < d.S2) (hn : 0 < d.navg) :
    Auto.Gxx_emp_dev d = 2 / (d.fs * d.S2) * Real.sqrt (d.M2 / d.navg) := by
  rw [(emp_dev_is_scaled_emp d hS2).1, (emp_dev_is_sqrt d).2, (emp_var_formula d hn).2]

theorem Gxy_emp_dev_formula (d : BinData ℝ) (hS2 : 0 < d.S2) (hn : 0 < d.navg) :
    Cross.Gxy_emp_dev d = 2 / (d.fs * d.S2) * Real.sqrt (d.M2 / d.navg) := by
  rw [(emp_dev_is_scaled_emp d hS2).2, (emp_dev_is_sqrt d).1, (emp_var_formula d hn).1]

/-- exposed raw statistics -/
theorem raw_stats (d : BinData ℝ) :
    Cross.XX_mean d = d.XX ∧ Cross.YY_mean d = d.YY ∧ Auto.YY_mean d = d.XX ∧
    Cross.XY_M2 d = d.M2 ∧ Auto.XY_M2 d = d.M2 := by
  refine ⟨?_, ?_, ?_, ?_, ?_⟩ <;>
    simp only [Cross.XX_mean, Cross.YY_mean, Auto.YY_mean, Cross.XY_M2, Auto.XY_M2]

/-- non-vacuity: a concrete bin satisfying the hypotheses (0 < coh ≤ 1, navg ≥ 1) -/
example :
    let d : BinData ℝ :=
      { XX := 2, YY := 3, XY := ⟨1, 1⟩, S12 := 4, S2 := 2, M2 := 1, navg := 3, fs := 1 }
    0 < Cross.coh d ∧ Cross.coh d ≤ 1 ∧ 1 ≤ d.navg := by
  intro d
  have hc : Cross.coh d = 1 / 3 := by
    simp only [Cross.coh, d, Cx.abs, Cx.normSq, RL.sqrt_eq, RL.bne_eq, RL.ofNat_eq, Nat.cast_zero,
      RL.zero_eq]
    rw [Real.mul_self_sqrt (by norm_num)]
    norm_num
  rw [hc]
  refine ⟨by norm_num, by norm_num, ?_⟩
  show (1 : ℝ) ≤ 3
  norm_num

#print axioms Gxx_dev_formula
#print axioms Gyy_dev_formula
#print axioms Gxy_dev_formula
#print axioms Hxy_dev_formula
#print axioms coh_dev_formula
#print axioms Gxx_error_formula
#print axioms Gxy_error_formula
#print axioms Hxy_mag_error_formula
#print axioms Hxy_rad_error_formula
#print axioms Hxy_deg_error_formula
#print axioms coh_error_formula
#print axioms Gxx_dev_is_est_times_error
#print axioms Gxy_dev_is_est_times_error
#print axioms Hxy_dev_is_est_times_error
#print axioms coh_dev_is_est_times_error
#print axioms dev_scales_inv_sqrt_n
#print axioms phase_ge_mag
#print axioms phase_le_half_pi_mag
#print axioms auto_dev_uses_unit_coherence
#print axioms emp_var_formula
#print axioms emp_var_nonneg
#print axioms emp_var_zero_of_M2_zero
#print axioms emp_dev_is_sqrt
#print axioms Gxx_emp_dev_formula
#print axioms Gxy_emp_dev_formula
#print axioms emp_dev_is_scaled_emp
#print axioms raw_stats
