/-
  SpecKitV.Props.AttrsA — properties C20, C06, C09, C07 of the generated attribute definitions
  (`SpecKitV/Gen/Attrs.lean`), at `α := ℝ`.

  Layout: a small block of "closed form" lemmas is the only place that looks at how the generated
  definitions are spelled (guards `if bne S2 0 then … else 0`, literals `ofSci 20 true 1`).
  Since at ℝ division by zero is zero, every guard is absorbed:  e.g. `Gxx = 2·XX/(fs·S2)`
  unconditionally.  The requested theorems are then field algebra over the closed forms.
-/
import SpecKitV.RealInst
import SpecKitV.Lemmas.CxC
import SpecKitV.Gen.Attrs
open Gen

set_option linter.unusedVariables false
set_option linter.unnecessarySeqFocus false

namespace AttrsA

/-! ### closed forms (guards absorbed by `x / 0 = 0`) -/

theorem abs_mul_abs (z : Cx ℝ) : Cx.abs z * Cx.abs z = Cx.normSq z := by
  rw [Cx.abs, RL.sqrt_eq]
  exact Real.mul_self_sqrt (by unfold Cx.normSq; nlinarith [mul_self_nonneg z.re, mul_self_nonneg z.im])

theorem normSq_nonneg (z : Cx ℝ) : 0 ≤ Cx.normSq z := by
  unfold Cx.normSq; nlinarith [mul_self_nonneg z.re, mul_self_nonneg z.im]

theorem aGxx (d : BinData ℝ) : Auto.Gxx d = 2 * d.XX / (d.fs * d.S2) := by
  by_cases h : d.S2 = 0 <;> simp [Auto.Gxx, h] <;> norm_num

theorem aENBW (d : BinData ℝ) : Auto.ENBW d = d.fs * d.S2 / d.S12 := by
  by_cases h : d.S12 = 0 <;> simp [Auto.ENBW, h]

theorem cGxx (d : BinData ℝ) : Cross.Gxx d = 2 * d.XX / (d.fs * d.S2) := by
  by_cases h : d.S2 = 0 <;> simp [Cross.Gxx, h] <;> norm_num

theorem cGyy (d : BinData ℝ) : Cross.Gyy d = 2 * d.YY / (d.fs * d.S2) := by
  by_cases h : d.S2 = 0 <;> simp [Cross.Gyy, h] <;> norm_num

theorem cENBW (d : BinData ℝ) : Cross.ENBW d = d.fs * d.S2 / d.S12 := by
  by_cases h : d.S12 = 0 <;> simp [Cross.ENBW, h]

theorem cGxy (d : BinData ℝ) :
    Cx.toC (Cross.Gxy d) = (2 : ℂ) * Cx.toC d.XY / ((d.fs * d.S2 : ℝ) : ℂ) := by
  by_cases h : d.S2 = 0 <;> simp [Cross.Gxy, h] <;> norm_num

theorem cHxy (d : BinData ℝ) :
    Cx.toC (Cross.Hxy d) = (starRingEnd ℂ) (Cx.toC d.XY) / (d.XX : ℂ) := by
  by_cases h : d.XX = 0 <;> simp [Cross.Hxy, h]

theorem cHyx (d : BinData ℝ) :
    Cx.toC (Cross.Hyx d) = Cx.toC d.XY / (d.XX : ℂ) := by
  simp [Cross.Hyx, cHxy]

theorem cGyx (d : BinData ℝ) :
    Cx.toC (Cross.Gyx d) = (2 : ℂ) * (starRingEnd ℂ) (Cx.toC d.XY) / ((d.fs * d.S2 : ℝ) : ℂ) := by
  simp [Cross.Gyx, cGxy, map_ofNat]

theorem ccoh (d : BinData ℝ) : Cross.coh d = Cx.normSq d.XY / (d.XX * d.YY) := by
  by_cases hx : d.XX = 0 <;> by_cases hy : d.YY = 0 <;>
    simp [Cross.coh, abs_mul_abs, hx, hy]

theorem normSq_smul (c : ℝ) (z : Cx ℝ) : Cx.normSq (Cx.smul c z) = c ^ 2 * Cx.normSq z := by
  simp only [Cx.normSq, Cx.smul]; ring

theorem normSq_conj (z : Cx ℝ) : Cx.normSq (Cx.conj z) = Cx.normSq z := by
  simp only [Cx.normSq, Cx.conj]; ring

end AttrsA

open AttrsA

/-! ## C20 — derived quantities are the documented functions of the base estimates -/

theorem psd_alias (d : BinData ℝ) : Auto.psd d = Auto.Gxx d ∧ Auto.G d = Auto.Gxx d :=
  ⟨rfl, rfl⟩

theorem asd_sq (d : BinData ℝ) (hXX : 0 ≤ d.XX) (hS2 : 0 ≤ d.S2) (hfs : 0 < d.fs) :
    (Auto.asd d) ^ 2 = Auto.psd d := by
  have h : 0 ≤ Auto.psd d := by
    rw [(psd_alias d).1, aGxx]; positivity
  simp only [Auto.asd, RL.sqrt_eq]
  exact Real.sq_sqrt h

theorem ps_def (d : BinData ℝ) : Auto.ps d = Auto.psd d * Auto.ENBW d := rfl

theorem csd_alias (d : BinData ℝ) : Cross.csd d = Cross.Gxy d := rfl

/- requested spelling `(Cross.ENBW d : ℂ)` does not elaborate (the ascription makes Lean look for
   `RealLike ℂ`); the cast is written `((Cross.ENBW d : ℝ) : ℂ)`, same meaning. -/
theorem cs_def (d : BinData ℝ) :
    Cx.toC (Cross.cs d) = Cx.toC (Cross.csd d) * ((Cross.ENBW d : ℝ) : ℂ) := by
  simp only [Cross.cs, Cx.toC_smul]; ring

theorem tf_alias (d : BinData ℝ) : Cross.tf d = Cross.Hxy d := rfl

theorem cf_def (d : BinData ℝ) : Cross.cf d = ‖Cx.toC (Cross.Hxy d)‖ := by
  simp only [Cross.cf, Cx.abs_eq]

theorem cf_db_def (d : BinData ℝ) : Cross.cf_db d = 20 * Real.logb 10 (Cross.cf d) := by
  simp only [Cross.cf_db, RL.ofSci_eq, RL.log10_eq]; norm_num

theorem deg_rad (d : BinData ℝ) : Cross.cf_deg d = Cross.cf_rad d * (180 / Real.pi) := by
  simp [Cross.cf_deg, Cross.cf_rad]

theorem cf_rad_def (d : BinData ℝ) : Cross.cf_rad d = Complex.arg (Cx.toC (Cross.Hxy d)) := by
  simp only [Cross.cf_rad, RL.atan2_eq, Cx.toC]

theorem Gyx_conj (d : BinData ℝ) :
    Cx.toC (Cross.Gyx d) = (starRingEnd ℂ) (Cx.toC (Cross.Gxy d)) := by
  simp only [Cross.Gyx, Cx.toC_conj]

theorem Hyx_conj (d : BinData ℝ) :
    Cx.toC (Cross.Hyx d) = (starRingEnd ℂ) (Cx.toC (Cross.Hxy d)) := by
  simp only [Cross.Hyx, Cx.toC_conj]

/-- exactly these are None for the other analysis type (tables are generated from the code) -/
theorem none_table_cross : Cross.noneNames = ["G", "Gxx_emp_dev", "asd", "ps", "psd"] := rfl

theorem none_table_auto : Auto.noneNames = ["Gxy_dev", "Gxy_emp_dev", "Gxy_error", "Gyx", "GyyCx", "GyyRx", "GyySx", "Hxy", "Hxy_deg_error", "Hxy_dev", "Hxy_mag_error", "Hxy_rad_error", "Hyx", "ccoh", "cf", "cf_db", "cf_deg", "cf_rad", "coh", "coh_dev", "coh_error", "cs", "csd", "tf"] := rfl

/-! ## C06 — calibration
The non-vanishing hypotheses of `Gxx_def`, `Gxy_def`, `enbw_def`, `coh_def` are kept as requested but
are not needed: the zero guard of the code coincides with `x / 0 = 0` in ℝ/ℂ
(see `AttrsA.cGxx`, `AttrsA.cGxy`, `AttrsA.cENBW`, `AttrsA.ccoh` for the unconditional forms). -/

theorem Gxx_def (d : BinData ℝ) (hS2 : d.S2 ≠ 0) :
    Cross.Gxx d = 2 * d.XX / (d.fs * d.S2) ∧ Auto.Gxx d = 2 * d.XX / (d.fs * d.S2) :=
  ⟨cGxx d, aGxx d⟩

theorem Gxy_def (d : BinData ℝ) (hS2 : d.S2 ≠ 0) :
    Cx.toC (Cross.Gxy d) = (2 : ℂ) * Cx.toC d.XY / ((d.fs * d.S2 : ℝ) : ℂ) := cGxy d

theorem enbw_def (d : BinData ℝ) (h : d.S12 ≠ 0) :
    Auto.ENBW d = d.fs * d.S2 / d.S12 ∧ Cross.ENBW d = d.fs * d.S2 / d.S12 :=
  ⟨aENBW d, cENBW d⟩

/-- power spectrum = density × ENBW = 2·XX/S1² (the calibrated quantity) -/
theorem ps_eq (d : BinData ℝ) (S1 : ℝ) (h12 : d.S12 = S1 ^ 2) (hS1 : S1 ≠ 0) (hS2 : d.S2 ≠ 0)
    (hfs : d.fs ≠ 0) : Auto.ps d = 2 * d.XX / S1 ^ 2 := by
  rw [ps_def, (psd_alias d).1, aGxx, aENBW, h12]
  field_simp

/-- scaling the first channel by c: XX ↦ c²XX, XY ↦ c·XY -/
theorem scale_x (d : BinData ℝ) (c : ℝ) (hc : c ≠ 0) :
    let d' : BinData ℝ := { d with XX := c ^ 2 * d.XX, XY := Cx.smul c d.XY }
    Cross.Gxx d' = c ^ 2 * Cross.Gxx d ∧ Cross.Gyy d' = Cross.Gyy d ∧
    Cx.toC (Cross.Gxy d') = (c : ℂ) * Cx.toC (Cross.Gxy d) ∧
    Cross.coh d' = Cross.coh d ∧ Cx.toC (Cross.Hxy d') = Cx.toC (Cross.Hxy d) / (c : ℂ) := by
  intro d'
  have hcC : (c : ℂ) ≠ 0 := by exact_mod_cast hc
  refine ⟨?_, ?_, ?_, ?_, ?_⟩
  · simp only [cGxx, d']; ring
  · simp only [cGyy, d']
  · simp only [cGxy, d', Cx.toC_smul]; ring
  · simp only [ccoh, d', normSq_smul]
    by_cases hx : d.XX = 0
    · simp [hx]
    by_cases hy : d.YY = 0
    · simp [hy]
    field_simp
  · simp only [cHxy, d', Cx.toC_smul, map_mul, Complex.conj_ofReal]
    by_cases hx : d.XX = 0
    · simp [hx]
    have hxC : (d.XX : ℂ) ≠ 0 := by exact_mod_cast hx
    push_cast
    field_simp

/-- scaling the second channel by c: YY ↦ c²YY, XY ↦ c·XY -/
theorem scale_y (d : BinData ℝ) (c : ℝ) (hc : c ≠ 0) :
    let d' : BinData ℝ := { d with YY := c ^ 2 * d.YY, XY := Cx.smul c d.XY }
    Cross.Gyy d' = c ^ 2 * Cross.Gyy d ∧ Cross.Gxx d' = Cross.Gxx d ∧
    Cx.toC (Cross.Gxy d') = (c : ℂ) * Cx.toC (Cross.Gxy d) ∧
    Cross.coh d' = Cross.coh d ∧ Cx.toC (Cross.Hxy d') = (c : ℂ) * Cx.toC (Cross.Hxy d) := by
  intro d'
  refine ⟨?_, ?_, ?_, ?_, ?_⟩
  · simp only [cGyy, d']; ring
  · simp only [cGxx, d']
  · simp only [cGxy, d', Cx.toC_smul]; ring
  · simp only [ccoh, d', normSq_smul]
    by_cases hx : d.XX = 0
    · simp [hx]
    by_cases hy : d.YY = 0
    · simp [hy]
    field_simp
  · simp only [cHxy, d', Cx.toC_smul, map_mul, Complex.conj_ofReal]; ring

/-- relabelling the sampling rate fs ↦ a·fs (same samples, same raw statistics) -/
theorem scale_fs (d : BinData ℝ) (a : ℝ) (ha : 0 < a) :
    let d' : BinData ℝ := { d with fs := a * d.fs }
    Auto.Gxx d' = Auto.Gxx d / a ∧ Auto.ENBW d' = a * Auto.ENBW d ∧ Auto.ps d' = Auto.ps d ∧
    Cross.coh d' = Cross.coh d ∧ Cross.Hxy d' = Cross.Hxy d ∧
    Cx.toC (Cross.Gxy d') = Cx.toC (Cross.Gxy d) / (a : ℂ) := by
  intro d'
  have ha' : a ≠ 0 := ha.ne'
  have haC : (a : ℂ) ≠ 0 := by exact_mod_cast ha'
  have h1 : Auto.Gxx d' = Auto.Gxx d / a := by
    simp only [aGxx, d']
    by_cases h : d.fs * d.S2 = 0
    · rw [mul_assoc, h]; simp
    · field_simp
  have h2 : Auto.ENBW d' = a * Auto.ENBW d := by
    simp only [aENBW, d']; ring
  refine ⟨h1, h2, ?_, ?_, ?_, ?_⟩
  · rw [ps_def, ps_def, (psd_alias d').1, (psd_alias d).1, h1, h2]; field_simp
  · simp only [ccoh, d']
  · apply Cx.toC_injective; simp only [cHxy, d']
  · simp only [cGxy, d']
    by_cases h : d.fs * d.S2 = 0
    · rw [mul_assoc, h]; simp
    · have hC : ((d.fs * d.S2 : ℝ) : ℂ) ≠ 0 := by exact_mod_cast h
      push_cast at hC ⊢
      field_simp

/-! ## C09 — identities and bounds.  `CS d` is the Cauchy–Schwarz fact that every real estimate
satisfies (proved for the estimator elsewhere). -/

def CS (d : BinData ℝ) : Prop := 0 ≤ d.XX ∧ 0 ≤ d.YY ∧ Cx.normSq d.XY ≤ d.XX * d.YY

theorem coh_bounds (d : BinData ℝ) (h : CS d) : 0 ≤ Cross.coh d ∧ Cross.coh d ≤ 1 := by
  obtain ⟨hx, hy, hcs⟩ := h
  rw [ccoh]
  have hp : 0 ≤ d.XX * d.YY := mul_nonneg hx hy
  exact ⟨div_nonneg (normSq_nonneg _) hp, div_le_one_of_le₀ hcs hp⟩

theorem Gxy_sq_le (d : BinData ℝ) (h : CS d) (hfs : 0 < d.fs) :
    Cx.normSq (Cross.Gxy d) ≤ Cross.Gxx d * Cross.Gyy d := by
  obtain ⟨hx, hy, hcs⟩ := h
  have e : Cx.normSq (Cross.Gxy d) = (2 / (d.fs * d.S2)) ^ 2 * Cx.normSq d.XY := by
    rw [Cx.normSq_eq, cGxy, Cx.normSq_eq]
    rw [show (2 : ℂ) * Cx.toC d.XY / ((d.fs * d.S2 : ℝ) : ℂ)
        = ((2 / (d.fs * d.S2) : ℝ) : ℂ) * Cx.toC d.XY by push_cast; ring]
    rw [Complex.normSq_mul, Complex.normSq_ofReal]; ring
  rw [e, cGxx, cGyy]
  have : 2 * d.XX / (d.fs * d.S2) * (2 * d.YY / (d.fs * d.S2))
      = (2 / (d.fs * d.S2)) ^ 2 * (d.XX * d.YY) := by ring
  rw [this]
  exact mul_le_mul_of_nonneg_left hcs (sq_nonneg _)

theorem coh_def (d : BinData ℝ) (hx : d.XX ≠ 0) (hy : d.YY ≠ 0) :
    Cross.coh d = Cx.normSq d.XY / (d.XX * d.YY) := ccoh d

theorem coh_one_of_eq (d : BinData ℝ) (hx : d.XX ≠ 0) (hy : d.YY ≠ 0)
    (h : Cx.normSq d.XY = d.XX * d.YY) : Cross.coh d = 1 := by
  rw [ccoh, h]; exact div_self (mul_ne_zero hx hy)

/-- swapping the channels -/
theorem swap_channels (d : BinData ℝ) :
    let d' : BinData ℝ := { d with XX := d.YY, YY := d.XX, XY := Cx.conj d.XY }
    Cross.coh d' = Cross.coh d ∧ Cross.Gxx d' = Cross.Gyy d ∧ Cross.Gyy d' = Cross.Gxx d ∧
    Cross.Gxy d' = Cx.conj (Cross.Gxy d) := by
  intro d'
  refine ⟨?_, ?_, ?_, ?_⟩
  · simp only [ccoh, d', normSq_conj, mul_comm]
  · simp only [cGxx, cGyy, d']
  · simp only [cGxx, cGyy, d']
  · apply Cx.toC_injective
    simp only [cGxy, d', Cx.toC_conj, map_div₀, map_mul, Complex.conj_ofReal, map_ofNat]

theorem conditioned_sum (d : BinData ℝ) : Cross.GyyCx d + Cross.GyyRx d = Cross.Gyy d := by
  simp only [Cross.GyyCx, Cross.GyyRx, RL.ofNat_eq]; push_cast; ring

/-- the optimal-subtraction residual equals Gyy·(1 − coherence), for every complex XY
(phase/delay included).  The complex number inside `|·|` in `GyySx` is shown to be the real
number `Gyy·(1 − coh)`; `CS` is only needed in the corner `YY = 0 ≠ XX` (it forces `XY = 0`). -/
theorem residual_identity (d : BinData ℝ) (h : CS d) :
    Cross.GyySx d = |Cross.Gyy d * (1 - Cross.coh d)| := by
  obtain ⟨hx, hy, hcs⟩ := h
  simp only [Cross.GyySx, Cx.abs_eq]
  rw [← Real.norm_eq_abs, ← Complex.norm_real]
  congr 1
  simp only [Cx.toC_sub, Cx.toC_add, Cx.toC_mul, Cx.toC_smul, Cx.toC_ofReal, cHxy, cHyx, cGxy, cGyx,
    cGxx, cGyy, ccoh]
  have hn : (starRingEnd ℂ) (Cx.toC d.XY) * Cx.toC d.XY = ((Cx.normSq d.XY : ℝ) : ℂ) := by
    rw [Cx.normSq_eq, mul_comm, Complex.mul_conj]
  by_cases hX : d.XX = 0
  · simp [hX]
  by_cases hY : d.YY = 0
  · have h0 : Cx.normSq d.XY = 0 := le_antisymm (by simpa [hY] using hcs) (normSq_nonneg _)
    have hz : Cx.toC d.XY = 0 := by
      rw [Cx.normSq_eq] at h0; exact Complex.normSq_eq_zero.mp h0
    simp [hY, hz]
  have hXC : (d.XX : ℂ) ≠ 0 := by exact_mod_cast hX
  have hYC : (d.YY : ℂ) ≠ 0 := by exact_mod_cast hY
  by_cases hF : d.fs * d.S2 = 0
  · simp [hF]
  have hFC : (d.fs : ℂ) * (d.S2 : ℂ) ≠ 0 := by exact_mod_cast hF
  push_cast
  rw [← hn]
  field_simp
  ring

theorem residual_identity' (d : BinData ℝ) (h : CS d) (hfs : 0 < d.fs) (hS2 : 0 ≤ d.S2) :
    Cross.GyySx d = Cross.Gyy d * (1 - Cross.coh d) := by
  rw [residual_identity d h]
  apply abs_of_nonneg
  have hc := coh_bounds d h
  obtain ⟨hx, hy, hcs⟩ := h
  apply mul_nonneg
  · rw [cGyy]; positivity
  · linarith [hc.2]

theorem residual_eq_GyyRx (d : BinData ℝ) (h : CS d) (hfs : 0 < d.fs) (hS2 : 0 ≤ d.S2) :
    Cross.GyySx d = Cross.GyyRx d := by
  rw [residual_identity' d h hfs hS2]
  simp only [Cross.GyyRx, RL.ofNat_eq]; push_cast; ring

/-- the auto-density of a channel is the same function of XX whether analysed alone or in a pair -/
theorem auto_consistent (d : BinData ℝ) : Auto.Gxx d = Cross.Gxx d := by
  rw [aGxx, cGxx]

/-! ## C07 — transfer function -/

/-- static gain: Y = g·X in every segment gives XY = g·XX (real), YY = g²·XX -/
theorem tf_static_gain (d : BinData ℝ) (g : ℝ) (hx : d.XX ≠ 0) (hXY : d.XY = Cx.ofReal (g * d.XX))
    (hYY : d.YY = g ^ 2 * d.XX) :
    Cx.toC (Cross.Hxy d) = (g : ℂ) ∧ (g ≠ 0 → Cross.coh d = 1) := by
  have hxC : (d.XX : ℂ) ≠ 0 := by exact_mod_cast hx
  constructor
  · rw [cHxy, hXY, Cx.toC_ofReal, Complex.conj_ofReal]; push_cast; field_simp
  · intro hg
    rw [ccoh, hXY, hYY]
    simp only [Cx.normSq, Cx.ofReal, RL.ofNat_eq]
    push_cast
    field_simp
    ring

theorem tf_zero_input (d : BinData ℝ) (hx : d.XX = 0) :
    Cx.toC (Cross.Hxy d) = 0 ∧ Cross.coh d = 0 := by
  rw [cHxy, ccoh, hx]; simp

/-- one segment: Hxy = Y/X, i.e. conj(X)·Y/|X|² — a lagging output has negative phase -/
theorem tf_is_Y_over_X (d : BinData ℝ) (X Y : ℂ) (hX : X ≠ 0) (hXX : d.XX = Complex.normSq X)
    (hXY : Cx.toC d.XY = X * (starRingEnd ℂ) Y) : Cx.toC (Cross.Hxy d) = Y / X := by
  rw [cHxy, hXY, hXX, map_mul, Complex.conj_conj, Complex.normSq_eq_conj_mul_self]
  have hc : (starRingEnd ℂ) X ≠ 0 := by simpa using hX
  field_simp

/-- non-vacuity of the hypotheses used above -/
example : CS { XX := 2, YY := 3, XY := ⟨1, 1⟩, S12 := 4, S2 := 2, M2 := 0, navg := 3, fs := 1 } := by
  refine ⟨by norm_num, by norm_num, ?_⟩; simp [Cx.normSq]; norm_num

#print axioms psd_alias
#print axioms asd_sq
#print axioms ps_def
#print axioms csd_alias
#print axioms cs_def
#print axioms tf_alias
#print axioms cf_def
#print axioms cf_db_def
#print axioms deg_rad
#print axioms cf_rad_def
#print axioms Gyx_conj
#print axioms Hyx_conj
#print axioms none_table_cross
#print axioms none_table_auto
#print axioms Gxx_def
#print axioms Gxy_def
#print axioms enbw_def
#print axioms ps_eq
#print axioms scale_x
#print axioms scale_y
#print axioms scale_fs
#print axioms coh_bounds
#print axioms Gxy_sq_le
#print axioms coh_one_of_eq
#print axioms coh_def
#print axioms swap_channels
#print axioms conditioned_sum
#print axioms residual_identity
#print axioms residual_identity'
#print axioms residual_eq_GyyRx
#print axioms auto_consistent
#print axioms tf_static_gain
#print axioms tf_zero_input
#print axioms tf_is_Y_over_X
