/-
  SpecKitV.Props.C04Vec — property C04 for the vectorised (lookup-table) scheduler:
  the parameter map is monotone in the grid frequency, the lookup grid is non-decreasing and
  positive, hence along `Model.vecPlan` the segment length never increases and the number of
  averages never decreases.
-/
import SpecKitV.RealInst
import SpecKitV.Props.C04

set_option linter.unusedVariables false

namespace VecMono
open Model
open SchedNV hiding Adm RLadd RLsub RLmul RLdiv

/-! ### the map entry as a function of the pre-rule length -/

/-- `SchedNV.vecGridPoint_eq` with its witness made explicit -/
theorem vecGridPoint_eq' (c : Cfg ℝ) (xov rmin ravg clog fg : ℝ) :
    vecGridPoint c xov rmin ravg clog fg =
      ((binAt c xov fg (vecGridPoint.clampClip c.N c.Lmin (vecL c rmin ravg clog fg))).1,
       (binAt c xov fg (vecGridPoint.clampClip c.N c.Lmin (vecL c rmin ravg clog fg))).2.2.1,
       (binAt c xov fg (vecGridPoint.clampClip c.N c.Lmin (vecL c rmin ravg clog fg))).2.2.2) := by
  unfold Model.vecGridPoint vecL
  dsimp only
  rw [binAt]
  dsimp only
  rw [← cnt_ruleL c.N xov]
  simp only [ruleL, cnt, RL.ofInt_eq, RL.ofNat_eq, RL.one_eq, RLadd, RLmul, RLdiv, beq_iff_eq]
  rfl

/-- clamped length before the single-segment rule -/
noncomputable def len0 (c : Cfg ℝ) (rmin ravg clog fg : ℝ) : ℕ :=
  vecGridPoint.clampClip c.N c.Lmin (vecL c rmin ravg clog fg)

theorem vecGridPoint_L (c : Cfg ℝ) (xov rmin ravg clog fg : ℝ) :
    (vecGridPoint c xov rmin ravg clog fg).2.1 = ruleL c.N xov (len0 c rmin ravg clog fg) := by
  rw [vecGridPoint_eq']; rfl

theorem vecGridPoint_K (c : Cfg ℝ) (xov rmin ravg clog fg : ℝ) :
    (vecGridPoint c xov rmin ravg clog fg).2.2 =
      capK c.N (ruleL c.N xov (len0 c rmin ravg clog fg)) (cnt c.N xov (len0 c rmin ravg clog fg)) := by
  rw [vecGridPoint_eq']; rfl

/-! ### the target resolution -/

/-- the resolution `vecGridPoint` aims for (after the `bmin` enforcement) -/
noncomputable def vres (c : Cfg ℝ) (rmin ravg clog fg : ℝ) : ℝ :=
  let rp := fg * clog
  let sq := Real.sqrt (ravg * rp)
  let rpp := if ravg ≤ rp then rp else if rmin < sq then sq else rmin
  if fg / rpp < c.bmin then fg / c.bmin else rpp

theorem vecL_eq (c : Cfg ℝ) (rmin ravg clog fg : ℝ) :
    vecL c rmin ravg clog fg = RealLike.roundEven (c.fs / vres c rmin ravg clog fg) := by
  unfold vecL vres
  simp only [RL.ge_eq, RL.gt_eq, RL.lt_eq, RL.sqrt_eq, decide_eq_true_eq]

theorem vres_eq_min (c : Cfg ℝ) (hb0 : 0 < c.bmin) (rmin ravg clog fg : ℝ)
    (hr : 0 < rmin) (hra : rmin ≤ ravg) :
    vres c rmin ravg clog fg = min (SchedLtf.gres ravg rmin (fg * clog)) (fg / c.bmin) := by
  have e : (if ravg ≤ fg * clog then fg * clog
        else if rmin < Real.sqrt (ravg * (fg * clog)) then Real.sqrt (ravg * (fg * clog)) else rmin)
      = SchedLtf.gres ravg rmin (fg * clog) := by
    unfold SchedLtf.gres
    split_ifs with h1 h2
    · rfl
    · exact (max_eq_left h2.le).symm
    · exact (max_eq_right (not_lt.mp h2)).symm
  unfold vres
  dsimp only
  rw [e]
  have hg : 0 < SchedLtf.gres ravg rmin (fg * clog) := SchedLtf.gres_pos hr hra
  have hiff : fg / SchedLtf.gres ravg rmin (fg * clog) < c.bmin ↔
      fg / c.bmin < SchedLtf.gres ravg rmin (fg * clog) := by
    rw [div_lt_iff₀ hg, div_lt_iff₀ hb0, mul_comm]
  by_cases h1 : fg / SchedLtf.gres ravg rmin (fg * clog) < c.bmin
  · rw [if_pos h1, min_eq_right (hiff.mp h1).le]
  · rw [if_neg h1, min_eq_left (not_lt.mp (fun hh => h1 (hiff.mpr hh)))]

theorem vres_pos (c : Cfg ℝ) (hb0 : 0 < c.bmin) (rmin ravg clog fg : ℝ)
    (hr : 0 < rmin) (hra : rmin ≤ ravg) (hfg : 0 < fg) : 0 < vres c rmin ravg clog fg := by
  rw [vres_eq_min c hb0 rmin ravg clog fg hr hra]
  exact lt_min (SchedLtf.gres_pos hr hra) (div_pos hfg hb0)

theorem vres_mono (c : Cfg ℝ) (hb0 : 0 < c.bmin) (rmin ravg clog : ℝ)
    (hr : 0 < rmin) (hra : rmin ≤ ravg) (hc : 0 < clog) {f1 f2 : ℝ} (h12 : f1 ≤ f2) :
    vres c rmin ravg clog f1 ≤ vres c rmin ravg clog f2 := by
  rw [vres_eq_min c hb0 rmin ravg clog f1 hr hra, vres_eq_min c hb0 rmin ravg clog f2 hr hra]
  exact min_le_min (SchedLtf.gres_mono hr hra (mul_le_mul_of_nonneg_right h12 hc.le))
    (div_le_div_of_nonneg_right h12 hb0.le)

/-! ### monotonicity of the integer pieces -/

theorem clampClip_mono (N Lmin : ℕ) {l1 l2 : ℤ} (h : l1 ≤ l2) :
    vecGridPoint.clampClip N Lmin l1 ≤ vecGridPoint.clampClip N Lmin l2 := by
  unfold vecGridPoint.clampClip
  dsimp only
  split_ifs <;> omega

theorem len0_anti (c : Cfg ℝ) (h : Adm c) (rmin ravg clog : ℝ)
    (hr : 0 < rmin) (hra : rmin ≤ ravg) (hc : 0 < clog) {f1 f2 : ℝ} (h1 : 0 < f1) (h12 : f1 ≤ f2) :
    len0 c rmin ravg clog f2 ≤ len0 c rmin ravg clog f1 := by
  have hb0 : 0 < c.bmin := by linarith [h.hbmin1]
  unfold len0
  apply clampClip_mono
  rw [vecL_eq, vecL_eq]
  apply roundEven_mono
  exact div_le_div_of_nonneg_left h.hfs.le (vres_pos c hb0 rmin ravg clog f1 hr hra h1)
    (vres_mono c hb0 rmin ravg clog hr hra hc h12)

/-- the (uncapped) count does not increase with the length -/
theorem cnt_anti (N : ℕ) (xov : ℝ) (hx : 0 < xov) {L1 L2 : ℕ} (h1 : 1 ≤ L1) (h12 : L1 ≤ L2)
    (h2 : L2 ≤ N) : cnt N xov L2 ≤ cnt N xov L1 := by
  unfold cnt
  apply roundEven_mono
  have hL1 : (0 : ℝ) < (L1 : ℝ) := by exact_mod_cast h1
  have hL2 : (0 : ℝ) < (L2 : ℝ) := by exact_mod_cast (le_trans h1 h12)
  have hL12 : (L1 : ℝ) ≤ (L2 : ℝ) := by exact_mod_cast h12
  have hN2 : (L2 : ℝ) ≤ (N : ℝ) := by exact_mod_cast h2
  have key : (((N : ℤ) - (L2 : ℤ) : ℤ) : ℝ) / (xov * (L2 : ℝ))
      ≤ (((N : ℤ) - (L1 : ℤ) : ℤ) : ℝ) / (xov * (L1 : ℝ)) := by
    push_cast
    rw [div_le_div_iff₀ (by positivity) (by positivity)]
    have hN0 : (0 : ℝ) ≤ (N : ℝ) := by positivity
    nlinarith [mul_le_mul_of_nonneg_left hL12 (mul_nonneg hx.le hN0)]
  linarith

/-- the single-segment rule preserves the order of the lengths -/
theorem ruleL_mono (N : ℕ) (xov : ℝ) (hx : 0 < xov) {a b : ℕ} (ha : 1 ≤ a) (hab : a ≤ b)
    (hb : b ≤ N) : ruleL N xov a ≤ ruleL N xov b := by
  have hn := cnt_anti N xov hx ha hab hb
  have hb1 := cnt_ge_one N xov b hx (le_trans ha hab) hb
  unfold ruleL
  by_cases h1 : cnt N xov a = 1
  · have h2 : cnt N xov b = 1 := by omega
    rw [if_pos h1, if_pos h2]
  · rw [if_neg h1]
    split_ifs <;> omega

end VecMono

open VecMono PlanC02 PlanC03

/-- the map entry is monotone in the grid frequency: larger fg ⇒ L not larger, K not smaller -/
theorem vecGridPoint_mono (c : Model.Cfg ℝ) (h : Adm c) (rmin ravg clog f1 f2 : ℝ)
    (hr : 0 < rmin) (hra : rmin ≤ ravg) (hc : 0 < clog) (h1 : 0 < f1) (h12 : f1 ≤ f2) :
    (Model.vecGridPoint c (1 - c.olap) rmin ravg clog f2).2.1 ≤ (Model.vecGridPoint c (1 - c.olap) rmin ravg clog f1).2.1 ∧
    (Model.vecGridPoint c (1 - c.olap) rmin ravg clog f1).2.2 ≤ (Model.vecGridPoint c (1 - c.olap) rmin ravg clog f2).2.2 := by
  have hx : 0 < 1 - c.olap := by linarith [h.holap1]
  have hlen := len0_anti c h rmin ravg clog hr hra hc h1 h12
  have hb1 := SchedNV.clampClip_bounds c.N c.Lmin h.hLminN (SchedNV.vecL c rmin ravg clog f1)
  have hb2 := SchedNV.clampClip_bounds c.N c.Lmin h.hLminN (SchedNV.vecL c rmin ravg clog f2)
  have hLmin := h.hLmin1
  have h21 : 1 ≤ len0 c rmin ravg clog f2 := le_trans hLmin hb2.1
  have h1N : len0 c rmin ravg clog f1 ≤ c.N := hb1.2
  have hL := ruleL_mono c.N (1 - c.olap) hx h21 hlen h1N
  have hK := cnt_anti c.N (1 - c.olap) hx h21 hlen h1N
  rw [vecGridPoint_L, vecGridPoint_L, vecGridPoint_K, vecGridPoint_K]
  refine ⟨hL, ?_⟩
  rw [SchedLtf.capK_eq, SchedLtf.capK_eq]
  omega

/-! ### the lookup grid -/

namespace VecMono
open Model

/-- exponent of the `i`-th point of `logGrid a b n` -/
noncomputable def gy (a b : ℝ) (n i : ℕ) : ℝ :=
  if n ≤ 1 then a else if i + 1 = n then b else a + (i : ℝ) * ((b - a) / ((n - 1 : ℕ) : ℝ))

theorem logGrid_eq (a b : ℝ) (n i : ℕ) : logGrid a b n i = (10 : ℝ) ^ gy a b n i := by
  unfold logGrid gy
  simp only [RL.pow_eq, RL.ofNat_eq, beq_iff_eq, Nat.cast_ofNat, RLadd, RLmul,
    RLsub, RLdiv]

theorem gy_mono (a b : ℝ) (hab : a ≤ b) (n : ℕ) {i j : ℕ} (hij : i ≤ j) (hj : j < n) :
    gy a b n i ≤ gy a b n j := by
  unfold gy
  by_cases hn : n ≤ 1
  · rw [if_pos hn, if_pos hn]
  · rw [if_neg hn, if_neg hn]
    have hm : (0 : ℝ) < ((n - 1 : ℕ) : ℝ) := by
      have : 0 < n - 1 := by omega
      exact_mod_cast this
    have hs : 0 ≤ (b - a) / ((n - 1 : ℕ) : ℝ) := div_nonneg (by linarith) hm.le
    by_cases hjn : j + 1 = n
    · rw [if_pos hjn]
      by_cases hin : i + 1 = n
      · rw [if_pos hin]
      · rw [if_neg hin]
        have hi : (i : ℝ) ≤ ((n - 1 : ℕ) : ℝ) := by
          have : i ≤ n - 1 := by omega
          exact_mod_cast this
        have e : ((n - 1 : ℕ) : ℝ) * ((b - a) / ((n - 1 : ℕ) : ℝ)) = b - a := by
          field_simp
        have := mul_le_mul_of_nonneg_right hi hs
        linarith
    · have hin : ¬ i + 1 = n := by omega
      rw [if_neg hjn, if_neg hin]
      have hi : (i : ℝ) ≤ (j : ℝ) := by exact_mod_cast hij
      have := mul_le_mul_of_nonneg_right hi hs
      linarith

theorem vecGrid_eq (c : Cfg ℝ) (i : ℕ) :
    vecGrid c i = (10 : ℝ) ^ gy (Real.logb 10 (c.bmin * c.fs / (c.N : ℝ))) (Real.logb 10 (c.fs / 2))
      (10 * c.Jdes) i := by
  unfold vecGrid
  rw [logGrid_eq]
  simp only [RL.log10_eq, RL.ofNat_eq, RL.two_eq, RLmul, RLdiv]

theorem log_ends (c : Cfg ℝ) (h : Adm c) :
    Real.logb 10 (c.bmin * c.fs / (c.N : ℝ)) ≤ Real.logb 10 (c.fs / 2) := by
  have hN := SchedLtf.N_pos c h
  have hfs := h.hfs
  have hb1 := h.hbmin1
  have hbN := h.hbminN
  apply Real.logb_le_logb_of_le (by norm_num)
  · have : 0 < c.bmin := by linarith
    positivity
  · rw [div_le_div_iff₀ hN (by norm_num)]
    nlinarith

end VecMono

/-- the lookup grid is non-decreasing and positive -/
theorem vecGrid_mono (c : Model.Cfg ℝ) (h : Adm c) : ∀ i j, i ≤ j → j < 10 * c.Jdes → Model.vecGrid c i ≤ Model.vecGrid c j := by
  intro i j hij hj
  rw [vecGrid_eq, vecGrid_eq]
  exact Real.rpow_le_rpow_of_exponent_le (by norm_num) (gy_mono _ _ (log_ends c h) _ hij hj)

theorem vecGrid_pos (c : Model.Cfg ℝ) (h : Adm c) (i : ℕ) : 0 < Model.vecGrid c i := by
  rw [vecGrid_eq]
  exact Real.rpow_pos_of_pos (by norm_num) _

/-! ### the plan -/

namespace VecMono
open Model

theorem vecMap_eq (c : Cfg ℝ) (i : ℕ) :
    vecMap c i = vecGridPoint c (1 - c.olap) (c.fs / (c.N : ℝ))
      (c.fs / (c.N : ℝ) * (1 + (1 - c.olap) * ((c.Kdes : ℝ) - 1)))
      (((c.N : ℝ) / 2) ^ ((1 : ℝ) / (c.Jdes : ℝ)) - 1) (vecGrid c i) := by
  unfold vecMap
  simp only [RL.one_eq, RL.two_eq, RL.pow_eq, RL.ofNat_eq]

/-- the entries of the vectorised walk have strictly increasing frequencies -/
theorem vecEntries_increasing (c : Cfg ℝ) (h : Adm c) (fuel : ℕ) :
    (vecEntries c fuel).Pairwise (fun a b => a.1 < b.1) := by
  refine pairwise_lt_of_chain _ (fun e : ℝ × ℝ × ℕ × ℤ => e.1) (fun e => e.2.1)
    (SchedNV.vecWalk_stepping _ _ _ _ _ _) ?_
  intro e he
  exact (vec_entry c h fuel e he).2.2.1

end VecMono

/-- along the vectorised plan L never increases and K never decreases -/
theorem vecPlan_monotone (c : Model.Cfg ℝ) (h : Adm c) (fuel : ℕ) :
    (Model.vecPlan c fuel).Pairwise (fun a b => b.L ≤ a.L ∧ a.K ≤ b.K) := by
  rw [vecPlan_map, List.pairwise_map]
  refine (vecEntries_increasing c h fuel).imp_of_mem ?_
  intro a b ha hb hab
  obtain ⟨ia, hia, hma, hsa⟩ := SchedNV.vecWalk_entry_from_map _ _ _ _ _ _ a ha
  obtain ⟨ib, hib, hmb, hsb⟩ := SchedNV.vecWalk_entry_from_map _ _ _ _ _ _ b hb
  have hidx : ia ≤ ib := by
    rw [hsa, hsb]
    exact SchedNV.searchLeft_mono _ _ hab.le
  have hg := vecGrid_mono c h ia ib hidx hib
  have hp := vecGrid_pos c h ia
  have hN := SchedLtf.N_pos c h
  have hfs := h.hfs
  have hrmin : 0 < c.fs / (c.N : ℝ) := div_pos hfs hN
  have hravg : c.fs / (c.N : ℝ) ≤ c.fs / (c.N : ℝ) * (1 + (1 - c.olap) * ((c.Kdes : ℝ) - 1)) := by
    have hK : (1 : ℝ) ≤ (c.Kdes : ℝ) := by exact_mod_cast h.hK
    have hx : 0 ≤ 1 - c.olap := by linarith [h.holap1]
    have : 0 ≤ (1 - c.olap) * ((c.Kdes : ℝ) - 1) := mul_nonneg hx (by linarith)
    nlinarith
  have hclog : 0 < ((c.N : ℝ) / 2) ^ ((1 : ℝ) / (c.Jdes : ℝ)) - 1 := by
    have := SchedLtf.logfact_pos c h
    rwa [SchedLtf.logfact_eq] at this
  have hm := vecGridPoint_mono c h _ _ _ _ _ hrmin hravg hclog hp hg
  rw [← vecMap_eq, ← vecMap_eq, ← hma, ← hmb] at hm
  exact hm

#print axioms vecGridPoint_mono
#print axioms vecGrid_mono
#print axioms vecGrid_pos
#print axioms vecPlan_monotone
