/-
  SpecKitV.Model.Sched — hand model of speckit/schedulers.py (all four schedulers) and of
  utils.round_half_up / find_Jdes_binary_search.

  Written generically over `RealLike α`: at `Float` it is executed by the driver against the
  real schedulers (same operations in the same order), at `ℝ` it is what Props/C02–C04 talk
  about.  Each definition names the source lines it mirrors.
-/
import SpecKitV.Num

namespace Model
open RealLike
variable {α : Type} [RealLike α]

/-- utils.py:184-206 / schedulers.py:153-158 `round_half_up`:
    `ceil(v)` if `v % 1 >= 0.5` else Python `round(v)` (half-even; never at a tie here). -/
def roundHalfUp (v : α) : Int :=
  let frac := v - ofInt (floor v)
  if ge frac (ofSci 5 true 1) then ceil v else roundEven v

structure Cfg (α : Type) where
  N : Nat
  fs : α
  olap : α
  bmin : α
  Lmin : Nat
  Jdes : Nat
  Kdes : Nat

structure Bin (α : Type) where
  f : α
  r : α
  b : α
  L : Nat
  K : Int
  navg : Int
  D : List Int
  O : α

/-- derived constants shared by the iterative schedulers (schedulers.py:161-166, 392-397) -/
structure Consts (α : Type) where
  xov : α
  fmin : α
  fmax : α
  fresmin : α
  freslim : α
  logfact : α

def consts (c : Cfg α) : Consts α :=
  let xov := one - c.olap
  let fresmin := c.fs / ofNat c.N
  { xov := xov
    fmin := c.fs / ofNat c.N * c.bmin
    fmax := c.fs / two
    fresmin := fresmin
    freslim := fresmin * (one + xov * (ofNat c.Kdes - one))
    logfact := pow (ofNat c.N / two) (one / ofNat c.Jdes) - one }

/-- number of segments for length `L` (schedulers.py:200 and :202 after the cap):
    `min(round_half_up((N-L)/(xov*L)+1), N-L+1)`; `L = N` when the rounded count is 1. -/
def nsegRaw (N : Nat) (xov : α) (L : Nat) : Int :=
  roundHalfUp (ofInt ((N : Int) - (L : Int)) / (xov * ofNat L) + one)

def capK (N L : Nat) (k : Int) : Int :=
  let m := (N : Int) - (L : Int) + 1
  if k ≤ m then k else m

def clampL (N Lmin : Nat) (l : Int) : Nat :=
  let l := if l > (N : Int) then (N : Int) else l
  let l := if l < (Lmin : Int) then (Lmin : Int) else l
  l.toNat

/-- one iteration of the `ltf_plan` walk at frequency `fi` (schedulers.py:181-205):
    returns `(fres, fbin, L, K)`. -/
def ltfStep (c : Cfg α) (k : Consts α) (fi : α) : α × α × Nat × Int :=
  let fres := fi * k.logfact
  let fres :=
    if ge fres k.freslim then fres
    else if lt fres k.freslim && gt (pow (k.freslim * fres) (ofSci 5 true 1)) k.fresmin then
      pow (k.freslim * fres) (ofSci 5 true 1)
    else k.fresmin
  let fbin := fi / fres
  let fres := if lt fbin c.bmin then fi / c.bmin else fres
  let dftlen := clampL c.N c.Lmin (roundHalfUp (c.fs / fres))
  let nseg := nsegRaw c.N k.xov dftlen
  let dftlen := if nseg == 1 then c.N else dftlen
  let nseg := capK c.N dftlen nseg
  let fres := c.fs / ofNat dftlen
  let fbin := fi / fres
  (fres, fbin, dftlen, nseg)

/-- generic walk: `while fi < fmax: (r, b, L, K) = step fi; record; fi += r` -/
def walk (fuel : Nat) (fmax : α) (step : α → α × α × Nat × Int) (fi : α) :
    List (α × α × α × Nat × Int) :=
  match fuel with
  | 0 => []
  | n + 1 =>
    if lt fi fmax then
      let (r, b, L, K) := step fi
      (fi, r, b, L, K) :: walk n fmax step (fi + r)
    else []

/-- `ltf_plan` start positions (schedulers.py:224-237): a running float sum of `shift`,
    each start is `int(start + 0.5)`. -/
def startsAccum (N L : Nat) (K : Int) : List Int :=
  let shift : α :=
    if K == 1 then one
    else ofInt ((N : Int) - (L : Int)) / ofInt (K - 1)
  let shift := if lt shift one then one else shift
  (forRange K.toNat (([] : List Int), (zero : α)) (fun _ (acc : List Int × α) =>
      let start := acc.2
      let istart := if ge start zero then trunc (start + ofSci 5 true 1)
                    else trunc (start - ofSci 5 true 1)
      (acc.1 ++ [istart], start + shift))).1

/-- realised mean overlap as `ltf_plan` computes it (schedulers.py:240-247):
    `mean((L - diff(D)) / L)`, `0` for a single segment. -/
def overlapMean (L : Nat) (D : List Int) : α :=
  match D with
  | [] => zero
  | [_] => zero
  | d0 :: rest =>
    let diffs := (List.zip (d0 :: rest) rest).map (fun (a, b) => b - a)
    let terms : List α := diffs.map (fun df => ofInt ((L : Int) - df) / ofNat L)
    (terms.foldl (· + ·) zero) / ofNat terms.length

def ltfPlan (c : Cfg α) (fuel : Nat) : List (Bin α) :=
  let k := consts c
  (walk fuel k.fmax (ltfStep c k) k.fmin).map (fun (f, r, b, L, K) =>
    let D := startsAccum (α := α) c.N L K
    { f := f, r := r, b := b, L := L, K := K, navg := K, D := D, O := overlapMean L D })

/-- `lpsd_plan` (schedulers.py:54-69): `ltf_plan` with `bmin = 1.0`, `Lmin = 1`. -/
def lpsdPlan (c : Cfg α) (fuel : Nat) : List (Bin α) :=
  ltfPlan { c with bmin := one, Lmin := 1 } fuel

/-! ### shared post-processing of `vectorized_ltf_plan` / `new_ltf_plan`
    (schedulers.py:360-362, 477-479): `shift = (N-L)/(K-1)` where `K>1` else `0`;
    `D = round(arange(K)*shift)` (half-even); `O = (L-shift)/L` where `K>1` else `0`. -/

def shiftOf (N L : Nat) (K : Int) : α :=
  if K > 1 then ofInt ((N : Int) - (L : Int)) / ofInt (K - 1) else zero

def startsEven (N L : Nat) (K : Int) : List Int :=
  let s : α := shiftOf N L K
  (List.range K.toNat).map (fun i => roundEven (ofNat i * s))

def overlapClosed (N L : Nat) (K : Int) : α :=
  if K > 1 then (ofNat L - shiftOf N L K) / ofNat L else zero

/-! ### `vectorized_ltf_plan` (schedulers.py:279-368) -/

/-- value of the parameter map at one grid frequency (schedulers.py:318-339) -/
def vecGridPoint (c : Cfg α) (xov rmin ravg clog : α) (fg : α) : α × Nat × Int :=
  let rp := fg * clog
  let sq := sqrt (ravg * rp)
  let rpp := if ge rp ravg then rp else if gt sq rmin then sq else rmin
  let rpp := if lt (fg / rpp) c.bmin then fg / c.bmin else rpp
  let Lg : Int := roundEven (c.fs / rpp)
  let Lg : Nat := clampClip c.N c.Lmin Lg
  let Kg : Int := roundEven (ofInt ((c.N : Int) - (Lg : Int)) / (xov * ofNat Lg) + one)
  let Lg : Nat := if Kg == 1 then c.N else Lg
  let r := c.fs / ofNat Lg
  let Km : Int := roundEven (ofInt ((c.N : Int) - (Lg : Int)) / (xov * ofNat Lg) + one)
  let Km := capK c.N Lg Km
  (r, Lg, Km)
where
  /-- `np.clip(L, Lmin, N)` = `minimum(maximum(L, Lmin), N)` -/
  clampClip (N Lmin : Nat) (l : Int) : Nat :=
    let l := if l < (Lmin : Int) then (Lmin : Int) else l
    let l := if l > (N : Int) then (N : Int) else l
    l.toNat

/-- `np.logspace(log10 fmin, log10 fmax, n)`: `10 ** linspace(a, b, n)`;
    linspace is `a + i*step`, last point forced to `b`. -/
def logGrid (a b : α) (n : Nat) : Nat → α := fun i =>
  let y : α :=
    if n ≤ 1 then a
    else if i + 1 == n then b
    else a + ofNat i * ((b - a) / ofNat (n - 1))
  pow (ofNat 10) y

/-- `np.searchsorted(grid, v, side='left')` on an increasing grid of `n` points:
    the number of grid points `< v`. -/
def searchLeft (grid : Nat → α) (n : Nat) (v : α) : Nat :=
  forRange n 0 (fun i cnt => if lt (grid i) v then cnt + 1 else cnt)

def vecWalk (fuel : Nat) (fmax : α) (grid : Nat → α) (n : Nat)
    (map : Nat → α × Nat × Int) (fi : α) : List (α × α × Nat × Int) :=
  match fuel with
  | 0 => []
  | m + 1 =>
    if lt fi fmax then
      let idx := searchLeft grid n fi
      if idx ≥ n then []
      else
        let (r, L, K) := map idx
        (fi, r, L, K) :: vecWalk m fmax grid n map (fi + r)
    else []

/-- the plan given the lookup grid (the driver passes a memoised copy of `logGrid`) -/
def vecPlanCore (c : Cfg α) (fuel : Nat) (n : Nat) (grid : Nat → α) : List (Bin α) :=
  let xov := one - c.olap
  let fmin := c.bmin * c.fs / ofNat c.N
  let fmax := c.fs / two
  let rmin := c.fs / ofNat c.N
  let ravg := rmin * (one + xov * (ofNat c.Kdes - one))
  let clog := pow (ofNat c.N / two) (one / ofNat c.Jdes) - one
  let map := fun i => vecGridPoint c xov rmin ravg clog (grid i)
  (vecWalk fuel fmax grid n map fmin).map (fun (f, r, L, K) =>
    { f := f, r := r, b := f / r, L := L, K := K, navg := K,
      D := startsEven (α := α) c.N L K, O := overlapClosed c.N L K })

def vecGrid (c : Cfg α) : Nat → α :=
  logGrid (log10 (c.bmin * c.fs / ofNat c.N)) (log10 (c.fs / two)) (10 * c.Jdes)

def vecPlan (c : Cfg α) (fuel : Nat) : List (Bin α) :=
  vecPlanCore c fuel (10 * c.Jdes) (vecGrid c)

/-! ### `new_ltf_plan` (schedulers.py:371-486) -/

structure NewState (α : Type) where
  fi : α
  j : Nat
  stage2 : Bool
  stage3 : Bool
  alpha : α
  kStage2 : Nat
  crossover : Int

/-- one iteration of the unified loop; returns the bin `(fres, fbin, L, K)` and the next state -/
def newStep (c : Cfg α) (k : Consts α) (s : NewState α) : (α × α × Nat × Int) × NewState α :=
  -- A. dftlen by stage
  let (dftlen, stage2, alpha, kStage2, crossover) : Int × Bool × α × Nat × Int :=
    if s.stage3 then ((c.Lmin : Int), s.stage2, s.alpha, s.kStage2, s.crossover)
    else if s.stage2 then
      (roundEven (ofInt s.crossover * exp (s.alpha * ofNat s.kStage2)), s.stage2, s.alpha,
        s.kStage2 + 1, s.crossover)
    else
      let fresIdeal := s.fi * k.logfact
      if ge fresIdeal k.freslim then
        let ptsLeft : Int := (c.Jdes : Int) - (s.j : Int)
        let alpha := if ptsLeft > 1 && s.crossover > 0 then
            log (ofNat c.Lmin / ofInt s.crossover) / ofInt (ptsLeft - 1) else s.alpha
        let d := roundEven (c.fs / fresIdeal)
        (d, true, alpha, s.kStage2, d)
      else if gt (pow (k.freslim * fresIdeal) (ofSci 5 true 1)) k.fresmin then
        let d := roundEven (c.fs / pow (k.freslim * fresIdeal) (ofSci 5 true 1))
        (d, s.stage2, s.alpha, s.kStage2, d)
      else
        let d := roundEven (c.fs / k.fresmin)
        (d, s.stage2, s.alpha, s.kStage2, d)
  -- B. universal constraints
  let (stage3, dftlen) : Bool × Int :=
    if stage2 && dftlen < (c.Lmin : Int) then (true, (c.Lmin : Int)) else (s.stage3, dftlen)
  let L : Nat := clampL c.N c.Lmin dftlen
  let nseg : Int := roundEven (ofInt ((c.N : Int) - (L : Int)) / (k.xov * ofNat L) + one)
  let L : Nat := if nseg == 1 then c.N else L
  let fres := c.fs / ofNat L
  let fbin := s.fi / fres
  let (L, nseg, fres, fbin) : Nat × Int × α × α :=
    if lt fbin c.bmin then
      let L := clampL c.N c.Lmin (ceil (c.fs * c.bmin / s.fi))
      let nseg : Int := roundEven (ofInt ((c.N : Int) - (L : Int)) / (k.xov * ofNat L) + one)
      let L : Nat := if nseg == 1 then c.N else L
      let fres := c.fs / ofNat L
      (L, nseg, fres, s.fi / fres)
    else (L, nseg, fres, fbin)
  let nseg := capK c.N L nseg
  ((fres, fbin, L, nseg),
   { fi := s.fi + fres, j := s.j + 1, stage2 := stage2, stage3 := stage3, alpha := alpha,
     kStage2 := kStage2, crossover := crossover })

def newWalk (fuel : Nat) (c : Cfg α) (k : Consts α) (s : NewState α) :
    List (α × α × α × Nat × Int) :=
  match fuel with
  | 0 => []
  | n + 1 =>
    if lt s.fi k.fmax then
      let ((r, b, L, K), s') := newStep c k s
      (s.fi, r, b, L, K) :: newWalk n c k s'
    else []

def newPlan (c : Cfg α) (fuel : Nat) : List (Bin α) :=
  let k := consts c
  let s0 : NewState α := { fi := k.fmin, j := 0, stage2 := false, stage3 := false,
                           alpha := zero, kStage2 := 0, crossover := 0 }
  (newWalk fuel c k s0).map (fun (f, r, b, L, K) =>
    { f := f, r := r, b := b, L := L, K := K, navg := K,
      D := startsEven (α := α) c.N L K, O := overlapClosed c.N L K })

/-! ### `find_Jdes_binary_search` (utils.py:43-111) over an abstract `nf : Jdes ↦ bin count` -/

def findJdes (nf : Nat → Nat) (target : Nat) (fuel : Nat) (lower upper : Nat) : Option Nat :=
  match fuel with
  | 0 => none
  | n + 1 =>
    if lower ≤ upper then
      let J := (lower + upper) / 2
      let v := nf J
      if v == target then some J
      else if v < target then findJdes nf target n (J + 1) upper
      else if J == 0 then none else findJdes nf target n lower (J - 1)
    else none

end Model
