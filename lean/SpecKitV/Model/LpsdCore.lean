/-
  SpecKitV.Model.LpsdCore — the right-hand sides the translated region `LpsdCore` is proved equal to, where the existing
  hand model (Model/Analyzer.lean, Model/Pipeline.lean, Props/C02 `planValid`) lacks the definition:

  * `dispatchWith`   `Model.dispatch` with the six kernels of the selected backend as a parameter
                     (`Model.dispatch` is the Numba instance: `dispatchWith_numba` in Props/LpsdCoreGen)
  * `lpsdWindow`     the window `_build_window(L)` hands to the kernels: `win_func(L+1, alpha*pi)[:-1]` for the two Kaiser
                     callables, `win_func(L)` otherwise (analysis.py:868-873, 609-614)
  * `lpsdRow`        the result row `[i, XY, MXX, MYY, S1*S1, S2, M2, elapsed]` (analysis.py:999-1010) from the kernel's
                     5-tuple and `Model.winSums`
  * `planArrays`     a plan given as a list of bins, laid out as the parallel arrays + ragged `D` that `plan()` handles
  Mathlib-free.
-/
import SpecKitV.Model.Pipeline
import SpecKitV.Np.LpsdCore

namespace Model
variable {α : Type} [RealLike α]

/-- kernel dispatch by detrend order and mode, over the six kernels `k` of one backend (same tests, same sequence and the
    same error value as `Model.dispatch`) -/
def dispatchWith (k : NpLC.Kernels6 α) (iscsd : Bool) (order : Int) (x1 x2 : Arr α) (fs : α) (b : PBin α) (w : Arr α)
    (q : Option (Arr2 α)) : α × α × α × α × α :=
  let omega := RealLike.two * RealLike.pi * b.f / fs
  let err : α × α × α × α × α :=
    (RealLike.zero, RealLike.zero, RealLike.zero, RealLike.zero, RealLike.zero)
  if order = -1 then
    (if iscsd then k.win_only_csd x1 x2 b.D b.L w omega
     else k.win_only_auto x1 b.D b.L w omega)
  else if order = 0 then
    (if iscsd then k.detrend0_csd x1 x2 b.D b.L w omega
     else k.detrend0_auto x1 b.D b.L w omega)
  else if order = 1 ∨ order = 2 then
    match q with
    | some Q =>
      (if iscsd then k.poly_csd x1 x2 b.D b.L w omega Q
       else k.poly_auto x1 b.D b.L w omega Q)
    | none => err
  else err

/-- the window `_build_window(L)` builds (before caching): Kaiser callables are asked for `L+1` points with
    `beta = alpha*pi` and the last point is cut; any other callable is asked for `L` points -/
def lpsdWindow (wf : NpLC.WinFunc α) (alpha : α) (L : Nat) : Arr α :=
  if wf.isKaiser then NpLC.sliceTo (wf.call2 (L + 1) (alpha * RealLike.pi)) (-1) else wf.call1 L

abbrev LpsdRow (α : Type) := Nat × Cx α × α × α × α × α × α × Unit

/-- `[i, complex(mu_r, mu_i), MXX, MYY, S1*S1, S2, M2, elapsed]` from the kernel result `(MXX, MYY, mu_r, mu_i, M2)` and the
    window sums `(S1*S1, S2)`; the time stamp is value-irrelevant (`()`) -/
def lpsdRow (i : Nat) (s : α × α × α × α × α) (ws : α × α) : LpsdRow α :=
  (i, ⟨s.2.2.1, s.2.2.2.1⟩, s.1, s.2.1, ws.1, ws.2, s.2.2.2.2, ())

/-- the bin `_lpsd_core` reads at plan index `i` -/
def pbinAt (plan_f : Arr α) (plan_L : Arr Nat) (plan_D : Arr (Arr Nat)) (i : Nat) : PBin α :=
  ⟨plan_f.get i, plan_L.get i, plan_D.get i⟩

/-! ### a plan as parallel arrays -/

/-- field `g` of every bin as an array (`dflt` beyond the end) -/
def colOf {B β : Type} (dflt : β) (g : B → β) (bins : List B) : Arr β :=
  ⟨bins.length, fun i => (bins.map g).getD i dflt⟩

def intArr (l : List Int) : Arr Int := ⟨l.length, fun i => l.getD i 0⟩

end Model
